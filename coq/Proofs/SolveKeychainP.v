(* Proofs/SolveKeychainP.v — lemmas about the Keychain state machine (Model/SolveKeychain.v), property C05. *)
From PV Require Import Base.Bytes Base.Outcome Model.Solve Model.SolveKeychain.

Section KeychainP.
Variable hash160 : bytes -> bytes.
Variable sha256 : bytes -> bytes.
Variable pub_of : bytes -> bool -> bytes.
Variable kfp : bytes -> bytes.
Variable derive : bytes -> bytes -> bytes.

Notation KH := (key_hash hash160 pub_of).
Notation GET := (kc_get hash160 sha256 pub_of kfp derive).
Notation STEP := (kc_step hash160 sha256 pub_of kfp derive).
Notation RUN := (kc_run hash160 sha256 pub_of kfp derive).
Notation FRESH := (kc_fresh_get hash160 sha256 pub_of kfp derive).
Notation FILE := (file_path hash160 pub_of kfp derive).
Notation DALL := (derive_all hash160 pub_of derive).

(* ---- association lists and rows ------------------------------------------------------------------------- *)
Lemma lookup_get_in (t : lookup) h v : lookup_get t h = Some v -> In (h, v) t.
Proof.
  induction t as [|[h' v'] r IH]; cbn [lookup_get]; [discriminate|].
  destruct (bytes_eqb h h') eqn:E.
  - intros H. injection H as ->. apply bytes_eqb_eq in E. subst. now left.
  - intros H. right. now apply IH.
Qed.

Lemma in_lookup_get (t : lookup) h v : In (h, v) t -> exists v', lookup_get t h = Some v' /\ In (h, v') t.
Proof.
  induction t as [|[h' v'] r IH]; [intros []|]. cbn [lookup_get].
  destruct (bytes_eqb h h') eqn:E.
  - intros _. exists v'. split; [reflexivity|]. apply bytes_eqb_eq in E. subst. now left.
  - intros [H|H].
    + injection H as -> ->. rewrite bytes_eqb_refl in E. discriminate.
    + destruct (IH H) as (v'' & H1 & H2). exists v''. split; [exact H1 | now right].
Qed.

Lemma row_eqb_eq a b : row_eqb a b = true <-> a = b.
Proof.
  destruct a as [h [p f]], b as [h' [p' f']]. unfold row_eqb. cbn [fst snd].
  rewrite !andb_true_iff, !bytes_eqb_eq. split; [intros [[-> ->] ->]; reflexivity | intros E; injection E; auto].
Qed.

Lemma paths_insert_old t h path fp x : In x t -> In x (paths_insert t h path fp).
Proof. unfold paths_insert. destruct (existsb _ t); [auto|]. intros; apply in_or_app; now left. Qed.

Lemma paths_insert_has t h path fp : In (h, (path, fp)) (paths_insert t h path fp).
Proof.
  unfold paths_insert. destruct (existsb (row_eqb (h, (path, fp))) t) eqn:E.
  - apply existsb_exists in E. destruct E as (x & Hx & E). apply row_eqb_eq in E. now subst.
  - apply in_or_app. right. now left.
Qed.

Lemma paths_insert_inv t h path fp x : In x (paths_insert t h path fp) -> In x t \/ x = (h, (path, fp)).
Proof.
  unfold paths_insert. destruct (existsb _ t); [auto|]. intros H. apply in_app_or in H. destruct H as [H|[H|[]]]; auto.
Qed.

Lemma rows_for_in t h path fp : In (path, fp) (map snd (rows_for t h)) <-> In (h, (path, fp)) t.
Proof.
  unfold rows_for. rewrite in_map_iff. split.
  - intros ([h' v] & E & Hin). cbn [snd] in E. subst v. apply filter_In in Hin. destruct Hin as [Hin Hb].
    cbn [fst] in Hb. apply bytes_eqb_eq in Hb. now subst.
  - intros Hin. exists (h, (path, fp)). split; [reflexivity|]. apply filter_In. split; [exact Hin | apply bytes_eqb_refl].
Qed.

(* which (key, path) pairs get() derives *)
Lemma to_derive_in k h kid path :
  In (kid, path) (to_derive kfp k h) <-> In (h, (path, kfp kid)) (kc_paths k) /\ In kid (kc_secrets k).
Proof.
  unfold to_derive. rewrite in_flat_map. split.
  - intros ([h' [p f]] & Hr & Hm). cbn [fst snd] in Hm. apply in_map_iff in Hm. destruct Hm as (kid' & E & Hf).
    injection E as -> ->. apply filter_In in Hf. destruct Hf as [Hs Hb]. apply bytes_eqb_eq in Hb. subst f.
    unfold rows_for in Hr. apply filter_In in Hr. destruct Hr as [Hr Hb]. cbn [fst] in Hb. apply bytes_eqb_eq in Hb. subst h'.
    auto.
  - intros [Hr Hs]. exists (h, (path, kfp kid)). split.
    + unfold rows_for. apply filter_In. split; [exact Hr | apply bytes_eqb_refl].
    + cbn [fst snd]. apply in_map_iff. exists kid. split; [reflexivity|]. apply filter_In. split; [exact Hs | apply bytes_eqb_refl].
Qed.

Lemma cache_add_in c se x : In x (cache_add hash160 pub_of c se) ->
  x = (KH se false, (se, false)) \/ x = (KH se true, (se, true)) \/ In x c.
Proof. unfold cache_add. cbn [In]. intuition. Qed.

Lemma derive_all_P (P : bytes * (bytes * bool) -> Prop) l : forall c0,
  (forall x, In x c0 -> P x) ->
  (forall kid path c, In (kid, path) l -> P (KH (derive kid path) c, (derive kid path, c))) ->
  forall x, In x (DALL c0 l) -> P x.
Proof.
  unfold derive_all. induction l as [|[kid path] r IH]; intros c0 H0 Hk; cbn [fold_left]; [exact H0|].
  apply IH; [|intros; eapply Hk; right; eauto].
  intros x Hin. apply cache_add_in in Hin. cbn [fst snd] in Hin.
  destruct Hin as [->|[->|Hin]]; [apply Hk; now left | apply Hk; now left | now apply H0].
Qed.

Lemma derive_all_mono l : forall c0 x, In x c0 -> In x (DALL c0 l).
Proof.
  unfold derive_all. induction l as [|kp r IH]; intros c0 x H; cbn [fold_left]; [exact H|].
  apply IH. unfold cache_add. now right; right.
Qed.

Lemma derive_all_has l : forall c0 kid path c, In (kid, path) l ->
  In (KH (derive kid path) c, (derive kid path, c)) (DALL c0 l).
Proof.
  induction l as [|kp r IH]; intros c0 kid path c; [intros []|]. intros [->|H].
  - unfold derive_all. cbn [fold_left fst snd]. apply (derive_all_mono r). unfold cache_add. destruct c; cbn [In]; auto.
  - unfold derive_all in *. cbn [fold_left]. now apply IH.
Qed.

Hypothesis key_hash_inj : forall se c se' c', KH se c = KH se' c' -> se = se' /\ c = c'.
Hypothesis kfp_inj : forall a b, kfp a = kfp b -> a = b.

(* ---- the invariant ------------------------------------------------------------------------------------- *)
(* every row is the hash of a subkey in one of its two forms, and the same route is filed for the OTHER form too *)
Definition rows_ok (k : kc) : Prop :=
  forall h path fp, In (h, (path, fp)) (kc_paths k) ->
  exists kid c, fp = kfp kid /\ h = KH (derive kid path) c /\ In (KH (derive kid path) (negb c), (path, fp)) (kc_paths k).

(* the secret behind hash h is known to the CURRENT contents: an added private key's own secret, or a subkey named
   by one of h's rows, the private key of that row's fingerprint being present *)
Definition derivable_at (k : kc) (h se : bytes) : Prop :=
  (exists kid, In kid (kc_secrets k) /\ se = derive kid []) \/
  (exists path kid, In (h, (path, kfp kid)) (kc_paths k) /\ In kid (kc_secrets k) /\ se = derive kid path).

Definition cache_ok (k : kc) : Prop :=
  forall h se c, In (h, (se, c)) (kc_cache k) -> h = KH se c /\ derivable_at k h se.

Definition secrets_cached (k : kc) : Prop :=
  forall kid c, In kid (kc_secrets k) -> In (KH (derive kid []) c, (derive kid [], c)) (kc_cache k).

Definition Inv (k : kc) : Prop := rows_ok k /\ cache_ok k /\ secrets_cached k.

Lemma inv_empty : Inv kc_empty.
Proof. split; [|split]; [intros h path fp H | intros h se c H | intros kid c H]; cbn in H; contradiction. Qed.

Lemma kc_eta k : mkKc (kc_paths k) (kc_p2s k) (kc_secrets k) (kc_cache k) = k.
Proof. now destruct k. Qed.

Lemma file_path_old kid path t x : In x t -> In x (FILE kid path t).
Proof. intros H. unfold file_path. now apply paths_insert_old, paths_insert_old. Qed.

Lemma file_path_has kid path t c : In (KH (derive kid path) c, (path, kfp kid)) (FILE kid path t).
Proof.
  unfold file_path. destruct c; [apply paths_insert_old, paths_insert_has | apply paths_insert_has].
Qed.

Lemma derivable_at_mono k k' h se :
  (forall x, In x (kc_paths k) -> In x (kc_paths k')) -> (forall x, In x (kc_secrets k) -> In x (kc_secrets k')) ->
  derivable_at k h se -> derivable_at k' h se.
Proof.
  intros Hp Hs [(kid & H1 & H2)|(path & kid & H1 & H2 & H3)].
  - left. exists kid. auto.
  - right. exists path, kid. auto.
Qed.

Lemma file_path_inv kid path k :
  Inv k -> Inv (mkKc (FILE kid path (kc_paths k)) (kc_p2s k) (kc_secrets k) (kc_cache k)).
Proof.
  intros (Hr & Hc & Hs). split; [|split].
  - intros h p fp Hin. cbn [kc_paths] in *. unfold file_path in Hin.
    apply paths_insert_inv in Hin. destruct Hin as [Hin|Hin]; [apply paths_insert_inv in Hin; destruct Hin as [Hin|Hin]|].
    + destruct (Hr h p fp Hin) as (kid0 & c0 & H1 & H2 & H3). exists kid0, c0. split; [exact H1|]. split; [exact H2|].
      now apply file_path_old.
    + injection Hin as -> -> ->. exists kid, true. split; [reflexivity|]. split; [reflexivity|]. apply file_path_has.
    + injection Hin as -> -> ->. exists kid, false. split; [reflexivity|]. split; [reflexivity|]. apply file_path_has.
  - intros h se c H. destruct (Hc h se c H) as [H1 H2]. split; [exact H1|].
    eapply derivable_at_mono; [| |exact H2]; cbn [kc_paths kc_secrets]; auto. intros; now apply file_path_old.
  - exact Hs.
Qed.

Lemma fold_file_paths_inv kid paths : forall k,
  Inv k -> Inv (mkKc (fold_left (fun t p => FILE kid p t) paths (kc_paths k)) (kc_p2s k) (kc_secrets k) (kc_cache k)).
Proof.
  induction paths as [|p r IH]; intros k HI; cbn [fold_left]; [now rewrite kc_eta|].
  apply (IH (mkKc (FILE kid p (kc_paths k)) (kc_p2s k) (kc_secrets k) (kc_cache k))). now apply file_path_inv.
Qed.

Lemma fold_file_kids_inv path kids : forall k,
  Inv k -> Inv (mkKc (fold_left (fun t kid => FILE kid path t) kids (kc_paths k)) (kc_p2s k) (kc_secrets k) (kc_cache k)).
Proof.
  induction kids as [|kid r IH]; intros k HI; cbn [fold_left]; [now rewrite kc_eta|].
  apply (IH (mkKc (FILE kid path (kc_paths k)) (kc_p2s k) (kc_secrets k) (kc_cache k))). now apply file_path_inv.
Qed.

Lemma get_inv k h : Inv k -> Inv (snd (GET k h)).
Proof.
  intros HI. pose proof HI as (Hr & Hc & Hs). unfold kc_get. destruct (p2s_get hash160 sha256 (kc_p2s k) h); [exact HI|].
  cbn [snd]. destruct (lookup_get (kc_cache k) h); [now rewrite kc_eta|].
  split; [exact Hr|]. split.
  - intros h0 se c H. cbn [kc_paths kc_cache kc_secrets] in *.
    apply (derive_all_P (fun x => fst x = KH (fst (snd x)) (snd (snd x)) /\ derivable_at k (fst x) (fst (snd x)))
                        (to_derive kfp k h) (kc_cache k)) in H.
    + cbn [fst snd] in H. destruct H as [H1 H2]. split; [exact H1|]. eapply derivable_at_mono; [| |exact H2]; auto.
    + intros [h1 [se1 c1]] Hin. cbn [fst snd]. now apply Hc.
    + intros kid path c0 Hk. cbn [fst snd]. split; [reflexivity|].
      apply to_derive_in in Hk. destruct Hk as [Hrow Hk].
      right. exists path, kid. split; [|auto].
      (* the same route is filed for either form of this subkey *)
      destruct (Hr h path (kfp kid) Hrow) as (kid0 & cc & Hfp & Hh & Hother).
      assert (kid0 = kid) as -> by (apply kfp_inj; congruence).
      destruct (Bool.bool_dec c0 cc) as [->|Hne].
      * now rewrite <- Hh.
      * assert (c0 = negb cc) as -> by (destruct c0, cc; try reflexivity; exfalso; apply Hne; reflexivity). exact Hother.
  - intros kid c Hk. cbn [kc_paths kc_cache kc_secrets] in *. apply derive_all_mono. now apply Hs.
Qed.

Lemma step_inv k o : Inv k -> Inv (fst (STEP k o)).
Proof.
  intros HI. destruct o as [kid paths|kids path|kid|s|h|]; cbn [kc_step fst].
  - now apply fold_file_paths_inv.
  - now apply fold_file_kids_inv.
  - destruct HI as (Hr & Hc & Hs).
    set (secrets' := if existsb (bytes_eqb kid) (kc_secrets k) then kc_secrets k else kc_secrets k ++ [kid]).
    assert (Hmono : forall x, In x (kc_secrets k) -> In x secrets').
    { unfold secrets'. destruct (existsb _ _); [auto|]. intros; apply in_or_app; now left. }
    assert (Hkid : In kid secrets').
    { unfold secrets'. destruct (existsb (bytes_eqb kid) (kc_secrets k)) eqn:E.
      - apply existsb_exists in E. destruct E as (x & Hx & E). apply bytes_eqb_eq in E. now subst.
      - apply in_or_app. right. now left. }
    split; [exact Hr|]. split.
    + intros h se c H. cbn [kc_paths kc_cache kc_secrets] in *. apply cache_add_in in H.
      assert (Hd : forall h', derivable_at (mkKc (kc_paths k) (kc_p2s k) secrets' (cache_add hash160 pub_of (kc_cache k) (derive kid []))) h' (derive kid []))
        by (intros; left; exists kid; auto).
      destruct H as [H|[H|H]]; [injection H as -> -> ->; split; [reflexivity|apply Hd]
                              | injection H as -> -> ->; split; [reflexivity|apply Hd]|].
      destruct (Hc h se c H) as [H1 H2]. split; [exact H1|]. eapply derivable_at_mono; [| |exact H2]; auto.
    + intros kid' c Hin. cbn [kc_paths kc_cache kc_secrets] in *. unfold secrets' in Hin.
      assert (Hcase : In kid' (kc_secrets k) \/ kid' = kid).
      { destruct (existsb _ _); [now left|]. apply in_app_or in Hin. destruct Hin as [Hin|[Hin|[]]]; auto. }
      destruct Hcase as [Hin'| ->].
      * unfold cache_add. right; right. now apply Hs.
      * unfold cache_add. destruct c; cbn [In]; auto.
  - destruct HI as (Hr & Hc & Hs). split; [exact Hr|]. split; [|exact Hs].
    intros h se c H. cbn [kc_paths kc_cache kc_secrets] in *. destruct (Hc h se c H) as [H1 H2]. split; [exact H1|].
    eapply derivable_at_mono; [| |exact H2]; auto.
  - pose proof (get_inv k h HI) as H. destruct (GET k h) as [r k']. exact H.
  - destruct HI as (Hr & Hc & Hs). split; [exact Hr|]. split; [intros h se c H | intros kid c H]; cbn in H; contradiction.
Qed.

Lemma run_inv ops : forall k, Inv k -> Inv (fst (RUN k ops)).
Proof.
  induction ops as [|o r IH]; intros k HI; cbn [kc_run]; [exact HI|].
  pose proof (step_inv k o HI) as H1. destruct (STEP k o) as [k1 a]. cbn [fst] in H1.
  pose proof (IH k1 H1) as H2. destruct (RUN k1 r) as [k2 b]. exact H2.
Qed.

(* ---- what get() answers ----------------------------------------------------------------------------- *)
Lemma get_sound k h se c : Inv k -> fst (GET k h) = KEntry se c -> h = KH se c /\ derivable_at k h se.
Proof.
  intros HI H. pose proof (get_inv k h HI) as (_ & Hc & _).
  unfold kc_get in *. destruct (p2s_get hash160 sha256 (kc_p2s k) h); [discriminate|].
  cbn [fst snd] in *.
  set (cache' := match lookup_get (kc_cache k) h with Some _ => kc_cache k | None => _ end) in *.
  destruct (lookup_get cache' h) as [[se' c']|] eqn:El; [|discriminate].
  injection H as -> ->. apply lookup_get_in in El.
  destruct (Hc h se c El) as [H1 H2]. split; [exact H1|].
  eapply derivable_at_mono; [| |exact H2]; auto.
Qed.

(* completeness: ANY filed route to the hash whose private key is present makes get() answer with the key *)
Lemma get_registered k h path kid : Inv k ->
  p2s_get hash160 sha256 (kc_p2s k) h = None ->
  In (h, (path, kfp kid)) (kc_paths k) -> In kid (kc_secrets k) ->
  exists c, h = KH (derive kid path) c /\ fst (GET k h) = KEntry (derive kid path) c.
Proof.
  intros HI Hp2 Ha Hk. pose proof (get_inv k h HI) as (_ & Hc' & _). destruct HI as (Hr & Hc & Hs).
  destruct (Hr h path (kfp kid) Ha) as (kid0 & c0 & Hfp & Hh & _).
  assert (kid0 = kid) as -> by (apply kfp_inj; congruence).
  exists c0. split; [exact Hh|].
  unfold kc_get in *. rewrite Hp2 in *. cbn [fst snd kc_cache] in *.
  set (cache' := match lookup_get (kc_cache k) h with Some _ => kc_cache k | None => _ end) in *.
  assert (Hin : exists v, In (h, v) cache').
  { unfold cache'. destruct (lookup_get (kc_cache k) h) as [v|] eqn:El.
    - exists v. now apply lookup_get_in.
    - exists (derive kid path, c0). rewrite Hh. apply derive_all_has. apply to_derive_in. now rewrite <- Hh. }
  destruct Hin as (v & Hin). destruct (in_lookup_get _ _ _ Hin) as ([se c] & Hl & Hin'). rewrite Hl.
  destruct (Hc' h se c Hin') as [He _]. rewrite Hh in He. apply key_hash_inj in He. destruct He as [-> ->]. reflexivity.
Qed.

Lemma get_added_secret k kid c : Inv k ->
  p2s_get hash160 sha256 (kc_p2s k) (KH (derive kid []) c) = None -> In kid (kc_secrets k) ->
  fst (GET k (KH (derive kid []) c)) = KEntry (derive kid []) c.
Proof.
  intros HI Hp2 Hk. destruct HI as (Hr & Hc & Hs).
  unfold kc_get. rewrite Hp2. cbn [fst].
  destruct (in_lookup_get _ _ _ (Hs kid c Hk)) as ([se c'] & Hl & Hin). rewrite Hl, Hl.
  destruct (Hc _ se c' Hin) as [He _]. apply key_hash_inj in He. destruct He as [-> ->]. reflexivity.
Qed.

(* the answer is a function of the contents: an entry is returned exactly when the contents know the secret *)
Lemma get_entry_iff k h se c : Inv k -> p2s_get hash160 sha256 (kc_p2s k) h = None ->
  (fst (GET k h) = KEntry se c <-> h = KH se c /\ derivable_at k h se).
Proof.
  intros HI Hp2. split; [now apply get_sound|].
  intros [Hh [(kid & Hk & ->)|(path & kid & Ha & Hk & ->)]].
  - subst h. now apply get_added_secret.
  - destruct (get_registered k h path kid HI Hp2 Ha Hk) as (c0 & Hh0 & Hg).
    rewrite Hh in Hh0. apply key_hash_inj in Hh0. destruct Hh0 as [_ ->]. exact Hg.
Qed.

Lemma fresh_inv k : Inv k ->
  Inv (mkKc (kc_paths k) (kc_p2s k) (kc_secrets k) (DALL [] (map (fun kid => (kid, [])) (kc_secrets k)))).
Proof.
  intros (Hr & _ & _). split; [exact Hr|]. split.
  - intros h se c H. cbn [kc_paths kc_cache kc_secrets] in *.
    apply (derive_all_P (fun x => fst x = KH (fst (snd x)) (snd (snd x)) /\
             exists kid, In kid (kc_secrets k) /\ fst (snd x) = derive kid []) _ []) in H.
    + cbn [fst snd] in H. destruct H as (H1 & kid & H2 & H3). split; [exact H1|]. left. exists kid. auto.
    + intros x [].
    + intros kid path c0 Hk. cbn [fst snd]. apply in_map_iff in Hk. destruct Hk as (kid' & E & Hk). injection E as -> <-.
      split; [reflexivity|]. exists kid. auto.
  - intros kid c Hk. cbn [kc_paths kc_cache kc_secrets] in *. apply derive_all_has. apply in_map_iff. exists kid. auto.
Qed.

(* two keychains with the same tables and secrets, both reachable, answer alike *)
Lemma get_determined k1 k2 h : Inv k1 -> Inv k2 ->
  kc_paths k1 = kc_paths k2 -> kc_p2s k1 = kc_p2s k2 -> kc_secrets k1 = kc_secrets k2 ->
  fst (GET k1 h) = fst (GET k2 h).
Proof.
  intros H1 H2 Ep E2 Es.
  destruct (p2s_get hash160 sha256 (kc_p2s k1) h) as [s|] eqn:Ep2.
  - unfold kc_get. rewrite <- E2, Ep2. reflexivity.
  - assert (Ep2' : p2s_get hash160 sha256 (kc_p2s k2) h = None) by now rewrite <- E2.
    assert (Hd : forall se, derivable_at k1 h se <-> derivable_at k2 h se).
    { intros se. unfold derivable_at. now rewrite Ep, Es. }
    destruct (fst (GET k1 h)) as [s|se c|] eqn:G1.
    + unfold kc_get in G1. rewrite Ep2 in G1. cbn [fst] in G1. destruct (lookup_get _ h) as [[? ?]|]; discriminate.
    + symmetry. apply (get_entry_iff k2 h se c H2 Ep2'). apply (get_entry_iff k1 h se c H1 Ep2) in G1.
      destruct G1 as [Ha Hb]. split; [exact Ha | now apply Hd].
    + destruct (fst (GET k2 h)) as [s|se c|] eqn:G2; [| |reflexivity].
      * unfold kc_get in G2. rewrite Ep2' in G2. cbn [fst] in G2. destruct (lookup_get _ h) as [[? ?]|]; discriminate.
      * apply (get_entry_iff k2 h se c H2 Ep2') in G2. destruct G2 as [Ha Hb].
        assert (G1' : fst (GET k1 h) = KEntry se c) by (apply (get_entry_iff k1 h se c H1 Ep2); split; [exact Ha | now apply Hd]).
        congruence.
Qed.

(* HISTORY INDEPENDENCE: after any history the answer for ANY hash is the one of a keychain built afresh from the
   same tables and secrets and asked once *)
Theorem history_independent ops h : let k := fst (RUN kc_empty ops) in fst (GET k h) = FRESH k h.
Proof.
  cbn zeta. pose proof (run_inv ops kc_empty inv_empty) as HI. unfold kc_fresh_get.
  apply get_determined; auto. now apply fresh_inv.
Qed.

Theorem sound ops h se c :
  let k := fst (RUN kc_empty ops) in
  fst (GET k h) = KEntry se c -> h = KH se c /\ derivable_at k h se.
Proof. cbn zeta. intros H. eapply get_sound; [|exact H]. apply run_inv. apply inv_empty. Qed.

(* ---- completeness over histories -------------------------------------------------------------------- *)
Lemma run_app a : forall k b, fst (RUN k (a ++ b)) = fst (RUN (fst (RUN k a)) b).
Proof.
  induction a as [|o r IH]; intros k b; cbn [app kc_run]; [reflexivity|].
  destruct (STEP k o) as [k1 x]. specialize (IH k1 b).
  destruct (RUN k1 (r ++ b)) as [k2 y]. destruct (RUN k1 r) as [k3 z]. cbn [fst] in *. exact IH.
Qed.

Lemma fold_file_paths_old kid paths : forall t x, In x t -> In x (fold_left (fun t p => FILE kid p t) paths t).
Proof. induction paths as [|p r IH]; intros t x H; cbn [fold_left]; [exact H|]. apply IH. now apply file_path_old. Qed.

Lemma fold_file_kids_old path kids : forall t x, In x t -> In x (fold_left (fun t kid => FILE kid path t) kids t).
Proof. induction kids as [|p r IH]; intros t x H; cbn [fold_left]; [exact H|]. apply IH. now apply file_path_old. Qed.

(* rows are never removed *)
Lemma step_rows k o x : In x (kc_paths k) -> In x (kc_paths (fst (STEP k o))).
Proof.
  destruct o as [kid paths|kids path|kid|s|h|]; cbn [kc_step fst kc_paths]; auto.
  - apply fold_file_paths_old.
  - apply fold_file_kids_old.
  - unfold kc_get. destruct (p2s_get _ _ _ _); cbn [fst snd kc_paths]; auto.
Qed.

Lemma run_rows ops : forall k x, In x (kc_paths k) -> In x (kc_paths (fst (RUN k ops))).
Proof.
  induction ops as [|o r IH]; intros k x H; cbn [kc_run]; [exact H|].
  pose proof (step_rows k o x H) as H1. destruct (STEP k o) as [k1 a]. cbn [fst] in H1.
  specialize (IH k1 x H1). destruct (RUN k1 r) as [k2 b]. exact IH.
Qed.

(* COMPLETENESS: a route filed at any point of the history, its private key present at the end: the key is answered,
   in either form *)
Theorem complete ops1 ops2 kid path c :
  let k := fst (RUN kc_empty (ops1 ++ KAddPaths kid [path] :: ops2)) in
  In kid (kc_secrets k) ->
  p2s_get hash160 sha256 (kc_p2s k) (KH (derive kid path) c) = None ->
  fst (GET k (KH (derive kid path) c)) = KEntry (derive kid path) c.
Proof.
  cbn zeta. intros Hk Hp2.
  pose proof (run_inv (ops1 ++ KAddPaths kid [path] :: ops2) kc_empty inv_empty) as HI.
  assert (Hrow : In (KH (derive kid path) c, (path, kfp kid))
                    (kc_paths (fst (RUN kc_empty (ops1 ++ KAddPaths kid [path] :: ops2))))).
  { rewrite run_app. cbn [kc_run]. set (k1 := fst (RUN kc_empty ops1)).
    cbn [kc_step fold_left].
    destruct (RUN (mkKc (FILE kid path (kc_paths k1)) (kc_p2s k1) (kc_secrets k1) (kc_cache k1)) ops2) as [k2 b] eqn:E.
    cbn [fst]. change k2 with (fst (k2, b)). rewrite <- E. apply run_rows. cbn [kc_paths]. apply file_path_has. }
  destruct (get_registered _ _ path kid HI Hp2 Hrow Hk) as (c0 & Hh & Hg).
  apply key_hash_inj in Hh. destruct Hh as [_ <-]. exact Hg.
Qed.

(* ... and both hashes of a private key that was added itself *)
Theorem complete_added ops kid c :
  let k := fst (RUN kc_empty ops) in
  p2s_get hash160 sha256 (kc_p2s k) (KH (derive kid []) c) = None -> In kid (kc_secrets k) ->
  fst (GET k (KH (derive kid []) c)) = KEntry (derive kid []) c.
Proof. cbn zeta. intros. apply get_added_secret; auto. apply run_inv, inv_empty. Qed.
End KeychainP.
