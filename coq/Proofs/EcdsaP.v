(* Proofs/EcdsaP.v — lemmas about Model/Ecdsa.v: Curve.inverse_mod (extended Euclid, fuel sufficiency),
   then verify / sign / recover over an abstract group satisfying Spec/EcdsaSpec.group_laws. *)
From Coq Require Import ZArith List Lia Bool Znumtheory Zdiv Morphisms Setoid.
From Coq Require Import ZifyBool ZifyNat.
From PV Require Import Base.Bytes Base.Outcome Model.Ecdsa Spec.EcdsaSpec.
Import ListNotations.
Local Open Scope Z_scope.

(* ============================================================================================ *)
(* inverse_mod *)

Lemma inv_loop_sound a m : forall fuel c d uc ud d' u',
  0 <= c -> 0 < d -> (m | uc * a - c) -> (m | ud * a - d) ->
  inv_loop fuel c d uc ud = Ret (d', u') ->
  d' = Z.gcd c d /\ (m | u' * a - d').
Proof.
  induction fuel as [|f IH]; intros c d uc ud d' u' Hc Hd Huc Hud H; cbn [inv_loop] in H; [discriminate|].
  destruct (c =? 0) eqn:E.
  - apply Z.eqb_eq in E. subst c. inversion H; subst. split; [|assumption].
    rewrite Z.gcd_0_l. lia.
  - apply Z.eqb_neq in E.
    apply IH in H.
    + destruct H as [H1 H2]. split; [|assumption].
      rewrite H1. apply Z.gcd_mod. lia.
    + apply Z.mod_pos_bound. lia.
    + lia.
    + replace ((ud - d / c * uc) * a - d mod c) with ((ud * a - d) - (d / c) * (uc * a - c)).
      * apply Z.divide_sub_r; [assumption|]. apply Z.divide_mul_r. assumption.
      * rewrite (Z.mod_eq d c) by lia. ring.
    + assumption.
Qed.

Lemma inv_loop_fuel : forall f c d uc ud,
  0 <= c < d -> c * d < 2 ^ Z.of_nat f -> exists r, inv_loop (S f) c d uc ud = Ret r.
Proof.
  induction f as [|f IH]; intros c d uc ud Hcd Hlt; cbn [inv_loop].
  - destruct (c =? 0) eqn:E; [eauto|]. apply Z.eqb_neq in E. cbn in Hlt. nia.
  - destruct (c =? 0) eqn:E; [eauto|]. apply Z.eqb_neq in E.
    apply IH.
    + pose proof (Z.mod_pos_bound d c). lia.
    + rewrite Nat2Z.inj_succ, Z.pow_succ_r in Hlt by lia.
      pose proof (Z.mod_pos_bound d c ltac:(lia)) as Hm.
      pose proof (Z.div_mod d c ltac:(lia)) as Hdm.
      assert (1 <= d / c) by (apply Z.div_le_lower_bound; lia).
      nia.
Qed.

Lemma inv_fuel_bound m : 0 < m -> m * m < 2 ^ Z.of_nat (2 * Z.to_nat (Z.log2 m) + 2).
Proof.
  intros Hm.
  pose proof (Z.log2_nonneg m) as Hl.
  replace (Z.of_nat (2 * Z.to_nat (Z.log2 m) + 2)) with ((Z.log2 m + 1) + (Z.log2 m + 1)) by lia.
  rewrite Z.pow_add_r by lia.
  pose proof (Z.log2_spec m Hm) as [_ H2]. rewrite <- Z.add_1_r in H2.
  nia.
Qed.

Definition norm_arg (a m : Z) : Z := if (a <? 0) || (m <=? a) then a mod m else a.

Lemma norm_arg_range a m : 0 < m -> 0 <= norm_arg a m < m.
Proof.
  intros Hm. unfold norm_arg. destruct ((a <? 0) || (m <=? a)) eqn:E.
  - apply Z.mod_pos_bound; lia.
  - lia.
Qed.

Lemma norm_arg_mod a m : 0 < m -> norm_arg a m = a mod m.
Proof.
  intros Hm. unfold norm_arg. destruct ((a <? 0) || (m <=? a)) eqn:E; [reflexivity|].
  symmetry. apply Z.mod_small. lia.
Qed.

Lemma inverse_mod_unfold a m :
  inverse_mod a m =
  bind (inv_loop (inv_fuel m) (norm_arg a m) m 1 0)
       (fun x => match x with (d, ud) => if d =? 1 then Ret (if 0 <? ud then ud else ud + m) else Raise E_ASSERT end).
Proof. reflexivity. Qed.

(* the loop always terminates within inv_fuel m iterations and returns gcd and a Bezout coefficient *)
Lemma inv_loop_total a m : 0 < m ->
  exists u, inv_loop (inv_fuel m) (norm_arg a m) m 1 0 = Ret (Z.gcd a m, u) /\ (m | u * a - Z.gcd a m).
Proof.
  intros Hm.
  pose proof (norm_arg_range a m Hm) as Hr.
  assert (Hf : exists r, inv_loop (inv_fuel m) (norm_arg a m) m 1 0 = Ret r).
  { unfold inv_fuel. replace (2 * Z.to_nat (Z.log2 m) + 3)%nat with (S (2 * Z.to_nat (Z.log2 m) + 2)) by lia.
    apply inv_loop_fuel; [lia|]. pose proof (inv_fuel_bound m Hm). nia. }
  destruct Hf as [[d' u'] Hf].
  assert (Hi1 : (m | 1 * norm_arg a m - norm_arg a m)) by (exists 0; ring).
  assert (Hi2 : (m | 0 * norm_arg a m - m)) by (exists (-1); ring).
  pose proof (inv_loop_sound (norm_arg a m) m _ _ _ _ _ _ _ (proj1 Hr) Hm Hi1 Hi2 Hf) as [H1 H2].
  assert (Hg : d' = Z.gcd a m).
  { rewrite H1, norm_arg_mod by assumption. rewrite Z.gcd_mod by lia. apply Z.gcd_comm. }
  subst d'. rewrite Hg in Hf, H2. exists u'. split; [exact Hf|].
  (* u' * norm - g divisible, norm = a mod m *)
  rewrite norm_arg_mod in H2 by assumption.
  destruct H2 as [q Hq]. exists (q + u' * (a / m)).
  rewrite (Z.mod_eq a m) in Hq by lia. lia.
Qed.

Lemma inverse_mod_coprime a m : 0 < m -> Z.gcd a m = 1 ->
  exists u, inverse_mod a m = Ret u /\ (a * u) mod m = 1 mod m.
Proof.
  intros Hm Hg. destruct (inv_loop_total a m Hm) as [u [Hl Hd]].
  rewrite Hg in *. rewrite inverse_mod_unfold, Hl. cbn [bind]. rewrite Z.eqb_refl.
  eexists. split; [reflexivity|].
  destruct Hd as [q Hq].
  destruct (0 <? u).
  - replace (a * u) with (1 + q * m) by lia. apply Z.mod_add. lia.
  - replace (a * (u + m)) with (1 + (q + a) * m) by lia. apply Z.mod_add. lia.
Qed.

Lemma inverse_mod_not_coprime a m : 0 < m -> Z.gcd a m <> 1 -> inverse_mod a m = Raise E_ASSERT.
Proof.
  intros Hm Hg. destruct (inv_loop_total a m Hm) as [u [Hl Hd]].
  rewrite inverse_mod_unfold, Hl. cbn [bind].
  destruct (Z.gcd a m =? 1) eqn:E; [apply Z.eqb_eq in E; contradiction|reflexivity].
Qed.

(* what a returned value is, without assuming anything on a *)
Lemma inverse_mod_ret a m u : 0 < m -> inverse_mod a m = Ret u -> (a * u) mod m = 1 mod m.
Proof.
  intros Hm H. destruct (Z.eq_dec (Z.gcd a m) 1) as [Hg|Hg].
  - destruct (inverse_mod_coprime a m Hm Hg) as [u' [H1 H2]]. congruence.
  - rewrite inverse_mod_not_coprime in H by assumption. discriminate.
Qed.

Lemma prime_gcd n a : prime n -> a mod n <> 0 -> Z.gcd a n = 1.
Proof.
  intros Hp Ha.
  apply Zgcd_1_rel_prime. apply rel_prime_sym. apply prime_rel_prime; [assumption|].
  intros Hd. apply Ha. apply Z.mod_divide; [pose proof (prime_ge_2 n Hp); lia|assumption].
Qed.

Lemma inverse_mod_prime n a : prime n -> a mod n <> 0 ->
  exists u, inverse_mod a n = Ret u /\ (a * u) mod n = 1.
Proof.
  intros Hp Ha. pose proof (prime_ge_2 n Hp) as H2.
  destruct (inverse_mod_coprime a n ltac:(lia) (prime_gcd n a Hp Ha)) as [u [H1 H3]].
  exists u. split; [assumption|]. rewrite H3. apply Z.mod_small. lia.
Qed.
