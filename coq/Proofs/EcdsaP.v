(* Proofs/EcdsaP.v — lemmas about Model/Ecdsa.v: Curve.inverse_mod (extended Euclid, fuel sufficiency),
   then verify / sign / recover over an abstract group satisfying Spec/EcdsaSpec.group_laws. *)
From Coq Require Import ZArith List Lia Bool Znumtheory Zdiv Morphisms Setoid.
From Coq Require Import ZifyBool ZifyNat.
From PV Require Import Base.Bytes Base.Outcome Model.Ecdsa Spec.EcdsaSpec.
Import ListNotations.
Local Open Scope Z_scope.

(* ============================================================================================ *)
(* inverse_mod *)

Lemma inv_loop_sound a m : forall fuel c d uc ud d' u',
  0 <= c -> 0 < d -> (m | uc * a - c) -> (m | ud * a - d) ->
  inv_loop fuel c d uc ud = Ret (d', u') ->
  d' = Z.gcd c d /\ (m | u' * a - d').
Proof.
  induction fuel as [|f IH]; intros c d uc ud d' u' Hc Hd Huc Hud H; cbn [inv_loop] in H; [discriminate|].
  destruct (c =? 0) eqn:E.
  - apply Z.eqb_eq in E. subst c. inversion H; subst. split; [|assumption].
    rewrite Z.gcd_0_l. lia.
  - apply Z.eqb_neq in E.
    apply IH in H.
    + destruct H as [H1 H2]. split; [|assumption].
      rewrite H1. apply Z.gcd_mod. lia.
    + apply Z.mod_pos_bound. lia.
    + lia.
    + replace ((ud - d / c * uc) * a - d mod c) with ((ud * a - d) - (d / c) * (uc * a - c)).
      * apply Z.divide_sub_r; [assumption|]. apply Z.divide_mul_r. assumption.
      * rewrite (Z.mod_eq d c) by lia. ring.
    + assumption.
Qed.

Lemma inv_loop_fuel : forall f c d uc ud,
  0 <= c < d -> c * d < 2 ^ Z.of_nat f -> exists r, inv_loop (S f) c d uc ud = Ret r.
Proof.
  induction f as [|f IH]; intros c d uc ud Hcd Hlt; cbn [inv_loop].
  - destruct (c =? 0) eqn:E; [eauto|]. apply Z.eqb_neq in E. cbn in Hlt. nia.
  - destruct (c =? 0) eqn:E; [eauto|]. apply Z.eqb_neq in E.
    apply IH.
    + pose proof (Z.mod_pos_bound d c). lia.
    + rewrite Nat2Z.inj_succ, Z.pow_succ_r in Hlt by lia.
      pose proof (Z.mod_pos_bound d c ltac:(lia)) as Hm.
      pose proof (Z.div_mod d c ltac:(lia)) as Hdm.
      assert (1 <= d / c) by (apply Z.div_le_lower_bound; lia).
      nia.
Qed.

Lemma inv_fuel_bound m : 0 < m -> m * m < 2 ^ Z.of_nat (2 * Z.to_nat (Z.log2 m) + 2).
Proof.
  intros Hm.
  pose proof (Z.log2_nonneg m) as Hl.
  replace (Z.of_nat (2 * Z.to_nat (Z.log2 m) + 2)) with ((Z.log2 m + 1) + (Z.log2 m + 1)) by lia.
  rewrite Z.pow_add_r by lia.
  pose proof (Z.log2_spec m Hm) as [_ H2]. rewrite <- Z.add_1_r in H2.
  nia.
Qed.

Definition norm_arg (a m : Z) : Z := if (a <? 0) || (m <=? a) then a mod m else a.

Lemma norm_arg_range a m : 0 < m -> 0 <= norm_arg a m < m.
Proof.
  intros Hm. unfold norm_arg. destruct ((a <? 0) || (m <=? a)) eqn:E.
  - apply Z.mod_pos_bound; lia.
  - lia.
Qed.

Lemma norm_arg_mod a m : 0 < m -> norm_arg a m = a mod m.
Proof.
  intros Hm. unfold norm_arg. destruct ((a <? 0) || (m <=? a)) eqn:E; [reflexivity|].
  symmetry. apply Z.mod_small. lia.
Qed.

Lemma inverse_mod_unfold a m :
  inverse_mod a m =
  bind (inv_loop (inv_fuel m) (norm_arg a m) m 1 0)
       (fun x => match x with (d, ud) => if d =? 1 then Ret (if 0 <? ud then ud else ud + m) else Raise E_ASSERT end).
Proof. reflexivity. Qed.

(* the loop always terminates within inv_fuel m iterations and returns gcd and a Bezout coefficient *)
Lemma inv_loop_total a m : 0 < m ->
  exists u, inv_loop (inv_fuel m) (norm_arg a m) m 1 0 = Ret (Z.gcd a m, u) /\ (m | u * a - Z.gcd a m).
Proof.
  intros Hm.
  pose proof (norm_arg_range a m Hm) as Hr.
  assert (Hf : exists r, inv_loop (inv_fuel m) (norm_arg a m) m 1 0 = Ret r).
  { unfold inv_fuel. replace (2 * Z.to_nat (Z.log2 m) + 3)%nat with (S (2 * Z.to_nat (Z.log2 m) + 2)) by lia.
    apply inv_loop_fuel; [lia|]. pose proof (inv_fuel_bound m Hm). nia. }
  destruct Hf as [[d' u'] Hf].
  assert (Hi1 : (m | 1 * norm_arg a m - norm_arg a m)) by (exists 0; ring).
  assert (Hi2 : (m | 0 * norm_arg a m - m)) by (exists (-1); ring).
  pose proof (inv_loop_sound (norm_arg a m) m _ _ _ _ _ _ _ (proj1 Hr) Hm Hi1 Hi2 Hf) as [H1 H2].
  assert (Hg : d' = Z.gcd a m).
  { rewrite H1, norm_arg_mod by assumption. rewrite Z.gcd_mod by lia. apply Z.gcd_comm. }
  subst d'. rewrite Hg in Hf, H2. exists u'. split; [exact Hf|].
  (* u' * norm - g divisible, norm = a mod m *)
  rewrite norm_arg_mod in H2 by assumption.
  destruct H2 as [q Hq]. exists (q + u' * (a / m)).
  rewrite (Z.mod_eq a m) in Hq by lia. lia.
Qed.

Lemma inverse_mod_coprime a m : 0 < m -> Z.gcd a m = 1 ->
  exists u, inverse_mod a m = Ret u /\ (a * u) mod m = 1 mod m.
Proof.
  intros Hm Hg. destruct (inv_loop_total a m Hm) as [u [Hl Hd]].
  rewrite Hg in *. rewrite inverse_mod_unfold, Hl. cbn [bind]. rewrite Z.eqb_refl.
  eexists. split; [reflexivity|].
  destruct Hd as [q Hq].
  destruct (0 <? u).
  - replace (a * u) with (1 + q * m) by lia. apply Z.mod_add. lia.
  - replace (a * (u + m)) with (1 + (q + a) * m) by lia. apply Z.mod_add. lia.
Qed.

Lemma inverse_mod_not_coprime a m : 0 < m -> Z.gcd a m <> 1 -> inverse_mod a m = Raise E_ASSERT.
Proof.
  intros Hm Hg. destruct (inv_loop_total a m Hm) as [u [Hl Hd]].
  rewrite inverse_mod_unfold, Hl. cbn [bind].
  destruct (Z.gcd a m =? 1) eqn:E; [apply Z.eqb_eq in E; contradiction|reflexivity].
Qed.

(* what a returned value is, without assuming anything on a *)
Lemma inverse_mod_ret a m u : 0 < m -> inverse_mod a m = Ret u -> (a * u) mod m = 1 mod m.
Proof.
  intros Hm H. destruct (Z.eq_dec (Z.gcd a m) 1) as [Hg|Hg].
  - destruct (inverse_mod_coprime a m Hm Hg) as [u' [H1 H2]]. congruence.
  - rewrite inverse_mod_not_coprime in H by assumption. discriminate.
Qed.

Lemma prime_gcd n a : prime n -> a mod n <> 0 -> Z.gcd a n = 1.
Proof.
  intros Hp Ha.
  apply Zgcd_1_rel_prime. apply rel_prime_sym. apply prime_rel_prime; [assumption|].
  intros Hd. apply Ha. apply Z.mod_divide; [pose proof (prime_ge_2 n Hp); lia|assumption].
Qed.

Lemma inverse_mod_prime n a : prime n -> a mod n <> 0 ->
  exists u, inverse_mod a n = Ret u /\ (a * u) mod n = 1.
Proof.
  intros Hp Ha. pose proof (prime_ge_2 n Hp) as H2.
  destruct (inverse_mod_coprime a n ltac:(lia) (prime_gcd n a Hp Ha)) as [u [H1 H3]].
  exists u. split; [assumption|]. rewrite H3. apply Z.mod_small. lia.
Qed.

(* ============================================================================================ *)
(* congruences modulo n, as an inductive wrapper so that `rewrite` goes through the setoid machinery *)

Inductive eqm (n a b : Z) : Prop := eqm_intro : a mod n = b mod n -> eqm n a b.

Lemma eqm_def n a b : eqm n a b <-> a mod n = b mod n.
Proof. split; [intros [H]; exact H|apply eqm_intro]. Qed.

Lemma eqm_to_mod n a b : eqm n a b -> a mod n = b mod n.
Proof. apply eqm_def. Qed.

#[export] Instance eqm_equiv n : Equivalence (eqm n).
Proof.
  split.
  - intros a. apply eqm_def. reflexivity.
  - intros a b H. apply eqm_def in H. apply eqm_def. symmetry. exact H.
  - intros a b c H1 H2. apply eqm_def in H1, H2. apply eqm_def. congruence.
Qed.

#[export] Instance eqm_add n : Proper (eqm n ==> eqm n ==> eqm n) Z.add.
Proof.
  intros a a' Ha b b' Hb. apply eqm_def in Ha, Hb. apply eqm_def.
  rewrite (Zplus_mod a b), (Zplus_mod a' b'), Ha, Hb. reflexivity.
Qed.

#[export] Instance eqm_mul n : Proper (eqm n ==> eqm n ==> eqm n) Z.mul.
Proof.
  intros a a' Ha b b' Hb. apply eqm_def in Ha, Hb. apply eqm_def.
  rewrite (Zmult_mod a b), (Zmult_mod a' b'), Ha, Hb. reflexivity.
Qed.

#[export] Instance eqm_sub n : Proper (eqm n ==> eqm n ==> eqm n) Z.sub.
Proof.
  intros a a' Ha b b' Hb. apply eqm_def in Ha, Hb. apply eqm_def.
  rewrite (Zminus_mod a b), (Zminus_mod a' b'), Ha, Hb. reflexivity.
Qed.

#[export] Instance eqm_opp n : Proper (eqm n ==> eqm n) Z.opp.
Proof.
  intros a a' Ha. rewrite <- (Z.sub_0_l a), <- (Z.sub_0_l a'). apply eqm_sub; [reflexivity|exact Ha].
Qed.

Lemma eqm_refl' n a b : a = b -> eqm n a b.
Proof. intros ->. reflexivity. Qed.

Lemma eqm_mod n a : eqm n (a mod n) a.
Proof. apply eqm_def. apply Zmod_mod. Qed.

Lemma eqm_one n a : 2 <= n -> (eqm n a 1 <-> a mod n = 1).
Proof. intros H. rewrite eqm_def. rewrite (Z.mod_small 1 n) by lia. reflexivity. Qed.

Lemma eqm_zero n a : eqm n a 0 <-> a mod n = 0.
Proof. rewrite eqm_def. rewrite Zmod_0_l. reflexivity. Qed.

Lemma eqm_add_mul n a q : n <> 0 -> eqm n (a + q * n) a.
Proof. intros. apply eqm_def. apply Z.mod_add. assumption. Qed.

Lemma eqm_inv_unique n s w w' : eqm n (s * w) 1 -> eqm n (s * w') 1 -> eqm n w w'.
Proof.
  intros H1 H2.
  transitivity (w * (s * w')).
  - rewrite H2. apply eqm_refl'. ring.
  - replace (w * (s * w')) with ((s * w) * w') by ring. rewrite H1. apply eqm_refl'. ring.
Qed.

Lemma land1 y : Z.land y 1 = if Z.odd y then 1 else 0.
Proof. change 1 with (Z.ones 1) at 1. rewrite Z.land_ones by lia. change (2 ^ 1) with 2. apply Zmod_odd. Qed.

(* ============================================================================================ *)
Section Group.
  Variable pt : Type.
  Variable add : pt -> pt -> pt.
  Variable neg : pt -> pt.
  Variable O : pt.
  Variable smul : Z -> pt -> pt.
  Variable G : pt.
  Variable n : Z.
  Variable coords : pt -> option (Z * Z).

  Hypothesis GL : group_laws pt add neg O smul n coords.
  Hypothesis Hn : prime n.

  Local Notation verify' := (verify pt add smul G n coords).
  Local Notation sign_step' := (sign_step pt smul G n coords).
  Local Notation sign_loop' := (sign_loop pt smul G n coords).
  Local Notation valid' := (ecdsa_valid pt add smul G n coords).
  Local Notation "a == b" := (eqm n a b) (at level 70).

  Let n_ge_2 : 2 <= n.
  Proof using Hn. apply prime_ge_2. exact Hn. Qed.

  (* ---- derived group facts ---- *)
  Lemma add_O_r P : add P O = P.
  Proof. rewrite (gl_comm _ _ _ _ _ _ _ GL). apply (gl_O_l _ _ _ _ _ _ _ GL). Qed.

  Lemma add_neg_l P : add (neg P) P = O.
  Proof. rewrite (gl_comm _ _ _ _ _ _ _ GL). apply (gl_neg_r _ _ _ _ _ _ _ GL). Qed.

  Lemma add_cancel_l P Q R : add P Q = add P R -> Q = R.
  Proof.
    intros H. apply (f_equal (add (neg P))) in H.
    rewrite !(gl_assoc _ _ _ _ _ _ _ GL), add_neg_l, !(gl_O_l _ _ _ _ _ _ _ GL) in H. exact H.
  Qed.

  Lemma add_swap A B C D : add (add A B) (add C D) = add (add A C) (add B D).
  Proof.
    rewrite <- (gl_assoc _ _ _ _ _ _ _ GL A B), (gl_assoc _ _ _ _ _ _ _ GL B C D), (gl_comm _ _ _ _ _ _ _ GL B C),
      <- (gl_assoc _ _ _ _ _ _ _ GL C B D), (gl_assoc _ _ _ _ _ _ _ GL A C). reflexivity.
  Qed.

  Lemma smul_0 P : smul 0 P = O.
  Proof.
    pose proof (gl_smul_add _ _ _ _ _ _ _ GL 0 0 P) as H. cbn in H.
    apply (add_cancel_l (smul 0 P)). rewrite add_O_r. symmetry. exact H.
  Qed.

  Lemma smul_opp a P : smul (- a) P = neg (smul a P).
  Proof.
    apply (add_cancel_l (smul a P)).
    rewrite <- (gl_smul_add _ _ _ _ _ _ _ GL), Z.add_opp_diag_r, smul_0, (gl_neg_r _ _ _ _ _ _ _ GL). reflexivity.
  Qed.

  Lemma smul_O a : smul a O = O.
  Proof.
    rewrite <- (smul_0 O) at 1. rewrite <- (gl_smul_mul _ _ _ _ _ _ _ GL), Z.mul_0_r. apply smul_0.
  Qed.

  Lemma smul_eqm a b P : a == b -> smul a P = smul b P.
  Proof.
    intros H. apply eqm_def in H.
    assert (Ha : a = b + (a / n - b / n) * n).
    { rewrite (Z.div_mod a n), (Z.div_mod b n) at 1 by lia. rewrite H. ring. }
    rewrite Ha, (gl_smul_add _ _ _ _ _ _ _ GL), (gl_smul_mul _ _ _ _ _ _ _ GL), (gl_order _ _ _ _ _ _ _ GL), smul_O.
    apply add_O_r.
  Qed.

  Lemma neg_O : neg O = O.
  Proof. rewrite <- (gl_O_l _ _ _ _ _ _ _ GL (neg O)). apply (gl_neg_r _ _ _ _ _ _ _ GL). Qed.

  Lemma neg_neg P : neg (neg P) = P.
  Proof.
    apply (add_cancel_l (neg P)). rewrite (gl_neg_r _ _ _ _ _ _ _ GL), add_neg_l. reflexivity.
  Qed.

  Lemma neg_add P Q : neg (add P Q) = add (neg P) (neg Q).
  Proof.
    apply (add_cancel_l (add P Q)).
    rewrite (gl_neg_r _ _ _ _ _ _ _ GL), add_swap, !(gl_neg_r _ _ _ _ _ _ _ GL). symmetry. apply add_O_r.
  Qed.

  Lemma smul_add_pt a P Q : smul a (add P Q) = add (smul a P) (smul a Q).
  Proof.
    assert (Hpos : forall a, 0 <= a -> smul a (add P Q) = add (smul a P) (smul a Q)).
    { apply natlike_ind.
      - rewrite !smul_0. symmetry. apply add_O_r.
      - intros x Hx IH. unfold Z.succ.
        rewrite !(gl_smul_add _ _ _ _ _ _ _ GL), !(gl_smul_1 _ _ _ _ _ _ _ GL), IH. apply add_swap. }
    destruct (Z_le_gt_dec 0 a) as [Ha|Ha]; [apply Hpos; assumption|].
    replace a with (- (- a)) by lia. rewrite !(smul_opp (- a)), Hpos by lia. apply neg_add.
  Qed.

  Lemma smul_smul a b P : smul a (smul b P) = smul (a * b) P.
  Proof. symmetry. apply (gl_smul_mul _ _ _ _ _ _ _ GL). Qed.

  Lemma coords_neg_none P : coords P = None -> coords (neg P) = None.
  Proof.
    intros H. destruct (coords (neg P)) as [[x y]|] eqn:E; [|reflexivity].
    apply (gl_coords_neg _ _ _ _ _ _ _ GL) in E. destruct E as [y' E]. rewrite neg_neg in E. congruence.
  Qed.

  (* ---- the model's inverse on non-zero residues ---- *)
  Lemma inverse_ok a : a mod n <> 0 -> exists u, inverse n a = Ret u /\ a * u == 1.
  Proof.
    intros Ha. destruct (inverse_mod_prime n a Hn Ha) as [u [H1 H2]].
    exists u. split; [exact H1|]. apply eqm_one; assumption.
  Qed.

  Lemma inverse_ret a u : inverse n a = Ret u -> a * u == 1.
  Proof. intros H. apply inverse_mod_ret in H; [apply eqm_def; exact H|lia]. Qed.

  Lemma inverse_no_fuel a : inverse n a <> OutOfFuel.
  Proof.
    unfold inverse. destruct (Z.eq_dec (Z.gcd a n) 1) as [Hg|Hg].
    - destruct (inverse_mod_coprime a n ltac:(lia) Hg) as [u [H _]]. rewrite H. discriminate.
    - rewrite inverse_mod_not_coprime by (assumption || lia). discriminate.
  Qed.

  Lemma in_range_nz s : 1 <= s < n -> s mod n <> 0.
  Proof. intros H. rewrite Z.mod_small; lia. Qed.

  Lemma out_of_range_false r s : out_of_range n r s = false <-> 1 <= r < n /\ 1 <= s < n.
  Proof. unfold out_of_range. lia. Qed.

  (* ---- verify ---- *)
  Definition sum_point (Q : pt) (z r w : Z) : pt := add (smul (z * w) G) (smul (r * w) Q).

  Definition verdict (P : pt) (r : Z) : bool :=
    match coords P with None => false | Some (x, _) => x mod n =? r end.

  Lemma verify_in_range Q z r s : z <> 0 -> 1 <= r < n -> 1 <= s < n ->
    exists si, inverse n s = Ret si /\ s * si == 1 /\ verify' (Some Q) z r s = Ret (verdict (sum_point Q z r si) r).
  Proof.
    intros Hz Hr Hs. destruct (inverse_ok s (in_range_nz s Hs)) as [si [Hi Hsi]].
    exists si. split; [exact Hi|]. split; [exact Hsi|].
    unfold verify. destruct (z =? 0) eqn:Ez; [lia|].
    rewrite (proj2 (out_of_range_false r s)) by tauto.
    rewrite Hi. cbn [bind]. unfold verdict, sum_point.
    destruct (coords _) as [[x y]|]; reflexivity.
  Qed.

  Lemma sum_point_inv_indep Q z r w w' : w == w' -> sum_point Q z r w = sum_point Q z r w'.
  Proof.
    intros H. unfold sum_point. f_equal; apply smul_eqm; rewrite H; reflexivity.
  Qed.

  Lemma verify_rejects Qo z r s : ~ (1 <= r < n /\ 1 <= s < n) -> verify' Qo z r s = Ret false.
  Proof.
    intros H. unfold verify. destruct (z =? 0); [reflexivity|].
    destruct (out_of_range n r s) eqn:E; [reflexivity|]. apply out_of_range_false in E. contradiction.
  Qed.

  Lemma verify_zero Qo r s : verify' Qo 0 r s = Ret false.
  Proof. reflexivity. Qed.

  Lemma verify_total Q z r s : exists b, verify' (Some Q) z r s = Ret b.
  Proof.
    destruct (Z.eq_dec z 0) as [->|Hz]; [eexists; apply verify_zero|].
    destruct (out_of_range n r s) eqn:E.
    - exists false. unfold verify. destruct (z =? 0); [reflexivity|]. rewrite E. reflexivity.
    - apply out_of_range_false in E. destruct E as [Hr Hs].
      destruct (verify_in_range Q z r s Hz Hr Hs) as [si [_ [_ H]]]. eauto.
  Qed.

  Lemma verify_iff Q z r s : verify' (Some Q) z r s = Ret true <-> z <> 0 /\ valid' Q z r s.
  Proof.
    split.
    - intros H.
      assert (Hz : z <> 0) by (intros ->; rewrite verify_zero in H; discriminate).
      destruct (out_of_range n r s) eqn:E.
      { unfold verify in H. destruct (z =? 0); [discriminate|]. rewrite E in H. discriminate. }
      apply out_of_range_false in E. destruct E as [Hr Hs].
      destruct (verify_in_range Q z r s Hz Hr Hs) as [si [_ [Hsi Hv]]].
      rewrite Hv in H. inversion H as [Hb]. unfold verdict, sum_point in Hb.
      split; [exact Hz|]. split; [exact Hr|]. split; [exact Hs|].
      destruct (coords _) as [[x y]|] eqn:Ec; [|discriminate].
      exists si, x, y. split; [|split; [exact Ec|lia]].
      unfold inv_mod_n. apply eqm_one; assumption.
    - intros [Hz [Hr [Hs [w [x [y [Hw [Hc Hx]]]]]]]].
      destruct (verify_in_range Q z r s Hz Hr Hs) as [si [_ [Hsi Hv]]].
      rewrite Hv. f_equal.
      assert (Hww : s * w == 1).
      { apply eqm_one; assumption. }
      rewrite (sum_point_inv_indep Q z r si w (eqm_inv_unique n s si w Hsi Hww)).
      unfold verdict, sum_point. rewrite Hc. lia.
  Qed.

  Lemma verdict_neg P r : verdict (neg P) r = verdict P r.
  Proof.
    unfold verdict. destruct (coords P) as [[x y]|] eqn:E.
    - destruct (gl_coords_neg _ _ _ _ _ _ _ GL P x y E) as [y' E']. rewrite E'. reflexivity.
    - rewrite coords_neg_none by assumption. reflexivity.
  Qed.

  Lemma verify_low_s Q z r s : verify' (Some Q) z r (n - s) = verify' (Some Q) z r s.
  Proof.
    destruct (Z.eq_dec z 0) as [->|Hz]; [reflexivity|].
    destruct (out_of_range n r s) eqn:E.
    - assert (~ (1 <= r < n /\ 1 <= s < n)) by (rewrite <- out_of_range_false; congruence).
      rewrite !verify_rejects by lia. reflexivity.
    - apply out_of_range_false in E. destruct E as [Hr Hs].
      destruct (verify_in_range Q z r s Hz Hr Hs) as [si [_ [Hsi Hv]]].
      destruct (verify_in_range Q z r (n - s) Hz Hr ltac:(lia)) as [si' [_ [Hsi' Hv']]].
      rewrite Hv, Hv'. f_equal.
      assert (Hopp : si' == - si).
      { apply (eqm_inv_unique n (n - s)); [exact Hsi'|].
        transitivity (s * si); [|exact Hsi].
        replace ((n - s) * - si) with (s * si + (- si) * n) by ring.
        apply eqm_add_mul. lia. }
      rewrite (sum_point_inv_indep Q z r si' (- si) Hopp).
      unfold sum_point.
      replace (z * - si) with (- (z * si)) by ring. replace (r * - si) with (- (r * si)) by ring.
      rewrite !smul_opp, <- neg_add. apply verdict_neg.
  Qed.

  (* ---- sign ---- *)
  Lemma sign_step_some d z k r s c : sign_step' d z k = Ret (Some (r, s, c)) ->
    exists x y ik, coords (smul k G) = Some (x, y) /\ inverse n k = Ret ik /\
      r = x mod n /\ s = (ik * (z + (d * r) mod n)) mod n /\ r <> 0 /\ s <> 0 /\
      c = (if n <? x then Z.land y 1 + 2 else Z.land y 1).
  Proof.
    unfold sign_step. intros H.
    destruct (coords (smul k G)) as [[x y]|] eqn:Ec; [|discriminate].
    destruct (inverse n k) as [ik| |] eqn:Ei; cbn [bind] in H; try discriminate.
    destruct (negb (x mod n =? 0) && negb (_ =? 0)) eqn:Eb; [|discriminate].
    inversion H; subst. exists x, y, ik. repeat split; try reflexivity; lia.
  Qed.

  Lemma sign_step_sig d z k r s c : sign_step' d z k = Ret (Some (r, s, c)) ->
    ecdsa_sig_with_nonce pt smul G n coords d z k r s /\ 0 <= c < 4 /\
    exists x y, coords (smul k G) = Some (x, y) /\ c = (if n <? x then Z.land y 1 + 2 else Z.land y 1).
  Proof.
    intros H. apply sign_step_some in H. destruct H as [x [y [ik [Hc [Hi [Hr [Hs [Hr0 [Hs0 Hcc]]]]]]]]].
    split; [|split].
    - exists x, y. repeat split; try assumption.
      + subst s. apply Z.mod_pos_bound. lia.
      + subst s. apply Z.mod_pos_bound. lia.
      + apply inverse_ret in Hi. apply eqm_to_mod.
        rewrite Hs. rewrite eqm_mod. rewrite eqm_mod.
        replace (ik * (z + d * r) * k) with ((k * ik) * (z + r * d)) by ring. rewrite Hi. apply eqm_refl'. ring.
    - rewrite land1 in Hcc. destruct (n <? x), (Z.odd y); lia.
    - eauto.
  Qed.

  Lemma sign_loop_ret d z : forall fuel k0 sig, sign_loop' fuel d z k0 = Ret sig ->
    exists k, sign_step' d z k = Ret (Some sig).
  Proof.
    induction fuel as [|f IH]; intros k0 sig H; cbn [sign_loop] in H; [discriminate|].
    destruct (sign_step' d z k0) as [[sg|]| |] eqn:E; cbn [bind] in H; try discriminate.
    - inversion H; subst. exists k0. exact E.
    - apply IH in H. exact H.
  Qed.

  (* the point that verify computes for the signer's key is the nonce point *)
  Lemma signer_point d z k r s si : (s * k) mod n = (z + r * d) mod n -> s * si == 1 ->
    sum_point (smul d G) z r si = smul k G.
  Proof.
    intros Hs Hsi. unfold sum_point.
    rewrite smul_smul, <- (gl_smul_add _ _ _ _ _ _ _ GL).
    apply smul_eqm.
    replace (z * si + r * si * d) with (si * (z + r * d)) by ring.
    apply eqm_def in Hs. rewrite <- Hs.
    replace (si * (s * k)) with ((s * si) * k) by ring. rewrite Hsi. apply eqm_refl'. ring.
  Qed.

  Lemma sig_with_nonce_verifies d z k r s : z <> 0 ->
    ecdsa_sig_with_nonce pt smul G n coords d z k r s ->
    1 <= r < n /\ 1 <= s < n /\ verify' (Some (smul d G)) z r s = Ret true /\
    forall si, s * si == 1 -> sum_point (smul d G) z r si = smul k G.
  Proof.
    intros Hz [x [y [Hc [Hr [Hr0 [Hs [Hs0 He]]]]]]].
    assert (Hrr : 1 <= r < n) by (pose proof (Z.mod_pos_bound x n ltac:(lia)); lia).
    assert (Hss : 1 <= s < n) by lia.
    split; [exact Hrr|]. split; [exact Hss|]. split.
    - destruct (verify_in_range (smul d G) z r s Hz Hrr Hss) as [si [_ [Hsi Hv]]].
      rewrite Hv. f_equal. rewrite (signer_point d z k r s si He Hsi).
      unfold verdict. rewrite Hc. lia.
    - intros si Hsi. apply (signer_point d z k r s si He Hsi).
  Qed.

  Section WithGenK.
  Variable gen_k : Z -> Z -> Z -> outcome Z.
  Local Notation sign_with_recid' := (sign_with_recid pt smul G n coords gen_k).

  Lemma sign_ret fuel d z r s c : sign_with_recid' fuel d z = Ret (r, s, c) ->
    z <> 0 /\ exists k0 k, gen_k n d z = Ret k0 /\ sign_step' d z k = Ret (Some (r, s, c)).
  Proof.
    unfold sign_with_recid. intros H. destruct (z =? 0) eqn:Ez; [discriminate|].
    split; [lia|].
    destruct (gen_k n d z) as [k0| |] eqn:Ek; cbn [bind] in H; try discriminate.
    apply sign_loop_ret in H. destruct H as [k H]. exists k0, k. tauto.
  Qed.

  Theorem sign_verifies fuel d z r s c : sign_with_recid' fuel d z = Ret (r, s, c) ->
    1 <= r < n /\ 1 <= s < n /\ 0 <= c < 4 /\ verify' (Some (smul d G)) z r s = Ret true.
  Proof.
    intros H. apply sign_ret in H. destruct H as [Hz [k0 [k [_ Hs]]]].
    apply sign_step_sig in Hs. destruct Hs as [Hsig [Hc _]].
    destruct (sig_with_nonce_verifies d z k r s Hz Hsig) as [Hr [Hs' [Hv _]]]. tauto.
  Qed.

  (* sign = sign_with_recid without the recovery id *)
  Lemma sign_plain fuel d z r s : sign pt smul G n coords gen_k fuel d z = Ret (r, s) <->
    exists c, sign_with_recid' fuel d z = Ret (r, s, c).
  Proof.
    unfold sign. destruct (sign_with_recid' fuel d z) as [[[r' s'] c']| |]; cbn [bind]; split.
    - intros H; inversion H; subst; eauto.
    - intros [c H]; inversion H; subst; reflexivity.
    - discriminate.
    - intros [c H]; discriminate.
    - discriminate.
    - intros [c H]; discriminate.
  Qed.

  (* when the nonce function's first value k gives non-zero r and s, the signature is made with that k *)
  Lemma first_nonce_signature d z k x y : z <> 0 -> gen_k n d z = Ret k ->
    coords (smul k G) = Some (x, y) -> x mod n <> 0 -> (z + (x mod n) * d) mod n <> 0 ->
    forall fuel, exists s c, sign_with_recid' (S fuel) d z = Ret (x mod n, s, c) /\
                             1 <= s < n /\ (s * k) mod n = (z + (x mod n) * d) mod n.
  Proof.
    intros Hz Hk Hc Hr Hs fuel.
    assert (Hkn : k mod n <> 0).
    { intros Hk0. assert (smul k G = O) as HO.
      { rewrite (smul_eqm k 0 G), smul_0; [reflexivity|]. apply eqm_zero. exact Hk0. }
      rewrite HO, (gl_coords_O _ _ _ _ _ _ _ GL) in Hc. discriminate. }
    destruct (inverse_ok k Hkn) as [ik [Hi Hik]].
    set (r := x mod n) in *.
    set (s := (ik * (z + (d * r) mod n)) mod n).
    assert (Hsk : s * k == z + r * d).
    { subst s. rewrite eqm_mod, eqm_mod.
      replace (ik * (z + d * r) * k) with ((k * ik) * (z + r * d)) by ring. rewrite Hik. apply eqm_refl'. ring. }
    assert (Hs0 : s <> 0).
    { intros E. apply Hs. apply (proj1 (eqm_zero n _)). rewrite <- Hsk, E. apply eqm_refl'. ring. }
    assert (Hsr : 0 <= s < n) by (apply Z.mod_pos_bound; lia).
    exists s, (if n <? x then Z.land y 1 + 2 else Z.land y 1).
    split; [|split; [lia|apply eqm_to_mod; exact Hsk]].
    unfold sign_with_recid. destruct (z =? 0) eqn:Ez; [lia|]. rewrite Hk. cbn [bind sign_loop].
    unfold sign_step. rewrite Hc, Hi. cbn [bind]. fold r. fold s.
    destruct (negb (r =? 0) && negb (s =? 0)) eqn:Eb; [|lia]. cbn [bind]. reflexivity.
  Qed.

  End WithGenK.

  (* ---- totality of the k += 1 loop ---- *)
  Lemma sign_step_raise d z k e : sign_step' d z k = Raise e -> e = E_TYPE /\ coords (smul k G) = None.
  Proof.
    unfold sign_step. intros H.
    destruct (coords (smul k G)) as [[x y]|] eqn:Ec; [|inversion H; auto].
    exfalso.
    assert (Hk : k mod n <> 0).
    { intros Hk. assert (smul k G = O) as HO.
      { rewrite (smul_eqm k 0 G), smul_0; [reflexivity|]. apply eqm_zero. exact Hk. }
      rewrite HO, (gl_coords_O _ _ _ _ _ _ _ GL) in Ec. discriminate. }
    destruct (inverse_ok k Hk) as [ik [Hi _]]. rewrite Hi in H. cbn [bind] in H.
    destruct (_ && _) in H; discriminate.
  Qed.

  Lemma sign_step_no_fuel d z k : sign_step' d z k <> OutOfFuel.
  Proof.
    unfold sign_step. destruct (coords (smul k G)) as [[x y]|]; [|discriminate].
    pose proof (inverse_no_fuel k) as Hi. destruct (inverse n k); cbn [bind]; try discriminate; [|congruence].
    destruct (_ && _); discriminate.
  Qed.

  (* k*G is the point at infinity only for multiples of the order: G <> O and n is prime *)
  Hypothesis G_nonzero : G <> O.

  Lemma smul_G_O k : smul k G = O -> k mod n = 0.
  Proof.
    intros H. destruct (Z.eq_dec (k mod n) 0) as [E|E]; [exact E|]. exfalso.
    destruct (inverse_ok k E) as [u [_ Hu]]. apply G_nonzero.
    rewrite <- (gl_smul_1 _ _ _ _ _ _ _ GL G), <- (smul_eqm (u * k) 1 G).
    - rewrite (gl_smul_mul _ _ _ _ _ _ _ GL), H. apply smul_O.
    - rewrite <- Hu. apply eqm_refl'. ring.
  Qed.

  Lemma sign_step_in_range d z k : 1 <= k < n -> exists o, sign_step' d z k = Ret o.
  Proof.
    intros Hk. pose proof (sign_step_no_fuel d z k) as Hf.
    destruct (sign_step' d z k) as [o| e |] eqn:E; [eauto| |congruence].
    exfalso. apply sign_step_raise in E. destruct E as [_ Hc].
    apply (gl_coords_None _ _ _ _ _ _ _ GL) in Hc. apply smul_G_O in Hc. rewrite Z.mod_small in Hc; lia.
  Qed.

  (* the successor of the retry rule: k += 1; if k >= n: k = 1 *)
  Definition next_k (k : Z) : Z := if n <=? k + 1 then 1 else k + 1.

  Lemma next_k_range k : 1 <= k < n -> 1 <= next_k k < n.
  Proof. unfold next_k. destruct (n <=? k + 1) eqn:E; lia. Qed.

  Lemma sign_loop_unfold fuel d z k : sign_loop' (S fuel) d z k =
    bind (sign_step' d z k) (fun o => match o with Some sig => Ret sig | None => sign_loop' fuel d z (next_k k) end).
  Proof. reflexivity. Qed.

  (* started inside [1, n-1] the loop never raises, whatever the fuel *)
  Lemma sign_loop_never_raises d z : forall fuel k e, 1 <= k < n -> sign_loop' fuel d z k <> Raise e.
  Proof.
    induction fuel as [|f IH]; intros k e Hk; [discriminate|].
    rewrite sign_loop_unfold. destruct (sign_step_in_range d z k Hk) as [[sg|] ->]; cbn [bind]; [discriminate|].
    apply IH. apply next_k_range. exact Hk.
  Qed.

  (* a nonce that gives non-zero r and s, in textbook terms *)
  Definition nonce_good (d z j : Z) : Prop :=
    exists x y, coords (smul j G) = Some (x, y) /\ x mod n <> 0 /\ (z + (x mod n) * d) mod n <> 0.

  Lemma nonce_good_step d z j : nonce_good d z j -> exists sig, sign_step' d z j = Ret (Some sig).
  Proof.
    intros [x [y [Hc [Hr Hs]]]].
    assert (Hjn : j mod n <> 0).
    { intros Hj0. assert (smul j G = O) as HO.
      { rewrite (smul_eqm j 0 G), smul_0; [reflexivity|]. apply eqm_zero. exact Hj0. }
      rewrite HO, (gl_coords_O _ _ _ _ _ _ _ GL) in Hc. discriminate. }
    destruct (inverse_ok j Hjn) as [ik [Hi Hik]].
    unfold sign_step. rewrite Hc, Hi. cbn [bind].
    set (r := x mod n) in *. set (s := (ik * (z + (d * r) mod n)) mod n).
    assert (Hsk : s * j == z + r * d).
    { subst s. rewrite eqm_mod, eqm_mod.
      replace (ik * (z + d * r) * j) with ((j * ik) * (z + r * d)) by ring. rewrite Hik. apply eqm_refl'. ring. }
    assert (Hs0 : s <> 0).
    { intros E. apply Hs. apply (proj1 (eqm_zero n _)). rewrite <- Hsk, E. apply eqm_refl'. ring. }
    destruct (negb (r =? 0) && negb (s =? 0)) eqn:Eb; [eauto|lia].
  Qed.

  (* the loop walks k, k+1, .., n-1, 1, 2, ..: every residue of [1, n-1] is reached within n-1 iterations, so a
     good nonce anywhere in [1, n-1] makes it return *)
  Lemma sign_loop_total d z j : 1 <= j < n -> nonce_good d z j ->
    forall fuel k, 1 <= k < n -> (j - k) mod (n - 1) < Z.of_nat fuel -> exists sig, sign_loop' fuel d z k = Ret sig.
  Proof.
    intros Hj Hgood. induction fuel as [|f IH]; intros k Hk Hd.
    - pose proof (Z.mod_pos_bound (j - k) (n - 1) ltac:(lia)). lia.
    - rewrite sign_loop_unfold. destruct (sign_step_in_range d z k Hk) as [[sg|] Hst]; rewrite Hst; cbn [bind]; [eauto|].
      assert (Hjk : j <> k).
      { intros ->. destruct (nonce_good_step d z k Hgood) as [sig Hs]. congruence. }
      apply IH; [apply next_k_range; exact Hk|].
      assert (Hm : (j - k) mod (n - 1) <> 0).
      { intros E. apply Z.mod_divide in E; [|lia]. destruct E as [q Hq].
        assert (q = 0) by nia. subst q. lia. }
      assert (Hnx : (j - next_k k) mod (n - 1) = (j - k) mod (n - 1) - 1).
      { pose proof (Z.mod_pos_bound (j - k) (n - 1) ltac:(lia)) as Hb.
        pose proof (Z.div_mod (j - k) (n - 1) ltac:(lia)) as Hdm.
        unfold next_k. destruct (n <=? k + 1) eqn:E.
        - symmetry. apply (Z.mod_unique_pos _ _ ((j - k) / (n - 1) + 1)); lia.
        - symmetry. apply (Z.mod_unique_pos _ _ ((j - k) / (n - 1))); lia. }
      lia.
  Qed.

  Lemma sign_loop_total_n d z j fuel k : 1 <= j < n -> nonce_good d z j -> 1 <= k < n -> n - 1 <= Z.of_nat fuel ->
    exists sig, sign_loop' fuel d z k = Ret sig.
  Proof.
    intros Hj Hg Hk Hf. apply (sign_loop_total d z j Hj Hg fuel k Hk).
    pose proof (Z.mod_pos_bound (j - k) (n - 1) ltac:(lia)). lia.
  Qed.

  Section TotalGenK.
  Variable gen_k : Z -> Z -> Z -> outcome Z.
  Local Notation sign_with_recid' := (sign_with_recid pt smul G n coords gen_k).

  Lemma sign_never_raises fuel d z e : z <> 0 -> (forall e', gen_k n d z <> Raise e') ->
    (forall k0, gen_k n d z = Ret k0 -> 1 <= k0 < n) -> sign_with_recid' fuel d z <> Raise e.
  Proof.
    intros Hz Hnr Hrange. unfold sign_with_recid. destruct (z =? 0) eqn:Ez; [lia|].
    destruct (gen_k n d z) as [k0|e'|] eqn:Ek; cbn [bind].
    - apply sign_loop_never_raises. apply Hrange. reflexivity.
    - exfalso. apply (Hnr e'). reflexivity.
    - discriminate.
  Qed.

  Lemma sign_total fuel d z k0 j : z <> 0 -> gen_k n d z = Ret k0 -> 1 <= k0 < n ->
    1 <= j < n -> nonce_good d z j -> n - 1 <= Z.of_nat fuel ->
    exists sig, sign_with_recid' fuel d z = Ret sig.
  Proof.
    intros Hz Hk Hk0 Hj Hg Hf. unfold sign_with_recid. destruct (z =? 0) eqn:Ez; [lia|].
    rewrite Hk. cbn [bind]. apply (sign_loop_total_n d z j fuel k0 Hj Hg Hk0 Hf).
  Qed.
  End TotalGenK.

  (* ---- recovery ---- *)
  Definition candidate (z r s ir : Z) (R : pt) : pt := add (smul (s * ir) R) (smul (- (ir * z)) G).

  Definition select (y_parity : option Z) (P0 P1 : pt) : list pt :=
    match y_parity with
    | None => [P0; P1]
    | Some yp => if Z.odd yp then [P1] else [P0]
    end.

  (* verify's sum point for a candidate built from R is R *)
  Lemma candidate_point z r s ir si R : r * ir == 1 -> s * si == 1 ->
    sum_point (candidate z r s ir R) z r si = R.
  Proof.
    intros Hir Hsi. unfold sum_point, candidate.
    rewrite smul_add_pt, !smul_smul.
    rewrite (smul_eqm (r * si * (s * ir)) 1 R).
    2:{ replace (r * si * (s * ir)) with ((r * ir) * (s * si)) by ring. rewrite Hir, Hsi. reflexivity. }
    rewrite (gl_smul_1 _ _ _ _ _ _ _ GL).
    rewrite (gl_comm _ _ _ _ _ _ _ GL R), (gl_assoc _ _ _ _ _ _ _ GL), <- (gl_smul_add _ _ _ _ _ _ _ GL).
    rewrite (smul_eqm _ 0 G), smul_0; [apply (gl_O_l _ _ _ _ _ _ _ GL)|].
    replace (z * si + r * si * - (ir * z)) with (z * si - (r * ir) * (z * si)) by ring.
    rewrite Hir. apply eqm_refl'. ring.
  Qed.

  (* the candidate built from verify's sum point for Q is Q *)
  Lemma point_candidate z r s ir si Q : r * ir == 1 -> s * si == 1 ->
    candidate z r s ir (sum_point Q z r si) = Q.
  Proof.
    intros Hir Hsi. unfold sum_point, candidate.
    rewrite smul_add_pt, !smul_smul.
    rewrite (smul_eqm (s * ir * (r * si)) 1 Q).
    2:{ replace (s * ir * (r * si)) with ((r * ir) * (s * si)) by ring. rewrite Hir, Hsi. reflexivity. }
    rewrite (gl_smul_1 _ _ _ _ _ _ _ GL).
    rewrite (gl_comm _ _ _ _ _ _ _ GL _ Q), <- (gl_assoc _ _ _ _ _ _ _ GL), <- (gl_smul_add _ _ _ _ _ _ _ GL).
    rewrite (smul_eqm _ 0 G), smul_0; [apply add_O_r|].
    replace (s * ir * (z * si) + - (ir * z)) with ((s * si) * (ir * z) - ir * z) by ring.
    rewrite Hsi. apply eqm_refl'. ring.
  Qed.

  Section Recover.
  Variable p : Z.
  Variable lift_x : Z -> option (pt * pt).
  Local Notation recover' := (recover pt add smul G n p lift_x).
  Local Notation x_canon := (fun x : Z => 0 <= x < p).

  Lemma recover_in_range z r s yp P0 P1 : 1 <= r < n -> 1 <= s < n -> r < p -> lift_x r = Some (P0, P1) ->
    exists ir, inverse n r = Ret ir /\ r * ir == 1 /\
               recover' z r s yp = Ret (map (candidate z r s ir) (select yp P0 P1)).
  Proof.
    intros Hr Hs Hp Hl. destruct (inverse_ok r (in_range_nz r Hr)) as [ir [Hi Hir]].
    exists ir. split; [exact Hi|]. split; [exact Hir|].
    unfold recover. rewrite (proj2 (out_of_range_false r s)) by tauto.
    destruct (p <=? r) eqn:Ep; [lia|]. rewrite Hl, Hi. cbn [bind].
    f_equal. unfold select. destruct yp as [yp|]; [|reflexivity].
    rewrite land1. destruct (Z.odd yp); reflexivity.
  Qed.

  Lemma recover_empty z r s yp : ~ (1 <= r < n /\ 1 <= s < n /\ r < p) -> recover' z r s yp = Ret [].
  Proof.
    intros H. unfold recover. destruct (out_of_range n r s) eqn:E; [reflexivity|].
    apply out_of_range_false in E. destruct (p <=? r) eqn:Ep; [reflexivity|]. exfalso. apply H. lia.
  Qed.

  Hypothesis LL : lift_laws pt coords lift_x x_canon.

  Lemma select_in Q yp P0 P1 : In Q (select yp P0 P1) -> Q = P0 \/ Q = P1.
  Proof.
    unfold select. destruct yp as [yp|]; [destruct (Z.odd yp)|]; cbn; intuition.
  Qed.

  Theorem recover_sound z r s yp l Q : z <> 0 ->
    recover' z r s yp = Ret l -> In Q l -> verify' (Some Q) z r s = Ret true.
  Proof.
    intros Hz H Hin.
    destruct (out_of_range n r s) eqn:E.
    { unfold recover in H. rewrite E in H. inversion H; subst. destruct Hin. }
    destruct (p <=? r) eqn:Ep.
    { unfold recover in H. rewrite E, Ep in H. inversion H; subst. destruct Hin. }
    apply out_of_range_false in E. destruct E as [Hr Hs].
    destruct (lift_x r) as [[P0 P1]|] eqn:El.
    2:{ unfold recover in H. rewrite (proj2 (out_of_range_false r s)), Ep, El in H by tauto. inversion H; subst. destruct Hin. }
    destruct (recover_in_range z r s yp P0 P1 Hr Hs ltac:(lia) El) as [ir [_ [Hir Hrec]]].
    rewrite Hrec in H. inversion H; subst l. apply in_map_iff in Hin. destruct Hin as [R [HQ HR]]. subst Q.
    destruct (verify_in_range (candidate z r s ir R) z r s Hz Hr Hs) as [si [_ [Hsi Hv]]].
    rewrite Hv, (candidate_point z r s ir si R Hir Hsi). f_equal.
    assert (Hcan : 0 <= r < p) by lia.
    destruct (ll_sound _ _ _ _ LL r P0 P1 El Hcan) as [[y0 [H0 _]] [y1 [H1 _]]].
    unfold verdict. apply select_in in HR. destruct HR as [-> | ->]; [rewrite H0|rewrite H1];
      rewrite Z.mod_small by lia; lia.
  Qed.

  (* every key under which (r, s) verifies with a sum point of abscissa exactly r is recovered,
     alone when the parity of that point's ordinate is given *)
  Theorem recover_complete Q z r s si y : z <> 0 -> 1 <= r < n -> 1 <= s < n ->
    s * si == 1 -> coords (sum_point Q z r si) = Some (r, y) ->
    (exists l, recover' z r s None = Ret l /\ In Q l) /\
    (forall yp, Z.odd yp = Z.odd y -> recover' z r s (Some yp) = Ret [Q]).
  Proof.
    intros Hz Hr Hs Hsi Hc.
    destruct (ll_complete _ _ _ _ LL _ _ _ Hc) as [P0 [P1 [El HR]]].
    pose proof (ll_range _ _ _ _ LL _ _ _ Hc) as Hrp. cbv beta in Hrp.
    split.
    - destruct (recover_in_range z r s None P0 P1 Hr Hs ltac:(lia) El) as [ir [_ [Hir Hrec]]].
      eexists. split; [exact Hrec|]. apply in_map_iff. exists (sum_point Q z r si).
      split; [apply point_candidate; assumption|]. rewrite HR. cbn. destruct (Z.odd y); auto.
    - intros yp Hyp.
      destruct (recover_in_range z r s (Some yp) P0 P1 Hr Hs ltac:(lia) El) as [ir [_ [Hir Hrec]]].
      rewrite Hrec. f_equal. unfold select. rewrite Hyp.
      rewrite <- (point_candidate z r s ir si Q Hir Hsi). rewrite HR.
      destruct (Z.odd y); reflexivity.
  Qed.

  Theorem recover_complete' Q z r s w y : z <> 0 -> 1 <= r < n -> 1 <= s < n -> (s * w) mod n = 1 ->
    coords (add (smul (z * w) G) (smul (r * w) Q)) = Some (r, y) ->
    (exists l, recover' z r s None = Ret l /\ In Q l) /\
    (forall yp, Z.odd yp = Z.odd y -> recover' z r s (Some yp) = Ret [Q]).
  Proof.
    intros Hz Hr Hs Hw Hc. apply (recover_complete Q z r s w y Hz Hr Hs); [apply eqm_one; assumption|exact Hc].
  Qed.

  (* the signer's key is recovered when the nonce point's abscissa is below n, i.e. recid < 2 *)
  Variable gen_k : Z -> Z -> Z -> outcome Z.
  Local Notation sign_with_recid' := (sign_with_recid pt smul G n coords gen_k).

  Theorem recover_signer fuel d z r s c : sign_with_recid' fuel d z = Ret (r, s, c) -> c < 2 ->
    recover' z r s (Some c) = Ret [smul d G] /\ exists l, recover' z r s None = Ret l /\ In (smul d G) l.
  Proof.
    intros H Hc. apply (sign_ret gen_k) in H. destruct H as [Hz [k0 [k [_ Hs]]]].
    apply sign_step_sig in Hs. destruct Hs as [Hsig [_ [x [y [Hxy Hcc]]]]].
    destruct (sig_with_nonce_verifies d z k r s Hz Hsig) as [Hr [Hs' [_ Hpt]]].
    destruct (inverse_ok s (in_range_nz s Hs')) as [si [_ Hsi]].
    destruct Hsig as [x' [y' [Hxy' [Hrx [Hr0 _]]]]]. rewrite Hxy in Hxy'. inversion Hxy'; subst x' y'.
    destruct (gl_coords_pos _ _ _ _ _ _ _ GL _ _ _ Hxy) as [Hx0 _].
    rewrite land1 in Hcc.
    assert (Hxn : x < n).
    { destruct (n <? x) eqn:E; [destruct (Z.odd y); lia|].
      destruct (Z.eq_dec x n) as [->|]; [rewrite Z_mod_same_full in Hrx; lia|lia]. }
    assert (Hrx' : r = x) by (rewrite Hrx; apply Z.mod_small; lia).
    assert (Hco : coords (sum_point (smul d G) z r si) = Some (r, y)) by (rewrite (Hpt si Hsi), Hrx'; exact Hxy).
    destruct (recover_complete (smul d G) z r s si y Hz Hr Hs' Hsi Hco) as [H1 H2].
    split; [|exact H1]. apply H2.
    destruct (n <? x); [lia|]. subst c. destruct (Z.odd y); reflexivity.
  Qed.
  End Recover.
End Group.
