(* Proofs/ComposeCodecC08.v — composition, part 3: C11's codec models satisfy the premises `codec_laws` (B1, B3, S1, S2, S4)
   and `codec_text_laws` (B2, S3) of Spec/AddressSpec.v, and the C08 theorems instantiated with them.

   The only fact about the checksum hash that survives is "it returns at least four bytes" (B1 and B3 need the four
   checksum bytes to exist); B2, S1..S4 need nothing.  No injectivity or collision-freeness of the hash is needed
   anywhere: the four checksum bytes are APPENDED to the payload, so the payload is read back from the string itself. *)
From PV Require Import Base.Bytes Base.Outcome Gen.GenNetworks Model.Address Spec.AddressSpec Proofs.AddressP.
From PV Require Import Proofs.ComposeCodecB58 Proofs.ComposeCodecSegwit.
Local Open Scope N_scope.

Section Compose.
Variable dsha256 : bytes -> bytes.

Notation enc := (cc_b58check_encode dsha256).
Notation dec := (cc_b58check_decode dsha256).
Notation senc := cc_segwit_encode.
Notation sparse := cc_segwit_parse.

(* B2 + S3, with `lower` = the model's own ascii_lower: no hypothesis at all *)
Theorem c11_codec_text_laws : codec_text_laws enc dec senc sparse ascii_lower.
Proof.
  split.
  - exact (cc_b58_encode_decode dsha256).
  - exact cc_segwit_encode_parse.
Qed.

Hypothesis dsha256_len4 : forall x, (4 <= length (dsha256 x))%nat.

Theorem c11_codec_laws : codec_laws enc dec senc sparse.
Proof.
  split.
  - exact (cc_b58_decode_encode dsha256 dsha256_len4).
  - exact (cc_b58_length dsha256 dsha256_len4).
  - exact cc_segwit_parse_encode.
  - exact cc_segwit_encode_defined.
  - exact cc_segwit_length.
Qed.
End Compose.

(* "dsha256 returns 32 bytes" is what the hash oracle guarantees; four are enough *)
Lemma len32_len4 (dsha256 : bytes -> bytes) : (forall x, length (dsha256 x) = 32%nat) -> forall x, (4 <= length (dsha256 x))%nat.
Proof. intros H x. rewrite H. repeat constructor. Qed.

Section Theorems.
Variable dsha256 : bytes -> bytes.
Variable hash160 : bytes -> bytes.
Hypothesis dsha256_len : forall x, length (dsha256 x) = 32%nat.

Notation enc := (cc_b58check_encode dsha256).
Notation dec := (cc_b58check_decode dsha256).
Notation senc := cc_segwit_encode.
Notation sparse := cc_segwit_parse.
Notation LAWS := (c11_codec_laws dsha256 (len32_len4 dsha256 dsha256_len)).

Theorem compose_script_address_script :
  forall (net : netrow) (k : N) (payload : bytes),
  In net networks -> nr_std net = true -> In k (nr_kinds net) -> length payload = kind_len k ->
  for_info (kind_info k payload) = Ret (std_script k payload) /\
  exists s, address_for_script enc senc hash160 net (std_script k payload) = Ret (Some s) /\
            parse_address dec sparse net s = Ret (Some (kind_info k payload)) /\
            contract_for_address dec sparse net s = Ret (Some (std_script k payload)).
Proof. exact (table_script_address_script enc dec senc sparse hash160 LAWS). Qed.

Theorem compose_accept_reencode :
  forall (net : netrow) (s : bytes) (i : info),
  In net networks -> nr_std net = true -> parse_address dec sparse net s = Ret (Some i) ->
  exists k payload s', In k (nr_kinds net) /\ length payload = kind_len k /\ i = kind_info k payload /\
    for_info i = Ret (std_script k payload) /\
    address_for_script enc senc hash160 net (std_script k payload) = Ret (Some s') /\
    parse_address dec sparse net s' = Ret (Some i).
Proof. exact (table_accept_reencode enc dec senc sparse hash160 LAWS). Qed.

Theorem compose_cross_network :
  forall (A B : netrow) (kA : N) (payload s : bytes) (i : info),
  In A networks -> In B networks -> nr_std A = true -> nr_std B = true ->
  In kA (nr_kinds A) -> length payload = kind_len kA ->
  address_for_script enc senc hash160 A (std_script kA payload) = Ret (Some s) ->
  parse_address dec sparse B s = Ret (Some i) ->
  exists kB, In kB (nr_kinds B) /\ kind_len kB = kind_len kA /\ i = kind_info kB payload /\
    address_for_script enc senc hash160 B (std_script kB payload) = Ret (Some s) /\
    (2 <= kA -> kB = kA) /\ (cross_kind_ok A B = true -> kB = kA).
Proof. exact (table_cross_network enc dec senc sparse hash160 LAWS). Qed.

Theorem compose_address_injective :
  forall (net : netrow) (k1 : N) (p1 : bytes) (k2 : N) (p2 s : bytes),
  In net networks -> nr_std net = true -> In k1 (nr_kinds net) -> In k2 (nr_kinds net) ->
  length p1 = kind_len k1 -> length p2 = kind_len k2 ->
  address_for_script enc senc hash160 net (std_script k1 p1) = Ret (Some s) ->
  address_for_script enc senc hash160 net (std_script k2 p2) = Ret (Some s) -> k1 = k2 /\ p1 = p2.
Proof. exact (table_address_injective enc dec senc sparse hash160 LAWS). Qed.
End Theorems.

(* no hypothesis on the hash functions at all *)
Theorem compose_accept_reencode_text :
  forall (dsha256 hash160 : bytes -> bytes) (net : netrow) (s : bytes) (i : info),
  In net networks -> nr_std net = true ->
  parse_address (cc_b58check_decode dsha256) cc_segwit_parse net s = Ret (Some i) ->
  exists k payload, i = kind_info k payload /\ k <= 4 /\ length payload = kind_len k /\
    address_for_script (cc_b58check_encode dsha256) cc_segwit_encode hash160 net (std_script k payload)
      = Ret (Some (if k <=? 1 then s else ascii_lower s)).
Proof.
  intros dsha256 hash160 net s i.
  exact (table_accept_reencode_text (cc_b58check_encode dsha256) (cc_b58check_decode dsha256) cc_segwit_encode
           cc_segwit_parse hash160 ascii_lower net s i (c11_codec_text_laws dsha256)).
Qed.

Theorem compose_parse_history_independent :
  forall (dsha256 : bytes -> bytes) (s : bytes) (nets : list netrow),
  parse_address_seq (cc_b58check_decode dsha256) cc_segwit_parse nets s pcache_empty
  = map (fun net => parse_address (cc_b58check_decode dsha256) cc_segwit_parse net s) nets.
Proof. intros dsha256. exact (parse_address_seq_fresh_empty (cc_b58check_decode dsha256) cc_segwit_parse). Qed.
