(* Proofs/SolveToyC05.v — a toy instance of the abstract ECDSA / digest / hash interface of property C05, showing that
   the hypotheses of the theorems in Props/C05.v are jointly satisfiable (non-vacuity), and running the contract model
   and the template evaluator inside Coq on it.  Nothing here is about real cryptography. *)
From PV Require Import Base.Bytes Base.Outcome Gen.GenSolveC05 Spec.Templates Model.Solve Proofs.SolveP.
From Coq Require Import ZifyBool ZifyNat ZifyN.
Local Open Scope N_scope.

Definition t_pad (n : nat) (x : bytes) : bytes := firstn n (x ++ repeat x00 n).
Definition t_hash160 (x : bytes) : bytes := t_pad 20 x.
Definition t_sha256 (x : bytes) : bytes := t_pad 32 x.
(* the "key byte": 1..127, so that it is a positive, low S value *)
Definition t_kb (se : bytes) : N := b2n (hd x00 se) mod 127 + 1.
Definition t_pub_of (se : bytes) (c : bool) : bytes := if c then x02 :: t_pad 32 se else x04 :: t_pad 64 se.
(* DER of (r = 1, s = key byte) *)
Definition t_sign (se d : bytes) : bytes := [x30; x06; x02; x01; x01; x02; x01; n2b (t_kb se)].
Definition t_verifies (pub d sig : bytes) : bool :=
  (length sig =? 8)%nat && (nthn 7 sig =? nthn 1 pub mod 127 + 1).
Definition t_sighash (w : bool) (t : N) (sc : bytes) : option bytes := Some [].

Lemma t_pad_length n x : length (t_pad n x) = n.
Proof. unfold t_pad. rewrite firstn_length, app_length, repeat_length. lia. Qed.

Lemma t_pad_hd n x : hd x00 (t_pad (S n) x) = hd x00 x.
Proof. unfold t_pad. destruct x; reflexivity. Qed.

Lemma t_kb_range se : 1 <= t_kb se <= 127.
Proof. unfold t_kb. pose proof (N.mod_lt (b2n (hd x00 se)) 127). lia. Qed.

Lemma toy_sign_verifies se c d : t_verifies (t_pub_of se c) d (t_sign se d) = true.
Proof.
  unfold t_verifies, t_sign. cbn [length Nat.eqb andb]. unfold nthn. cbn [nth].
  rewrite b2n_n2b by (pose proof (t_kb_range se); lia).
  assert (H : nth 1 (t_pub_of se c) x00 = hd x00 se).
  { destruct c; unfold t_pub_of; cbn [nth]; [rewrite <- (t_pad_hd 31 se) | rewrite <- (t_pad_hd 63 se)];
    destruct (t_pad _ se); reflexivity. }
  rewrite H. unfold t_kb. apply N.eqb_refl.
Qed.

(* every signature the toy signer can make, by its key byte *)
Definition t_sig_of (v : N) (t : byte) : bytes := [x30; x06; x02; x01; x01; x02; x01; n2b v; t].
Definition t_all_ok : bool :=
  forallb (fun v => strict_der (t_sig_of (N.of_nat v) x00) && low_s (t_sig_of (N.of_nat v) x00) &&
                    parse_sig_ok (t_sig_of (N.of_nat v) x00)) (seq 1 127).
Lemma t_all_ok_true : t_all_ok = true.
Proof. vm_compute. reflexivity. Qed.

(* strict_der, low_s and parse_sig_ok never look at the last byte's value *)
Lemma toy_last_byte_irrelevant v t :
  strict_der (t_sig_of v t) = strict_der (t_sig_of v x00) /\ low_s (t_sig_of v t) = low_s (t_sig_of v x00) /\
  parse_sig_ok (t_sig_of v t) = parse_sig_ok (t_sig_of v x00).
Proof. repeat split. Qed.

Lemma toy_sig_facts se d t :
  strict_der (t_sign se d ++ [t]) = true /\ low_s (t_sign se d ++ [t]) = true /\ parse_sig_ok (t_sign se d ++ [t]) = true.
Proof.
  change (t_sign se d ++ [t]) with (t_sig_of (t_kb se) t).
  destruct (toy_last_byte_irrelevant (t_kb se) t) as (-> & -> & ->).
  pose proof (t_kb_range se) as Hr.
  pose proof t_all_ok_true as H. unfold t_all_ok in H. rewrite forallb_forall in H.
  specialize (H (N.to_nat (t_kb se))). rewrite N2Nat.id in H.
  assert (Hin : In (N.to_nat (t_kb se)) (seq 1 127)) by (apply in_seq; lia).
  specialize (H Hin). apply andb_true_iff in H. destruct H as [H H3]. apply andb_true_iff in H. destruct H as [H1 H2].
  auto.
Qed.

Lemma toy_sign_canonical se d t : strict_der (t_sign se d ++ [t]) = true /\ low_s (t_sign se d ++ [t]) = true.
Proof. destruct (toy_sig_facts se d t) as (H1 & H2 & _). auto. Qed.
Lemma toy_sign_parses se d t : parse_sig_ok (t_sign se d ++ [t]) = true.
Proof. now destruct (toy_sig_facts se d t) as (_ & _ & H). Qed.
Lemma toy_sha256_len x : length (t_sha256 x) = 32%nat.
Proof. apply t_pad_length. Qed.
Lemma toy_hash160_len x : length (t_hash160 x) = 20%nat.
Proof. apply t_pad_length. Qed.
Lemma toy_pub_wellformed se : is_compressed (t_pub_of se true) = true /\ is_uncompressed (t_pub_of se false) = true.
Proof.
  unfold is_compressed, is_uncompressed, t_pub_of. cbn [length]. rewrite !t_pad_length. split; reflexivity.
Qed.

(* a signature of one key does not verify under a key with another key byte *)
Lemma toy_excl se1 c1 se2 d : t_kb se1 <> t_kb se2 -> t_verifies (t_pub_of se1 c1) d (t_sign se2 d) = false.
Proof.
  intros Hne. unfold t_verifies, t_sign. cbn [length Nat.eqb andb]. unfold nthn. cbn [nth].
  rewrite b2n_n2b by (pose proof (t_kb_range se2); lia).
  assert (H : nth 1 (t_pub_of se1 c1) x00 = hd x00 se1).
  { destruct c1; unfold t_pub_of; cbn [nth]; [rewrite <- (t_pad_hd 31 se1) | rewrite <- (t_pad_hd 63 se1)];
    destruct (t_pad _ se1); reflexivity. }
  rewrite H. fold (t_kb se1). apply N.eqb_neq. congruence.
Qed.

Lemma nodup_app_tail {A} (a l : list A) : NoDup (a ++ l) -> NoDup l.
Proof. induction a as [|x a IH]; cbn [app]; [auto|]. intros H. inversion H; subst. auto. Qed.

Lemma nodup_split_neq {A B} (f : A -> B) l a k1 b k2 c :
  NoDup (map f l) -> l = a ++ k1 :: b ++ k2 :: c -> f k1 <> f k2.
Proof.
  intros Hnd ->. rewrite map_app in Hnd. apply nodup_app_tail in Hnd. cbn [map] in Hnd.
  inversion Hnd as [|x l' Hnotin _]; subst. intros E. apply Hnotin. rewrite map_app. apply in_or_app. right.
  cbn [map]. left. now symmetry.
Qed.

(* ---- the instance: 2-of-3, compressed keys, P2SH-P2WSH (the kind with the most wrapping) ---------------------- *)
Definition toy_ks : list keyspec := [([x01], true); ([x02], true); ([x03], true)].
Definition toy_ms : bytes := ms_script 2 (map (pub t_pub_of) toy_ks).
Definition toy_p2sh : list bytes := [toy_ms; wit0_script (t_sha256 toy_ms)].
Definition toy_kd : kind := K_P2SH_P2WSH_MS.
(* pass 1: only the third key, SIGHASH_ALL; pass 2: only the first key, SIGHASH_NONE|ANYONECANPAY *)
Definition toy_pass1 : pass := mkPass (build_hash160_lookup t_hash160 t_pub_of [[x03]]) None.
Definition toy_pass2 : pass := mkPass (build_hash160_lookup t_hash160 t_pub_of [[x01]; [x09]]) (Some 130).

Lemma toy_ms_ok : ms_ok t_verifies t_sign t_pub_of t_sighash toy_kd 2 toy_ks.
Proof.
  constructor.
  - right; right; right. reflexivity.
  - cbn. lia.
  - cbn. lia.
  - discriminate.
  - vm_compute. discriminate.
  - intros a k1 b k2 c d H.
    assert (Hne : t_kb (fst k1) <> t_kb (fst k2)).
    { apply (nodup_split_neq (fun k : keyspec => t_kb (fst k)) toy_ks a k1 b k2 c); [|exact H].
      repeat (constructor; [vm_compute; intuition discriminate|]). constructor. }
    destruct k1 as [se1 c1], k2 as [se2 c2]. unfold pub. cbn [fst snd] in *.
    split; apply toy_excl; congruence.
  - intros k d _ _. reflexivity.
Qed.

Lemma toy_p2sh_ok : p2sh_ok t_hash160 t_sha256 t_pub_of toy_kd 2 toy_ks toy_p2sh.
Proof. repeat split; intros; vm_compute; reflexivity. Qed.

Lemma toy_pub_enc fl : forall k, In k toy_ks -> pub_enc_ok fl (kwit toy_kd) (pub t_pub_of k) = true.
Proof.
  intros k [<-|[<-|[<-|[]]]]; unfold pub_enc_ok; destruct (f_std fl), (f_strictenc fl); vm_compute; reflexivity.
Qed.

Lemma toy_pass_ok fl p : In p [toy_pass1; toy_pass2] ->
  pass_ok t_hash160 t_pub_of t_sighash false toy_kd 2 toy_ks fl p.
Proof.
  intros [<-|[<-|[]]]; (split; [|split; [split; [vm_compute; reflexivity | discriminate] | intros _ _; vm_compute; tauto]]).
  - intros k se c [<-|[<-|[<-|[]]]] H; vm_compute in H; try discriminate; injection H as <- _; reflexivity.
  - intros k se c [<-|[<-|[<-|[]]]] H; vm_compute in H; try discriminate; injection H as <- _; reflexivity.
Qed.

(* the hypotheses of C05_partial_signing_order_free hold for the instance, for every flag set *)
Definition toy_partial_hypotheses (fl : flags) : Prop :=
  ms_ok t_verifies t_sign t_pub_of t_sighash toy_kd 2 toy_ks /\
  p2sh_ok t_hash160 t_sha256 t_pub_of toy_kd 2 toy_ks toy_p2sh /\
  (forall k, In k toy_ks -> pub_enc_ok fl (kwit toy_kd) (pub t_pub_of k) = true) /\
  Forall (pass_ok t_hash160 t_pub_of t_sighash false toy_kd 2 toy_ks fl) [toy_pass1; toy_pass2].
Lemma toy_partial_hypotheses_hold fl : toy_partial_hypotheses fl.
Proof.
  split; [apply toy_ms_ok|]. split; [apply toy_p2sh_ok|]. split; [apply toy_pub_enc|].
  constructor; [apply toy_pass_ok; cbn; auto|]. constructor; [apply toy_pass_ok; cbn; auto|]. constructor.
Qed.

(* ... and the model and the evaluator, run inside Coq: one pass is not enough, two passes (in either order) are *)
Definition toy_run (passes : list pass) : outcome (bytes * list bytes) :=
  run t_hash160 t_sha256 t_verifies t_sign t_pub_of t_sighash false toy_p2sh toy_kd 2 toy_ks passes ([], []).
Definition toy_valid (fl : flags) (o : outcome (bytes * list bytes)) : bool :=
  match o with
  | Ret st => eval_input t_hash160 t_sha256 t_verifies t_sighash fl (pz_ms t_pub_of toy_kd 2 toy_ks) (fst st) (snd st)
  | _ => false
  end.
Lemma toy_runs :
  toy_valid (STD false) (toy_run []) = false /\
  toy_valid (STD false) (toy_run [toy_pass1]) = false /\ toy_valid LAX (toy_run [toy_pass1]) = false /\
  toy_valid (STD false) (toy_run [toy_pass2]) = false /\
  toy_valid (STD false) (toy_run [toy_pass1; toy_pass2]) = true /\
  toy_valid (STD false) (toy_run [toy_pass2; toy_pass1]) = true /\
  toy_run [toy_pass1; toy_pass2] = toy_run [toy_pass2; toy_pass1; toy_pass1] /\
  ncovered t_hash160 t_pub_of toy_ks [toy_pass1] = 1%nat /\ ncovered t_hash160 t_pub_of toy_ks [toy_pass1; toy_pass2] = 2%nat.
Proof. vm_compute. repeat split. Qed.

(* the hypotheses of the two validity theorems for the instance (all keys in one table) *)
Definition toy_db : lookup := build_hash160_lookup t_hash160 t_pub_of [[x01]; [x02]; [x03]].
Definition toy_validates_hypotheses : Prop :=
  ms_shape t_pub_of toy_kd 2 toy_ks /\ db_ok t_hash160 t_pub_of toy_db toy_ks /\
  (forall k, In k toy_ks -> avail t_hash160 t_pub_of toy_db k = true) /\
  ht_ok t_sighash (kwit toy_kd) toy_ms (effective_hash_type false (Some 131)) /\
  std_hash_type (effective_hash_type false (Some 131)) /\
  (forall kd, is_single_kind kd ->
     lookup_get toy_db (t_hash160 (pub t_pub_of ([x02], true))) = Some ([x02], true) /\
     pub_enc_ok (STD false) (single_wit kd) (pub t_pub_of ([x02], true)) = true).
Lemma toy_validates_hypotheses_hold : toy_validates_hypotheses.
Proof.
  split; [apply ms_ok_shape with (verifies := t_verifies) (sign := t_sign) (sighash := t_sighash); apply toy_ms_ok|].
  split; [intros k se c [<-|[<-|[<-|[]]]] H; vm_compute in H; try discriminate; injection H as <- _; reflexivity|].
  split; [intros k [<-|[<-|[<-|[]]]]; vm_compute; reflexivity|].
  split; [split; [vm_compute; reflexivity | discriminate]|].
  split; [vm_compute; tauto|].
  intros kd [ -> | [ -> | [ -> | -> ] ] ]; split; vm_compute; reflexivity.
Qed.

(* the interface hypotheses of Section C05 in Props/C05.v, for the toy functions *)
Definition toy_interface : Prop :=
  (forall se c d, t_verifies (t_pub_of se c) d (t_sign se d) = true) /\
  (forall se d t, strict_der (t_sign se d ++ [t]) = true /\ low_s (t_sign se d ++ [t]) = true) /\
  (forall x, length (t_sha256 x) = 32%nat) /\ (forall x, length (t_hash160 x) = 20%nat) /\
  (forall se, is_compressed (t_pub_of se true) = true /\ is_uncompressed (t_pub_of se false) = true).
Lemma toy_interface_holds : toy_interface.
Proof.
  repeat split; auto using toy_sign_verifies, toy_sha256_len, toy_hash160_len.
  - apply toy_sign_canonical.
  - apply toy_sign_canonical.
  - apply toy_pub_wellformed.
  - apply toy_pub_wellformed.
Qed.
