(* Proofs/TxCheckP.v — lemmas about Model/TxCheck.v (C20): each sub-check returns or raises
   ValidationFailureError, and returns exactly when the defects of Spec/TxCheckSpec.v are absent. *)
From PV Require Import Base.Bytes Base.Outcome Base.Varint Gen.GenTxConsts Model.TxWire Model.TxCheck
  Spec.TxWireSpec Spec.TxCheckSpec Proofs.TxWireP.
From Coq Require Import ZifyBool ZifyNat ZifyN.
From Coq Require String.
Local Open Scope outcome_scope.
Local Open Scope Z_scope.

(* ---- constants the proofs need from Gen/GenTxConsts.v ------------------------------------------------ *)
Record check_table_facts : Prop := {
  cf_zero : txin_zero_hash = repeat x00 32;
  cf_null : txin_null_index = 4294967295;
  cf_min : coinbase_script_min = 2;
  cf_max : coinbase_script_max = 100;
  cf_frame : check_mutations = [];
  cf_btc : coin_limits coin_BTC = Some (21000000 * 100000000, 1000000);
  cf_grs : coin_limits coin_GRS = Some (105000000 * 100000000, 1000000);
  cf_all : forallb (fun '(_, mm, ms, coins) => (mm =? coins * satoshi_per_coin) && (ms =? 1000000) && (ms =? max_block_size)
                                               && (0 <? mm)) coin_table = true;
  cf_spc : satoshi_per_coin = 100000000;
}.
Lemma check_facts : check_table_facts.
Proof. split; vm_compute; reflexivity. Qed.

(* ---- coinbase detection ---------------------------------------------------------------------------------- *)
Lemma txin_is_coinbase_iff i : txin_is_coinbase i = true <-> null_outpoint i.
Proof.
  unfold txin_is_coinbase, null_outpoint. rewrite (cf_zero check_facts), (cf_null check_facts).
  rewrite andb_true_iff, bytes_eqb_eq, Z.eqb_eq. tauto.
Qed.
Lemma tx_is_coinbase_iff t : tx_is_coinbase t = true <-> coinbase_tx t.
Proof.
  unfold tx_is_coinbase, coinbase_tx. destruct (tx_ins t) as [|i [|j r]].
  - split; [discriminate|]. intros (i & E & _). discriminate.
  - rewrite txin_is_coinbase_iff. split; [intros H; exists i; auto|]. intros (i' & E & H). now injection E as ->.
  - split; [discriminate|]. intros (i' & E & _). discriminate.
Qed.

Section WithLimits.
Variable max_money : Z.
Variable max_tx_size : Z.
Notation check := (check max_money max_tx_size).
Notation defect := (defect max_money).

(* ---- counts ------------------------------------------------------------------------------------------------- *)
Lemma inout_cases t :
  (tx_ins t <> [] /\ tx_outs t <> [] /\ check_tx_inout_count t = Ret tt) \/
  ((tx_ins t = [] \/ tx_outs t = []) /\ check_tx_inout_count t = Raise E_VALIDATION).
Proof.
  unfold check_tx_inout_count. destruct (tx_outs t) as [|o outs]; [right; auto|].
  destruct (tx_ins t) as [|i ins] eqn:E.
  - right. split; [auto|]. unfold tx_is_coinbase. rewrite E. reflexivity.
  - left. rewrite andb_false_r. repeat split; discriminate.
Qed.

(* ---- output values -------------------------------------------------------------------------------------------- *)
Lemma outs_loop_cases outs acc :
  check_txs_out_loop max_money outs acc = Ret tt \/ check_txs_out_loop max_money outs acc = Raise E_VALIDATION.
Proof.
  revert acc. induction outs as [|o r IH]; intros acc; cbn [check_txs_out_loop]; [left; reflexivity|].
  destruct (_ || _); [right; reflexivity|]. cbv zeta. destruct (_ >? _); [right; reflexivity|]. apply IH.
Qed.

Lemma outs_loop_ret outs acc :
  check_txs_out_loop max_money outs acc = Ret tt <->
  (forall o, In o outs -> 0 <= to_value o <= max_money) /\
  (forall k, (1 <= k <= length outs)%nat -> acc + total (firstn k outs) <= max_money).
Proof.
  revert acc. induction outs as [|o r IH]; intros acc; cbn [check_txs_out_loop].
  - split; [|reflexivity]. intros _. split; [intros ? []|]. cbn [length]. lia.
  - destruct ((to_value o <? 0) || (to_value o >? max_money)) eqn:E1.
    + split; [discriminate|]. intros (H & _). specialize (H o (or_introl eq_refl)). lia.
    + cbv zeta. destruct (acc + to_value o >? max_money) eqn:E2.
      * split; [discriminate|]. intros (_ & H). specialize (H 1%nat). cbn [length firstn total fold_right] in H. lia.
      * rewrite IH. split.
        -- intros (H1 & H2). split.
           ++ intros x [<- | Hx]; [lia|auto].
           ++ intros k Hk. destruct k as [|k]; [lia|]. cbn [firstn total fold_right].
              destruct k as [|k]; [cbn [firstn fold_right]; lia|].
              specialize (H2 (S k)). cbn [length] in Hk. unfold total in H2. lia.
        -- intros (H1 & H2). split.
           ++ intros x Hx. apply H1. now right.
           ++ intros k Hk. specialize (H2 (S k)). cbn [length firstn total fold_right] in H2. unfold total. lia.
Qed.

(* ---- inputs ------------------------------------------------------------------------------------------------------ *)
Lemma pair_eqb_eq a b : pair_eqb a b = true <-> a = b.
Proof.
  unfold pair_eqb. rewrite andb_true_iff, bytes_eqb_eq, Z.eqb_eq. destruct a, b; cbn. split; [intros [-> ->]; reflexivity|].
  intros E; injection E; auto.
Qed.
Lemma existsb_pair p refs : existsb (pair_eqb p) refs = true <-> In p refs.
Proof.
  rewrite existsb_exists. split.
  - intros (x & Hx & E). apply pair_eqb_eq in E. now subst.
  - intros H. exists p. split; [exact H|]. now apply pair_eqb_eq.
Qed.

Lemma outpoint_eq_dec (a b : bytes * Z) : {a = b} + {a <> b}.
Proof.
  destruct (pair_eqb a b) eqn:E; [left; now apply pair_eqb_eq|].
  right. intros ->. rewrite (proj2 (pair_eqb_eq b b) eq_refl) in E. discriminate.
Qed.

Lemma refs_loop_cases ins refs :
  check_refs_loop ins refs = Ret tt \/ check_refs_loop ins refs = Raise E_VALIDATION.
Proof.
  revert refs. induction ins as [|i r IH]; intros refs; cbn [check_refs_loop]; [left; reflexivity|].
  destruct (txin_is_coinbase i); [right; reflexivity|]. cbv zeta. destruct (existsb _ _); [right; reflexivity|]. apply IH.
Qed.

Lemma refs_loop_ret ins refs :
  check_refs_loop ins refs = Ret tt <->
  (forall i, In i ins -> ~ null_outpoint i) /\ NoDup (map outpoint ins) /\ (forall i, In i ins -> ~ In (outpoint i) refs).
Proof.
  revert refs. induction ins as [|i r IH]; intros refs; cbn [check_refs_loop].
  - split; [|reflexivity]. intros _. repeat split; try (intros ? []). constructor.
  - destruct (txin_is_coinbase i) eqn:C.
    + split; [discriminate|]. intros (H & _). apply txin_is_coinbase_iff in C. exfalso. apply (H i); [now left|exact C].
    + cbv zeta. destruct (existsb (pair_eqb (ti_hash i, ti_index i)) refs) eqn:E.
      * split; [discriminate|]. intros (_ & _ & H). apply existsb_pair in E. exfalso. apply (H i); [now left|exact E].
      * rewrite IH. assert (Hn : ~ null_outpoint i) by (rewrite <- txin_is_coinbase_iff; congruence).
        assert (Hr : ~ In (outpoint i) refs) by (rewrite <- existsb_pair; unfold outpoint; congruence).
        cbn [map]. split.
        -- intros (H1 & H2 & H3). repeat split.
           ++ intros x [<- | Hx]; auto.
           ++ constructor; [|exact H2]. intros Hin. apply in_map_iff in Hin. destruct Hin as (x & Ex & Hx).
              apply (H3 x Hx). left. unfold outpoint in *. congruence.
           ++ intros x [<- | Hx]; [exact Hr|]. intros Hin. apply (H3 x Hx). now right.
        -- intros (H1 & H2 & H3). inversion H2 as [|? ? Hni Hnd]; subst. repeat split.
           ++ intros x Hx. apply H1. now right.
           ++ exact Hnd.
           ++ intros x Hx [E2 | Hin]; [|apply (H3 x); [now right|exact Hin]].
              apply Hni. apply in_map_iff. exists x. split; [|exact Hx]. unfold outpoint in *. congruence.
Qed.

Lemma duplicate_outpoint_iff t : duplicate_outpoint t <-> ~ NoDup (map outpoint (tx_ins t)).
Proof.
  unfold duplicate_outpoint. split.
  - intros (j & k & a & b & Hjk & Ha & Hb & E) Hnd. rewrite NoDup_nth_error in Hnd.
    assert (j = k); [|lia]. apply Hnd.
    + rewrite map_length. apply nth_error_Some. congruence.
    + rewrite !nth_error_map, Ha, Hb. cbn. now rewrite E.
  - intros Hnd. assert (D : forall n : nat, forall l : list (bytes * Z), length l = n -> NoDup l \/ exists j k x, (j < k)%nat /\ nth_error l j = Some x /\ nth_error l k = Some x).
    { induction n as [|n IHn]; intros l Hl; destruct l as [|x l]; try discriminate; [left; constructor|].
      injection Hl as Hl. destruct (IHn l Hl) as [Hn | (j & k & y & Hjk & Hj & Hk)].
      - destruct (in_dec outpoint_eq_dec x l) as [Hin | Hnin].
        + right. apply In_nth_error in Hin. destruct Hin as (k & Hk). exists 0%nat, (S k), x. repeat split; [lia|exact Hk].
        + left. now constructor.
      - right. exists (S j), (S k), y. repeat split; [lia|exact Hj|exact Hk]. }
    destruct (D _ (map outpoint (tx_ins t)) eq_refl) as [Hn | (j & k & x & Hjk & Hj & Hk)]; [contradiction|].
    rewrite nth_error_map in Hj, Hk.
    destruct (nth_error (tx_ins t) j) as [a|] eqn:Ea; [|discriminate].
    destruct (nth_error (tx_ins t) k) as [b|] eqn:Eb; [|discriminate].
    exists j, k, a, b. cbn in Hj, Hk. repeat split; auto. congruence.
Qed.

(* identity pre-check *)
Lemma count_same_two x ids : (1 < count_same x ids)%nat ->
  exists j k, (j < k)%nat /\ nth_error ids j = Some x /\ nth_error ids k = Some x.
Proof.
  unfold count_same. induction ids as [|y ids IH]; cbn [filter length]; [lia|].
  destruct (N.eqb x y) eqn:E.
  - apply N.eqb_eq in E. subst y. cbn [length]. intros H.
    destruct (filter (N.eqb x) ids) as [|z l] eqn:F; [cbn in H; lia|].
    assert (Hin : In z (filter (N.eqb x) ids)) by (rewrite F; now left).
    apply filter_In in Hin. destruct Hin as (Hin & Ez). apply N.eqb_eq in Ez. subst z.
    apply In_nth_error in Hin. destruct Hin as (k & Hk). exists 0%nat, (S k). repeat split; [lia|exact Hk].
  - intros H. destruct (IH H) as (j & k & Hjk & Hj & Hk). exists (S j), (S k). repeat split; [lia|exact Hj|exact Hk].
Qed.

Lemma identity_dup_is_outpoint_dup ids t : ids_consistent ids t -> dup_by_identity ids = true -> duplicate_outpoint t.
Proof.
  intros (Hl & Hc) H. unfold dup_by_identity in H. apply existsb_exists in H. destruct H as (x & _ & H).
  destruct (count_same_two x ids ltac:(lia)) as (j & k & Hjk & Hj & Hk).
  specialize (Hc j k x Hj Hk).
  assert (Hjl : (j < length (tx_ins t))%nat) by (rewrite <- Hl; apply nth_error_Some; congruence).
  assert (Hkl : (k < length (tx_ins t))%nat) by (rewrite <- Hl; apply nth_error_Some; congruence).
  destruct (nth_error (tx_ins t) j) as [a|] eqn:Ea; [|apply nth_error_None in Ea; lia].
  destruct (nth_error (tx_ins t) k) as [b|] eqn:Eb; [|apply nth_error_None in Eb; lia].
  exists j, k, a, b. repeat split; auto. congruence.
Qed.

Lemma txs_in_cases ids t : tx_ins t <> [] ->
  check_txs_in ids t = Ret tt \/ check_txs_in ids t = Raise E_VALIDATION.
Proof.
  intros Hne. unfold check_txs_in. destruct (dup_by_identity ids); [right; reflexivity|].
  destruct (tx_is_coinbase t).
  - destruct (tx_ins t); [congruence|]. cbv zeta. destruct (_ && _); auto.
  - apply refs_loop_cases.
Qed.

(* when the input check returns, the three input defects are absent *)
Lemma txs_in_ret_sound ids t : check_txs_in ids t = Ret tt ->
  ~ duplicate_outpoint t /\ ~ bad_coinbase_script t /\ ~ null_prevout t.
Proof.
  unfold check_txs_in. destruct (dup_by_identity ids); [discriminate|].
  destruct (tx_is_coinbase t) eqn:C.
  - pose proof (proj1 (tx_is_coinbase_iff t) C) as (i & Ei & Hi). rewrite Ei. cbv zeta.
    rewrite (cf_min check_facts), (cf_max check_facts).
    destruct (_ && _) eqn:E; [|discriminate]. intros _. repeat split.
    + intros (j & k & a & b & Hjk & Ha & Hb & _). rewrite Ei in Ha, Hb.
      destruct j, k; try lia; cbn in Hb; destruct k; discriminate.
    + intros (i' & Ei' & _ & Hs). rewrite Ei in Ei'. injection Ei' as <-. lia.
    + intros (Hn & _). apply Hn. exists i. auto.
  - intros H. apply refs_loop_ret in H. destruct H as (H1 & H2 & _). repeat split.
    + rewrite duplicate_outpoint_iff. tauto.
    + intros (i & Ei & Hi & _). assert (coinbase_tx t) by (exists i; auto).
      apply tx_is_coinbase_iff in H. congruence.
    + intros (_ & i & Hi & Hn). exact (H1 i Hi Hn).
Qed.

Lemma txs_in_ret_complete ids t : ids_consistent ids t -> tx_ins t <> [] ->
  ~ duplicate_outpoint t -> ~ bad_coinbase_script t -> ~ null_prevout t -> check_txs_in ids t = Ret tt.
Proof.
  intros Hc Hne Hd Hb Hn. unfold check_txs_in.
  destruct (dup_by_identity ids) eqn:D; [exfalso; apply Hd; eapply identity_dup_is_outpoint_dup; eauto|].
  destruct (tx_is_coinbase t) eqn:C.
  - pose proof (proj1 (tx_is_coinbase_iff t) C) as (i & Ei & Hi). rewrite Ei. cbv zeta.
    rewrite (cf_min check_facts), (cf_max check_facts).
    destruct (_ && _) eqn:E; [reflexivity|]. exfalso. apply Hb. exists i. split; [exact Ei|]. split; [exact Hi|]. intros Hr. lia.
  - apply refs_loop_ret. repeat split.
    + intros i Hi Hnull. apply Hn. split; [|eauto]. rewrite <- tx_is_coinbase_iff. congruence.
    + destruct (duplicate_outpoint_iff t) as [_ H].
      assert (Dd : NoDup (map outpoint (tx_ins t)) \/ ~ NoDup (map outpoint (tx_ins t))).
      { clear. induction (map outpoint (tx_ins t)) as [|x l IH]; [left; constructor|].
        destruct IH as [IH | IH]; [|right; intros Hn; inversion Hn; contradiction].
        destruct (in_dec outpoint_eq_dec x l).
        - right. intros Hn. inversion Hn. contradiction.
        - left. now constructor. }
      destruct Dd as [Dd | Dd]; [exact Dd|]. exfalso. exact (Hd (H Dd)).
    + intros i _ [].
Qed.

(* ---- size -------------------------------------------------------------------------------------------------------- *)
Lemma as_bin_default t : tx_as_bin false false true t [] = stream_tx false true t.
Proof. unfold tx_as_bin. cbn [andb]. destruct (stream_tx false true t); reflexivity. Qed.

Lemma stripped_le_total t b b' : stream_tx false true t = Ret b -> stream_tx false false t = Ret b' ->
  (length b' <= length b)%nat.
Proof.
  unfold stream_tx. cbn [andb].
  destruct (stream_word (tx_version t)); cbn [bind]; try discriminate.
  destruct (stream_count (length (tx_ins t))); cbn [bind]; try discriminate.
  destruct (stream_all (stream_txin false) (tx_ins t)); cbn [bind]; try discriminate.
  destruct (stream_count (length (tx_outs t))); cbn [bind]; try discriminate.
  destruct (stream_all stream_txout (tx_outs t)); cbn [bind]; try discriminate.
  destruct (has_witness_data t).
  - destruct (stream_all stream_witness (tx_ins t)); cbn [bind]; try discriminate.
    destruct (stream_word (tx_lock_time t)); cbn [bind]; try discriminate.
    intros E1 E2. injection E1 as <-. injection E2 as <-. repeat (rewrite app_length || cbn [length app]). pose proof (length tx_marker_flag). lia.
  - cbn [bind]. destruct (stream_word (tx_lock_time t)); cbn [bind]; try discriminate.
    intros E1 E2. injection E1 as <-. injection E2 as <-. lia.
Qed.

Lemma size_limit_spec t b : stream_tx false true t = Ret b ->
  check_size_limit max_tx_size t = if Z.of_nat (length b) >? max_tx_size then Raise E_VALIDATION else Ret tt.
Proof. intros E. unfold check_size_limit. now rewrite as_bin_default, E. Qed.

(* ---- Tx.check ------------------------------------------------------------------------------------------------------ *)
(* every sub-check before the size test returns or raises ValidationFailureError *)
Lemma check_cases ids t :
  check ids t = Raise E_VALIDATION \/
  (tx_ins t <> [] /\ tx_outs t <> [] /\ check_txs_out max_money t = Ret tt /\ check_txs_in ids t = Ret tt
   /\ check ids t = check_size_limit max_tx_size t).
Proof.
  unfold TxCheck.check. destruct (inout_cases t) as [(Hi & Ho & ->) | (Hd & ->)]; cbn [bind]; [|left; reflexivity].
  unfold check_txs_out. destruct (outs_loop_cases (tx_outs t) 0) as [E | E]; rewrite E; cbn [bind]; [|left; reflexivity].
  destruct (txs_in_cases ids t Hi) as [E2 | E2]; rewrite E2; cbn [bind]; [|left; reflexivity].
  right. repeat split; auto.
Qed.

(* if all of them return, none of the listed defects is present *)
Lemma pass_no_defect ids t : tx_ins t <> [] -> tx_outs t <> [] -> check_txs_out max_money t = Ret tt ->
  check_txs_in ids t = Ret tt -> ~ defect t.
Proof.
  intros Hi Ho Eo Ei. unfold check_txs_out in Eo. apply outs_loop_ret in Eo. destruct Eo as (Hv & Ht).
  destruct (txs_in_ret_sound ids t Ei) as (Hd & Hb & Hn).
  intros [D | [D | [D | [D | [D | [D | D]]]]]]; try contradiction.
  - destruct D as (o & Hin & Hbad). apply Hbad. auto.
  - destruct D as (k & Hk & Hbad). destruct k as [|k].
    + cbn in Hbad. destruct (tx_outs t) as [|o r]; [congruence|]. specialize (Hv o (or_introl eq_refl)). lia.
    + specialize (Ht (S k) ltac:(lia)). lia.
Qed.

(* and conversely without defects (for identity tags of real objects) they all return *)
Lemma no_defect_pass ids t : ids_consistent ids t -> ~ defect t ->
  tx_ins t <> [] /\ tx_outs t <> [] /\ check_txs_out max_money t = Ret tt /\ check_txs_in ids t = Ret tt.
Proof.
  intros Hc Hnd. unfold TxCheckSpec.defect in Hnd.
  assert (Hi : tx_ins t <> []) by (intros E; apply Hnd; left; exact E).
  assert (Ho : tx_outs t <> []) by (intros E; apply Hnd; right; left; exact E).
  repeat split; auto.
  - unfold check_txs_out. apply outs_loop_ret. split.
    + intros o Hin. destruct (Z_le_dec 0 (to_value o)) as [L1|L1]; [destruct (Z_le_dec (to_value o) max_money) as [L2|L2]|];
        [lia| |]; exfalso; apply Hnd; right; right; left; exists o; (split; [exact Hin|lia]).
    + intros k Hk. destruct (Z_le_dec (total (firstn k (tx_outs t))) max_money) as [L|L]; [lia|].
      exfalso. apply Hnd. right; right; right; left. exists k. split; [lia|lia].
  - apply txs_in_ret_complete; auto; intros D; apply Hnd; tauto.
Qed.

Lemma check_rejects ids t : defect t -> check ids t = Raise E_VALIDATION.
Proof.
  intros D. destruct (check_cases ids t) as [E | (Hi & Ho & Eo & Ei & _)]; [exact E|].
  exfalso. exact (pass_no_defect ids t Hi Ho Eo Ei D).
Qed.

Lemma check_rejects_oversize ids t b b' : stream_tx false true t = Ret b -> stream_tx false false t = Ret b' ->
  Z.of_nat (length b') > max_tx_size -> check ids t = Raise E_VALIDATION.
Proof.
  intros Eb Eb' Hs. destruct (check_cases ids t) as [E | (_ & _ & _ & _ & ->)]; [exact E|].
  rewrite (size_limit_spec t b Eb). pose proof (stripped_le_total t b b' Eb Eb').
  replace (Z.of_nat (length b) >? max_tx_size) with true by lia. reflexivity.
Qed.

Lemma check_accepts ids t b : ids_consistent ids t -> ~ defect t -> stream_tx false true t = Ret b ->
  Z.of_nat (length b) <= max_tx_size -> check ids t = Ret tt.
Proof.
  intros Hc Hnd Eb Hs. destruct (no_defect_pass ids t Hc Hnd) as (Hi & Ho & Eo & Ei).
  destruct (check_cases ids t) as [E | (_ & _ & _ & _ & ->)].
  - exfalso. unfold TxCheck.check in E. destruct (inout_cases t) as [(_ & _ & E1) | ([?|?] & _)]; try contradiction.
    rewrite E1, Eo, Ei in E. cbn [bind] in E. rewrite (size_limit_spec t b Eb) in E.
    replace (Z.of_nat (length b) >? max_tx_size) with false in E by lia. discriminate.
  - rewrite (size_limit_spec t b Eb). replace (Z.of_nat (length b) >? max_tx_size) with false by lia. reflexivity.
Qed.

(* exact characterisation for a transaction that serialises *)
Lemma check_iff ids t b : ids_consistent ids t -> stream_tx false true t = Ret b ->
  (check ids t = Ret tt <-> ~ defect t /\ Z.of_nat (length b) <= max_tx_size) /\
  (check ids t = Ret tt \/ check ids t = Raise E_VALIDATION).
Proof.
  intros Hc Eb. destruct (check_cases ids t) as [E | (Hi & Ho & Eo & Ei & E)].
  - split; [|right; exact E]. split; [rewrite E; discriminate|]. intros (Hnd & Hs).
    rewrite (check_accepts ids t b Hc Hnd Eb Hs) in E. discriminate.
  - rewrite E, (size_limit_spec t b Eb). destruct (Z.of_nat (length b) >? max_tx_size) eqn:Es.
    + split; [|right; reflexivity]. split; [discriminate|]. intros (_ & Hs). lia.
    + split; [|left; reflexivity]. split; [|reflexivity]. intros _. split; [|lia]. eapply pass_no_defect; eauto.
Qed.

(* the only other exception is the struct.error of a field that does not fit its wire width *)
Lemma check_other_exception ids t e : check ids t = Raise e -> e <> E_VALIDATION -> stream_tx false true t = Raise e.
Proof.
  intros E Hne. destruct (check_cases ids t) as [E' | (_ & _ & _ & _ & E')]; [congruence|].
  rewrite E' in E. unfold check_size_limit in E. rewrite as_bin_default in E.
  destruct (stream_tx false true t); cbn [bind] in E; [|congruence|discriminate].
  destruct (_ >? _); congruence.
Qed.

(* the identity pre-check is redundant: any consistent tagging gives the same verdict *)
Lemma pass_check ids t : tx_ins t <> [] -> tx_outs t <> [] -> check_txs_out max_money t = Ret tt ->
  check_txs_in ids t = Ret tt -> check ids t = check_size_limit max_tx_size t.
Proof.
  intros Hi Ho Eo Ei. unfold TxCheck.check.
  destruct (inout_cases t) as [(_ & _ & E1) | ([?|?] & _)]; try contradiction.
  now rewrite E1, Eo, Ei.
Qed.
Lemma check_ids_irrelevant ids ids' t : ids_consistent ids t -> ids_consistent ids' t -> check ids t = check ids' t.
Proof.
  intros H H'.
  destruct (check_cases ids t) as [E | (Hi & Ho & Eo & Ei & E)];
  destruct (check_cases ids' t) as [E2 | (Hi2 & Ho2 & Eo2 & Ei2 & E2)]; try congruence.
  - pose proof (pass_no_defect ids' t Hi2 Ho2 Eo2 Ei2) as Hnd.
    destruct (no_defect_pass ids t H Hnd) as (Hi & Ho & Eo & Ei).
    rewrite (pass_check ids t Hi Ho Eo Ei), E2. reflexivity.
  - pose proof (pass_no_defect ids t Hi Ho Eo Ei) as Hnd.
    destruct (no_defect_pass ids' t H' Hnd) as (Hi2 & Ho2 & Eo2 & Ei2).
    rewrite (pass_check ids' t Hi2 Ho2 Eo2 Ei2), E. reflexivity.
Qed.

(* ---- coinbase exemption ---------------------------------------------------------------------------------------------- *)
Lemma coinbase_not_counted (ok : nat -> bool) t : coinbase_tx t -> bad_solution_count ok t = 0%nat.
Proof. intros C. apply tx_is_coinbase_iff in C. unfold bad_solution_count. now rewrite C. Qed.
End WithLimits.
