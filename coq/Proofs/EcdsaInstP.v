(* Proofs/EcdsaInstP.v — the executable instance of Model/EcdsaInst.v satisfies the hypotheses of the
   C01 theorems (Spec/EcdsaSpec.group_laws, lift_laws, prime n) for every curve that passes ONE boolean
   check `curve_ok`, which enumerates all points of the curve; the check is then run by vm_compute for
   four toy curves.  This is what makes the theorems of Props/C01.v non-vacuous. *)
From Coq Require Import ZArith List Lia Bool Znumtheory Eqdep_dec.
From Coq Require Import ZifyBool ZifyNat.
From PV Require Import Base.Bytes Base.Outcome Model.Ecdsa Model.EcdsaInst Spec.EcdsaSpec.
Import ListNotations.
Local Open Scope Z_scope.

Definition zrange (m : Z) : list Z := map Z.of_nat (seq 0 (Z.to_nat m)).

Lemma zrange_in m x : 0 <= x < m -> In x (zrange m).
Proof.
  intros H. unfold zrange. apply in_map_iff. exists (Z.to_nat x). split; [lia|]. apply in_seq. lia.
Qed.

Lemma raw_eqb_eq P Q : raw_eqb P Q = true <-> P = Q.
Proof.
  destruct P as [[x y]|], Q as [[x' y']|]; cbn; split; intros H; try discriminate; try reflexivity.
  - f_equal. f_equal; lia.
  - inversion H; subst. lia.
Qed.

(* primality by trial division *)
Definition is_prime_b (n : Z) : bool :=
  (2 <=? n) && forallb (fun d => (d <? 2) || negb (n mod d =? 0)) (zrange n).

Lemma is_prime_b_prime n : is_prime_b n = true -> prime n.
Proof.
  unfold is_prime_b. intros H. apply andb_true_iff in H. destruct H as [H2 Hf].
  rewrite forallb_forall in Hf.
  apply prime_intro; [lia|]. intros a Ha.
  apply Zgcd_1_rel_prime.
  pose proof (Z.gcd_nonneg a n) as Hg0.
  destruct (Z.gcd_divide_l a n) as [qa Hqa]. destruct (Z.gcd_divide_r a n) as [qn Hqn].
  set (g := Z.gcd a n) in *.
  assert (Hgpos : 0 < g).
  { destruct (Z.eq_dec g 0) as [E|]; [|lia]. rewrite E in Hqa. lia. }
  assert (Hqa1 : 1 <= qa) by (destruct (Z_lt_le_dec qa 1); [exfalso; nia|assumption]).
  assert (Hga : g <= a) by nia.
  specialize (Hf g (zrange_in n g ltac:(lia))).
  assert (Hm : n mod g = 0) by (rewrite Hqn; apply Z.mod_mul; lia).
  lia.
Qed.

Section InstP.
  Variable c : curve.
  Let p := cp c.
  Let n := cn c.

  (* raw-level operations with the membership test of `mk` *)
  Definition mkraw (R : raw) : raw := if on_curve c R then R else None.
  Definition cadd (P Q : raw) := mkraw (radd c P Q).
  Definition cneg (P : raw) := mkraw (rneg c P).
  Definition csmul (e : Z) (P : raw) := mkraw (rsmul c e P).

  Lemma praw_mk R : praw c (mk c R) = mkraw R.
  Proof.
    unfold mk, mkraw, praw. destruct (bool_dec (on_curve c R) true) as [e|e]; cbn.
    - rewrite e. reflexivity.
    - destruct (on_curve c R); [contradiction|reflexivity].
  Qed.

  Lemma pt_eq (P Q : pt c) : praw c P = praw c Q -> P = Q.
  Proof.
    destruct P as [P hp], Q as [Q hq]. cbn. intros ->. f_equal.
    apply UIP_dec. apply bool_dec.
  Qed.

  Lemma praw_on (P : pt c) : on_curve c (praw c P) = true.
  Proof. destruct P as [P hp]. exact hp. Qed.

  Definition all_raw : list raw :=
    None :: flat_map (fun x => flat_map (fun y => if on_curve c (Some (x, y)) then [Some (x, y)] else []) (zrange p)) (zrange p).

  Lemma all_raw_complete R : on_curve c R = true -> In R all_raw.
  Proof.
    intros H. destruct R as [[x y]|]; [|left; reflexivity]. right.
    assert (Hc : canonical c (Some (x, y)) = true) by (unfold on_curve in H; apply andb_true_iff in H; tauto).
    cbn in Hc. fold p in Hc.
    apply in_flat_map. exists x. split; [apply zrange_in; lia|].
    apply in_flat_map. exists y. split; [apply zrange_in; lia|].
    rewrite H. left. reflexivity.
  Qed.

  Lemma praw_in (P : pt c) : In (praw c P) all_raw.
  Proof. apply all_raw_complete, praw_on. Qed.

  Definition all1 (f : raw -> bool) : bool := forallb f all_raw.
  Definition all2 (f : raw -> raw -> bool) : bool := forallb (fun P => forallb (f P) all_raw) all_raw.
  Definition all3 (f : raw -> raw -> raw -> bool) : bool :=
    forallb (fun P => forallb (fun Q => forallb (f P Q) all_raw) all_raw) all_raw.

  Lemma all1_spec f : all1 f = true -> forall P : pt c, f (praw c P) = true.
  Proof. unfold all1. rewrite forallb_forall. intros H P. apply H, praw_in. Qed.
  Lemma all2_spec f : all2 f = true -> forall P Q : pt c, f (praw c P) (praw c Q) = true.
  Proof.
    unfold all2. rewrite forallb_forall. intros H P Q. specialize (H _ (praw_in P)).
    rewrite forallb_forall in H. apply H, praw_in.
  Qed.
  Lemma all3_spec f : all3 f = true -> forall P Q R : pt c, f (praw c P) (praw c Q) (praw c R) = true.
  Proof.
    unfold all3. rewrite forallb_forall. intros H P Q R. specialize (H _ (praw_in P)).
    rewrite forallb_forall in H. specialize (H _ (praw_in Q)). rewrite forallb_forall in H. apply H, praw_in.
  Qed.

  Definition allz (m : Z) (f : Z -> bool) : bool := forallb f (zrange m).
  Lemma allz_spec m f : allz m f = true -> forall x, 0 <= x < m -> f x = true.
  Proof. unfold allz. rewrite forallb_forall. intros H x Hx. apply H, zrange_in, Hx. Qed.

  (* ---- the check ---- *)
  Definition chk_assoc := all3 (fun P Q R => raw_eqb (cadd P (cadd Q R)) (cadd (cadd P Q) R)).
  Definition chk_comm := all2 (fun P Q => raw_eqb (cadd P Q) (cadd Q P)).
  Definition chk_O_l := all1 (fun P => raw_eqb (cadd None P) P).
  Definition chk_neg_r := all1 (fun P => raw_eqb (cadd P (cneg P)) None).
  Definition chk_smul_1 := all1 (fun P => raw_eqb (csmul 1 P) P).
  Definition chk_smul_add :=
    allz n (fun a => allz n (fun b => all1 (fun P => raw_eqb (csmul ((a + b) mod n) P) (cadd (csmul a P) (csmul b P))))).
  Definition chk_smul_mul :=
    allz n (fun a => allz n (fun b => all1 (fun P => raw_eqb (csmul ((a * b) mod n) P) (csmul a (csmul b P))))).
  Definition chk_neg_x :=
    all1 (fun P => match P with
                   | None => true
                   | Some (x, _) => match cneg P with Some (x', _) => x =? x' | None => false end
                   end).
  Definition chk_lift_sound :=
    allz p (fun x => match plift_x c x with
                     | None => true
                     | Some (P0, P1) =>
                       match praw c P0, praw c P1 with
                       | Some (x0, y0), Some (x1, y1) => (x0 =? x) && (x1 =? x) && negb (Z.odd y0) && Z.odd y1
                       | _, _ => false
                       end
                     end).
  Definition chk_lift_complete :=
    all1 (fun P => match P with
                   | None => true
                   | Some (x, y) =>
                     match plift_x c x with
                     | None => false
                     | Some (P0, P1) => raw_eqb P (praw c (if Z.odd y then P1 else P0))
                     end
                   end).

  Definition chk_G := negb (raw_eqb (praw c (pG c)) None).

  (* every key d in [1, n-1] and hash residue z in [0, n-1] has a nonce j in [1, n-1] with non-zero r and s *)
  Definition good_nonce_b (d z j : Z) : bool :=
    match praw c (psmul c j (pG c)) with
    | None => false
    | Some (x, _) => negb (x mod n =? 0) && negb ((z + (x mod n) * d) mod n =? 0)
    end.
  Definition good_nonce_ok : bool :=
    allz n (fun d => (d =? 0) || allz n (fun z => existsb (fun j => (1 <=? j) && good_nonce_b d z j) (zrange n))).

  Definition curve_ok : bool :=
    chk_G && is_prime_b n && chk_assoc && chk_comm && chk_O_l && chk_neg_r && chk_smul_1 && chk_smul_add && chk_smul_mul
    && chk_neg_x && chk_lift_sound && chk_lift_complete.

  Hypothesis OK : curve_ok = true.

  Lemma ok_parts :
    chk_G = true /\ is_prime_b n = true /\ chk_assoc = true /\ chk_comm = true /\ chk_O_l = true /\ chk_neg_r = true /\
    chk_smul_1 = true /\ chk_smul_add = true /\ chk_smul_mul = true /\ chk_neg_x = true /\
    chk_lift_sound = true /\ chk_lift_complete = true.
  Proof. pose proof OK as T. unfold curve_ok in T. rewrite !andb_true_iff in T. tauto. Qed.

  Lemma n_prime : prime n.
  Proof. apply is_prime_b_prime. apply ok_parts. Qed.

  Lemma inst_G_nonzero : pG c <> pO c.
  Proof.
    destruct ok_parts as (HG & _). intros E. unfold chk_G in HG. rewrite E in HG. cbn in HG. discriminate.
  Qed.

  Lemma n_pos : 0 < n.
  Proof. pose proof (prime_ge_2 n n_prime). lia. Qed.

  Lemma rsmul_mod e P : rsmul c e P = rsmul c (e mod n) P.
  Proof. unfold rsmul. fold n. rewrite Z.mod_mod by (pose proof n_pos; lia). reflexivity. Qed.

  Lemma praw_padd P Q : praw c (padd c P Q) = cadd (praw c P) (praw c Q).
  Proof. apply praw_mk. Qed.
  Lemma praw_pneg P : praw c (pneg c P) = cneg (praw c P).
  Proof. apply praw_mk. Qed.
  Lemma praw_psmul e P : praw c (psmul c e P) = csmul e (praw c P).
  Proof. apply praw_mk. Qed.
  Lemma csmul_mod e P : csmul e P = csmul (e mod n) P.
  Proof. unfold csmul. rewrite rsmul_mod. reflexivity. Qed.

  Lemma psmul_mod e P : psmul c e P = psmul c (e mod n) P.
  Proof. apply pt_eq. rewrite !praw_psmul. apply csmul_mod. Qed.

  Theorem inst_group_laws : group_laws (pt c) (padd c) (pneg c) (pO c) (psmul c) n (pcoords c).
  Proof.
    destruct ok_parts as (HG & Hp & Hassoc & Hcomm & HOl & Hnegr & Hs1 & Hsadd & Hsmul & Hnegx & Hls & Hlc).
    pose proof n_pos as Hn.
    constructor.
    - intros P Q R. apply pt_eq. rewrite !praw_padd. apply raw_eqb_eq.
      apply (all3_spec _ Hassoc P Q R).
    - intros P Q. apply pt_eq. rewrite !praw_padd. apply raw_eqb_eq. apply (all2_spec _ Hcomm P Q).
    - intros P. apply pt_eq. rewrite praw_padd. apply raw_eqb_eq. apply (all1_spec _ HOl P).
    - intros P. apply pt_eq. rewrite praw_padd, praw_pneg. apply raw_eqb_eq. apply (all1_spec _ Hnegr P).
    - intros P. apply pt_eq. rewrite praw_psmul. apply raw_eqb_eq. apply (all1_spec _ Hs1 P).
    - intros a b P. apply pt_eq.
      rewrite (psmul_mod (a + b)), (psmul_mod a), (psmul_mod b), Zplus_mod.
      rewrite praw_padd, !praw_psmul. apply raw_eqb_eq.
      pose proof (allz_spec _ _ Hsadd (a mod n) (Z.mod_pos_bound a n Hn)) as H1.
      pose proof (allz_spec _ _ H1 (b mod n) (Z.mod_pos_bound b n Hn)) as H2.
      apply (all1_spec _ H2 P).
    - intros a b P. apply pt_eq.
      rewrite (psmul_mod (a * b)), (psmul_mod a), (psmul_mod b), Zmult_mod.
      rewrite !praw_psmul. apply raw_eqb_eq.
      pose proof (allz_spec _ _ Hsmul (a mod n) (Z.mod_pos_bound a n Hn)) as H1.
      pose proof (allz_spec _ _ H1 (b mod n) (Z.mod_pos_bound b n Hn)) as H2.
      apply (all1_spec _ H2 P).
    - intros P. apply pt_eq. rewrite praw_psmul. unfold csmul, rsmul. fold n. rewrite Z_mod_same_full. reflexivity.
    - reflexivity.
    - intros P Hc. apply pt_eq. exact Hc.
    - intros P x y Hc. unfold pcoords in Hc. pose proof (praw_on P) as Ho. rewrite Hc in Ho.
      unfold on_curve in Ho. apply andb_true_iff in Ho. destruct Ho as [Ho _]. cbn in Ho. clear - Ho. lia.
    - intros P x y Hc. unfold pcoords in *. rewrite praw_pneg.
      pose proof (all1_spec _ Hnegx P) as H1.
      cbv beta in H1. rewrite Hc in H1. destruct (cneg (Some (x, y))) as [[x' y']|] eqn:E; [|discriminate].
      rewrite Hc, E. exists y'. f_equal. f_equal. clear - H1. lia.
  Qed.

  Theorem inst_lift_laws : lift_laws (pt c) (pcoords c) (plift_x c) (x_canonical c).
  Proof.
    destruct ok_parts as (HG & Hp & Hassoc & Hcomm & HOl & Hnegr & Hs1 & Hsadd & Hsmul & Hnegx & Hls & Hlc).
    constructor.
    - intros x P0 P1 Hl Hx. unfold x_canonical in Hx. fold p in Hx.
      pose proof (allz_spec _ _ Hls x Hx) as H1.
      cbv beta in H1. rewrite Hl in H1. unfold pcoords.
      destruct (praw c P0) as [[x0 y0]|]; [|discriminate]. destruct (praw c P1) as [[x1 y1]|]; [|discriminate].
      assert (x0 = x /\ x1 = x /\ Z.odd y0 = false /\ Z.odd y1 = true) as [-> [-> [E0 E1]]] by (clear - H1; lia).
      split; eexists; split; reflexivity || assumption.
    - intros P x y Hc. unfold pcoords in Hc. pose proof (praw_on P) as Ho. rewrite Hc in Ho.
      unfold on_curve in Ho. apply andb_true_iff in Ho. destruct Ho as [Ho _]. cbn in Ho. fold p in Ho.
      unfold x_canonical. fold p. clear - Ho. lia.
    - intros P x y Hc. unfold pcoords in Hc.
      pose proof (all1_spec _ Hlc P) as H1.
      cbv beta in H1. rewrite Hc in H1.
      destruct (plift_x c x) as [[P0 P1]|]; [|discriminate].
      exists P0, P1. split; [reflexivity|]. apply pt_eq. rewrite Hc. apply raw_eqb_eq. exact H1.
  Qed.

  Lemma good_nonce_ok_spec : good_nonce_ok = true ->
    forall d z, 1 <= d < n -> 0 <= z < n -> exists j, 1 <= j < n /\ good_nonce_b d z j = true.
  Proof.
    intros H d z Hd Hz. pose proof (allz_spec _ _ H d ltac:(lia)) as H1. cbv beta in H1.
    apply orb_true_iff in H1. destruct H1 as [H1|H1]; [lia|].
    pose proof (allz_spec _ _ H1 z Hz) as H2. cbv beta in H2. apply existsb_exists in H2.
    destruct H2 as [j [Hin Hj]]. apply andb_true_iff in Hj. destruct Hj as [Hj1 Hj2].
    exists j. split; [|exact Hj2].
    unfold zrange in Hin. apply in_map_iff in Hin. destruct Hin as [i [Hi Hs]]. apply in_seq in Hs. lia.
  Qed.
End InstP.

(* ---- four toy curves (p, a, b, Gx, Gy, n): n > p, n = p, n < p twice ---- *)
Definition toy13 := mkCurve 7 0 3 1 2 13.
Definition toy11 := mkCurve 11 1 5 0 4 11.
Definition toy19 := mkCurve 19 0 2 4 3 13.
Definition toy23 := mkCurve 23 5 22 3 8 17.

Lemma toy13_ok : curve_ok toy13 = true. Proof. vm_cast_no_check (eq_refl true). Qed.
Lemma toy11_ok : curve_ok toy11 = true. Proof. vm_cast_no_check (eq_refl true). Qed.
Lemma toy19_ok : curve_ok toy19 = true. Proof. vm_cast_no_check (eq_refl true). Qed.
Lemma toy23_ok : curve_ok toy23 = true. Proof. vm_cast_no_check (eq_refl true). Qed.

Lemma toy13_good_nonces : good_nonce_ok toy13 = true. Proof. vm_cast_no_check (eq_refl true). Qed.
Lemma toy11_good_nonces : good_nonce_ok toy11 = true. Proof. vm_cast_no_check (eq_refl true). Qed.
