(* Proofs/MsgUtf8P.v — UTF-8 encoding is injective on code-point sequences (the code is prefix-free), hence two
   different messages (e.g. a string and its NFC/NFD/NFKC/NFKD or case-folded twin) are different byte strings and
   different inputs of the message digest. *)
From PV Require Import Base.Bytes Base.Outcome Base.Varint Model.MsgUtf8 Model.Base64 Model.MsgSign Proofs.MsgSignP.
From Coq Require Import ZifyBool ZifyNat ZifyN.
Local Ltac Zify.zify_post_hook ::= Z.to_euclidean_division_equations.
Local Open Scope N_scope.

Lemma n2b_inj_small a b : a < 256 -> b < 256 -> n2b a = n2b b -> a = b.
Proof. intros Ha Hb H. rewrite <- (b2n_n2b a Ha), <- (b2n_n2b b Hb). now rewrite H. Qed.

(* what an encoded character looks like: its lead byte determines its length *)
Inductive enc_shape : N -> bytes -> Prop :=
| Sh1 c : c < 128 -> enc_shape c [n2b c]
| Sh2 c : 128 <= c < 2048 -> enc_shape c [n2b (192 + c / 64); n2b (128 + c mod 64)]
| Sh3 c : 2048 <= c < 65536 ->
    enc_shape c [n2b (224 + c / 4096); n2b (128 + (c / 64) mod 64); n2b (128 + c mod 64)]
| Sh4 c : 65536 <= c < 1114112 ->
    enc_shape c [n2b (240 + c / 262144); n2b (128 + (c / 4096) mod 64); n2b (128 + (c / 64) mod 64); n2b (128 + c mod 64)].

Lemma utf8_char_shape c e : utf8_char c = Some e -> enc_shape c e.
Proof.
  unfold utf8_char. destruct (c <? 128) eqn:E1.
  { intros H. injection H as <-. constructor. lia. }
  destruct (c <? 2048) eqn:E2.
  { intros H. injection H as <-. constructor. lia. }
  destruct (c <? 65536) eqn:E3.
  { destruct ((55296 <=? c) && (c <? 57344)); [discriminate|]. intros H. injection H as <-. constructor. lia. }
  destruct (c <? 1114112) eqn:E4; [|discriminate].
  intros H. injection H as <-. constructor. lia.
Qed.

(* base-64 digits of a code point: all the quotients and remainders the encoder uses, as plain variables *)
Lemma digits c : exists q1 r1 q2 r2 q3 r3,
  c = 64 * q1 + r1 /\ q1 = 64 * q2 + r2 /\ q2 = 64 * q3 + r3 /\ r1 < 64 /\ r2 < 64 /\ r3 < 64 /\
  c / 64 = q1 /\ c mod 64 = r1 /\ (c / 64) mod 64 = r2 /\ c / 4096 = q2 /\ (c / 4096) mod 64 = r3 /\ c / 262144 = q3.
Proof.
  exists (c / 64), (c mod 64), (c / 64 / 64), ((c / 64) mod 64), (c / 64 / 64 / 64), ((c / 64 / 64) mod 64).
  assert (E2 : c / 4096 = c / 64 / 64) by (rewrite N.div_div by lia; reflexivity).
  assert (E3 : c / 262144 = c / 64 / 64 / 64) by (rewrite !N.div_div by lia; reflexivity).
  rewrite E2, E3.
  pose proof (N.div_mod c 64 ltac:(lia)). pose proof (N.div_mod (c / 64) 64 ltac:(lia)).
  pose proof (N.div_mod (c / 64 / 64) 64 ltac:(lia)).
  pose proof (N.mod_upper_bound c 64 ltac:(lia)). pose proof (N.mod_upper_bound (c / 64) 64 ltac:(lia)).
  pose proof (N.mod_upper_bound (c / 64 / 64) 64 ltac:(lia)).
  repeat split; assumption.
Qed.

Local Ltac Zify.zify_post_hook ::= idtac.

Lemma cons_inj {A} (a b : A) l l' : a :: l = b :: l' -> a = b /\ l = l'.
Proof. intros H. injection H. auto. Qed.

Ltac list_eqs :=
  repeat match goal with
  | H : _ :: _ = _ :: _ |- _ => apply cons_inj in H; destruct H
  end.

Ltac byte_eqs :=
  repeat match goal with
  | H : n2b ?a = n2b ?b |- _ => apply n2b_inj_small in H; [|lia|lia]
  end.

Lemma enc_shape_prefix_free c e c' e' r r' : enc_shape c e -> enc_shape c' e' -> e ++ r = e' ++ r' -> c = c' /\ r = r'.
Proof.
  intros S S' H.
  destruct (digits c) as (q1 & r1 & q2 & r2 & q3 & r3 & D1 & D2 & D3 & B1 & B2 & B3 & E1 & E2 & E3 & E4 & E5 & E6).
  destruct (digits c') as (q1' & r1' & q2' & r2' & q3' & r3' & D1' & D2' & D3' & B1' & B2' & B3' & E1' & E2' & E3' & E4' & E5' & E6').
  destruct S as [c Hc|c Hc|c Hc|c Hc]; destruct S' as [c' Hc'|c' Hc'|c' Hc'|c' Hc'];
  rewrite ?E3, ?E5, ?E1, ?E2, ?E4, ?E6, ?E3', ?E5', ?E1', ?E2', ?E4', ?E6' in H;
  clear E1 E2 E3 E4 E5 E6 E1' E2' E3' E4' E5' E6';
  cbn [app] in H; list_eqs.
  all: byte_eqs; try (exfalso; lia).
  all: (split; [lia|congruence]).
Qed.

Lemma utf8_encode_inj s : forall s' b, utf8_encode s = Some b -> utf8_encode s' = Some b -> s = s'.
Proof.
  induction s as [|c s IH]; intros s' b H H'.
  - cbn in H. injection H as <-. destruct s' as [|c' s']; [reflexivity|exfalso].
    cbn [utf8_encode] in H'. destruct (utf8_char c') as [e'|] eqn:E'; [|discriminate].
    destruct (utf8_encode s'); [|discriminate]. injection H' as H'.
    apply utf8_char_shape in E'. destruct E'; discriminate.
  - cbn [utf8_encode] in H. destruct (utf8_char c) as [e|] eqn:E; [|discriminate].
    destruct (utf8_encode s) as [bs|] eqn:Es; [|discriminate]. injection H as <-.
    destruct s' as [|c' s'].
    + cbn in H'. injection H' as H'. apply utf8_char_shape in E. destruct E; discriminate.
    + cbn [utf8_encode] in H'. destruct (utf8_char c') as [e'|] eqn:E'; [|discriminate].
      destruct (utf8_encode s') as [bs'|] eqn:Es'; [|discriminate]. injection H' as H'.
      apply utf8_char_shape in E, E'. symmetry in H'.
      destruct (enc_shape_prefix_free _ _ _ _ _ _ E E' H') as [-> Hr]. subst bs'.
      f_equal. now apply (IH s' bs).
Qed.

(* two different messages are different digest inputs, on the same network *)
Lemma distinct_messages_distinct_frames magic (m m' : list N) b b' f f' :
  utf8_encode m = Some b -> utf8_encode m' = Some b' -> m <> m' ->
  (N.of_nat (length magic) < 2 ^ 63) -> (N.of_nat (length b) < 2 ^ 63) -> (N.of_nat (length b') < 2 ^ 63) ->
  frame magic b = Ret f -> frame magic b' = Ret f' -> f <> f'.
Proof.
  intros E E' Hne L1 L2 L3 F F' ->. apply Hne.
  destruct (frame_inj magic b magic b' f' L1 L2 L1 L3 F F') as [_ ->].
  now apply (utf8_encode_inj m m' b').
Qed.
