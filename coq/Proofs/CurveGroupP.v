(* Proofs/CurveGroupP.v — consequences of the abelian-group laws on a carrier subset `ok`:
   the Z-action `smul` (repeated addition, Spec/Weierstrass.v) is a module action. *)
From Coq Require Import ZArith Lia.
From PV Require Import Spec.Weierstrass.
Local Open Scope Z_scope.

Section Group.
Variable T : Type.
Variable ok : T -> Prop.
Variable (e : T) (op : T -> T -> T) (inv : T -> T).
Hypothesis ok_e : ok e.
Hypothesis ok_op : forall a b, ok a -> ok b -> ok (op a b).
Hypothesis ok_inv : forall a, ok a -> ok (inv a).
Hypothesis op_assoc : forall a b c, ok a -> ok b -> ok c -> op (op a b) c = op a (op b c).
Hypothesis op_comm : forall a b, ok a -> ok b -> op a b = op b a.
Hypothesis op_e_l : forall a, ok a -> op e a = a.
Hypothesis op_inv_r : forall a, ok a -> op a (inv a) = e.

Local Hint Resolve ok_e ok_op ok_inv : core.

Lemma op_e_r a : ok a -> op a e = a.
Proof. intros. rewrite op_comm; auto. Qed.

Lemma op_inv_l a : ok a -> op (inv a) a = e.
Proof. intros. rewrite op_comm; auto. Qed.

Lemma op_cancel_r a b x : ok a -> ok b -> ok x -> op a x = op b x -> a = b.
Proof.
  intros Ha Hb Hx H.
  rewrite <- (op_e_r a), <- (op_e_r b), <- (op_inv_r x), <- !op_assoc, H; auto.
Qed.

Lemma inv_unique a b : ok a -> ok b -> op a b = e -> b = inv a.
Proof.
  intros Ha Hb H. apply (op_cancel_r _ _ a); auto.
  rewrite op_inv_l, op_comm; auto.
Qed.

Lemma inv_op a b : ok a -> ok b -> inv (op a b) = op (inv a) (inv b).
Proof.
  intros Ha Hb. symmetry. apply inv_unique; auto.
  rewrite (op_comm (inv a)), op_assoc, <- (op_assoc b), op_inv_r, op_e_l, op_inv_r; auto.
Qed.

Lemma inv_e : inv e = e.
Proof. symmetry. apply inv_unique; auto. Qed.

Lemma inv_inv a : ok a -> inv (inv a) = a.
Proof. intros Ha. symmetry. apply inv_unique; auto. apply op_inv_l; auto. Qed.

Notation nsm := (nsmul e op).
Notation sm := (smul e op inv).

Lemma ok_nsmul n P : ok P -> ok (nsm n P).
Proof. intros HP. induction n; cbn; auto. Qed.

Lemma ok_smul k P : ok P -> ok (sm k P).
Proof. intros HP. unfold smul. destruct (k <? 0); auto using ok_nsmul. Qed.

Local Hint Resolve ok_nsmul ok_smul : core.

Lemma smul_0 P : sm 0 P = e.
Proof. reflexivity. Qed.

Lemma smul_1 P : ok P -> sm 1 P = P.
Proof. intros. unfold smul. change (1 <? 0) with false. change (Z.to_nat 1) with 1%nat. cbn [nsmul]. auto. Qed.

Lemma smul_succ k P : ok P -> sm (k + 1) P = op (sm k P) P.
Proof.
  intros HP. unfold smul.
  destruct (Z.ltb_spec k 0) as [Hk|Hk].
  - destruct (Z.ltb_spec (k + 1) 0) as [Hk1|Hk1].
    + replace (Z.to_nat (- k)) with (S (Z.to_nat (- (k + 1)))) by lia.
      cbn [nsmul]. set (m := nsm (Z.to_nat (- (k + 1))) P).
      assert (ok m) by (subst m; auto).
      rewrite inv_op, op_assoc, op_inv_l, op_e_r; auto.
    + assert (k = -1) by lia. subst k. change (Z.to_nat (- -1)) with 1%nat. change (Z.to_nat (-1 + 1)) with 0%nat.
      cbn [nsmul]. rewrite op_e_l, op_inv_l; auto.
  - destruct (Z.ltb_spec (k + 1) 0); [lia|].
    replace (Z.to_nat (k + 1)) with (S (Z.to_nat k)) by lia. reflexivity.
Qed.

Lemma smul_pred k P : ok P -> sm (k - 1) P = op (sm k P) (inv P).
Proof.
  intros HP. pose proof (smul_succ (k - 1) P HP) as H.
  replace (k - 1 + 1) with k in H by lia. rewrite H.
  rewrite op_assoc, op_inv_r, op_e_r; auto.
Qed.

Lemma smul_add j k P : ok P -> sm (j + k) P = op (sm j P) (sm k P).
Proof.
  intros HP. revert j. apply Z.peano_ind.
  - rewrite Z.add_0_l, smul_0, op_e_l; auto.
  - intros j IH. replace (Z.succ j + k) with ((j + k) + 1) by lia. replace (Z.succ j) with (j + 1) by lia.
    rewrite !smul_succ, IH by auto.
    rewrite !op_assoc, (op_comm (sm k P) P); auto.
  - intros j IH. replace (Z.pred j + k) with ((j + k) - 1) by lia. replace (Z.pred j) with (j - 1) by lia.
    rewrite !smul_pred, IH by auto.
    rewrite !op_assoc, (op_comm (sm k P) (inv P)); auto.
Qed.

Lemma smul_opp k P : ok P -> sm (- k) P = inv (sm k P).
Proof.
  intros HP. apply inv_unique; auto.
  rewrite <- smul_add by auto. replace (k + - k) with 0 by lia. reflexivity.
Qed.

Lemma smul_sub j k P : ok P -> sm (j - k) P = op (sm j P) (inv (sm k P)).
Proof. intros HP. unfold Z.sub. rewrite smul_add, smul_opp; auto. Qed.

Lemma smul_double k P : ok P -> op (sm k P) (sm k P) = sm (2 * k) P.
Proof. intros HP. rewrite <- smul_add by auto. f_equal. lia. Qed.

Lemma smul_minus_1 P : ok P -> sm (-1) P = inv P.
Proof. intros HP. change (-1) with (- (1)). rewrite smul_opp, smul_1; auto. Qed.

Lemma nsmul_e n : nsm n e = e.
Proof. induction n; cbn [nsmul]; [reflexivity|]. rewrite IHn. auto. Qed.

Lemma smul_e k : sm k e = e.
Proof. unfold smul. destruct (k <? 0); rewrite nsmul_e; auto using inv_e. Qed.

(* scalars act modulo any n that annihilates P *)
Lemma smul_order_mul n P : ok P -> sm n P = e -> forall q, sm (n * q) P = e.
Proof.
  intros HP Hn. apply Z.peano_ind.
  - rewrite Z.mul_0_r. reflexivity.
  - intros q IH. replace (n * Z.succ q) with (n * q + n) by lia. rewrite smul_add, IH, Hn; auto.
  - intros q IH. replace (n * Z.pred q) with (n * q - n) by lia. rewrite smul_sub, IH, Hn, inv_e; auto.
Qed.

Lemma smul_mod n P k : ok P -> n <> 0 -> sm n P = e -> sm (k mod n) P = sm k P.
Proof.
  intros HP Hn0 Hn. rewrite (Z.div_mod k n Hn0) at 2.
  rewrite smul_add, smul_order_mul, op_e_l; auto.
Qed.

(* an element killed by an odd n has no 2-torsion: op P P = e -> P = e *)
Lemma no_two_torsion n P : ok P -> Z.odd n = true -> sm n P = e -> op P P = e -> P = e.
Proof.
  intros HP Hodd Hn H2.
  rewrite (Zdiv2_odd_eqn n), Hodd in Hn.
  assert (H2' : sm 2 P = e).
  { replace 2 with (1 + 1) by lia. rewrite smul_add, smul_1; auto. }
  rewrite smul_add, smul_order_mul, op_e_l, smul_1 in Hn; auto.
Qed.

End Group.
