(* Proofs/ChainRefuteP.v — concrete histories on which the model (like the implementation) violates C15. *)
From Coq Require Import List NArith ZArith Bool Lia Arith.
From PV Require Import Base.Outcome Model.Chain Spec.ChainSpec.
Import ListNotations.
Local Open Scope N_scope.

Definition H (h p : N) := mkHeader h p 1%Z.

(* 1. orphan subtree lost: 7<-9, 6<-7 wait for 9; then 8<-9 and 9<-anchor arrive together and 8 is popped first *)
Definition refute1 : list event :=
  [Deliver [H 7 9; H 6 7] [] []; Deliver [H 8 9; H 9 0] [8] []].
(* 2. the header at the lock point is delivered again *)
Definition refute2 : list event :=
  [Deliver [H 1 0; H 2 1; H 3 2] [] []; Lock 2 [] []; Deliver [H 2 1] [] []].
(* 3. two equally heavy chains, lock, the rebuilt finder prefers the other one *)
Definition refute3 : list event :=
  [Deliver [H 1 0; H 2 1] [] []; Deliver [H 3 2] [] []; Deliver [H 11 2] [] []; Lock 1 [] [11]].

Definition rank_of (h : N) : nat :=
  N.to_nat (match h with 0 => 0 | 1 => 1 | 2 => 2 | 3 => 3 | 11 => 3 | 9 => 1 | 7 => 2 | 8 => 2 | 6 => 3 | 13 => 4 | 12 => 3 | _ => 0 end).

Ltac wf_tac :=
  split; [exists rank_of; intros x Hx; cbn in Hx;
          repeat (destruct Hx as [<-|Hx]; [vm_compute; lia|]); destruct Hx|];
  split; [intros x y Hx Hy; cbn in Hx, Hy;
          repeat (destruct Hx as [<-|Hx]; [repeat (destruct Hy as [<-|Hy]; [first [reflexivity|intros E; vm_compute in E; discriminate]|]); destruct Hy|]);
          destruct Hx|];
  intros x Hx; cbn in Hx;
  repeat (destruct Hx as [<-|Hx]; [split; [reflexivity|vm_compute; discriminate]|]); destruct Hx.

Lemma refute1_wf : wf_headers 0 (all_headers refute1).
Proof. wf_tac. Qed.
Lemma refute2_wf : wf_headers 0 (all_headers refute2).
Proof. wf_tac. Qed.
Lemma refute3_wf : wf_headers 0 (all_headers refute3).
Proof. wf_tac. Qed.

Definition violates (anchor : hash) (evs : list event) : Prop :=
  wf_headers anchor (all_headers evs) /\
  exists tr, run anchor evs = (tr, Done) /\ ~ good_trace anchor [] [] evs tr.

Lemma is_chain_976 D : In (H 9 0) D -> In (H 7 9) D -> In (H 6 7) D -> is_chain D 0 [9; 7; 6].
Proof.
  intros A B C. apply (ic_cons D 0 (H 9 0)); auto. apply (ic_cons D 9 (H 7 9)); auto.
  apply (ic_cons D 7 (H 6 7)); auto. constructor.
Qed.

Lemma refute1_violates : violates 0 refute1 /\ excluded 0 refute1 = Some 1.
Proof.
  split; [|vm_compute; reflexivity]. split; [exact refute1_wf|].
  eexists. split; [vm_compute; reflexivity|].
  cbn [good_trace]. intros (_ & (_ & Hh & _) & _).
  destruct Hh as [_ Hmax]. specialize (Hmax [9; 7; 6]).
  assert (Hc : is_chain (([] ++ headers_of (Deliver [H 7 9; H 6 7] [] [])) ++ headers_of (Deliver [H 8 9; H 9 0] [8] []))
                 0 [9; 7; 6]) by (apply is_chain_976; cbn; auto 10).
  apply Hmax in Hc. vm_compute in Hc. apply Hc. reflexivity.
Qed.

Lemma refute2_violates : violates 0 refute2 /\ excluded 0 refute2 = Some 2.
Proof.
  split; [|vm_compute; reflexivity]. split; [exact refute2_wf|].
  eexists. split; [vm_compute; reflexivity|].
  cbn [good_trace]. intros (_ & _ & (_ & Hh & _) & _).
  destruct Hh as [_ Hmax]. specialize (Hmax [3]).
  assert (Hc : is_chain ((([] ++ headers_of (Deliver [H 1 0; H 2 1; H 3 2] [] [])) ++ headers_of (Lock 2 [] []))
                           ++ headers_of (Deliver [H 2 1] [] [])) 2 [3]).
  { apply (ic_cons _ 2 (H 3 2)); [cbn; auto 10|reflexivity|constructor]. }
  apply Hmax in Hc. vm_compute in Hc. apply Hc. reflexivity.
Qed.

Lemma refute3_violates : violates 0 refute3 /\ excluded 0 refute3 = Some 3.
Proof.
  split; [|vm_compute; reflexivity]. split; [exact refute3_wf|].
  eexists. split; [vm_compute; reflexivity|].
  cbn [good_trace]. intros (_ & _ & _ & (_ & _ & _ & Hops) & _).
  vm_compute in Hops. discriminate.
Qed.

Lemma refuted :
  ~ (forall (anchor : hash) (evs : list event), wf_headers anchor (all_headers evs) ->
     forall tr st, run anchor evs = (tr, st) ->
     (st = Done \/ st = OutOfRange) /\ good_trace anchor [] [] evs tr).
Proof.
  intros HS. destruct refute1_violates as [(Hwf & tr & Hrun & Hbad) _].
  apply Hbad. exact (proj2 (HS 0 refute1 Hwf tr Done Hrun)).
Qed.

(* a history with an orphan subtree, a fork, a lock and a later extension that meets every hypothesis of the
   partial theorem (non-vacuity) *)
Definition clean_example : list event :=
  [Deliver [H 7 9; H 6 7] [6] []; Deliver [H 9 0] [] []; Deliver [H 8 9] [] [8]; Lock 1 [6; 7] [];
   Deliver [H 13 6; H 12 8] [12; 13] []].
Lemma clean_example_wf : wf_headers 0 (all_headers clean_example).
Proof. wf_tac. Qed.
Lemma clean_example_ok :
  wf_headers 0 (all_headers clean_example) /\ excluded 0 clean_example = None /\
  exists tr, run 0 clean_example = (tr, Done) /\ map s_chain tr = [[]; [9; 7; 6]; [9; 7; 6]; [9; 7; 6]; [9; 7; 6; 13]].
Proof.
  split; [exact clean_example_wf|]. split; [vm_compute; reflexivity|].
  eexists. split; vm_compute; reflexivity.
Qed.
