(* Proofs/ComposeEcShipped.v — composition C01/C17 x C02 on the shipped generators with EVERY mathematical premise
   DISCHARGED: M1, M2 (Proofs/CurvePrimesEc.v), M4 (Proofs/EcAssoc.v), n*G = O (Proofs/ShippedOrder.v, from M4).
   Generic: for any generator, M4 follows from M1, the side condition and the computable `nonsingular` (ec_M4).
   secp256k1_curve / secp256k1_gen are those of Proofs/ComposeEcC01.v; the secp256r1 generator is introduced here the same
   way (side conditions decided by vm_compute on Gen/GenCurves.v). *)
From Coq Require Import ZArith Znumtheory List.
From PV Require Import Base.Outcome Model.Curve Spec.Weierstrass Gen.GenCurves
  Proofs.CurveAddP Proofs.CurveP Proofs.ComposeEcInst Proofs.ComposeEcC01 Proofs.CurvePrimesEc Proofs.ShippedOrder
  Proofs.EcAssoc Proofs.ShippedUncond.
Import ListNotations.
Local Open Scope Z_scope.

(* ---- secp256k1 ---- *)
Lemma secp256k1_M1 : M1 secp256k1_curve.
Proof. exact prime_secp256k1_p. Qed.

Lemma secp256k1_M2 : prime (cn secp256k1_curve).
Proof. exact prime_secp256k1_n. Qed.

Lemma secp256k1_nG : M4 secp256k1_curve -> order_kills secp256k1_curve secp256k1_G.
Proof. exact secp256k1_order_kills. Qed.

Lemma secp256k1_nG_gen blind : M4 secp256k1_curve -> order_kills (gc (secp256k1_gen blind)) (gG (secp256k1_gen blind)).
Proof. exact secp256k1_order_kills. Qed.

(* ---- secp256r1 ---- *)
Definition secp256r1_curve : curve :=
  {| cp := secp256r1_p; ca := secp256r1_a; cb := secp256r1_b; cn := secp256r1_n |}.
Definition secp256r1_G : pt := Some (secp256r1_Gx, secp256r1_Gy).
Definition secp256r1_gen (blind : Z) : gen :=
  {| gc := secp256r1_curve; gG := secp256r1_G; g_bits := secp256r1_bits; g_blind := blind |}.

Lemma secp256r1_gen_is_shipped blind : secp256r1_gen blind = shipped_gen (secp256r1_params, secp256r1_bits) blind.
Proof. reflexivity. Qed.

Lemma secp256r1_side blind : ec_sideb (secp256r1_gen blind) = true.
Proof. vm_compute. reflexivity. Qed.

Lemma secp256r1_M1 : M1 secp256r1_curve.
Proof. exact prime_secp256r1_p. Qed.

Lemma secp256r1_M2 : prime (cn secp256r1_curve).
Proof. exact prime_secp256r1_n. Qed.

Lemma secp256r1_nG : M4 secp256r1_curve -> order_kills secp256r1_curve secp256r1_G.
Proof. exact secp256r1_order_kills. Qed.

(* ---- M4 is a theorem (Proofs/EcAssoc.v) ---- *)
Lemma secp256k1_M4 : M4 secp256k1_curve.
Proof. exact M4_secp256k1. Qed.

Lemma secp256r1_M4 : M4 secp256r1_curve.
Proof. exact M4_secp256r1. Qed.

Lemma secp256k1_nG_proved : order_kills secp256k1_curve secp256k1_G.
Proof. exact (secp256k1_nG secp256k1_M4). Qed.

Lemma secp256r1_nG_proved : order_kills secp256r1_curve secp256r1_G.
Proof. exact (secp256r1_nG secp256r1_M4). Qed.

(* generic: the hypothesis M4 of the composed theorems follows from M1, the decidable side condition (p = 3 mod 4, hence p <> 2)
   and the decidable non-singularity of the curve *)
Lemma ec_M4 (g : gen) : M1 (gc g) -> ec_sideb g = true -> nonsingularb (gc g) = true -> M4 (gc g).
Proof.
  intros Hp Hs Hn.
  apply (M4_of_nonsingular (gc g) Hp).
  - exact (Hp2 g (c_mod4 g Hs)).
  - apply nonsingularb_iff. exact Hn.
Qed.
