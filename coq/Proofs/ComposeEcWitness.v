(* Proofs/ComposeEcWitness.v — composition C01 x C02, part 4: computed examples.
   (1) the composed toy instance runs: a signature, its verification, a wrong key, recovery;
   (2) the premise "the curve group has order n" (cofactor 1) is independent of M1, M4, n*G = O, prime n, p = 3 mod 4:
       y^2 = x^3 + 4 over F_19 (the equation of BLS12-381 G1 in miniature) has 21 points, G = (1, 9) has prime order 7;
       all those premises hold, points_for_x 4 returns (4,12), (4,7) of order 21, and pycoin's recovery formula,
       evaluated with C02's model functions on raw pairs, returns two keys under which the signature does not verify. *)
From Coq Require Import ZArith Lia Znumtheory Bool List.
From PV Require Import Base.Outcome Model.Curve Model.Ecdsa Spec.Weierstrass Spec.EcdsaSpec
  Proofs.CurveAddP Proofs.CurveToy Proofs.CurveP Proofs.ComposeEcInst Proofs.ComposeEcC01.
Import ListNotations.
Local Open Scope Z_scope.
Local Open Scope outcome_scope.

(* ---- (1) ---- *)
Definition toy43_run_example : Prop :=
  let g := toy43_gen 0 in
  let c := toy43 in
  let G := eG g in
  let pairs (r : outcome (list (ept c))) : outcome (list pt) :=
    match r with Ret l => Ret (map eval l) | Raise e => Raise e | OutOfFuel => OutOfFuel end in
  (* d = 5, z = 77, nonce 2 *)
  Ecdsa.sign_with_recid (ept c) (esmul c) G 31 ecoords (fun _ _ _ => Ret 2) 3 5 77 = Ret (7, 25, 1) /\
  eval (esmul c 5 G) = Some (12, 12) /\
  Ecdsa.verify (ept c) (eadd c) (esmul c) G 31 ecoords (Some (esmul c 5 G)) 77 7 25 = Ret true /\
  Ecdsa.verify (ept c) (eadd c) (esmul c) G 31 ecoords (Some (esmul c 6 G)) 77 7 25 = Ret false /\
  pairs (Ecdsa.recover (ept c) (eadd c) (esmul c) G 31 43 (elift g) 77 7 25 None) = Ret [Some (21, 18); Some (12, 12)] /\
  pairs (Ecdsa.recover (ept c) (eadd c) (esmul c) G 31 43 (elift g) 77 7 25 (Some 1)) = Ret [Some (12, 12)].

Lemma toy43_run_ok : toy43_run_example.
Proof. vm_compute. repeat split; reflexivity. Qed.

(* ---- (2) ---- *)
Definition c19 : curve := {| cp := 19; ca := 0; cb := 4; cn := 7 |}.
Definition g19 : gen := {| gc := c19; gG := Some (1, 9); g_bits := 256; g_blind := 0 |}.

Lemma M4_of_checkb c : prime (cp c) -> cp c <> 2 -> assoc_checkb c = true -> M4 c.
Proof.
  intros Hprime Hne2 K P Q R HP HQ HR.
  assert (Hin : forall P, valid c P -> In P (all_points c)).
  { intros P0 HV. apply all_points_complete; [exact HV|]. apply (contains_iff_c c Hprime Hne2). apply HV. }
  unfold assoc_checkb in K. cbv zeta in K.
  rewrite forallb_forall in K. specialize (K P (Hin P HP)).
  rewrite forallb_forall in K. specialize (K Q (Hin Q HQ)).
  rewrite forallb_forall in K. specialize (K R (Hin R HR)).
  now apply pt_eqb_eq.
Qed.

Definition cofactor_witness_statement : Prop :=
  (* every premise of Props/C01compose.v holds for g19 ... *)
  M1 c19 /\ M4 c19 /\ order_kills c19 (gG g19) /\ prime (cn c19) /\ ec_sideb g19 = true /\
  (* ... but points_for_x 4 returns reduced on-curve points that n = 7 does not kill (7 * (4,12) = (0,17)) *)
  points_for_x g19 4 = Ret (Some (4, 12), Some (4, 7)) /\
  valid c19 (Some (4, 12)) /\ kP c19 7 (Some (4, 12)) = Some (0, 17) /\ elift g19 4 = None /\
  (* d = 1, z = 2, first nonce 2 (r = 0, retried with 3: 3*G = (11, 10), r = 11 mod 7 = 4, s = 2, recid 2) *)
  Ecdsa.sign_with_recid (ept c19) (esmul c19) (eG g19) 7 ecoords (fun _ _ _ => Ret 2) 3 1 2 = Ret (4, 2, 2) /\
  (* possible_public_pairs_for_signature(2, (4, 2)) in C02's arithmetic: inverse(4) = 2, s/r = 4, -(z/r) = -4 *)
  Curve.inverse_mod 4 7 = Ret 2 /\
  (do a <- multiply c19 (Some (4, 12)) 4; do m <- gmul g19 (-4); Curve.add c19 a m) = Ret (Some (9, 12)) /\
  (do a <- multiply c19 (Some (4, 7)) 4; do m <- gmul g19 (-4); Curve.add c19 a m) = Ret (Some (13, 4)) /\
  (* verify(Q, 2, (4, 2)) for both: inverse(2) = 4, u1 = 8, u2 = 16; the sum has abscissa 13, 13 mod 7 = 6 <> 4 *)
  Curve.inverse_mod 2 7 = Ret 4 /\
  (do u <- gmul g19 8; do v <- multiply c19 (Some (9, 12)) 16; Curve.add c19 u v) = Ret (Some (13, 4)) /\
  (do u <- gmul g19 8; do v <- multiply c19 (Some (13, 4)) 16; Curve.add c19 u v) = Ret (Some (13, 15)) /\
  13 mod 7 <> 4.

Lemma cofactor_witness : cofactor_witness_statement.
Proof.
  assert (P19 : prime 19) by (apply prime_checkb_sound; vm_compute; reflexivity).
  unfold cofactor_witness_statement.
  split; [exact P19|].
  split; [apply M4_of_checkb; [exact P19 | discriminate | vm_compute; reflexivity]|].
  split; [vm_compute; reflexivity|].
  split; [apply prime_checkb_sound; vm_compute; reflexivity|].
  split; [vm_compute; reflexivity|].
  split; [vm_compute; reflexivity|].
  split; [split; [vm_compute; reflexivity | cbn; lia]|].
  split; [vm_compute; reflexivity|].
  split.
  { (* (the type of this equation mentions the carrier predicate: compute a boolean instead) *)
    assert (H : (match elift g19 4 with None => true | Some _ => false end) = true) by (vm_compute; reflexivity).
    destruct (elift g19 4); [discriminate H|reflexivity]. }
  repeat (split; [vm_compute; reflexivity|]).
  vm_compute. discriminate.
Qed.
