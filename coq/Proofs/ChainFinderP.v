(* Proofs/ChainFinderP.v — the ChainFinder invariant is preserved by meld_new_hashes for EVERY pop order,
   provided no walk can run through a batch header that earlier orphans are waiting for ([safe]). *)
From Coq Require Import List NArith ZArith Bool Lia Arith.
From PV Require Import Base.Outcome Model.Chain Proofs.ChainP.
Import ListNotations.
Local Open Scope N_scope.

(* paths: [ppath p P b l] — l = b, parent b, ..., t where every element but the last satisfies P and the last
   one (the "top") does not *)
Inductive ppath (p : dict hash) (P : hash -> Prop) : hash -> list hash -> Prop :=
| pp_top : forall t, ~ P t -> ppath p P t [t]
| pp_step : forall b b' l, P b -> dget b p = Some b' -> ppath p P b' l -> ppath p P b (b :: l).

Section Paths.
Variable p : dict hash.
Lemma ppath_hd P b l : ppath p P b l -> exists r, l = b :: r.
Proof. destruct 1; eauto. Qed.
Lemma ppath_ne P b l : ppath p P b l -> l <> [].
Proof. destruct 1; discriminate. Qed.
Lemma ppath_last_notP P b l : ppath p P b l -> ~ P (last l 0).
Proof.
  induction 1; [exact H|]. rewrite last_cons_ne; [exact IHppath|eapply ppath_ne; eauto].
Qed.
Lemma ppath_mono P (Q : hash -> Prop) b l :
  ppath p P b l -> (forall x, P x -> Q x) -> ~ Q (last l 0) -> ppath p Q b l.
Proof.
  induction 1; intros HPQ Hl.
  - constructor. exact Hl.
  - econstructor; eauto. apply IHppath; auto.
    rewrite last_cons_ne in Hl; [exact Hl|eapply ppath_ne; eauto].
Qed.
Lemma ppath_app P (Q : hash -> Prop) b l a m :
  ppath p P b l -> last l 0 = a -> (forall x, P x -> Q x) -> ppath p Q a (a :: m) -> ppath p Q b (l ++ m).
Proof.
  induction 1; intros Hl HPQ Hm.
  - cbn in Hl. subst. exact Hm.
  - cbn [app]. econstructor; eauto. apply IHppath; auto.
    rewrite last_cons_ne in Hl; [exact Hl|eapply ppath_ne; eauto].
Qed.
Lemma ppath_interior P b l : ppath p P b l -> forall x, In x (removelast l) -> P x.
Proof.
  induction 1; intros x; [intros []|].
  pose proof (ppath_ne _ _ _ H1) as Hne. destruct l as [|y r]; [congruence|].
  cbn [removelast]. intros [<-|Hx]; [exact H|]. apply IHppath. exact Hx.
Qed.
Lemma ppath_anc_last P b l : ppath p P b l -> forall x, In x l -> x = last l 0 \/ anc p x (last l 0).
Proof.
  induction 1; intros x Hx.
  - destruct Hx as [<-|[]]. now left.
  - pose proof (ppath_ne _ _ _ H1) as Hne. rewrite last_cons_ne by exact Hne.
    destruct Hx as [<-|Hx].
    + right. destruct (ppath_hd _ _ _ H1) as (r & ->).
      destruct (IHppath b' (or_introl eq_refl)) as [E|A].
      * rewrite <- E. now apply anc_one.
      * eapply anc_step; eauto.
    + auto.
Qed.
Lemma ppath_from_anc P b l : ppath p P b l -> forall x, In x l -> x = b \/ anc p b x.
Proof.
  induction 1; intros x Hx.
  - destruct Hx as [<-|[]]. now left.
  - destruct Hx as [<-|Hx]; [now left|]. right.
    destruct (IHppath x Hx) as [->|A]; [now apply anc_one|eapply anc_step; eauto].
Qed.
(* the element before the top *)
Lemma ppath_before_last P b l : ppath p P b l -> P b ->
  exists c, In c l /\ P c /\ dget c p = Some (last l 0).
Proof.
  induction 1; intros Hb; [contradiction|].
  inversion H1; subst.
  - exists b. cbn. auto.
  - destruct (IHppath H2) as (c & Hc & Pc & Ec).
    exists c. split; [now right|]. split; [exact Pc|].
    rewrite last_cons_ne by discriminate. exact Ec.
Qed.
(* consecutive elements are linked *)
Lemma ppath_next P b l : ppath p P b l -> forall x, In x (removelast l) ->
  exists y, dget x p = Some y /\ In y l.
Proof.
  induction 1; intros x; [intros []|].
  pose proof (ppath_hd _ _ _ H1) as (r & ->). cbn [removelast].
  intros [<-|Hx].
  - exists b'. split; [exact H0|]. right. now left.
  - destruct (IHppath x Hx) as (y & Ey & Hy). exists y. split; [exact Ey|now right].
Qed.
Lemma ppath_split P b l : ppath p P b l -> forall x, In x l -> exists l1 l2, l = l1 ++ x :: l2 /\ ppath p P x (x :: l2).
Proof.
  induction 1; intros x Hx.
  - destruct Hx as [<-|[]]. exists [], []. split; [reflexivity|now constructor].
  - destruct Hx as [<-|Hx].
    + exists [], l. split; [reflexivity|]. econstructor; eauto.
    + destruct (IHppath x Hx) as (l1 & l2 & -> & Hp). exists (b :: l1), l2. split; [reflexivity|exact Hp].
Qed.
End Paths.

Lemma last_cons_shift {A} (x : A) l d : last (x :: l) d = last l x.
Proof. destruct l; [reflexivity|]. rewrite last_cons_ne by discriminate. apply last_default. discriminate. Qed.

Section Meld.
Variable p : dict hash.
Variable rk : hash -> nat.
Hypothesis Hrk : ranked rk p.

Definition known (x : hash) : Prop := dget x p <> None.
Definition proc (new : list hash) (x : hash) : Prop := known x /\ ~ In x new.

Fixpoint linked (cur : hash) (ws : list hash) : Prop :=
  match ws with [] => True | w :: r => dget cur p = Some w /\ linked w r end.

Definition trees_ok (cf : finder) : Prop :=
  pl cf = p /\
  forall k pre, dget k (tfb cf) = Some pre -> (exists r, pre = k :: r) /\ inset (dbt cf) (last pre 0) k.

Definition no_tree (cf : finder) (w : hash) : Prop :=
  match dget w (tfb cf) with Some (_ :: _) => False | _ => True end.

Lemma walk_ok : forall f cur path new cf,
  trees_ok cf -> (forall n t, steps p n cur t -> (n < f)%nat) ->
  exists ws new',
    linked cur ws /\ (forall w, In w ws -> no_tree cf w) /\
    ((dget (last ws cur) p = None /\ (forall x, In x new' <-> In x new /\ ~ In x ws) /\
       walk f cur path new cf = Ret (path ++ ws, new', cf)) \/
     (exists k pre s, dget (last ws cur) p = Some k /\ dget k (tfb cf) = Some pre /\ pre <> [] /\
        dget (last pre 0) (dbt cf) = Some s /\ (forall x, In x new' <-> In x new /\ ~ In x (ws ++ [k])) /\
        walk f cur path new cf = Ret (path ++ ws ++ pre, new',
           mkFinder p (dset (last pre 0) (sdiscard k s) (dbt cf)) (ddel k (tfb cf))))).
Proof.
  induction f as [|f IH]; intros cur path new cf TO Hfuel.
  - exfalso. specialize (Hfuel 0%nat cur (st_0 p cur)). lia.
  - destruct TO as [Epl TF]. cbn [walk]. rewrite Epl.
    destruct (dget cur p) as [nxt|] eqn:Ec.
    + assert (Hfuel' : forall n t, steps p n nxt t -> (n < f)%nat).
      { intros n t Hs. assert (steps p (S n) cur t) by (econstructor; eauto). apply Hfuel in H. lia. }
      destruct (dget nxt (tfb cf)) as [[|b0 r]|] eqn:Et.
      * (* empty list stored: falsy, continue *)
        destruct (IH nxt (path ++ [nxt]) (sdiscard nxt new) cf (conj Epl TF) Hfuel')
          as (ws & new' & Hl & Hnt & Hres).
        exists (nxt :: ws), new'. split; [cbn; auto|]. split.
        { intros w [<-|Hw]; [unfold no_tree; now rewrite Et|auto]. }
        rewrite last_cons_shift.
        destruct Hres as [(En & Hm & Hw)|(k & pre & s & Ek & Etk & Hne & Es & Hm & Hw)].
        -- left. split; [exact En|]. split.
           ++ intros x. rewrite Hm, sdiscard_In. cbn. intuition congruence.
           ++ rewrite Hw. now rewrite <- app_assoc.
        -- right. exists k, pre, s. repeat (split; [assumption|]). split.
           ++ intros x. rewrite Hm, sdiscard_In. cbn. intuition congruence.
           ++ rewrite Hw. now rewrite <- app_assoc.
      * (* absorb the tree that starts at nxt *)
        destruct (TF _ _ Et) as ((r' & Er) & (s & Es & Hin)).
        inversion Er; subst b0 r'. clear Er.
        exists [], (sdiscard nxt new). split; [exact I|]. split; [intros w []|].
        right. exists nxt, (nxt :: r), s. cbn [last app].
        split; [exact Ec|]. split; [exact Et|]. split; [discriminate|].
        assert (El : last (nxt :: r) nxt = last (nxt :: r) 0) by (apply last_default; discriminate).
        split; [exact Es|]. split.
        { intros x. rewrite sdiscard_In. cbn. intuition congruence. }
        cbn [last] in El. rewrite El, Es.
        apply mem_In in Hin. rewrite Hin. reflexivity.
      * destruct (IH nxt (path ++ [nxt]) (sdiscard nxt new) cf (conj Epl TF) Hfuel')
          as (ws & new' & Hl & Hnt & Hres).
        exists (nxt :: ws), new'. split; [cbn; auto|]. split.
        { intros w [<-|Hw]; [unfold no_tree; now rewrite Et|auto]. }
        rewrite last_cons_shift.
        destruct Hres as [(En & Hm & Hw)|(k & pre & s & Ek & Etk & Hne & Es & Hm & Hw)].
        -- left. split; [exact En|]. split.
           ++ intros x. rewrite Hm, sdiscard_In. cbn. intuition congruence.
           ++ rewrite Hw. now rewrite <- app_assoc.
        -- right. exists k, pre, s. repeat (split; [assumption|]). split.
           ++ intros x. rewrite Hm, sdiscard_In. cbn. intuition congruence.
           ++ rewrite Hw. now rewrite <- app_assoc.
    + exists [], new. split; [exact I|]. split; [intros w []|].
      left. cbn [last]. split; [exact Ec|]. split; [intros x; cbn; tauto|now rewrite app_nil_r].
Qed.
End Meld.
