(* Proofs/ChainFinderP.v — the ChainFinder invariant is preserved by meld_new_hashes for EVERY pop order,
   provided no walk can run through a batch header that earlier orphans are waiting for ([safe]). *)
From Coq Require Import List NArith ZArith Bool Lia Arith.
From PV Require Import Base.Outcome Model.Chain Proofs.ChainP.
Import ListNotations.
Local Open Scope N_scope.

(* paths: [ppath p P b l] — l = b, parent b, ..., t where every element but the last satisfies P and the last
   one (the "top") does not *)
Inductive ppath (p : dict hash) (P : hash -> Prop) : hash -> list hash -> Prop :=
| pp_top : forall t, ~ P t -> ppath p P t [t]
| pp_step : forall b b' l, P b -> dget b p = Some b' -> ppath p P b' l -> ppath p P b (b :: l).

Section Paths.
Variable p : dict hash.
Lemma ppath_hd P b l : ppath p P b l -> exists r, l = b :: r.
Proof. destruct 1; eauto. Qed.
Lemma ppath_ne P b l : ppath p P b l -> l <> [].
Proof. destruct 1; discriminate. Qed.
Lemma ppath_last_notP P b l : ppath p P b l -> ~ P (last l 0).
Proof.
  induction 1; [exact H|]. rewrite last_cons_ne; [exact IHppath|eapply ppath_ne; eauto].
Qed.
Lemma ppath_mono P (Q : hash -> Prop) b l :
  ppath p P b l -> (forall x, P x -> Q x) -> ~ Q (last l 0) -> ppath p Q b l.
Proof.
  induction 1; intros HPQ Hl.
  - constructor. exact Hl.
  - econstructor; eauto. apply IHppath; auto.
    rewrite last_cons_ne in Hl; [exact Hl|eapply ppath_ne; eauto].
Qed.
Lemma ppath_app P (Q : hash -> Prop) b l a m :
  ppath p P b l -> last l 0 = a -> (forall x, P x -> Q x) -> ppath p Q a (a :: m) -> ppath p Q b (l ++ m).
Proof.
  induction 1; intros Hl HPQ Hm.
  - cbn in Hl. subst. exact Hm.
  - cbn [app]. econstructor; eauto. apply IHppath; auto.
    rewrite last_cons_ne in Hl; [exact Hl|eapply ppath_ne; eauto].
Qed.
Lemma ppath_interior P b l x : ppath p P b l -> In x (removelast l) -> P x.
Proof.
  induction 1; [intros []|].
  pose proof (ppath_ne _ _ _ H1) as Hne. destruct l as [|y r]; [congruence|].
  cbn [removelast]. intros [<-|Hx]; [exact H|]. apply IHppath. exact Hx.
Qed.
Lemma ppath_anc_last P b l x : ppath p P b l -> In x l -> x = last l 0 \/ anc p x (last l 0).
Proof.
  induction 1; intros Hx.
  - destruct Hx as [<-|[]]. now left.
  - pose proof (ppath_ne _ _ _ H1) as Hne. rewrite last_cons_ne by exact Hne.
    destruct Hx as [<-|Hx].
    + right. destruct (ppath_hd _ _ _ H1) as (r & ->).
      destruct (IHppath (or_introl eq_refl)) as [E|A].
      * rewrite <- E. now apply anc_one.
      * eapply anc_step; eauto.
    + auto.
Qed.
Lemma ppath_from_anc P b l x : ppath p P b l -> In x l -> x = b \/ anc p b x.
Proof.
  induction 1; intros Hx.
  - destruct Hx as [<-|[]]. now left.
  - destruct Hx as [<-|Hx]; [now left|]. right.
    destruct (IHppath Hx) as [->|A]; [now apply anc_one|eapply anc_step; eauto].
Qed.
(* the element before the top *)
Lemma ppath_before_last P b l : ppath p P b l -> P b ->
  exists c, In c l /\ P c /\ dget c p = Some (last l 0).
Proof.
  induction 1; intros Hb; [contradiction|].
  inversion H1; subst.
  - exists b. cbn. auto.
  - destruct (IHppath H2) as (c & Hc & Pc & Ec).
    exists c. split; [now right|]. split; [exact Pc|].
    rewrite last_cons_ne by discriminate. exact Ec.
Qed.
(* consecutive elements are linked *)
Lemma ppath_next P b l x : ppath p P b l -> In x (removelast l) ->
  exists y, dget x p = Some y /\ In y l.
Proof.
  induction 1; [intros []|].
  pose proof (ppath_hd _ _ _ H1) as (r & ->). cbn [removelast].
  intros [<-|Hx].
  - exists b'. split; [exact H0|]. right. now left.
  - destruct (IHppath Hx) as (y & Ey & Hy). exists y. split; [exact Ey|now right].
Qed.
Lemma ppath_split P b l x : ppath p P b l -> In x l -> exists l1 l2, l = l1 ++ x :: l2 /\ ppath p P x (x :: l2).
Proof.
  induction 1; intros Hx.
  - destruct Hx as [<-|[]]. exists [], []. split; [reflexivity|now constructor].
  - destruct Hx as [<-|Hx].
    + exists [], l. split; [reflexivity|]. econstructor; eauto.
    + destruct (IHppath Hx) as (l1 & l2 & -> & Hp). exists (b :: l1), l2. split; [reflexivity|exact Hp].
Qed.
End Paths.
