(* Proofs/ChainFinderP.v — the ChainFinder invariant is preserved by meld_new_hashes for EVERY pop order,
   provided no walk can run through a batch header that earlier orphans are waiting for ([safe]). *)
From Coq Require Import List NArith ZArith Bool Lia Arith.
From PV Require Import Base.Outcome Model.Chain Spec.ChainSpec Proofs.ChainP.
Import ListNotations.
Local Open Scope N_scope.

Section Paths.
Variable p : dict hash.
Lemma ppath_hd P b l : ppath p P b l -> exists r, l = b :: r.
Proof. destruct 1; eauto. Qed.
Lemma ppath_ne P b l : ppath p P b l -> l <> [].
Proof. destruct 1; discriminate. Qed.
Lemma ppath_last_notP P b l : ppath p P b l -> ~ P (last l 0).
Proof.
  induction 1; [exact H|]. rewrite last_cons_ne; [exact IHppath|eapply ppath_ne; eauto].
Qed.
Lemma ppath_mono P (Q : hash -> Prop) b l :
  ppath p P b l -> (forall x, P x -> Q x) -> ~ Q (last l 0) -> ppath p Q b l.
Proof.
  induction 1; intros HPQ Hl.
  - constructor. exact Hl.
  - econstructor; eauto. apply IHppath; auto.
    rewrite last_cons_ne in Hl; [exact Hl|eapply ppath_ne; eauto].
Qed.
Lemma ppath_app P (Q : hash -> Prop) b l a m :
  ppath p P b l -> last l 0 = a -> (forall x, P x -> Q x) -> ppath p Q a (a :: m) -> ppath p Q b (l ++ m).
Proof.
  induction 1; intros Hl HPQ Hm.
  - cbn in Hl. subst. exact Hm.
  - cbn [app]. econstructor; eauto. apply IHppath; auto.
    rewrite last_cons_ne in Hl; [exact Hl|eapply ppath_ne; eauto].
Qed.
Lemma ppath_interior P b l : ppath p P b l -> forall x, In x (removelast l) -> P x.
Proof.
  induction 1; intros x; [intros []|].
  pose proof (ppath_ne _ _ _ H1) as Hne. destruct l as [|y r]; [congruence|].
  cbn [removelast]. intros [<-|Hx]; [exact H|]. apply IHppath. exact Hx.
Qed.
Lemma ppath_anc_last P b l : ppath p P b l -> forall x, In x l -> x = last l 0 \/ anc p x (last l 0).
Proof.
  induction 1; intros x Hx.
  - destruct Hx as [<-|[]]. now left.
  - pose proof (ppath_ne _ _ _ H1) as Hne. rewrite last_cons_ne by exact Hne.
    destruct Hx as [<-|Hx].
    + right. destruct (ppath_hd _ _ _ H1) as (r & ->).
      destruct (IHppath b' (or_introl eq_refl)) as [E|A].
      * rewrite <- E. now apply anc_one.
      * eapply anc_step; eauto.
    + auto.
Qed.
Lemma ppath_from_anc P b l : ppath p P b l -> forall x, In x l -> x = b \/ anc p b x.
Proof.
  induction 1; intros x Hx.
  - destruct Hx as [<-|[]]. now left.
  - destruct Hx as [<-|Hx]; [now left|]. right.
    destruct (IHppath x Hx) as [->|A]; [now apply anc_one|eapply anc_step; eauto].
Qed.
(* the element before the top *)
Lemma ppath_before_last P b l : ppath p P b l -> P b ->
  exists c, In c l /\ P c /\ dget c p = Some (last l 0).
Proof.
  induction 1; intros Hb; [contradiction|].
  inversion H1; subst.
  - exists b. cbn. auto.
  - destruct (IHppath H2) as (c & Hc & Pc & Ec).
    exists c. split; [now right|]. split; [exact Pc|].
    rewrite last_cons_ne by discriminate. exact Ec.
Qed.
(* consecutive elements are linked *)
Lemma ppath_next P b l : ppath p P b l -> forall x, In x (removelast l) ->
  exists y, dget x p = Some y /\ In y l.
Proof.
  induction 1; intros x; [intros []|].
  pose proof (ppath_hd _ _ _ H1) as (r & ->). cbn [removelast].
  intros [<-|Hx].
  - exists b'. split; [exact H0|]. right. now left.
  - destruct (IHppath x Hx) as (y & Ey & Hy). exists y. split; [exact Ey|now right].
Qed.
Lemma ppath_split P b l : ppath p P b l -> forall x, In x l -> exists l1 l2, l = l1 ++ x :: l2 /\ ppath p P x (x :: l2).
Proof.
  induction 1; intros x Hx.
  - destruct Hx as [<-|[]]. exists [], []. split; [reflexivity|now constructor].
  - destruct Hx as [<-|Hx].
    + exists [], l. split; [reflexivity|]. econstructor; eauto.
    + destruct (IHppath x Hx) as (l1 & l2 & -> & Hp). exists (b :: l1), l2. split; [reflexivity|exact Hp].
Qed.
End Paths.

Lemma last_cons_shift {A} (x : A) l d : last (x :: l) d = last l x.
Proof. destruct l; [reflexivity|]. rewrite last_cons_ne by discriminate. apply last_default. discriminate. Qed.

Section Meld.
Variable p : dict hash.
Variable rk : hash -> nat.
Hypothesis Hrk : ranked rk p.

Definition known (x : hash) : Prop := dget x p <> None.
Definition proc (new : list hash) (x : hash) : Prop := known x /\ ~ In x new.

Fixpoint linked (cur : hash) (ws : list hash) : Prop :=
  match ws with [] => True | w :: r => dget cur p = Some w /\ linked w r end.

Definition trees_ok (cf : finder) : Prop :=
  pl cf = p /\
  forall k pre, dget k (tfb cf) = Some pre -> (exists r, pre = k :: r) /\ inset (dbt cf) (last pre 0) k.

Definition no_tree (cf : finder) (w : hash) : Prop :=
  match dget w (tfb cf) with Some (_ :: _) => False | _ => True end.

Lemma walk_ok : forall f cur path new cf,
  trees_ok cf -> (forall n t, steps p n cur t -> (n < f)%nat) ->
  exists ws,
    linked cur ws /\ (forall w, In w ws -> no_tree cf w /\ ~ In w new) /\
    ((dget (last ws cur) p = None /\ walk f cur path new cf = Ret (path ++ ws, new, cf)) \/
     (exists t, dget (last ws cur) p = Some t /\ In t new /\
        walk f cur path new cf = Ret (path ++ ws ++ [t], new, cf)) \/
     (exists k pre s, dget (last ws cur) p = Some k /\ ~ In k new /\ dget k (tfb cf) = Some pre /\ pre <> [] /\
        dget (last pre 0) (dbt cf) = Some s /\
        walk f cur path new cf = Ret (path ++ ws ++ pre, new,
           mkFinder p (dset (last pre 0) (sdiscard k s) (dbt cf)) (ddel k (tfb cf))))).
Proof.
  induction f as [|f IH]; intros cur path new cf TO Hfuel.
  - exfalso. specialize (Hfuel 0%nat cur (st_0 p cur)). lia.
  - destruct TO as [Epl TF]. cbn [walk]. rewrite Epl.
    destruct (dget cur p) as [nxt|] eqn:Ec.
    + assert (Hfuel' : forall n t, steps p n nxt t -> (n < f)%nat).
      { intros n t Hs. assert (steps p (S n) cur t) by (econstructor; eauto). apply Hfuel in H. lia. }
      destruct (mem nxt new) eqn:Em.
      { apply mem_In in Em. exists []. split; [exact I|]. split; [intros w []|].
        right. left. exists nxt. cbn [last app]. auto. }
      apply mem_false in Em.
      assert (REC : no_tree cf nxt ->
        exists ws, linked cur ws /\ (forall w, In w ws -> no_tree cf w /\ ~ In w new) /\
        ((dget (last ws cur) p = None /\ walk f nxt (path ++ [nxt]) new cf = Ret (path ++ ws, new, cf)) \/
         (exists t, dget (last ws cur) p = Some t /\ In t new /\
            walk f nxt (path ++ [nxt]) new cf = Ret (path ++ ws ++ [t], new, cf)) \/
         (exists k pre s, dget (last ws cur) p = Some k /\ ~ In k new /\ dget k (tfb cf) = Some pre /\ pre <> [] /\
            dget (last pre 0) (dbt cf) = Some s /\
            walk f nxt (path ++ [nxt]) new cf = Ret (path ++ ws ++ pre, new,
               mkFinder p (dset (last pre 0) (sdiscard k s) (dbt cf)) (ddel k (tfb cf)))))).
      { intros Hnt.
        destruct (IH nxt (path ++ [nxt]) new cf (conj Epl TF) Hfuel') as (ws & Hl & Hw & Hres).
        exists (nxt :: ws). split; [cbn; auto|]. split.
        { intros w [<-|Hin]; [auto|auto]. }
        rewrite last_cons_shift.
        destruct Hres as [(En & Hr)|[(t & Et & Ht & Hr)|(k & pre & s & Ek & Hk & Etk & Hne & Es & Hr)]].
        - left. split; [exact En|]. rewrite Hr. now rewrite <- app_assoc.
        - right. left. exists t. split; [exact Et|]. split; [exact Ht|]. rewrite Hr. now rewrite <- app_assoc.
        - right. right. exists k, pre, s. repeat (split; [assumption|]). rewrite Hr. now rewrite <- app_assoc. }
      destruct (dget nxt (tfb cf)) as [[|b0 r]|] eqn:Et.
      * apply REC. unfold no_tree. now rewrite Et.
      * destruct (TF _ _ Et) as ((r' & Er) & (s & Es & Hin)).
        inversion Er; subst b0 r'. clear Er.
        exists []. split; [exact I|]. split; [intros w []|].
        right. right. exists nxt, (nxt :: r), s.
        assert (El : last (nxt :: r) nxt = last (nxt :: r) 0) by (apply last_default; discriminate).
        split; [exact Ec|]. split; [exact Em|]. split; [exact Et|]. split; [discriminate|].
        split; [exact Es|].
        rewrite El, Es. apply mem_In in Hin. rewrite Hin. reflexivity.
      * apply REC. unfold no_tree. now rewrite Et.
    + exists []. split; [exact I|]. split; [intros w []|].
      left. cbn [last]. split; [exact Ec|now rewrite app_nil_r].
Qed.

Lemma linked_anc : forall ws cur, linked cur ws -> forall w, In w ws -> anc p cur w.
Proof.
  induction ws as [|w0 r IH]; intros cur Hl w Hw; [destruct Hw|].
  destruct Hl as [E Hl]. destruct Hw as [<-|Hw]; [now apply anc_one|].
  eapply anc_step; eauto.
Qed.
Lemma linked_next : forall ws cur, linked cur ws -> forall c y, In c (cur :: ws) -> dget c p = Some y ->
  In y ws \/ c = last ws cur.
Proof.
  induction ws as [|w0 r IH]; intros cur Hl c y Hc Ey.
  - destruct Hc as [<-|[]]. now right.
  - destruct Hl as [E Hl]. rewrite last_cons_shift. destruct Hc as [<-|Hc].
    + left. left. congruence.
    + destruct (IH w0 Hl c y Hc Ey) as [H|H]; [left; now right|now right].
Qed.
Lemma linked_known : forall ws cur, linked cur ws -> forall c, In c (removelast (cur :: ws)) -> known c.
Proof.
  induction ws as [|w0 r IH]; intros cur Hl c Hc; [destruct Hc|].
  destruct Hl as [E Hl]. change (removelast (cur :: w0 :: r)) with (cur :: removelast (w0 :: r)) in Hc.
  destruct Hc as [<-|Hc]; [unfold known; congruence|eauto].
Qed.
Lemma linked_ppath_A (P : hash -> Prop) : forall ws cur, linked cur ws ->
  (forall x, In x (removelast (cur :: ws)) -> P x) -> ~ P (last ws cur) -> ppath p P cur (cur :: ws).
Proof.
  induction ws as [|w0 r IH]; intros cur Hl HP Hn.
  - constructor. exact Hn.
  - destruct Hl as [E Hl]. rewrite last_cons_shift in Hn.
    change (removelast (cur :: w0 :: r)) with (cur :: removelast (w0 :: r)) in HP.
    econstructor; [apply HP; now left|exact E|]. apply IH; auto. intros x Hx. apply HP. now right.
Qed.
Lemma linked_ppath_B (P : hash -> Prop) k pre : forall ws cur, linked cur ws ->
  dget (last ws cur) p = Some k -> (forall x, In x (cur :: ws) -> P x) -> ppath p P k pre ->
  ppath p P cur (cur :: ws ++ pre).
Proof.
  induction ws as [|w0 r IH]; intros cur Hl Ek HP Hk.
  - cbn in *. econstructor; eauto.
  - destruct Hl as [E Hl]. rewrite last_cons_shift in Ek.
    cbn [app]. econstructor; [apply HP; now left|exact E|]. apply IH; auto. intros x Hx. apply HP. now right.
Qed.

Lemma linked_snoc : forall ws cur t, linked cur ws -> dget (last ws cur) p = Some t -> linked cur (ws ++ [t]).
Proof.
  induction ws as [|w r IH]; intros cur t Hl Et.
  - cbn in *. auto.
  - destruct Hl as [E Hl]. rewrite last_cons_shift in Et. cbn [app linked]. split; [exact E|]. now apply IH.
Qed.

(* ---- the invariant during a batch: [new] = hashes registered but not yet melded *)
Record inv (new : list hash) (cf : finder) : Prop := {
  i_pl : pl cf = p;
  i_newk : forall x, In x new -> known x;
  i_tree : forall b l, dget b (tfb cf) = Some l -> proc new b /\ ppath p (proc new) b l;
  i_dbt : dbt_ok cf;
  i_nodup : nodup_ok cf;
  i_cover : forall x, proc new x -> exists b l, dget b (tfb cf) = Some l /\ In x l;
  i_keys : NoDup (map fst (tfb cf))
}.

Lemma inv_trees_ok new cf : inv new cf -> trees_ok cf.
Proof.
  intros I. split; [apply I|]. intros k pre E. destruct (i_tree _ _ I _ _ E) as [_ Hp].
  split; [eapply ppath_hd; eauto|]. apply (i_dbt _ _ I). eauto.
Qed.

(* the state between the walk and the insertion of the new path: [a] is treated as not yet processed *)
Definition pm (new' : list hash) (a x : hash) : Prop := proc new' x /\ x <> a.
Record mid (a : hash) (new new' : list hash) (path' : list hash) (cf' : finder) : Prop := {
  m_pl : pl cf' = p;
  m_sub : forall x, In x new' -> In x new /\ x <> a;
  m_tree : forall b l, dget b (tfb cf') = Some l -> pm new' a b /\ ppath p (pm new' a) b l;
  m_dbt : dbt_ok cf';
  m_nodup : nodup_ok cf';
  m_cover : forall x, pm new' a x -> (exists b l, dget b (tfb cf') = Some l /\ In x l) \/ In x path';
  m_path : ppath p (proc new') a path';
  m_len : (length new' < length new)%nat;
  m_keys : NoDup (map fst (tfb cf'))
}.

Lemma In_removelast {A} (x : A) l : In x (removelast l) -> In x l.
Proof.
  induction l as [|y r IH]; [intros []|]. destruct r; [intros []|].
  change (removelast (y :: a :: r)) with (y :: removelast (a :: r)). intros [<-|H]; [now left|right; auto].
Qed.
Lemma proc_dec new x : proc new x \/ ~ proc new x.
Proof.
  unfold proc, known. destruct (dget x p); destruct (in_dec N.eq_dec x new); intuition congruence.
Qed.
Lemma notproc_known_In new x : ~ proc new x -> known x -> In x new.
Proof. intros H K. destruct (in_dec N.eq_dec x new); [assumption|]. exfalso. apply H. now split. Qed.
Lemma linked_anc_k : forall ws cur k, linked cur ws -> dget (last ws cur) p = Some k ->
  forall x, In x (cur :: ws) -> anc p x k /\ known x.
Proof.
  induction ws as [|w0 r IH]; intros cur k Hl Ek x Hx.
  - destruct Hx as [<-|[]]. cbn in Ek. split; [now apply anc_one|unfold known; congruence].
  - destruct Hl as [E Hl]. rewrite last_cons_shift in Ek. destruct Hx as [<-|Hx].
    + split; [|unfold known; congruence]. eapply anc_step; [exact E|]. apply (IH w0 k Hl Ek). now left.
    + eapply IH; eauto.
Qed.

Lemma walk_mid new cf a : inv new cf -> In a new ->
  exists path' cf',
    walk (S (length (pl cf))) a [a] (sdiscard a new) cf = Ret (path', sdiscard a new, cf') /\
    mid a new (sdiscard a new) path' cf'.
Proof.
  intros I Ha. set (new' := sdiscard a new).
  assert (Hak : known a) by (apply (i_newk _ _ I); exact Ha).
  assert (Hsub : forall x, In x new' -> In x new /\ x <> a) by (intros x Hx; now apply sdiscard_In in Hx).
  assert (Hmono : forall x, proc new x -> pm new' a x).
  { intros x [K Hx]. split; [split; [exact K|]|intros ->; contradiction]. intros H. apply Hsub in H. tauto. }
  assert (Hback : forall x, pm new' a x -> proc new x).
  { intros x [[K Hx] Hxa]. split; [exact K|]. intros H. apply Hx. apply sdiscard_In. auto. }
  assert (Hlen : (length new' < length new)%nat) by (apply sdiscard_length_lt; exact Ha).
  assert (Htrees : forall b l, dget b (tfb cf) = Some l -> pm new' a b /\ ppath p (pm new' a) b l).
  { intros b l E. destruct (i_tree _ _ I _ _ E) as [Pb Hp]. split; [now apply Hmono|].
    eapply ppath_mono; [exact Hp|exact Hmono|]. intros H. apply Hback in H.
    exact (ppath_last_notP _ _ _ _ Hp H). }
  destruct (walk_ok (S (length (pl cf))) a [a] new' cf (inv_trees_ok _ _ I)) as (ws & Hl & Hws & Hres).
  { intros n t Hs. rewrite (i_pl _ _ I). apply steps_bound with (rk := rk) in Hs; auto. lia. }
  assert (Hanc : forall w, In w ws -> anc p a w) by (apply linked_anc; exact Hl).
  assert (Hwsn : forall w, In w ws -> ~ In w new').
  { intros w Hw. apply Hws. exact Hw. }
  destruct Hres as [(En & Hw)|[(t & Et & Ht & Hw)|(k & pre & s & Ek & Hkn & Etk & Hne & Es & Hw)]].
  - (* the walk ended at an unknown hash *)
    exists ([a] ++ ws), cf. split; [exact Hw|]. constructor.
    + apply I.
    + exact Hsub.
    + exact Htrees.
    + apply I.
    + apply I.
    + intros x Hx. left. apply (i_cover _ _ I). now apply Hback.
    + cbn [app]. apply linked_ppath_A; auto.
      * intros x Hx. split; [eapply linked_known; eauto|].
        intros Hx'. apply In_removelast in Hx. destruct Hx as [<-|Hx].
        -- apply Hsub in Hx'. tauto.
        -- exact (Hwsn _ Hx Hx').
      * intros [K _]. apply K. exact En.
    + exact Hlen.
    + apply I.
  - (* the walk reached a hash that is still to be melded *)
    pose proof (linked_anc_k _ _ _ Hl Et) as Hwk.
    assert (Hta : t <> a).
    { intros E. subst t. eapply anc_neq; [exact Hrk|apply Hwk; now left|reflexivity]. }
    exists ([a] ++ ws ++ [t]), cf. split; [exact Hw|]. constructor.
    + apply I.
    + exact Hsub.
    + exact Htrees.
    + apply I.
    + apply I.
    + intros x Hx. left. apply (i_cover _ _ I). now apply Hback.
    + cbn [app]. apply linked_ppath_A.
      * now apply linked_snoc.
      * intros x Hx. change (a :: ws ++ [t]) with ((a :: ws) ++ [t]) in Hx. rewrite removelast_last in Hx.
        split; [now apply Hwk|]. intros Hx'. destruct Hx as [<-|Hx].
        -- apply Hsub in Hx'. tauto.
        -- exact (Hwsn _ Hx Hx').
      * rewrite last_app_ne by discriminate. cbn [last]. intros [_ Hn]. apply Hn.
        apply sdiscard_In. split; [apply sdiscard_In in Ht; tauto|exact Hta].
    + exact Hlen.
    + apply I.
  - (* the walk met the bottom k of an existing tree *)
    destruct (i_tree _ _ I _ _ Etk) as [Pk Hpk].
    pose proof (ppath_last_notP _ _ _ _ Hpk) as Hntop.
    set (top := last pre 0) in *.
    assert (Hktop : anc p k top).
    { destruct (ppath_hd _ _ _ _ Hpk) as (r & Er).
      destruct (ppath_anc_last _ _ _ _ Hpk k) as [E|A]; [rewrite Er; now left| |exact A].
      exfalso. apply Hntop. fold top in E. rewrite <- E. exact Pk. }
    pose proof (linked_anc_k _ _ _ Hl Ek) as Hwk.
    assert (Hatop : anc p a top) by (eapply anc_trans; [apply Hwk; now left|exact Hktop]).
    assert (Hntop' : ~ proc new' top).
    { intros [K Hn]. apply Hntop. split; [exact K|]. intros Hin. apply Hn. apply sdiscard_In. split; [exact Hin|].
      intros E. symmetry in E. revert E. eapply anc_neq; eauto. }
    exists ([a] ++ ws ++ pre), (mkFinder p (dset top (sdiscard k s) (dbt cf)) (ddel k (tfb cf))).
    split; [exact Hw|]. constructor.
    + reflexivity.
    + exact Hsub.
    + cbn [tfb]. intros b l E.
      assert (Hbk : b <> k) by (intros ->; rewrite dget_ddel_eq in E; discriminate).
      rewrite dget_ddel_neq in E by exact Hbk. now apply Htrees.
    + intros t b. cbn [dbt tfb]. rewrite inset_dset. split.
      * intros [[-> Hb]|[Hn Hb]].
        -- apply sdiscard_In in Hb. destruct Hb as [Hb Hbk].
           assert (Hi : inset (dbt cf) top b) by (exists s; auto).
           apply (i_dbt _ _ I) in Hi. destruct Hi as (l & E & El). exists l.
           rewrite dget_ddel_neq by exact Hbk. auto.
        -- apply (i_dbt _ _ I) in Hb. destruct Hb as (l & E & El). exists l. split; [|exact El].
           rewrite dget_ddel_neq; [exact E|]. intros ->. rewrite Etk in E. inversion E; subst l. apply Hn. symmetry. exact El.
      * intros (l & E & El).
        assert (Hbk : b <> k) by (intros ->; rewrite dget_ddel_eq in E; discriminate).
        rewrite dget_ddel_neq in E by exact Hbk.
        assert (Hi : inset (dbt cf) t b) by (apply (i_dbt _ _ I); eauto).
        destruct (N.eq_dec t top) as [->|Hn]; [left|right; auto].
        split; [reflexivity|]. destruct Hi as (s' & Es' & Hb). rewrite Es in Es'. inversion Es'; subst s'.
        apply sdiscard_In. auto.
    + intros t s'. cbn [dbt]. destruct (N.eq_dec t top) as [->|Hn].
      * rewrite dget_dset_eq. intros E. inversion E; subst s'. apply sdiscard_NoDup. eapply (i_nodup _ _ I); eauto.
      * rewrite dget_dset_neq by exact Hn. apply (i_nodup _ _ I).
    + cbn [tfb]. intros x Hx. apply Hback in Hx.
      destruct (i_cover _ _ I _ Hx) as (b & l & E & Hin).
      destruct (N.eq_dec b k) as [->|Hbk].
      * right. rewrite Etk in E. inversion E; subst l. rewrite !in_app_iff. auto.
      * left. exists b, l. rewrite dget_ddel_neq by exact Hbk. auto.
    + cbn [app]. eapply linked_ppath_B; eauto.
      * intros x Hx. split; [now apply Hwk|]. intros Hx'. destruct Hx as [<-|Hx].
        -- apply Hsub in Hx'. tauto.
        -- exact (Hwsn _ Hx Hx').
      * eapply ppath_mono; [exact Hpk| |exact Hntop'].
        intros x Px. apply Hmono in Px. apply Px.
    + exact Hlen.
    + cbn [tfb]. apply ddel_keys. apply I.
Qed.

Lemma extend_all_spec path : forall desc t,
  NoDup desc -> ~ In (hd 0 path) desc -> (forall d, In d desc -> dget d t <> None) ->
  exists t', extend_all path desc t = Ret t' /\
    (forall x, In x desc -> exists l, dget x t = Some l /\ dget x t' = Some (l ++ tl path)) /\
    (forall x, ~ In x desc -> x <> hd 0 path -> dget x t' = dget x t) /\
    (desc <> [] -> dget (hd 0 path) t' = None) /\
    (NoDup (map fst t) -> NoDup (map fst t')).
Proof.
  induction desc as [|d r IH]; intros t Hnd Ha Hall.
  - exists t. split; [reflexivity|]. split; [intros x []|]. split; [auto|]. split; [congruence|auto].
  - cbn [extend_all]. destruct (dget d t) as [l|] eqn:Ed; [|exfalso; eapply Hall; [now left|exact Ed]].
    inversion Hnd as [|? ? Hdr Hr]; subst.
    assert (Hda : d <> hd 0 path) by (intros E; apply Ha; now left).
    set (t1 := ddel (hd 0 path) (dset d (l ++ tl path) t)).
    assert (Ht1 : forall x, x <> hd 0 path -> x <> d -> dget x t1 = dget x t).
    { intros x H1 H2. unfold t1. rewrite dget_ddel_neq by exact H1. now rewrite dget_dset_neq by exact H2. }
    destruct (IH t1 Hr) as (t' & Hex & Ha' & Hb' & Hc' & Hk').
    { intros H. apply Ha. now right. }
    { intros d' Hd'. rewrite Ht1; [apply Hall; now right| |].
      - intros E. apply Ha. right. now rewrite <- E.
      - intros ->. contradiction. }
    exists t'. split; [exact Hex|]. split; [|split; [|split]].
    4: { intros Hk. apply Hk'. unfold t1. apply ddel_keys. now apply dset_keys. }
    + intros x [<-|Hx].
      * exists l. split; [exact Ed|]. rewrite Hb' by auto. unfold t1.
        rewrite dget_ddel_neq by exact Hda. apply dget_dset_eq.
      * destruct (Ha' x Hx) as (l' & E1 & E2). exists l'. split; [|exact E2].
        rewrite <- Ht1; [exact E1| |].
        -- intros E. apply Ha. right. now rewrite <- E.
        -- intros ->. contradiction.
    + intros x Hx Hxa. rewrite Hb'; [|intros H; apply Hx; now right|exact Hxa].
      apply Ht1; [exact Hxa|]. intros ->. apply Hx. now left.
    + intros _. destruct r as [|d' r'].
      * cbn in Hex. inversion Hex; subst t'. unfold t1. apply dget_ddel_eq.
      * apply Hc'. discriminate.
Qed.

(* ---- `setdefault(top, set())` *)
Definition setdefault (top : hash) (d : dict (list hash)) := if dhas top d then d else dset top [] d.
Lemma setdefault_inset top d t b : inset (setdefault top d) t b <-> inset d t b.
Proof.
  unfold setdefault. destruct (dhas top d) eqn:E; [tauto|]. apply dhas_false in E.
  rewrite inset_dset. split.
  - intros [[_ []]|[_ H]]. exact H.
  - intros H. right. split; [|exact H]. intros ->. destruct H as (s & Es & _). congruence.
Qed.
Lemma setdefault_top top d : nodup_ok (mkFinder [] d []) ->
  exists ts, dget top (setdefault top d) = Some ts /\ NoDup ts /\ forall b, In b ts <-> inset d top b.
Proof.
  intros Hnd. unfold setdefault. destruct (dhas top d) eqn:E.
  - apply dhas_true in E. destruct (dget top d) as [s|] eqn:Es; [|congruence].
    exists s. split; [reflexivity|]. split; [eapply (Hnd top); exact Es|].
    intros b. unfold inset. rewrite Es. split; [eauto|intros (s' & E' & H); inversion E'; now subst].
  - apply dhas_false in E. exists []. rewrite dget_dset_eq. split; [reflexivity|]. split; [constructor|].
    intros b. split; [intros []|]. intros (s & Es & _). congruence.
Qed.
Lemma setdefault_other top d t : t <> top -> dget t (setdefault top d) = dget t d.
Proof. intros H. unfold setdefault. destruct (dhas top d); [reflexivity|]. now apply dget_dset_neq. Qed.
Lemma setdefault_nodup top d t s : nodup_ok (mkFinder [] d []) -> dget t (setdefault top d) = Some s -> NoDup s.
Proof.
  intros Hnd. unfold setdefault. destruct (dhas top d); [apply (Hnd t)|].
  destruct (N.eq_dec t top) as [->|H].
  - rewrite dget_dset_eq. intros E. inversion E. constructor.
  - rewrite dget_dset_neq by exact H. apply (Hnd t).
Qed.

(* the part of meld_one after the walk *)
Definition finish (path new : list hash) (cf : finder) : outcome (list hash * finder) :=
  let bottom := hd 0 path in
  let top := last path 0 in
  let tfb1 := dset bottom path (tfb cf) in
  let dbt1 := setdefault top (dbt cf) in
  match dget bottom dbt1 with
  | Some ((_ :: _) as desc) =>
    match extend_all path desc tfb1 with
    | Ret tfb2 =>
      let dbt2 := ddel bottom dbt1 in
      let topset := match dget top dbt1 with Some s => s | None => [] end in
      Ret (new, mkFinder (pl cf) (dset top (sunion topset desc) dbt2) tfb2)
    | Raise e => Raise e
    | OutOfFuel => OutOfFuel
    end
  | _ =>
    let topset := match dget top dbt1 with Some s => s | None => [] end in
    Ret (new, mkFinder (pl cf) (dset top (sadd bottom topset) dbt1) tfb1)
  end.
Lemma meld_one_unfold prio new cf :
  meld_one prio new cf =
  match walk (S (length (pl cf))) (pick prio new) [pick prio new] (sdiscard (pick prio new) new) cf with
  | Ret (path, new', cf') => finish path new' cf'
  | Raise e => Raise e
  | OutOfFuel => OutOfFuel
  end.
Proof. reflexivity. Qed.

Lemma mid_finish a new new' path' cf' :
  mid a new new' path' cf' -> (forall x, In x new -> known x) -> known a ->
  exists cf'', finish path' new' cf' = Ret (new', cf'') /\ inv new' cf''.
Proof.
  intros M Hsub Hak.
  assert (Pa : proc new' a). { split; [exact Hak|]. intros H. apply (m_sub _ _ _ _ _ M) in H. tauto. }
  pose proof (m_path _ _ _ _ _ M) as Hp.
  inversion Hp as [t Hn E1 E2 | b b' rest Pb Eb Hrest E1 E2]; subst; [contradiction|].
  pose proof (ppath_ne _ _ _ _ Hrest) as Hrne.
  set (path' := a :: rest) in *.
  set (top := last path' 0).
  assert (Htop : top = last rest 0) by (apply last_cons_ne; exact Hrne).
  assert (Hntop : ~ proc new' top) by (apply (ppath_last_notP _ _ _ _ Hp)).
  assert (Hta : top <> a) by (intros E; apply Hntop; rewrite E; exact Pa).
  assert (Hat : a <> top) by (intros E; apply Hta; now symmetry).
  assert (Hnoa : dget a (tfb cf') = None).
  { destruct (dget a (tfb cf')) eqn:E; [|reflexivity].
    destruct (m_tree _ _ _ _ _ M _ _ E) as [[_ H] _]. congruence. }
  assert (Hsub' : forall x, In x new' -> known x).
  { intros x H. apply Hsub. apply (m_sub _ _ _ _ _ M) in H. tauto. }
  destruct (setdefault_top top (dbt cf')) as (ts & Ets & Hts_nd & Hts).
  { intros t s; cbn; apply (m_nodup _ _ _ _ _ M). }
  pose proof (setdefault_other top (dbt cf') a Hat) as Eda.
  (* trees of cf' seen from the final processed set *)
  assert (Hold_tree : forall b l, dget b (tfb cf') = Some l -> last l 0 <> a ->
            b <> a /\ proc new' b /\ ppath p (proc new') b l).
  { intros b l E Hl. destruct (m_tree _ _ _ _ _ M _ _ E) as [[Pb' Hba] Hpb]. split; [exact Hba|].
    split; [exact Pb'|]. eapply ppath_mono; [exact Hpb|intros x Hx; apply Hx|].
    intros Hx. apply (ppath_last_notP _ _ _ _ Hpb). split; [exact Hx|exact Hl]. }
  unfold finish. change (hd 0 path') with a. fold top.
  assert (NOEXT : (forall b l, dget b (tfb cf') = Some l -> last l 0 <> a) ->
     inv new' (mkFinder (pl cf') (dset top (sadd a ts) (setdefault top (dbt cf'))) (dset a path' (tfb cf')))).
  { intros Hnolast. constructor; cbn [pl dbt tfb].
    - apply M.
    - exact Hsub'.
    - intros b l. destruct (N.eq_dec b a) as [->|Hba].
      + rewrite dget_dset_eq. intros E. inversion E; subst l. auto.
      + rewrite dget_dset_neq by exact Hba. intros E. apply Hold_tree; eauto.
    - intros t b. unfold dbt_ok. cbn [dbt tfb]. rewrite inset_dset, sadd_In, setdefault_inset, Hts. split.
      + intros [[-> [->|Hb]]|[Hn Hb]].
        * exists path'. now rewrite dget_dset_eq.
        * apply (m_dbt _ _ _ _ _ M) in Hb. destruct Hb as (l & E & El). exists l. split; [|exact El].
          rewrite dget_dset_neq; [exact E|]. intros ->. congruence.
        * apply (m_dbt _ _ _ _ _ M) in Hb. destruct Hb as (l & E & El). exists l. split; [|exact El].
          rewrite dget_dset_neq; [exact E|]. intros ->. congruence.
      + intros (l & E & El). destruct (N.eq_dec b a) as [->|Hba].
        * rewrite dget_dset_eq in E. inversion E; subst l. left. split; [symmetry; exact El|now left].
        * rewrite dget_dset_neq in E by exact Hba.
          assert (Hi : inset (dbt cf') t b) by (apply (m_dbt _ _ _ _ _ M); eauto).
          destruct (N.eq_dec t top) as [->|Hn]; [left; split; [reflexivity|right; exact Hi]|right; auto].
    - intros t s. cbn [dbt]. destruct (N.eq_dec t top) as [->|Hn].
      + rewrite dget_dset_eq. intros E. inversion E. now apply sadd_NoDup.
      + rewrite dget_dset_neq by exact Hn. apply setdefault_nodup. intros t' s'; cbn; apply (m_nodup _ _ _ _ _ M).
    - intros x Px. destruct (N.eq_dec x a) as [->|Hxa].
      + exists a, path'. rewrite dget_dset_eq. split; [reflexivity|now left].
      + destruct (m_cover _ _ _ _ _ M x (conj Px Hxa)) as [(b & l & E & Hin)|Hin].
        * exists b, l. split; [|exact Hin]. rewrite dget_dset_neq; [exact E|]. intros ->. congruence.
        * exists a, path'. rewrite dget_dset_eq. auto.
    - apply dset_keys. apply M. }
  rewrite Eda.
  destruct (dget a (dbt cf')) as [[|d0 dr]|] eqn:Edesc.
  - (* empty set stored under a *)
    rewrite Ets. eexists. split; [reflexivity|]. apply NOEXT.
    intros b l E El. assert (Hi : inset (dbt cf') a b) by (apply (m_dbt _ _ _ _ _ M); eauto).
    destruct Hi as (s & Es & Hb). rewrite Edesc in Es. inversion Es; subst s. destruct Hb.
  - (* orphans were waiting for a: extend their paths *)
    set (desc := d0 :: dr) in *.
    assert (Hdesc : forall b, In b desc <-> exists l, dget b (tfb cf') = Some l /\ last l 0 = a).
    { intros b. rewrite <- (m_dbt _ _ _ _ _ M a b). unfold inset. rewrite Edesc. split; [eauto|].
      intros (s & Es & Hb). inversion Es; now subst. }
    assert (Hand : ~ In a desc).
    { intros H. apply Hdesc in H. destruct H as (l & E & _). congruence. }
    destruct (extend_all_spec path' desc (dset a path' (tfb cf'))) as (tfb2 & Hex & Hin2 & Hout2 & Ha2 & Hk2).
    { eapply (m_nodup _ _ _ _ _ M); eauto. }
    { exact Hand. }
    { intros d Hd. rewrite dget_dset_neq by (intros ->; contradiction).
      apply Hdesc in Hd. destruct Hd as (l & E & _). congruence. }
    change (hd 0 path') with a in *. change (tl path') with rest in *.
    rewrite Hex, Ets. eexists. split; [reflexivity|].
    (* trees of the final state *)
    assert (Hfin : forall b l, dget b tfb2 = Some l ->
       b <> a /\ ((In b desc /\ exists l0, dget b (tfb cf') = Some l0 /\ last l0 0 = a /\ l = l0 ++ rest) \/
                   (~ In b desc /\ dget b (tfb cf') = Some l /\ last l 0 <> a))).
    { intros b l E. destruct (N.eq_dec b a) as [->|Hba]; [rewrite Ha2 in E by discriminate; discriminate|].
      split; [exact Hba|]. destruct (in_dec N.eq_dec b desc) as [Hd|Hd].
      - left. split; [exact Hd|]. destruct (Hin2 _ Hd) as (l0 & E0 & E1).
        rewrite dget_dset_neq in E0 by exact Hba. rewrite E1 in E. inversion E; subst l.
        exists l0. split; [exact E0|]. split; [|reflexivity].
        apply Hdesc in Hd. destruct Hd as (l' & E' & El'). congruence.
      - right. split; [exact Hd|]. rewrite Hout2 in E by assumption.
        rewrite dget_dset_neq in E by exact Hba. split; [exact E|].
        intros El. apply Hd. apply Hdesc. eauto. }
    assert (Hlast_ext : forall l0, last (l0 ++ rest) 0 = top).
    { intros l0. rewrite last_app_ne by exact Hrne. now symmetry. }
    constructor; cbn [pl dbt tfb].
    + apply M.
    + exact Hsub'.
    + intros b l E. destruct (Hfin _ _ E) as [Hba [(Hd & l0 & E0 & El0 & ->)|(Hd & E0 & El0)]].
      * destruct (m_tree _ _ _ _ _ M _ _ E0) as [[Pb' _] Hpb]. split; [exact Pb'|].
        eapply ppath_app; [exact Hpb|exact El0|intros x Hx; apply Hx|exact Hp].
      * apply Hold_tree; auto.
    + intros t b. unfold dbt_ok. cbn [dbt tfb]. rewrite inset_dset, sunion_In, inset_ddel, setdefault_inset, Hts. split.
      * intros [[-> [Hb|Hb]]|[Hn [Hna Hb]]].
        -- apply (m_dbt _ _ _ _ _ M) in Hb. destruct Hb as (l & E & El). exists l. split; [|exact El].
           rewrite Hout2; [rewrite dget_dset_neq; [exact E|intros ->; congruence]| |intros ->; congruence].
           intros Hd. apply Hdesc in Hd. destruct Hd as (l' & E' & El'). rewrite E in E'. inversion E'; subst l'.
           congruence.
        -- destruct (Hin2 _ Hb) as (l0 & E0 & E1). exists (l0 ++ rest). split; [exact E1|apply Hlast_ext].
        -- apply (m_dbt _ _ _ _ _ M) in Hb. destruct Hb as (l & E & El). exists l. split; [|exact El].
           rewrite Hout2; [rewrite dget_dset_neq; [exact E|intros ->; congruence]| |intros ->; congruence].
           intros Hd. apply Hdesc in Hd. destruct Hd as (l' & E' & El'). rewrite E in E'. inversion E'; subst l'.
           congruence.
      * intros (l & E & El). destruct (Hfin _ _ E) as [Hba [(Hd & l0 & E0 & El0 & ->)|(Hd & E0 & El0)]].
        -- left. rewrite Hlast_ext in El. split; [now symmetry|now right].
        -- assert (Hi : inset (dbt cf') t b) by (apply (m_dbt _ _ _ _ _ M); eauto).
           destruct (N.eq_dec t top) as [->|Hn]; [left; split; [reflexivity|left; exact Hi]|right].
           split; [exact Hn|]. split; [congruence|exact Hi].
    + intros t s. cbn [dbt]. destruct (N.eq_dec t top) as [->|Hn].
      * rewrite dget_dset_eq. intros E. injection E as <-. apply (sunion_NoDup ts desc). exact Hts_nd.
      * rewrite dget_dset_neq by exact Hn. destruct (N.eq_dec t a) as [->|Hna].
        -- rewrite dget_ddel_eq. discriminate.
        -- rewrite dget_ddel_neq by exact Hna. apply setdefault_nodup. intros t' s'; cbn; apply (m_nodup _ _ _ _ _ M).
    + intros x Px.
      assert (Hd0 : In d0 desc) by now left.
      destruct (Hin2 _ Hd0) as (l0 & E0 & E1).
      assert (Hl0a : last l0 0 = a).
      { rewrite dget_dset_neq in E0 by (intros ->; contradiction).
        apply Hdesc in Hd0. destruct Hd0 as (l' & E' & El'). congruence. }
      assert (Hl0ne : l0 <> []).
      { rewrite dget_dset_neq in E0 by (intros ->; contradiction).
        destruct (m_tree _ _ _ _ _ M _ _ E0) as [_ Hp0]. eapply ppath_ne; eauto. }
      assert (Hpath_in : forall y, In y path' -> In y (l0 ++ rest)).
      { intros y [<-|Hy]; rewrite in_app_iff; [left|now right]. rewrite <- Hl0a. now apply last_In. }
      destruct (N.eq_dec x a) as [->|Hxa].
      * exists d0, (l0 ++ rest). split; [exact E1|]. apply Hpath_in. now left.
      * destruct (m_cover _ _ _ _ _ M x (conj Px Hxa)) as [(b & l & E & Hin)|Hin].
        -- destruct (in_dec N.eq_dec b desc) as [Hd|Hd].
           ++ destruct (Hin2 _ Hd) as (lb & Eb0 & Eb1). exists b, (lb ++ rest). split; [exact Eb1|].
              rewrite dget_dset_neq in Eb0 by (intros ->; contradiction).
              rewrite E in Eb0. inversion Eb0; subst lb. rewrite in_app_iff. now left.
           ++ exists b, l. split; [|exact Hin]. rewrite Hout2; [|exact Hd|intros ->; congruence].
              rewrite dget_dset_neq; [exact E|intros ->; congruence].
        -- exists d0, (l0 ++ rest). split; [exact E1|]. now apply Hpath_in.
    + apply Hk2. apply dset_keys. apply M.
  - rewrite Ets. eexists. split; [reflexivity|]. apply NOEXT.
    intros b l E El. assert (Hi : inset (dbt cf') a b) by (apply (m_dbt _ _ _ _ _ M); eauto).
    destruct Hi as (s & Es & Hb). rewrite Edesc in Es. discriminate.
Qed.

Lemma meld_one_inv prio new cf : inv new cf -> new <> [] ->
  exists new' cf', meld_one prio new cf = Ret (new', cf') /\ inv new' cf' /\ (length new' < length new)%nat.
Proof.
  intros I Hne. pose proof (pick_In prio new Hne) as Ha. set (a := pick prio new) in *.
  destruct (walk_mid new cf a I Ha) as (path' & cf' & Hw & M).
  destruct (mid_finish a new (sdiscard a new) path' cf' M (i_newk _ _ I)) as (cf'' & Hf & I').
  { apply (i_newk _ _ I). exact Ha. }
  exists (sdiscard a new), cf''. split; [|split; [exact I'|apply M]].
  rewrite meld_one_unfold. fold a. rewrite Hw. exact Hf.
Qed.

Lemma meld_inv prio : forall fuel new cf, inv new cf -> (length new <= fuel)%nat ->
  exists cf', meld fuel prio new cf = Ret cf' /\ inv [] cf'.
Proof.
  induction fuel as [|f IH]; intros new cf I Hlen.
  - destruct new; [|cbn in Hlen; lia]. exists cf. split; [reflexivity|exact I].
  - destruct new as [|x r] eqn:En; [exists cf; split; [reflexivity|exact I]|].
    rewrite <- En in *. assert (Hne : new <> []) by (rewrite En; discriminate).
    destruct (meld_one_inv prio new cf I Hne) as (new' & cf' & Hm & I' & Hl).
    destruct (IH new' cf' I') as (cf'' & Hm' & I''); [lia|].
    exists cf''. split; [|exact I'']. rewrite En. cbn [meld]. rewrite <- En, Hm. exact Hm'.
Qed.
End Meld.

(* ------------------------------------------------------------------ the invariant between batches *)
Lemma finder_ok_empty : finder_ok empty_finder.
Proof.
  split; [intros b l E; discriminate|]. split; [|split; [|split]].
  - intros t b. split; [intros (s & E & _); discriminate|intros (l & E & _); discriminate].
  - intros t s E. discriminate.
  - intros x H. exfalso. apply H. reflexivity.
  - constructor.
Qed.

Lemma register_spec : forall nodes p0 n0 p' N',
  register nodes p0 n0 = (p', N') ->
  (forall x q, dget x p0 = Some q -> dget x p' = Some q) /\
  (forall x, In x N' <-> In x n0 \/ (dget x p0 = None /\ dget x p' <> None)).
Proof.
  induction nodes as [|[h par] r IH]; intros p0 n0 p' N' E; cbn in E.
  - inversion E; subst. split; [auto|]. intros x. split; [auto|]. intros [H|[H1 H2]]; [exact H|congruence].
  - destruct (dhas h p0) eqn:Eh.
    + apply IH. exact E.
    + apply dhas_false in Eh. destruct (IH _ _ _ _ E) as [H1 H2]. split.
      * intros x q Hx. apply H1. rewrite dget_dset_neq; [exact Hx|congruence].
      * intros x. rewrite H2, sadd_In. split.
        -- intros [[->|H]|[Ha Hb]].
           ++ right. split; [exact Eh|]. rewrite (H1 h par); [discriminate|apply dget_dset_eq].
           ++ now left.
           ++ right. split; [|exact Hb]. destruct (N.eq_dec x h) as [->|Hn]; [exact Eh|].
              now rewrite dget_dset_neq in Ha by exact Hn.
        -- intros [H|[Ha Hb]]; [left; now right|].
           destruct (N.eq_dec x h) as [->|Hn]; [left; now left|].
           right. split; [|exact Hb]. now rewrite dget_dset_neq by exact Hn.
Qed.

Lemma ppath_change_p p p' (P : hash -> Prop) b l :
  ppath p P b l -> (forall x q, P x -> dget x p = Some q -> dget x p' = Some q) -> ppath p' P b l.
Proof. induction 1; intros H'; [now constructor|]. econstructor; eauto. Qed.



Theorem load_nodes_ok rk cf nodes p' N0 :
  finder_ok cf -> register nodes (pl cf) [] = (p', N0) -> ranked rk p' ->
  forall prio, exists cf', load_nodes prio nodes cf = Ret cf' /\ finder_ok cf' /\ pl cf' = p'.
Proof.
  intros (Ft & Fd & Fn & Fc & Fk) Hreg Hrk prio.
  destruct (register_spec _ _ _ _ _ Hreg) as [R1 R2].
  set (p0 := pl cf) in *.
  assert (R2' : forall x, In x N0 <-> dget x p0 = None /\ dget x p' <> None).
  { intros x. rewrite R2. cbn. tauto. }
  assert (Kold : forall x, kn p0 x -> kn p' x).
  { intros x H. unfold kn in *. destruct (dget x p0) eqn:E; [|congruence]. rewrite (R1 _ _ E). discriminate. }
  assert (Kproc : forall x, kn p0 x <-> proc p' N0 x).
  { intros x. split.
    - intros H. split; [now apply Kold|]. intros Hin. apply R2' in Hin. unfold kn in H. tauto.
    - intros [K Hn]. unfold kn, known in *. destruct (dget x p0) eqn:E; [discriminate|].
      exfalso. apply Hn. apply R2'. auto. }
  assert (I0 : inv p' N0 (mkFinder p' (dbt cf) (tfb cf))).
  { constructor; cbn [pl dbt tfb].
    - reflexivity.
    - intros x Hx. apply R2' in Hx. unfold known. tauto.
    - intros b l E. destruct (Ft _ _ E) as [Kb Hp]. split; [now apply Kproc|].
      eapply ppath_mono.
      + eapply ppath_change_p; [exact Hp|]. intros x q _ Hx. now apply R1.
      + intros x Hx. now apply Kproc.
      + intros Hx. apply (ppath_last_notP _ _ _ _ Hp). now apply Kproc.
    - exact Fd.
    - exact Fn.
    - intros x Hx. apply Fc. now apply Kproc.
    - exact Fk. }
  unfold load_nodes. fold p0. rewrite Hreg.
  destruct (meld_inv p' rk Hrk prio (length N0) N0 (mkFinder p' (dbt cf) (tfb cf)) I0 (le_n _)) as (cf' & Hm & I').
  exists cf'. split; [exact Hm|]. split; [|apply I'].
  pose proof (i_pl _ _ _ I') as Epl.
  assert (Kp : forall x, proc p' [] x <-> kn (pl cf') x).
  { intros x. rewrite Epl. unfold proc, known, kn. cbn. tauto. }
  split; [|split; [apply I'|split; [apply I'|split; [|apply I']]]].
  - intros b l E. destruct (i_tree _ _ _ I' _ _ E) as [Pb Hp]. split; [now apply Kp|].
    rewrite Epl. eapply ppath_mono; [exact Hp| |].
    + intros x Hx. apply Kp in Hx. now rewrite Epl in Hx.
    + intros Hx. apply (ppath_last_notP _ _ _ _ Hp). apply Kp. now rewrite Epl.
  - intros x Hx. apply (i_cover _ _ _ I'). now apply Kp.
Qed.

Lemma register_ext : forall nodes p1 p2 n p1' N1 p2' N2,
  (forall x, dget x p1 = dget x p2) -> register nodes p1 n = (p1', N1) -> register nodes p2 n = (p2', N2) ->
  N1 = N2 /\ forall x, dget x p1' = dget x p2'.
Proof.
  induction nodes as [|[h par] r IH]; intros p1 p2 n p1' N1 p2' N2 Hext R1 R2; cbn in R1, R2.
  - inversion R1; inversion R2; subst. auto.
  - assert (Eh : dhas h p1 = dhas h p2) by (unfold dhas; now rewrite Hext).
    rewrite <- Eh in R2. destruct (dhas h p1).
    + eapply IH; eauto.
    + eapply IH; [|exact R1|exact R2]. intros x. destruct (N.eq_dec x h) as [->|Hn].
      * now rewrite !dget_dset_eq.
      * now rewrite !dget_dset_neq by exact Hn.
Qed.
Lemma steps_ext p1 p2 : (forall x, dget x p1 = dget x p2) -> forall n a t, steps p1 n a t -> steps p2 n a t.
Proof. intros Hext. induction 1; [constructor|]. econstructor; [rewrite <- Hext; eauto|auto]. Qed.
Lemma register_dget : forall nodes p0 n0 p' N', register nodes p0 n0 = (p', N') ->
  (forall h q, dget h p' = Some q -> dget h p0 = Some q \/ In (h, q) nodes) /\
  (forall h q, In (h, q) nodes -> dget h p' <> None).
Proof.
  induction nodes as [|[h par] r IH]; intros p0 n0 p' N' E; cbn in E.
  - inversion E; subst. split; [auto|intros h q []].
  - destruct (dhas h p0) eqn:Eh.
    + destruct (IH _ _ _ _ E) as [A B]. split.
      * intros h' q Hq. destruct (A _ _ Hq); [now left|right; now right].
      * intros h' q [Hq|Hq]; [|eauto]. inversion Hq; subst. apply dhas_true in Eh.
        destruct (dget h' p0) as [q0|] eqn:E0; [|congruence].
        destruct (register_spec _ _ _ _ _ E) as [R1 _]. rewrite (R1 _ _ E0). discriminate.
    + destruct (IH _ _ _ _ E) as [A B]. apply dhas_false in Eh. split.
      * intros h' q Hq. destruct (A _ _ Hq) as [H|H]; [|right; now right].
        destruct (N.eq_dec h' h) as [->|Hn].
        -- rewrite dget_dset_eq in H. inversion H; subst. right. now left.
        -- rewrite dget_dset_neq in H by exact Hn. now left.
      * intros h' q [Hq|Hq]; [|eauto]. inversion Hq; subst.
        destruct (register_spec _ _ _ _ _ E) as [R1 _]. rewrite (R1 h' q); [discriminate|apply dget_dset_eq].
Qed.
