(* Proofs/MerkleP.v — pycoin's level-by-level merkle loop equals the recursive tree definition. *)
From PV Require Import Base.Bytes Base.Outcome Model.Merkle Spec.MerkleSpec.
From Coq Require Import ZifyBool ZifyNat.
Ltac Zify.zify_post_hook ::= Z.to_euclidean_division_equations.
Local Open Scope outcome_scope.

Section MerkleP.
Variable H : bytes -> bytes.

(* ---- merkle_pair computes `level` ------------------------------------------------------------ *)
Lemma level_length l : length (level H l) = (length l + 1) / 2.
Proof.
  assert (G : forall n l, length l <= n -> length (level H l) = (length l + 1) / 2).
  { induction n as [|n IH]; intros [|x [|y t]] Hl; cbn [level length] in *; try reflexivity; try lia.
    rewrite IH by lia. replace (S (S (length t)) + 1) with (length t + 1 + 1 * 2) by lia.
    rewrite Nat.div_add by lia. lia. }
  apply (G (length l)). lia.
Qed.

Lemma level_nil_iff l : level H l = [] <-> l = [].
Proof. destruct l as [|x [|y t]]; cbn; split; congruence. Qed.

Lemma pair_loop_even l : Nat.even (length l) = true -> pair_loop H l = Ret (level H l).
Proof.
  assert (G : forall n l, length l <= n -> Nat.even (length l) = true -> pair_loop H l = Ret (level H l)).
  { induction n as [|n IH]; intros [|x [|y t]] Hl He; cbn [length] in *; try reflexivity; try lia; try discriminate.
    cbn [pair_loop level]. rewrite IH; [reflexivity | lia | exact He]. }
  apply (G (length l)). lia.
Qed.

Lemma level_dup_last l : Nat.odd (length l) = true -> level H (l ++ [last l []]) = level H l.
Proof.
  assert (G : forall n l, length l <= n -> Nat.odd (length l) = true -> level H (l ++ [last l []]) = level H l).
  { induction n as [|n IH]; intros [|x [|y t]] Hl Ho; cbn [length] in *; try discriminate; try lia; try reflexivity.
    change ((x :: y :: t) ++ [last (x :: y :: t) []]) with (x :: y :: (t ++ [last (x :: y :: t) []])).
    assert (Ht : t <> []) by (intros ->; discriminate).
    replace (last (x :: y :: t) []) with (last t []) by (destruct t; [congruence | reflexivity]).
    cbn [level]. f_equal. apply IH; [lia | exact Ho]. }
  apply (G (length l)). lia.
Qed.

Lemma merkle_pair_level l : merkle_pair H l = Ret (level H l).
Proof.
  unfold merkle_pair. destruct (Nat.odd (length l)) eqn:E.
  - rewrite pair_loop_even.
    + now rewrite level_dup_last.
    + rewrite app_length. cbn [length]. rewrite Nat.add_1_r, Nat.even_succ. exact E.
  - apply pair_loop_even. rewrite <- Nat.negb_odd, E. reflexivity.
Qed.

(* ---- `level` commutes with splitting at an even index ---------------------------------------- *)
Lemma level_firstn k : forall l, level H (firstn (2 * k) l) = firstn k (level H l).
Proof.
  induction k as [|k IH]; intros l; [reflexivity|].
  replace (2 * S k) with (S (S (2 * k))) by lia.
  destruct l as [|x [|y t]]; [reflexivity | cbn; now rewrite firstn_nil |].
  cbn [firstn level]. now rewrite IH.
Qed.

Lemma level_skipn k : forall l, level H (skipn (2 * k) l) = skipn k (level H l).
Proof.
  induction k as [|k IH]; intros l; [reflexivity|].
  replace (2 * S k) with (S (S (2 * k))) by lia.
  destruct l as [|x [|y t]]; [reflexivity | cbn; now rewrite skipn_nil |].
  cbn [skipn level]. now rewrite IH.
Qed.

(* ---- key lemma: one more level of height = one application of `level` ------------------------ *)
Lemma sub_succ_level h : forall l, l <> [] -> sub H (S h) l = sub H h (level H l).
Proof.
  induction h as [|h IH]; intros l Hl.
  - destruct l as [|x [|y t]]; [congruence | reflexivity | reflexivity].
  - change (sub H (S (S h)) l) with
      (H (sub H (S h) (firstn (2 ^ S h) l) ++
          match skipn (2 ^ S h) l with [] => sub H (S h) (firstn (2 ^ S h) l) | r => sub H (S h) r end)).
    change (sub H (S h) (level H l)) with
      (H (sub H h (firstn (2 ^ h) (level H l)) ++
          match skipn (2 ^ h) (level H l) with [] => sub H h (firstn (2 ^ h) (level H l)) | r => sub H h r end)).
    assert (P2 : 2 ^ S h = 2 * 2 ^ h) by (cbn; lia).
    assert (Hpos : 2 ^ S h <> 0) by (apply Nat.pow_nonzero; lia).
    assert (EL : sub H (S h) (firstn (2 ^ S h) l) = sub H h (firstn (2 ^ h) (level H l))).
    { rewrite IH.
      - now rewrite P2, level_firstn.
      - destruct l; [congruence|]. destruct (2 ^ S h); [congruence | discriminate]. }
    rewrite EL. f_equal. f_equal.
    pose proof (level_skipn (2 ^ h) l) as Hs. rewrite <- P2 in Hs.
    destruct (skipn (2 ^ S h) l) as [|a r] eqn:Er.
    + cbn in Hs. rewrite <- Hs. reflexivity.
    + rewrite IH by discriminate. rewrite Hs.
      destruct (skipn (2 ^ h) (level H l)) eqn:E2; [|reflexivity].
      apply (proj1 (level_nil_iff _)) in Hs. discriminate.
Qed.

(* ---- the loop ----------------------------------------------------------------------------------- *)
Lemma merkle_loop_spec h : forall l fuel, tree_height h (length l) -> l <> [] -> length l <= fuel ->
  merkle_loop H fuel l = Ret (sub H h l).
Proof.
  induction h as [|h IH]; intros l fuel [Hle Hgt] Hne Hf.
  - destruct l as [|x [|y t]]; [congruence | | cbn [length Nat.pow] in Hle; lia].
    destruct fuel; reflexivity.
  - assert (Hl : 2 ^ h < length l) by (destruct Hgt as [|Hgt]; [lia|]; now rewrite Nat.sub_succ, Nat.sub_0_r in Hgt).
    assert (Hp : 1 <= 2 ^ h) by (pose proof (Nat.pow_nonzero 2 h); lia).
    destruct fuel as [|f]; [lia|].
    cbn [merkle_loop]. replace (1 <? length l) with true by lia.
    rewrite merkle_pair_level. cbn [bind].
    rewrite sub_succ_level by exact Hne.
    assert (P2 : 2 ^ S h = 2 * 2 ^ h) by (cbn; lia).
    apply IH.
    + rewrite level_length. split.
      * lia.
      * destruct h as [|h']; [now left|]. right.
        rewrite Nat.sub_succ, Nat.sub_0_r. cbn [Nat.pow] in Hl. lia.
    + rewrite level_nil_iff. exact Hne.
    + rewrite level_length. lia.
Qed.

Lemma tree_height_log2_up n : 0 < n -> tree_height (Nat.log2_up n) n.
Proof.
  intros Hn. unfold tree_height. destruct (Nat.eq_dec n 1) as [->|H1].
  - cbn. lia.
  - pose proof (Nat.log2_up_spec n ltac:(lia)) as [A B]. split; [exact B|].
    right. now rewrite <- Nat.sub_1_r in A.
Qed.

Lemma tree_height_unique h1 h2 n : tree_height h1 n -> tree_height h2 n -> h1 = h2.
Proof.
  assert (G : forall a b, tree_height a n -> tree_height b n -> a <= b).
  { intros a b [A1 A2] [B1 B2]. destruct A2 as [->|A2]; [lia|].
    destruct (Nat.le_gt_cases a b) as [|Hlt]; [assumption|].
    assert (2 ^ b <= 2 ^ (a - 1)) by (apply Nat.pow_le_mono_r; lia). lia. }
  intros A B. pose proof (G _ _ A B). pose proof (G _ _ B A). lia.
Qed.

(* pycoin's merkle(hashes, hash_f) is the recursive tree root for every non-empty list; the loop never
   runs out of the fuel `len(hashes)` *)
Theorem merkle_is_spec (l : list bytes) : l <> [] -> merkle H l = Ret (merkle_root H l).
Proof.
  intros Hne. unfold merkle, merkle_root. apply merkle_loop_spec; [|exact Hne|lia].
  apply tree_height_log2_up. destruct l; [congruence | cbn; lia].
Qed.

Theorem merkle_is_sub h (l : list bytes) : tree_height h (length l) -> l <> [] -> merkle H l = Ret (sub H h l).
Proof. intros. apply merkle_loop_spec; [assumption | assumption | lia]. Qed.

Theorem merkle_empty : merkle H [] = Raise E_INDEX.
Proof. reflexivity. Qed.

(* never OutOfFuel, whatever the list *)
Theorem merkle_total (l : list bytes) : merkle H l <> OutOfFuel.
Proof. destruct l; [discriminate|]. rewrite merkle_is_spec; discriminate. Qed.

(* sanity of the spec itself: unfoldings a reader can check against the Bitcoin definition *)
Lemma merkle_root_1 a : merkle_root H [a] = a.
Proof. reflexivity. Qed.
Lemma merkle_root_2 a b : merkle_root H [a; b] = H (a ++ b).
Proof. reflexivity. Qed.
Lemma merkle_root_3 a b c : merkle_root H [a; b; c] = H (H (a ++ b) ++ H (c ++ c)).
Proof. reflexivity. Qed.
Lemma merkle_root_5 a b c d e : merkle_root H [a; b; c; d; e] =
  H (H (H (a ++ b) ++ H (c ++ d)) ++ H (H (e ++ e) ++ H (e ++ e))).
Proof. reflexivity. Qed.
End MerkleP.
