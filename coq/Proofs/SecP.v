(* Proofs/SecP.v — lemmas about Model/Sec.v (C10). *)
From PV Require Import Base.Bytes Base.Outcome Model.Sec.
From Coq Require Import ZifyBool ZifyNat ZifyN Znumtheory Zpow_facts.
Local Open Scope Z_scope.

(* ---- pow(a, e, m) ------------------------------------------------------------------------- *)
Lemma powmod_pos_spec a e m : 0 < m -> powmod_pos a e m = (a ^ Zpos e) mod m.
Proof.
  intros Hm. induction e as [e IH|e IH|]; cbn [powmod_pos].
  - rewrite IH, Pos2Z.inj_xI.
    replace (2 * Z.pos e + 1) with (Z.pos e + Z.pos e + 1) by lia.
    rewrite !Z.pow_add_r, Z.pow_1_r by lia.
    rewrite <- Z.mul_mod by lia. rewrite Z.mul_mod_idemp_l by lia. reflexivity.
  - rewrite IH, Pos2Z.inj_xO.
    replace (2 * Z.pos e) with (Z.pos e + Z.pos e) by lia.
    rewrite Z.pow_add_r by lia. rewrite <- Z.mul_mod by lia. reflexivity.
  - rewrite Z.pow_1_r. reflexivity.
Qed.

Lemma pymodpow_spec a e m : 0 <= e -> 0 < m -> pymodpow a e m = (a ^ e) mod m.
Proof.
  intros He Hm. destruct e as [|e|e]; cbn [pymodpow]; [reflexivity| |lia].
  apply powmod_pos_spec; assumption.
Qed.

Lemma pymodpow_range a e m : 0 <= e -> 0 < m -> 0 <= pymodpow a e m < m.
Proof. intros. rewrite pymodpow_spec by assumption. apply Z.mod_pos_bound. assumption. Qed.

(* ---- congruences -------------------------------------------------------------------------- *)
Lemma mod_eq_divide a b m : m <> 0 -> a mod m = b mod m -> (m | a - b).
Proof.
  intros Hm H. exists (a / m - b / m).
  pose proof (Z.div_mod a m Hm). pose proof (Z.div_mod b m Hm). nia.
Qed.

Lemma sub_mod_0 a b m : m <> 0 -> (a - b) mod m = 0 -> a mod m = b mod m.
Proof.
  intros Hm H. apply Z.mod_divide in H; [|assumption]. destruct H as [k Hk].
  replace a with (b + k * m) by lia. apply Z_mod_plus_full.
Qed.

Lemma mod_sub_0 a b m : m <> 0 -> a mod m = b mod m -> (a - b) mod m = 0.
Proof. intros Hm H. apply Z.mod_divide; [assumption|]. apply mod_eq_divide; assumption. Qed.

Lemma land1 v : Z.land v 1 = v mod 2.
Proof. change 1 with (Z.ones 1). rewrite Z.land_ones by lia. reflexivity. Qed.

(* ---- square roots mod p = 3 (mod 4) ------------------------------------------------------- *)
(* premises: p prime; the Fermat instance for y (M3 of DESIGN.md section 3) *)
Lemma sqrt_3mod4 p y :
  prime p -> p mod 4 = 3 -> 0 < y < p -> (y ^ (p - 1)) mod p = 1 ->
  let y0 := (((y * y) mod p) ^ ((p + 1) / 4)) mod p in
  y0 = y \/ y0 = p - y.
Proof.
  intros Hprime H34 Hy Hf y0.
  assert (Hp : 0 < p) by lia.
  set (e := (p + 1) / 4) in *. assert (He : p + 1 = 4 * e).
  { unfold e. pose proof (Z.div_mod (p + 1) 4 ltac:(lia)).
    assert ((p + 1) mod 4 = 0); [|lia].
    rewrite Z.add_mod by lia. rewrite H34. reflexivity. }
  assert (He0 : 0 <= e) by lia.
  assert (Hy0 : 0 <= y0 < p) by (apply Z.mod_pos_bound; lia).
  (* y0^2 = y^2 (mod p) *)
  assert (Hsq : (y0 * y0) mod p = (y * y) mod p).
  { unfold y0. rewrite <- Zpower_mod by lia. rewrite <- Z.mul_mod by lia.
    rewrite <- Z.pow_mul_l. replace (y * y * (y * y)) with (y ^ 4) by ring.
    rewrite <- Z.pow_mul_r by lia. rewrite <- He.
    replace (p + 1) with ((p - 1) + 2) by lia. rewrite Z.pow_add_r by lia.
    rewrite Z.mul_mod by lia. rewrite Hf. rewrite Z.mul_1_l, Z.mod_mod by lia.
    f_equal. ring. }
  assert (Hdiv : (p | (y0 - y) * (y0 + y))).
  { replace ((y0 - y) * (y0 + y)) with (y0 * y0 - y * y) by ring.
    apply mod_eq_divide; [lia|assumption]. }
  destruct (prime_mult p Hprime _ _ Hdiv) as [[k Hk]|[k Hk]].
  - left. assert (k = 0) by nia. lia.
  - right. assert (k = 1) by nia. lia.
Qed.

Section Curve.
Variables p a b : Z.
Hypothesis Hp : 0 < p.

Lemma contains_point_iff x y :
  contains_point p a b x y = true <-> (y * y) mod p = (x * x * x + a * x + b) mod p.
Proof.
  unfold contains_point. rewrite Z.eqb_eq. split.
  - apply sub_mod_0. lia.
  - apply mod_sub_0. lia.
Qed.

Lemma contains_point_neg x y :
  contains_point p a b x y = true -> contains_point p a b x (p - y) = true.
Proof.
  rewrite !contains_point_iff. intros H. rewrite <- H.
  replace ((p - y) * (p - y)) with (y * y + (p - 2 * y) * p) by ring.
  apply Z_mod_plus_full.
Qed.

Lemma alpha_of_point x y : contains_point p a b x y = true ->
  (pymodpow x 3 p + a * x + b) mod p = (y * y) mod p.
Proof.
  intros H. apply contains_point_iff in H. rewrite H.
  rewrite pymodpow_spec by lia.
  rewrite <- Z.add_assoc, Z.add_mod_idemp_l by lia. f_equal. ring.
Qed.

(* points_for_x finds the point back and sorts the pair by parity *)
Lemma points_for_x_of_point x y :
  prime p -> p mod 4 = 3 -> (y ^ (p - 1)) mod p = 1 ->
  0 < y < p -> contains_point p a b x y = true ->
  exists p0 p1, points_for_x p a b x = Ret (p0, p1) /\
    (if Z.land y 1 =? 0 then p0 else p1) = (x, y).
Proof.
  intros Hprime H34 Hf Hy Hc.
  pose proof (sqrt_3mod4 p y Hprime H34 Hy Hf) as Hs. cbv zeta in Hs.
  unfold points_for_x, modular_sqrt.
  rewrite (alpha_of_point x y Hc).
  assert (He : 0 <= (p + 1) / 4) by (apply Z.div_pos; lia).
  rewrite pymodpow_spec by lia.
  set (y0 := (((y * y) mod p) ^ ((p + 1) / 4)) mod p) in *.
  pose proof (contains_point_neg x y Hc) as Hc'.
  rewrite !land1.
  assert (Hodd : p mod 2 = 1).
  { pose proof (Z.div_mod p 4 ltac:(lia)). pose proof (Z.div_mod p 2 ltac:(lia)).
    pose proof (Z.mod_pos_bound p 2 ltac:(lia)). lia. }
  destruct Hs as [E|E]; rewrite E.
  - destruct (y =? 0) eqn:E0; [lia|]. rewrite Hc, Hc'. cbn [negb].
    destruct (y mod 2 =? 0) eqn:Epar; eexists; eexists; (split; [reflexivity|reflexivity]).
  - destruct (p - y =? 0) eqn:E0; [lia|].
    replace (p - (p - y)) with y by lia. rewrite Hc, Hc'. cbn [negb].
    assert (Hpar : (p - y) mod 2 = 1 - y mod 2).
    { pose proof (Z.div_mod p 2 ltac:(lia)). pose proof (Z.div_mod y 2 ltac:(lia)).
      pose proof (Z.div_mod (p - y) 2 ltac:(lia)).
      pose proof (Z.mod_pos_bound y 2 ltac:(lia)). pose proof (Z.mod_pos_bound (p - y) 2 ltac:(lia)). lia. }
    pose proof (Z.mod_pos_bound y 2 ltac:(lia)).
    destruct (y mod 2 =? 0) eqn:Epar; destruct ((p - y) mod 2 =? 0) eqn:Epar2; try lia;
      eexists; eexists; (split; [reflexivity|reflexivity]).
Qed.

(* what a successful points_for_x returns (no primality needed) *)
Lemma points_for_x_sound x p0 p1 : p mod 2 = 1 ->
  points_for_x p a b x = Ret (p0, p1) ->
  exists y, 0 < y < p /\ contains_point p a b x y = true /\ contains_point p a b x (p - y) = true /\
    ((Z.land y 1 = 0 /\ p0 = (x, y) /\ p1 = (x, p - y) /\ Z.land (p - y) 1 = 1) \/
     (Z.land y 1 = 1 /\ p0 = (x, p - y) /\ p1 = (x, y) /\ Z.land (p - y) 1 = 0)).
Proof.
  intros Hodd. unfold points_for_x.
  set (y0 := modular_sqrt p _).
  assert (Hr : 0 <= y0 < p).
  { unfold y0, modular_sqrt. apply pymodpow_range; [apply Z.div_pos; lia|lia]. }
  destruct (y0 =? 0) eqn:E0; [discriminate|].
  destruct (contains_point p a b x y0) eqn:C1; [|discriminate].
  destruct (contains_point p a b x (p - y0)) eqn:C2; [|discriminate]. cbn [negb].
  rewrite land1.
  assert (Hpar : (p - y0) mod 2 = 1 - y0 mod 2).
  { pose proof (Z.div_mod p 2 ltac:(lia)). pose proof (Z.div_mod y0 2 ltac:(lia)).
    pose proof (Z.div_mod (p - y0) 2 ltac:(lia)).
    pose proof (Z.mod_pos_bound y0 2 ltac:(lia)). pose proof (Z.mod_pos_bound (p - y0) 2 ltac:(lia)). lia. }
  pose proof (Z.mod_pos_bound y0 2 ltac:(lia)).
  destruct (y0 mod 2 =? 0) eqn:Epar; intros H; injection H as <- <-;
    exists y0; rewrite !land1; (split; [lia|]); (split; [assumption|]); (split; [assumption|]).
  - left. repeat split; lia.
  - right. repeat split; lia.
Qed.

End Curve.

(* ---- bytes32 ------------------------------------------------------------------------------ *)
Lemma pow256_32 : (256 ^ N.of_nat 32)%N = Z.to_N (2 ^ 256).
Proof. reflexivity. Qed.

Lemma to_bytes_32_ok v : 0 <= v < 2 ^ 256 -> to_bytes_32 v = Ret (be_encode 32 (Z.to_N v)).
Proof.
  intros H. unfold to_bytes_32.
  destruct (v <? 0) eqn:E1; [lia|]. destruct (2 ^ 256 <=? v) eqn:E2; [lia|]. reflexivity.
Qed.

Lemma from_to_bytes_32 v : 0 <= v < 2 ^ 256 -> from_bytes_32 (be_encode 32 (Z.to_N v)) = v.
Proof.
  intros H. unfold from_bytes_32. rewrite be_decode_encode; [lia|].
  rewrite pow256_32. lia.
Qed.

Lemma from_bytes_32_range s : length s = 32%nat -> 0 <= from_bytes_32 s < 2 ^ 256.
Proof.
  intros H. unfold from_bytes_32. unfold be_decode.
  pose proof (le_decode_bound (rev s)) as B. rewrite rev_length, H, pow256_32 in B. lia.
Qed.

Lemma to_from_bytes_32 s : length s = 32%nat -> to_bytes_32 (from_bytes_32 s) = Ret s.
Proof.
  intros H. rewrite to_bytes_32_ok by (apply from_bytes_32_range; assumption).
  unfold from_bytes_32. rewrite N2Z.id. rewrite <- H. rewrite be_encode_decode. reflexivity.
Qed.

(* ---- slicing ------------------------------------------------------------------------------- *)
Lemma slice_first (c : byte) (xs ys : bytes) n : length xs = n -> slice 1 (1 + n) (c :: xs ++ ys) = xs.
Proof.
  intros <-. unfold slice. cbn [skipn]. replace (1 + length xs - 1)%nat with (length xs) by lia.
  apply firstn_app_exact.
Qed.

Lemma slice_second (c : byte) (xs ys : bytes) n : length xs = n -> length ys = n ->
  slice (1 + n) (1 + 2 * n) (c :: xs ++ ys) = ys.
Proof.
  intros H1 H2. unfold slice. cbn [Nat.add skipn]. rewrite <- H1 at 1. rewrite skipn_app_exact.
  replace (S (2 * n) - S n)%nat with (length ys) by lia. apply firstn_all.
Qed.

Lemma bit_length_byte_count p : 2 ^ 248 <= p < 2 ^ 256 -> byte_count p = 32%nat.
Proof.
  intros H. unfold byte_count, bit_length. destruct (p <=? 0) eqn:E; [lia|].
  assert (H0 : 248 <= Z.log2 p) by (apply Z.log2_le_pow2; lia).
  assert (H1 : Z.log2 p < 256) by (apply Z.log2_lt_pow2; lia).
  assert (A : (Z.log2 p + 1 + 7) / 8 = 32).
  { pose proof (Z.div_mod (Z.log2 p + 1 + 7) 8 ltac:(lia)).
    pose proof (Z.mod_pos_bound (Z.log2 p + 1 + 7) 8 ltac:(lia)). lia. }
  rewrite A. reflexivity.
Qed.
