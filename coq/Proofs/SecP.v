(* Proofs/SecP.v — lemmas about Model/Sec.v (C10). *)
From PV Require Import Base.Bytes Base.Outcome Model.Sec Gen.GenCurveC10 Proofs.FermatC10.
From Coq Require Import ZifyBool ZifyNat ZifyN Znumtheory Zpow_facts.
Local Open Scope Z_scope.

(* ---- pow(a, e, m) ------------------------------------------------------------------------- *)
Lemma powmod_pos_spec a e m : 0 < m -> powmod_pos a e m = (a ^ Zpos e) mod m.
Proof.
  intros Hm. induction e as [e IH|e IH|]; cbn [powmod_pos].
  - rewrite IH, Pos2Z.inj_xI.
    replace (2 * Z.pos e + 1) with (Z.pos e + Z.pos e + 1) by lia.
    rewrite !Z.pow_add_r, Z.pow_1_r by lia.
    rewrite <- Z.mul_mod by lia. rewrite Z.mul_mod_idemp_l by lia. reflexivity.
  - rewrite IH, Pos2Z.inj_xO.
    replace (2 * Z.pos e) with (Z.pos e + Z.pos e) by lia.
    rewrite Z.pow_add_r by lia. rewrite <- Z.mul_mod by lia. reflexivity.
  - rewrite Z.pow_1_r. reflexivity.
Qed.

Lemma pymodpow_spec a e m : 0 <= e -> 0 < m -> pymodpow a e m = (a ^ e) mod m.
Proof.
  intros He Hm. destruct e as [|e|e]; cbn [pymodpow]; [reflexivity| |lia].
  apply powmod_pos_spec; assumption.
Qed.

Lemma pymodpow_range a e m : 0 <= e -> 0 < m -> 0 <= pymodpow a e m < m.
Proof. intros. rewrite pymodpow_spec by assumption. apply Z.mod_pos_bound. assumption. Qed.

(* ---- congruences -------------------------------------------------------------------------- *)
Lemma mod_eq_divide a b m : m <> 0 -> a mod m = b mod m -> (m | a - b).
Proof.
  intros Hm H. exists (a / m - b / m).
  pose proof (Z.div_mod a m Hm). pose proof (Z.div_mod b m Hm). nia.
Qed.

Lemma sub_mod_0 a b m : m <> 0 -> (a - b) mod m = 0 -> a mod m = b mod m.
Proof.
  intros Hm H. apply Z.mod_divide in H; [|assumption]. destruct H as [k Hk].
  replace a with (b + k * m) by lia. apply Z_mod_plus_full.
Qed.

Lemma mod_sub_0 a b m : m <> 0 -> a mod m = b mod m -> (a - b) mod m = 0.
Proof. intros Hm H. apply Z.mod_divide; [assumption|]. apply mod_eq_divide; assumption. Qed.

Lemma land1 v : Z.land v 1 = v mod 2.
Proof. change 1 with (Z.ones 1). rewrite Z.land_ones by lia. reflexivity. Qed.

Lemma small_multiple z k p : 0 < p -> z = k * p -> - p < z < p -> z = 0.
Proof.
  intros Hp Hz Hr. assert (k = 0); [|subst; lia].
  destruct (Z_lt_le_dec k 0) as [Hn|Hn].
  - assert (k * p <= (-1) * p) by (apply Z.mul_le_mono_nonneg_r; lia). lia.
  - destruct (Z.eq_dec k 0) as [|Hk]; [assumption|].
    assert (1 * p <= k * p) by (apply Z.mul_le_mono_nonneg_r; lia). lia.
Qed.

(* ---- square roots mod p = 3 (mod 4) ------------------------------------------------------- *)
(* premises: p prime; the Fermat instance for y (M3 of DESIGN.md section 3) *)
Lemma sqrt_3mod4 p y :
  prime p -> p mod 4 = 3 -> 0 < y < p -> (y ^ (p - 1)) mod p = 1 ->
  let y0 := (((y * y) mod p) ^ ((p + 1) / 4)) mod p in
  y0 = y \/ y0 = p - y.
Proof.
  intros Hprime H34 Hy Hf y0.
  assert (Hp : 0 < p) by lia.
  set (e := (p + 1) / 4) in *. assert (He : p + 1 = 4 * e).
  { unfold e. pose proof (Z.div_mod (p + 1) 4 ltac:(lia)).
    assert ((p + 1) mod 4 = 0); [|lia].
    rewrite Z.add_mod by lia. rewrite H34. reflexivity. }
  assert (He0 : 0 <= e) by lia.
  assert (Hy0 : 0 <= y0 < p) by (apply Z.mod_pos_bound; lia).
  (* y0^2 = y^2 (mod p) *)
  assert (Hsq : (y0 * y0) mod p = (y * y) mod p).
  { unfold y0. rewrite <- Zpower_mod by lia. rewrite <- Z.mul_mod by lia.
    rewrite <- Z.pow_mul_l. replace (y * y * (y * y)) with (y ^ 4) by ring.
    rewrite <- Z.pow_mul_r by lia. rewrite <- He.
    replace (p + 1) with ((p - 1) + 2) by lia. rewrite Z.pow_add_r by lia.
    rewrite Z.mul_mod by lia. rewrite Hf. rewrite Z.mul_1_l, Z.mod_mod by lia.
    f_equal. ring. }
  assert (Hdiv : (p | (y0 - y) * (y0 + y))).
  { replace ((y0 - y) * (y0 + y)) with (y0 * y0 - y * y) by ring.
    apply mod_eq_divide; [lia|assumption]. }
  destruct (prime_mult p Hprime _ _ Hdiv) as [[k Hk]|[k Hk]].
  - left. assert (y0 - y = 0) by (apply (small_multiple _ k p); lia). lia.
  - right. assert (y0 + y - p = 0) by (apply (small_multiple _ (k - 1) p); lia). lia.
Qed.

Section Curve.
Variables p a b : Z.
Hypothesis Hp : 0 < p.

Lemma contains_point_iff x y :
  contains_point p a b x y = true <-> (y * y) mod p = (x * x * x + a * x + b) mod p.
Proof.
  unfold contains_point. rewrite Z.eqb_eq. split.
  - apply sub_mod_0. lia.
  - apply mod_sub_0. lia.
Qed.

Lemma contains_point_neg x y :
  contains_point p a b x y = true -> contains_point p a b x (p - y) = true.
Proof.
  rewrite !contains_point_iff. intros H. rewrite <- H.
  replace ((p - y) * (p - y)) with (y * y + (p - 2 * y) * p) by ring.
  apply Z_mod_plus_full.
Qed.

Lemma alpha_of_point x y : contains_point p a b x y = true ->
  (pymodpow x 3 p + a * x + b) mod p = (y * y) mod p.
Proof.
  intros H. apply contains_point_iff in H. rewrite H.
  rewrite pymodpow_spec by lia.
  rewrite <- Z.add_assoc, Z.add_mod_idemp_l by lia. f_equal. ring.
Qed.

(* points_for_x finds the point back and sorts the pair by parity *)
Lemma points_for_x_of_point x y :
  prime p -> p mod 4 = 3 -> (y ^ (p - 1)) mod p = 1 ->
  0 < y < p -> contains_point p a b x y = true ->
  exists p0 p1, points_for_x p a b x = Ret (p0, p1) /\
    (if Z.land y 1 =? 0 then p0 else p1) = (x, y).
Proof.
  intros Hprime H34 Hf Hy Hc.
  pose proof (sqrt_3mod4 p y Hprime H34 Hy Hf) as Hs. cbv zeta in Hs.
  unfold points_for_x, modular_sqrt.
  rewrite (alpha_of_point x y Hc).
  assert (He : 0 <= (p + 1) / 4) by (apply Z.div_pos; lia).
  rewrite pymodpow_spec by lia.
  set (y0 := (((y * y) mod p) ^ ((p + 1) / 4)) mod p) in *.
  pose proof (contains_point_neg x y Hc) as Hc'.
  rewrite !land1.
  assert (Hodd : p mod 2 = 1).
  { pose proof (Z.div_mod p 4 ltac:(lia)). pose proof (Z.div_mod p 2 ltac:(lia)).
    pose proof (Z.mod_pos_bound p 2 ltac:(lia)). lia. }
  destruct Hs as [E|E]; rewrite E.
  - destruct (y =? 0) eqn:E0; [lia|]. rewrite Hc, Hc'. cbn [negb].
    destruct (y mod 2 =? 0) eqn:Epar; eexists; eexists; (split; [reflexivity|reflexivity]).
  - destruct (p - y =? 0) eqn:E0; [lia|].
    replace (p - (p - y)) with y by lia. rewrite Hc, Hc'. cbn [negb].
    assert (Hpar : (p - y) mod 2 = 1 - y mod 2).
    { pose proof (Z.div_mod p 2 ltac:(lia)). pose proof (Z.div_mod y 2 ltac:(lia)).
      pose proof (Z.div_mod (p - y) 2 ltac:(lia)).
      pose proof (Z.mod_pos_bound y 2 ltac:(lia)). pose proof (Z.mod_pos_bound (p - y) 2 ltac:(lia)). lia. }
    pose proof (Z.mod_pos_bound y 2 ltac:(lia)).
    destruct (y mod 2 =? 0) eqn:Epar; destruct ((p - y) mod 2 =? 0) eqn:Epar2; try lia;
      eexists; eexists; (split; [reflexivity|reflexivity]).
Qed.

(* what a successful points_for_x returns (no primality needed) *)
Lemma points_for_x_sound x p0 p1 : p mod 2 = 1 ->
  points_for_x p a b x = Ret (p0, p1) ->
  exists y, 0 < y < p /\ contains_point p a b x y = true /\ contains_point p a b x (p - y) = true /\
    ((Z.land y 1 = 0 /\ p0 = (x, y) /\ p1 = (x, p - y) /\ Z.land (p - y) 1 = 1) \/
     (Z.land y 1 = 1 /\ p0 = (x, p - y) /\ p1 = (x, y) /\ Z.land (p - y) 1 = 0)).
Proof.
  intros Hodd. unfold points_for_x.
  set (y0 := modular_sqrt p _).
  assert (Hr : 0 <= y0 < p).
  { unfold y0, modular_sqrt. apply pymodpow_range; [apply Z.div_pos; lia|lia]. }
  destruct (y0 =? 0) eqn:E0; [discriminate|].
  destruct (contains_point p a b x y0) eqn:C1; [|discriminate].
  destruct (contains_point p a b x (p - y0)) eqn:C2; [|discriminate]. cbn [negb].
  rewrite land1.
  assert (Hpar : (p - y0) mod 2 = 1 - y0 mod 2).
  { pose proof (Z.div_mod p 2 ltac:(lia)). pose proof (Z.div_mod y0 2 ltac:(lia)).
    pose proof (Z.div_mod (p - y0) 2 ltac:(lia)).
    pose proof (Z.mod_pos_bound y0 2 ltac:(lia)). pose proof (Z.mod_pos_bound (p - y0) 2 ltac:(lia)). lia. }
  pose proof (Z.mod_pos_bound y0 2 ltac:(lia)).
  destruct (y0 mod 2 =? 0) eqn:Epar; intros HR; injection HR as <- <-;
    exists y0; rewrite !land1; (split; [lia|]); (split; [assumption|]); (split; [assumption|]).
  - left. repeat split; lia.
  - right. repeat split; lia.
Qed.

End Curve.

(* ---- bytes32 ------------------------------------------------------------------------------ *)
Lemma pow256_32 : (256 ^ N.of_nat 32)%N = Z.to_N (2 ^ 256).
Proof. reflexivity. Qed.

Lemma to_bytes_32_ok v : 0 <= v < 2 ^ 256 -> to_bytes_32 v = Ret (be_encode 32 (Z.to_N v)).
Proof.
  intros H. unfold to_bytes_32.
  destruct (v <? 0) eqn:E1; [lia|]. destruct (2 ^ 256 <=? v) eqn:E2; [lia|]. reflexivity.
Qed.

Lemma from_to_bytes_32 v : 0 <= v < 2 ^ 256 -> from_bytes_32 (be_encode 32 (Z.to_N v)) = v.
Proof.
  intros H. unfold from_bytes_32. rewrite be_decode_encode; [lia|].
  rewrite pow256_32. lia.
Qed.

Lemma from_bytes_32_range s : length s = 32%nat -> 0 <= from_bytes_32 s < 2 ^ 256.
Proof.
  intros H. unfold from_bytes_32. unfold be_decode.
  pose proof (le_decode_bound (rev s)) as B. rewrite rev_length, H, pow256_32 in B. lia.
Qed.

Lemma to_from_bytes_32 s : length s = 32%nat -> to_bytes_32 (from_bytes_32 s) = Ret s.
Proof.
  intros H. rewrite to_bytes_32_ok by (apply from_bytes_32_range; assumption).
  unfold from_bytes_32. rewrite N2Z.id. rewrite <- H. rewrite be_encode_decode. reflexivity.
Qed.

(* ---- slicing ------------------------------------------------------------------------------- *)
Lemma slice_first (c : byte) (xs ys : bytes) n : length xs = n -> slice 1 (1 + n) (c :: xs ++ ys) = xs.
Proof.
  intros <-. unfold slice. cbn [skipn]. replace (1 + length xs - 1)%nat with (length xs) by lia.
  apply firstn_app_exact.
Qed.

Lemma slice_second (c : byte) (xs ys : bytes) n : length xs = n -> length ys = n ->
  slice (1 + n) (1 + 2 * n) (c :: xs ++ ys) = ys.
Proof.
  intros <- H2. unfold slice.
  replace (skipn (1 + length xs) (c :: xs ++ ys)) with ys
    by (cbn [Nat.add skipn]; symmetry; apply skipn_app_exact).
  replace (1 + 2 * length xs - (1 + length xs))%nat with (length ys) by lia. apply firstn_all.
Qed.

Lemma bit_length_byte_count p : 2 ^ 248 <= p < 2 ^ 256 -> byte_count p = 32%nat.
Proof.
  intros H. unfold byte_count, bit_length. destruct (p <=? 0) eqn:E; [lia|].
  assert (H0 : 248 <= Z.log2 p) by (apply Z.log2_le_pow2; lia).
  assert (H1 : Z.log2 p < 256) by (apply Z.log2_lt_pow2; lia).
  assert (A : (Z.log2 p + 1 + 7) / 8 = 32).
  { pose proof (Z.div_mod (Z.log2 p + 1 + 7) 8 ltac:(lia)).
    pose proof (Z.mod_pos_bound (Z.log2 p + 1 + 7) 8 ltac:(lia)). lia. }
  rewrite A. reflexivity.
Qed.

(* ---- SEC round trip ------------------------------------------------------------------------ *)
Section RoundTrip.
Variables p a b : Z.
Hypothesis Hbc : byte_count p = 32%nat.
Hypothesis Hp : 0 < p.

Lemma sec_uncompressed_roundtrip x y strict :
  0 <= x < p -> 0 <= y < p -> p <= 2 ^ 256 ->
  exists sec, public_pair_to_sec (x, y) false = Ret sec /\ length sec = 65%nat /\
    sec_to_public_pair p a b sec strict = Ret (x, y).
Proof.
  intros Hx Hy Hp256. unfold public_pair_to_sec.
  rewrite !to_bytes_32_ok by lia. cbn [bind].
  set (xs := be_encode 32 (Z.to_N x)). set (ys := be_encode 32 (Z.to_N y)).
  assert (Lx : length xs = 32%nat) by apply be_encode_length.
  assert (Ly : length ys = 32%nat) by apply be_encode_length.
  eexists; split; [reflexivity|]. split; [cbn [length]; rewrite app_length; lia|].
  unfold sec_to_public_pair. rewrite Hbc.
  rewrite (slice_first x04 xs ys 32 Lx), (slice_second x04 xs ys 32 Lx Ly).
  unfold xs, ys. rewrite !from_to_bytes_32 by lia.
  destruct (p <=? x) eqn:E1; [lia|]. destruct (p <=? y) eqn:E2; [lia|].
  fold xs ys. cbn [length]. rewrite app_length, Lx, Ly. reflexivity.
Qed.

Lemma sec_compressed_roundtrip x y strict :
  prime p -> p mod 4 = 3 -> (y ^ (p - 1)) mod p = 1 ->
  0 <= x < p -> 0 < y < p -> p <= 2 ^ 256 -> contains_point p a b x y = true ->
  exists sec, public_pair_to_sec (x, y) true = Ret sec /\ length sec = 33%nat /\
    sec_to_public_pair p a b sec strict = Ret (x, y).
Proof.
  intros Hprime H34 Hf Hx Hy Hp256 Hc. unfold public_pair_to_sec.
  rewrite to_bytes_32_ok by lia. cbn [bind].
  set (xs := be_encode 32 (Z.to_N x)).
  assert (Lx : length xs = 32%nat) by apply be_encode_length.
  eexists; split; [reflexivity|]. split; [cbn [length]; lia|].
  unfold sec_to_public_pair. rewrite Hbc.
  assert (Esl : forall c, from_bytes_32 (slice 1 (1 + 32) (c :: xs)) = x).
  { intros c. rewrite <- (app_nil_r xs). rewrite (slice_first _ xs [] 32 Lx).
    unfold xs. apply from_to_bytes_32. lia. }
  rewrite !Esl.
  destruct (p <=? x) eqn:E1; [lia|].
  cbn [length]. rewrite Lx. cbn [Nat.eqb Nat.add Nat.mul].
  destruct (points_for_x_of_point p a b Hp x y Hprime H34 Hf Hy Hc) as (p0 & p1 & Epts & Esel).
  rewrite Epts. cbn [bind].
  rewrite land1 in *. pose proof (Z.mod_pos_bound y 2 ltac:(lia)) as Hm.
  assert (Hcase : y mod 2 = 0 \/ y mod 2 = 1) by lia.
  destruct Hcase as [E|E]; rewrite E in *.
  - change (z2b (2 + 0)) with x02. cbn [sec0_is]. rewrite byte_eqb_refl. cbn [orb negb].
    cbn [Z.eqb] in Esel. rewrite Esel. reflexivity.
  - change (z2b (2 + 1)) with x03. cbn [sec0_is].
    change (byte_eqb x03 x02) with false. rewrite byte_eqb_refl. cbn [orb negb].
    cbn [Z.eqb] in Esel. rewrite Esel. reflexivity.
Qed.

(* ---- only canonical encodings are accepted (no primality needed) --------------------------- *)
Lemma sec_strict_accepts_only_canonical sec x y :
  p mod 2 = 1 ->
  sec_to_public_pair p a b sec true = Ret (x, y) ->
  0 <= x < p /\ 0 <= y < p /\
  public_pair_to_sec (x, y) (is_sec_compressed sec) = Ret sec /\
  ((length sec = 65%nat /\ sec0_is sec x04 = true /\ is_sec_compressed sec = false) \/
   (length sec = 33%nat /\ is_sec_compressed sec = true /\ 0 < y /\ contains_point p a b x y = true)).
Proof.
  intros Hodd. unfold sec_to_public_pair. rewrite Hbc.
  set (xv := from_bytes_32 (slice 1 (1 + 32) sec)).
  destruct (p <=? xv) eqn:Ex; [discriminate|].
  destruct (length sec =? 1 + 32 * 2)%nat eqn:L65.
  - (* uncompressed *)
    cbn [negb andb]. rewrite orb_false_r.
    destruct (sec0_is sec x04) eqn:E4; [|discriminate].
    set (yv := from_bytes_32 (slice (1 + 32) (1 + 2 * 32) sec)).
    destruct (p <=? yv) eqn:Ey; [discriminate|]. cbn [negb andb].
    intros H; injection H as <- <-.
    destruct sec as [|s0 rest]; [discriminate|]. cbn [sec0_is] in E4. apply byte_eqb_eq in E4. subst s0.
    apply Nat.eqb_eq in L65. cbn [length] in L65.
    assert (Lr : length rest = 64%nat) by lia.
    set (xs := firstn 32 rest). set (ys := skipn 32 rest).
    assert (Er : rest = xs ++ ys) by (symmetry; apply firstn_skipn).
    assert (Lx : length xs = 32%nat) by (unfold xs; rewrite firstn_length; lia).
    assert (Ly : length ys = 32%nat) by (unfold ys; rewrite skipn_length; lia).
    assert (Exv : xv = from_bytes_32 xs) by (unfold xv; rewrite Er; rewrite (slice_first _ xs ys 32 Lx); reflexivity).
    assert (Eyv : yv = from_bytes_32 ys) by (unfold yv; rewrite Er; rewrite (slice_second _ xs ys 32 Lx Ly); reflexivity).
    pose proof (from_bytes_32_range xs Lx). pose proof (from_bytes_32_range ys Ly).
    assert (Hcomp : is_sec_compressed (x04 :: rest) = false) by reflexivity.
    split; [lia|]. split; [lia|]. split.
    + rewrite Hcomp. unfold public_pair_to_sec. rewrite Exv, Eyv.
      rewrite !to_from_bytes_32 by assumption. cbn [bind]. rewrite Er. reflexivity.
    + left. repeat split; try reflexivity. cbn [length]. lia.
  - destruct (length sec =? 1 + 32)%nat eqn:L33; [|discriminate].
    destruct (sec0_is sec x02 || sec0_is sec x03) eqn:E23; [|discriminate].
    destruct (points_for_x p a b xv) as [[p0 p1]| |] eqn:Epts; try discriminate.
    cbn [bind].
    destruct (points_for_x_sound p a b Hp xv p0 p1 Hodd Epts) as (y0 & Hy0 & C1 & C2 & Hsel).
    destruct sec as [|s0 rest]; [discriminate|].
    apply Nat.eqb_eq in L33. cbn [length] in L33. assert (Lr : length rest = 32%nat) by lia.
    assert (Exv : xv = from_bytes_32 rest).
    { unfold xv. rewrite <- (app_nil_r rest) at 1. rewrite (slice_first _ rest [] 32 Lr). reflexivity. }
    pose proof (from_bytes_32_range rest Lr).
    assert (Hcomp : is_sec_compressed (s0 :: rest) = true) by exact E23.
    rewrite Hcomp. cbn [sec0_is] in *.
    unfold public_pair_to_sec. rewrite Exv in *.
    assert (Hfin : forall yy pfx, 0 < yy < p -> contains_point p a b (from_bytes_32 rest) yy = true ->
              z2b (2 + Z.land yy 1) = pfx ->
      0 <= from_bytes_32 rest < p /\ 0 <= yy < p /\
      bind (to_bytes_32 (from_bytes_32 rest)) (fun x_str : bytes => Ret (z2b (2 + Z.land yy 1) :: x_str))
        = Ret (pfx :: rest) /\
      (length (pfx :: rest) = 65%nat /\ byte_eqb pfx x04 = true /\ true = false \/
       length (pfx :: rest) = 33%nat /\ true = true /\ 0 < yy /\
       contains_point p a b (from_bytes_32 rest) yy = true)).
    { intros yy pfx Hyy Hcc Hpf. split; [lia|]. split; [lia|]. split.
      - rewrite to_from_bytes_32 by assumption. cbn [bind]. rewrite Hpf. reflexivity.
      - right. cbn [length]. repeat split; try lia; assumption. }
    destruct (byte_eqb s0 x02) eqn:E2.
    + apply byte_eqb_eq in E2. subst s0. cbn [negb].
      destruct Hsel as [(Hl & -> & _ & _)|(Hl & -> & _ & Hl')]; injection 1 as <- <-.
      * apply Hfin; [lia|assumption|rewrite Hl; reflexivity].
      * apply Hfin; [lia|assumption|rewrite Hl'; reflexivity].
    + cbn [orb] in E23. apply byte_eqb_eq in E23. subst s0. cbn [negb].
      destruct Hsel as [(Hl & _ & -> & Hl')|(Hl & _ & -> & _)]; injection 1 as <- <-.
      * apply Hfin; [lia|assumption|rewrite Hl'; reflexivity].
      * apply Hfin; [lia|assumption|rewrite Hl; reflexivity].
Qed.

End RoundTrip.

(* ---- Key.from_sec / Key.__init__ ------------------------------------------------------------ *)
Lemma public_pair_to_sec_flag pr c sec : public_pair_to_sec pr c = Ret sec -> is_sec_compressed sec = c.
Proof.
  destruct pr as [x y]. unfold public_pair_to_sec.
  destruct (to_bytes_32 x) as [xs| |]; try discriminate. cbn [bind].
  destruct c.
  - intros H; injection H as <-. rewrite land1.
    pose proof (Z.mod_pos_bound y 2 ltac:(lia)).
    assert (Hc : y mod 2 = 0 \/ y mod 2 = 1) by lia. destruct Hc as [-> | ->]; reflexivity.
  - destruct (to_bytes_32 y) as [ys| |]; try discriminate. cbn [bind].
    intros H; injection H as <-. reflexivity.
Qed.

Lemma key_public_iff p a b x y :
  (contains_point p a b x y = true /\ 0 <= x < p /\ 0 <= y < p -> key_public p a b (x, y) = Ret (x, y)) /\
  (~ (contains_point p a b x y = true /\ 0 <= x < p /\ 0 <= y < p) -> key_public p a b (x, y) = Raise E_PUBPAIR).
Proof.
  unfold key_public, in_field. split.
  - intros (-> & Hx & Hy). cbn [negb].
    destruct ((0 <=? x) && (x <? p) && ((0 <=? y) && (y <? p))) eqn:E; [reflexivity|lia].
  - intros H. destruct (contains_point p a b x y); [|reflexivity]. cbn [negb].
    destruct ((0 <=? x) && (x <? p) && ((0 <=? y) && (y <? p))) eqn:E; [|reflexivity].
    exfalso. apply H. split; [reflexivity|lia].
Qed.

Lemma key_public_ret_inv p a b pr q : key_public p a b pr = Ret q ->
  q = pr /\ contains_point p a b (fst pr) (snd pr) = true /\ 0 <= fst pr < p /\ 0 <= snd pr < p.
Proof.
  destruct pr as [x y]. unfold key_public, in_field. cbn [fst snd].
  destruct (contains_point p a b x y); [|discriminate]. cbn [negb].
  destruct ((0 <=? x) && (x <? p) && ((0 <=? y) && (y <? p))) eqn:E; [|discriminate]. cbn [negb].
  intros H; injection H as <-. repeat split; lia.
Qed.

Lemma key_private_iff order e :
  (1 <= e < order -> key_private order e = Ret e) /\
  (~ (1 <= e < order) -> key_private order e = Raise E_SECRET).
Proof.
  unfold key_private. split; intros H.
  - destruct (e <? 1) eqn:E1; [lia|]. destruct (order <=? e) eqn:E2; [lia|]. reflexivity.
  - destruct (e <? 1) eqn:E1; [reflexivity|]. destruct (order <=? e) eqn:E2; [reflexivity|lia].
Qed.

Section KeyFromSec.
Variables p a b : Z.
Hypothesis Hbc : byte_count p = 32%nat.
Hypothesis Hp : 0 < p.
Hypothesis Hp256 : p <= 2 ^ 256.

Lemma key_from_sec_roundtrip x y (c : bool) :
  prime p -> p mod 4 = 3 -> (y ^ (p - 1)) mod p = 1 ->
  0 <= x < p -> 0 < y < p -> contains_point p a b x y = true ->
  exists sec, public_pair_to_sec (x, y) c = Ret sec /\
    length sec = (if c then 33 else 65)%nat /\
    key_from_sec p a b sec = Ret ((x, y), c).
Proof.
  intros Hprime H34 Hf Hx Hy Hc.
  assert (Hsec : exists sec, public_pair_to_sec (x, y) c = Ret sec /\ length sec = (if c then 33 else 65)%nat /\
                   sec_to_public_pair p a b sec true = Ret (x, y)).
  { destruct c.
    - apply sec_compressed_roundtrip; assumption.
    - apply sec_uncompressed_roundtrip; try assumption; lia. }
  destruct Hsec as (sec & Eenc & Hlen & Edec). exists sec. repeat split; try assumption.
  unfold key_from_sec. rewrite Edec. cbn [bind].
  destruct (key_public_iff p a b x y) as [Hk _]. rewrite Hk by (repeat split; try assumption; lia). cbn [bind].
  rewrite (public_pair_to_sec_flag _ _ _ Eenc). reflexivity.
Qed.

Lemma key_from_sec_accepts_only_canonical sec x y c :
  p mod 2 = 1 ->
  key_from_sec p a b sec = Ret ((x, y), c) ->
  0 <= x < p /\ 0 <= y < p /\ contains_point p a b x y = true /\
  public_pair_to_sec (x, y) c = Ret sec /\
  ((c = false /\ length sec = 65%nat /\ sec0_is sec x04 = true) \/
   (c = true /\ length sec = 33%nat /\ (sec0_is sec x02 = true \/ sec0_is sec x03 = true) /\ 0 < y)).
Proof.
  intros Hodd. unfold key_from_sec.
  destruct (sec_to_public_pair p a b sec true) as [[x' y']| |] eqn:E; try discriminate.
  cbn [bind].
  destruct (key_public p a b (x', y')) as [q| |] eqn:Ek; try discriminate. cbn [bind].
  destruct (key_public_ret_inv _ _ _ _ _ Ek) as (-> & Ec & _ & _). cbn [fst snd] in Ec.
  intros H; injection H as <- <- <-.
  destruct (sec_strict_accepts_only_canonical p a b Hbc Hp sec x' y' Hodd E) as (Hx & Hy & Henc & Hshape).
  repeat (split; [assumption|]).
  destruct Hshape as [(L & H4 & Hc)|(L & Hc & Hy0 & _)]; rewrite Hc.
  - left. repeat split; assumption.
  - right. repeat split; try assumption. unfold is_sec_compressed in Hc.
    apply orb_true_iff in Hc. exact Hc.
Qed.

(* two accepted blobs that decode to the same key are the same blob *)
Lemma key_from_sec_injective sec1 sec2 k :
  p mod 2 = 1 -> key_from_sec p a b sec1 = Ret k -> key_from_sec p a b sec2 = Ret k -> sec1 = sec2.
Proof.
  intros Hodd H1 H2. destruct k as [[x y] c].
  destruct (key_from_sec_accepts_only_canonical _ _ _ _ Hodd H1) as (_ & _ & _ & E1 & _).
  destruct (key_from_sec_accepts_only_canonical _ _ _ _ Hodd H2) as (_ & _ & _ & E2 & _).
  rewrite E1 in E2. injection E2. auto.
Qed.
End KeyFromSec.

(* ---- the generated secp256k1 constants meet the side conditions ------------------------------ *)
Lemma k1_width : bytes32_width = 32%nat.
Proof. reflexivity. Qed.
Lemma k1_p_range : 2 ^ 248 <= k1_p < 2 ^ 256.
Proof. split; [apply Z.leb_le|apply Z.ltb_lt]; vm_compute; reflexivity. Qed.
Lemma k1_byte_count : byte_count k1_p = 32%nat.
Proof. apply bit_length_byte_count. exact k1_p_range. Qed.
Lemma k1_mod4 : k1_p mod 4 = 3.
Proof. vm_compute. reflexivity. Qed.
Lemma k1_n_range : 1 < k1_n < 2 ^ 256.
Proof. split; apply Z.ltb_lt; vm_compute; reflexivity. Qed.
Lemma k1_g_on_curve : contains_point k1_p k1_a k1_b k1_gx k1_gy = true.
Proof. vm_compute. reflexivity. Qed.
Lemma k1_g_range : 0 <= k1_gx < k1_p /\ 0 < k1_gy < k1_p.
Proof. repeat split; try (apply Z.ltb_lt; vm_compute; reflexivity). apply Z.leb_le; vm_compute; reflexivity. Qed.
Lemma k1_g_fermat : (k1_gy ^ (k1_p - 1)) mod k1_p = 1.
Proof. rewrite <- pymodpow_spec; [vm_compute; reflexivity| |]; [apply Z.leb_le|apply Z.ltb_lt]; vm_compute; reflexivity. Qed.

(* under the Fermat premise no point of secp256k1 has y = 0: -7 is not a cube mod p *)
Lemma k1_no_y0 :
  (forall t, 0 < t < k1_p -> (t ^ (k1_p - 1)) mod k1_p = 1) ->
  forall x, 0 <= x < k1_p -> contains_point k1_p k1_a k1_b x 0 = false.
Proof.
  intros Hf x Hx. destruct (contains_point k1_p k1_a k1_b x 0) eqn:E; [exfalso|reflexivity].
  pose proof k1_p_range as Hpr. assert (Hp : 0 < k1_p) by lia.
  apply (contains_point_iff k1_p k1_a k1_b Hp) in E.
  change k1_a with 0 in E. change k1_b with 7 in E.
  replace (0 * 0) with 0 in E by ring. rewrite Z.mod_0_l in E by lia.
  assert (Hx0 : x <> 0).
  { intros ->. revert E. vm_compute. discriminate. }
  assert (Hcube : (x ^ 3) mod k1_p = (-7) mod k1_p).
  { apply sub_mod_0; [lia|]. replace (x ^ 3 - -7) with (x * x * x + 0 * x + 7) by ring. auto. }
  set (k := (k1_p - 1) / 3).
  assert (Hk : k1_p - 1 = 3 * k) by (unfold k; vm_compute; reflexivity).
  assert (Hk0 : 0 <= k) by (apply Z.leb_le; vm_compute; reflexivity).
  pose proof (Hf x ltac:(lia)) as H1.
  rewrite Hk, Z.pow_mul_r in H1 by lia.
  rewrite Zpower_mod in H1 by lia. rewrite Hcube in H1. rewrite <- Zpower_mod in H1 by lia.
  rewrite <- pymodpow_spec in H1 by lia.
  revert H1. unfold k. vm_compute. discriminate.
Qed.

(* ---- a toy field where the number-theoretic premises are PROVED (non-vacuity) ------------------- *)
Lemma forall_range (P : Z -> bool) n :
  forallb P (map Z.of_nat (seq 1 n)) = true -> forall t, 1 <= t <= Z.of_nat n -> P t = true.
Proof.
  intros H t Ht. rewrite forallb_forall in H. apply H.
  rewrite <- (Z2Nat.id t) by lia. apply in_map. apply in_seq. lia.
Qed.

Lemma prime_251 : prime 251.
Proof.
  apply prime_intro; [lia|]. intros n Hn. apply Zgcd_1_rel_prime.
  apply Z.eqb_eq. apply (forall_range (fun n => Z.gcd n 251 =? 1) 250); [vm_compute; reflexivity|lia].
Qed.

Lemma fermat_251 t : 0 < t < 251 -> (t ^ (251 - 1)) mod 251 = 1.
Proof.
  intros Ht. rewrite <- pymodpow_spec by lia. apply Z.eqb_eq.
  apply (forall_range (fun t => pymodpow t (251 - 1) 251 =? 1) 250); [vm_compute; reflexivity|lia].
Qed.

Lemma toy_points_for_x x y : 0 < y < 251 -> contains_point 251 0 7 x y = true ->
  exists p0 p1, points_for_x 251 0 7 x = Ret (p0, p1) /\ (if Z.land y 1 =? 0 then p0 else p1) = (x, y).
Proof.
  intros Hy Hc.
  exact (points_for_x_of_point 251 0 7 ltac:(lia) x y prime_251 eq_refl (fermat_251 y Hy) Hy Hc).
Qed.

(* ---- statements as they appear in Props/C10.v ---------------------------------------------------- *)
Definition fermat_premise (p : Z) : Prop := forall t, 0 < t < p -> (t ^ (p - 1)) mod p = 1.

Lemma fermat_from_prime p : prime p -> fermat_premise p.
Proof. intros Hp t Ht. apply fermat_little; assumption. Qed.

Lemma sec_roundtrip_generic (p a b : Z) :
  2 ^ 248 <= p < 2 ^ 256 -> prime p -> p mod 4 = 3 ->
  forall (x y : Z) (c : bool), 0 <= x < p -> 0 < y < p -> contains_point p a b x y = true ->
  exists sec, public_pair_to_sec (x, y) c = Ret sec /\
    length sec = (if c then 33 else 65)%nat /\
    key_from_sec p a b sec = Ret ((x, y), c).
Proof.
  intros Hr Hprime H34 x y c Hx Hy Hc.
  apply key_from_sec_roundtrip; try assumption; try lia.
  - apply bit_length_byte_count; assumption.
  - apply fermat_little; assumption.
Qed.

Lemma sec_roundtrip_k1 :
  prime k1_p ->
  forall (x y : Z) (c : bool), 0 <= x < k1_p -> 0 <= y < k1_p -> contains_point k1_p k1_a k1_b x y = true ->
  exists sec, public_pair_to_sec (x, y) c = Ret sec /\
    length sec = (if c then 33 else 65)%nat /\
    key_from_sec k1_p k1_a k1_b sec = Ret ((x, y), c).
Proof.
  intros Hprime x y c Hx Hy Hc.
  assert (Hy0 : y <> 0).
  { intros ->. rewrite (k1_no_y0 (fermat_from_prime _ Hprime) x Hx) in Hc. discriminate. }
  apply sec_roundtrip_generic; try assumption; try lia.
  - exact k1_p_range.
  - exact k1_mod4.
Qed.

(* the compressed form alone, in both decoder modes, at sec_to_public_pair level *)
Lemma sec_decode_roundtrip_generic (p a b : Z) :
  2 ^ 248 <= p < 2 ^ 256 -> prime p -> p mod 4 = 3 ->
  forall (x y : Z) (c strict : bool), 0 <= x < p -> 0 < y < p -> contains_point p a b x y = true ->
  exists sec, public_pair_to_sec (x, y) c = Ret sec /\ sec_to_public_pair p a b sec strict = Ret (x, y).
Proof.
  intros Hr Hprime H34 x y c strict Hx Hy Hc.
  pose proof (bit_length_byte_count p Hr) as Hbc.
  destruct c.
  - destruct (sec_compressed_roundtrip p a b Hbc ltac:(lia) x y strict Hprime H34
                (fermat_little p y Hprime Hy) Hx Hy ltac:(lia) Hc) as (sec & E1 & _ & E2). eauto.
  - destruct (sec_uncompressed_roundtrip p a b Hbc x y strict Hx ltac:(lia) ltac:(lia)) as (sec & E1 & _ & E2). eauto.
Qed.

Lemma sec_canonical_generic (p a b : Z) :
  2 ^ 248 <= p < 2 ^ 256 -> p mod 2 = 1 ->
  forall (sec : bytes) (x y : Z) (c : bool),
  key_from_sec p a b sec = Ret ((x, y), c) ->
  0 <= x < p /\ 0 <= y < p /\ contains_point p a b x y = true /\
  public_pair_to_sec (x, y) c = Ret sec /\
  ((c = false /\ length sec = 65%nat /\ sec0_is sec x04 = true) \/
   (c = true /\ length sec = 33%nat /\ (sec0_is sec x02 = true \/ sec0_is sec x03 = true) /\ 0 < y)).
Proof.
  intros Hr Hodd sec x y c H.
  apply key_from_sec_accepts_only_canonical; try assumption; try lia.
  apply bit_length_byte_count; assumption.
Qed.

Lemma sec_injective_generic (p a b : Z) :
  2 ^ 248 <= p < 2 ^ 256 -> p mod 2 = 1 ->
  forall sec1 sec2 k, key_from_sec p a b sec1 = Ret k -> key_from_sec p a b sec2 = Ret k -> sec1 = sec2.
Proof.
  intros Hr Hodd sec1 sec2 k. apply key_from_sec_injective; try assumption; try lia.
  apply bit_length_byte_count; assumption.
Qed.

Lemma k1_odd : k1_p mod 2 = 1.
Proof. vm_compute. reflexivity. Qed.

Lemma key_range_statement (order : Z) :
  (forall e, 1 <= e < order -> key_private order e = Ret e) /\
  (forall e, ~ (1 <= e < order) -> key_private order e = Raise E_SECRET) /\
  (0 < order <= 2 ^ 256 - 1 ->
     key_private order 0 = Raise E_SECRET /\ key_private order order = Raise E_SECRET /\
     key_private order (2 ^ 256 - 1) = Raise E_SECRET).
Proof.
  split; [intros e; apply key_private_iff|]. split; [intros e; apply key_private_iff|].
  intros Ho. repeat split; apply key_private_iff; lia.
Qed.

Lemma key_public_statement (p a b x y : Z) :
  (contains_point p a b x y = true /\ 0 <= x < p /\ 0 <= y < p -> key_public p a b (x, y) = Ret (x, y)) /\
  (~ (contains_point p a b x y = true /\ 0 <= x < p /\ 0 <= y < p) -> key_public p a b (x, y) = Raise E_PUBPAIR) /\
  (forall q, key_public p a b (x, y) = Ret q ->
     q = (x, y) /\ contains_point p a b x y = true /\ 0 <= x < p /\ 0 <= y < p).
Proof.
  destruct (key_public_iff p a b x y) as [A B]. split; [exact A|]. split; [exact B|].
  intros q H. exact (key_public_ret_inv _ _ _ _ _ H).
Qed.

(* unreduced names of a curve point are refused although they satisfy the curve equation *)
Lemma unreduced_pair_refused (p a b x y : Z) : 0 < p -> 0 <= x < p -> 0 <= y < p ->
  key_public p a b (x + p, y) = Raise E_PUBPAIR /\ key_public p a b (x, y + p) = Raise E_PUBPAIR /\
  key_public p a b (x, y - p) = Raise E_PUBPAIR.
Proof. intros Hp Hx Hy. repeat split; apply key_public_iff; lia. Qed.

(* an off-curve uncompressed blob passes sec_to_public_pair but Key.from_sec raises InvalidPublicPairError *)
Lemma off_curve_refused (p a b : Z) (sec : bytes) (x y : Z) :
  sec_to_public_pair p a b sec true = Ret (x, y) -> contains_point p a b x y = false ->
  key_from_sec p a b sec = Raise E_PUBPAIR.
Proof.
  intros H1 H2. unfold key_from_sec. rewrite H1. cbn [bind].
  destruct (key_public_iff p a b x y) as [_ B]. rewrite B; [reflexivity|]. rewrite H2. intros (H & _). discriminate.
Qed.

Lemma k1_g_roundtrips :
  contains_point k1_p k1_a k1_b k1_gx k1_gy = true /\ (k1_gy ^ (k1_p - 1)) mod k1_p = 1 /\
  (forall c : bool, match public_pair_to_sec (k1_gx, k1_gy) c with
                    | Ret sec => key_from_sec k1_p k1_a k1_b sec = Ret ((k1_gx, k1_gy), c)
                    | _ => False end).
Proof.
  split; [exact k1_g_on_curve|]. split; [exact k1_g_fermat|].
  intros [|]; vm_compute; reflexivity.
Qed.

(* the quirk behind the hypothesis 0 < y: a point of order 2 is not decodable from its compressed form *)
Lemma y0_not_decodable (p a b x : Z) : 3 <= p ->
  contains_point p a b x 0 = true -> points_for_x p a b x = Raise E_VALUE.
Proof.
  intros Hp Hc. unfold points_for_x, modular_sqrt.
  rewrite (alpha_of_point p a b ltac:(lia) x 0 Hc).
  replace (0 * 0) with 0 by ring. rewrite Z.mod_0_l by lia.
  assert (He : 0 < (p + 1) / 4) by (apply Z.div_str_pos; lia).
  rewrite pymodpow_spec by lia. rewrite Z.pow_0_l by lia. rewrite Z.mod_0_l by lia. reflexivity.
Qed.

(* ---- the public pair however it is presented (tuple, list, Point of any curve) ------------------- *)
Definition mk_arg (k : presentation) (x y : option Z) : pair_arg := {| pa_kind := k; pa_x := x; pa_y := y |}.

(* acceptance and result depend only on the coordinates and the KEY's curve, never on the presentation *)
Lemma key_public_arg_presentation_independent (p a b : Z) (k1 k2 : presentation) (x y : option Z) :
  key_public_arg p a b (mk_arg k1 x y) = key_public_arg p a b (mk_arg k2 x y).
Proof. reflexivity. Qed.

(* exact characterisation: accepted iff both coordinates are integers, on the key's curve, in [0, p) *)
Lemma key_public_arg_spec (p a b : Z) (pa : pair_arg) :
  (forall q, key_public_arg p a b pa = Ret q ->
     exists x y, pa_x pa = Some x /\ pa_y pa = Some y /\ q = (x, y) /\
       contains_point p a b x y = true /\ 0 <= x < p /\ 0 <= y < p) /\
  ((forall x y, pa_x pa = Some x -> pa_y pa = Some y ->
      ~ (contains_point p a b x y = true /\ 0 <= x < p /\ 0 <= y < p)) ->
   key_public_arg p a b pa = Raise E_PUBPAIR) /\
  (forall x y, pa_x pa = Some x -> pa_y pa = Some y ->
     contains_point p a b x y = true -> 0 <= x < p -> 0 <= y < p ->
     key_public_arg p a b pa = Ret (x, y)).
Proof.
  destruct pa as [k [x|] [y|]]; unfold key_public_arg; cbn [pa_x pa_y];
    try (split; [intros q H; discriminate|split; [reflexivity|intros x' y' Ex Ey; discriminate]]).
  split; [|split].
  - intros q H. destruct (key_public_ret_inv _ _ _ _ _ H) as (-> & Hc & Hx & Hy).
    exists x, y. cbn [fst snd] in *. repeat split; try reflexivity; try assumption; lia.
  - intros H. apply key_public_iff. apply H; reflexivity.
  - intros x' y' Ex Ey Hc Hx Hy. injection Ex as <-. injection Ey as <-. apply key_public_iff. repeat split; try assumption; lia.
Qed.

(* a Point object that belongs to ANOTHER curve and is not on the key's curve is refused, although it
   was validated (against its own curve) when it was built; so is the point at infinity *)
Lemma foreign_point_refused (p a b cp ca cb x y : Z) :
  contains_point cp ca cb x y = true -> contains_point p a b x y = false ->
  point_wf (mk_arg (Pr_point cp ca cb) (Some x) (Some y)) /\
  key_public_arg p a b (mk_arg (Pr_point cp ca cb) (Some x) (Some y)) = Raise E_PUBPAIR.
Proof.
  intros Hown Hkey. split; [exact Hown|]. unfold key_public_arg. cbn [mk_arg pa_x pa_y].
  apply key_public_iff. rewrite Hkey. intros (H & _). discriminate.
Qed.

Lemma infinity_refused (p a b : Z) (k : presentation) :
  key_public_arg p a b (mk_arg k None None) = Raise E_PUBPAIR.
Proof. reflexivity. Qed.

(* non-vacuity: a point of y^2 = x^3 + 3 over the field of secp256k1 is a well-formed foreign Point *)
Lemma foreign_point_example :
  contains_point k1_p 0 3 1 2 = true /\ contains_point k1_p k1_a k1_b 1 2 = false.
Proof. split; vm_compute; reflexivity. Qed.
