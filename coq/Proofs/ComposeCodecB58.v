(* Proofs/ComposeCodecB58.v — composition, part 1: C11's Base58Check model (Model/Base58.v, Proofs/Base58P.v) packaged as
   the total encoder / option decoder pair that C08, C09, C10 and C18 take as parameters.

   On code-point strings (C11's pystr = the `text` of C10 and C18): c11_b2a_hashed H, c11_a2b_hashed H.
   On BYTE-string texts (C08 and C09 hold a Python `str` as "bytes holding the UTF-8 text"): cc_b58check_encode H,
   cc_b58check_decode H, through
     str_of   : bytes -> pystr   (Base58P.str_of = map b2n: every byte read as one code point)
     bytes_of : pystr -> bytes   (map n2b)
   On ASCII text the two are inverse and `bytes_of` IS str.encode("utf8") (utf8_of_ascii).  On non-ASCII text `str_of s`
   is not the string whose UTF-8 is `s`, but both are rejected by the decoders; `cc_b58check_decode_faithful` proves
   that the composed decoder applied to the UTF-8 bytes of ANY str `t` returns what C11's model returns on `t`.

   Laws proved here for C11's model, any hash function H (both representations):
     B1  decode (encode d) = Some d                     (needs: H returns at least 4 bytes)
     B2  decode s = Some d -> encode d = s               (no assumption on H)
     B3  decode s = Some d -> 2 |s| <= 3 (|d| + 4)       (needs: H returns at least 4 bytes; false for 1- and 3-byte
                                                          decodings, so the four checksum bytes are really used) *)
From PV Require Import Base.Bytes Base.Outcome Gen.GenCodecsC11 Model.Base58 Proofs.Base58P.
From Coq Require Import ZifyBool ZifyNat ZifyN.
Local Open Scope Z_scope.

(* ---- the two representations of str ------------------------------------------------------------------ *)
Definition bytes_of (t : pystr) : bytes := map n2b t.

Lemma bytes_of_str_of b : bytes_of (str_of b) = b.
Proof.
  unfold bytes_of, str_of. rewrite map_map. rewrite <- (map_id b) at 2. apply map_ext. intros c. apply n2b_b2n.
Qed.

Lemma str_of_bytes_of t : Forall (fun c => (c < 256)%N) t -> str_of (bytes_of t) = t.
Proof.
  induction 1 as [|c r Hc _ IH]; [reflexivity|].
  unfold bytes_of, str_of in *. cbn [map]. rewrite IH, b2n_n2b by exact Hc. reflexivity.
Qed.

Lemma str_of_inj a b : str_of a = str_of b -> a = b.
Proof. intros E. rewrite <- (bytes_of_str_of a), <- (bytes_of_str_of b). now rewrite E. Qed.

Lemma str_of_length b : length (str_of b) = length b.
Proof. apply map_length. Qed.

Definition ascii_str (t : pystr) : Prop := Forall (fun c => (c < 128)%N) t.

Lemma ascii_lt256 t : ascii_str t -> Forall (fun c => (c < 256)%N) t.
Proof. intros H. eapply Forall_impl; [|exact H]. cbv beta. lia. Qed.

(* on ASCII text bytes_of is str.encode("utf8") *)
Lemma utf8_of_ascii t : ascii_str t -> utf8_encode t = Ret (bytes_of t).
Proof.
  induction 1 as [|c r Hc _ IH]; [reflexivity|].
  cbn [utf8_encode]. unfold utf8_char. replace (c <? 128)%N with true by lia. rewrite IH. reflexivity.
Qed.

(* a str with a code point >= 128 has a UTF-8 byte >= 128 *)
Lemma utf8_char_high c bc : (128 <= c)%N -> utf8_char c = Ret bc -> exists x, In x bc /\ (128 <= b2n x)%N.
Proof.
  intros Hc. unfold utf8_char. replace (c <? 128)%N with false by lia.
  destruct (c <? 2048)%N eqn:E1.
  { intros E. injection E as <-. exists (n2b (192 + c / 64)). split; [now left|].
    assert (c / 64 < 32)%N by (apply N.div_lt_upper_bound; lia). rewrite b2n_n2b by lia. lia. }
  destruct ((55296 <=? c) && (c <=? 57343))%N; [discriminate|].
  destruct (c <? 65536)%N eqn:E2.
  { intros E. injection E as <-. exists (n2b (224 + c / 4096)). split; [now left|].
    assert (c / 4096 < 16)%N by (apply N.div_lt_upper_bound; lia). rewrite b2n_n2b by lia. lia. }
  destruct (c <? 1114112)%N eqn:E3; [|discriminate].
  intros E. injection E as <-. exists (n2b (240 + c / 262144)). split; [now left|].
  assert (c / 262144 < 5)%N by (apply N.div_lt_upper_bound; lia). rewrite b2n_n2b by lia. lia.
Qed.

Lemma utf8_encode_split t : forall s, utf8_encode t = Ret s ->
  (ascii_str t /\ s = bytes_of t) \/
  ((exists c, In c t /\ (128 <= c)%N) /\ (exists x, In x s /\ (128 <= b2n x)%N)).
Proof.
  induction t as [|c r IH]; intros s E.
  - injection E as <-. left. split; [constructor|reflexivity].
  - cbn [utf8_encode] in E. destruct (utf8_char c) as [bc| |] eqn:Ec; try discriminate.
    destruct (utf8_encode r) as [br| |] eqn:Er; try discriminate. injection E as <-.
    destruct (N.lt_ge_cases c 128) as [Hc|Hc].
    + unfold utf8_char in Ec. replace (c <? 128)%N with true in Ec by lia. injection Ec as <-.
      destruct (IH br eq_refl) as [[Ha ->]|[(c' & Hc1 & Hc2) (x & Hx1 & Hx2)]].
      * left. split; [constructor; assumption|reflexivity].
      * right. split; [exists c'; split; [now right|exact Hc2]|exists x; split; [now right|exact Hx2]].
    + right. split; [exists c; split; [now left|exact Hc]|].
      destruct (utf8_char_high c bc Hc Ec) as (x & Hx1 & Hx2). exists x. split; [|exact Hx2].
      apply in_or_app. now left.
Qed.

(* ---- shape of the Base58 functions ---------------------------------------------------------------------- *)
Lemma ascii_decode_inv b : forall t, ascii_decode b = Ret t -> t = str_of b /\ ascii_str t.
Proof.
  induction b as [|c r IH]; intros t E.
  - injection E as <-. split; [reflexivity|constructor].
  - cbn [ascii_decode] in E. destruct (b2n c <? 128)%N eqn:Ec; [|discriminate].
    destruct (ascii_decode r) as [s| |]; try discriminate. injection E as <-.
    destruct (IH s eq_refl) as [-> Ha]. split; [reflexivity|]. constructor; [lia|exact Ha].
Qed.

(* what the encoder returns is ASCII text *)
Lemma b2a_base58_ascii s t : btc_b2a_base58 s = Ret t -> ascii_str t.
Proof.
  unfold btc_b2a_base58. rewrite b2a_as_conv.
  destruct (conv 256 byte_id (base58_base b58_alphabet) (alphabet_at b58_alphabet) s) as [b| |]; try discriminate.
  intros E. exact (proj2 (ascii_decode_inv b t E)).
Qed.

Lemma b58_char_ascii c : b58_char c -> (c < 128)%N.
Proof. intros (x & Hx & ->). apply lookup_ascii. now apply in_alphabet_lookup. Qed.

Lemma b58_char_dec t : {Forall b58_char t} + {~ Forall b58_char t}.
Proof.
  apply Forall_dec. intros c. destruct (b58_charb c) eqn:E; [left; now apply b58_charb_iff|].
  right. intros H. apply b58_charb_iff in H. congruence.
Qed.

(* whatever the decoder accepts is a string over the alphabet *)
Lemma a2b_base58_alphabet t data : btc_a2b_base58 t = Ret data -> Forall b58_char t.
Proof.
  intros E. destruct (b58_char_dec t) as [H|H]; [exact H|].
  rewrite (b58_rejects_non_alphabet t H) in E. discriminate.
Qed.

(* ---- length of a radix conversion ------------------------------------------------------------------------ *)
Lemma lookup_dec (lk : byte -> option Z) s : {Forall (fun c => lk c <> None) s} + {~ Forall (fun c => lk c <> None) s}.
Proof. apply Forall_dec. intros c. destruct (lk c); [left; discriminate|right; congruence]. Qed.

Lemma Forall2_len {X Y} (R : X -> Y -> Prop) l l' : Forall2 R l l' -> length l = length l'.
Proof. induction 1; cbn; congruence. Qed.

Lemma conv_shape b1 lk1 cs1 b2 lk2 cs2 : codec_ok b1 lk1 cs1 -> codec_ok b2 lk2 cs2 ->
  forall s t, conv b1 lk1 b2 cs2 s = Ret t ->
  exists ds1 ds2, in_range b1 ds1 /\ length ds1 = length s /\ in_range b2 ds2 /\ lz ds2 = 0
    /\ valfrom b2 0 ds2 = valfrom b1 0 ds1 /\ length t = (Z.to_nat (lz ds1) + length ds2)%nat.
Proof.
  intros H1 H2 s t E.
  pose proof (co_base _ _ _ H1) as Hb1. pose proof (co_base _ _ _ H2) as Hb2.
  destruct (lookup_dec lk1 s) as [Hs|Hs]; [|rewrite (conv_bad _ _ _ _ _ Hs) in E; discriminate].
  destruct (codec_digits _ _ _ H1 s Hs) as (ds1 & Hd1 & Hr1 & Es).
  pose proof (valfrom_nonneg b1 Hb1 ds1 Hr1 0 ltac:(lia)) as Hv.
  unfold conv in E. rewrite (to_long_spec b1 Hb1 lk1 s ds1 Hd1 Hr1) in E. unfold from_long in E.
  destruct (from_long_loop_exists b2 Hb2 cs2 (csf_of cs2) (csf_of_ok _ _ _ H2) _ (valfrom b1 0 ds1) []
              (conj Hv (fuel_enough b2 _ Hb2 Hv))) as (ds2 & E2 & Hval2 & Hr2 & Hlz2).
  rewrite E2, app_nil_r, (csf_of_ok _ _ _ H2 0 ltac:(lia)) in E. injection E as <-.
  exists ds1, ds2. repeat split; try assumption.
  - symmetry. exact (Forall2_len _ _ _ Hd1).
  - rewrite app_length, repeat_length, map_length. reflexivity.
Qed.

(* a stripped digit string is empty or starts with a non-zero digit *)
Lemma strip_head ds : strip ds = [] \/ exists d r, strip ds = d :: r /\ d <> 0.
Proof.
  induction ds as [|d r IH]; [now left|]. cbn [strip]. destruct (d =? 0) eqn:E; [exact IH|].
  right. exists d, r. split; [reflexivity|lia].
Qed.

Lemma strip_length ds : length ds = (Z.to_nat (lz ds) + length (strip ds))%nat.
Proof.
  rewrite (lz_strip ds) at 1. rewrite app_length, repeat_length. reflexivity.
Qed.

Lemma valfrom_strip b ds : valfrom b 0 ds = valfrom b 0 (strip ds).
Proof. rewrite (lz_strip ds) at 1. apply valfrom_repeat0. Qed.

Lemma valfrom_shift' b ds : forall v, valfrom b v ds = v * b ^ Z.of_nat (length ds) + valfrom b 0 ds.
Proof.
  induction ds as [|d r IH]; intros v.
  - cbn. lia.
  - rewrite !valfrom_cons. rewrite (IH (v * b + d)), (IH (0 * b + d)).
    cbn [length]. rewrite Nat2Z.inj_succ, Z.pow_succ_r by lia. ring.
Qed.

Lemma valfrom_upper b ds : 2 <= b -> in_range b ds -> valfrom b 0 ds < b ^ Z.of_nat (length ds).
Proof.
  intros Hb. induction 1 as [|d r Hd Hr IH].
  - cbn. lia.
  - rewrite valfrom_cons, valfrom_shift'. cbn [length]. rewrite Nat2Z.inj_succ, Z.pow_succ_r by lia.
    pose proof (valfrom_nonneg b Hb r Hr 0 ltac:(lia)). nia.
Qed.

Lemma valfrom_lower b d r : 2 <= b -> in_range b (d :: r) -> d <> 0 -> b ^ Z.of_nat (length r) <= valfrom b 0 (d :: r).
Proof.
  intros Hb Hr Hd. inversion Hr as [|? ? Hd' Hr']; subst.
  rewrite valfrom_cons, valfrom_shift'. pose proof (valfrom_nonneg b Hb r Hr' 0 ltac:(lia)).
  assert (0 < b ^ Z.of_nat (length r)) by (apply Z.pow_pos_nonneg; lia). nia.
Qed.

(* 58^K < 256^m bounds K: log 256 / log 58 < 3/2, with room to spare from four bytes on *)
Lemma pow58_256_a (K m : nat) : 58 ^ Z.of_nat K < 256 ^ Z.of_nat m -> (2 * K + 1 <= 3 * m)%nat.
Proof.
  intros H. destruct (le_lt_dec (2 * K + 1) (3 * m)) as [L|L]; [exact L|exfalso].
  assert (E1 : 58 ^ Z.of_nat (3 * m) <= 58 ^ Z.of_nat (2 * K)) by (apply Z.pow_le_mono_r; lia).
  assert (E2 : 58 ^ Z.of_nat (2 * K) = 58 ^ Z.of_nat K * 58 ^ Z.of_nat K).
  { rewrite <- Z.pow_add_r by lia. f_equal. lia. }
  assert (E3 : 58 ^ Z.of_nat (3 * m) = (58 ^ 3) ^ Z.of_nat m).
  { rewrite <- Z.pow_mul_r by lia. f_equal. lia. }
  assert (E4 : 256 ^ Z.of_nat m * 256 ^ Z.of_nat m = (256 ^ 2) ^ Z.of_nat m).
  { rewrite <- Z.pow_add_r, <- Z.pow_mul_r by lia. f_equal. lia. }
  assert (E5 : (256 ^ 2) ^ Z.of_nat m <= (58 ^ 3) ^ Z.of_nat m) by (apply Z.pow_le_mono_l; lia).
  assert (P1 : 0 < 58 ^ Z.of_nat K) by (apply Z.pow_pos_nonneg; lia).
  assert (P2 : 0 < 256 ^ Z.of_nat m) by (apply Z.pow_pos_nonneg; lia).
  nia.
Qed.

Lemma pow58_256_b (K m : nat) : (4 <= m)%nat -> 58 ^ Z.of_nat K < 256 ^ Z.of_nat m -> (2 * K + 2 <= 3 * m)%nat.
Proof.
  intros Hm H. destruct (le_lt_dec (2 * K + 2) (3 * m)) as [L|L]; [exact L|exfalso].
  assert (E1 : 58 ^ Z.of_nat (3 * m - 1) <= 58 ^ Z.of_nat (2 * K)) by (apply Z.pow_le_mono_r; lia).
  assert (E2 : 58 ^ Z.of_nat (2 * K) = 58 ^ Z.of_nat K * 58 ^ Z.of_nat K).
  { rewrite <- Z.pow_add_r by lia. f_equal. lia. }
  assert (E3 : 58 ^ Z.of_nat (3 * m - 1) = 58 ^ 11 * (58 ^ 3) ^ Z.of_nat (m - 4)).
  { rewrite <- Z.pow_mul_r, <- Z.pow_add_r by lia. f_equal. lia. }
  assert (E4 : 256 ^ Z.of_nat m * 256 ^ Z.of_nat m = 256 ^ 8 * (256 ^ 2) ^ Z.of_nat (m - 4)).
  { rewrite <- Z.pow_mul_r, <- !Z.pow_add_r by lia. f_equal. lia. }
  assert (E5 : (256 ^ 2) ^ Z.of_nat (m - 4) <= (58 ^ 3) ^ Z.of_nat (m - 4)) by (apply Z.pow_le_mono_l; lia).
  assert (E6 : 256 ^ 8 <= 58 ^ 11) by (vm_compute; discriminate).
  assert (P1 : 0 < 58 ^ Z.of_nat K) by (apply Z.pow_pos_nonneg; lia).
  assert (P2 : 0 < 256 ^ Z.of_nat m) by (apply Z.pow_pos_nonneg; lia).
  assert (P3 : 0 < (256 ^ 2) ^ Z.of_nat (m - 4)) by (apply Z.pow_pos_nonneg; lia).
  assert (E7 : 256 ^ 8 * (256 ^ 2) ^ Z.of_nat (m - 4) <= 58 ^ 11 * (58 ^ 3) ^ Z.of_nat (m - 4)).
  { apply Z.mul_le_mono_nonneg; lia. }
  nia.
Qed.

(* n Base58 characters that decode to at least four bytes carry at least 2n/3 bytes *)
Lemma a2b_base58_length t data : btc_a2b_base58 t = Ret data -> (4 <= length data)%nat ->
  (2 * length t <= 3 * length data)%nat.
Proof.
  intros E H4. pose proof (a2b_base58_alphabet t data E) as Halpha.
  assert (Ha : ascii_str t) by (eapply Forall_impl; [|exact Halpha]; apply b58_char_ascii).
  unfold btc_a2b_base58 in E. rewrite a2b_as_conv, (utf8_of_ascii t Ha) in E.
  destruct (conv_shape _ _ _ _ _ _ codec58 codec256 _ _ E) as (ds1 & ds2 & R1 & L1 & R2 & Z2 & V & L2).
  rewrite alpha_base in *.
  unfold bytes_of in L1. rewrite map_length in L1. rewrite <- L1, L2, (strip_length ds1).
  pose proof (strip_range 58 ds1 R1) as Rs. rewrite (valfrom_strip 58 ds1) in V.
  pose proof (valfrom_upper 256 ds2 ltac:(lia) R2) as U.
  destruct (strip_head ds1) as [->|(d & r & Es & Hd)]; [cbn [length]; lia|].
  rewrite Es in *. pose proof (valfrom_lower 58 d r ltac:(lia) Rs Hd) as Lw.
  assert (P : 58 ^ Z.of_nat (length r) < 256 ^ Z.of_nat (length ds2)) by lia.
  pose proof (pow58_256_a _ _ P) as A. cbn [length].
  destruct (Z.to_nat (lz ds1)) as [|k] eqn:Ek; [|lia].
  assert (M : (4 <= length ds2)%nat) by lia.
  pose proof (pow58_256_b _ _ M P). lia.
Qed.

(* ---- C11's Base58Check pair as total functions on code-point strings (the `text` of C10 and C18) ------------- *)
Section B58CheckStr.
Variable H : bytes -> bytes.     (* the checksum hash: double SHA-256 for Bitcoin-like networks *)

(* pycoin.encoding.b58.b2a_hashed_base58 (it never raises: c11_b2a_hashed_total) *)
Definition c11_b2a_hashed (d : bytes) : pystr :=
  match btc_b2a_hashed_base58 H d with Ret t => t | _ => [] end.
(* parseable_str.parse_b58_double_sha256 *)
Definition c11_a2b_hashed (t : pystr) : option bytes := btc_parse_b58_double_sha256 H t.

Lemma c11_b2a_hashed_total d : btc_b2a_hashed_base58 H d = Ret (c11_b2a_hashed d) /\ ascii_str (c11_b2a_hashed d).
Proof.
  destruct (b58_decode_encode (d ++ firstn 4 (H d))) as (t & E & _).
  unfold c11_b2a_hashed, btc_b2a_hashed_base58, b2a_hashed_base58.
  unfold btc_b2a_base58 in E. rewrite E. split; [reflexivity|]. exact (b2a_base58_ascii _ _ E).
Qed.

(* what acceptance means *)
Lemma c11_a2b_hashed_inv t d : c11_a2b_hashed t = Some d ->
  exists data, btc_a2b_base58 t = Ret data /\ d = but_last4 data
               /\ firstn 4 (H d) = last4 data /\ data = d ++ firstn 4 (H d).
Proof.
  unfold c11_a2b_hashed, btc_parse_b58_double_sha256, parse_b58_double_sha256, parse_b58, btc_a2b_base58.
  destruct (a2b_base58 b58_alphabet t) as [data| |]; try discriminate.
  destruct data as [|c r]; [discriminate|]. set (data := c :: r).
  destruct (bytes_eqb _ _) eqn:Eb; [|discriminate]. intros E. injection E as <-.
  apply bytes_eqb_eq in Eb. exists data. repeat split; try assumption.
  rewrite Eb. unfold but_last4, last4. symmetry. apply firstn_skipn.
Qed.

(* Base58Check decoding accepts only the canonical string — no assumption on the hash function *)
Theorem c11_hashed_canonical : forall t d, c11_a2b_hashed t = Some d -> c11_b2a_hashed d = t.
Proof.
  intros t d E. destruct (c11_a2b_hashed_inv t d E) as (data & Ea & _ & _ & Ed).
  destruct (b58_encode_decode t (a2b_base58_alphabet _ _ Ea)) as (data' & Ea' & Eb).
  rewrite Ea in Ea'. injection Ea' as <-.
  unfold c11_b2a_hashed, btc_b2a_hashed_base58, b2a_hashed_base58. rewrite <- Ed.
  unfold btc_b2a_base58 in Eb. now rewrite Eb.
Qed.

Hypothesis H_len : forall x, (4 <= length (H x))%nat.

Theorem c11_hashed_roundtrip : forall d, c11_a2b_hashed (c11_b2a_hashed d) = Some d.
Proof.
  intros d. destruct (b58check_roundtrip H H_len d) as (t & E1 & _ & _ & E2).
  unfold c11_b2a_hashed, c11_a2b_hashed. now rewrite E1.
Qed.

Theorem c11_hashed_length : forall t d, c11_a2b_hashed t = Some d -> (2 * length t <= 3 * (length d + 4))%nat.
Proof.
  intros t d E. destruct (c11_a2b_hashed_inv t d E) as (data & Ea & _ & _ & Ed).
  assert (L : length data = (length d + 4)%nat).
  { rewrite Ed at 1. rewrite app_length, firstn_length. specialize (H_len d). lia. }
  pose proof (a2b_base58_length _ _ Ea ltac:(lia)) as B. lia.
Qed.
End B58CheckStr.

(* ---- the composed Base58Check codec on byte-string texts (the text of C08 and C09) ---------------------------- *)
Section B58Check.
Variable H : bytes -> bytes.

(* b2a_hashed_base58, then str.encode("utf8") *)
Definition cc_b58check_encode (d : bytes) : bytes := bytes_of (c11_b2a_hashed H d).
(* parse_b58_double_sha256 of the text *)
Definition cc_b58check_decode (s : bytes) : option bytes := c11_a2b_hashed H (str_of s).

(* the encoder's output is the UTF-8 encoding of C11's output *)
Lemma cc_b58check_encode_faithful d :
  exists t, btc_b2a_hashed_base58 H d = Ret t /\ utf8_encode t = Ret (cc_b58check_encode d).
Proof.
  destruct (c11_b2a_hashed_total H d) as [E Ha]. exists (c11_b2a_hashed H d). split; [exact E|].
  now apply utf8_of_ascii.
Qed.

(* the decoder, applied to the UTF-8 bytes of ANY str, returns what C11's model returns on that str *)
Lemma cc_b58check_decode_faithful t s : utf8_encode t = Ret s ->
  cc_b58check_decode s = btc_parse_b58_double_sha256 H t.
Proof.
  intros E. unfold cc_b58check_decode, c11_a2b_hashed.
  destruct (utf8_encode_split t s E) as [[Ha ->]|[(c & Hc1 & Hc2) (x & Hx1 & Hx2)]].
  - now rewrite (str_of_bytes_of t (ascii_lt256 t Ha)).
  - assert (N1 : ~ Forall b58_char t).
    { intros F. pose proof (b58_char_ascii c (proj1 (Forall_forall _ _) F c Hc1)). lia. }
    assert (N2 : ~ Forall b58_char (str_of s)).
    { intros F. assert (Hin : In (b2n x) (str_of s)) by (apply in_map; exact Hx1).
      pose proof (b58_char_ascii _ (proj1 (Forall_forall _ _) F _ Hin)). lia. }
    unfold btc_parse_b58_double_sha256, parse_b58_double_sha256, parse_b58.
    pose proof (b58_rejects_non_alphabet t N1) as R1. pose proof (b58_rejects_non_alphabet _ N2) as R2.
    unfold btc_a2b_base58 in R1, R2. now rewrite R1, R2.
Qed.

(* B2: Base58Check decoding accepts only the canonical string — no assumption on the hash function *)
Theorem cc_b58_encode_decode : forall s d, cc_b58check_decode s = Some d -> cc_b58check_encode d = s.
Proof.
  intros s d E. unfold cc_b58check_encode. rewrite (c11_hashed_canonical H _ _ E). apply bytes_of_str_of.
Qed.

Hypothesis H_len : forall x, (4 <= length (H x))%nat.

(* B1 *)
Theorem cc_b58_decode_encode : forall d, cc_b58check_decode (cc_b58check_encode d) = Some d.
Proof.
  intros d. unfold cc_b58check_encode, cc_b58check_decode.
  rewrite (str_of_bytes_of _ (ascii_lt256 _ (proj2 (c11_b2a_hashed_total H d)))).
  now apply c11_hashed_roundtrip.
Qed.

(* B3 *)
Theorem cc_b58_length : forall s d, cc_b58check_decode s = Some d -> (2 * length s <= 3 * (length d + 4))%nat.
Proof.
  intros s d E. pose proof (c11_hashed_length H H_len _ _ E) as B. now rewrite str_of_length in B.
Qed.

(* injectivity of the encoder (consequence of B1) *)
Lemma cc_b58check_encode_inj d d' : cc_b58check_encode d = cc_b58check_encode d' -> d = d'.
Proof.
  intros E. pose proof (cc_b58_decode_encode d) as A. rewrite E, cc_b58_decode_encode in A. now injection A.
Qed.
End B58Check.
