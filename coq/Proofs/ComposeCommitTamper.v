(* Proofs/ComposeCommitTamper.v — composition C06 x C01 (x C04): the ECDSA residue of C06_tamper_fails_partial
   ("the same signature verifies under two different digests") discharged with C01_verify_iff and the
   characterisation of Proofs/ComposeCommitEcdsa.v.
   The signature check is pycoin's Generator.verify (Model/Ecdsa.v) over C01's abstract group; the hash value is the
   digest read big-endian (from_bytes_32), as _signature_hash / _signature_for_hash_type_segwit return it. *)
From Coq Require Import ZArith List NArith Znumtheory Lia.
From PV Require Import Base.Bytes Base.Outcome Gen.GenCommitC06 Model.Commit Proofs.CommitP.
From PV Require Import Spec.EcdsaSpec Proofs.ComposeCommitEcdsa Proofs.ComposeCommitBridge Proofs.ComposeCommitCore.
From PV Require Model.Ecdsa Props.C01 Props.C06.
Import ListNotations.

(* from_bytes_32 as a Z *)
Definition z_of (d : bytes) : Z := Z.of_N (be_decode d).

Lemma be_decode_inj a b : length a = length b -> be_decode a = be_decode b -> a = b.
Proof. intros L E. rewrite <- (be_encode_decode a), <- (be_encode_decode b), L, E. reflexivity. Qed.

Lemma z_of_inj a b : length a = length b -> z_of a = z_of b -> a = b.
Proof. intros L E. apply be_decode_inj; [exact L|]. now apply N2Z.inj. Qed.

Section Tamper.
  Variable pt : Type.
  Variable add : pt -> pt -> pt.
  Variable neg : pt -> pt.
  Variable O : pt.
  Variable smul : Z -> pt -> pt.
  Variable G : pt.
  Variable n : Z.
  Variable coords : pt -> option (Z * Z).
  Hypothesis laws : group_laws pt add neg O smul n coords.
  Hypothesis n_prime : prime n.
  Hypothesis G_nonzero : G <> O.

  Variable dsha256 : bytes -> bytes.
  Hypothesis dsha256_len : forall x, length (dsha256 x) = 32%nat.

  Local Notation verify := (PV.Model.Ecdsa.verify pt add smul G n coords).
  Local Notation V := (vpoint pt add smul G).
  Local Open Scope Z_scope.

  (* the two ways ECDSA itself can accept one signature for two DIFFERENT 32-byte digests *)
  Definition same_residue (z z' : Z) : Prop := z <> z' /\ z mod n = z' mod n.
  Definition twin_points (Q : pt) (r s z z' : Z) : Prop :=
    z mod n <> z' mod n /\
    exists w x y x' y', inv_mod_n n s w /\
      coords (V Q r w z) = Some (x, y) /\ coords (V Q r w z') = Some (x', y') /\
      V Q r w z <> V Q r w z' /\ x mod n = r /\ x' mod n = r.

  Lemma digest_length f : length (digest_of dsha256 f) = 32%nat.
  Proof. destruct f; cbn [digest_of]; [apply be_encode_length|apply dsha256_len|apply dsha256_len]. Qed.

  (* the residue, on its own: two different 32-byte digests accepted by verify for one (key, signature) *)
  Theorem two_digests_one_signature : forall (Q : pt) (r s : Z) (d d' : bytes),
    length d = 32%nat -> length d' = 32%nat -> d <> d' ->
    verify (Some Q) (z_of d) r s = Ret true -> verify (Some Q) (z_of d') r s = Ret true ->
    z_of d <> 0 /\ z_of d' <> 0 /\ 1 <= r < n /\ 1 <= s < n /\
    (same_residue (z_of d) (z_of d') \/ twin_points Q r s (z_of d) (z_of d')).
  Proof.
    intros Q r s d d' L L' Hne Hv Hv'.
    apply (PV.Props.C01.C01_verify_iff pt add neg O smul G n coords laws n_prime) in Hv, Hv'.
    destruct Hv as [Hz Hval], Hv' as [Hz' Hval'].
    assert (Hzz : z_of d <> z_of d') by (intros E; apply Hne, z_of_inj; congruence).
    split; [exact Hz|]. split; [exact Hz'|].
    split; [exact (proj1 Hval)|]. split; [exact (proj1 (proj2 Hval))|].
    destruct (double_valid_cases pt add neg O smul G n coords laws n_prime G_nonzero Q _ _ r s Hval Hval') as [E|T].
    - left. split; assumption.
    - right. exact T.
  Qed.

  (* ... and every such pair really is accepted (the disjuncts are not an artefact of the proof): *)
  Theorem same_residue_accepted : forall (Q : pt) (r s z z' : Z),
    z <> 0 -> z' <> 0 -> z mod n = z' mod n ->
    verify (Some Q) z r s = verify (Some Q) z' r s.
  Proof.
    intros Q r s z z' Hz Hz' E.
    destruct (PV.Props.C01.C01_verify_total pt add smul G n coords n_prime Q z r s) as [b Hb].
    destruct (PV.Props.C01.C01_verify_total pt add smul G n coords n_prime Q z' r s) as [b' Hb'].
    rewrite Hb, Hb'. f_equal.
    pose proof (PV.Props.C01.C01_verify_iff pt add neg O smul G n coords laws n_prime Q z r s) as I.
    pose proof (PV.Props.C01.C01_verify_iff pt add neg O smul G n coords laws n_prime Q z' r s) as I'.
    pose proof (same_residue_same_validity pt add neg O smul G n coords laws n_prime Q z z' r s E) as S.
    rewrite Hb in I. rewrite Hb' in I'.
    destruct b, b'; try reflexivity; exfalso.
    - assert (X : Ret true = Ret true) by reflexivity. apply I in X. destruct X as [_ X]. apply S in X.
      assert (Y : Ret false = Ret true) by (apply I'; auto). discriminate.
    - assert (X : Ret true = Ret true) by reflexivity. apply I' in X. destruct X as [_ X]. apply S in X.
      assert (Y : Ret false = Ret true) by (apply I; auto). discriminate.
  Qed.

  (* ---- pycoin level: C06_tamper_fails_partial with its last disjunct resolved ------------------------------------ *)
  Theorem tamper_fails_ecdsa : forall (sv : sigversion) (ht : N) (idx : nat) (c c' : sctx) (f f' : fed)
      (Q : pt) (r s : Z) (fl : field),
    wf_ctx c -> wf_ctx c' -> in_range idx c -> in_range idx c' ->
    fed_of sv ht idx c = Ret f -> fed_of sv ht idx c' = Ret f' ->
    committed sv ht idx (has_output idx c) fl = true -> get idx fl c <> get idx fl c' ->
    verify (Some Q) (z_of (digest_of dsha256 f)) r s = Ret true ->
    verify (Some Q) (z_of (digest_of dsha256 f')) r s = Ret true ->
    hash_anomaly dsha256 f f'
    \/ same_residue (z_of (digest_of dsha256 f)) (z_of (digest_of dsha256 f'))
    \/ twin_points Q r s (z_of (digest_of dsha256 f)) (z_of (digest_of dsha256 f')).
  Proof.
    intros sv ht idx c c' f f' Q r s fl W W' L L' F F' Hc Hne Hv Hv'.
    (* the signature check as C06's abstract `verify key digest signature` *)
    pose (vf := fun (k : pt) (d : bytes) (sg : Z * Z) =>
                  match verify (Some k) (z_of d) (fst sg) (snd sg) with Ret true => true | _ => false end).
    assert (B : vf Q (digest_of dsha256 f) (r, s) = true) by (unfold vf; cbn [fst snd]; now rewrite Hv).
    assert (B' : vf Q (digest_of dsha256 f') (r, s) = true) by (unfold vf; cbn [fst snd]; now rewrite Hv').
    destruct (PV.Props.C06.C06_tamper_fails_partial dsha256 dsha256_len pt (Z * Z)%type vf sv ht idx c c' f f' Q (r, s) fl
                W W' L L' F F' Hc Hne B B') as [A|(Dne & _ & _)].
    - left. exact A.
    - right.
      destruct (two_digests_one_signature Q r s _ _ (digest_length f) (digest_length f') Dne Hv Hv')
        as (_ & _ & _ & _ & D). exact D.
  Qed.

  (* ---- Core level: the same over Bitcoin Core's digest definition (C04) ---------------------------------------------- *)
  Theorem tamper_fails_core : forall (sv : sigversion) (ht : N) (idx : nat) (c c' : sctx)
      (Q : pt) (r s : Z) (fl : field),
    core_wf ht idx c -> core_wf ht idx c' ->
    committed sv ht idx (has_output idx c) fl = true ->
    get idx fl (commit_ctx sv c) <> get idx fl (commit_ctx sv c') ->
    verify (Some Q) (z_of (core_sighash_digest dsha256 sv ht idx c)) r s = Ret true ->
    verify (Some Q) (z_of (core_sighash_digest dsha256 sv ht idx c')) r s = Ret true ->
    exists f f', fed_of sv ht idx (commit_ctx sv c) = Ret f /\ fed_of sv ht idx (commit_ctx sv c') = Ret f'
      /\ digest_of dsha256 f = core_sighash_digest dsha256 sv ht idx c
      /\ digest_of dsha256 f' = core_sighash_digest dsha256 sv ht idx c'
      /\ (hash_anomaly dsha256 f f'
          \/ same_residue (z_of (core_sighash_digest dsha256 sv ht idx c)) (z_of (core_sighash_digest dsha256 sv ht idx c'))
          \/ twin_points Q r s (z_of (core_sighash_digest dsha256 sv ht idx c))
                               (z_of (core_sighash_digest dsha256 sv ht idx c'))).
  Proof.
    intros sv ht idx c c' Q r s fl W W' Hc Hne Hv Hv'.
    destruct (fed_digest_is_core dsha256 sv ht idx c W) as (f & F & D & _).
    destruct (fed_digest_is_core dsha256 sv ht idx c' W') as (f' & F' & D' & _).
    exists f, f'. repeat (split; [assumption|]).
    rewrite <- D, <- D' in *.
    apply (tamper_fails_ecdsa sv ht idx (commit_ctx sv c) (commit_ctx sv c') f f' Q r s fl); auto.
    - exact (wf_ctx_of_core ht idx c W).
    - exact (wf_ctx_of_core ht idx c' W').
    - exact (cw_idx _ _ _ W).
    - exact (cw_idx _ _ _ W').
  Qed.
End Tamper.
