(* Proofs/AgreeSpendPush.v — C03 spend-level agreement: the push-only tests.
   pycoin's _check_script_push_only walks get_opcodes (not looking at is_ok) and rejects opcodes outside
   data_opcodes, which lacks OP_RESERVED (0x50); Core's IsPushOnly stops at an undecodable instruction and accepts
   every opcode <= OP_16.  The two tests can differ, but only on scripts whose evaluation fails anyway (an
   undecodable instruction, or an executed OP_RESERVED: a script Core calls push-only has no conditional). *)
From Coq Require Import Lia ZifyBool ZifyNat ZifyN.
From PV Require Import Base.Bytes Base.Outcome Gen.GenOpcodes Gen.GenFlags.
From PV Require Import Model.ScriptNum Model.Push Model.CondStack Spec.VMTypes Model.VMpy Spec.VMcore Proofs.VMpyP.
From PV Require Import Proofs.AgreeBase Proofs.AgreePush.
Local Open Scope N_scope.

Lemma data_opcode_test ob :
  existsb (N.eqb (b2n ob)) data_opcodes = (b2n ob <=? 96) && negb (b2n ob =? 80).
Proof. destruct ob; vm_compute; reflexivity. Qed.

(* evaluation from here fails on Core's side whenever all enclosing branches execute *)
Definition core_fails (rest : bytes) : Prop :=
  forall o flags sv ctx fuel c, e_vf c = [] -> (length rest <= fuel)%nat ->
  exists e, eval_loop o flags sv ctx fuel rest c = CErr e.

Lemma step_small o flags sv ctx op d rest' c : b2n op <= 96 -> e_vf c = [] ->
  (forall r, get_op (op :: r) = Some (op, d, rest') -> True) ->
  match VMcore.step o flags sv ctx op d rest' c with
  | COk c' => e_vf c' = [] /\ op <> x50
  | CErr _ => True
  | CFuel => False
  end.
Proof.
  intros Hn Hv _. unfold VMcore.step. rewrite Hv. cbn [forallb].
  destruct (MAX_SCRIPT_ELEMENT_SIZE <? len d); [exact I|].
  replace (96 <? b2n op) with false by lia. cbn [andb]. rewrite not_disabled_small by lia.
  destruct (b2n op <=? 78) eqn:E78; cbn [andb orb].
  - destruct (flag_set flags VERIFY_MINIMALDATA && _); cbn [cbind]; [exact I|].
    destruct (MAX_STACK_ITEMS <? _); [exact I|]. cbn. split; [exact Hv|]. intros ->. vm_compute in E78. discriminate.
  - destruct (N.eqb_spec (b2n op) 80) as [E80|N80].
    + assert (op = x50) by (apply b2n_inj; exact E80). subst op. cbn [exec_op cbind]. exact I.
    + destruct (const_exec o flags sv ctx op ltac:(lia)) as [_ Hx]. rewrite Hx. cbn [cbind].
      destruct (MAX_STACK_ITEMS <? _); [exact I|]. cbn. split; [exact Hv|]. intros ->. apply N80. reflexivity.
Qed.

Section Walk.
Variable script : bytes.

Lemma po_main : forall fuel pc, (length script - pc <= fuel)%nat ->
  let rest := skipn pc script in
  let w := push_only_walk fuel script pc in
  (w = VOk tt /\ is_push_only_f fuel rest = true) \/
  (w = VFail /\ is_push_only_f fuel rest = false) \/
  ((w = VOk tt \/ w = VFail) /\ core_fails rest).
Proof.
  induction fuel as [|f IH]; intros pc Hf; cbv zeta.
  - assert (Hn : skipn pc script = []) by (apply skipn_nil_iff; lia). rewrite Hn. cbn [push_only_walk].
    replace (length script <=? pc)%nat with true by lia. left. split; reflexivity.
  - destruct (skipn pc script) as [|ob r] eqn:Hs.
    { apply skipn_nil_iff in Hs. cbn [push_only_walk]. replace (length script <=? pc)%nat with true by lia.
      left. split; reflexivity. }
    assert (Hlt : (pc < length script)%nat).
    { destruct (Nat.ltb_spec pc (length script)); [assumption|].
      assert (skipn pc script = []) by (apply skipn_nil_iff; lia). congruence. }
    cbn [push_only_walk]. replace (length script <=? pc)%nat with false by lia.
    pose proof (decode_agree script false pc ob r Hs) as D. cbv zeta in D.
    cbn [is_push_only_f].
    destruct (get_op (ob :: r)) as [[[op d] rest']|] eqn:G.
    + destruct D as (-> & D).
      assert (Hpc : exists dat pc', btc_get_opcode script pc false = Ret (b2n ob, dat, pc', true)
                                    /\ rest' = skipn pc' script).
      { destruct (b2n ob <=? 78).
        - cbn [andb] in D. destruct D as (pc' & E & Hr). eauto.
        - destruct D as (_ & Hr1 & E & Hr2). exists (const_of (b2n ob)), (S pc). split; [exact E|]. congruence. }
      destruct Hpc as (dat & pc' & E & Hr). rewrite E. cbn [lift vbind]. rewrite data_opcode_test.
      pose proof (get_opcode_advances _ _ _ _ _ _ _ E) as Hadv.
      destruct (N.ltb_spec 96 (b2n ob)) as [H96|H96].
      { replace (b2n ob <=? 96) with false by lia. cbn [andb]. right. left. split; reflexivity. }
      replace (b2n ob <=? 96) with true by lia. cbn [andb].
      specialize (IH pc' ltac:(lia)). cbv zeta in IH. rewrite <- Hr in IH.
      assert (Hstep : core_fails rest' -> core_fails (ob :: r)).
      { intros Hc o flags sv ctx fuel c Hv Hl. destruct fuel as [|n]; [cbn in Hl; lia|].
        cbn [eval_loop]. rewrite G.
        pose proof (step_small o flags sv ctx ob d rest' c H96 Hv (fun _ _ => I)) as S.
        destruct (VMcore.step o flags sv ctx ob d rest' c) as [c'|e|]; cbn [cbind]; [|eauto|contradiction].
        apply Hc; [tauto|]. pose proof (get_op_shrinks _ _ _ _ G). cbn [length] in *. lia. }
      destruct (N.eqb_spec (b2n ob) 80) as [E80|N80]; cbn [negb].
      * (* OP_RESERVED *)
        destruct (is_push_only_f f rest') eqn:Ep; [|right; left; split; reflexivity].
        right. right. split; [right; reflexivity|].
        intros o flags sv ctx fuel c Hv Hl. destruct fuel as [|n]; [cbn in Hl; lia|].
        cbn [eval_loop]. rewrite G.
        pose proof (step_small o flags sv ctx ob d rest' c H96 Hv (fun _ _ => I)) as S.
        assert (ob = x50) by (apply b2n_inj; exact E80).
        destruct (VMcore.step o flags sv ctx ob d rest' c) as [c'|e|]; cbn [cbind]; [tauto|eauto|contradiction].
      * destruct IH as [[A B]|[[A B]|[A B]]].
        -- left. split; assumption.
        -- right. left. split; assumption.
        -- right. right. split; [exact A|apply Hstep; exact B].
    + (* undecodable instruction *)
      destruct D as (Hn & pc' & E). rewrite E. cbn [lift vbind]. rewrite data_opcode_test.
      replace (b2n ob <=? 96) with true by lia. replace (b2n ob =? 80) with false by lia. cbn [andb negb].
      pose proof (get_opcode_advances _ _ _ _ _ _ _ E) as Hadv.
      specialize (IH pc' ltac:(lia)). cbv zeta in IH.
      right. right. split.
      * destruct IH as [[A _]|[[A _]|[A _]]]; auto.
      * intros o flags sv ctx fuel c Hv Hl. destruct fuel as [|n]; [cbn in Hl; lia|].
        cbn [eval_loop]. rewrite G. eauto.
Qed.
End Walk.

(* the three possibilities for a whole script *)
Lemma po_cases s :
  (check_script_push_only s = VOk tt /\ is_push_only s = true) \/
  (check_script_push_only s = VFail /\ is_push_only s = false) \/
  ((check_script_push_only s = VOk tt \/ check_script_push_only s = VFail) /\
   forall o flags sv ctx st, exists e, eval_script_e o flags sv ctx s st = CErr e).
Proof.
  pose proof (po_main s (length s) 0 ltac:(lia)) as H. cbv zeta in H. change (skipn 0 s) with s in H.
  unfold check_script_push_only, is_push_only.
  destruct H as [H|[H|[A B]]]; [left; exact H|right; left; exact H|].
  right. right. split; [exact A|]. intros o flags sv ctx st. unfold eval_script_e.
  destruct (MAX_SCRIPT_SIZE <? len s); [eauto|].
  destruct (B o flags sv ctx (length s)
              {| e_stack := st; e_alt := []; e_vf := []; e_opc := 0; e_bch := s |} eq_refl (le_n _)) as [e He].
  rewrite He. cbn [cbind]. eauto.
Qed.
