(* Proofs/FermatC10.v — Fermat's little theorem on Z from Znumtheory.prime (premise M3 of DESIGN.md
   section 3 derived from M1), by the classical argument: multiplication by a permutes 1..p-1 mod p.
   Pure stdlib, no axioms.  Nothing here computes: the lists exist in proofs only. *)
From Coq Require Import ZArith Znumtheory List Permutation FinFun Lia.
Import ListNotations.
Local Open Scope Z_scope.

Definition zprod (l : list Z) : Z := fold_right Z.mul 1 l.

Lemma zprod_perm l l' : Permutation l l' -> zprod l = zprod l'.
Proof.
  induction 1; cbn [zprod fold_right] in *.
  - reflexivity.
  - fold (zprod l) (zprod l') in *. rewrite IHPermutation. reflexivity.
  - ring.
  - congruence.
Qed.

Lemma zprod_map_mulmod a p l : p <> 0 ->
  zprod (map (fun i => (a * i) mod p) l) mod p = (a ^ Z.of_nat (length l) * zprod l) mod p.
Proof.
  intros Hp. induction l as [|x l IH]; cbn [map zprod fold_right length].
  - rewrite Z.pow_0_r. reflexivity.
  - fold (zprod (map (fun i => (a * i) mod p) l)) (zprod l).
    rewrite Z.mul_mod_idemp_l by assumption.
    rewrite Z.mul_mod, IH, <- Z.mul_mod by assumption.
    rewrite Nat2Z.inj_succ, Z.pow_succ_r by lia. f_equal. ring.
Qed.

Definition zrange (p : Z) : list Z := map Z.of_nat (seq 1 (Z.to_nat (p - 1))).

Lemma zrange_in p x : 1 < p -> (In x (zrange p) <-> 1 <= x < p).
Proof.
  intros Hp. unfold zrange. rewrite in_map_iff. split.
  - intros (n & <- & Hn). apply in_seq in Hn. lia.
  - intros Hx. exists (Z.to_nat x). split; [lia|]. apply in_seq. lia.
Qed.

Lemma zrange_nodup p : NoDup (zrange p).
Proof.
  unfold zrange. apply Injective_map_NoDup; [|apply seq_NoDup].
  intros x y H. lia.
Qed.

Lemma zrange_length p : Z.of_nat (length (zrange p)) = Z.max 0 (p - 1).
Proof. unfold zrange. rewrite map_length, seq_length. lia. Qed.

Lemma nodup_map_inj_on {A B} (f : A -> B) l :
  (forall x y, In x l -> In y l -> f x = f y -> x = y) -> NoDup l -> NoDup (map f l).
Proof.
  intros Hinj Hnd. induction Hnd as [|x l Hx Hnd IH]; cbn [map]; constructor.
  - intros Hin. apply in_map_iff in Hin. destruct Hin as (y & Hy & Hyl).
    assert (y = x) by (apply Hinj; [right; assumption|left; reflexivity|assumption]).
    subst y. contradiction.
  - apply IH. intros a b Ha Hb. apply Hinj; right; assumption.
Qed.

Lemma not_divide_small p x : 0 < x < p -> ~ (p | x).
Proof. intros Hx Hd. apply Z.divide_pos_le in Hd; lia. Qed.

Lemma divide_small_diff p d : 0 < p -> - p < d < p -> (p | d) -> d = 0.
Proof.
  intros Hp Hd [k Hk].
  destruct (Z_lt_le_dec k 0) as [Hn|Hn].
  - assert (k * p <= (-1) * p) by (apply Z.mul_le_mono_nonneg_r; lia). lia.
  - destruct (Z.eq_dec k 0) as [->|Hk0]; [lia|].
    assert (1 * p <= k * p) by (apply Z.mul_le_mono_nonneg_r; lia). lia.
Qed.

Lemma zprod_rel_prime p l : prime p -> (forall x, In x l -> 0 < x < p) -> rel_prime p (zprod l).
Proof.
  intros Hp Hl. induction l as [|x l IH]; cbn [zprod fold_right].
  - apply rel_prime_sym, rel_prime_1.
  - fold (zprod l). apply rel_prime_mult.
    + apply prime_rel_prime; [assumption|]. apply not_divide_small. apply Hl. left; reflexivity.
    + apply IH. intros y Hy. apply Hl. right; assumption.
Qed.

Theorem fermat_little p a : prime p -> 0 < a < p -> (a ^ (p - 1)) mod p = 1.
Proof.
  intros Hprime Ha.
  assert (Hp1 : 1 < p) by (destruct Hprime; assumption).
  assert (Hp0 : p <> 0) by lia.
  set (f := fun i => (a * i) mod p).
  set (L := map f (zrange p)).
  (* the image stays in 1..p-1 *)
  assert (Hincl : incl L (zrange p)).
  { intros y Hy. unfold L in Hy. apply in_map_iff in Hy. destruct Hy as (i & <- & Hi).
    apply (zrange_in p i Hp1) in Hi. apply (zrange_in p _ Hp1).
    pose proof (Z.mod_pos_bound (a * i) p ltac:(lia)) as Hb. unfold f.
    assert ((a * i) mod p <> 0); [|lia].
    intros H0. apply Z.mod_divide in H0; [|assumption].
    apply prime_mult in H0; [|assumption].
    destruct H0 as [H0|H0]; revert H0; apply not_divide_small; lia. }
  (* multiplication by a is injective on 1..p-1 modulo p *)
  assert (Hnd : NoDup L).
  { unfold L. apply nodup_map_inj_on; [|apply zrange_nodup].
    intros i j Hi Hj Hij. apply (zrange_in p i Hp1) in Hi. apply (zrange_in p j Hp1) in Hj.
    unfold f in Hij.
    assert (Hd : (p | a * (i - j))).
    { replace (a * (i - j)) with (a * i - a * j) by ring.
      exists ((a * i) / p - (a * j) / p).
      pose proof (Z.div_mod (a * i) p Hp0). pose proof (Z.div_mod (a * j) p Hp0). nia. }
    apply prime_mult in Hd; [|assumption]. destruct Hd as [Hd|Hd].
    - exfalso. revert Hd. apply not_divide_small. lia.
    - apply divide_small_diff in Hd; lia. }
  assert (Hperm : Permutation L (zrange p)).
  { apply NoDup_Permutation_bis; [assumption| |assumption].
    unfold L. rewrite map_length. lia. }
  pose proof (zprod_perm _ _ Hperm) as Hprod.
  pose proof (zprod_map_mulmod a p (zrange p) Hp0) as Hmul. fold f in Hmul. fold L in Hmul.
  rewrite Hprod, zrange_length in Hmul. rewrite Z.max_r in Hmul by lia.
  set (F := zprod (zrange p)) in *.
  assert (HF : rel_prime p F).
  { apply zprod_rel_prime; [assumption|]. intros x Hx. apply (zrange_in p x Hp1) in Hx. lia. }
  assert (Hdiv : (p | F * (a ^ (p - 1) - 1))).
  { replace (F * (a ^ (p - 1) - 1)) with (a ^ (p - 1) * F - F) by ring.
    exists ((a ^ (p - 1) * F) / p - F / p).
    pose proof (Z.div_mod (a ^ (p - 1) * F) p Hp0). pose proof (Z.div_mod F p Hp0). nia. }
  apply Gauss in Hdiv; [|assumption].
  destruct Hdiv as [k Hk].
  replace (a ^ (p - 1)) with (1 + k * p) by lia.
  rewrite Z_mod_plus_full. apply Z.mod_small. lia.
Qed.
