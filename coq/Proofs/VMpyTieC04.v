(* Proofs/VMpyTieC04.v — the script code the VM model hands to the signature oracle is the script that the
   C04 model (Model/Sighash.v: sighash_f_script, the script part of _make_sighash_f) computes.  Kept apart from
   Proofs/VMpyP.v so that the VM lemmas do not depend on the C04 development.
   Both models follow /repo commit 2ba5b6d: _delete_signature removes the PLAIN push of each blob
   (VMpy.plain_push and Sighash.plain_push are the same definition); everything below holds by conversion. *)
From PV Require Import Base.Bytes Base.Outcome Model.Push Spec.VMTypes Model.VMpy.
From PV Require Model.Sighash.

Lemma plain_push_eq b : VMpy.plain_push b = Sighash.plain_push b.
Proof. reflexivity. Qed.

(* the two transcriptions of the get_opcodes walk are the same fixpoint up to unfolding `bind` *)
Lemma delete_walk_eq fuel script sub pc :
  VMpy.delete_walk fuel script sub pc = Sighash.delete_walk fuel script sub pc.
Proof. reflexivity. Qed.

Lemma delete_signature_eq script b : VMpy.delete_signature script b = Sighash.delete_signature script b.
Proof. reflexivity. Qed.

Lemma delete_signatures_eq blobs script :
  VMpy.delete_signatures script blobs = Sighash.delete_signatures script blobs.
Proof. reflexivity. Qed.

Theorem script_code_base_is_sighash_f_script script s blobs :
  script_code_for SV_BASE script s blobs = Sighash.sighash_f_script script (st_bch s) blobs.
Proof. reflexivity. Qed.
