(* Proofs/RipemdP.v — the model of pycoin/contrib/ripemd160.py (Model/Ripemd.v, unbounded integers, tables from
   Gen/GenRipemd.v) computes RIPEMD-160 as specified in Spec/RipemdSpec.v.

   Structure:
     0. the generated tables/constants are the standard's            (reflexivity: depends on Gen)
     1. the table look-ups of the 80 rounds resolve to the standard's parameters   (one vm_compute)
     2. one round, then any list of rounds, preserves  "model word = spec word (mod 2^32)"
        for arbitrary integer model words (induction over the list of rounds, tables abstract)
     3. compress, the block loops, the padding, the whole function *)
From PV Require Import Base.Bytes Base.Outcome Gen.GenRipemd Spec.RipemdSpec Model.Ripemd Proofs.WordsC19.
From Coq Require Import ZifyBool ZifyNat.
Local Open Scope Z_scope.

Module S := PV.Spec.RipemdSpec.
Module M := PV.Model.Ripemd.

(* ---- 0. tables ------------------------------------------------------------------------------------- *)
Lemma gen_shape_ok : gen_c19_shape_ok = true.
Proof. reflexivity. Qed.

Record tables_standard_stmt : Prop := {
  ts_ML : gen_ML = map Z.of_nat S.r;
  ts_MR : gen_MR = map Z.of_nat S.r';
  ts_RL : gen_RL = S.s;
  ts_RR : gen_RR = S.s';
  ts_KL : gen_KL = map S.K [0; 16; 32; 48; 64]%nat;
  ts_KR : gen_KR = map S.K' [0; 16; 32; 48; 64]%nat;
  ts_IV : gen_init = S.IV;
  ts_shape : gen_c19_shape_ok = true
}.
Lemma tables_standard : tables_standard_stmt.
Proof. split; reflexivity. Qed.

(* every integer literal of the four modelled functions, in source order, is the one transcribed in the model *)
Record literals_stmt : Prop := {
  li_fi : gen_fi_ints = [0; 1; 2; 3; 4];
  li_rol : gen_rol_ints = [0xFFFFFFFF; 32; 0xFFFFFFFF];
  li_compress : gen_compress_ints = [4; 4; 1; 0; 16; 80; 4; 10; 4; 10];
  li_ripemd160 : gen_ripemd160_ints =
    [0x67452301; 0xEFCDAB89; 0x98BADCFE; 0x10325476; 0xC3D2E1F0; 6; 64; 64; 1; 119; 63; 63; 8; 6; 64; 64; 1; 0xFFFFFFFF]
}.
Lemma literals_as_modelled : literals_stmt.
Proof. split; reflexivity. Qed.

(* ---- generic helpers -------------------------------------------------------------------------------- *)
Lemma py_index_ok {A} (l : list A) (i : Z) (d : A) :
  0 <= i < Z.of_nat (length l) -> py_index l i = Ret (nth (Z.to_nat i) l d).
Proof.
  intros H. unfold py_index.
  destruct (i <? 0) eqn:E; [lia|].
  destruct ((0 <=? i) && (i <? Z.of_nat (length l))) eqn:E2; [|lia].
  rewrite (nth_error_nth' l d) by lia. reflexivity.
Qed.

Lemma skipn_add {A} (a b : nat) (l : list A) : skipn a (skipn b l) = skipn (b + a) l.
Proof.
  revert l; induction b as [|b IH]; intros l; [reflexivity|].
  destruct l as [|x l]; [now rewrite !skipn_nil|]. cbn [skipn Nat.add]. apply IH.
Qed.

Lemma fold_left_ext_in {A B} (f g : A -> B -> A) (l : list B) (a : A) :
  (forall x y, In y l -> f x y = g x y) -> fold_left f l a = fold_left g l a.
Proof.
  revert a; induction l as [|y l IH]; intros a H; [reflexivity|].
  cbn [fold_left]. rewrite H by now left. apply IH. intros; apply H; now right.
Qed.

Lemma fold_left_map {A B C} (f : A -> C -> A) (g : B -> C) (l : list B) (a : A) :
  fold_left f (map g l) a = fold_left (fun x y => f x (g y)) l a.
Proof. revert a; induction l as [|y l IH]; intros a; [reflexivity|]. cbn. apply IH. Qed.

(* ---- 1. resolved round parameters -------------------------------------------------------------------- *)
Record rparams := mkP { p_fl : Z; p_ml : Z; p_kl : Z; p_rl : Z; p_fr : Z; p_mr : Z; p_kr : Z; p_rr : Z }.

(* the table look-ups of round j, in isolation *)
Definition model_params (j : Z) : outcome rparams :=
  let rnd := Z.shiftr j 4 in
  bind (py_index gen_ML j) (fun ml => bind (py_index gen_KL rnd) (fun kl => bind (py_index gen_RL j) (fun rl =>
  bind (py_index gen_MR j) (fun mr => bind (py_index gen_KR rnd) (fun kr => bind (py_index gen_RR j) (fun rr =>
  Ret (mkP rnd ml kl rl (4 - rnd) mr kr rr))))))).

(* a round with its look-ups already done *)
Definition round_p (x : list Z) (p : rparams) (s : st10) : outcome st10 :=
  let '(al, bl, cl, dl, el, ar, br, cr, dr, er) := s in
  bind (fi bl cl dl (p_fl p)) (fun fl =>
  bind (py_index x (p_ml p)) (fun xl =>
  bind (fi br cr dr (p_fr p)) (fun fr =>
  bind (py_index x (p_mr p)) (fun xr =>
  Ret (el, rol (al + fl + xl + p_kl p) (p_rl p) + el, bl, rol cl 10, dl,
       er, rol (ar + fr + xr + p_kr p) (p_rr p) + er, br, rol cr 10, dr))))).

Fixpoint rounds_p (x : list Z) (ps : list rparams) (s : st10) : outcome st10 :=
  match ps with
  | [] => Ret s
  | p :: r => bind (round_p x p s) (fun s' => rounds_p x r s')
  end.

Lemma round_resolved x j s p : model_params j = Ret p -> round x j s = round_p x p s.
Proof.
  unfold model_params, round, round_p.
  destruct s as [[[[[[[[[al bl] cl] dl] el] ar] br] cr] dr] er].
  destruct (py_index gen_ML j) as [ml| |]; cbn [bind]; try discriminate.
  destruct (py_index gen_KL (Z.shiftr j 4)) as [kl| |]; cbn [bind]; try discriminate.
  destruct (py_index gen_RL j) as [rl| |]; cbn [bind]; try discriminate.
  destruct (py_index gen_MR j) as [mr| |]; cbn [bind]; try discriminate.
  destruct (py_index gen_KR (Z.shiftr j 4)) as [kr| |]; cbn [bind]; try discriminate.
  destruct (py_index gen_RR j) as [rr| |]; cbn [bind]; try discriminate.
  intros [= <-]. cbn [p_fl p_ml p_kl p_rl p_fr p_mr p_kr p_rr].
  reflexivity.
Qed.

Lemma rounds_resolved x : forall js ps s,
  map model_params js = map Ret ps -> rounds_loop x js s = rounds_p x ps s.
Proof.
  induction js as [|j js IH]; intros [|p ps] s H; try discriminate; [reflexivity|].
  cbn [map] in H. injection H as H1 H2.
  cbn [rounds_loop rounds_p]. rewrite (round_resolved x j s p H1).
  destruct (round_p x p s); cbn [bind]; auto.
Qed.

(* the standard's parameters of step j *)
Definition spec_params (j : nat) : rparams :=
  mkP (Z.of_nat (j / 16)) (Z.of_nat (nth j S.r 0%nat)) (S.K j) (nth j S.s 0)
      (4 - Z.of_nat (j / 16)) (Z.of_nat (nth j S.r' 0%nat)) (S.K' j) (nth j S.s' 0).

(* THE table obligation: the 6 x 80 look-ups of the model in the generated tables succeed and give the
   standard's r, K, s, r', K', s' *)
Lemma rounds_are_standard :
  map model_params (range 80) = map (fun j => Ret (spec_params j)) (seq 0 80).
Proof. vm_compute. reflexivity. Qed.

Definition wf_params (p : rparams) : Prop :=
  (0 <= p_fl p <= 4 /\ 0 <= p_ml p < 16 /\ 0 <= p_rl p <= 32) /\
  (0 <= p_fr p <= 4 /\ 0 <= p_mr p < 16 /\ 0 <= p_rr p <= 32).
Definition wf_paramsb (p : rparams) : bool :=
  (0 <=? p_fl p) && (p_fl p <=? 4) && (0 <=? p_ml p) && (p_ml p <? 16) && (0 <=? p_rl p) && (p_rl p <=? 32) &&
  (0 <=? p_fr p) && (p_fr p <=? 4) && (0 <=? p_mr p) && (p_mr p <? 16) && (0 <=? p_rr p) && (p_rr p <=? 32).

Lemma rounds_wf : Forall wf_params (map spec_params (seq 0 80)).
Proof.
  apply Forall_forall. intros p Hp.
  assert (H : forallb wf_paramsb (map spec_params (seq 0 80)) = true) by (vm_compute; reflexivity).
  pose proof (proj1 (forallb_forall _ _) H p Hp) as K. unfold wf_paramsb in K. unfold wf_params. lia.
Qed.

(* ---- 2. one round preserves congruence mod 2^32 ------------------------------------------------------ *)
(* the standard's boolean functions by index 0..4 *)
Definition fsel (k : Z) (x y z : Z) : Z :=
  if k =? 0 then Z.lxor (Z.lxor x y) z
  else if k =? 1 then Z.lor (Z.land x y) (Z.land (wnot x) z)
  else if k =? 2 then Z.lxor (Z.lor x (wnot y)) z
  else if k =? 3 then Z.lor (Z.land x z) (Z.land y (wnot z))
  else Z.lxor x (Z.lor y (wnot z)).

Lemma fi_congr x y z k : 0 <= k <= 4 ->
  exists v, fi x y z k = Ret v /\ v mod W = fsel k (x mod W) (y mod W) (z mod W).
Proof.
  intros Hk. assert (C : k = 0 \/ k = 1 \/ k = 2 \/ k = 3 \/ k = 4) by lia.
  destruct C as [-> | [-> | [-> | [-> | ->]]]]; cbn [fi fsel Z.eqb Pos.eqb]; eexists; (split; [reflexivity|]);
    rewrite ?lxor_mod, ?lor_mod, ?land_mod, ?lxor_mod, ?lor_mod, ?lnot_mod; reflexivity.
Qed.

Lemma rol_mod x i : 0 <= i <= 32 -> rol x i mod W = rotl i (x mod W).
Proof.
  intros Hi. unfold rol. rewrite land_M32, mod_mod_W. apply rol_idiom_mod; exact Hi.
Qed.

Lemma wadd_chain a f x k : (a + f + x + k) mod W = wadd (wadd (wadd (a mod W) (f mod W)) x) k.
Proof.
  unfold wadd. rewrite <- (Z.add_mod a f W) by discriminate.
  rewrite (Zplus_mod_idemp_l (a + f) x W), (Zplus_mod_idemp_l (a + f + x) k W). reflexivity.
Qed.

(* spec line step with the boolean function given by index *)
Definition line_p (fk : Z) (rj : Z) (sj : Z) (Kj : Z) (X : list Z) (st : S.state) : S.state :=
  let '(A, B, C, D, E) := st in
  let T := wadd (rotl sj (wadd (wadd (wadd A (fsel fk B C D)) (nth (Z.to_nat rj) X 0)) Kj)) E in
  (E, T, B, rotl 10 C, D).

Definition step_p (X : list Z) (lr : S.state * S.state) (p : rparams) : S.state * S.state :=
  let (L, R) := lr in
  (line_p (p_fl p) (p_ml p) (p_rl p) (p_kl p) X L, line_p (p_fr p) (p_mr p) (p_rr p) (p_kr p) X R).

Definition R5 (m : st5) (s : S.state) : Prop :=
  let '(m0, m1, m2, m3, m4) := m in let '(s0, s1, s2, s3, s4) := s in
  m0 mod W = s0 /\ m1 mod W = s1 /\ m2 mod W = s2 /\ m3 mod W = s3 /\ m4 mod W = s4.

Definition R10 (m : st10) (lr : S.state * S.state) : Prop :=
  let '(al, bl, cl, dl, el, ar, br, cr, dr, er) := m in
  R5 (al, bl, cl, dl, el) (fst lr) /\ R5 (ar, br, cr, dr, er) (snd lr).

Lemma line_congr a b c d e A B C D E fk ml rl kl x fl :
  R5 (a, b, c, d, e) (A, B, C, D, E) -> 0 <= rl <= 32 ->
  fl mod W = fsel fk B C D ->
  R5 (e, rol (a + fl + nth (Z.to_nat ml) x 0 + kl) rl + e, b, rol c 10, d)
     (line_p fk ml rl kl x (A, B, C, D, E)).
Proof.
  intros (Ha & Hb & Hc & Hd & He) Hrl Hf. unfold line_p, R5.
  repeat split; try assumption.
  - rewrite add_mod, rol_mod by exact Hrl. rewrite wadd_chain, Ha, Hf, He. reflexivity.
  - rewrite rol_mod by lia. now rewrite Hc.
Qed.

Lemma round_p_congr x p s lr : wf_params p -> length x = 16%nat -> R10 s lr ->
  exists s', round_p x p s = Ret s' /\ R10 s' (step_p x lr p).
Proof.
  intros [(Hfl & Hml & Hrl) (Hfr & Hmr & Hrr)] Hx HR.
  destruct s as [[[[[[[[[al bl] cl] dl] el] ar] br] cr] dr] er].
  destruct lr as [[[[[A B] C] D] E] [[[[A' B'] C'] D'] E']].
  destruct HR as [HL HRr]. cbn [fst snd] in HL, HRr.
  pose proof HL as (Ha & Hb & Hc & Hd & He). pose proof HRr as (Ha' & Hb' & Hc' & Hd' & He').
  unfold round_p.
  destruct (fi_congr bl cl dl (p_fl p) Hfl) as (fl & Efl & Cfl). rewrite Efl. cbn [bind].
  rewrite (py_index_ok x (p_ml p) 0) by lia. cbn [bind].
  destruct (fi_congr br cr dr (p_fr p) Hfr) as (fr & Efr & Cfr). rewrite Efr. cbn [bind].
  rewrite (py_index_ok x (p_mr p) 0) by lia. cbn [bind].
  eexists; split; [reflexivity|].
  unfold R10, step_p. cbn [fst snd]. split.
  - apply line_congr; [exact HL|exact Hrl|]. now rewrite Cfl, Hb, Hc, Hd.
  - apply line_congr; [exact HRr|exact Hrr|]. now rewrite Cfr, Hb', Hc', Hd'.
Qed.

Lemma rounds_p_congr x : forall ps s lr, Forall wf_params ps -> length x = 16%nat -> R10 s lr ->
  exists s', rounds_p x ps s = Ret s' /\ R10 s' (fold_left (step_p x) ps lr).
Proof.
  induction ps as [|p ps IH]; intros s lr Hwf Hx HR.
  - exists s. split; [reflexivity|exact HR].
  - inversion Hwf as [|? ? Hp Hps]; subst.
    destruct (round_p_congr x p s lr Hp Hx HR) as (s1 & E1 & R1).
    cbn [rounds_p fold_left]. rewrite E1. cbn [bind]. apply IH; assumption.
Qed.
