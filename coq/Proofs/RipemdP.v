(* Proofs/RipemdP.v — the model of pycoin/contrib/ripemd160.py (Model/Ripemd.v, unbounded integers, tables from
   Gen/GenRipemd.v) computes RIPEMD-160 as specified in Spec/RipemdSpec.v.

   Structure:
     0. the generated tables/constants are the standard's            (reflexivity: depends on Gen)
     1. the table look-ups of the 80 rounds resolve to the standard's parameters   (one vm_compute)
     2. one round, then any list of rounds, preserves  "model word = spec word (mod 2^32)"
        for arbitrary integer model words (induction over the list of rounds, tables abstract)
     3. compress, the block loops, the padding, the whole function *)
From PV Require Import Base.Bytes Base.Outcome Gen.GenRipemd Spec.RipemdSpec Model.Ripemd Proofs.WordsC19.
From Coq Require Import ZifyBool ZifyNat.
Local Open Scope Z_scope.

Module S := PV.Spec.RipemdSpec.
Module M := PV.Model.Ripemd.

(* ---- 0. tables ------------------------------------------------------------------------------------- *)
Lemma gen_shape_ok : gen_c19_shape_ok = true.
Proof. reflexivity. Qed.

Record tables_standard_stmt : Prop := {
  ts_ML : gen_ML = map Z.of_nat S.r;
  ts_MR : gen_MR = map Z.of_nat S.r';
  ts_RL : gen_RL = S.s;
  ts_RR : gen_RR = S.s';
  ts_KL : gen_KL = map S.K [0; 16; 32; 48; 64]%nat;
  ts_KR : gen_KR = map S.K' [0; 16; 32; 48; 64]%nat;
  ts_IV : gen_init = S.IV;
  ts_shape : gen_c19_shape_ok = true
}.
Lemma tables_standard : tables_standard_stmt.
Proof. split; reflexivity. Qed.

(* every integer literal of the four modelled functions, in source order, is the one transcribed in the model *)
Record literals_stmt : Prop := {
  li_fi : gen_fi_ints = [0; 1; 2; 3; 4];
  li_rol : gen_rol_ints = [0xFFFFFFFF; 32; 0xFFFFFFFF];
  li_compress : gen_compress_ints = [4; 4; 1; 0; 16; 80; 4; 10; 4; 10];
  li_ripemd160 : gen_ripemd160_ints =
    [0x67452301; 0xEFCDAB89; 0x98BADCFE; 0x10325476; 0xC3D2E1F0; 6; 64; 64; 1; 119; 63; 63; 8; 6; 64; 64; 1; 0xFFFFFFFF]
}.
Lemma literals_as_modelled : literals_stmt.
Proof. split; reflexivity. Qed.

(* ---- generic helpers -------------------------------------------------------------------------------- *)
Lemma py_index_ok {A} (l : list A) (i : Z) (d : A) :
  0 <= i < Z.of_nat (length l) -> py_index l i = Ret (nth (Z.to_nat i) l d).
Proof.
  intros H. unfold py_index.
  destruct (i <? 0) eqn:E; [lia|].
  destruct ((0 <=? i) && (i <? Z.of_nat (length l))) eqn:E2; [|lia].
  rewrite (nth_error_nth' l d) by lia. reflexivity.
Qed.

Lemma skipn_add {A} (a b : nat) (l : list A) : skipn a (skipn b l) = skipn (b + a) l.
Proof.
  revert l; induction b as [|b IH]; intros l; [reflexivity|].
  destruct l as [|x l]; [now rewrite !skipn_nil|]. cbn [skipn Nat.add]. apply IH.
Qed.

Lemma fold_left_ext_in {A B} (f g : A -> B -> A) (l : list B) (a : A) :
  (forall x y, In y l -> f x y = g x y) -> fold_left f l a = fold_left g l a.
Proof.
  revert a; induction l as [|y l IH]; intros a H; [reflexivity|].
  cbn [fold_left]. rewrite H by now left. apply IH. intros; apply H; now right.
Qed.

Lemma fold_left_map {A B C} (f : A -> C -> A) (g : B -> C) (l : list B) (a : A) :
  fold_left f (map g l) a = fold_left (fun x y => f x (g y)) l a.
Proof. revert a; induction l as [|y l IH]; intros a; [reflexivity|]. cbn. apply IH. Qed.

(* ---- 1. resolved round parameters -------------------------------------------------------------------- *)
Record rparams := mkP { p_fl : Z; p_ml : Z; p_kl : Z; p_rl : Z; p_fr : Z; p_mr : Z; p_kr : Z; p_rr : Z }.

(* the table look-ups of round j, in isolation *)
Definition model_params (j : Z) : outcome rparams :=
  let rnd := Z.shiftr j 4 in
  bind (py_index gen_ML j) (fun ml => bind (py_index gen_KL rnd) (fun kl => bind (py_index gen_RL j) (fun rl =>
  bind (py_index gen_MR j) (fun mr => bind (py_index gen_KR rnd) (fun kr => bind (py_index gen_RR j) (fun rr =>
  Ret (mkP rnd ml kl rl (4 - rnd) mr kr rr))))))).

(* a round with its look-ups already done *)
Definition round_p (x : list Z) (p : rparams) (s : st10) : outcome st10 :=
  let '(al, bl, cl, dl, el, ar, br, cr, dr, er) := s in
  bind (fi bl cl dl (p_fl p)) (fun fl =>
  bind (py_index x (p_ml p)) (fun xl =>
  bind (fi br cr dr (p_fr p)) (fun fr =>
  bind (py_index x (p_mr p)) (fun xr =>
  Ret (el, rol (al + fl + xl + p_kl p) (p_rl p) + el, bl, rol cl 10, dl,
       er, rol (ar + fr + xr + p_kr p) (p_rr p) + er, br, rol cr 10, dr))))).

Fixpoint rounds_p (x : list Z) (ps : list rparams) (s : st10) : outcome st10 :=
  match ps with
  | [] => Ret s
  | p :: r => bind (round_p x p s) (fun s' => rounds_p x r s')
  end.

Lemma round_resolved x j s p : model_params j = Ret p -> round x j s = round_p x p s.
Proof.
  unfold model_params, round, round_p.
  destruct s as [[[[[[[[[al bl] cl] dl] el] ar] br] cr] dr] er].
  destruct (py_index gen_ML j) as [ml| |]; cbn [bind]; try discriminate.
  destruct (py_index gen_KL (Z.shiftr j 4)) as [kl| |]; cbn [bind]; try discriminate.
  destruct (py_index gen_RL j) as [rl| |]; cbn [bind]; try discriminate.
  destruct (py_index gen_MR j) as [mr| |]; cbn [bind]; try discriminate.
  destruct (py_index gen_KR (Z.shiftr j 4)) as [kr| |]; cbn [bind]; try discriminate.
  destruct (py_index gen_RR j) as [rr| |]; cbn [bind]; try discriminate.
  intros [= <-]. cbn [p_fl p_ml p_kl p_rl p_fr p_mr p_kr p_rr].
  reflexivity.
Qed.

Lemma rounds_resolved x : forall js ps s,
  map model_params js = map Ret ps -> rounds_loop x js s = rounds_p x ps s.
Proof.
  induction js as [|j js IH]; intros [|p ps] s H; try discriminate; [reflexivity|].
  cbn [map] in H. injection H as H1 H2.
  cbn [rounds_loop rounds_p]. rewrite (round_resolved x j s p H1).
  destruct (round_p x p s); cbn [bind]; auto.
Qed.

(* the standard's parameters of step j *)
Definition spec_params (j : nat) : rparams :=
  mkP (Z.of_nat (j / 16)) (Z.of_nat (nth j S.r 0%nat)) (S.K j) (nth j S.s 0)
      (4 - Z.of_nat (j / 16)) (Z.of_nat (nth j S.r' 0%nat)) (S.K' j) (nth j S.s' 0).

(* THE table obligation: the 6 x 80 look-ups of the model in the generated tables succeed and give the
   standard's r, K, s, r', K', s' *)
Lemma rounds_are_standard :
  map model_params (range 80) = map (fun j => Ret (spec_params j)) (seq 0 80).
Proof. vm_compute. reflexivity. Qed.

Definition wf_params (p : rparams) : Prop :=
  (0 <= p_fl p <= 4 /\ 0 <= p_ml p < 16 /\ 0 <= p_rl p <= 32) /\
  (0 <= p_fr p <= 4 /\ 0 <= p_mr p < 16 /\ 0 <= p_rr p <= 32).
Definition wf_paramsb (p : rparams) : bool :=
  (0 <=? p_fl p) && (p_fl p <=? 4) && (0 <=? p_ml p) && (p_ml p <? 16) && (0 <=? p_rl p) && (p_rl p <=? 32) &&
  (0 <=? p_fr p) && (p_fr p <=? 4) && (0 <=? p_mr p) && (p_mr p <? 16) && (0 <=? p_rr p) && (p_rr p <=? 32).

Lemma rounds_wf : Forall wf_params (map spec_params (seq 0 80)).
Proof.
  apply Forall_forall. intros p Hp.
  assert (H : forallb wf_paramsb (map spec_params (seq 0 80)) = true) by (vm_compute; reflexivity).
  pose proof (proj1 (forallb_forall _ _) H p Hp) as K. unfold wf_paramsb in K. unfold wf_params. lia.
Qed.

(* ---- 2. one round preserves congruence mod 2^32 ------------------------------------------------------ *)
(* the standard's boolean functions by index 0..4 *)
Definition fsel (k : Z) (x y z : Z) : Z :=
  if k =? 0 then Z.lxor (Z.lxor x y) z
  else if k =? 1 then Z.lor (Z.land x y) (Z.land (wnot x) z)
  else if k =? 2 then Z.lxor (Z.lor x (wnot y)) z
  else if k =? 3 then Z.lor (Z.land x z) (Z.land y (wnot z))
  else Z.lxor x (Z.lor y (wnot z)).

Lemma fi_congr x y z k : 0 <= k <= 4 ->
  exists v, fi x y z k = Ret v /\ v mod W = fsel k (x mod W) (y mod W) (z mod W).
Proof.
  intros Hk. assert (C : k = 0 \/ k = 1 \/ k = 2 \/ k = 3 \/ k = 4) by lia.
  destruct C as [-> | [-> | [-> | [-> | ->]]]]; cbn [fi fsel Z.eqb Pos.eqb]; eexists; (split; [reflexivity|]);
    rewrite ?lxor_mod, ?lor_mod, ?land_mod, ?lxor_mod, ?lor_mod, ?lnot_mod; reflexivity.
Qed.

Lemma rol_mod x i : 0 <= i <= 32 -> rol x i mod W = rotl i (x mod W).
Proof.
  intros Hi. unfold rol. rewrite land_M32, mod_mod_W. apply rol_idiom_mod; exact Hi.
Qed.

Lemma wadd_chain a f x k : (a + f + x + k) mod W = wadd (wadd (wadd (a mod W) (f mod W)) x) k.
Proof.
  unfold wadd. rewrite <- (Z.add_mod a f W) by discriminate.
  rewrite (Zplus_mod_idemp_l (a + f) x W), (Zplus_mod_idemp_l (a + f + x) k W). reflexivity.
Qed.

(* spec line step with the boolean function given by index *)
Definition line_p (fk : Z) (rj : Z) (sj : Z) (Kj : Z) (X : list Z) (st : S.state) : S.state :=
  let '(A, B, C, D, E) := st in
  let T := wadd (rotl sj (wadd (wadd (wadd A (fsel fk B C D)) (nth (Z.to_nat rj) X 0)) Kj)) E in
  (E, T, B, rotl 10 C, D).

Definition step_p (X : list Z) (lr : S.state * S.state) (p : rparams) : S.state * S.state :=
  let (L, R) := lr in
  (line_p (p_fl p) (p_ml p) (p_rl p) (p_kl p) X L, line_p (p_fr p) (p_mr p) (p_rr p) (p_kr p) X R).

Definition R5 (m : st5) (s : S.state) : Prop :=
  let '(m0, m1, m2, m3, m4) := m in let '(s0, s1, s2, s3, s4) := s in
  m0 mod W = s0 /\ m1 mod W = s1 /\ m2 mod W = s2 /\ m3 mod W = s3 /\ m4 mod W = s4.

Definition R10 (m : st10) (lr : S.state * S.state) : Prop :=
  let '(al, bl, cl, dl, el, ar, br, cr, dr, er) := m in
  R5 (al, bl, cl, dl, el) (fst lr) /\ R5 (ar, br, cr, dr, er) (snd lr).

Lemma line_congr a b c d e A B C D E fk ml rl kl x fl :
  R5 (a, b, c, d, e) (A, B, C, D, E) -> 0 <= rl <= 32 ->
  fl mod W = fsel fk B C D ->
  R5 (e, rol (a + fl + nth (Z.to_nat ml) x 0 + kl) rl + e, b, rol c 10, d)
     (line_p fk ml rl kl x (A, B, C, D, E)).
Proof.
  intros (Ha & Hb & Hc & Hd & He) Hrl Hf. unfold line_p, R5.
  repeat split; try assumption.
  - rewrite add_mod, rol_mod by exact Hrl. rewrite wadd_chain, Ha, Hf, He. reflexivity.
  - rewrite rol_mod by lia. now rewrite Hc.
Qed.

Lemma round_p_congr x p s lr : wf_params p -> length x = 16%nat -> R10 s lr ->
  exists s', round_p x p s = Ret s' /\ R10 s' (step_p x lr p).
Proof.
  intros [(Hfl & Hml & Hrl) (Hfr & Hmr & Hrr)] Hx HR.
  assert (Hml' : 0 <= p_ml p < Z.of_nat (length x)) by (rewrite Hx; lia).
  assert (Hmr' : 0 <= p_mr p < Z.of_nat (length x)) by (rewrite Hx; lia).
  destruct s as [[[[[[[[[al bl] cl] dl] el] ar] br] cr] dr] er].
  destruct lr as [[[[[A B] C] D] E] [[[[A' B'] C'] D'] E']].
  destruct HR as [HL HRr]. cbn [fst snd] in HL, HRr.
  pose proof HL as (Ha & Hb & Hc & Hd & He). pose proof HRr as (Ha' & Hb' & Hc' & Hd' & He').
  unfold round_p.
  destruct (fi_congr bl cl dl (p_fl p) Hfl) as (fl & Efl & Cfl). rewrite Efl. cbn [bind].
  rewrite (py_index_ok x (p_ml p) 0) by exact Hml'. cbn [bind].
  destruct (fi_congr br cr dr (p_fr p) Hfr) as (fr & Efr & Cfr). rewrite Efr. cbn [bind].
  rewrite (py_index_ok x (p_mr p) 0) by exact Hmr'. cbn [bind].
  eexists; split; [reflexivity|].
  unfold R10, step_p. cbn [fst snd]. split.
  - apply line_congr; [exact HL|exact Hrl|]. now rewrite Cfl, Hb, Hc, Hd.
  - apply line_congr; [exact HRr|exact Hrr|]. now rewrite Cfr, Hb', Hc', Hd'.
Qed.

Lemma rounds_p_congr x : forall ps s lr, Forall wf_params ps -> length x = 16%nat -> R10 s lr ->
  exists s', rounds_p x ps s = Ret s' /\ R10 s' (fold_left (step_p x) ps lr).
Proof.
  induction ps as [|p ps IH]; intros s lr Hwf Hx HR.
  - exists s. split; [reflexivity|exact HR].
  - inversion Hwf as [|? ? Hp Hps]; subst.
    destruct (round_p_congr x p s lr Hp Hx HR) as (s1 & E1 & R1).
    cbn [rounds_p fold_left]. rewrite E1. cbn [bind]. apply IH; assumption.
Qed.

(* ---- 3. compress -------------------------------------------------------------------------------------- *)
(* the standard's step j is step_p with the standard's parameters *)
Lemma f_by_index : forall j, (j < 80)%nat -> forall x y z,
  S.f j x y z = fsel (Z.of_nat (j / 16)) x y z /\ S.f (79 - j) x y z = fsel (4 - Z.of_nat (j / 16)) x y z.
Proof.
  intros j Hj x y z.
  do 80 (destruct j as [|j]; [split; reflexivity|]). lia.
Qed.

Lemma step_is_step_p X lr j : (j < 80)%nat -> S.step X lr j = step_p X lr (spec_params j).
Proof.
  intros Hj. destruct lr as [[[[[A B] C] D] E] [[[[A' B'] C'] D'] E']].
  unfold S.step, step_p, S.line_step, line_p, spec_params. cbn [p_fl p_ml p_kl p_rl p_fr p_mr p_kr p_rr].
  rewrite !Nat2Z.id.
  destruct (f_by_index j Hj B C D) as [-> _]. destruct (f_by_index j Hj B' C' D') as [_ ->]. reflexivity.
Qed.

Lemma spec_rounds_fold X lr :
  fold_left (S.step X) (seq 0 80) lr = fold_left (step_p X) (map spec_params (seq 0 80)) lr.
Proof.
  rewrite fold_left_map. apply fold_left_ext_in. intros st j Hj. apply in_seq in Hj.
  apply step_is_step_p. lia.
Qed.

(* the 16 message words *)
Lemma unpack_word b0 b1 b2 b3 :
  unpack_L [b0; b1; b2; b3] = Ret (b2z b0 + 256 * b2z b1 + 65536 * b2z b2 + 16777216 * b2z b3).
Proof.
  unfold unpack_L. cbn [length Nat.eqb le_decode]. f_equal. unfold b2z. lia.
Qed.

Lemma unpack_words : forall k a block, length (skipn (4 * a) block) = (4 * k)%nat ->
  mapM (fun i => unpack_L (slice (4 * i) (4 * (i + 1)) block)) (seq a k) = Ret (S.words (skipn (4 * a) block)).
Proof.
  induction k as [|k IH]; intros a block H.
  - destruct (skipn (4 * a) block); [reflexivity|discriminate].
  - cbn [seq mapM]. unfold slice at 1.
    replace (4 * (a + 1) - 4 * a)%nat with 4%nat by lia.
    specialize (IH (S a) block).
    replace (4 * S a)%nat with (4 * a + 4)%nat in IH by lia. rewrite <- skipn_add in IH.
    destruct (skipn (4 * a) block) as [|b0 [|b1 [|b2 [|b3 rest]]]]; try (cbn [length] in H; lia).
    cbn [firstn]. rewrite unpack_word. cbn [bind].
    cbn [skipn] in IH. rewrite IH by (cbn [length] in H; lia). cbn [bind S.words]. reflexivity.
Qed.

Lemma words_length : forall k bs, length bs = (4 * k)%nat -> length (S.words bs) = k.
Proof.
  induction k as [|k IH]; intros bs H.
  - destruct bs; [reflexivity|discriminate].
  - destruct bs as [|b0 [|b1 [|b2 [|b3 rest]]]]; try (cbn [length] in H; lia).
    cbn [S.words length]. f_equal. apply IH. cbn [length] in H. lia.
Qed.

Lemma final_add h c d hs C D : h mod W = hs -> c mod W = C -> d mod W = D ->
  (h + c + d) mod W = wadd (wadd hs C) D.
Proof.
  intros <- <- <-. unfold wadd.
  rewrite <- (Z.add_mod h c W) by discriminate. rewrite <- (Z.add_mod (h + c) d W) by discriminate. reflexivity.
Qed.

Lemma compress_congr h hs block : length block = 64%nat -> R5 h hs ->
  exists h', M.compress h block = Ret h' /\ R5 h' (S.compress hs (S.words block)).
Proof.
  intros Hlen HR.
  destruct h as [[[[h0 h1] h2] h3] h4]. destruct hs as [[[[s0 s1] s2] s3] s4].
  pose proof HR as (E0 & E1 & E2 & E3 & E4).
  unfold M.compress.
  pose proof (unpack_words 16 0 block) as Hw. change (skipn (4 * 0) block) with block in Hw. rewrite Hw by exact Hlen. clear Hw.
  cbn [bind].
  assert (Hx : length (S.words block) = 16%nat) by (apply words_length; exact Hlen).
  rewrite (rounds_resolved (S.words block) (range 80) (map spec_params (seq 0 80))).
  2:{ rewrite rounds_are_standard, map_map. reflexivity. }
  unfold S.compress. rewrite spec_rounds_fold.
  match goal with |- context [fold_left (step_p ?X) ?l ?i] =>
    destruct (rounds_p_congr X l (h0, h1, h2, h3, h4, h0, h1, h2, h3, h4) i rounds_wf Hx) as (s' & Es & Rs);
      [split; exact HR|];
    destruct (fold_left (step_p X) l i) as [[[[[A B] C] D] E] [[[[A' B'] C'] D'] E']]
  end.
  rewrite Es. cbn [bind].
  destruct s' as [[[[[[[[[al bl] cl] dl] el] ar] br] cr] dr] er].
  destruct Rs as [(Ra & Rb & Rc & Rd & Re) (Ra' & Rb' & Rc' & Rd' & Re')].
  eexists; split; [reflexivity|].
  unfold R5. cbv beta iota zeta. split; [|split; [|split; [|split]]]; apply final_add; assumption.
Qed.

(* ---- 4. block loops, padding, the whole function ------------------------------------------------------ *)
Definition spec_absorb (h : S.state) (blk : bytes) : S.state := S.compress h (S.words blk).

Lemma blocks_loop_congr data : forall n b st sts, (64 * (b + n) <= length data)%nat -> R5 st sts ->
  exists st', blocks_loop n b data st = Ret st' /\
              R5 st' (fold_left spec_absorb (S.blocks_of n (skipn (64 * b) data)) sts).
Proof.
  induction n as [|n IH]; intros b st sts Hlen HR.
  - exists st. split; [reflexivity|exact HR].
  - cbn [blocks_loop S.blocks_of fold_left]. unfold slice.
    replace (64 * (b + 1) - 64 * b)%nat with 64%nat by lia.
    assert (Hb : length (firstn 64 (skipn (64 * b) data)) = 64%nat).
    { apply firstn_length_le. rewrite skipn_length. lia. }
    destruct (compress_congr st sts _ Hb HR) as (st1 & E1 & R1). rewrite E1. cbn [bind].
    rewrite skipn_add. replace (64 * b + 64)%nat with (64 * S b)%nat by lia.
    apply IH; [lia|exact R1].
Qed.

Lemma blocks_of_prefix : forall m (a b : bytes), length a = (64 * m)%nat ->
  S.blocks_of m (a ++ b) = S.blocks_of m a.
Proof.
  induction m as [|m IH]; intros a b H; [reflexivity|].
  cbn [S.blocks_of]. rewrite firstn_app, skipn_app.
  replace (64 - length a)%nat with 0%nat by lia. rewrite firstn_O, skipn_O, app_nil_r.
  rewrite IH; [reflexivity|]. rewrite skipn_length. lia.
Qed.

Lemma blocks_of_app : forall m n (a b : bytes), length a = (64 * m)%nat ->
  S.blocks_of (m + n) (a ++ b) = S.blocks_of m a ++ S.blocks_of n b.
Proof.
  induction m as [|m IH]; intros n a b H.
  - destruct a; [reflexivity|discriminate].
  - cbn [S.blocks_of Nat.add app]. rewrite firstn_app, skipn_app.
    replace (64 - length a)%nat with 0%nat by lia. rewrite firstn_O, skipn_O, app_nil_r.
    rewrite IH; [reflexivity|]. rewrite skipn_length. lia.
Qed.

(* the arithmetic of the padding idioms *)
Lemma shiftr6 (n : nat) : Z.to_nat (Z.shiftr (Z.of_nat n) 6) = (n / 64)%nat.
Proof.
  rewrite Z.shiftr_div_pow2 by lia. change (2 ^ 6) with (Z.of_nat 64).
  rewrite <- Nat2Z.inj_div. apply Nat2Z.id.
Qed.

(* (119 - len) & 63 *)
Lemma pad_count (n : nat) : Z.to_nat (Z.land (gen_pad_a - Z.of_nat n) gen_pad_mask) = S.zero_pad n.
Proof.
  change gen_pad_a with 119. change gen_pad_mask with (Z.ones 6).
  rewrite Z.land_ones by lia. change (2 ^ 6) with 64. unfold S.zero_pad.
  pose proof (Nat.div_mod (n + 9) 64 ltac:(lia)) as H1.
  pose proof (Nat.mod_upper_bound (n + 9) 64 ltac:(lia)) as H2.
  set (q := ((n + 9) / 64)%nat) in *. set (t := ((n + 9) mod 64)%nat) in *.
  assert (E : (119 - Z.of_nat n) mod 64 = Z.of_nat ((64 - t) mod 64)).
  { destruct (Nat.eq_dec t 0) as [T0|T0].
    - rewrite T0. change ((64 - 0) mod 64)%nat with 0%nat. symmetry.
      apply Z.mod_unique_pos with (q := 2 - Z.of_nat q); lia.
    - rewrite Nat.mod_small by lia. symmetry.
      apply Z.mod_unique_pos with (q := 1 - Z.of_nat q); lia. }
  rewrite E. apply Nat2Z.id.
Qed.

(* len & ~63 *)
Lemma tail_start (n : nat) : Z.to_nat (Z.land (Z.of_nat n) (Z.lnot gen_tail_mask)) = (64 * (n / 64))%nat.
Proof.
  change gen_tail_mask with (Z.ones 6). rewrite <- Z.ldiff_land, Z.ldiff_ones_r by lia.
  rewrite Z.shiftl_mul_pow2, Z.shiftr_div_pow2 by lia. change (2 ^ 6) with (Z.of_nat 64).
  rewrite <- Nat2Z.inj_div, <- Nat2Z.inj_mul, Nat2Z.id. lia.
Qed.

Lemma pack_Q_ok (n : nat) : (Z.of_nat n < 2 ^ 61) ->
  pack_Q (8 * Z.of_nat n) = Ret (le_encode 8 ((8 * N.of_nat n) mod 2 ^ 64)%N).
Proof.
  intros H. unfold pack_Q.
  destruct ((0 <=? 8 * Z.of_nat n) && (8 * Z.of_nat n <? 2 ^ 64)) eqn:E; [|lia].
  do 2 f_equal. rewrite N.mod_small; lia.
Qed.

Lemma pack_word h s : h mod W = s -> pack_L (Z.land h 0xFFFFFFFF) = Ret (S.word_bytes s).
Proof.
  intros <-. rewrite land_M32. unfold pack_L, S.word_bytes.
  assert (R : 0 <= h mod W < 2 ^ 32) by apply mod_W_range.
  destruct ((0 <=? h mod W) && (h mod W <? 2 ^ 32)) eqn:E; [reflexivity|lia].
Qed.

(* C19, RIPEMD-160: for every message shorter than 2^61 bytes the model returns the standard's digest *)
Theorem ripemd160_is_standard (data : bytes) : Z.of_nat (length data) < 2 ^ 61 ->
  M.ripemd160 data = Ret (S.ripemd160 data).
Proof.
  intros Hlen. unfold M.ripemd160, S.ripemd160.
  set (len := length data). set (q := (len / 64)%nat).
  rewrite shiftr6, pad_count, tail_start, (pack_Q_ok len Hlen). fold q.
  pose proof (Nat.div_mod len 64 ltac:(lia)) as Hdm. fold q in Hdm.
  pose proof (Nat.mod_upper_bound len 64 ltac:(lia)) as Hmod.
  (* first loop *)
  destruct (blocks_loop_congr data q 0 gen_init S.IV) as (st1 & E1 & R1).
  { fold len. lia. }
  { rewrite (ts_IV tables_standard). cbn. repeat split; reflexivity. }
  rewrite E1. cbn [bind]. change (skipn (64 * 0) data) with data in R1.
  assert (Hfirst : length (firstn (64 * q) data) = (64 * q)%nat).
  { apply firstn_length_le. fold len. lia. }
  rewrite <- (firstn_skipn (64 * q) data) in R1 at 1. rewrite blocks_of_prefix in R1 by exact Hfirst.
  (* final blocks *)
  set (fin := skipn (64 * q) data ++
              (x80 :: repeat x00 (S.zero_pad len)) ++ le_encode 8 ((8 * N.of_nat len) mod 2 ^ 64)%N).
  assert (Hfinlen : length fin = (len mod 64 + 1 + S.zero_pad len + 8)%nat).
  { unfold fin. rewrite !app_length, skipn_length. cbn [length]. rewrite repeat_length, le_encode_length.
    fold len. lia. }
  assert (Hfin64 : exists n2, length fin = (64 * n2)%nat).
  { rewrite Hfinlen. unfold S.zero_pad.
    pose proof (Nat.div_mod (len + 9) 64 ltac:(lia)) as H1.
    pose proof (Nat.mod_upper_bound (len + 9) 64 ltac:(lia)) as H2.
    set (q9 := ((len + 9) / 64)%nat) in *. set (t9 := ((len + 9) mod 64)%nat) in *.
    destruct (Nat.eq_dec t9 0) as [T0|T0].
    - rewrite T0. change ((64 - 0) mod 64)%nat with 0%nat. exists (q9 - q)%nat. lia.
    - rewrite (Nat.mod_small (64 - t9)) by lia. exists (q9 + 1 - q)%nat. lia. }
  destruct Hfin64 as (n2 & Hn2).
  rewrite shiftr6. rewrite Hn2. replace (64 * n2 / 64)%nat with n2 by (rewrite Nat.mul_comm, Nat.div_mul; lia).
  destruct (blocks_loop_congr fin n2 0 st1 _ ltac:(lia) R1) as (st2 & E2 & R2).
  rewrite E2. cbn [bind]. change (skipn (64 * 0) fin) with fin in R2.
  (* the spec's view: pad data = first 64q bytes ++ fin *)
  assert (Hpad : S.pad data = firstn (64 * q) data ++ fin).
  { unfold S.pad, fin. fold len. rewrite <- (firstn_skipn (64 * q) data) at 1. rewrite <- app_assoc. reflexivity. }
  rewrite Hpad. rewrite app_length, Hfirst, Hn2.
  replace ((64 * q + 64 * n2) / 64)%nat with (q + n2)%nat
    by (rewrite <- Nat.mul_add_distr_l, Nat.mul_comm, Nat.div_mul; lia).
  rewrite blocks_of_app by exact Hfirst. rewrite fold_left_app.
  fold spec_absorb.
  destruct st2 as [[[[m0 m1] m2] m3] m4].
  match type of R2 with R5 _ ?t => destruct t as [[[[s0 s1] s2] s3] s4] end.
  destruct R2 as (C0 & C1 & C2 & C3 & C4).
  cbn [mapM]. rewrite (pack_word _ _ C0), (pack_word _ _ C1), (pack_word _ _ C2), (pack_word _ _ C3), (pack_word _ _ C4).
  cbn [bind concat]. rewrite app_nil_r. reflexivity.
Qed.

(* beyond that length the code raises struct.error (the 64-bit length field overflows) — not reachable in practice *)
Lemma ripemd160_too_long (data : bytes) : 2 ^ 61 <= Z.of_nat (length data) ->
  M.ripemd160 data = Raise E_STRUCT \/ exists e, M.ripemd160 data = Raise e \/ M.ripemd160 data = OutOfFuel.
Proof.
  intros H. unfold M.ripemd160.
  destruct (blocks_loop _ 0 data gen_init) as [st| |]; cbn [bind].
  - left. unfold pack_Q. destruct ((0 <=? 8 * Z.of_nat (length data)) && (8 * Z.of_nat (length data) <? 2 ^ 64)) eqn:E; [lia|reflexivity].
  - right. eexists. left. reflexivity.
  - right. exists E_OTHER. right. reflexivity.
Qed.

(* ---- 5. pycoin/encoding/hash.py: selection and the compound hashes -------------------------------------- *)
Section Selection.
  Variables sha256 native pycrypto : bytes -> bytes.

  (* whichever implementation get_best_ripemd160 picks, ripemd160(data).digest() is the standard digest —
     provided the external library that was picked (OpenSSL via hashlib, or PyCrypto) is itself standard *)
  Lemma hash_ripemd160_standard in_avail env_truthy native_works has_pycrypto data :
    let c := get_best_ripemd160 in_avail env_truthy native_works has_pycrypto in
    (c = Native -> forall m, native m = S.ripemd160 m) ->
    (c = PyCrypto -> forall m, pycrypto m = S.ripemd160 m) ->
    Z.of_nat (length data) < 2 ^ 61 ->
    hash_ripemd160 native pycrypto c data = Ret (S.ripemd160 data).
  Proof.
    cbv zeta. intros Hn Hp Hlen.
    destruct (get_best_ripemd160 in_avail env_truthy native_works has_pycrypto); cbn [hash_ripemd160].
    - now rewrite Hn.
    - now rewrite Hp.
    - now apply ripemd160_is_standard.
  Qed.

  Lemma hash160_standard in_avail env_truthy native_works has_pycrypto data :
    let c := get_best_ripemd160 in_avail env_truthy native_works has_pycrypto in
    (c = Native -> forall m, native m = S.ripemd160 m) ->
    (c = PyCrypto -> forall m, pycrypto m = S.ripemd160 m) ->
    Z.of_nat (length (sha256 data)) < 2 ^ 61 ->
    hash160 sha256 native pycrypto c data = Ret (S.ripemd160 (sha256 data)).
  Proof. cbv zeta. intros. unfold hash160. now apply hash_ripemd160_standard. Qed.

  (* the bundled implementation is what runs when PYCOIN_USE_PYTHON_RIPEMD160 is set (to any non-empty string),
     or when hashlib lacks/refuses ripemd160 — and PyCrypto is not installed *)
  Lemma selection_cases in_avail env_truthy native_works :
    get_best_ripemd160 in_avail true native_works false = PurePython /\
    get_best_ripemd160 false env_truthy native_works false = PurePython /\
    get_best_ripemd160 in_avail env_truthy false false = PurePython /\
    get_best_ripemd160 true false true false = Native.
  Proof. destruct in_avail, env_truthy, native_works; repeat split; reflexivity. Qed.
End Selection.

(* ---- statements in the explicit form used by Props/C19.v ------------------------------------------------ *)
Lemma tables_standard_conj :
  gen_ML = map Z.of_nat S.r /\ gen_MR = map Z.of_nat S.r' /\ gen_RL = S.s /\ gen_RR = S.s' /\
  gen_KL = map S.K [0; 16; 32; 48; 64]%nat /\ gen_KR = map S.K' [0; 16; 32; 48; 64]%nat /\
  gen_init = S.IV /\ gen_pad_a = 119 /\ gen_pad_mask = 63 /\ gen_tail_mask = 63 /\ gen_c19_shape_ok = true.
Proof.
  split; [|split; [|split; [|split; [|split; [|split; [|split; [|split; [|split; [|split]]]]]]]]]; reflexivity.
Qed.

Lemma compress_eq h0 h1 h2 h3 h4 block : length block = 64%nat ->
  exists h0' h1' h2' h3' h4',
    M.compress (h0, h1, h2, h3, h4) block = Ret (h0', h1', h2', h3', h4') /\
    (h0' mod W, h1' mod W, h2' mod W, h3' mod W, h4' mod W)
    = S.compress (h0 mod W, h1 mod W, h2 mod W, h3 mod W, h4 mod W) (S.words block).
Proof.
  intros Hlen.
  destruct (compress_congr (h0, h1, h2, h3, h4) (h0 mod W, h1 mod W, h2 mod W, h3 mod W, h4 mod W) block Hlen)
    as ([[[[g0 g1] g2] g3] g4] & E & R).
  { cbv [R5]. repeat split. }
  exists g0, g1, g2, g3, g4. split; [exact E|].
  destruct (S.compress _ _) as [[[[s0 s1] s2] s3] s4]. destruct R as (-> & -> & -> & -> & ->). reflexivity.
Qed.

Lemma pad_wellformed (msg : bytes) :
  (length (S.pad msg) mod 64 = 0)%nat /\ (S.zero_pad (length msg) < 64)%nat /\
  S.pad msg = msg ++ [x80] ++ repeat x00 (S.zero_pad (length msg))
                  ++ le_encode 8 ((8 * N.of_nat (length msg)) mod 2 ^ 64)%N.
Proof.
  split; [|split; [|reflexivity]].
  - unfold S.pad. rewrite !app_length, repeat_length, le_encode_length. cbn [length]. unfold S.zero_pad.
    set (len := length msg).
    pose proof (Nat.div_mod (len + 9) 64 ltac:(lia)) as H1.
    pose proof (Nat.mod_upper_bound (len + 9) 64 ltac:(lia)) as H2.
    set (q9 := ((len + 9) / 64)%nat) in *. set (t9 := ((len + 9) mod 64)%nat) in *.
    destruct (Nat.eq_dec t9 0) as [T0|T0].
    + rewrite T0. change ((64 - 0) mod 64)%nat with 0%nat.
      replace (len + (1 + (0 + 8)))%nat with (q9 * 64)%nat by lia. apply Nat.mod_mul. lia.
    + rewrite (Nat.mod_small (64 - t9)) by lia.
      replace (len + (1 + (64 - t9 + 8)))%nat with ((q9 + 1) * 64)%nat by lia. apply Nat.mod_mul. lia.
  - unfold S.zero_pad. apply Nat.mod_upper_bound. lia.
Qed.
