(* Proofs/AgreeMisc.v — C03 agreement, families (6) and (7): the five hash opcodes (same oracles on both sides),
   OP_CODESEPARATOR, OP_NOP, the upgradable NOPs (DISCOURAGE_UPGRADABLE_NOPS), OP_CHECKLOCKTIMEVERIFY and
   OP_CHECKSEQUENCEVERIFY (flag off = upgradable NOP; 5-byte operand; all of BIP65 / BIP112's comparisons). *)
From Coq Require Import Lia ZifyBool ZifyNat ZifyN.
From PV Require Import Base.Bytes Base.Outcome Gen.GenOpcodes Gen.GenFlags.
From PV Require Import Model.ScriptNum Model.Push Model.CondStack Spec.CondStackCore Proofs.CondStackP.
From PV Require Import Spec.VMTypes Model.VMpy Spec.VMcore Proofs.AgreeBase.
Local Open Scope N_scope.

Section Misc.
Variable o : oracles.
Variable flags : N.
Variable sv : sigversion.
Variable ctx : txctx.
Variable script : bytes.

Notation abs := (abs script).
Notation hres_nf := (hres_nf script).
Notation handler := (handler o flags sv ctx script).
Notation exec_op := (exec_op o flags sv ctx).
Notation mn := (flag_set flags VERIFY_MINIMALDATA).

Ltac norm := cbn [VMpy.set_stack vm_append st_pc st_stack st_alt st_cond st_opc st_bch
                  AgreeBase.abs e_stack e_alt e_vf e_opc e_bch].
Ltac fin := cbn; repeat split; reflexivity.

Definition hash_byte (h : hashop) : byte :=
  match h with HRipemd160 => xa6 | HSha1 => xa7 | HSha256 => xa8 | HHash160 => xa9 | HHash256 => xaa end.

Lemma agree_hash h s vf rest fx : hres_nf s vf (handler (KHash h) s) (exec_op (hash_byte h) rest fx (abs s vf)).
Proof.
  cbn [VMpy.handler]. destruct s as [pc stk alt cond opc bch]. destruct stk as [|a r]; destruct h; try exact I; fin.
Qed.

Lemma agree_codesep s vf rest fx : rest = skipn (st_pc s) script ->
  hres_nf s vf (handler KCodeSeparator s) (exec_op xab rest fx (abs s vf)).
Proof. intros ->. destruct s as [pc stk alt cond opc bch]. fin. Qed.

Lemma agree_nop s vf rest fx : hres_nf s vf (handler KNop s) (exec_op x61 rest fx (abs s vf)).
Proof. destruct s. fin. Qed.

Lemma nop_upgradable s vf :
  hres_nf s vf (if VMpy.flag flags VERIFY_DISCOURAGE_UPGRADABLE_NOPS then VFail else VOk s)
             (op_nop_upgradable flags (abs s vf)).
Proof. unfold op_nop_upgradable, VMpy.flag. destruct (flag_set flags _); [exact I|]. destruct s. fin. Qed.

Definition is_upgradable_nop (op : byte) : bool :=
  match op with xb0 | xb3 | xb4 | xb5 | xb6 | xb7 | xb8 | xb9 => true | _ => false end.

Lemma agree_discourage op s vf rest fx : is_upgradable_nop op = true ->
  hres_nf s vf (handler KDiscourageNops s) (exec_op op rest fx (abs s vf)).
Proof.
  intros H. assert (E : exec_op op rest fx (abs s vf) = op_nop_upgradable flags (abs s vf)).
  { destruct op; try discriminate H; reflexivity. }
  rewrite E. apply nop_upgradable.
Qed.

(* `if len(top) > 5: raise` followed by pop_int(5) is pop_int(5) *)
Lemma pop5 s top r (k : Z * vmstate -> vres vmstate) : st_stack s = top :: r ->
  (if (5 <? length top)%nat then VFail else vbind (vm_pop_int flags 5 s) k) =
  vbind (to_vres (script_num mn 5 top)) (fun z => k (z, VMpy.set_stack s r)).
Proof.
  intros E. rewrite vm_pop_int_eq, E. change (N.of_nat 5) with 5.
  unfold script_num, len.
  destruct (Nat.ltb_spec 5 (length top)); destruct (N.ltb_spec 5 (N.of_nat (length top))); try lia; try reflexivity.
  destruct (int_from_script_bytes top mn) as [z|e|]; reflexivity.
Qed.

Lemma agree_cltv s vf rest fx : hres_nf s vf (handler KCheckLockTimeVerify s) (exec_op xb1 rest fx (abs s vf)).
Proof.
  cbn [VMpy.handler VMcore.exec_op]. unfold do_OP_CHECKLOCKTIMEVERIFY, op_cltv.
  unfold VMpy.flag at 1. destruct (flag_set flags VERIFY_CHECKLOCKTIMEVERIFY); cbn [negb]; [|apply nop_upgradable].
  destruct s as [pc stk alt cond opc bch]. norm.
  destruct stk as [|a r]. { destruct (tc_sequence ctx =? 4294967295); exact I. }
  rewrite (pop5 _ a r) by reflexivity. norm.
  destruct (tc_sequence ctx =? 4294967295) eqn:Eseq.
  { d_sn; cbn [cbind]; try exact I. destruct (z <? 0)%Z; [exact I|].
    unfold check_lock_time, SEQUENCE_FINAL. rewrite Eseq. cbn [negb]. rewrite andb_false_r. exact I. }
  d_sn; cbn [to_vres vbind cbind]; [|exact I].
  destruct (z <? 0)%Z eqn:Ez; [exact I|].
  unfold check_lock_time, SEQUENCE_FINAL, VMcore.LOCKTIME_THRESHOLD, VMpy.LOCKTIME_THRESHOLD. rewrite Eseq.
  cbn [negb]. rewrite andb_true_r.
  set (lt := tc_lock_time ctx).
  destruct (Z.leb_spec 500000000 z); destruct (Z.leb_spec 500000000 (Z.of_N lt)); cbn [Bool.eqb negb];
    destruct (Z.ltb_spec (Z.of_N lt) z);
    destruct (N.ltb_spec lt 500000000); destruct (N.ltb_spec (Z.to_N z) 500000000);
    destruct (N.leb_spec 500000000 lt); destruct (N.leb_spec 500000000 (Z.to_N z));
    destruct (N.leb_spec (Z.to_N z) lt); cbn [andb orb]; try lia; try exact I; fin.
Qed.

Lemma agree_csv s vf rest fx : hres_nf s vf (handler KCheckSequenceVerify s) (exec_op xb2 rest fx (abs s vf)).
Proof.
  cbn [VMpy.handler VMcore.exec_op]. unfold do_OP_CHECKSEQUENCEVERIFY, op_csv.
  unfold VMpy.flag at 1. destruct (flag_set flags VERIFY_CHECKSEQUENCEVERIFY); cbn [negb]; [|apply nop_upgradable].
  destruct s as [pc stk alt cond opc bch]. norm.
  destruct stk as [|a r]; [exact I|].
  rewrite (pop5 _ a r) by reflexivity. norm.
  d_sn; cbn [to_vres vbind cbind]; [|exact I].
  destruct (z <? 0)%Z eqn:Ez; [exact I|].
  unfold SEQ_LOCKTIME_DISABLE_FLAG, SEQUENCE_LOCKTIME_DISABLE_FLAG.
  destruct (N.land (Z.to_N z) 2147483648 =? 0); cbn [negb]; [|fin].
  unfold check_sequence, check_sequence_verify, SEQ_LOCKTIME_DISABLE_FLAG, SEQUENCE_LOCKTIME_DISABLE_FLAG,
    SEQ_LOCKTIME_TYPE_FLAG, SEQUENCE_LOCKTIME_TYPE_FLAG, SEQ_LOCKTIME_MASK.
  destruct (tc_version ctx <? 2); [exact I|].
  destruct (N.land (tc_sequence ctx) 2147483648 =? 0); cbn [negb]; [|exact I].
  set (m := N.lor 4194304 65535).
  set (x := N.land (tc_sequence ctx) m). set (y := N.land (Z.to_N z) m).
  destruct (N.ltb_spec x 4194304); destruct (N.ltb_spec y 4194304);
    destruct (N.leb_spec 4194304 x); destruct (N.leb_spec 4194304 y);
    destruct (N.ltb_spec x y); destruct (N.leb_spec y x); cbn [andb orb negb vbind]; try lia; try exact I; fin.
Qed.

End Misc.
