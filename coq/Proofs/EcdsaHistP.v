(* Proofs/EcdsaHistP.v — a memo is transparent on every history iff its key determines the result. *)
From Coq Require Import List Bool ZArith Lia.
From PV Require Import Model.EcdsaHist.
Import ListNotations.

Section HistP.
  Variables A B K : Type.
  Variable f : A -> B.
  Variable key : A -> K.
  Variable key_eqb : K -> K -> bool.
  Hypothesis key_eqb_spec : forall a b, key_eqb a b = true <-> a = b.

  Definition state_ok (st : list (K * B)) : Prop :=
    forall k b, lookup B K key_eqb k st = Some b -> exists a, key a = k /\ f a = b.

  Lemma memo_run_ok : (forall a b, key a = key b -> f a = f b) ->
    forall h st, state_ok st -> memo_run A B K f key key_eqb st h = map f h.
  Proof.
    intros Hdet. induction h as [|c r IH]; intros st Hst; cbn [memo_run map]; [reflexivity|].
    destruct (lookup B K key_eqb (key c) st) as [b|] eqn:E.
    - destruct (Hst _ _ E) as [a [Hk Hb]]. rewrite <- Hb, (Hdet a c Hk). f_equal. apply IH. exact Hst.
    - cbv zeta. f_equal. apply IH. intros k b Hl. cbn [lookup] in Hl.
      destruct (key_eqb k (key c)) eqn:Ek.
      + apply key_eqb_spec in Ek. inversion Hl; subst. exists c. split; reflexivity.
      + apply Hst. exact Hl.
  Qed.

  Theorem memo_transparent : (forall a b, key a = key b -> f a = f b) ->
    forall h, memo_run A B K f key key_eqb [] h = run_stateless A B f h.
  Proof. intros Hdet h. apply memo_run_ok; [exact Hdet|]. intros k b Hl. discriminate. Qed.

  Theorem memo_collision_visible : forall a b, key a = key b -> f a <> f b ->
    memo_run A B K f key key_eqb [] [a; b] <> run_stateless A B f [a; b].
  Proof.
    intros a b Hk Hf H. cbn in H.
    assert (E : key_eqb (key b) (key a) = true) by (apply key_eqb_spec; symmetry; exact Hk).
    rewrite E in H. inversion H. apply Hf. assumption.
  Qed.

  (* the stateless model: the result of a call does not depend on what was called before *)
  Theorem stateless_history_independent : forall (h1 h2 : list A) (c : A) (d : B),
    last (run_stateless A B f (h1 ++ [c])) d = last (run_stateless A B f (h2 ++ [c])) d.
  Proof.
    intros h1 h2 c d. unfold run_stateless. rewrite !map_app. cbn [map]. rewrite !last_last. reflexivity.
  Qed.
End HistP.

(* CPython's hash of a non-negative int is its residue modulo 2^61 - 1: not injective on 256-bit hashes, and it does
   not determine the residue modulo a 256-bit order that enters the RFC 6979 nonce *)
Definition py_int_hash (v : Z) : Z := (v mod (2 ^ 61 - 1))%Z.

Lemma py_hash_collision : forall n : Z, (2 ^ 62 < n)%Z ->
  exists z1 z2 : Z, (0 < z1 < n /\ 0 < z2 < n /\ z1 <> z2 /\ py_int_hash z1 = py_int_hash z2 /\ z1 mod n <> z2 mod n)%Z.
Proof.
  intros n Hn. exists 1%Z, 2305843009213693952%Z. unfold py_int_hash.
  change (2 ^ 62)%Z with 4611686018427387904%Z in Hn. change (2 ^ 61 - 1)%Z with 2305843009213693951%Z.
  split; [lia|]. split; [lia|]. split; [lia|]. split; [reflexivity|].
  rewrite !Z.mod_small by lia. lia.
Qed.
