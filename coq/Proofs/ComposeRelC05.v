(* Proofs/ComposeRelC05.v — property C05 RELATIVISED: the three main theorems of Props/C05.v re-derived under interface
   hypotheses that are restricted to the inputs the signer really feeds to ECDSA.

   Props/C05.v assumes of the abstract interface
       sign_verifies  : forall se c d,  verifies (pub_of se c) d (sign se d) = true
       sign_canonical : forall se d t,  strict_der (sign se d ++ [t]) = true /\ low_s (sign se d ++ [t]) = true
       pub_wellformed : forall se,      is_compressed (pub_of se true) = true /\ is_uncompressed (pub_of se false) = true
       mo_excl        : forall .. d,    a signature of one listed key does not verify under another listed key
   for EVERY secret, EVERY digest.  No real ECDSA satisfies that (Proofs/ComposeEcC05.v: the zero digest cannot be signed,
   a secret that is a multiple of n has no public key, the nonce loop needs fuel; exclusivity for ALL 2^256 digests is
   not a fact about secp256k1).  Here the same conclusions are proved from the hypotheses restricted to
       se  in  S   the secrets of the listed keys                                     (`In se (map fst ks)`)
       d   in  D   the digests the coin can produce for THIS input's script code:      (`produced sighash W SC d`)
                   d = sighash W t SC for some hash type t < 256, W / SC the (witness?, script code) of the puzzle.
   Technique: no proof of Proofs/SolveP.v is redone.  From an interface that is good on S x D a total one is built by
   NORMALISATION (secrets outside S are replaced by a fixed one of S, digests outside D by a fixed one of D; both
   memberships are decidable: S is a list, D is the image of the 256 hash types); the normalised interface satisfies the
   unrestricted hypotheses, so SolveP's theorems apply to it; and the signer model and the template evaluator cannot tell the
   two interfaces apart (`*_ext` lemmas below: sign_input / run / eval_input only ever call verifies / sign on digests of D,
   sign on secrets the lookup table returns for a listed key). *)
From Coq Require Import List Bool Lia.
From PV Require Import Base.Bytes Base.Outcome Gen.GenSolveC05 Spec.Templates Model.Solve Proofs.SolveP.
From Coq Require Import ZifyBool ZifyNat ZifyN.
Import ListNotations.
Local Open Scope N_scope.

(* ---- the digests an input can ask ECDSA about ------------------------------------------------------------------ *)
Definition produced (sighash : bool -> N -> bytes -> option bytes) (wit : bool) (sc : bytes) (d : bytes) : Prop :=
  exists t, t < 256 /\ sighash wit t sc = Some d.

Definition hash_types : list N := map N.of_nat (seq 0 256).

Lemma hash_types_spec t : In t hash_types <-> t < 256.
Proof.
  unfold hash_types. rewrite in_map_iff. split.
  - intros (i & <- & Hi). apply in_seq in Hi. lia.
  - intros H. exists (N.to_nat t). split; [lia|]. apply in_seq. lia.
Qed.

Definition producedb (sighash : bool -> N -> bytes -> option bytes) (wit : bool) (sc : bytes) (d : bytes) : bool :=
  existsb (fun t => match sighash wit t sc with Some d' => bytes_eqb d d' | None => false end) hash_types.

Lemma producedb_spec sighash wit sc d : producedb sighash wit sc d = true <-> produced sighash wit sc d.
Proof.
  unfold producedb, produced. rewrite existsb_exists. split.
  - intros (t & Ht & E). apply hash_types_spec in Ht. exists t. split; [exact Ht|].
    destruct (sighash wit t sc) as [d'|]; [|discriminate]. apply bytes_eqb_eq in E. now subst.
  - intros (t & Ht & E). exists t. split; [now apply hash_types_spec|]. rewrite E. apply bytes_eqb_refl.
Qed.

Lemma hash_type_of_lt sig : hash_type_of sig < 256.
Proof. unfold hash_type_of. apply b2n_lt. Qed.

(* ================================================================================================================ *)
(* 1. the template evaluator calls `verifies` only on produced digests                                              *)
Section EvalExt.
Variable hash160 : bytes -> bytes.
Variable sha256 : bytes -> bytes.
Variables v1 v2 : bytes -> bytes -> bytes -> bool.
Variable sighash : bool -> N -> bytes -> option bytes.
Variable fl : flags.

Section Pair.
Variable wit : bool.
Variable sc : bytes.
Hypothesis Av : forall pk d sig, produced sighash wit sc d -> v1 pk d sig = v2 pk d sig.

Lemma sig_verifies_ext sig pk : sig_verifies v1 sighash wit sc sig pk = sig_verifies v2 sighash wit sc sig pk.
Proof.
  unfold sig_verifies. destruct sig as [|b sig]; [reflexivity|].
  destruct (sighash wit (hash_type_of (b :: sig)) sc) as [d|] eqn:E; [|reflexivity].
  apply Av. exists (hash_type_of (b :: sig)). split; [apply hash_type_of_lt | exact E].
Qed.

Lemma checksig_ext sig pk : checksig v1 sighash fl wit sc sig pk = checksig v2 sighash fl wit sc sig pk.
Proof. unfold checksig. now rewrite sig_verifies_ext. Qed.

Lemma cms_ext keys : forall sigs, cms v1 sighash fl wit sc keys sigs = cms v2 sighash fl wit sc keys sigs.
Proof.
  induction keys as [|k kr IH]; intros [|s sr]; cbn [cms]; try reflexivity.
  rewrite sig_verifies_ext. destruct (sig_enc_ok fl s && pub_enc_ok fl wit k); [|reflexivity].
  destruct (sig_verifies v2 sighash wit sc s k); now rewrite IH.
Qed.

Lemma eval_multisig_ext clean m keys st :
  eval_multisig v1 sighash fl wit clean sc m keys st = eval_multisig v2 sighash fl wit clean sc m keys st.
Proof. unfold eval_multisig. destruct (skipn _ st); [reflexivity|]. now rewrite cms_ext. Qed.

Lemma eval_p2pkh_ext clean h st :
  eval_p2pkh hash160 v1 sighash fl wit clean sc h st = eval_p2pkh hash160 v2 sighash fl wit clean sc h st.
Proof.
  unfold eval_p2pkh. destruct (split_last st) as [[st1 pk]|]; [|reflexivity].
  destruct (split_last st1) as [[rest sig]|]; [|reflexivity]. now rewrite checksig_ext.
Qed.
End Pair.

Lemma eval_p2pk_ext sc clean key st :
  (forall pk d sig, produced sighash false sc d -> v1 pk d sig = v2 pk d sig) ->
  eval_p2pk v1 sighash fl clean sc key st = eval_p2pk v2 sighash fl clean sc key st.
Proof.
  intros Av. unfold eval_p2pk. destruct (split_last st) as [[rest sig]|]; [|reflexivity].
  now rewrite (checksig_ext false sc Av).
Qed.

(* the (witness?, script code) pair the signatures of a puzzle commit to *)
Definition commit (pz : puzzle) : bool * bytes :=
  match pz_kind pz with
  | K_P2PK => (false, p2pk_script (hd [] (pz_keys pz)))
  | K_P2PKH => (false, p2pkh_script (pz_hash pz))
  | K_P2WPKH | K_P2SH_P2WPKH => (true, p2pkh_script (pz_hash pz))
  | K_MS | K_P2SH_MS => (false, ms_script (pz_m pz) (pz_keys pz))
  | K_P2WSH_MS | K_P2SH_P2WSH_MS => (true, ms_script (pz_m pz) (pz_keys pz))
  end.

Lemma eval_input_ext pz :
  (forall pk d sig, produced sighash (fst (commit pz)) (snd (commit pz)) d -> v1 pk d sig = v2 pk d sig) ->
  forall ss w, eval_input hash160 sha256 v1 sighash fl pz ss w = eval_input hash160 sha256 v2 sighash fl pz ss w.
Proof.
  intros Av ss w. unfold eval_input.
  destruct (10000 <? lenN ss); [reflexivity|].
  destruct (parse_pushes ss) as [[items minimal]|]; [|reflexivity].
  destruct ((f_std fl && negb minimal) || negb (all_le_520 items) || (1000 <? lenN items)); [reflexivity|].
  unfold commit in Av. unfold eval_witness_part.
  destruct (pz_kind pz); cbn [fst snd] in Av.
  - now rewrite (eval_p2pk_ext _ _ _ _ Av).
  - now rewrite (eval_p2pkh_ext false _ Av).
  - now rewrite (eval_multisig_ext false _ Av).
  - destruct (split_last items) as [[st redeem]|]; [|reflexivity]. now rewrite (eval_multisig_ext false _ Av).
  - destruct (split_last w) as [[st ws]|]; [|reflexivity]. now rewrite (eval_multisig_ext true _ Av).
  - destruct (split_last w) as [[st ws]|]; [|reflexivity]. now rewrite (eval_multisig_ext true _ Av).
  - now rewrite (eval_p2pkh_ext true _ Av).
  - now rewrite (eval_p2pkh_ext true _ Av).
Qed.
End EvalExt.

(* ================================================================================================================ *)
(* 2. the signer model calls verifies / sign on produced digests only, sign / pub_of on secrets the table returns     *)
Section SolveExt.
Variable hash160 : bytes -> bytes.
Variable sha256 : bytes -> bytes.
Variables v1 v2 : bytes -> bytes -> bytes -> bool.
Variables s1 s2 : bytes -> bytes -> bytes.
Variables p1 p2 : bytes -> bool -> bytes.
Variable sighash : bool -> N -> bytes -> option bytes.
Variable okse : bytes -> Prop.
Variable db : lookup.
Variable p2sh : list bytes.

Section Pair.
Variable wit : bool.
Variable sc : bytes.
Hypothesis Av : forall pk d sig, produced sighash wit sc d -> v1 pk d sig = v2 pk d sig.
Hypothesis As : forall se d, okse se -> produced sighash wit sc d -> s1 se d = s2 se d.

Lemma first_match_ext (f g : bytes -> bool) keys : (forall k, f k = g k) -> forall i, first_match f keys i = first_match g keys i.
Proof. intros H. induction keys as [|k r IH]; intros i; cbn [first_match]; [reflexivity|]. rewrite H. destruct (g k); auto. Qed.

Lemma find_sigs_ext max_sigs keys blobs : forall seen,
  find_sigs v1 sighash wit sc max_sigs keys blobs seen = find_sigs v2 sighash wit sc max_sigs keys blobs seen.
Proof.
  induction blobs as [|d r IH]; intros seen; cbn [find_sigs]; [reflexivity|].
  destruct (max_sigs <=? seen)%nat; [reflexivity|].
  destruct (parse_sig_ok d); [|apply IH].
  rewrite IH.
  destruct (sighash wit (hash_type_of d) sc) as [dg|] eqn:E; [|reflexivity].
  rewrite (first_match_ext (fun k => v1 k dg (removelast d)) (fun k => v2 k dg (removelast d))); [reflexivity|].
  intros k. apply Av. exists (hash_type_of d). split; [apply hash_type_of_lt | exact E].
Qed.

Lemma sign_loop_ext ht nvars todo solved :
  (forall o sec se c, In (o, sec) todo -> lookup_get db (hash160 sec) = Some (se, c) -> okse se) ->
  forall acc, Solve.sign_loop hash160 s1 sighash db wit sc ht nvars todo solved acc
            = Solve.sign_loop hash160 s2 sighash db wit sc ht nvars todo solved acc.
Proof.
  induction todo as [|[o sec] r IH]; intros Hdb acc; cbn [Solve.sign_loop]; [reflexivity|].
  assert (Hr : forall o sec se c, In (o, sec) r -> lookup_get db (hash160 sec) = Some (se, c) -> okse se)
    by (intros; eapply Hdb; [right|]; eauto).
  destruct (existsb (bytes_eqb sec) solved); [now apply IH|].
  destruct (nvars <=? length acc)%nat; [reflexivity|].
  destruct (lookup_get db (hash160 sec)) as [[se c]|] eqn:El; [|now apply IH].
  destruct (sighash wit ht sc) as [dg|] eqn:E; [|reflexivity].
  destruct (256 <=? ht) eqn:E256; [reflexivity|].
  rewrite (As se dg); [now apply IH | eapply Hdb; [left; reflexivity | exact El] |].
  exists ht. split; [lia | exact E].
Qed.

Lemma enumerate_from_in {A} (l : list A) : forall i o x, In (o, x) (enumerate_from i l) -> In x l.
Proof.
  induction l as [|y l IH]; intros i o x; cbn [enumerate_from]; [intros []|].
  intros [H|H]; [injection H as _ <-; now left | right; eauto].
Qed.

Lemma signing_solver_ext ht nvars keys blobs :
  (forall sec se c, In sec keys -> lookup_get db (hash160 sec) = Some (se, c) -> okse se) ->
  signing_solver hash160 v1 s1 sighash db wit sc ht nvars keys blobs
  = signing_solver hash160 v2 s2 sighash db wit sc ht nvars keys blobs.
Proof.
  intros Hdb. unfold signing_solver. rewrite find_sigs_ext.
  destruct (find_sigs v2 sighash wit sc nvars (rev keys) blobs 0) as [existing solved].
  rewrite sign_loop_ext; [reflexivity|].
  intros o sec se c Hin. apply Hdb.
  apply in_rev in Hin. apply enumerate_from_in in Hin. now apply in_rev.
Qed.
End Pair.

Hypothesis Ap : forall se c, okse se -> p1 se c = p2 se c.

(* what the lookup table may be asked about a puzzle, and must then answer with a secret of the domain *)
Definition db_keys_dom (keys : list bytes) : Prop :=
  forall sec se c, In sec keys -> lookup_get db (hash160 sec) = Some (se, c) -> okse se.
Definition db_hash_dom (h : bytes) : Prop :=
  forall se c, lookup_get db h = Some (se, c) ->
    okse se /\ forall se' c', lookup_get db (hash160 (p1 se c)) = Some (se', c') -> okse se'.
Definition db_dom (pz : puzzle) : Prop :=
  match pz_kind pz with
  | K_P2PK => db_keys_dom [hd [] (pz_keys pz)]
  | K_P2PKH | K_P2WPKH | K_P2SH_P2WPKH => db_hash_dom (pz_hash pz)
  | _ => db_keys_dom (pz_keys pz)
  end.

Lemma solve_pkh_ext wit h ht blobs k :
  (forall pk d sig, produced sighash wit (p2pkh_script h) d -> v1 pk d sig = v2 pk d sig) ->
  (forall se d, okse se -> produced sighash wit (p2pkh_script h) d -> s1 se d = s2 se d) ->
  db_hash_dom h ->
  solve_pkh hash160 v1 s1 p1 sighash db wit h ht blobs k = solve_pkh hash160 v2 s2 p2 sighash db wit h ht blobs k.
Proof.
  intros Av As Hdb. unfold solve_pkh.
  destruct (lookup_get db h) as [[se c]|] eqn:El; [|reflexivity].
  destruct (Hdb se c El) as [Hse Hn].
  rewrite <- (Ap se c Hse).
  rewrite (signing_solver_ext wit (p2pkh_script h) Av As); [reflexivity|].
  intros sec se' c' [<-|[]] E. exact (Hn se' c' E).
Qed.

Lemma solve_input_ext pz ht ss w :
  (forall pk d sig, produced sighash (fst (commit pz)) (snd (commit pz)) d -> v1 pk d sig = v2 pk d sig) ->
  (forall se d, okse se -> produced sighash (fst (commit pz)) (snd (commit pz)) d -> s1 se d = s2 se d) ->
  db_dom pz ->
  solve_input hash160 sha256 v1 s1 p1 sighash db p2sh pz ht ss w = solve_input hash160 sha256 v2 s2 p2 sighash db p2sh pz ht ss w.
Proof.
  intros Av As Hk. unfold solve_input.
  destruct (existing_blobs ss w) as [blobs|]; [|reflexivity].
  unfold commit in Av, As. unfold db_dom in Hk.
  destruct (pz_kind pz); cbn [fst snd] in Av, As.
  - now rewrite (signing_solver_ext false _ Av As _ _ _ _ Hk).
  - now apply solve_pkh_ext.
  - now rewrite (signing_solver_ext false _ Av As _ _ _ _ Hk).
  - destruct (p2sh_get hash160 sha256 p2sh _) as [u|]; [|reflexivity]. destruct (520 <? lenN u); [reflexivity|].
    now rewrite (signing_solver_ext false _ Av As _ _ _ _ Hk).
  - destruct (p2sh_get hash160 sha256 p2sh _); [|reflexivity]. now rewrite (signing_solver_ext true _ Av As _ _ _ _ Hk).
  - destruct (p2sh_get hash160 sha256 p2sh _); [|reflexivity]. destruct (p2sh_get hash160 sha256 p2sh _); [|reflexivity].
    now rewrite (signing_solver_ext true _ Av As _ _ _ _ Hk).
  - now apply solve_pkh_ext.
  - destruct (p2sh_get hash160 sha256 p2sh _); [|reflexivity]. now apply solve_pkh_ext.
Qed.
End SolveExt.

(* ================================================================================================================ *)
(* 3. one iteration of Solver.sign, and sequences of passes                                                         *)
Section SignExt.
Variable hash160 : bytes -> bytes.
Variable sha256 : bytes -> bytes.
Variables v1 v2 : bytes -> bytes -> bytes -> bool.
Variables s1 s2 : bytes -> bytes -> bytes.
Variables p1 p2 : bytes -> bool -> bytes.
Variable sighash : bool -> N -> bytes -> option bytes.
Variable okse : bytes -> Prop.
Variable pz : puzzle.
Hypothesis Av : forall pk d sig, produced sighash (fst (commit pz)) (snd (commit pz)) d -> v1 pk d sig = v2 pk d sig.
Hypothesis As : forall se d, okse se -> produced sighash (fst (commit pz)) (snd (commit pz)) d -> s1 se d = s2 se d.
Hypothesis Ap : forall se c, okse se -> p1 se c = p2 se c.

Lemma sign_input_ext db p2sh forkid hto ss w : db_dom hash160 p1 okse db pz ->
  sign_input hash160 sha256 v1 s1 p1 sighash db p2sh forkid pz hto ss w
  = sign_input hash160 sha256 v2 s2 p2 sighash db p2sh forkid pz hto ss w.
Proof.
  intros Hdb. unfold sign_input.
  rewrite (eval_input_ext hash160 sha256 v1 v2 sighash LAX pz Av).
  now rewrite (solve_input_ext hash160 sha256 v1 v2 s1 s2 p1 p2 sighash okse db p2sh Ap pz _ ss w Av As Hdb).
Qed.
End SignExt.

(* everything C05 says about the listed keys depends on pub_of through their SEC encodings only *)
Section PubExt.
Variable hash160 : bytes -> bytes.
Variable sha256 : bytes -> bytes.
Variables p1 p2 : bytes -> bool -> bytes.
Variable ks : list keyspec.
Hypothesis Hpub : forall k, In k ks -> pub p1 k = pub p2 k.

Lemma keys_ext : map (pub p1) ks = map (pub p2) ks.
Proof. now apply map_ext_in. Qed.

Lemma pz_ms_ext kd m : pz_ms p1 kd m ks = pz_ms p2 kd m ks.
Proof. unfold pz_ms. now rewrite keys_ext. Qed.

Lemma ms_shape_ext kd m : ms_shape p1 kd m ks -> ms_shape p2 kd m ks.
Proof. intros [H1 H2 H3 H4 H5]. rewrite keys_ext in H4, H5. now constructor. Qed.

Lemma p2sh_ok_ext kd m p2sh : p2sh_ok hash160 sha256 p1 kd m ks p2sh -> p2sh_ok hash160 sha256 p2 kd m ks p2sh.
Proof. unfold p2sh_ok. now rewrite keys_ext. Qed.

Lemma db_ok_ext db : db_ok hash160 p1 db ks -> db_ok hash160 p2 db ks.
Proof. intros H k se c Hk. rewrite <- (Hpub k Hk). now apply H. Qed.

Lemma avail_ext db k : In k ks -> avail hash160 p1 db k = avail hash160 p2 db k.
Proof. intros Hk. unfold avail. now rewrite (Hpub k Hk). Qed.

Lemma ncovered_ext passes : ncovered hash160 p1 ks passes = ncovered hash160 p2 ks passes.
Proof.
  unfold ncovered. f_equal. apply filter_ext_in. intros k Hk. unfold covered.
  induction passes as [|p r IH]; cbn [existsb]; [reflexivity|]. now rewrite IH, (avail_ext _ k Hk).
Qed.

Lemma pass_ok_ext sighash forkid kd m fl0 p :
  pass_ok hash160 p1 sighash forkid kd m ks fl0 p -> pass_ok hash160 p2 sighash forkid kd m ks fl0 p.
Proof. unfold pass_ok, PH. rewrite keys_ext. intros [H1 H2]. split; [now apply db_ok_ext | exact H2]. Qed.
End PubExt.

(* ================================================================================================================ *)
(* 4. normalisation: an interface that is good on S x D extended to a total one                                     *)
Section Norm.
Variable verifies : bytes -> bytes -> bytes -> bool.
Variable sign : bytes -> bytes -> bytes.
Variable pub_of : bytes -> bool -> bytes.
Variable sighash : bool -> N -> bytes -> option bytes.
Variable S : list bytes.
Variable W : bool.
Variable SC : bytes.
Variable se0 d0 : bytes.
Hypothesis Hse0 : In se0 S.
Hypothesis Hd0 : produced sighash W SC d0.

Definition inS (se : bytes) : bool := existsb (bytes_eqb se) S.
Lemma inS_spec se : inS se = true <-> In se S.
Proof.
  unfold inS. rewrite existsb_exists. split.
  - intros (x & Hx & E). apply bytes_eqb_eq in E. now subst.
  - intros H. exists se. split; [exact H | apply bytes_eqb_refl].
Qed.

Definition nse (se : bytes) : bytes := if inS se then se else se0.
Definition nd (d : bytes) : bytes := if producedb sighash W SC d then d else d0.

Lemma nse_in se : In (nse se) S.
Proof. unfold nse. destruct (inS se) eqn:E; [now apply inS_spec | exact Hse0]. Qed.
Lemma nse_id se : In se S -> nse se = se.
Proof. intros H. unfold nse. apply inS_spec in H. now rewrite H. Qed.
Lemma nd_produced d : produced sighash W SC (nd d).
Proof. unfold nd. destruct (producedb sighash W SC d) eqn:E; [now apply producedb_spec | exact Hd0]. Qed.
Lemma nd_id d : produced sighash W SC d -> nd d = d.
Proof. intros H. unfold nd. apply producedb_spec in H. now rewrite H. Qed.

Definition n_sign (se d : bytes) : bytes := sign (nse se) (nd d).
Definition n_pub_of (se : bytes) (c : bool) : bytes := pub_of (nse se) c.
Definition n_verifies (pk d sig : bytes) : bool := verifies pk (nd d) sig.

Hypothesis Hsv : forall se c d, In se S -> produced sighash W SC d -> verifies (pub_of se c) d (sign se d) = true.
Hypothesis Hcanon : forall se d t, In se S -> produced sighash W SC d ->
  strict_der (sign se d ++ [t]) = true /\ low_s (sign se d ++ [t]) = true.

Lemma n_sign_verifies : forall se c d, n_verifies (n_pub_of se c) d (n_sign se d) = true.
Proof. intros. apply Hsv; [apply nse_in | apply nd_produced]. Qed.
Lemma n_sign_canonical : forall se d t, strict_der (n_sign se d ++ [t]) = true /\ low_s (n_sign se d ++ [t]) = true.
Proof. intros. apply Hcanon; [apply nse_in | apply nd_produced]. Qed.
Lemma n_pub_wellformed :
  (forall se, In se S -> is_compressed (pub_of se true) = true /\ is_uncompressed (pub_of se false) = true) ->
  forall se, is_compressed (n_pub_of se true) = true /\ is_uncompressed (n_pub_of se false) = true.
Proof. intros H se. apply H. apply nse_in. Qed.

(* the two interfaces agree where the model looks *)
Lemma n_verifies_agree pk d sig : produced sighash W SC d -> verifies pk d sig = n_verifies pk d sig.
Proof. intros H. unfold n_verifies. now rewrite nd_id. Qed.
Lemma n_sign_agree se d : In se S -> produced sighash W SC d -> sign se d = n_sign se d.
Proof. intros H1 H2. unfold n_sign. now rewrite nse_id, nd_id. Qed.
Lemma n_pub_agree se c : In se S -> pub_of se c = n_pub_of se c.
Proof. intros H. unfold n_pub_of. now rewrite nse_id. Qed.
Lemma n_pub_keys (ks : list keyspec) : (forall k, In k ks -> In (fst k) S) -> forall k, In k ks -> pub pub_of k = pub n_pub_of k.
Proof. intros H k Hk. unfold pub. apply n_pub_agree. now apply H. Qed.
End Norm.

(* ================================================================================================================ *)
(* 5. sequences of passes                                                                                            *)
Section RunExt.
Variable hash160 : bytes -> bytes.
Variable sha256 : bytes -> bytes.
Variables v1 v2 : bytes -> bytes -> bytes -> bool.
Variables s1 s2 : bytes -> bytes -> bytes.
Variables p1 p2 : bytes -> bool -> bytes.
Variable sighash : bool -> N -> bytes -> option bytes.
Variable okse : bytes -> Prop.
Variable forkid : bool.
Variable p2sh : list bytes.
Variable kd : kind.
Variable m : nat.
Variable ks : list keyspec.
Notation PZ := (pz_ms p1 kd m ks).
Hypothesis Av : forall pk d sig, produced sighash (fst (commit PZ)) (snd (commit PZ)) d -> v1 pk d sig = v2 pk d sig.
Hypothesis As : forall se d, okse se -> produced sighash (fst (commit PZ)) (snd (commit PZ)) d -> s1 se d = s2 se d.
Hypothesis Ap : forall se c, okse se -> p1 se c = p2 se c.
Hypothesis Hpub : forall k, In k ks -> pub p1 k = pub p2 k.

Lemma run_ext passes : Forall (fun p => db_dom hash160 p1 okse (p_db p) PZ) passes ->
  forall st, run hash160 sha256 v1 s1 p1 sighash forkid p2sh kd m ks passes st
           = run hash160 sha256 v2 s2 p2 sighash forkid p2sh kd m ks passes st.
Proof.
  induction 1 as [|p r Hp Hr IH]; intros st; cbn [run]; [reflexivity|].
  rewrite <- (pz_ms_ext p1 p2 ks Hpub kd m).
  rewrite (sign_input_ext hash160 sha256 v1 v2 s1 s2 p1 p2 sighash okse PZ Av As Ap (p_db p) p2sh forkid (p_ht p) (fst st) (snd st) Hp).
  destruct (sign_input hash160 sha256 v2 s2 p2 sighash (p_db p) p2sh forkid PZ (p_ht p) (fst st) (snd st)); auto.
Qed.
End RunExt.

(* ================================================================================================================ *)
(* 6. the three main theorems of C05 under the restricted interface hypotheses                                       *)
Section Rel.
Variable hash160 : bytes -> bytes.
Variable sha256 : bytes -> bytes.
Variable verifies : bytes -> bytes -> bytes -> bool.
Variable sign : bytes -> bytes -> bytes.
Variable pub_of : bytes -> bool -> bytes.
Variable sighash : bool -> N -> bytes -> option bytes.

(* the interface hypotheses of Props/C05.v, restricted to the listed keys `ks` and to the digests produced for the
   (witness?, script code) pair (W, SC) *)
Definition sv_on (ks : list keyspec) (W : bool) (SC : bytes) : Prop :=
  forall k c d, In k ks -> produced sighash W SC d -> verifies (pub_of (fst k) c) d (sign (fst k) d) = true.
Definition canon_on (ks : list keyspec) (W : bool) (SC : bytes) : Prop :=
  forall k d t, In k ks -> produced sighash W SC d ->
    strict_der (sign (fst k) d ++ [t]) = true /\ low_s (sign (fst k) d ++ [t]) = true.
Definition pubwf_on (ks : list keyspec) : Prop :=
  forall k, In k ks -> is_compressed (pub_of (fst k) true) = true /\ is_uncompressed (pub_of (fst k) false) = true.
(* exclusivity between listed keys, for produced digests only *)
Definition excl_on (ks : list keyspec) (W : bool) (SC : bytes) : Prop :=
  forall a k1 b k2 c d, ks = a ++ k1 :: b ++ k2 :: c -> produced sighash W SC d ->
    verifies (pub pub_of k1) d (sign (fst k2) d) = false /\ verifies (pub pub_of k2) d (sign (fst k1) d) = false.
Definition ph_on (ks : list keyspec) (W : bool) (SC : bytes) : Prop :=
  forall k d, In k ks -> sighash W 1 SC = Some d -> verifies (pub pub_of k) d (removelast gen_c05_placeholder) = false.

(* the unrestricted hypotheses of Props/C05.v imply the restricted ones *)
Lemma rel_from_unrestricted :
  (forall se c d, verifies (pub_of se c) d (sign se d) = true) ->
  (forall se d t, strict_der (sign se d ++ [t]) = true /\ low_s (sign se d ++ [t]) = true) ->
  (forall se, is_compressed (pub_of se true) = true /\ is_uncompressed (pub_of se false) = true) ->
  forall ks W SC, sv_on ks W SC /\ canon_on ks W SC /\ pubwf_on ks.
Proof.
  intros H1 H2 H3 ks W SC. split; [|split].
  - intros k c d _ _. apply H1.
  - intros k d t _ _. apply H2.
  - intros k _. apply H3.
Qed.

Lemma commit_ms kd m ks : is_ms_kind kd ->
  commit (pz_ms pub_of kd m ks) = (kwit kd, ms_script m (map (pub pub_of) ks)).
Proof. intros [ -> | [ -> | [ -> | -> ] ] ]; reflexivity. Qed.

Lemma commit_single kd k : is_single_kind kd ->
  commit (pz_single hash160 pub_of kd k) = (single_wit kd, single_sc hash160 pub_of kd k).
Proof. intros [ -> | [ -> | [ -> | -> ] ] ]; reflexivity. Qed.

Lemma in_fst_of (ks : list keyspec) se : In se (map fst ks) -> exists k, In k ks /\ fst k = se.
Proof. intros H. apply in_map_iff in H. destruct H as (k & E & Hk). eauto. Qed.

Lemma db_dom_ms kd m ks db : is_ms_kind kd -> db_ok hash160 pub_of db ks ->
  db_dom hash160 pub_of (fun se => In se (map fst ks)) db (pz_ms pub_of kd m ks).
Proof.
  intros Hkd Hdb.
  assert (H : db_keys_dom hash160 (fun se => In se (map fst ks)) db (map (pub pub_of) ks)).
  { intros sec se c Hin E. apply in_map_iff in Hin. destruct Hin as (k & <- & Hk).
    rewrite (Hdb k se c Hk E). now apply in_map. }
  unfold db_dom. destruct Hkd as [ -> | [ -> | [ -> | -> ] ] ]; exact H.
Qed.

(* ---- all listed keys supplied: the produced m-of-n input validates -------------------------------------------- *)
Theorem rel_ms_validates (Hsha : forall x, length (sha256 x) = 32%nat) fl forkid kd m ks db hto p2sh :
  sv_on ks (kwit kd) (ms_script m (map (pub pub_of) ks)) ->
  canon_on ks (kwit kd) (ms_script m (map (pub pub_of) ks)) ->
  ms_shape pub_of kd m ks -> p2sh_ok hash160 sha256 pub_of kd m ks p2sh -> db_ok hash160 pub_of db ks ->
  (forall k, In k ks -> avail hash160 pub_of db k = true) ->
  ht_ok sighash (kwit kd) (ms_script m (map (pub pub_of) ks)) (effective_hash_type forkid hto) ->
  (f_std fl = true -> f_strictenc fl = true -> std_hash_type (effective_hash_type forkid hto)) ->
  (forall k, In k ks -> pub_enc_ok fl (kwit kd) (pub pub_of k) = true) ->
  exists st, sign_input hash160 sha256 verifies sign pub_of sighash db p2sh forkid (pz_ms pub_of kd m ks) hto [] [] = Ret st /\
             eval_input hash160 sha256 verifies sighash fl (pz_ms pub_of kd m ks) (fst st) (snd st) = true.
Proof.
  intros Hsv Hcan Hsh Hp Hdb Hav Hht Hstd Hpub.
  assert (Hk0 : exists k0, In k0 ks).
  { destruct Hsh as [_ Hm _ _ _]. destruct ks as [|k0 kr]; [cbn in Hm; lia | exists k0; now left]. }
  destruct Hk0 as (k0 & Hk0).
  assert (Hkd : is_ms_kind kd) by now destruct Hsh.
  set (W := kwit kd) in *. set (SC := ms_script m (map (pub pub_of) ks)) in *.
  set (S := map fst ks).
  destruct (sighash W (effective_hash_type forkid hto) SC) as [d0|] eqn:Ed0; [|destruct Hht as [_ Hne]; congruence].
  assert (Hd0 : produced sighash W SC d0) by (exists (effective_hash_type forkid hto); split; [now destruct Hht | exact Ed0]).
  assert (Hse0 : In (fst k0) S) by (now apply in_map).
  assert (HsvS : forall se c d, In se S -> produced sighash W SC d -> verifies (pub_of se c) d (sign se d) = true).
  { intros se c d Hs Hd. destruct (in_fst_of ks se Hs) as (k & Hk & <-). now apply Hsv. }
  assert (HcanS : forall se d t, In se S -> produced sighash W SC d ->
                  strict_der (sign se d ++ [t]) = true /\ low_s (sign se d ++ [t]) = true).
  { intros se d t Hs Hd. destruct (in_fst_of ks se Hs) as (k & Hk & <-). now apply Hcan. }
  set (v' := n_verifies verifies sighash W SC d0).
  set (s' := n_sign sign sighash S W SC (fst k0) d0).
  set (p' := n_pub_of pub_of S (fst k0)).
  assert (HP : forall k, In k ks -> pub pub_of k = pub p' k).
  { apply n_pub_keys. intros k Hk. now apply in_map. }
  pose proof (keys_ext pub_of p' ks HP) as HK.
  destruct (ms_validates_c hash160 sha256 v' s' p' sighash
              (n_sign_verifies verifies sign pub_of sighash S W SC (fst k0) d0 Hse0 Hd0 HsvS)
              (n_sign_canonical sign sighash S W SC (fst k0) d0 Hse0 Hd0 HcanS)
              Hsha fl forkid kd m ks db hto p2sh) as (st & T1 & T2).
  - now apply (ms_shape_ext pub_of p' ks HP).
  - now apply (p2sh_ok_ext hash160 sha256 pub_of p' ks HP).
  - now apply (db_ok_ext hash160 pub_of p' ks HP).
  - intros k Hk. rewrite <- (avail_ext hash160 pub_of p' ks HP db k Hk). now apply Hav.
  - rewrite <- HK. exact Hht.
  - exact Hstd.
  - intros k Hk. rewrite <- (HP k Hk). now apply Hpub.
  - rewrite <- (pz_ms_ext pub_of p' ks HP) in T1, T2.
    assert (Av : forall pk d sig, produced sighash (fst (commit (pz_ms pub_of kd m ks))) (snd (commit (pz_ms pub_of kd m ks))) d ->
                 verifies pk d sig = v' pk d sig).
    { rewrite (commit_ms kd m ks Hkd). cbn [fst snd]. intros pk d sig Hd. now apply n_verifies_agree. }
    exists st. split.
    + rewrite <- T1.
      apply (sign_input_ext hash160 sha256 verifies v' sign s' pub_of p' sighash (fun se => In se S) (pz_ms pub_of kd m ks) Av).
      * rewrite (commit_ms kd m ks Hkd). cbn [fst snd]. intros se d Hs Hd. now apply n_sign_agree.
      * intros se c Hs. now apply n_pub_agree.
      * now apply db_dom_ms.
    + rewrite <- T2. now apply eval_input_ext.
Qed.

(* ---- P2PK, P2PKH, P2WPKH, P2SH-P2WPKH ---------------------------------------------------------------------------- *)
Theorem rel_single_validates (Hh : forall x, length (hash160 x) = 20%nat) fl forkid kd k db hto p2sh :
  sv_on [k] (single_wit kd) (single_sc hash160 pub_of kd k) ->
  canon_on [k] (single_wit kd) (single_sc hash160 pub_of kd k) ->
  pubwf_on [k] ->
  is_single_kind kd ->
  lookup_get db (hash160 (pub pub_of k)) = Some k ->
  (kd = K_P2SH_P2WPKH ->
   p2sh_get hash160 sha256 p2sh (hash160 (wit0_script (hash160 (pub pub_of k)))) = Some (wit0_script (hash160 (pub pub_of k)))) ->
  ht_ok sighash (single_wit kd) (single_sc hash160 pub_of kd k) (effective_hash_type forkid hto) ->
  (f_std fl = true -> f_strictenc fl = true -> std_hash_type (effective_hash_type forkid hto)) ->
  pub_enc_ok fl (single_wit kd) (pub pub_of k) = true ->
  exists st, sign_input hash160 sha256 verifies sign pub_of sighash db p2sh forkid (pz_single hash160 pub_of kd k) hto [] [] = Ret st /\
             eval_input hash160 sha256 verifies sighash fl (pz_single hash160 pub_of kd k) (fst st) (snd st) = true.
Proof.
  intros Hsv Hcan Hwf Hkd Hl Hp Hht Hstd Hpub.
  set (W := single_wit kd) in *. set (SC := single_sc hash160 pub_of kd k) in *.
  set (S := [fst k]).
  destruct (sighash W (effective_hash_type forkid hto) SC) as [d0|] eqn:Ed0; [|destruct Hht as [_ Hne]; congruence].
  assert (Hd0 : produced sighash W SC d0) by (exists (effective_hash_type forkid hto); split; [now destruct Hht | exact Ed0]).
  assert (Hse0 : In (fst k) S) by now left.
  assert (HsvS : forall se c d, In se S -> produced sighash W SC d -> verifies (pub_of se c) d (sign se d) = true).
  { intros se c d [<-|[]] Hd. apply Hsv; [now left | exact Hd]. }
  assert (HcanS : forall se d t, In se S -> produced sighash W SC d ->
                  strict_der (sign se d ++ [t]) = true /\ low_s (sign se d ++ [t]) = true).
  { intros se d t [<-|[]] Hd. apply Hcan; [now left | exact Hd]. }
  assert (HwfS : forall se, In se S -> is_compressed (pub_of se true) = true /\ is_uncompressed (pub_of se false) = true).
  { intros se [<-|[]]. apply Hwf. now left. }
  set (v' := n_verifies verifies sighash W SC d0).
  set (s' := n_sign sign sighash S W SC (fst k) d0).
  set (p' := n_pub_of pub_of S (fst k)).
  assert (HP : pub pub_of k = pub p' k) by (unfold pub; apply n_pub_agree; now left).
  assert (Hpz : pz_single hash160 p' kd k = pz_single hash160 pub_of kd k) by (unfold pz_single; now rewrite <- HP).
  assert (Hsc : single_sc hash160 p' kd k = SC) by (unfold SC, single_sc; now rewrite <- HP).
  destruct (single_validates_c hash160 sha256 v' s' p' sighash
              (n_sign_verifies verifies sign pub_of sighash S W SC (fst k) d0 Hse0 Hd0 HsvS)
              (n_sign_canonical sign sighash S W SC (fst k) d0 Hse0 Hd0 HcanS)
              Hh (n_pub_wellformed pub_of S (fst k) Hse0 HwfS)
              fl forkid kd k db hto p2sh) as (st & T1 & T2).
  - exact Hkd.
  - now rewrite <- HP.
  - rewrite <- HP. exact Hp.
  - rewrite Hsc. exact Hht.
  - exact Hstd.
  - now rewrite <- HP.
  - rewrite Hpz in T1, T2.
    assert (Av : forall pk d sig, produced sighash (fst (commit (pz_single hash160 pub_of kd k))) (snd (commit (pz_single hash160 pub_of kd k))) d ->
                 verifies pk d sig = v' pk d sig).
    { rewrite (commit_single kd k Hkd). cbn [fst snd]. intros pk d sig Hd. now apply n_verifies_agree. }
    exists st. split.
    + rewrite <- T1.
      apply (sign_input_ext hash160 sha256 verifies v' sign s' pub_of p' sighash (fun se => In se S) (pz_single hash160 pub_of kd k) Av).
      * rewrite (commit_single kd k Hkd). cbn [fst snd]. intros se d Hs Hd. now apply n_sign_agree.
      * intros se c Hs. now apply n_pub_agree.
      * assert (Hk1 : forall se c, lookup_get db (hash160 (pub pub_of k)) = Some (se, c) -> (se, c) = k)
          by (intros se c E; rewrite Hl in E; now injection E).
        unfold db_dom. destruct Hkd as [ -> | [ -> | [ -> | -> ] ] ]; cbn [pz_single pz_kind pz_keys pz_hash hd].
        -- intros sec se c [<-|[]] E. unfold S. rewrite <- (Hk1 se c E). now left.
        -- intros se c E. pose proof (Hk1 se c E) as <-. split; [now left|]. intros se' c' E'. unfold S. rewrite <- (Hk1 se' c' E'). now left.
        -- intros se c E. pose proof (Hk1 se c E) as <-. split; [now left|]. intros se' c' E'. unfold S. rewrite <- (Hk1 se' c' E'). now left.
        -- intros se c E. pose proof (Hk1 se c E) as <-. split; [now left|]. intros se' c' E'. unfold S. rewrite <- (Hk1 se' c' E'). now left.
    + rewrite <- T2. now apply eval_input_ext.
Qed.

(* ---- partial signing in any order ---------------------------------------------------------------------------------- *)
Theorem rel_partial_signing_order_free (Hsha : forall x, length (sha256 x) = 32%nat) forkid p2sh kd m ks fl0 :
  sv_on ks (kwit kd) (ms_script m (map (pub pub_of) ks)) ->
  canon_on ks (kwit kd) (ms_script m (map (pub pub_of) ks)) ->
  ms_shape pub_of kd m ks ->
  excl_on ks (kwit kd) (ms_script m (map (pub pub_of) ks)) ->
  ph_on ks (kwit kd) (ms_script m (map (pub pub_of) ks)) ->
  p2sh_ok hash160 sha256 pub_of kd m ks p2sh ->
  (forall k, In k ks -> pub_enc_ok fl0 (kwit kd) (pub pub_of k) = true) ->
  forall passes : list pass,
  Forall (pass_ok hash160 pub_of sighash forkid kd m ks fl0) passes ->
  exists st, run hash160 sha256 verifies sign pub_of sighash forkid p2sh kd m ks passes ([], []) = Ret st /\
             (eval_input hash160 sha256 verifies sighash fl0 (pz_ms pub_of kd m ks) (fst st) (snd st) = true <->
              (m <= ncovered hash160 pub_of ks passes)%nat).
Proof.
  intros Hsv Hcan Hsh Hex Hph Hp Hpub passes Hall.
  destruct passes as [|p0 pr].
  { (* no pass at all: nothing is signed, nothing is covered *)
    exists ([], []). split; [reflexivity|]. cbn [fst snd].
    rewrite (eval_empty hash160 sha256 verifies pub_of sighash fl0 kd m ks Hsh).
    unfold ncovered, covered. cbn [existsb].
    assert (E : length (filter (fun _ : keyspec => false) ks) = 0%nat) by (clear; induction ks; auto).
    rewrite E. destruct Hsh as [_ Hm _ _ _]. split; [discriminate | lia]. }
  remember (p0 :: pr) as passes eqn:Epasses.
  assert (Hht : ht_ok sighash (kwit kd) (ms_script m (map (pub pub_of) ks)) (effective_hash_type forkid (p_ht p0))).
  { rewrite Epasses in Hall. apply Forall_inv in Hall. destruct Hall as [_ [H _]]. exact H. }
  clear Epasses.
  assert (Hk0 : exists k0, In k0 ks).
  { destruct Hsh as [_ Hm _ _ _]. destruct ks as [|k0 kr]; [cbn in Hm; lia | exists k0; now left]. }
  destruct Hk0 as (k0 & Hk0).
  assert (Hkd : is_ms_kind kd) by now destruct Hsh.
  set (W := kwit kd) in *. set (SC := ms_script m (map (pub pub_of) ks)) in *.
  set (S := map fst ks).
  destruct (sighash W (effective_hash_type forkid (p_ht p0)) SC) as [d0|] eqn:Ed0; [|destruct Hht as [_ Hne]; congruence].
  assert (Hd0 : produced sighash W SC d0) by (exists (effective_hash_type forkid (p_ht p0)); split; [now destruct Hht | exact Ed0]).
  assert (Hse0 : In (fst k0) S) by (now apply in_map).
  assert (HsvS : forall se c d, In se S -> produced sighash W SC d -> verifies (pub_of se c) d (sign se d) = true).
  { intros se c d Hs Hd. destruct (in_fst_of ks se Hs) as (k & Hk & <-). now apply Hsv. }
  assert (HcanS : forall se d t, In se S -> produced sighash W SC d ->
                  strict_der (sign se d ++ [t]) = true /\ low_s (sign se d ++ [t]) = true).
  { intros se d t Hs Hd. destruct (in_fst_of ks se Hs) as (k & Hk & <-). now apply Hcan. }
  set (v' := n_verifies verifies sighash W SC d0).
  set (s' := n_sign sign sighash S W SC (fst k0) d0).
  set (p' := n_pub_of pub_of S (fst k0)).
  assert (HP : forall k, In k ks -> pub pub_of k = pub p' k).
  { apply n_pub_keys. intros k Hk. now apply in_map. }
  pose proof (keys_ext pub_of p' ks HP) as HK.
  assert (Hms' : ms_ok v' s' p' sighash kd m ks).
  { destruct (ms_shape_ext pub_of p' ks HP kd m Hsh) as [H1 H2 H3 H4 H5].
    constructor; try assumption.
    - intros a k1 b k2 c d Eks.
      assert (Hk1 : In k1 ks) by (rewrite Eks; apply in_or_app; right; now left).
      assert (Hk2 : In k2 ks) by (rewrite Eks; apply in_or_app; right; right; apply in_or_app; right; now left).
      rewrite <- (HP k1 Hk1), <- (HP k2 Hk2). unfold v', s', n_verifies, n_sign.
      rewrite !(nse_id S (fst k0)) by (now apply in_map).
      apply (Hex a k1 b k2 c (nd sighash W SC d0 d) Eks). now apply nd_produced.
    - intros k d Hk Ed. rewrite <- HK in Ed. rewrite <- (HP k Hk).
      assert (Hd : produced sighash W SC d) by (exists 1; split; [lia | exact Ed]).
      unfold v'. rewrite <- (n_verifies_agree verifies sighash W SC d0 _ _ _ Hd). now apply (Hph k d). }
  destruct (partial_signing_order_free_c hash160 sha256 v' s' p' sighash
              (n_sign_verifies verifies sign pub_of sighash S W SC (fst k0) d0 Hse0 Hd0 HsvS)
              (n_sign_canonical sign sighash S W SC (fst k0) d0 Hse0 Hd0 HcanS)
              Hsha forkid p2sh kd m ks fl0 Hms') with (passes := passes) as (st & T1 & T2).
  - now apply (p2sh_ok_ext hash160 sha256 pub_of p' ks HP).
  - intros k Hk. rewrite <- (HP k Hk). now apply Hpub.
  - revert Hall. apply Forall_impl. intros p. apply (pass_ok_ext hash160 pub_of p' ks HP).
  - rewrite <- (pz_ms_ext pub_of p' ks HP) in T2.
    rewrite <- (ncovered_ext hash160 pub_of p' ks HP) in T2.
    assert (Av : forall pk d sig, produced sighash (fst (commit (pz_ms pub_of kd m ks))) (snd (commit (pz_ms pub_of kd m ks))) d ->
                 verifies pk d sig = v' pk d sig).
    { rewrite (commit_ms kd m ks Hkd). cbn [fst snd]. intros pk d sig Hd. now apply n_verifies_agree. }
    exists st. split.
    + rewrite <- T1.
      apply (run_ext hash160 sha256 verifies v' sign s' pub_of p' sighash (fun se => In se S) forkid p2sh kd m ks Av).
      * rewrite (commit_ms kd m ks Hkd). cbn [fst snd]. intros se d Hs Hd. now apply n_sign_agree.
      * intros se c Hs. now apply n_pub_agree.
      * exact HP.
      * revert Hall. apply Forall_impl. intros p [Hdb _]. now apply db_dom_ms.
    + rewrite <- T2. rewrite (eval_input_ext hash160 sha256 verifies v' sighash fl0 (pz_ms pub_of kd m ks) Av). reflexivity.
Qed.
End Rel.
