(* Proofs/BlockP.v — header and block wire round trips, id = dsha256 of the 80 bytes, merkle-root check. *)
From PV Require Import Base.Bytes Base.Outcome Base.Varint Model.Merkle Spec.MerkleSpec Proofs.MerkleP Model.Block.
From Coq Require Import ZifyBool ZifyNat ZifyN.
Local Open Scope outcome_scope.

Definition wf_header (h : header) : Prop :=
  (h_version h < 2 ^ 32)%N /\ length (h_prev h) = 32 /\ length (h_merkle_root h) = 32 /\
  (h_timestamp h < 2 ^ 32)%N /\ (h_difficulty h < 2 ^ 32)%N /\ (h_nonce h < 2 ^ 32)%N.

Lemma pow256_4 : (256 ^ N.of_nat 4 = 2 ^ 32)%N.
Proof. reflexivity. Qed.

Lemma write_le4 v : (v < 2 ^ 32)%N -> write_le 4 v = Ret (le_encode 4 v).
Proof. intros H. unfold write_le. rewrite pow256_4. now replace (v <? 2 ^ 32)%N with true by lia. Qed.

Lemma stream_hash32_id p : length p = 32 -> stream_hash32 p = p.
Proof. intros H. unfold stream_hash32. apply firstn_all2. lia. Qed.

Lemma parse_hash32_frame p r : length p = 32 -> parse_hash32 (p ++ r) = Ret (p, r).
Proof. intros H. unfold parse_hash32. rewrite <- H. now rewrite read_app. Qed.

Lemma skipn_skipn {A} a : forall b (l : list A), skipn a (skipn b l) = skipn (b + a) l.
Proof. intros b; induction b as [|b IH]; intros l; [reflexivity|]. destruct l; [now rewrite !skipn_nil | apply IH]. Qed.

Definition header_bytes (h : header) : bytes :=
  le_encode 4 (h_version h) ++ h_prev h ++ h_merkle_root h ++
  le_encode 4 (h_timestamp h) ++ le_encode 4 (h_difficulty h) ++ le_encode 4 (h_nonce h).

Lemma stream_header_wf h : wf_header h -> stream_header h = Ret (header_bytes h).
Proof.
  intros (Hv & Hp & Hm & Ht & Hd & Hn). unfold stream_header, header_bytes.
  rewrite !write_le4 by assumption. cbn [bind]. now rewrite !stream_hash32_id by assumption.
Qed.

(* ---- stream then parse ------------------------------------------------------------------------- *)
Lemma header_stream_parse h : wf_header h ->
  exists s, stream_header h = Ret s /\ length s = 80 /\ forall r, parse_header (s ++ r) = Ret (h, r).
Proof.
  destruct h as [v p m t d n]. intros (Hv & Hp & Hm & Ht & Hd & Hn). cbn [h_version h_prev h_merkle_root h_timestamp h_difficulty h_nonce] in *.
  unfold stream_header. cbn [h_version h_prev h_merkle_root h_timestamp h_difficulty h_nonce].
  rewrite !write_le4 by assumption. cbn [bind].
  rewrite !stream_hash32_id by assumption.
  eexists. split; [reflexivity|]. split.
  - rewrite !app_length, !le_encode_length. lia.
  - intros r. unfold parse_header. rewrite <- !app_assoc.
    rewrite read_le_frame by (rewrite pow256_4; assumption). cbn [bind].
    rewrite parse_hash32_frame by assumption. cbn [bind].
    rewrite parse_hash32_frame by assumption. cbn [bind].
    rewrite read_le_frame by (rewrite pow256_4; assumption). cbn [bind].
    rewrite read_le_frame by (rewrite pow256_4; assumption). cbn [bind].
    rewrite read_le_frame by (rewrite pow256_4; assumption). reflexivity.
Qed.

(* ---- parse then stream ------------------------------------------------------------------------- *)
Lemma read_le4_inv s v r : read_le 4 s = Ret (v, r) -> s = le_encode 4 v ++ r /\ (v < 2 ^ 32)%N.
Proof. intros H. apply read_le_inv in H. now rewrite pow256_4 in H. Qed.

Lemma read_le4_nil : read_le 4 [] = Raise E_STRUCT.
Proof. reflexivity. Qed.

Lemma parse_hash32_inv s p r : parse_hash32 s = Ret (p, r) -> s = p ++ r /\ (r <> [] -> length p = 32).
Proof.
  unfold parse_hash32, read. intros E.
  assert (E1 : firstn 32 s = p) by congruence. assert (E2 : skipn 32 s = r) by congruence. clear E. subst p r. split.
  - symmetry. apply firstn_skipn.
  - intros Hr. rewrite firstn_length. destruct (Nat.le_gt_cases (length s) 32) as [Hle|]; [|lia].
    rewrite skipn_all2 in Hr by exact Hle. congruence.
Qed.

Lemma header_parse_stream s h r : parse_header s = Ret (h, r) ->
  wf_header h /\ exists p, stream_header h = Ret p /\ length p = 80 /\ s = p ++ r.
Proof.
  unfold parse_header. intros E.
  apply bind_ret_inv in E. destruct E as ([v s1] & E1 & E).
  apply bind_ret_inv in E. destruct E as ([p s2] & E2 & E).
  apply bind_ret_inv in E. destruct E as ([m s3] & E3 & E).
  apply bind_ret_inv in E. destruct E as ([t s4] & E4 & E).
  apply bind_ret_inv in E. destruct E as ([d s5] & E5 & E).
  apply bind_ret_inv in E. destruct E as ([n s6] & E6 & E).
  injection E as <- <-.
  apply read_le4_inv in E1. destruct E1 as [-> Hv].
  apply parse_hash32_inv in E2. destruct E2 as [-> Hp].
  apply parse_hash32_inv in E3. destruct E3 as [-> Hm].
  assert (N3 : s3 <> []) by (intros ->; rewrite read_le4_nil in E4; discriminate).
  assert (N2 : m ++ s3 <> []) by (destruct m; [exact N3 | discriminate]).
  specialize (Hp N2). specialize (Hm N3).
  apply read_le4_inv in E4. destruct E4 as [-> Ht].
  apply read_le4_inv in E5. destruct E5 as [-> Hd].
  apply read_le4_inv in E6. destruct E6 as [-> Hn].
  assert (W : wf_header (mkHeader v p m t d n)) by (repeat split; assumption).
  split; [exact W|].
  exists (header_bytes (mkHeader v p m t d n)). split; [now apply stream_header_wf|].
  unfold header_bytes. cbn [h_version h_prev h_merkle_root h_timestamp h_difficulty h_nonce].
  split; [rewrite !app_length, !le_encode_length; lia|]. now rewrite <- !app_assoc.
Qed.

Lemma read_le_cases w s :
  (w <= length s /\ read_le w s = Ret (le_decode (firstn w s), skipn w s)) \/
  (length s < w /\ read_le w s = Raise E_STRUCT).
Proof.
  unfold read_le, read. rewrite firstn_length.
  destruct (Nat.min w (length s) <? w) eqn:E; [right | left]; split; try reflexivity; lia.
Qed.

Lemma header_parse_cases s :
  (80 <= length s /\ exists h, parse_header s = Ret (h, skipn 80 s)) \/
  (length s < 80 /\ parse_header s = Raise E_STRUCT).
Proof.
  unfold parse_header, parse_hash32, read.
  destruct (read_le_cases 4 s) as [[L1 ->]|[L1 ->]]; [|right; split; [lia | reflexivity]].
  cbn [bind].
  set (s3 := skipn 32 (skipn 32 (skipn 4 s))).
  assert (Hs3 : length s3 = length s - 68) by (unfold s3; rewrite !skipn_length; lia).
  destruct (read_le_cases 4 s3) as [[L4 ->]|[L4 ->]]; [|right; split; [lia | reflexivity]].
  cbn [bind].
  destruct (read_le_cases 4 (skipn 4 s3)) as [[L5 ->]|[L5 ->]]; [|right; split; [rewrite skipn_length in L5; lia | reflexivity]].
  cbn [bind].
  destruct (read_le_cases 4 (skipn 4 (skipn 4 s3))) as [[L6 ->]|[L6 ->]];
    [|right; split; [rewrite !skipn_length in L6; lia | reflexivity]].
  cbn [bind]. rewrite !skipn_length in L6.
  left. split; [lia|]. eexists. f_equal. f_equal. unfold s3. now rewrite !skipn_skipn.
Qed.

Lemma header_parse_short s : length s < 80 -> parse_header s = Raise E_STRUCT.
Proof. intros H. destruct (header_parse_cases s) as [[L _]|[_ E]]; [lia | exact E]. Qed.

Lemma header_parse_long s : 80 <= length s ->
  exists h, parse_header s = Ret (h, skipn 80 s) /\ stream_header h = Ret (firstn 80 s) /\ wf_header h.
Proof.
  intros H. destruct (header_parse_cases s) as [[_ [h E]]|[L _]]; [|lia].
  exists h. split; [exact E|].
  apply header_parse_stream in E. destruct E as (W & p & P1 & P2 & P3). split; [|exact W].
  rewrite P1. f_equal. rewrite P3 at 1. rewrite <- P2. now rewrite firstn_app_exact.
Qed.

Lemma header_parse_total s : parse_header s <> OutOfFuel.
Proof. destruct (header_parse_cases s) as [[_ [h E]]|[_ E]]; rewrite E; discriminate. Qed.

(* ---- block id ---------------------------------------------------------------------------------- *)
Section BlockP.
Variable tx : Type.
Variable parse_tx : parser tx.
Variable stream_tx : tx -> bytes.
Variable tx_hash : tx -> bytes.
Variable dsha256 : bytes -> bytes.

Notation block_parse := (block_parse tx parse_tx tx_hash dsha256).
Notation block_stream := (block_stream tx stream_tx).
Notation parse_txs := (parse_txs tx parse_tx).

(* the codec hypotheses under which the block theorems are stated *)
Definition tx_frame (t : tx) : Prop := forall r, parse_tx (stream_tx t ++ r) = Ret (t, r).
Definition tx_parser_consumes : Prop := forall s t r, parse_tx s = Ret (t, r) -> length r < length s.
Definition tx_parser_exact : Prop := forall s t r, parse_tx s = Ret (t, r) -> s = stream_tx t ++ r.

Lemma hash_of_parsed s h r : parse_header s = Ret (h, r) ->
  block_hash dsha256 h = Ret (dsha256 (firstn 80 s)) /\ 80 <= length s.
Proof.
  intros E. apply header_parse_stream in E. destruct E as (_ & p & P1 & P2 & ->).
  unfold block_hash. rewrite P1. cbn [bind]. rewrite <- P2. rewrite firstn_app_exact.
  split; [reflexivity|]. rewrite app_length. lia.
Qed.

Lemma hash_of_wf h : wf_header h ->
  exists s, length s = 80 /\ block_hash dsha256 h = Ret (dsha256 s) /\ block_id dsha256 h = Ret (rev (dsha256 s)) /\
            forall r, parse_header (s ++ r) = Ret (h, r).
Proof.
  intros W. destruct (header_stream_parse h W) as (s & S1 & S2 & S3).
  exists s. unfold block_id, block_hash. rewrite S1. cbn [bind]. repeat split; assumption.
Qed.

Lemma set_nonce_hash h n s : wf_header h -> (n < 2 ^ 32)%N -> stream_header h = Ret s ->
  block_hash dsha256 (set_nonce h n) = Ret (dsha256 (firstn 76 s ++ le_encode 4 n)).
Proof.
  intros W Hn' E. rewrite stream_header_wf in E by exact W.
  assert (Es : s = header_bytes h) by congruence. subst s. clear E.
  assert (W' : wf_header (set_nonce h n)).
  { destruct W as (Hv & Hp & Hm & Ht & Hd & Hn). repeat split; assumption. }
  unfold block_hash. rewrite stream_header_wf by exact W'. cbn [bind]. f_equal. f_equal.
  destruct W as (Hv & Hp & Hm & Ht & Hd & Hn).
  unfold header_bytes, set_nonce. cbn [h_version h_prev h_merkle_root h_timestamp h_difficulty h_nonce].
  set (pre := le_encode 4 (h_version h) ++ h_prev h ++ h_merkle_root h ++
              le_encode 4 (h_timestamp h) ++ le_encode 4 (h_difficulty h)).
  assert (L : length pre = 76).
  { unfold pre. rewrite !app_length, !le_encode_length. lia. }
  assert (A : forall x, le_encode 4 (h_version h) ++ h_prev h ++ h_merkle_root h ++
           le_encode 4 (h_timestamp h) ++ le_encode 4 (h_difficulty h) ++ x = pre ++ x).
  { intros x. unfold pre. now rewrite <- !app_assoc. }
  rewrite !A. rewrite <- L. now rewrite firstn_app_exact.
Qed.

(* ---- transactions ------------------------------------------------------------------------------ *)
Lemma parse_txs_frame ts : forall fuel r, length ts <= fuel -> Forall tx_frame ts ->
  parse_txs fuel (N.of_nat (length ts)) (concat (map stream_tx ts) ++ r) = Ret (ts, r).
Proof.
  induction ts as [|t ts IH]; intros fuel r Hf Hfr.
  - destruct fuel; reflexivity.
  - destruct fuel as [|f]; [cbn in Hf; lia|].
    cbn [parse_txs length map concat]. replace (N.of_nat (S (length ts)) =? 0)%N with false by lia.
    rewrite <- app_assoc. inversion Hfr as [|? ? F1 F2]; subst.
    rewrite F1. cbn [bind].
    replace (N.of_nat (S (length ts)) - 1)%N with (N.of_nat (length ts)) by lia.
    rewrite IH; [reflexivity | cbn in Hf; lia | exact F2].
Qed.

Lemma parse_txs_inv fuel : forall count s ts r, tx_parser_exact -> parse_txs fuel count s = Ret (ts, r) ->
  N.of_nat (length ts) = count /\ s = concat (map stream_tx ts) ++ r.
Proof.
  induction fuel as [|f IH]; intros count s ts r Hx E; cbn [parse_txs] in E.
  - destruct (count =? 0)%N eqn:C; [|discriminate]. injection E as <- <-. split; [cbn; lia | reflexivity].
  - destruct (count =? 0)%N eqn:C.
    + injection E as <- <-. split; [cbn; lia | reflexivity].
    + apply bind_ret_inv in E. destruct E as ([t s1] & E1 & E).
      apply bind_ret_inv in E. destruct E as ([ts' s2] & E2 & E). injection E as <- <-.
      apply IH in E2; [|exact Hx]. destruct E2 as [L ->]. apply Hx in E1. subst s.
      split; [cbn [length]; lia | cbn [map concat]; now rewrite app_assoc].
Qed.

Lemma parse_txs_total : tx_parser_consumes -> (forall s, parse_tx s <> OutOfFuel) ->
  forall fuel count s, length s < fuel -> parse_txs fuel count s <> OutOfFuel.
Proof.
  intros Hc Ht. induction fuel as [|f IH]; intros count s Hl; [lia|].
  cbn [parse_txs]. destruct (count =? 0)%N; [discriminate|].
  destruct (parse_tx s) as [[t s1]|e|] eqn:E1; cbn [bind]; [|discriminate|now apply Ht in E1].
  apply Hc in E1.
  destruct (parse_txs f (count - 1)%N s1) as [[ts s2]|e|] eqn:E2; cbn [bind]; try discriminate.
  apply IH in E2; [contradiction | lia].
Qed.

Lemma stream_nonempty t : tx_parser_consumes -> tx_frame t -> stream_tx t <> [].
Proof.
  intros Hc Hf E. specialize (Hf []). rewrite E in Hf. apply Hc in Hf. cbn in Hf. lia.
Qed.

Lemma concat_length_ge ts : tx_parser_consumes -> Forall tx_frame ts -> length ts <= length (concat (map stream_tx ts)).
Proof.
  intros Hc. induction 1 as [|t ts F1 F2 IH]; [cbn; lia|].
  cbn [map concat length]. rewrite app_length.
  pose proof (stream_nonempty t Hc F1). destruct (stream_tx t); [congruence | cbn [length]; lia].
Qed.

(* ---- block round trip, parse after stream ------------------------------------------------------- *)
Lemma check_merkle_iff h (ts : list tx) : ts <> [] ->
  check_merkle_hash tx tx_hash dsha256 h ts =
    if bytes_eqb (merkle_root dsha256 (map tx_hash ts)) (h_merkle_root h) then Ret tt else Raise E_BADMERKLE.
Proof.
  intros Hne. unfold check_merkle_hash. rewrite merkle_is_spec; [reflexivity|].
  destruct ts; [congruence | discriminate].
Qed.

Lemma block_parse_of_stream h ts check : tx_parser_consumes -> wf_header h -> ts <> [] ->
  (N.of_nat (length ts) < 2 ^ 64)%N -> Forall tx_frame ts ->
  exists s, block_stream (mkBlock tx h ts) = Ret s /\ forall r,
    block_parse true check (s ++ r) =
      if negb check || bytes_eqb (merkle_root dsha256 (map tx_hash ts)) (h_merkle_root h)
      then Ret (mkBlock tx h ts, r) else Raise E_BADMERKLE.
Proof.
  intros Hc W Hne Hlen Hfr.
  destruct (header_stream_parse h W) as (hs & S1 & S2 & S3).
  destruct (varint_frame (N.of_nat (length ts)) [] Hlen) as (c & C1 & _).
  unfold block_stream. cbn [b_header b_txs]. rewrite S1. cbn [bind].
  destruct ts as [|t0 ts0] eqn:Ets; [congruence|]. rewrite <- Ets in *.
  rewrite C1. cbn [bind]. eexists. split; [reflexivity|]. intros r.
  unfold block_parse. rewrite <- app_assoc. rewrite S3. cbn [bind].
  destruct (varint_frame (N.of_nat (length ts)) (concat (map stream_tx ts) ++ r) Hlen) as (c' & C1' & C2 & _).
  rewrite C1 in C1'. injection C1' as <-.
  rewrite <- app_assoc. rewrite C2. cbn [bind].
  rewrite parse_txs_frame; [|rewrite app_length; pose proof (concat_length_ge ts Hc Hfr); lia | exact Hfr].
  cbn [bind]. unfold set_txs. rewrite Ets. rewrite <- Ets.
  destruct check; cbn [negb orb]; [|reflexivity].
  rewrite check_merkle_iff by exact Hne.
  destruct (bytes_eqb _ _); reflexivity.
Qed.

Theorem block_roundtrip h ts : tx_parser_consumes -> wf_header h -> ts <> [] ->
  (N.of_nat (length ts) < 2 ^ 64)%N -> Forall tx_frame ts ->
  h_merkle_root h = merkle_root dsha256 (map tx_hash ts) ->
  exists s, block_stream (mkBlock tx h ts) = Ret s /\ forall r, block_parse true true (s ++ r) = Ret (mkBlock tx h ts, r).
Proof.
  intros Hc W Hne Hlen Hfr Hroot.
  destruct (block_parse_of_stream h ts true Hc W Hne Hlen Hfr) as (s & S1 & S2).
  exists s. split; [exact S1|]. intros r. rewrite S2. rewrite Hroot, bytes_eqb_refl. reflexivity.
Qed.

Theorem block_bad_root_rejected h ts : tx_parser_consumes -> wf_header h -> ts <> [] ->
  (N.of_nat (length ts) < 2 ^ 64)%N -> Forall tx_frame ts ->
  h_merkle_root h <> merkle_root dsha256 (map tx_hash ts) ->
  exists s, block_stream (mkBlock tx h ts) = Ret s /\ forall r, block_parse true true (s ++ r) = Raise E_BADMERKLE.
Proof.
  intros Hc W Hne Hlen Hfr Hroot.
  destruct (block_parse_of_stream h ts true Hc W Hne Hlen Hfr) as (s & S1 & S2).
  exists s. split; [exact S1|]. intros r. rewrite S2. cbn [negb orb].
  destruct (bytes_eqb _ _) eqn:E; [|reflexivity]. apply bytes_eqb_eq in E. congruence.
Qed.

(* whatever the bytes: an accepted block with transactions carries the root of its transactions *)
Theorem block_accepted_root s b r : block_parse true true s = Ret (b, r) -> b_txs tx b <> [] ->
  h_merkle_root (b_header tx b) = merkle_root dsha256 (map tx_hash (b_txs tx b)).
Proof.
  unfold block_parse. intros E Hne.
  apply bind_ret_inv in E. destruct E as ([h s1] & E1 & E).
  apply bind_ret_inv in E. destruct E as ([count s2] & E2 & E).
  apply bind_ret_inv in E. destruct E as ([ts s3] & E3 & E).
  apply bind_ret_inv in E. destruct E as (b' & E4 & E). injection E as <- <-.
  unfold set_txs in E4. destruct ts as [|t0 ts0] eqn:Ets.
  - injection E4 as <-. cbn in Hne. congruence.
  - rewrite <- Ets in *. apply bind_ret_inv in E4. destruct E4 as ([] & E5 & E4). injection E4 as <-.
    cbn [b_header b_txs]. rewrite check_merkle_iff in E5 by (rewrite Ets; discriminate).
    destruct (bytes_eqb _ _) eqn:Eb; [|discriminate]. apply bytes_eqb_eq in Eb. now symmetry.
Qed.

(* ---- block round trip, stream after parse -------------------------------------------------------- *)
Theorem block_stream_of_parse check s b r : tx_parser_exact -> block_parse true check s = Ret (b, r) ->
  b_txs tx b <> [] -> varint_canonical (skipn 80 s) = true ->
  exists p, block_stream b = Ret p /\ s = p ++ r.
Proof.
  unfold block_parse. intros Hx E Hne Hcan.
  apply bind_ret_inv in E. destruct E as ([h s1] & E1 & E).
  apply bind_ret_inv in E. destruct E as ([count s2] & E2 & E).
  apply bind_ret_inv in E. destruct E as ([ts s3] & E3 & E).
  apply bind_ret_inv in E. destruct E as (b' & E4 & E). injection E as <- <-.
  assert (Eb : b' = mkBlock tx h ts).
  { unfold set_txs in E4. destruct ts; [now injection E4|]. destruct check.
    - apply bind_ret_inv in E4. destruct E4 as (? & _ & E4). now injection E4.
    - now injection E4. }
  subst b'. cbn [b_txs b_header] in *.
  apply header_parse_stream in E1. destruct E1 as (W & p & P1 & P2 & ->).
  rewrite <- P2 in Hcan. rewrite skipn_app_exact in Hcan.
  destruct (varint_parse_inv _ _ _ E2 Hcan) as (c & C1 & ->).
  apply parse_txs_inv in E3; [|exact Hx]. destruct E3 as [L ->].
  unfold block_stream. cbn [b_txs b_header]. rewrite P1. cbn [bind].
  destruct ts as [|t0 ts0] eqn:Ets; [congruence|]. rewrite <- Ets in *.
  rewrite L, C1. cbn [bind]. eexists. split; [reflexivity|]. now rewrite <- !app_assoc.
Qed.

(* a zero count parses to a header-only block, which streams to the 80 bytes only (not a round trip) *)
Lemma block_parse_zero_count s check : 80 <= length s -> hd_error (skipn 80 s) = Some x00 ->
  exists h, block_parse true check s = Ret (mkBlock tx h [], skipn 81 s) /\ block_stream (mkBlock tx h []) = Ret (firstn 80 s).
Proof.
  intros Hl Hz. destruct (header_parse_long s Hl) as (h & E1 & E2 & _).
  exists h. unfold block_parse, block_stream. cbn [b_header b_txs]. rewrite E1, E2. cbn [bind]. split; [|reflexivity].
  replace (skipn 81 s) with (skipn 1 (skipn 80 s)) by now rewrite skipn_skipn.
  destruct (skipn 80 s) as [|b t]; [discriminate|]. injection Hz as ->. reflexivity.
Qed.

Theorem block_parse_total inc check s : tx_parser_consumes -> (forall s, parse_tx s <> OutOfFuel) ->
  block_parse inc check s <> OutOfFuel.
Proof.
  intros Hc Ht. unfold block_parse.
  destruct (parse_header s) as [[h s1]|e|] eqn:E1; cbn [bind]; [|discriminate|now apply header_parse_total in E1].
  destruct inc; [|discriminate].
  destruct (parse_varint s1) as [[count s2]|e|] eqn:E2; cbn [bind]; [|discriminate|].
  - destruct (parse_txs (S (length s2)) count s2) as [[ts s3]|e|] eqn:E3; cbn [bind]; [|discriminate|].
    + unfold set_txs. destruct ts; [discriminate|]. destruct check; [|discriminate].
      unfold check_merkle_hash. rewrite merkle_is_spec by discriminate. cbn [bind].
      destruct (bytes_eqb _ _); discriminate.
    + apply parse_txs_total in E3; [contradiction | exact Hc | exact Ht | lia].
  - unfold parse_varint in E2. destruct s1; [discriminate|].
    unfold read_le, read in E2.
    repeat match type of E2 with context [if ?c then _ else _] => destruct c end; discriminate.
Qed.
End BlockP.
