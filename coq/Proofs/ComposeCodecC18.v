(* Proofs/ComposeCodecC18.v — composition: the text-level re-serialisation theorem of C18 (Model/ParseText.v,
   Proofs/ParseTextP.v text_reserialize) with the Base58Check pair instantiated by C11's model.  C18's `text` is `list N`
   (code points) = C11's `pystr`: no conversion.
     b58    := fun s => Ret (c11_a2b_hashed H s)   (the uncached decoder of Model/ParseText.v is outcome-valued since
               parseable_str.cache is modelled there; C11's model of parse_b58_double_sha256 never raises)
     b58enc := c11_b2a_hashed H   (b2a_hashed_base58, which never raises)                                          *)
From Coq Require Import List NArith ZArith String Bool.
From Coq Require Import Strings.Byte.
From PV Require Import Base.Bytes Base.Outcome Gen.GenParsePrefixes Model.ParseText Proofs.ParseTextP
  Proofs.ComposeCodecB58.
Import ListNotations.
Local Open Scope Z_scope.

Section C18.
Variable H : bytes -> bytes.
Definition c11_dec (s : text) : outcome (option bytes) := Ret (c11_a2b_hashed H s).

(* with C11's canonicity (any H): for addresses and WIF the serialiser's payload encodes to THE VERY TEXT that was parsed *)
Theorem compose_reserialize_same_text : forall mulG net (s : text) o,
  (p2pkh c11_dec net s = Ret (Some o) -> exists d, p2pkh_payload net o = Some d /\ c11_b2a_hashed H d = s) /\
  (p2sh c11_dec net s = Ret (Some o) -> exists d, p2sh_payload net o = Some d /\ c11_b2a_hashed H d = s) /\
  (wif c11_dec mulG net s = Ret (Some o) -> exists d, wif_payload net o = Some d /\ c11_b2a_hashed H d = s).
Proof.
  intros mulG net s o. repeat split; intros P; apply via_b58_inv in P as (d & E & P); exists d;
    (split; [|exact (c11_hashed_canonical H s d E)]).
  - exact (p2pkh_reserialize net d o P).
  - exact (p2sh_reserialize net d o P).
  - exact (wif_reserialize' mulG net d o P).
Qed.

Hypothesis H_len : forall x, length (H x) = 32%nat.

Lemma H_len4 : forall x, (4 <= length (H x))%nat.
Proof. intros x. rewrite H_len. repeat constructor. Qed.

Theorem compose_text_reserialize : forall mulG modsqrt net (s : text) o,
  (p2pkh c11_dec net s = Ret (Some o) ->
     exists d, p2pkh_payload net o = Some d /\ p2pkh c11_dec net (c11_b2a_hashed H d) = Ret (Some o)) /\
  (p2sh c11_dec net s = Ret (Some o) ->
     exists d, p2sh_payload net o = Some d /\ p2sh c11_dec net (c11_b2a_hashed H d) = Ret (Some o)) /\
  (wif c11_dec mulG net s = Ret (Some o) ->
     exists d, wif_payload net o = Some d /\ wif c11_dec mulG net (c11_b2a_hashed H d) = Ret (Some o)) /\
  (forall kind, hd_prefixes_ok net kind -> hd_any c11_dec mulG modsqrt net kind s = Ret (Some o) ->
     exists d, hd_payload net o = Some d /\ hd_any c11_dec mulG modsqrt net kind (c11_b2a_hashed H d) = Ret (Some o)).
Proof. exact (text_reserialize c11_dec (c11_b2a_hashed H) (c11_hashed_roundtrip H H_len4)). Qed.
End C18.
