(* Proofs/CurvePrimesEc.v — the primes proved in Proofs/CurvePrimes.v ARE the regenerated parameters of Gen/GenCurves.v *)
From Coq Require Import ZArith Znumtheory.
From PV Require Import Proofs.CurvePrimes Gen.GenCurves.
Local Open Scope Z_scope.

Theorem prime_secp256k1_p : prime secp256k1_p.
Proof. exact prime_lit_k1_p. Qed.

Theorem prime_secp256k1_n : prime secp256k1_n.
Proof. exact prime_lit_k1_n. Qed.

Theorem prime_secp256r1_p : prime secp256r1_p.
Proof. exact prime_lit_r1_p. Qed.

Theorem prime_secp256r1_n : prime secp256r1_n.
Proof. exact prime_lit_r1_n. Qed.

Theorem prime_bls12_381_g1_p : prime bls12_381_g1_p.
Proof. exact prime_lit_bls_p. Qed.

Theorem prime_bls12_381_g1_n : prime bls12_381_g1_n.
Proof. exact prime_lit_bls_n. Qed.

