(* Proofs/ComposeCodecC10.v — composition: the WIF text theorems of C10 (Model/Wif.v, Proofs/WifP.v) with the Base58Check
   pair instantiated by C11's model.  C10's `text` is a type parameter: it is taken to be C11's own `pystr` (code points),
   so no conversion is involved:  b2a_hashed := c11_b2a_hashed H  (b2a_hashed_base58, which never raises),
                                  a2b_hashed := c11_a2b_hashed H  (parseable_str.parse_b58_double_sha256). *)
From PV Require Import Base.Bytes Base.Outcome Model.Base58 Model.Sec Model.Wif Proofs.SecP Proofs.WifP
  Gen.GenWifPrefixes Gen.GenCurveC10 Proofs.ComposeCodecB58.
Local Open Scope Z_scope.

Section WifText.
Variable H : bytes -> bytes.

(* strictness at TEXT level, any hash function: whatever ParseAPI.wif accepts is exactly the text Key.wif prints for the
   exponent and flag it returns (payload strictness of C10 + canonicity of Base58Check of C11) *)
Theorem compose_wif_text_strict : forall (prefix : bytes) (order : Z) (w : pystr) (se : Z) (c : bool),
  parse_wif pystr (c11_a2b_hashed H) (Some prefix) order w = Some (se, c) ->
  1 <= se < order /\ key_wif pystr (c11_b2a_hashed H) prefix se c = Ret w.
Proof.
  intros prefix order w se c P. unfold parse_wif in P.
  destruct (c11_a2b_hashed H w) as [d|] eqn:E; [|discriminate].
  destruct (wif_payload_strict prefix order d se c P) as [R W]. split; [exact R|].
  unfold key_wif. rewrite W. cbn [bind]. now rewrite (c11_hashed_canonical H w d E).
Qed.

Hypothesis H_len : forall x, length (H x) = 32%nat.

Lemma H_len4 : forall x, (4 <= length (H x))%nat.
Proof. intros x. rewrite H_len. repeat constructor. Qed.

Theorem compose_wif_table_roundtrip : forall (sym : String.string) (prefix : bytes) (se : Z) (c : bool),
  In (sym, prefix) wif_prefixes -> 1 <= se < k1_n ->
  exists w, key_wif pystr (c11_b2a_hashed H) prefix se c = Ret w /\
    parse_wif pystr (c11_a2b_hashed H) (Some prefix) k1_n w = Some (se, c).
Proof. exact (wif_table_roundtrip pystr (c11_b2a_hashed H) (c11_a2b_hashed H) (c11_hashed_roundtrip H H_len4)). Qed.

Theorem compose_wif_text_roundtrip : forall (prefix : bytes) (order se : Z) (c : bool),
  1 <= se < order -> order <= 2 ^ 256 ->
  exists w, key_wif pystr (c11_b2a_hashed H) prefix se c = Ret w /\
    parse_wif pystr (c11_a2b_hashed H) (Some prefix) order w = Some (se, c).
Proof. exact (wif_text_roundtrip pystr (c11_b2a_hashed H) (c11_a2b_hashed H) (c11_hashed_roundtrip H H_len4)). Qed.
End WifText.
