(* Proofs/Bech32Detect3P.v — C11, part 5: at segwit-address level EVERY error of up to three characters is
   rejected, the Bech32 <-> Bech32m switch included.  A switch needs the version symbol to change between 0 and
   non-zero and one of the two strings to be a valid v0 address, i.e. a data part of 39 or 59 symbols; for these
   two lengths a second kernel sweep shows that no pattern of weight <= 3 touching the first symbol has syndrome
   1 ^ BECH32M_CONST. *)
From PV Require Import Base.Bytes Base.Outcome Gen.GenCodecsC11 Model.Base58 Model.Bech32
  Proofs.Base58P Proofs.Bech32P Proofs.Bech32StrP Proofs.Bech32DetectP Proofs.Bech32DetectStrP.
From Coq Require Import ZifyBool ZifyNat ZifyN MSetPositive.
Local Open Scope Z_scope.

Definition flipC : Z := Z.lxor 1 bech32m_const.

(* single-error syndromes at distances 0 .. D-1 *)
Definition singles_upto (D : nat) : list Z := flat_map (fun d => map (fun b => S_ d b) vals31) (seq 0 D).
Definition anchors (L : nat) : list Z := map (fun a => Z.lxor (S_ (L - 1) a) flipC) vals31.

Lemma singles_upto_in D d b : (d < D)%nat -> 1 <= b <= 31 -> In (S_ d b) (singles_upto D).
Proof.
  intros Hd Hb. apply in_flat_map. exists d. split; [apply in_seq; lia|].
  apply in_map_iff. exists b. split; [reflexivity|now apply vals31_in].
Qed.

Section Sweep3Logic.
Variables (vals sing : list Z) (ts : PositiveSet.t).
Hypothesis Hmem : forall a x, In a vals -> In x (0 :: sing) -> PositiveSet.mem (key (Z.lxor a x)) ts = true.
Hypothesis Hsweep : forallb (notin_of ts) (0 :: sing) = true.
Lemma sweep3_logic : forall a x u, In a vals -> In x (0 :: sing) -> In u (0 :: sing) ->
  Z.lxor (Z.lxor a x) u <> 0.
Proof.
  intros a x u Ha Hx Hu E. apply Z.lxor_eq in E.
  pose proof (Hmem a x Ha Hx) as M.
  pose proof (proj1 (forallb_forall _ _) Hsweep u Hu) as N. unfold notin_of in N.
  rewrite <- E, M in N. discriminate.
Qed.
End Sweep3Logic.

Definition tkeys3_of (z0 anc : list Z) : list positive :=
  flat_map (fun a => map (fun x => key (Z.lxor a x)) z0) anc.
Definition tkeys3 (L : nat) : list positive := tkeys3_of (0 :: singles_upto (L - 1)) (anchors L).
Definition tset3 (L : nat) : PositiveSet.t :=
  fold_left (fun s k => PositiveSet.add k s) (tkeys3 L) PositiveSet.empty.

Lemma sweep3_true_39 : forallb (notin_of (tset3 39)) (0 :: singles_upto 38) = true.
Proof. vm_cast_no_check (eq_refl true). Qed.
Lemma sweep3_true_59 : forallb (notin_of (tset3 59)) (0 :: singles_upto 58) = true.
Proof. vm_cast_no_check (eq_refl true). Qed.

Lemma tset3_mem L a x : In a (anchors L) -> In x (0 :: singles_upto (L - 1)) ->
  PositiveSet.mem (key (Z.lxor a x)) (tset3 L) = true.
Proof.
  intros Ha Hx. unfold tset3. apply fold_add_mem. left. unfold tkeys3, tkeys3_of.
  apply in_flat_map. exists a. split; [exact Ha|]. apply in_map_iff. exists x. split; [reflexivity|exact Hx].
Qed.

(* no error of value a at the first of L symbols plus at most two more has syndrome 1 ^ BECH32M_CONST *)
Theorem sweep3_statement : forall L, L = 39%nat \/ L = 59%nat ->
  forall a x u, 1 <= a <= 31 -> In x (0 :: singles_upto (L - 1)) -> In u (0 :: singles_upto (L - 1)) ->
  Z.lxor (Z.lxor (S_ (L - 1) a) x) u <> flipC.
Proof.
  intros L HL a x u Ha Hx Hu E.
  assert (Hin : In (Z.lxor (S_ (L - 1) a) flipC) (anchors L)).
  { apply in_map_iff. exists a. split; [reflexivity|now apply vals31_in]. }
  assert (K : Z.lxor (Z.lxor (Z.lxor (S_ (L - 1) a) flipC) x) u <> 0).
  { destruct HL as [-> | ->].
    - exact (sweep3_logic (anchors 39) (singles_upto 38) (tset3 39) (tset3_mem 39) sweep3_true_39 _ x u Hin Hx Hu).
    - exact (sweep3_logic (anchors 59) (singles_upto 58) (tset3 59) (tset3_mem 59) sweep3_true_59 _ x u Hin Hx Hu). }
  apply K. rewrite <- E.
  apply Z.bits_inj'. intros n _. rewrite !Z.lxor_spec, Z.bits_0.
  destruct (Z.testbit (S_ (L - 1) a) n), (Z.testbit x n), (Z.testbit u n); reflexivity.
Qed.

(* lin e as a xor of at most `weight e` single syndromes at distances 0..|e|-1 *)
Lemma lin_decomposition D e : syms5 e -> (length e <= D)%nat -> forall k, (weight e <= k)%nat ->
  exists l, length l = k /\ Forall (fun x => In x (0 :: singles_upto D)) l /\ lin e = xor_all l.
Proof.
  induction 1 as [|v r Hv Hr IH]; intros Hlen k Hw.
  - exists (repeat 0 k). split; [apply repeat_length|]. split.
    + apply Forall_forall. intros x Hx. apply repeat_spec in Hx. subst. left. reflexivity.
    + now rewrite xor_all_zeros.
  - cbn [length] in Hlen. rewrite weight_cons in Hw. rewrite lin_cons.
    destruct (v =? 0) eqn:E0.
    + assert (v = 0) by lia. subst v. rewrite S_0, Z.lxor_0_l. apply IH; lia.
    + destruct k as [|k]; [lia|]. destruct (IH ltac:(lia) k ltac:(lia)) as (l & Hl & Hin & E).
      exists (S_ (length r) v :: l). split; [cbn [length]; lia|]. split.
      * constructor; [|exact Hin]. right. apply singles_upto_in; lia.
      * cbn [xor_all]. now rewrite <- E.
Qed.

(* symbol strings of length 39 / 59 with different first symbols and at most three differences never verify
   under two different constants *)
Theorem register_no_3_error_switch : forall s0 d d', syms5 d -> syms5 d' -> length d = length d' ->
  (length d = 39 \/ length d = 59)%nat -> hd 0 d <> hd 0 d' -> (hamming d d' <= 3)%nat ->
  Z.lxor (pm_from s0 d) (pm_from s0 d') <> flipC.
Proof.
  intros s0 d d' H1 H2 Hl HL Hhd Hh.
  rewrite (pm_from_lxor d d' s0 s0 Hl), Z.lxor_nilpotent. fold (lin (zipxor d d')).
  destruct d as [|v r]; [cbn in HL; lia|]. destruct d' as [|v' r']; [discriminate|].
  cbn [hd] in Hhd. cbn [zipxor]. unfold hamming in Hh. cbn [zipxor] in Hh. rewrite weight_cons in Hh.
  inversion H1 as [|? ? Hv Hr]; inversion H2 as [|? ? Hv' Hr']; subst.
  assert (Ha : 1 <= Z.lxor v v' <= 31).
  { pose proof (lxor_range5 v v' Hv Hv'). assert (Z.lxor v v' <> 0) by (intros E; apply Z.lxor_eq in E; contradiction). lia. }
  replace (Z.lxor v v' =? 0) with false in Hh by lia.
  cbn [length] in Hl, HL. assert (Hlr : length r = length r') by lia.
  rewrite lin_cons, zipxor_length by exact Hlr.
  destruct (lin_decomposition (length r) (zipxor r r') (zipxor_range r r' Hr Hr')
              ltac:(rewrite zipxor_length by exact Hlr; lia) 2%nat ltac:(lia)) as (l & Hlen & Hin & E).
  destruct l as [|x [|u [|? ?]]]; try discriminate.
  inversion Hin as [|? ? Hx Hin1]; subst. inversion Hin1 as [|? ? Hu _]; subst.
  rewrite E. cbn [xor_all]. rewrite Z.lxor_0_r, <- Z.lxor_assoc.
  replace (length r) with (S (length r) - 1)%nat in * by lia.
  apply sweep3_statement; try assumption. lia.
Qed.

(* ---- lifting to segwit decode ---------------------------------------------------------------------------------- *)
Lemma verify_inv hrp D spec : bech32_verify_checksum hrp D = Some spec ->
  (spec = enc_bech32 /\ bech32_polymod (bech32_hrp_expand hrp ++ D) = 1)
  \/ (spec = enc_bech32m /\ bech32_polymod (bech32_hrp_expand hrp ++ D) = bech32m_const).
Proof.
  unfold bech32_verify_checksum. destruct (_ =? 1) eqn:A.
  - intros E. injection E as <-. left. split; [reflexivity|lia].
  - destruct (_ =? bech32m_const) eqn:B; [|discriminate]. intros E. injection E as <-. right. split; [reflexivity|lia].
Qed.

Lemma v0_data_length data prog : convertbits data 5 8 false = Some prog ->
  (length prog = 20 \/ length prog = 32)%nat -> (length data = 32 \/ length data = 52)%nat.
Proof.
  intros Ec Hl. pose proof (convertbits_range_5_8 data prog Ec) as Hs.
  pose proof (convertbits_5_8 data Hs) as K. cbv zeta in K. rewrite Ec in K.
  destruct K as (He & _ & _ & Hlen & _).
  pose proof (Z.mod_pos_bound (5 * Z.of_nat (length data)) 8 ltac:(lia)). lia.
Qed.

Lemma firstn_cons_hd {A} n (l : list A) x r d : firstn n l = x :: r -> hd d l = x.
Proof. destruct n, l; cbn; intros E; try discriminate. now injection E. Qed.

Theorem segwit_detects_3_errors_lower : forall hrp s s' v prog,
  decode hrp s = Some (v, prog) -> length s' = length s ->
  (1 <= str_hamming (map lower_c s) (map lower_c s') <= 3)%nat -> decode hrp s' = None.
Proof.
  intros hrp s s' v prog D Hl Hh.
  destruct (decode hrp s') as [[v' prog']|] eqn:D'; [exfalso|reflexivity].
  pose proof (decode_some_length hrp s v prog D) as Hlen90.
  apply segwit_decode_accepts_iff in D, D'.
  destruct D as (data & spec & E & Ec & Hp & _ & H0 & Hs).
  destruct D' as (data' & spec' & E' & Ec' & Hp' & _ & H0' & Hs').
  destruct (Z.eq_dec spec' spec) as [Heq|Hne].
  { revert Heq. eapply (bech32_decode_detects_4_errors s s' 90); eauto; lia. }
  destruct (bech32_decode_inv s 90 _ _ _ E) as (t & F).
  destruct (bech32_decode_inv s' 90 _ _ _ E') as (t' & F').
  pose proof (df_split _ _ _ _ _ _ F) as Sp. pose proof (df_split _ _ _ _ _ _ F') as Sp'.
  rewrite Sp, Sp' in Hh. rewrite str_hamming_prefix in Hh. cbn [str_hamming] in Hh.
  rewrite N.eqb_refl in Hh. cbn [Nat.add] in Hh.
  assert (Hlt : length t' = length t).
  { apply (f_equal (@length _)) in Sp, Sp'. rewrite map_length, app_length in Sp, Sp'. cbn [length] in *. lia. }
  pose proof (df_charset _ _ _ _ _ _ F) as C. pose proof (df_charset _ _ _ _ _ _ F') as C'.
  pose proof (df_data _ _ _ _ _ _ F) as Dd. pose proof (df_data _ _ _ _ _ _ F') as Dd'.
  pose proof (df_tail6 _ _ _ _ _ _ F) as T6.
  set (DD := map charset_find t) in *. set (DD' := map charset_find t') in *.
  assert (LD : length DD = length t) by apply map_length.
  assert (LD' : length DD' = length t') by apply map_length.
  assert (Hv : hd 0 DD = v) by (eapply firstn_cons_hd; symmetry; exact Dd).
  assert (Hv' : hd 0 DD' = v') by (eapply firstn_cons_hd; symmetry; exact Dd').
  assert (Ldata : length t = (length data + 7)%nat).
  { apply (f_equal (@length _)) in Dd. rewrite firstn_length in Dd. cbn [length] in Dd. lia. }
  assert (Ldata' : length t' = (length data' + 7)%nat).
  { apply (f_equal (@length _)) in Dd'. rewrite firstn_length in Dd'. cbn [length] in Dd'. lia. }
  assert (Hflip : version_flip v v') by (apply expected_spec_neq; congruence).
  assert (HL : (length DD = 39 \/ length DD = 59)%nat).
  { destruct Hflip as [[-> _]|[_ ->]].
    - destruct (v0_data_length data prog Ec (H0 eq_refl)); lia.
    - destruct (v0_data_length data' prog' Ec' (H0' eq_refl)); lia. }
  assert (Hvv : hd 0 DD <> hd 0 DD') by (rewrite Hv, Hv'; destruct Hflip; lia).
  pose proof (register_no_3_error_switch (pm_from polymod_init (bech32_hrp_expand hrp)) DD DD'
                (tail_syms t C) (tail_syms t' C') ltac:(lia) HL Hvv
                ltac:(unfold DD, DD'; rewrite tail_hamming by assumption; lia)) as K.
  apply K.
  rewrite <- (pm_from_app polymod_init (bech32_hrp_expand hrp) DD),
          <- (pm_from_app polymod_init (bech32_hrp_expand hrp) DD').
  rewrite <- (polymod_pm_from (bech32_hrp_expand hrp ++ DD)), <- (polymod_pm_from (bech32_hrp_expand hrp ++ DD')).
  destruct (verify_inv _ _ _ (df_verify _ _ _ _ _ _ F)) as [[S1 P1]|[S1 P1]],
           (verify_inv _ _ _ (df_verify _ _ _ _ _ _ F')) as [[S2 P2]|[S2 P2]];
    fold DD in P1; fold DD' in P2; rewrite P1, P2; try (exfalso; congruence).
  - reflexivity.
  - unfold flipC. apply Z.lxor_comm.
Qed.

(* in terms of the raw strings *)
Theorem segwit_detects_3_errors : forall hrp s s' v prog,
  decode hrp s = Some (v, prog) -> length s' = length s ->
  (str_hamming s s' <= 3)%nat -> map lower_c s' <> map lower_c s -> decode hrp s' = None.
Proof.
  intros hrp s s' v prog D Hl Hh Hne.
  apply (segwit_detects_3_errors_lower hrp s s' v prog D Hl).
  pose proof (str_hamming_map lower_c s s'). split; [|lia].
  destruct (str_hamming (map lower_c s) (map lower_c s')) eqn:E; [|lia].
  exfalso. apply Hne. symmetry. apply str_hamming_0; [now rewrite !map_length|exact E].
Qed.
