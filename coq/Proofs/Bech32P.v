(* Proofs/Bech32P.v — lemmas about Model/Bech32.v (C11), part 1: GF(2)-linearity of the checksum register,
   create/verify checksum, convertbits. *)
From PV Require Import Base.Bytes Base.Outcome Gen.GenCodecsC11 Model.Base58 Model.Bech32 Proofs.Base58P.
From Coq Require Import ZifyBool ZifyNat ZifyN Btauto.
Local Open Scope Z_scope.

(* ---- xor algebra --------------------------------------------------------------------------------- *)
Lemma lxor_swap4 a b c d : Z.lxor (Z.lxor a b) (Z.lxor c d) = Z.lxor (Z.lxor a c) (Z.lxor b d).
Proof. apply Z.bits_inj'. intros n _. rewrite !Z.lxor_spec. btauto. Qed.

Lemma lxor_cancel_l a b : Z.lxor a (Z.lxor a b) = b.
Proof. rewrite <- Z.lxor_assoc, Z.lxor_nilpotent. apply Z.lxor_0_l. Qed.

(* ---- the generator selection ------------------------------------------------------------------------ *)
Definition sel (top i g : Z) : Z := if Z.land (Z.shiftr top i) 1 =? 0 then 0 else g.

Lemma sel_testbit top i g : 0 <= i -> sel top i g = if Z.testbit top i then g else 0.
Proof.
  intros Hi. unfold sel.
  change 1 with (Z.ones 1). rewrite Z.land_ones by lia. change (2 ^ 1) with 2.
  replace (Z.testbit top i) with (Z.testbit (Z.shiftr top i) 0) by (rewrite Z.shiftr_spec by lia; f_equal; lia).
  pose proof (Z.bit0_mod (Z.shiftr top i)) as B.
  destruct (Z.testbit (Z.shiftr top i) 0); cbn [Z.b2z] in B; rewrite <- B; reflexivity.
Qed.

Lemma sel_lxor x y i g : 0 <= i -> sel (Z.lxor x y) i g = Z.lxor (sel x i g) (sel y i g).
Proof.
  intros Hi. rewrite !sel_testbit, Z.lxor_spec by exact Hi.
  destruct (Z.testbit x i), (Z.testbit y i); cbn [xorb];
    rewrite ?Z.lxor_nilpotent, ?Z.lxor_0_l, ?Z.lxor_0_r; reflexivity.
Qed.

(* contribution of the generators: xor_gens g i top chk = chk ^ xg g i top *)
Fixpoint xg (g : list Z) (i top : Z) : Z :=
  match g with
  | [] => 0
  | gi :: r => Z.lxor (sel top i gi) (xg r (i + 1) top)
  end.

Lemma xor_gens_xg g : forall i top chk, xor_gens g i top chk = Z.lxor chk (xg g i top).
Proof.
  induction g as [|gi r IH]; intros i top chk; cbn [xor_gens xg].
  - now rewrite Z.lxor_0_r.
  - rewrite IH. fold (sel top i gi). now rewrite Z.lxor_assoc.
Qed.

Lemma xg_lxor g : forall i x y, 0 <= i -> xg g i (Z.lxor x y) = Z.lxor (xg g i x) (xg g i y).
Proof.
  induction g as [|gi r IH]; intros i x y Hi; cbn [xg].
  - reflexivity.
  - rewrite sel_lxor, IH by lia. apply lxor_swap4.
Qed.

Lemma xg_0 g : forall i, xg g i 0 = 0.
Proof.
  induction g as [|gi r IH]; intros i; cbn [xg]; [reflexivity|].
  rewrite IH. unfold sel. rewrite Z.shiftr_0_l. reflexivity.
Qed.

(* ---- the register step is affine over GF(2) -------------------------------------------------------- *)
(* lstep c = polymod_step c 0 : the linear part *)
Definition lstep (c : Z) : Z :=
  Z.lxor (Z.shiftl (Z.land c polymod_mask) polymod_shift) (xg bech32_generator 0 (Z.shiftr c polymod_top_shift)).

Lemma step_lstep c v : polymod_step c v = Z.lxor (lstep c) v.
Proof.
  unfold polymod_step, lstep. rewrite xor_gens_xg.
  rewrite !Z.lxor_assoc. f_equal. apply Z.lxor_comm.
Qed.

Lemma lstep_lxor a b : lstep (Z.lxor a b) = Z.lxor (lstep a) (lstep b).
Proof.
  unfold lstep.
  assert (E1 : Z.land (Z.lxor a b) polymod_mask = Z.lxor (Z.land a polymod_mask) (Z.land b polymod_mask)).
  { apply Z.bits_inj'. intros n _. rewrite !Z.lxor_spec, !Z.land_spec, !Z.lxor_spec. btauto. }
  assert (E2 : forall x y k, Z.shiftl (Z.lxor x y) k = Z.lxor (Z.shiftl x k) (Z.shiftl y k)).
  { intros. apply Z.shiftl_lxor. }
  assert (E3 : forall x y k, Z.shiftr (Z.lxor x y) k = Z.lxor (Z.shiftr x k) (Z.shiftr y k)).
  { intros. apply Z.shiftr_lxor. }
  rewrite E1, E2, E3, xg_lxor by lia. apply lxor_swap4.
Qed.

Lemma lstep_0 : lstep 0 = 0.
Proof. unfold lstep. rewrite Z.land_0_l, Z.shiftl_0_l, Z.shiftr_0_l, xg_0. reflexivity. Qed.

(* fold from an arbitrary register value *)
Definition pm_from (s : Z) (values : list Z) : Z := fold_left polymod_step values s.

Lemma polymod_pm_from values : bech32_polymod values = pm_from polymod_init values.
Proof. reflexivity. Qed.

Lemma pm_from_app s a b : pm_from s (a ++ b) = pm_from (pm_from s a) b.
Proof. unfold pm_from. apply fold_left_app. Qed.

Fixpoint zipxor (a b : list Z) : list Z :=
  match a, b with
  | x :: a', y :: b' => Z.lxor x y :: zipxor a' b'
  | _, _ => []
  end.

(* the checksum register is GF(2)-affine: the difference of two runs is the run of the differences *)
Lemma pm_from_lxor d : forall d' a b, length d = length d' ->
  Z.lxor (pm_from a d) (pm_from b d') = pm_from (Z.lxor a b) (zipxor d d').
Proof.
  induction d as [|v r IH]; intros [|v' r'] a b Hl; try discriminate; [reflexivity|].
  cbn [pm_from fold_left zipxor]. fold (pm_from (polymod_step a v) r) (pm_from (polymod_step b v') r').
  rewrite IH by (cbn in Hl; lia). fold (pm_from (polymod_step (Z.lxor a b) (Z.lxor v v')) (zipxor r r')).
  f_equal. rewrite !step_lstep, lstep_lxor. apply lxor_swap4.
Qed.

(* ---- 30-bit range ----------------------------------------------------------------------------------- *)
Definition small (x : Z) : Prop := 0 <= x < 2 ^ 30.

Lemma small_lxor a b : small a -> small b -> small (Z.lxor a b).
Proof.
  unfold small. intros Ha Hb.
  assert (H0 : 0 <= Z.lxor a b) by (apply Z.lxor_nonneg; lia).
  split; [exact H0|].
  destruct (Z.eq_dec (Z.lxor a b) 0) as [->|Hnz]; [lia|].
  apply Z.log2_lt_pow2; [lia|].
  pose proof (Z.log2_lxor a b ltac:(lia) ltac:(lia)) as Hl.
  assert (La : Z.log2 a < 30).
  { destruct (Z.eq_dec a 0) as [->|]; [cbn; lia|]. apply Z.log2_lt_pow2; lia. }
  assert (Lb : Z.log2 b < 30).
  { destruct (Z.eq_dec b 0) as [->|]; [cbn; lia|]. apply Z.log2_lt_pow2; lia. }
  lia.
Qed.

Lemma small_0 : small 0.
Proof. unfold small. lia. Qed.

Lemma xg_small g : Forall small g -> forall i top, 0 <= i -> small (xg g i top).
Proof.
  induction 1 as [|gi r Hg _ IH]; intros i top Hi; cbn [xg]; [apply small_0|].
  apply small_lxor; [|apply IH; lia].
  rewrite sel_testbit by exact Hi. destruct (Z.testbit top i); [exact Hg|apply small_0].
Qed.

Lemma generator_small : Forall small bech32_generator.
Proof. unfold small. repeat constructor; vm_compute; congruence. Qed.

Lemma mask_ones : polymod_mask = Z.ones 25.
Proof. reflexivity. Qed.

Lemma lstep_small c : small (lstep c).
Proof.
  unfold lstep. apply small_lxor; [|apply xg_small; [apply generator_small|lia]].
  rewrite mask_ones, Z.land_ones by lia. change polymod_shift with 5.
  rewrite Z.shiftl_mul_pow2 by lia. unfold small.
  pose proof (Z.mod_pos_bound c (2 ^ 25) ltac:(lia)). lia.
Qed.

Lemma step_small c v : 0 <= v < 32 -> small (polymod_step c v).
Proof. intros Hv. rewrite step_lstep. apply small_lxor; [apply lstep_small|]. unfold small. lia. Qed.

Lemma pm_from_small values : Forall (fun v => 0 <= v < 32) values -> forall s, small s -> small (pm_from s values).
Proof.
  induction 1 as [|v r Hv _ IH]; intros s Hs; [exact Hs|].
  cbn [pm_from fold_left]. apply IH. now apply step_small.
Qed.

Lemma lstep_lt25 x : 0 <= x < 2 ^ 25 -> lstep x = Z.shiftl x 5.
Proof.
  intros Hx. unfold lstep. change polymod_top_shift with 25. change polymod_shift with 5.
  rewrite mask_ones, Z.land_ones, Z.mod_small by lia.
  rewrite (Z.shiftr_div_pow2 x 25), Z.div_small by lia.
  now rewrite xg_0, Z.lxor_0_r.
Qed.

Lemma shift_digit y k : 0 <= k ->
  Z.lxor (Z.shiftl (Z.shiftr y (k + 5)) 5) (Z.land (Z.shiftr y k) 31) = Z.shiftr y k.
Proof.
  intros Hk. apply Z.bits_inj'. intros n Hn.
  rewrite Z.lxor_spec, Z.land_spec, !Z.shiftr_spec by lia.
  destruct (Z_lt_dec n 5) as [Hlt|Hge].
  - rewrite Z.shiftl_spec_low by lia. change 31 with (Z.ones 5). rewrite Z.ones_spec_low by lia.
    now rewrite andb_true_r, xorb_false_l.
  - rewrite Z.shiftl_spec by lia. rewrite Z.shiftr_spec by lia.
    change 31 with (Z.ones 5). rewrite Z.ones_spec_high by lia.
    rewrite andb_false_r, xorb_false_r. f_equal. lia.
Qed.

Lemma step_digit C k : small C -> 0 <= k ->
  polymod_step (Z.shiftr C (k + 5)) (Z.land (Z.shiftr C k) 31) = Z.shiftr C k.
Proof.
  intros HC Hk. rewrite step_lstep, lstep_lt25; [apply shift_digit; exact Hk|].
  unfold small in HC. rewrite Z.shiftr_div_pow2 by lia. split.
  - apply Z.div_pos; lia.
  - apply Z.div_lt_upper_bound; [lia|]. rewrite Z.pow_add_r by lia.
    assert (1 <= 2 ^ k) by (apply Z.pow_le_mono_r with (b := 0) (a := 2); lia).
    change (2 ^ 5) with 32. nia.
Qed.

Definition six_digits (C : Z) : list Z :=
  map (fun i => Z.land (Z.shiftr C (5 * (5 - i))) 31) [0; 1; 2; 3; 4; 5].

Lemma six_digits_range C : Forall (fun v => 0 <= v < 32) (six_digits C).
Proof.
  unfold six_digits. apply Forall_map. apply Forall_forall. intros i _.
  change 31 with (Z.ones 5). rewrite Z.land_ones by lia. apply Z.mod_pos_bound. lia.
Qed.

Lemma pm_from_six C : small C -> pm_from 0 (six_digits C) = C.
Proof.
  intros HC.
  assert (E30 : 0 = Z.shiftr C (25 + 5)).
  { unfold small in HC. rewrite Z.shiftr_div_pow2, Z.div_small by lia. reflexivity. }
  change (six_digits C) with
    [Z.land (Z.shiftr C 25) 31; Z.land (Z.shiftr C 20) 31; Z.land (Z.shiftr C 15) 31;
     Z.land (Z.shiftr C 10) 31; Z.land (Z.shiftr C 5) 31; Z.land (Z.shiftr C 0) 31].
  cbn [pm_from fold_left]. rewrite E30 at 1.
  rewrite (step_digit C 25 HC) by lia. change 25 with (20 + 5) at 1.
  rewrite (step_digit C 20 HC) by lia. change 20 with (15 + 5) at 1.
  rewrite (step_digit C 15 HC) by lia. change 15 with (10 + 5) at 1.
  rewrite (step_digit C 10 HC) by lia. change 10 with (5 + 5) at 1.
  rewrite (step_digit C 5 HC) by lia. change 5 with (0 + 5) at 1.
  rewrite (step_digit C 0 HC) by lia. apply Z.shiftr_0_r.
Qed.

Lemma zipxor_zeros l : zipxor l (repeat 0 (length l)) = l.
Proof. induction l as [|x r IH]; cbn [length repeat zipxor]; [reflexivity|]. now rewrite Z.lxor_0_r, IH. Qed.

(* appending the digits of (register after six zeros) ^ const drives the register to const *)
Lemma checksum_closes s const : small s -> small const ->
  pm_from s (six_digits (Z.lxor (pm_from s [0; 0; 0; 0; 0; 0]) const)) = const.
Proof.
  intros Hs Hc.
  set (P := pm_from s [0; 0; 0; 0; 0; 0]).
  assert (HP : small P) by (apply pm_from_small; [repeat constructor; lia|exact Hs]).
  set (C := Z.lxor P const). assert (HC : small C) by (now apply small_lxor).
  pose proof (pm_from_lxor (six_digits C) (repeat 0 6) s s eq_refl) as L.
  change (repeat 0 6) with [0; 0; 0; 0; 0; 0] in L at 1. fold P in L.
  change 6%nat with (length (six_digits C)) in L. rewrite zipxor_zeros, Z.lxor_nilpotent, (pm_from_six C HC) in L.
  (* L : lxor (pm_from s digits) P = C *)
  apply (f_equal (Z.lxor P)) in L. rewrite (Z.lxor_comm (pm_from _ _) P), lxor_cancel_l in L.
  rewrite L. unfold C. apply lxor_cancel_l.
Qed.

(* ---- fixed-length digit strings ------------------------------------------------------------------------ *)
Section MoreDigits.
Variable b : Z.
Hypothesis Hb : 2 <= b.

Lemma valfrom_shift ds : forall v, valfrom b v ds = v * b ^ Z.of_nat (length ds) + valfrom b 0 ds.
Proof.
  induction ds as [|d r IH]; intros v.
  - cbn. lia.
  - rewrite !valfrom_cons. rewrite (IH (v * b + d)), (IH (0 * b + d)).
    cbn [length]. rewrite Nat2Z.inj_succ, Z.pow_succ_r by lia. ring.
Qed.

Lemma valfrom_bound ds : in_range b ds -> 0 <= valfrom b 0 ds < b ^ Z.of_nat (length ds).
Proof.
  induction 1 as [|d r Hd Hr IH].
  - cbn. lia.
  - rewrite valfrom_cons, valfrom_shift. cbn [length]. rewrite Nat2Z.inj_succ, Z.pow_succ_r by lia. nia.
Qed.

Lemma digits_inj xs : forall ys, in_range b xs -> in_range b ys -> length xs = length ys ->
  valfrom b 0 xs = valfrom b 0 ys -> xs = ys.
Proof.
  induction xs as [|x xs IH]; intros [|y ys] Hx Hy Hl E; try discriminate; [reflexivity|].
  inversion Hx as [|? ? Hx1 Hx2]; inversion Hy as [|? ? Hy1 Hy2]; subst.
  cbn [length] in Hl. assert (Hl' : length xs = length ys) by lia.
  rewrite !valfrom_cons, (valfrom_shift xs), (valfrom_shift ys), Hl' in E.
  pose proof (valfrom_bound xs Hx2) as Bx. pose proof (valfrom_bound ys Hy2) as By. rewrite Hl' in Bx.
  set (Bn := b ^ Z.of_nat (length ys)) in *.
  assert (x = y) by nia. subst y.
  f_equal. apply IH; try assumption. lia.
Qed.

Lemma in_range_app xs ys : in_range b xs -> in_range b ys -> in_range b (xs ++ ys).
Proof. intros. apply Forall_app. now split. Qed.
End MoreDigits.

(* ---- arithmetic reading of the bit operations ---------------------------------------------------------- *)
Lemma pow2_pos n : 0 <= n -> 0 < 2 ^ n.
Proof. intros. apply Z.pow_pos_nonneg; lia. Qed.

Lemma land_shiftl_small a f v : 0 <= f -> 0 <= v < 2 ^ f -> Z.land (Z.shiftl a f) v = 0.
Proof.
  intros Hf Hv. apply Z.bits_inj'. intros n Hn. rewrite Z.land_spec, Z.bits_0.
  destruct (Z_lt_dec n f) as [Hlt|Hge].
  - now rewrite Z.shiftl_spec_low by lia.
  - destruct (Z.eq_dec v 0) as [->|Hnz]; [now rewrite Z.bits_0, andb_false_r|].
    rewrite (Z.bits_above_log2 v n), andb_false_r; [reflexivity|lia|].
    assert (Z.log2 v < f) by (apply Z.log2_lt_pow2; lia). lia.
Qed.

Lemma lor_shiftl_add a f v : 0 <= f -> 0 <= v < 2 ^ f -> Z.lor (Z.shiftl a f) v = a * 2 ^ f + v.
Proof.
  intros Hf Hv. rewrite <- Z.lxor_lor, <- Z.add_nocarry_lxor by (now apply land_shiftl_small).
  now rewrite Z.shiftl_mul_pow2.
Qed.

Lemma mod_pow2_mod x a c : 0 <= c <= a -> (x mod 2 ^ a) mod 2 ^ c = x mod 2 ^ c.
Proof.
  intros H. replace a with (c + (a - c)) by lia. rewrite Z.pow_add_r by lia.
  pose proof (pow2_pos c ltac:(lia)). pose proof (pow2_pos (a - c) ltac:(lia)).
  rewrite Z.rem_mul_r by lia. rewrite Z.mul_comm, Z.mod_add by lia. apply Z.mod_mod. lia.
Qed.

Lemma mod_shift_add acc bits f v : 0 <= bits -> 0 <= f -> 0 <= v < 2 ^ f ->
  (acc * 2 ^ f + v) mod 2 ^ (bits + f) = (acc mod 2 ^ bits) * 2 ^ f + v.
Proof.
  intros Hb Hf Hv. pose proof (pow2_pos bits Hb). pose proof (pow2_pos f Hf).
  pose proof (Z.div_mod acc (2 ^ bits) ltac:(lia)) as E.
  pose proof (Z.mod_pos_bound acc (2 ^ bits) ltac:(lia)) as Bm.
  rewrite Z.pow_add_r by lia.
  symmetry. apply (Z.mod_unique_pos _ _ (acc / 2 ^ bits)); nia.
Qed.

Lemma mod_split a lo w : 0 <= lo -> 0 <= w ->
  a mod 2 ^ (lo + w) = ((a / 2 ^ lo) mod 2 ^ w) * 2 ^ lo + a mod 2 ^ lo.
Proof.
  intros Hl Hw. pose proof (pow2_pos lo Hl). pose proof (pow2_pos w Hw).
  rewrite Z.pow_add_r by lia. rewrite Z.rem_mul_r by lia. ring.
Qed.

(* ---- convertbits ------------------------------------------------------------------------------------------ *)
Section CB.
Variables f t : Z.
Hypothesis Hf : 0 < f.
Hypothesis Ht : 0 < t.
Let B := 2 ^ t.
Let F := 2 ^ f.

Lemma B_ge2 : 2 <= 2 ^ t.
Proof. change 2 with (2 ^ 1) at 1. apply Z.pow_le_mono_r; lia. Qed.
Lemma F_ge2 : 2 <= 2 ^ f.
Proof. change 2 with (2 ^ 1) at 1. apply Z.pow_le_mono_r; lia. Qed.

Lemma maxv_ones : Z.shiftl 1 t - 1 = Z.ones t.
Proof. unfold Z.ones. lia. Qed.

Lemma emit_spec fuel : forall acc bits, 0 <= bits < Z.of_nat fuel ->
  exists l b', cb_emit fuel acc bits t (Z.shiftl 1 t - 1) = Some (l, b') /\ 0 <= b' < t
    /\ bits = t * Z.of_nat (length l) + b' /\ in_range (2 ^ t) l
    /\ acc mod 2 ^ bits = valfrom (2 ^ t) 0 l * 2 ^ b' + acc mod 2 ^ b'.
Proof.
  induction fuel as [|fu IH]; intros acc bits Hb; [lia|].
  cbn [cb_emit]. destruct (bits >=? t) eqn:E.
  - destruct (IH acc (bits - t) ltac:(lia)) as (l & b' & E1 & Hb' & Hlen & Hr & Hv).
    rewrite E1. eexists _, b'. split; [reflexivity|]. split; [exact Hb'|].
    set (out := Z.land (Z.shiftr acc (bits - t)) (Z.shiftl 1 t - 1)).
    assert (Eout : out = (acc / 2 ^ (bits - t)) mod 2 ^ t).
    { unfold out. rewrite maxv_ones, Z.land_ones, Z.shiftr_div_pow2 by lia. reflexivity. }
    split; [cbn [length]; lia|]. split.
    + constructor; [|exact Hr]. rewrite Eout. apply Z.mod_pos_bound. apply pow2_pos. lia.
    + rewrite valfrom_cons, (valfrom_shift (2 ^ t) l).
      replace bits with ((bits - t) + t) at 1 by lia.
      rewrite (mod_split acc (bits - t) t) by lia. rewrite Hv, <- Eout.
      rewrite <- Z.pow_mul_r by lia.
      replace (2 ^ (bits - t)) with (2 ^ (t * Z.of_nat (length l)) * 2 ^ b')
        by (rewrite <- Z.pow_add_r by lia; f_equal; lia).
      ring.
  - exists [], bits. split; [reflexivity|]. split; [lia|]. split; [cbn; lia|]. split; [constructor|].
    cbn. lia.
Qed.

Definition vals_ok (data : list Z) : Prop := Forall (fun v => 0 <= v < 2 ^ f) data.

Lemma value_check v : ((v <? 0) || negb (Z.shiftr v f =? 0)) = false <-> 0 <= v < 2 ^ f.
Proof.
  pose proof (pow2_pos f ltac:(lia)). rewrite Z.shiftr_div_pow2 by lia. split.
  - intros E. apply orb_false_iff in E. destruct E as [E1 E2]. apply negb_false_iff in E2.
    split; [lia|]. apply Z.eqb_eq in E2. 
    destruct (Z_lt_dec v (2 ^ f)); [assumption|].
    assert (1 <= v / 2 ^ f) by (apply Z.div_le_lower_bound; lia). lia.
  - intros Hv. rewrite Z.div_small by lia. replace (v <? 0) with false by lia. reflexivity.
Qed.

(* one outer iteration: the pending value after shifting in a symbol *)
Lemma acc_step acc bits v : 0 <= bits < t -> 0 <= v < 2 ^ f ->
  (Z.land (Z.lor (Z.shiftl acc f) v) (Z.shiftl 1 (f + t - 1) - 1)) mod 2 ^ (bits + f)
  = (acc mod 2 ^ bits) * 2 ^ f + v.
Proof.
  intros Hb Hv. replace (Z.shiftl 1 (f + t - 1) - 1) with (Z.ones (f + t - 1)) by (unfold Z.ones; lia).
  rewrite Z.land_ones by lia. rewrite mod_pow2_mod by lia.
  rewrite lor_shiftl_add by lia. apply mod_shift_add; lia.
Qed.

Local Notation V := (valfrom (2 ^ t) 0).
Local Notation VF := (valfrom (2 ^ f) 0).
Local Notation len l := (Z.of_nat (length l)).

(* padded conversion: total, and the output read as a number is the input shifted left by the padding *)
Lemma cb_loop_pad data : vals_ok data -> forall acc bits, 0 <= bits < t ->
  exists out pad, cb_loop f t true data acc bits = Ret (Some out) /\ in_range (2 ^ t) out /\ 0 <= pad < t
    /\ t * len out = bits + f * len data + pad
    /\ V out = ((acc mod 2 ^ bits) * 2 ^ (f * len data) + VF data) * 2 ^ pad.
Proof.
  induction 1 as [|v r Hv Hr IH]; intros acc bits Hb.
  - cbn [cb_loop]. destruct (bits =? 0) eqn:E0.
    + exists [], 0. assert (bits = 0) by lia. subst bits.
      split; [reflexivity|]. split; [constructor|]. split; [lia|]. split; [cbn; lia|].
      cbn [length]. change (V []) with 0. change (VF []) with 0. rewrite Z.pow_0_r, Z.mod_1_r. lia.
    + exists [Z.land (Z.shiftl acc (t - bits)) (Z.shiftl 1 t - 1)], (t - bits).
      assert (Eo : Z.land (Z.shiftl acc (t - bits)) (Z.shiftl 1 t - 1) = (acc mod 2 ^ bits) * 2 ^ (t - bits)).
      { rewrite maxv_ones, Z.land_ones, Z.shiftl_mul_pow2 by lia.
        replace t with (bits + (t - bits)) at 2 by lia. rewrite Z.pow_add_r by lia.
        apply Z.mul_mod_distr_r; apply Z.pow_nonzero; lia. }
      split; [reflexivity|]. rewrite Eo.
      pose proof (Z.mod_pos_bound acc (2 ^ bits) (pow2_pos bits ltac:(lia))).
      pose proof (pow2_pos (t - bits) ltac:(lia)).
      split.
      { constructor; [|constructor]. split; [nia|].
        replace t with (bits + (t - bits)) at 2 by lia. rewrite Z.pow_add_r by lia. nia. }
      split; [lia|]. split; [cbn [length]; lia|].
      change (Z.of_nat (length (@nil Z))) with 0. unfold valfrom. cbn [fold_left].
      rewrite Z.mul_0_r, Z.pow_0_r. ring.
  - cbn [cb_loop]. rewrite (proj2 (value_check v) Hv).
    set (acc1 := Z.land (Z.lor (Z.shiftl acc f) v) (Z.shiftl 1 (f + t - 1) - 1)).
    destruct (emit_spec (S (Z.to_nat (bits + f))) acc1 (bits + f) ltac:(lia)) as (l & b2 & E1 & Hb2 & Hlen & Hrl & Hvl).
    rewrite E1. destruct (IH acc1 b2 Hb2) as (rest & pad & E2 & Hrr & Hpad & Hlr & Hvr).
    rewrite E2. exists (l ++ rest), pad. split; [reflexivity|].
    split; [now apply in_range_app|]. split; [exact Hpad|].
    split; [rewrite app_length; cbn [length]; lia|].
    rewrite valfrom_app, (valfrom_shift (2 ^ t) rest), Hvr.
    rewrite valfrom_cons, (valfrom_shift (2 ^ f) r (0 * 2 ^ f + v)).
    unfold acc1 in Hvl. rewrite acc_step in Hvl by assumption.
    fold acc1 in Hvl.
    rewrite <- !Z.pow_mul_r by lia.
    replace (t * len rest) with (b2 + f * len r + pad) by lia.
    replace (f * len (v :: r)) with (f + f * len r) by (cbn [length]; lia).
    rewrite !Z.pow_add_r by lia.
    set (A := acc mod 2 ^ bits) in *. set (P2 := acc1 mod 2 ^ b2) in *.
    set (E := 2 ^ (f * len r)). set (Pd := 2 ^ pad).
    transitivity ((V l * 2 ^ b2 + P2) * E * Pd + VF r * Pd); [ring|].
    rewrite <- Hvl. ring.
Qed.

(* strict conversion: accepted iff fewer than `f` bits are left over and they are all zero; then the
   output read as a number is the input shifted right by the left-over *)
Lemma cb_loop_strict data : vals_ok data -> forall acc bits, 0 <= bits < t ->
  let X := (acc mod 2 ^ bits) * 2 ^ (f * len data) + VF data in
  let e := (bits + f * len data) mod t in
  exists r, cb_loop f t false data acc bits = Ret r /\
    match r with
    | None => f <= e \/ X mod 2 ^ e <> 0
    | Some out => e < f /\ X mod 2 ^ e = 0 /\ in_range (2 ^ t) out
                  /\ t * len out = bits + f * len data - e /\ V out = X / 2 ^ e
    end.
Proof.
  induction 1 as [|v r Hv Hr IH]; intros acc bits Hb X e.
  - cbn [cb_loop]. unfold X, e. cbn [length]. rewrite Z.mul_0_r, Z.add_0_r, Z.pow_0_r, Z.mul_1_r.
    change (VF []) with 0. rewrite Z.add_0_r, (Z.mod_small bits t) by lia.
    pose proof (Z.mod_pos_bound acc (2 ^ bits) (pow2_pos bits ltac:(lia))) as Bm.
    rewrite (Z.mod_small (acc mod 2 ^ bits)) by lia.
    assert (Eo : Z.land (Z.shiftl acc (t - bits)) (Z.shiftl 1 t - 1) = (acc mod 2 ^ bits) * 2 ^ (t - bits)).
    { rewrite maxv_ones, Z.land_ones, Z.shiftl_mul_pow2 by lia.
      replace t with (bits + (t - bits)) at 2 by lia. rewrite Z.pow_add_r by lia.
      apply Z.mul_mod_distr_r; apply Z.pow_nonzero; lia. }
    rewrite Eo. pose proof (pow2_pos (t - bits) ltac:(lia)).
    destruct (bits >=? f) eqn:E1; cbn [orb].
    + exists None. split; [reflexivity|]. left. lia.
    + destruct (acc mod 2 ^ bits * 2 ^ (t - bits) =? 0) eqn:E2; cbn [negb].
      * exists (Some []). split; [reflexivity|].
        assert (acc mod 2 ^ bits = 0) by nia.
        split; [lia|]. split; [assumption|]. split; [constructor|]. split; [cbn [length]; lia|].
        rewrite H0. rewrite Z.div_0_l by (apply Z.pow_nonzero; lia). reflexivity.
      * exists None. split; [reflexivity|]. right. nia.
  - cbn [cb_loop]. rewrite (proj2 (value_check v) Hv).
    set (acc1 := Z.land (Z.lor (Z.shiftl acc f) v) (Z.shiftl 1 (f + t - 1) - 1)).
    destruct (emit_spec (S (Z.to_nat (bits + f))) acc1 (bits + f) ltac:(lia)) as (l & b2 & E1 & Hb2 & Hlen & Hrl & Hvl).
    rewrite E1.
    unfold acc1 in Hvl. rewrite acc_step in Hvl by assumption. fold acc1 in Hvl.
    specialize (IH acc1 b2 Hb2). cbv zeta in IH. destruct IH as (r' & E2 & Hres).
    set (X' := acc1 mod 2 ^ b2 * 2 ^ (f * len r) + VF r) in *.
    set (e' := (b2 + f * len r) mod t) in *.
    assert (Ee : e = e').
    { unfold e, e'. replace (bits + f * len (v :: r)) with ((b2 + f * len r) + len l * t)
        by (cbn [length]; lia). apply Z.mod_add. lia. }
    assert (He' : 0 <= e' <= b2 + f * len r).
    { unfold e'. pose proof (Z.mod_pos_bound (b2 + f * len r) t Ht).
      split; [lia|]. apply Z.mod_le; lia. }
    assert (EX : X = V l * 2 ^ (b2 + f * len r - e') * 2 ^ e' + X').
    { unfold X, X'. rewrite valfrom_cons, (valfrom_shift (2 ^ f) r (0 * 2 ^ f + v)).
      rewrite <- Z.mul_assoc, <- Z.pow_add_r by lia.
      replace (b2 + f * len r - e' + e') with (b2 + f * len r) by lia.
      rewrite <- !Z.pow_mul_r by lia.
      replace (f * len (v :: r)) with (f + f * len r) by (cbn [length]; lia).
      rewrite !Z.pow_add_r by lia.
      set (A := acc mod 2 ^ bits) in *. set (P2 := acc1 mod 2 ^ b2) in *.
      set (E := 2 ^ (f * len r)).
      transitivity ((V l * 2 ^ b2 + P2) * E + VF r); [|ring].
      rewrite <- Hvl. ring. }
    pose proof (pow2_pos e' ltac:(lia)) as Pe.
    assert (EXm : X mod 2 ^ e = X' mod 2 ^ e').
    { rewrite Ee, EX. rewrite Z.add_comm, Z.mod_add by lia. reflexivity. }
    assert (EXd : X / 2 ^ e = V l * 2 ^ (b2 + f * len r - e') + X' / 2 ^ e').
    { rewrite Ee, EX. rewrite Z.div_add_l by lia. reflexivity. }
    rewrite E2. destruct r' as [rest|].
    + destruct Hres as (H1 & H2 & H3 & H4 & H5).
      exists (Some (l ++ rest)). split; [reflexivity|].
      split; [lia|]. split; [congruence|]. split; [now apply in_range_app|].
      split; [rewrite app_length; cbn [length]; lia|].
      rewrite valfrom_app, (valfrom_shift (2 ^ t) rest), H5, EXd.
      rewrite <- Z.pow_mul_r by lia. rewrite H4. reflexivity.
    + exists None. split; [reflexivity|]. rewrite EXm, Ee. exact Hres.
Qed.

(* a symbol out of range makes both variants return None *)
Lemma cb_loop_bad pad data : ~ vals_ok data -> forall acc bits, 0 <= bits < t ->
  cb_loop f t pad data acc bits = Ret None.
Proof.
  induction data as [|v r IH]; intros Hn acc bits Hb; [exfalso; apply Hn; constructor|].
  cbn [cb_loop]. destruct ((v <? 0) || negb (Z.shiftr v f =? 0)) eqn:E; [reflexivity|].
  apply value_check in E.
  set (acc1 := Z.land (Z.lor (Z.shiftl acc f) v) (Z.shiftl 1 (f + t - 1) - 1)).
  destruct (emit_spec (S (Z.to_nat (bits + f))) acc1 (bits + f) ltac:(lia)) as (l & b2 & E1 & Hb2 & _).
  rewrite E1, IH; [reflexivity| |exact Hb2].
  intros HF. apply Hn. now constructor.
Qed.
End CB.

(* ---- the two instances the library uses ---------------------------------------------------------------- *)
Definition syms5 (l : list Z) : Prop := Forall (fun v => 0 <= v < 32) l.
Definition bytes8 (l : list Z) : Prop := Forall (fun v => 0 <= v < 256) l.

Lemma convertbits_o_total f t pad data : 0 < f -> 0 < t -> exists r, convertbits_o f t pad data = Ret r.
Proof.
  intros Hf Ht. unfold convertbits_o.
  destruct (Forall_dec (fun v => 0 <= v < 2 ^ f)
              (fun v => ltac:(destruct (Z_le_dec 0 v); [destruct (Z_lt_dec v (2 ^ f)); [left|right]|right]; lia)) data)
    as [Hok|Hbad].
  - destruct pad.
    + destruct (cb_loop_pad f t Hf Ht data Hok 0 0 ltac:(lia)) as (out & pad & E & _). eauto.
    + destruct (cb_loop_strict f t Hf Ht data Hok 0 0 ltac:(lia)) as (r & E & _). eauto.
  - exists None. apply cb_loop_bad; [assumption..|lia].
Qed.

Lemma convertbits_8_5 data : bytes8 data ->
  exists out pad, convertbits data 8 5 true = Some out /\ syms5 out /\ 0 <= pad < 5
    /\ 5 * Z.of_nat (length out) = 8 * Z.of_nat (length data) + pad
    /\ valfrom 32 0 out = valfrom 256 0 data * 2 ^ pad.
Proof.
  intros Hd. destruct (cb_loop_pad 8 5 ltac:(lia) ltac:(lia) data Hd 0 0 ltac:(lia)) as (out & pad & E & Hr & Hp & Hl & Hv).
  exists out, pad. unfold convertbits, convertbits_o. rewrite E. split; [reflexivity|].
  split; [exact Hr|]. split; [exact Hp|]. split; [lia|].
  rewrite Z.pow_0_r, Z.mod_1_r in Hv. exact Hv.
Qed.

Lemma convertbits_5_8 syms : syms5 syms ->
  let e := (5 * Z.of_nat (length syms)) mod 8 in
  match convertbits syms 5 8 false with
  | None => 5 <= e \/ valfrom 32 0 syms mod 2 ^ e <> 0
  | Some out => e < 5 /\ valfrom 32 0 syms mod 2 ^ e = 0 /\ bytes8 out
                /\ 8 * Z.of_nat (length out) = 5 * Z.of_nat (length syms) - e
                /\ valfrom 256 0 out = valfrom 32 0 syms / 2 ^ e
  end.
Proof.
  intros Hd. destruct (cb_loop_strict 5 8 ltac:(lia) ltac:(lia) syms Hd 0 0 ltac:(lia)) as (r & E & Hres).
  cbv zeta in Hres. unfold convertbits, convertbits_o. rewrite E.
  rewrite Z.pow_0_r, Z.mod_1_r, Z.mul_0_l, !Z.add_0_l in Hres. exact Hres.
Qed.

Lemma convertbits_range_5_8 syms out : convertbits syms 5 8 false = Some out -> syms5 syms.
Proof.
  intros E.
  destruct (Forall_dec (fun v => 0 <= v < 32)
              (fun v => ltac:(destruct (Z_le_dec 0 v); [destruct (Z_lt_dec v 32); [left|right]|right]; lia)) syms)
    as [Hok|Hbad]; [exact Hok|].
  unfold convertbits, convertbits_o in E. rewrite (cb_loop_bad 5 8) in E; try lia; [discriminate|exact Hbad].
Qed.

Lemma convertbits_range_8_5 data out : convertbits data 8 5 true = Some out -> bytes8 data.
Proof.
  intros E.
  destruct (Forall_dec (fun v => 0 <= v < 256)
              (fun v => ltac:(destruct (Z_le_dec 0 v); [destruct (Z_lt_dec v 256); [left|right]|right]; lia)) data)
    as [Hok|Hbad]; [exact Hok|].
  unfold convertbits, convertbits_o in E. rewrite (cb_loop_bad 8 5) in E; try lia; [discriminate|exact Hbad].
Qed.

(* 8 -> 5 (padded) followed by 5 -> 8 (strict) is the identity on every byte string *)
Theorem convertbits_roundtrip_8_5_8 : forall data, bytes8 data ->
  exists out, convertbits data 8 5 true = Some out /\ syms5 out
              /\ Z.of_nat (length out) = (8 * Z.of_nat (length data) + 4) / 5
              /\ convertbits out 5 8 false = Some data.
Proof.
  intros data Hd. destruct (convertbits_8_5 data Hd) as (out & pad & E & Hr & Hp & Hl & Hv).
  exists out. split; [exact E|]. split; [exact Hr|]. split; [lia|].
  pose proof (convertbits_5_8 out Hr) as D. cbv zeta in D.
  assert (Ee : (5 * Z.of_nat (length out)) mod 8 = pad).
  { rewrite Hl. rewrite Z.add_comm, Z.mul_comm, Z.mod_add by lia. apply Z.mod_small. lia. }
  rewrite Ee in D. pose proof (pow2_pos pad ltac:(lia)).
  destruct (convertbits out 5 8 false) as [back|].
  - destruct D as (_ & _ & Hb & Hlb & Hvb). f_equal.
    apply (digits_inj 256 ltac:(lia)); try assumption; [lia|].
    rewrite Hvb, Hv. apply Z.div_mul. lia.
  - exfalso. destruct D as [D|D]; [lia|]. apply D. rewrite Hv. apply Z.mod_mul. lia.
Qed.

(* 5 -> 8 (strict), when it accepts, followed by 8 -> 5 (padded) is the identity *)
Theorem convertbits_roundtrip_5_8_5 : forall syms data, convertbits syms 5 8 false = Some data ->
  bytes8 data /\ convertbits data 8 5 true = Some syms.
Proof.
  intros syms data E. pose proof (convertbits_range_5_8 syms data E) as Hs.
  pose proof (convertbits_5_8 syms Hs) as D. cbv zeta in D. rewrite E in D.
  destruct D as (He & Hm & Hb & Hl & Hv). split; [exact Hb|].
  set (e := (5 * Z.of_nat (length syms)) mod 8) in *.
  assert (He0 : 0 <= e) by (apply Z.mod_pos_bound; lia).
  destruct (convertbits_8_5 data Hb) as (out & pad & E2 & Hr & Hp & Hl2 & Hv2).
  rewrite E2. f_equal.
  assert (pad = e /\ length out = length syms) as [-> Hlen] by lia.
  apply (digits_inj 32 ltac:(lia)); try assumption.
  rewrite Hv2, Hv. pose proof (pow2_pos e He0).
  pose proof (Z.div_mod (valfrom 32 0 syms) (2 ^ e) ltac:(lia)). lia.
Qed.
