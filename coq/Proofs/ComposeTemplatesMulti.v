(* Proofs/ComposeTemplatesMulti.v — composition C05 x C03, part 6: m <key_1> .. <key_n> n CHECKMULTISIG.
   * Templates.cms = Core's matching loop cms_loop (induction over the key list);
   * OP_CHECKMULTISIG on the stack the template script builds, characterised by Templates' conditions;
   * the whole script under either signature version: `eval_ms_core`.
   Stacks are Core's internal ones (head = top). *)
From Coq Require Import Lia ZifyBool ZifyNat ZifyN.
From PV Require Import Base.Bytes Base.Outcome Gen.GenFlags Proofs.PushP Spec.Templates.
From PV Require Import Model.ScriptNum Spec.VMTypes Spec.VMcore.
From PV Require Import Proofs.SolveP Proofs.ComposeTemplatesEnc Proofs.ComposeTemplatesEval Proofs.ComposeTemplatesFad
                       Proofs.ComposeTemplatesSingle.
Local Open Scope N_scope.

Lemma num_push_data k : num_push k = push_data (num_data k).
Proof. reflexivity. Qed.

Lemma script_num_small k mn : (k <= 20)%nat -> script_num mn 4 (num_data k) = COk (Z.of_nat k).
Proof.
  intros H. do 21 (destruct k as [|k]; [destruct mn; vm_compute; reflexivity|]). lia.
Qed.

Lemma num_data_len k : lenN (num_data k) <= 520.
Proof. unfold num_data. destruct (k =? 0)%nat; cbn; lia. Qed.

Lemma lenN_rev {A} (l : list A) : lenN (rev l) = lenN l.
Proof. unfold lenN. now rewrite rev_length. Qed.

Section Multi.
Variable hash160 : bytes -> bytes.
Variable sha256 : bytes -> bytes.
Variable verifies : bytes -> bytes -> bytes -> bool.
Variable sighash : bool -> N -> bytes -> option bytes.
Variable fl : flags.
Variable fw : N.
Hypothesis Hfl : flags_rel fl fw.
Variable o : oracles.
Hypothesis Ho : oracles_inst hash160 sha256 verifies sighash o.
Variable ctx : txctx.

Notation CMS := (cms verifies sighash fl).

(* the matching loops *)
Lemma cms_core sv code keys : forall sigs,
  if CMS (sv_wit sv) code keys sigs then cms_loop o fw sv code sigs keys = COk true
  else (cms_loop o fw sv code sigs keys = COk false \/ exists e, cms_loop o fw sv code sigs keys = CErr e).
Proof.
  induction keys as [|k kr IH]; intros sigs; destruct sigs as [|s sr]; cbn [cms cms_loop]; try reflexivity.
  - left. reflexivity.
  - rewrite (oi_order _ _ _ _ o Ho).
    destruct (sig_enc_core fl fw Hfl s) as [e1 H1]. destruct (pub_enc_core fl fw Hfl sv k) as [e2 H2]. rewrite H1, H2.
    destruct (sig_enc_ok fl s); cbn [cbind andb]; [|right; eexists; reflexivity].
    destruct (pub_enc_ok fl (sv_wit sv) k); cbn [cbind andb]; [|right; eexists; reflexivity].
    rewrite (run_checksig_inst hash160 sha256 verifies sighash o _ _ _ _ Ho).
    destruct (sig_verifies verifies sighash (sv_wit sv) code s k).
    + destruct (length kr <? length sr)%nat; [left; reflexivity|]. apply IH.
    + destruct (length kr <? length (s :: sr))%nat; [left; reflexivity|]. apply IH.
Qed.

(* OP_CHECKMULTISIG on the stack built by the template *)
Lemma op_cms_spec sv m keys st0 opc bch :
  (1 <= m <= length keys)%nat -> (length keys <= 20)%nat -> opc + N.of_nat (length keys) <= 201 ->
  (sv = SV_BASE -> sigs_inert bch (firstn m st0)) ->
  let n := length keys in
  let res := op_checkmultisig o fw sv (flag_set fw VERIFY_MINIMALDATA) false
               (mk (num_data n :: rev keys ++ num_data m :: st0) opc bch) in
  if (m + 1 <=? length st0)%nat then
    match skipn m st0 with
    | dummy :: r =>
      if (if f_std fl then is_nil dummy else true) && CMS (sv_wit sv) bch (rev keys) (firstn m st0)
      then res = COk (mk ([x01] :: r) (opc + N.of_nat n) bch)
      else (res = COk (mk ([] :: r) (opc + N.of_nat n) bch) \/ exists e, res = CErr e)
    | [] => True
    end
  else exists e, res = CErr e.
Proof.
  intros Hm Hn Hopc Hin. cbv zeta. set (n := length keys) in *.
  unfold op_checkmultisig. cbn [mk e_stack e_opc e_bch].
  rewrite (script_num_small n) by exact Hn. cbn [cbind].
  unfold MAX_PUBKEYS_PER_MULTISIG.
  replace ((Z.of_nat n <? 0)%Z || (20 <? Z.of_nat n)%Z) with false by lia.
  replace (Z.to_N (Z.of_nat n)) with (N.of_nat n) by lia.
  replace (MAX_OPS_PER_SCRIPT <? opc + N.of_nat n) with false by (unfold MAX_OPS_PER_SCRIPT; lia).
  rewrite Nat2Z.id.
  assert (Hlr : length (rev keys) = n) by apply rev_length.
  replace (length (rev keys ++ num_data m :: st0) <? n + 1)%nat with false
    by (rewrite app_length, Hlr; cbn [length]; lia).
  rewrite (SolveP.firstn_app_exact (rev keys)) by (symmetry; exact Hlr).
  rewrite (SolveP.skipn_app_exact (rev keys)) by (symmetry; exact Hlr).
  rewrite (script_num_small m) by lia. cbn [cbind].
  replace ((Z.of_nat m <? 0)%Z || (Z.of_nat n <? Z.of_nat m)%Z) with false by lia.
  rewrite Nat2Z.id.
  destruct (m + 1 <=? length st0)%nat eqn:Elen.
  2:{ replace (length st0 <? m + 1)%nat with true by lia. eexists. reflexivity. }
  replace (length st0 <? m + 1)%nat with false by lia.
  assert (Hcode : match sv with
                  | SV_BASE => fold_left (fun c sg => find_and_delete (push_encode sg) c) (firstn m st0) bch
                  | SV_WITNESS_V0 => bch
                  end = bch) by (destruct sv; [apply fold_fad_inert; auto|reflexivity]).
  rewrite Hcode.
  destruct (skipn m st0) as [|dummy r] eqn:Esk; [exact I|].
  pose proof (cms_core sv bch (rev keys) (firstn m st0)) as Hc.
  rewrite (fr_nulldummy _ _ Hfl).
  assert (Hd : negb (VMcore.len dummy =? 0) = negb (is_nil dummy)) by (destruct dummy; reflexivity).
  rewrite Hd.
  destruct (CMS (sv_wit sv) bch (rev keys) (firstn m st0)).
  - rewrite Hc. cbn [cbind negb andb]. rewrite andb_true_r.
    destruct (f_std fl); cbn [andb].
    + destruct (is_nil dummy); cbn [negb]; [reflexivity|right; eexists; reflexivity].
    + reflexivity.
  - rewrite andb_false_r. destruct Hc as [Hc|[e Hc]]; rewrite Hc; cbn [cbind negb andb]; [|right; eexists; reflexivity].
    destruct (flag_set fw VERIFY_NULLFAIL && _); [right; eexists; reflexivity|].
    destruct (f_std fl && negb (is_nil dummy)); [right; eexists; reflexivity|left; reflexivity].
Qed.

(* pushing the key list *)
Lemma crun_push_list sv keys : forall rest st opc bch, Forall (fun k => lenN k <= 520) keys -> lenN st <= 1000 ->
  exists e, crun o fw sv ctx (flat_map push_data keys ++ rest) (mk st opc bch) =
            if lenN st + lenN keys <=? 1000 then crun o fw sv ctx rest (mk (rev keys ++ st) opc bch) else CErr e.
Proof.
  induction keys as [|k kr IH]; intros rest st opc bch Hk Hst.
  - exists SE_UNKNOWN_ERROR. cbn [flat_map app rev]. change (lenN []) with 0.
    replace (lenN st + 0 <=? 1000) with true by lia. reflexivity.
  - inversion Hk as [|? ? Hk1 Hk2]; subst. cbn [flat_map]. rewrite <- app_assoc.
    rewrite crun_push_data by exact Hk1. rewrite lenN_cons.
    destruct (1000 <? lenN st + 1) eqn:E.
    { exists SE_STACK_SIZE. replace (lenN st + (1 + lenN kr) <=? 1000) with false by lia. reflexivity. }
    destruct (IH rest (k :: st) opc bch Hk2) as [e He]; [rewrite lenN_cons; lia|].
    exists e. rewrite He. rewrite lenN_cons. cbn [rev]. rewrite <- app_assoc. cbn [app].
    replace (1 + lenN st + lenN kr) with (lenN st + (1 + lenN kr)) by lia. reflexivity.
Qed.

Lemma exec_checkmultisig sv rest s :
  exec_op o fw sv ctx xae rest true s = op_checkmultisig o fw sv (flag_set fw VERIFY_MINIMALDATA) false s.
Proof. reflexivity. Qed.

(* the whole script, on the internal stack st0 *)
Lemma run_ms_core sv m keys st0 :
  (1 <= m <= length keys)%nat -> (length keys <= 20)%nat -> Forall (fun k => lenN k <= 520) keys ->
  (sv = SV_BASE -> sigs_inert (ms_script m keys) (firstn m st0)) ->
  let n := length keys in
  let ms := ms_script m keys in
  let res := fin (crun o fw sv ctx ms (mk st0 0 ms)) in
  if (m + 1 <=? length st0)%nat && (lenN st0 + N.of_nat n + 2 <=? 1000) then
    match skipn m st0 with
    | dummy :: r =>
      if (if f_std fl then is_nil dummy else true) && CMS (sv_wit sv) ms (rev keys) (firstn m st0)
      then res = COk ([x01] :: r) else evfalse res
    | [] => True
    end
  else evfalse res.
Proof.
  intros Hm Hn Hk Hin. cbv zeta. set (n := length keys) in *. set (ms := ms_script m keys) in *.
  assert (E1 : crun o fw sv ctx ms (mk st0 0 ms) =
               if 1000 <? lenN st0 + 1 then CErr SE_STACK_SIZE
               else crun o fw sv ctx (flat_map push_data keys ++ num_push n ++ [xae]) (mk (num_data m :: st0) 0 ms))
    by exact (crun_push_data o fw sv ctx (num_data m) _ st0 0 ms (num_data_len m)).
  rewrite E1. clear E1.
  destruct (1000 <? lenN st0 + 1) eqn:C1.
  { replace (lenN st0 + N.of_nat n + 2 <=? 1000) with false by lia. rewrite andb_false_r. apply evfalse_fin_err. }
  destruct (crun_push_list sv keys (num_push n ++ [xae]) (num_data m :: st0) 0 ms Hk) as [e2 E2];
    [rewrite lenN_cons; lia|].
  rewrite E2. clear E2. rewrite lenN_cons. change (lenN keys) with (N.of_nat n).
  destruct (1 + lenN st0 + N.of_nat n <=? 1000) eqn:C2.
  2:{ replace (lenN st0 + N.of_nat n + 2 <=? 1000) with false by lia. rewrite andb_false_r. apply evfalse_fin_err. }
  rewrite num_push_data. rewrite crun_push_data by apply num_data_len.
  rewrite lenN_app, lenN_cons, lenN_rev. change (lenN keys) with (N.of_nat n).
  destruct (1000 <? N.of_nat n + (1 + lenN st0) + 1) eqn:C3.
  { replace (lenN st0 + N.of_nat n + 2 <=? 1000) with false by lia. rewrite andb_false_r. apply evfalse_fin_err. }
  replace (lenN st0 + N.of_nat n + 2 <=? 1000) with true by lia. rewrite andb_true_r.
  rewrite crun_exec by reflexivity.
  replace (MAX_OPS_PER_SCRIPT <? 0 + 1) with false by reflexivity.
  rewrite exec_checkmultisig.
  pose proof (op_cms_spec sv m keys st0 (0 + 1) ms Hm Hn ltac:(fold n; lia) Hin) as Hs. cbv zeta in Hs. fold n in Hs.
  destruct (m + 1 <=? length st0)%nat eqn:Elen.
  2:{ destruct Hs as [e Hs]. rewrite Hs. apply evfalse_fin_err. }
  destruct (skipn m st0) as [|dummy r] eqn:Esk; [exact I|].
  assert (Hr : lenN r + 1 <= 1000).
  { apply (f_equal (@length _)) in Esk. rewrite skipn_length in Esk. cbn [length] in Esk. unfold lenN in *. lia. }
  assert (Hd : forall x, (MAX_STACK_ITEMS <? depth (x :: r) + depth []) = false).
  { intros x. unfold MAX_STACK_ITEMS, depth. unfold lenN in Hr. cbn [length]. lia. }
  destruct ((if f_std fl then is_nil dummy else true) && CMS (sv_wit sv) ms (rev keys) (firstn m st0)).
  - rewrite Hs. cbn [cbind mk e_stack e_alt]. rewrite Hd. reflexivity.
  - destruct Hs as [Hs|[e Hs]]; rewrite Hs; cbn [cbind mk e_stack e_alt]; [|apply evfalse_fin_err].
    rewrite Hd. right. eexists. reflexivity.
Qed.

Lemma eval_ms_core sv m keys st0 :
  (1 <= m <= length keys)%nat -> (length keys <= 20)%nat -> Forall (fun k => lenN k <= 520) keys ->
  lenN (ms_script m keys) <= 10000 ->
  (sv = SV_BASE -> sigs_inert (ms_script m keys) (firstn m st0)) ->
  let n := length keys in
  let ms := ms_script m keys in
  let res := eval_script_e o fw sv ctx ms st0 in
  if (m + 1 <=? length st0)%nat && (lenN st0 + N.of_nat n + 2 <=? 1000) then
    match skipn m st0 with
    | dummy :: r =>
      if (if f_std fl then is_nil dummy else true) && CMS (sv_wit sv) ms (rev keys) (firstn m st0)
      then res = COk ([x01] :: r) else evfalse res
    | [] => True
    end
  else evfalse res.
Proof.
  intros Hm Hn Hk Hsz Hin. cbv zeta. rewrite eval_script_fin.
  replace (MAX_SCRIPT_SIZE <? VMcore.len (ms_script m keys)) with false
    by (unfold MAX_SCRIPT_SIZE; change (VMcore.len (ms_script m keys)) with (lenN (ms_script m keys)); lia).
  exact (run_ms_core sv m keys st0 Hm Hn Hk Hin).
Qed.
End Multi.
