(* Proofs/CurveMulP.v — Curve.multiply (signed-digit (e, 3e) ladder), Generator.raw_mul (fixed-base table) and the
   blinded Generator.__mul__ compute the Z-action of the group, for every integer scalar.
   Premises (Section hypotheses): M1 p prime, p <> 2, M4 associativity of the chord-and-tangent operation on the
   elements of the curve.  Everything else (closure, commutativity, identity, inverse) is proved in CurveAddP.v. *)
From Coq Require Import ZArith Lia Znumtheory Bool.
From PV Require Import Base.Outcome Model.Curve Spec.Weierstrass Proofs.CurveInvP Proofs.CurveAddP Proofs.CurveGroupP.
Local Open Scope Z_scope.

(* ---- bit facts ---------------------------------------------------------------------------------- *)
Lemma land_pow2_eqb x k : 0 <= k -> (Z.land x (2 ^ k) =? 0) = negb (Z.testbit x k).
Proof.
  intros Hk. destruct (Z.testbit x k) eqn:E; cbn [negb].
  - apply Z.eqb_neq. intros H.
    assert (T : Z.testbit (Z.land x (2 ^ k)) k = true).
    { rewrite Z.land_spec, E, Z.pow2_bits_true; auto. }
    rewrite H, Z.bits_0 in T. discriminate.
  - apply Z.eqb_eq. apply Z.bits_inj'. intros m Hm.
    rewrite Z.land_spec, Z.bits_0, Z.pow2_bits_eqb by lia.
    destruct (Z.eqb_spec k m) as [->|_]; [now rewrite E | apply andb_false_r].
Qed.

Lemma div_pow2_step x k : 0 <= k -> x / 2 ^ k = 2 * (x / 2 ^ (k + 1)) + Z.b2z (Z.testbit x k).
Proof.
  intros Hk. rewrite Z.testbit_spec' by lia.
  rewrite Z.pow_add_r, Z.pow_1_r by lia.
  rewrite <- Z.div_div by lia.
  apply Z.div_mod. lia.
Qed.

(* _leftmost_bit x = 2^(log2 x) *)
Lemma lmb_loop_spec x : 0 < x -> forall fuel k, 0 <= k <= Z.log2 x -> (Z.to_nat (Z.log2 x - k) + 2 <= fuel)%nat ->
  lmb_loop fuel (2 ^ k) x = Some (2 ^ (Z.log2 x + 1)).
Proof.
  intros Hx. destruct (Z.log2_spec x Hx) as [Hlo Hhi].
  induction fuel as [|fuel IH]; intros k Hk Hf; [lia|].
  cbn [lmb_loop].
  assert (Hle : 2 ^ k <= x).
  { apply Z.le_trans with (2 ^ Z.log2 x); [apply Z.pow_le_mono_r; lia | lia]. }
  destruct (Z.leb_spec (2 ^ k) x); [|lia].
  rewrite Z.shiftl_mul_pow2, Z.pow_1_r, Z.mul_comm, <- Z.pow_succ_r by lia.
  destruct (Z.eq_dec k (Z.log2 x)) as [->|Hne].
  - destruct fuel; [lia|]. cbn [lmb_loop].
    replace (Z.succ (Z.log2 x)) with (Z.log2 x + 1) in * by lia.
    destruct (Z.leb_spec (2 ^ (Z.log2 x + 1)) x); [lia|]. reflexivity.
  - replace (Z.succ k) with (k + 1) by lia. apply IH; lia.
Qed.

Lemma leftmost_bit_spec x : 0 < x -> leftmost_bit x = Ret (2 ^ Z.log2 x).
Proof.
  intros Hx. unfold leftmost_bit. destruct (Z.leb_spec x 0); [lia|].
  pose proof (Z.log2_nonneg x).
  change (lmb_loop (Z.to_nat (Z.log2 x) + 2) 1 x) with (lmb_loop (Z.to_nat (Z.log2 x) + 2) (2 ^ 0) x).
  rewrite (lmb_loop_spec x Hx) by lia.
  rewrite Z.shiftr_div_pow2, Z.pow_1_r, Z.pow_add_r, Z.pow_1_r, Z.div_mul by lia. reflexivity.
Qed.

Lemma leftmost_bit_nonpos x : x <= 0 -> leftmost_bit x = Raise E_ASSERT.
Proof. intros Hx. unfold leftmost_bit. destruct (Z.leb_spec x 0); [reflexivity|lia]. Qed.

(* ---- the group of the curve --------------------------------------------------------------------- *)
Section Mul.
Variable c : curve.
Hypothesis Hp : prime (cp c).
Hypothesis Hp2 : cp c <> 2.
Notation ok := (valid c).

(* M4 *)
Hypothesis Hassoc : forall P Q R, ok P -> ok Q -> ok R -> gadd c (gadd c P Q) R = gadd c P (gadd c Q R).

Notation sm := (smul None (gadd c) (gneg c)).

Lemma ok_e : ok None. Proof. split; exact I. Qed.
Lemma ok_op P Q : ok P -> ok Q -> ok (gadd c P Q).
Proof. intros [H1 _] [H2 _]. now apply gadd_valid. Qed.
Lemma ok_inv P : ok P -> ok (gneg c P).
Proof. intros [H1 _]. now apply gneg_valid. Qed.
Lemma g_comm P Q : ok P -> ok Q -> gadd c P Q = gadd c Q P.
Proof. intros [H1 _] [H2 _]. now apply gadd_comm. Qed.
Lemma g_e_l P : ok P -> gadd c None P = P.
Proof. intros [_ H]. rewrite gadd_None_l. now apply red_id_c. Qed.
Lemma g_inv_r P : ok P -> gadd c P (gneg c P) = None.
Proof. intros [H _]. now apply gadd_gneg. Qed.

Local Hint Resolve ok_e ok_op ok_inv g_comm g_e_l g_inv_r Hassoc : cgrp.

Lemma sm_ok k P : ok P -> ok (sm k P).
Proof. intros. apply ok_smul with (ok := valid c); auto with cgrp. Qed.
Lemma sm_add j k P : ok P -> sm (j + k) P = gadd c (sm j P) (sm k P).
Proof. intros. apply smul_add with (ok := valid c); auto with cgrp. Qed.
Lemma sm_succ k P : ok P -> sm (k + 1) P = gadd c (sm k P) P.
Proof. intros. apply smul_succ with (ok := valid c); auto with cgrp. Qed.
Lemma sm_pred k P : ok P -> sm (k - 1) P = gadd c (sm k P) (gneg c P).
Proof. intros. apply smul_pred with (ok := valid c); auto with cgrp. Qed.
Lemma sm_double k P : ok P -> gadd c (sm k P) (sm k P) = sm (2 * k) P.
Proof. intros. apply smul_double with (ok := valid c); auto with cgrp. Qed.
Lemma sm_1 P : ok P -> sm 1 P = P.
Proof. intros. apply smul_1 with (ok := valid c); auto with cgrp. Qed.
Lemma sm_opp k P : ok P -> sm (- k) P = gneg c (sm k P).
Proof. intros. apply smul_opp with (ok := valid c); auto with cgrp. Qed.
Lemma sm_sub j k P : ok P -> sm (j - k) P = gadd c (sm j P) (gneg c (sm k P)).
Proof. intros. apply smul_sub with (ok := valid c); auto with cgrp. Qed.
Lemma sm_mod m P k : ok P -> m <> 0 -> sm m P = None -> sm (k mod m) P = sm k P.
Proof. intros. apply smul_mod with (ok := valid c); auto with cgrp. Qed.
Lemma sm_no_two_torsion m P : ok P -> Z.odd m = true -> sm m P = None -> gadd c P P = None -> P = None.
Proof. intros. apply no_two_torsion with (ok := valid c) (op := gadd c) (inv := gneg c) (n := m); auto with cgrp. Qed.

(* the model's add / neg / sub on arbitrary on-curve operands, as group operations on the denoted elements *)
Lemma sm_None k : sm k None = None.
Proof. apply smul_e with (ok := valid c); auto with cgrp. Qed.

Lemma add_g P Q : on_curve c P -> on_curve c Q ->
  exists R, add c P Q = Ret R /\ on_curve c R /\ red c R = gadd c (red c P) (red c Q) /\
            (reduced c P -> reduced c Q -> reduced c R).
Proof.
  intros HP HQ. destruct (add_gadd c Hp Hp2 P Q HP HQ) as (R & E & HR & Hred & Er).
  exists R. repeat split; auto.
  - rewrite Er.
    pose proof (proj1 (on_curve_red_c c Hp Hp2 Q) HQ) as HQ'.
    rewrite gadd_red_l by auto. rewrite gadd_red_r by auto. reflexivity.
  - intros RP RQ. destruct P as [xy|]; [destruct Q as [xy'|]|].
    + apply Hred; congruence.
    + cbn [add] in E. destruct xy. inversion E. subst. exact RP.
    + cbn [add] in E. inversion E. subst. exact RQ.
Qed.

Lemma sub_g P Q : on_curve c P -> on_curve c Q ->
  exists R, sub c P Q = Ret R /\ on_curve c R /\ red c R = gadd c (red c P) (gneg c (red c Q)) /\
            (reduced c P -> (forall nQ, neg c Q = Ret nQ -> reduced c nQ) -> reduced c R).
Proof.
  intros HP HQ. unfold sub.
  destruct (neg_gneg c Hp Hp2 Q HQ) as (nQ & EnQ & HnQ & En). rewrite EnQ. cbn [bind].
  destruct (add_g P nQ HP HnQ) as (R & E & HR & Er & Hred).
  exists R. repeat split; auto.
  rewrite Er, En. now rewrite gneg_red.
Qed.

(* ---- the ladder -------------------------------------------------------------------------------- *)
Section Ladder.
Variable P : pt.
Hypothesis HP : ok P.
Variable e : Z.
Hypothesis He : 0 < e.
Let h := 3 * e.
Definition D (k : Z) : Z := h / 2 ^ k - e / 2 ^ k.

Lemma D_step k : 0 <= k -> D k = 2 * D (k + 1) + Z.b2z (Z.testbit h k) - Z.b2z (Z.testbit e k).
Proof. intros Hk. pose proof (div_pow2_step h k Hk). pose proof (div_pow2_step e k Hk). unfold D. lia. Qed.

Lemma D_1 : D 1 = e.
Proof. unfold D, h. rewrite Z.pow_1_r. Z.to_euclidean_division_equations. lia. Qed.

Lemma D_top : D (Z.log2 h) = 1.
Proof.
  unfold D. assert (Hh : 0 < h) by (unfold h; lia).
  destruct (Z.log2_spec h Hh) as [Hlo Hhi]. pose proof (Z.log2_nonneg h).
  rewrite Z.pow_succ_r in Hhi by lia.
  assert (E1 : h / 2 ^ Z.log2 h = 1).
  { symmetry. apply Z.div_unique with (h - 2 ^ Z.log2 h); [left; lia | lia]. }
  assert (E2 : e / 2 ^ Z.log2 h = 0).
  { apply Z.div_small. unfold h in *. lia. }
  lia.
Qed.

Definition neg_reduced : Prop := forall nP, neg c P = Ret nP -> reduced c nP.

Lemma ladder_spec : forall (k : nat) (fuel : nat) (result : pt),
  (k < fuel)%nat -> on_curve c result -> red c result = sm (D (Z.of_nat k + 1)) P ->
  exists R, ladder fuel c P e h (2 ^ Z.of_nat k) result = Ret R /\ on_curve c R /\ red c R = sm e P /\
            (neg_reduced -> reduced c result -> reduced c R).
Proof.
  destruct HP as [HPon HPred].
  assert (HPr : red c P = P) by (now apply red_id_c).
  induction k as [|k IH]; intros fuel result Hf Hon Hres.
  - destruct fuel; [lia|]. cbn [ladder]. change (2 ^ Z.of_nat 0) with 1. cbn [Z.leb Z.compare Pos.compare Pos.compare_cont].
    exists result. rewrite <- D_1. auto.
  - destruct fuel; [lia|]. cbn [ladder].
    rewrite Nat2Z.inj_succ in *. set (kz := Z.of_nat k) in *. assert (Hkz : 0 <= kz) by (subst kz; lia).
    assert (Hpow : 1 < 2 ^ Z.succ kz).
    { rewrite Z.pow_succ_r by lia. pose proof (Z.pow_pos_nonneg 2 kz); lia. }
    destruct (Z.leb_spec (2 ^ Z.succ kz) 1); [lia|].
    destruct (add_g result result Hon Hon) as (r2 & -> & Hr2 & Er2 & Rr2). cbn [bind].
    rewrite Hres in Er2. rewrite sm_double in Er2 by exact HP.
    rewrite !land_pow2_eqb, !negb_involutive by lia.
    assert (Hshift : Z.shiftr (2 ^ Z.succ kz) 1 = 2 ^ kz).
    { rewrite Z.shiftr_div_pow2, Z.pow_1_r, Z.pow_succ_r, Z.mul_comm, Z.div_mul by lia. reflexivity. }
    rewrite Hshift.
    pose proof (D_step (Z.succ kz) ltac:(lia)) as HD.
    destruct (Z.testbit h (Z.succ kz)) eqn:Bh.
    + destruct (add_g r2 P Hr2 HPon) as (s & -> & Hs & Es & Rs). cbn [bind].
      rewrite Er2, HPr in Es. rewrite <- sm_succ in Es by exact HP.
      destruct (Z.testbit e (Z.succ kz)) eqn:Be; cbn [Z.b2z] in HD.
      * destruct (IH fuel r2) as (R & ER & HR & EqR & RR); [lia|exact Hr2| |].
        { rewrite Er2. f_equal. fold kz. replace (kz + 1) with (Z.succ kz) by lia. lia. }
        exists R. repeat split; auto.
      * destruct (IH fuel s) as (R & ER & HR & EqR & RR); [lia|exact Hs| |].
        { rewrite Es. f_equal. fold kz. replace (kz + 1) with (Z.succ kz) by lia. lia. }
        exists R. repeat split; auto.
    + destruct (sub_g r2 P Hr2 HPon) as (s & -> & Hs & Es & Rs). cbn [bind].
      rewrite Er2, HPr in Es. rewrite <- sm_pred in Es by exact HP.
      destruct (Z.testbit e (Z.succ kz)) eqn:Be; cbn [Z.b2z] in HD.
      * destruct (IH fuel s) as (R & ER & HR & EqR & RR); [lia|exact Hs| |].
        { rewrite Es. f_equal. fold kz. replace (kz + 1) with (Z.succ kz) by lia. lia. }
        exists R. repeat split; auto.
      * destruct (IH fuel r2) as (R & ER & HR & EqR & RR); [lia|exact Hr2| |].
        { rewrite Er2. f_equal. fold kz. replace (kz + 1) with (Z.succ kz) by lia. lia. }
        exists R. repeat split; auto.
Qed.

End Ladder.

(* ---- Curve.multiply ---------------------------------------------------------------------------- *)
Definition reduce_scalar (e : Z) : Z := if cn c =? 0 then e else e mod cn c.

Lemma multiply_nonneg P e : on_curve c P -> 0 <= reduce_scalar e ->
  exists R, multiply c P e = Ret R /\ on_curve c R /\ red c R = sm (reduce_scalar e) (red c P) /\
            ((forall nP, neg c (red c P) = Ret nP -> reduced c nP) -> reduced c R).
Proof.
  intros HP He. unfold multiply. fold (reduce_scalar e). set (e' := reduce_scalar e) in *.
  destruct P as [[x y]|].
  - destruct (Z.eqb_spec e' 0) as [->|Hne].
    + exists None. cbn. auto.
    + pose proof (red_valid_c c Hp Hp2 _ HP) as HV. cbn [red] in HV. destruct HV as [HVon HVred].
      rewrite (mk_point_on_c c Hp Hp2 _ _ HVon). cbn [bind].
      set (P' := Some (x mod cp c, y mod cp c)) in *.
      assert (He' : 0 < e') by lia. assert (Hh : 0 < 3 * e') by lia.
      rewrite (leftmost_bit_spec _ Hh). cbn [bind].
      assert (HL : 1 <= Z.log2 (3 * e')).
      { apply Z.log2_le_pow2; [lia|]. change (2 ^ 1) with 2. lia. }
      assert (Hsh : Z.shiftr (2 ^ Z.log2 (3 * e')) 1 = 2 ^ Z.of_nat (Z.to_nat (Z.log2 (3 * e') - 1))).
      { rewrite Z2Nat.id by lia. rewrite Z.shiftr_div_pow2, Z.pow_1_r by lia.
        replace (Z.log2 (3 * e')) with (Z.succ (Z.log2 (3 * e') - 1)) at 1 by lia.
        rewrite Z.pow_succ_r, Z.mul_comm, Z.div_mul by lia. reflexivity. }
      rewrite Hsh.
      destruct (ladder_spec P' (conj HVon HVred) e' (Z.to_nat (Z.log2 (3 * e') - 1))
                  (Z.to_nat (Z.log2 (3 * e')) + 1) P') as (R & -> & HR & ER & RR).
      * lia.
      * exact HVon.
      * rewrite Z2Nat.id by lia. replace (Z.log2 (3 * e') - 1 + 1) with (Z.log2 (3 * e')) by lia.
        rewrite D_top by lia. rewrite sm_1 by (split; assumption). now apply red_id_c.
      * exists R. repeat split; auto.
  - exists None. cbn [red]. rewrite sm_None. cbn. auto.
Qed.

(* the scalar acts modulo the declared order whenever that order annihilates the point: ALL integers e *)
Theorem multiply_correct P e : on_curve c P -> 0 < cn c -> sm (cn c) (red c P) = None ->
  exists R, multiply c P e = Ret R /\ on_curve c R /\ red c R = sm e (red c P).
Proof.
  intros HP Hn Hord.
  destruct (multiply_nonneg P e HP) as (R & E & HR & ER & _).
  - unfold reduce_scalar. destruct (Z.eqb_spec (cn c) 0); [lia|]. apply Z.mod_pos_bound. lia.
  - exists R. repeat split; auto. rewrite ER. unfold reduce_scalar.
    destruct (Z.eqb_spec (cn c) 0); [lia|].
    apply sm_mod; [now apply red_valid_c | lia | exact Hord].
Qed.

(* a curve object without order: the scalar is used as given; negative scalars fail the assertion of _leftmost_bit *)
Theorem multiply_no_order P e : on_curve c P -> cn c = 0 -> 0 <= e ->
  exists R, multiply c P e = Ret R /\ on_curve c R /\ red c R = sm e (red c P).
Proof.
  intros HP Hn He.
  destruct (multiply_nonneg P e HP) as (R & E & HR & ER & _).
  - unfold reduce_scalar. rewrite Hn. exact He.
  - exists R. repeat split; auto. rewrite ER. unfold reduce_scalar. now rewrite Hn.
Qed.

Theorem multiply_no_order_negative x y e : on_curve c (Some (x, y)) -> cn c = 0 -> e < 0 ->
  multiply c (Some (x, y)) e = Raise E_ASSERT.
Proof.
  intros HP Hn He. unfold multiply. rewrite Hn. cbn [Z.eqb].
  destruct (Z.eqb_spec e 0); [lia|].
  pose proof (red_valid_c c Hp Hp2 _ HP) as [HVon _]. cbn [red] in HVon.
  rewrite (mk_point_on_c c Hp Hp2 _ _ HVon). cbn [bind].
  rewrite leftmost_bit_nonpos by lia. reflexivity.
Qed.

(* odd order: no point with y = 0, negation keeps coordinates reduced, the result is the reduced pair itself *)
Lemma odd_order_neg_reduced P m : valid c P -> Z.odd m = true -> sm m P = None ->
  forall nP, neg c P = Ret nP -> reduced c nP.
Proof.
  intros HV Hodd Hm nP E. destruct P as [[x y]|]; cbn [neg] in E.
  - destruct HV as [Hon [Hx Hy]].
    assert (y <> 0).
    { intros ->. assert (K : gadd c (Some (x, 0)) (Some (x, 0)) = None).
      { unfold gadd. destruct c as [p a b n]. cbn [cp ca cb cn] in *. unfold padd.
        rewrite add_opp; auto; unfold eqm; f_equal; lia. }
      pose proof (sm_no_two_torsion m _ (conj Hon (conj Hx Hy)) Hodd Hm K). discriminate. }
    unfold mk_point in E. destruct (contains_point c (Some (x, cp c - y))); inversion E. subst.
    cbn. lia.
  - inversion E. exact I.
Qed.

Theorem multiply_exact P e : on_curve c P -> 0 < cn c -> Z.odd (cn c) = true -> sm (cn c) (red c P) = None ->
  multiply c P e = Ret (sm e (red c P)).
Proof.
  intros HP Hn Hodd Hord.
  pose proof (red_valid_c c Hp Hp2 _ HP) as HV.
  destruct (multiply_nonneg P e HP) as (R & E & HR & ER & RR).
  - unfold reduce_scalar. destruct (Z.eqb_spec (cn c) 0); [lia|]. apply Z.mod_pos_bound. lia.
  - rewrite E. f_equal.
    rewrite <- (red_id_c c R).
    + rewrite ER. unfold reduce_scalar. destruct (Z.eqb_spec (cn c) 0); [lia|].
      apply sm_mod; [exact HV | lia | exact Hord].
    + apply RR. apply (odd_order_neg_reduced _ (cn c)); auto.
Qed.

(* ---- Generator.raw_mul / __mul__ -------------------------------------------------------------- *)
Lemma land_1 x : (Z.land x 1 =? 0) = (x mod 2 =? 0).
Proof. change 1 with (Z.ones 1) at 1. rewrite Z.land_ones by lia. reflexivity. Qed.

Section FixedBase.
Variable G : pt.
Hypothesis HG : on_curve c G.
Let Gr := red c G.

Lemma Gr_ok : ok Gr.
Proof. now apply red_valid_c. Qed.

Lemma raw_loop_spec : forall (k : nat) (Pacc Gp : pt) (ecur m1 m2 : Z),
  on_curve c Pacc -> on_curve c Gp -> red c Pacc = sm m1 Gr -> red c Gp = sm m2 Gr -> 0 <= ecur ->
  exists R, raw_loop k c Pacc Gp ecur = Ret R /\ on_curve c R /\
            red c R = sm (m1 + m2 * (ecur mod 2 ^ Z.of_nat k)) Gr /\
            (reduced c Pacc -> reduced c Gp -> reduced c R).
Proof.
  pose proof Gr_ok as HGr.
  induction k as [|k IH]; intros Pacc Gp ecur m1 m2 HPa HGp EPa EGp He.
  - cbn [raw_loop]. exists Pacc. change (2 ^ Z.of_nat 0) with 1. rewrite Z.mod_1_r, Z.mul_0_r, Z.add_0_r. auto.
  - cbn [raw_loop].
    destruct (add_g Pacc Gp HPa HGp) as (s & -> & Hs & Es & Rs). cbn [bind].
    rewrite EPa, EGp, <- sm_add in Es by exact HGr.
    destruct (add_g Gp Gp HGp HGp) as (Gp' & -> & HGp' & EGp' & RGp'). cbn [bind].
    rewrite EGp, sm_double in EGp' by exact HGr.
    rewrite land_1.
    assert (Hmod : ecur mod 2 ^ Z.of_nat (S k) = ecur mod 2 + 2 * ((ecur / 2) mod 2 ^ Z.of_nat k)).
    { rewrite Nat2Z.inj_succ, Z.pow_succ_r by lia. apply Z.rem_mul_r; [lia|]. apply Z.pow_pos_nonneg; lia. }
    assert (Hsh : Z.shiftr ecur 1 = ecur / 2) by (rewrite Z.shiftr_div_pow2 by lia; reflexivity).
    rewrite Hsh. assert (He2 : 0 <= ecur / 2) by (apply Z.div_pos; lia).
    pose proof (Z.mod_pos_bound ecur 2 ltac:(lia)) as Hb.
    destruct (Z.eqb_spec (ecur mod 2) 0) as [E0|E0].
    + destruct (IH Pacc Gp' (ecur / 2) m1 (2 * m2) HPa HGp' EPa EGp' He2) as (R & -> & HR & ER & RR).
      exists R. repeat split; auto. rewrite ER. f_equal. rewrite Hmod, E0. lia.
    + destruct (IH s Gp' (ecur / 2) (m1 + m2) (2 * m2) Hs HGp' Es EGp' He2) as (R & -> & HR & ER & RR).
      exists R. repeat split; auto. rewrite ER. f_equal. rewrite Hmod. assert (ecur mod 2 = 1) by lia. lia.
Qed.

Variable g : gen.
Hypothesis Hgc : gc g = c.
Hypothesis HgG : gG g = G.
(* what the proof forces: the table must cover every reduced scalar, and the declared order must annihilate G *)
Hypothesis Hbits : 0 < cn c <= 2 ^ Z.of_nat (g_bits g).
Hypothesis Hord : sm (cn c) Gr = None.

Theorem raw_mul_correct e :
  exists R, raw_mul g e = Ret R /\ on_curve c R /\ red c R = sm e Gr /\ (reduced c G -> reduced c R).
Proof.
  unfold raw_mul. rewrite Hgc, HgG. destruct (Z.eqb_spec (cn c) 0); [lia|].
  pose proof (Z.mod_pos_bound e (cn c) ltac:(lia)) as Hb.
  destruct (raw_loop_spec (g_bits g) None G (e mod cn c) 0 1) as (R & -> & HR & ER & RR).
  - exact I.
  - exact HG.
  - reflexivity.
  - symmetry. apply sm_1. apply Gr_ok.
  - lia.
  - exists R. repeat split; auto.
    + rewrite ER. rewrite Z.mod_small by lia. rewrite Z.add_0_l, Z.mul_1_l.
      apply sm_mod; [apply Gr_ok | lia | exact Hord].
    + intros HGred. apply RR; [exact I | exact HGred].
Qed.

(* blinding is transparent: whatever the blinding factor, G * e is the same element as raw_mul(e) *)
Theorem gmul_correct e :
  exists R, gmul g e = Ret R /\ on_curve c R /\ red c R = sm e Gr /\ (reduced c G -> reduced c R).
Proof.
  unfold gmul.
  destruct (raw_mul_correct (e + g_blind g)) as (A & -> & HA & EA & RA). cbn [bind].
  destruct (raw_mul_correct (- g_blind g)) as (B & -> & HB & EB & RB). cbn [bind].
  rewrite Hgc.
  destruct (add_g A B HA HB) as (R & -> & HR & ER & RR).
  exists R. repeat split; auto.
  rewrite ER, EA, EB, <- sm_add by apply Gr_ok. f_equal. lia.
Qed.

End FixedBase.

End Mul.
