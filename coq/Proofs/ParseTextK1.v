(* Proofs/ParseTextK1.v — C18: the number-theoretic premise `sqrt_exact` of the public_pair re-serialisation theorem,
   DISCHARGED for the square root pycoin really computes, pow(a, (p+1)//4, p) on the curve prime of Model/ParseText.v.
   Uses: primality of the secp256k1 field prime (Proofs/CurvePrimesC10.v, Pocklington certificate), Fermat's little
   theorem (Proofs/FermatC10.v), the p = 3 (mod 4) square-root lemma and "no point has y = 0" of C10
   (Proofs/SecP.v, Proofs/SecK1Primes.v).  The curve constants of this property (Gen/GenParsePrefixes.v, from the live
   generator of every registered network) are the SAME numbers as C10's (Gen/GenCurveC10.v): by reflexivity. *)
From Coq Require Import List NArith ZArith Znumtheory Bool Lia.
From PV Require Import Base.Bytes Base.Outcome Gen.GenParsePrefixes Model.ParseText Proofs.ParseTextP.
From PV Require Import Gen.GenCurveC10 Model.Sec Proofs.FermatC10 Proofs.SecP Proofs.CurvePrimesC10 Proofs.SecK1Primes.
Local Open Scope Z_scope.

Lemma curve_is_k1 : curve_p = k1_p /\ curve_a = k1_a /\ curve_b = k1_b.
Proof. repeat split; reflexivity. Qed.

Lemma prime_curve_p : prime curve_p.
Proof. exact prime_k1_p. Qed.

Lemma curve_p_mod4 : curve_p mod 4 = 3.
Proof. exact k1_mod4. Qed.

(* Model/ParseText's own square-and-multiply (used by the witnesses) computes a ^ e mod m *)
Lemma c18_powmod_pos_spec a e m : 0 < m -> ParseTextP.powmod_pos a e m = (a ^ Zpos e) mod m.
Proof.
  intros Hm. induction e as [e IH|e IH|]; cbn [ParseTextP.powmod_pos].
  - rewrite IH, Pos2Z.inj_xI.
    replace (2 * Z.pos e + 1) with (Z.pos e + Z.pos e + 1) by lia.
    rewrite !Z.pow_add_r, Z.pow_1_r by lia.
    rewrite <- Z.mul_assoc, Z.mul_mod_idemp_l by lia.
    rewrite (Z.mul_comm ((a ^ Z.pos e) mod m) a), Z.mul_assoc, Z.mul_mod_idemp_r by lia.
    f_equal. ring.
  - rewrite IH, Pos2Z.inj_xO.
    replace (2 * Z.pos e) with (Z.pos e + Z.pos e) by lia.
    rewrite Z.pow_add_r by lia. rewrite <- Z.mul_mod by lia. reflexivity.
  - rewrite Z.pow_1_r. reflexivity.
Qed.

(* modsqrt_real a = pow(a, (p+1)//4, p) *)
Lemma modsqrt_real_spec a : modsqrt_real a = (a ^ ((curve_p + 1) / 4)) mod curve_p.
Proof.
  unfold modsqrt_real. pose proof curve_p_pos as Hp.
  assert (He : 0 < (curve_p + 1) / 4) by (vm_compute; reflexivity).
  destruct ((curve_p + 1) / 4) as [|e|e] eqn:E; try lia.
  apply c18_powmod_pos_spec. exact Hp.
Qed.

Lemma on_curve_contains x y : on_curve (x, y) = contains_point k1_p k1_a k1_b x y.
Proof. reflexivity. Qed.

(* pow(a, (p+1)//4, p) is exact on secp256k1: for a curve point (x, y) with coordinates in [0, p) it returns y or p - y,
   and never 0 *)
Theorem sqrt_exact_secp256k1 : sqrt_exact modsqrt_real.
Proof.
  intros x y C R. cbv zeta. destruct (in_range_bounds _ _ R) as [[X0 X1] [Y0 Y1]].
  pose proof curve_p_pos as Hp.
  assert (Hy : 0 < y).
  { destruct (Z.eq_dec y 0) as [->|]; [|lia]. rewrite on_curve_contains in C.
    rewrite (k1_no_y0_unconditional x) in C by (change k1_p with curve_p; lia). discriminate. }
  assert (Halpha : ((x ^ 3) mod curve_p + curve_a * x + curve_b) mod curve_p = (y * y) mod curve_p).
  { rewrite on_curve_contains in C. apply (contains_point_iff k1_p k1_a k1_b ltac:(change k1_p with curve_p; lia)) in C.
    change k1_p with curve_p in C. change k1_a with curve_a in C. change k1_b with curve_b in C.
    rewrite C. rewrite <- Z.add_assoc, Z.add_mod_idemp_l by lia. f_equal. ring. }
  rewrite Halpha, modsqrt_real_spec.
  pose proof (sqrt_3mod4 curve_p y prime_curve_p curve_p_mod4 (conj Hy Y1)
                (fermat_little curve_p y prime_curve_p (conj Hy Y1))) as Hs. cbv zeta in Hs.
  destruct Hs as [E|E]; rewrite E; split; try lia.
Qed.

(* hence: keys returned by public_pair re-serialise to a SEC text that sec() parses to the same key — no premise *)
Lemma public_pair_reserialize_secp256k1 int10 int16 mulG net s o :
  public_pair int10 int16 mulG modsqrt_real net s = Ret (Some o) ->
  exists t, public_key_text net o = Ret t /\ sec modsqrt_real net t = Ret (Some o).
Proof. exact (public_pair_reserialize modsqrt_real sqrt_exact_secp256k1 int10 int16 mulG net s o). Qed.
