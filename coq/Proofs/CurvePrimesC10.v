(* Proofs/CurvePrimesC10.v — the primes proved in Proofs/CurvePrimes.v ARE the regenerated parameters of Gen/GenCurveC10.v *)
From Coq Require Import ZArith Znumtheory.
From PV Require Import Proofs.CurvePrimes Gen.GenCurveC10.
Local Open Scope Z_scope.

Theorem prime_k1_p : prime k1_p.
Proof. exact prime_lit_k1_p. Qed.

Theorem prime_k1_n : prime k1_n.
Proof. exact prime_lit_k1_n. Qed.
