(* Proofs/ComposeStreamer.v — composition C16 x (C07, C14): the peer-to-peer message round trip with the REAL
   transaction / block / header codecs.

   Proofs/StreamerP.v proves the round trips for any codecs T, B, z whose frame law holds for EVERY value of the value
   type.  The real codecs (Proofs/ComposeOkb.v: m_parse_T = C07's Tx.parse, m_parse_B = C14's Block.parse over it,
   m_parse_z = C14's parse_header) have the law for well-formed values only.  So:
     1. Section Sim (generic, no reference to C07/C14): if a second instance of Model/Streamer.v (types TxS BlockS HdrS)
        has codecs that are RESTRICTIONS of the first (types TxV BlockV HdrV) along maps fT fB fz — whatever the
        restricted parser returns, the full parser returns (its image) on the same input; the restricted streamer
        is the full streamer on the image — then every successful parse of the restricted instance is a successful
        parse of the full instance with the image values (parse_struct_sim, parse_message_sim), packing commutes with
        the image map (stream_struct_pmap, pack_fields_sim) and so do the wire forms (wire_message_pmap).  With the
        frame law on the restricted instance, StreamerP's message_frame therefore transfers to the full instance for
        all values in the image (all_messages_sim).
     2. Section Real: the restricted instance is ComposeOkb's subset-type codecs (frame law for every value proved
        there from C07/C14's theorems), the full instance the real codecs; "in the image" = every transaction /
        block / header occurring in the message values is well formed (ok_field). *)
From PV Require Import Base.Bytes Base.Outcome Base.Varint Gen.GenMessages Model.Streamer Spec.WireC16 Proofs.StreamerP.
From PV Require Model.TxWire Spec.TxWireSpec Model.Block Proofs.BlockP.
From PV Require Import Proofs.ComposeBlockTx Proofs.ComposeOkb.
From Coq Require Import ZifyBool ZifyNat ZifyN.
Local Open Scope outcome_scope.

Lemma combine_map_r {A B C} (f : B -> C) (l : list A) (l' : list B) :
  combine l (map f l') = map (fun '(k, v) => (k, f v)) (combine l l').
Proof. revert l'. induction l as [|a l IH]; intros [|b l']; cbn [combine map]; [reflexivity..|]. now rewrite IH. Qed.

Section Sim.
Variables TxS BlockS HdrS TxV BlockV HdrV : Type.
Variable fT : TxS -> TxV.
Variable fB : BlockS -> BlockV.
Variable fz : HdrS -> HdrV.
Variable parse_T' : parser TxS.
Variable parse_B' : parser BlockS.
Variable parse_z' : parser HdrS.
Variable parse_T : parser TxV.
Variable parse_B : parser BlockV.
Variable parse_z : parser HdrV.
Variable stream_T : TxV -> bytes.
Variable stream_B : BlockV -> bytes.
Variable stream_z : HdrV -> bytes.
Variable header_of' : BlockS -> HdrS.
Variable header_of : BlockV -> HdrV.
Variable ip4 : bytes.
Variable ict : list Z.
Hypothesis sim_T : forall s v r, parse_T' s = Ret (v, r) -> parse_T s = Ret (fT v, r).
Hypothesis sim_B : forall s v r, parse_B' s = Ret (v, r) -> parse_B s = Ret (fB v, r).
Hypothesis sim_z : forall s v r, parse_z' s = Ret (v, r) -> parse_z s = Ret (fz v, r).
Hypothesis hdr_comm : forall b, fz (header_of' b) = header_of (fB b).

Notation pyv' := (pyval TxS BlockS HdrS).
Notation pyv := (pyval TxV BlockV HdrV).
Notation stream_T' := (fun v => stream_T (fT v)).
Notation stream_B' := (fun v => stream_B (fB v)).
Notation stream_z' := (fun v => stream_z (fz v)).
Notation sc' := (stream_codec stream_T' stream_B' stream_z' header_of').
Notation sc := (stream_codec stream_T stream_B stream_z header_of).
Notation pc' := (parse_codec parse_T' parse_B' parse_z' ip4 ict).
Notation pc := (parse_codec parse_T parse_B parse_z ip4 ict).
Notation ss' := (stream_struct stream_T' stream_B' stream_z' header_of').
Notation ss := (stream_struct stream_T stream_B stream_z header_of).
Notation ps' := (parse_struct parse_T' parse_B' parse_z' ip4 ict).
Notation ps := (parse_struct parse_T parse_B parse_z ip4 ict).

(* the image of a value of the restricted instance *)
Fixpoint pmap (v : pyv') : pyv :=
  match v with
  | VNone => VNone
  | VInt z => VInt z
  | VBool b => VBool b
  | VBytes b => VBytes b
  | VTuple l => VTuple (map pmap l)
  | VAddr s i p => VAddr s i p
  | VInv t d => VInv t d
  | VTx t => VTx (fT t)
  | VBlock b => VBlock (fB b)
  | VHdr h => VHdr (fz h)
  | VDict d => VDict (map (fun '(k, x) => (k, pmap x)) d)
  end.
Definition dmap (d : list (bytes * pyv')) : list (bytes * pyv) := map (fun '(k, x) => (k, pmap x)) d.

(* ---- stream side: packing commutes with the image map ---------------------------------------------------------------- *)
Lemma as_int_pmap v : as_int (pmap v) = as_int v.
Proof. destruct v; reflexivity. Qed.
Lemma truthy_pmap v : truthy (pmap v) = truthy v.
Proof. destruct v; cbn [pmap truthy]; try reflexivity; now rewrite map_length. Qed.
Lemma pack_uint_pmap be w v : pack_uint be w (pmap v) = pack_uint be w v.
Proof. unfold pack_uint. now rewrite as_int_pmap. Qed.

Lemma stream_codec_pmap k v : sc k (pmap v) = sc' k v.
Proof.
  destruct k; cbn [stream_codec]; try apply pack_uint_pmap.
  - destruct v; reflexivity.
  - destruct v; reflexivity.
  - destruct v; reflexivity.
  - destruct v; reflexivity.
  - now rewrite truthy_pmap.
  - destruct v; reflexivity.
  - destruct v; reflexivity.
  - destruct v; reflexivity.
  - destruct v; reflexivity.
  - destruct v; try reflexivity. cbn [pmap]. now rewrite hdr_comm.
  - now rewrite pack_uint_pmap.
  - destruct v; reflexivity.
Qed.

Lemma stream_struct_pmap fmt : forall vs, ss fmt (map pmap vs) = ss' fmt vs.
Proof.
  induction fmt as [|c fmt IH]; intros [|v vs]; cbn [stream_struct map]; try reflexivity.
  destruct (codec_of_char c) as [k|]; [|reflexivity]. now rewrite stream_codec_pmap, IH.
Qed.

Lemma pack_elems_pmap subfmt es :
  pack_elems stream_T stream_B stream_z header_of subfmt (map pmap es) =
  pack_elems stream_T' stream_B' stream_z' header_of' subfmt es.
Proof.
  induction es as [|e es IH]; cbn [pack_elems map]; [reflexivity|]. rewrite IH.
  replace (match pmap e with VTuple t => t | _ => [pmap e] end)
    with (map pmap (match e with VTuple t => t | _ => [e] end)) by (destruct e; reflexivity).
  now rewrite stream_struct_pmap.
Qed.

Lemma as_seq_pmap v : as_seq (pmap v) = do l <- as_seq v; Ret (map pmap l).
Proof. destruct v; cbn [pmap as_seq bind]; try reflexivity. now rewrite map_map. Qed.

Lemma pack_field_pmap ty v :
  pack_field stream_T stream_B stream_z header_of ty (pmap v) = pack_field stream_T' stream_B' stream_z' header_of' ty v.
Proof.
  unfold pack_field. destruct ty as [|c rest]; [reflexivity|]. destruct (byte_eqb c lbracket).
  - rewrite as_seq_pmap. destruct (as_seq v) as [l| |]; cbn [bind]; try reflexivity.
    rewrite map_length, pack_elems_pmap.
    change (@cons pyv (VInt (Z.of_nat (length l))) nil) with (map pmap (@cons pyv' (VInt (Z.of_nat (length l))) nil)).
    now rewrite stream_struct_pmap.
  - change (@cons pyv (pmap v) nil) with (map pmap (@cons pyv' v nil)). apply stream_struct_pmap.
Qed.

Lemma pack_fields_sim layout kwargs kwargs' :
  (forall nm, In nm (map fst layout) -> exists v', str_lookup kwargs' nm = Some v' /\ str_lookup kwargs nm = Some (pmap v')) ->
  pack_fields stream_T stream_B stream_z header_of layout kwargs =
  pack_fields stream_T' stream_B' stream_z' header_of' layout kwargs'.
Proof.
  induction layout as [|[nm ty] layout IH]; intros H; cbn [pack_fields]; [reflexivity|].
  destruct (H nm (or_introl eq_refl)) as (v' & -> & ->). rewrite pack_field_pmap, IH; [reflexivity|].
  intros n Hn. apply H. now right.
Qed.

(* ---- wire forms and declared types ---------------------------------------------------------------------------------------- *)
Lemma wt_pmap k v : wt k (pmap v) = wt k v.
Proof. destruct k, v; reflexivity. Qed.
Lemma wire_pmap k v : wire stream_T stream_B stream_z k (pmap v) = wire stream_T' stream_B' stream_z' k v.
Proof. destruct k, v; reflexivity. Qed.
Lemma wire_tuple_pmap ks : forall vs,
  wire_tuple stream_T stream_B stream_z ks (map pmap vs) = wire_tuple stream_T' stream_B' stream_z' ks vs.
Proof. induction ks as [|k ks IH]; intros [|v vs]; cbn [wire_tuple map]; try reflexivity. now rewrite wire_pmap, IH. Qed.
Lemma wire_elem_pmap ks e :
  wire_elem stream_T stream_B stream_z ks (pmap e) = wire_elem stream_T' stream_B' stream_z' ks e.
Proof.
  unfold wire_elem. destruct ks as [|k [|k2 ks]]; [destruct e; cbn [pmap]; try reflexivity; apply wire_tuple_pmap | apply wire_pmap |].
  destruct e; cbn [pmap]; try reflexivity. apply wire_tuple_pmap.
Qed.
Lemma wire_field_pmap ft v :
  wire_field stream_T stream_B stream_z ft (pmap v) = wire_field stream_T' stream_B' stream_z' ft v.
Proof.
  destruct ft as [k|ks]; cbn [wire_field]; [apply wire_pmap|]. destruct v; cbn [pmap]; try reflexivity.
  rewrite map_length, map_map. f_equal. f_equal. apply map_ext. intros e. apply wire_elem_pmap.
Qed.
Lemma wire_message_pmap fts : forall vals,
  wire_message stream_T stream_B stream_z fts (map pmap vals) = wire_message stream_T' stream_B' stream_z' fts vals.
Proof. induction fts as [|ft fts IH]; intros [|v vals]; cbn [wire_message map]; try reflexivity. now rewrite wire_field_pmap, IH. Qed.

Lemma Forall2_wt_pmap ks : forall vs, Forall2 wt ks (map pmap vs) -> Forall2 wt ks vs.
Proof.
  induction ks as [|k ks IH]; intros [|v vs] H; inversion H; subst; constructor.
  - now rewrite <- wt_pmap.
  - now apply IH.
Qed.
Lemma wt_elem_pmap ks e : wt_elem ks (pmap e) -> wt_elem ks e.
Proof.
  unfold wt_elem. destruct ks as [|k [|k2 ks]].
  - destruct e; cbn [pmap]; auto. apply Forall2_wt_pmap.
  - now rewrite wt_pmap.
  - destruct e; cbn [pmap]; auto. apply Forall2_wt_pmap.
Qed.
Lemma wt_field_pmap ft v : wt_field ft (pmap v) -> wt_field ft v.
Proof.
  destruct ft as [k|ks]; cbn [wt_field]; [now rewrite wt_pmap|]. destruct v; cbn [pmap]; auto.
  rewrite map_length. intros [Hl Hf]. split; [exact Hl|]. rewrite Forall_map in Hf.
  eapply Forall_impl; [|exact Hf]. intros e. apply wt_elem_pmap.
Qed.
Lemma Forall2_wt_field_pmap fts : forall vals, Forall2 wt_field fts (map pmap vals) -> Forall2 wt_field fts vals.
Proof.
  induction fts as [|ft fts IH]; intros [|v vals] H; inversion H; subst; constructor.
  - now apply wt_field_pmap.
  - now apply IH.
Qed.

(* ---- parse side: a successful restricted parse is a successful full parse of the image ------------------------------ *)
Lemma lift_sim {A} (p : parser A) (f' : A -> pyv') (f : A -> pyv) s v r :
  (forall a, pmap (f' a) = f a) -> lift p f' s = Ret (v, r) -> lift p f s = Ret (pmap v, r).
Proof.
  intros Hf. unfold lift. destruct (p s) as [[a r']| |]; cbn [bind]; try discriminate.
  intros H. injection H as <- <-. now rewrite Hf.
Qed.

Lemma parse_codec_sim k s v r : pc' k s = Ret (v, r) -> pc k s = Ret (pmap v, r).
Proof.
  destruct k; cbn [parse_codec]; try (apply lift_sim; reflexivity).
  - unfold read. intros H. injection H as <- <-. reflexivity.
  - unfold read. intros H. injection H as <- <-. reflexivity.
  - destruct s; [discriminate|]. intros H. injection H as <- <-. reflexivity.
  - unfold parse_addr, mk_addr, read. destruct (read_le 8 s) as [[sv s1]| |]; cbn [bind]; try discriminate.
    destruct (read_be 2 _) as [[pt s3]| |]; cbn [bind]; try discriminate.
    destruct (length _ =? 16)%nat; cbn [bind]; try discriminate. intros H. injection H as <- <-. reflexivity.
  - unfold parse_inv, mk_inv, read. destruct (read_le 4 s) as [[ty s1]| |]; cbn [bind]; try discriminate.
    cbn [negb andb]. destruct (length _ =? 32)%nat; cbn [bind]; try discriminate.
    intros H. injection H as <- <-. reflexivity.
  - unfold lift. destruct (parse_T' s) as [[a r']| |] eqn:E; cbn [bind]; try discriminate.
    rewrite (sim_T _ _ _ E). cbn [bind]. intros H. injection H as <- <-. reflexivity.
  - unfold lift. destruct (parse_B' s) as [[a r']| |] eqn:E; cbn [bind]; try discriminate.
    rewrite (sim_B _ _ _ E). cbn [bind]. intros H. injection H as <- <-. reflexivity.
  - unfold lift. destruct (parse_z' s) as [[a r']| |] eqn:E; cbn [bind]; try discriminate.
    rewrite (sim_z _ _ _ E). cbn [bind]. intros H. injection H as <- <-. reflexivity.
  - destruct s; intros H; injection H as <- <-; reflexivity.
Qed.

Section LoopSim.
Variable elem' : parser pyv'.
Variable elem : parser pyv.
Hypothesis elem_sim : forall s v r, elem' s = Ret (v, r) -> elem s = Ret (pmap v, r).

Definition Rst (st' : lstate TxS BlockS HdrS) (st : lstate TxV BlockV HdrV) : Prop :=
  match st' with
  | Running c acc s => st = Running c (map pmap acc) s
  | Done (Ret (l, r)) => st = Done (Ret (map pmap l, r))
  | Done _ => True
  end.

Lemma step_Rst st' st : Rst st' st -> Rst (step elem' st') (step elem st).
Proof.
  destruct st' as [c acc s|[[l r]|e|]]; cbn [Rst]; intros H; try subst st; cbn [step Rst]; auto.
  destruct (c =? 0)%N.
  - cbn [Rst]. now rewrite !rev_append_rev, !app_nil_r, map_rev.
  - destruct (elem' s) as [[v s']| |] eqn:E; cbn [Rst]; auto. rewrite (elem_sim _ _ _ E). reflexivity.
Qed.

Lemma iter_Rst n st' st : Rst st' st -> Rst (Nat.iter n (step elem') st') (Nat.iter n (step elem) st).
Proof.
  intros H. induction n as [|n IH]; [exact H|].
  change (Nat.iter (S n) (step elem') st') with (step elem' (Nat.iter n (step elem') st')).
  change (Nat.iter (S n) (step elem) st) with (step elem (Nat.iter n (step elem) st)).
  now apply step_Rst.
Qed.

Lemma parse_array_sim count s l r :
  parse_array elem' count s = Ret (l, r) -> parse_array elem count s = Ret (map pmap l, r).
Proof.
  unfold parse_array. rewrite !loopk_iter. remember (2 ^ loop_depth)%nat as X eqn:EX. clear EX.
  pose proof (iter_Rst X (Running count [] s) (Running count [] s) eq_refl) as H.
  destruct (Nat.iter _ (step elem') _) as [c acc s0|[[l0 r0]|e|]]; try discriminate.
  intros E. injection E as -> ->. cbn [Rst] in H. now rewrite H.
Qed.
End LoopSim.

Lemma parse_struct_sim : forall n fmt s vs r, ps' n fmt s = Ret (vs, r) -> ps n fmt s = Ret (map pmap vs, r).
Proof.
  induction n as [|n IH]; intros fmt s vs r H; destruct fmt as [|c fmt']; cbn [parse_struct] in *;
    try discriminate; try (injection H as <- <-; reflexivity).
  destruct (byte_eqb c lbracket).
  - destruct (find_close fmt') as [[subfmt fmt'']|]; [|discriminate].
    apply bind_ret_inv in H. destruct H as ([count s1] & E1 & H). rewrite E1. cbn [bind].
    apply bind_ret_inv in H. destruct H as ([arr s2] & E2 & H).
    apply bind_ret_inv in H. destruct H as ([rest s3] & E3 & H). injection H as <- <-.
    eapply parse_array_sim in E2.
    + rewrite E2. cbn [bind]. rewrite (IH _ _ _ _ E3). reflexivity.
    + clear E2. intros s0 v r0 He. apply bind_ret_inv in He. destruct He as ([items r1] & E4 & He).
      injection He as <- <-. rewrite (IH _ _ _ _ E4). cbn [bind]. f_equal. f_equal.
      destruct subfmt as [|c1 [|c2 sub]]; destruct items as [|i1 items]; reflexivity.
  - destruct (codec_of_char c) as [k|]; [|discriminate].
    apply bind_ret_inv in H. destruct H as ([v s1] & E1 & H).
    apply bind_ret_inv in H. destruct H as ([rest s2] & E2 & H). injection H as <- <-.
    rewrite (parse_codec_sim _ _ _ _ E1). cbn [bind]. rewrite (IH _ _ _ _ E2). reflexivity.
Qed.

Lemma parse_message_sim layout data d r :
  parse_message parse_T' parse_B' parse_z' ip4 ict layout data = Ret (d, r) ->
  parse_message parse_T parse_B parse_z ip4 ict layout data = Ret (dmap d, r).
Proof.
  unfold parse_message. intros H. apply bind_ret_inv in H. destruct H as ([items rest] & E & H). injection H as <- <-.
  rewrite (parse_struct_sim _ _ _ _ _ E). cbn [bind]. unfold dmap. now rewrite combine_map_r.
Qed.

(* ---- values in the image: shapes allowed by wt_field, every T / B / z value in the image of fT / fB / fz --------------- *)
Variable okT : TxV -> Prop.
Variable okB : BlockV -> Prop.
Variable okz : HdrV -> Prop.
Hypothesis surj_T : forall t, okT t -> exists t', fT t' = t.
Hypothesis surj_B : forall b, okB b -> exists b', fB b' = b.
Hypothesis surj_z : forall h, okz h -> exists h', fz h' = h.

Definition ok1 (v : pyv) : Prop :=
  match v with VTx t => okT t | VBlock b => okB b | VHdr h => okz h | _ => True end.
Definition ok_elem (e : pyv) : Prop := match e with VTuple vs => Forall ok1 vs | _ => ok1 e end.
Definition ok_field (v : pyv) : Prop := match v with VTuple es => Forall ok_elem es | _ => ok1 v end.

Lemma lift_flat k (v : pyv) : wt k v -> ok1 v -> exists v', pmap v' = v.
Proof.
  destruct v; intros Hw Ho.
  - now exists VNone.
  - now exists (VInt z).
  - now exists (VBool b).
  - now exists (VBytes b).
  - destruct k; contradiction.
  - now exists (VAddr services ip_bin port).
  - now exists (VInv item_type data).
  - destruct (surj_T t Ho) as [t' <-]. now exists (VTx t').
  - destruct (surj_B b Ho) as [b' <-]. now exists (VBlock b').
  - destruct (surj_z h Ho) as [h' <-]. now exists (VHdr h').
  - destruct k; contradiction.
Qed.

Lemma lift_tuple ks : forall vs : list pyv, Forall2 wt ks vs -> Forall ok1 vs -> exists vs', map pmap vs' = vs.
Proof.
  induction ks as [|k ks IH]; intros vs Hw Ho; inversion Hw as [|? v ? vs0 Hv Hvs]; subst; [now exists []|].
  inversion Ho as [|? ? Ho1 Ho2]; subst.
  destruct (lift_flat k v Hv Ho1) as [v' <-]. destruct (IH vs0 Hvs Ho2) as [vs' <-]. now exists (v' :: vs').
Qed.

Lemma wt_flat k (v : pyv) : wt k v -> match v with VTuple _ => False | _ => True end.
Proof. destruct v; auto. destruct k; auto. Qed.

Lemma lift_elem ks (e : pyv) : wt_elem ks e -> ok_elem e -> exists e', pmap e' = e.
Proof.
  unfold wt_elem. destruct ks as [|k [|k2 ks]]; intros Hw Ho.
  - destruct e; try contradiction. cbn [ok_elem] in Ho. destruct (lift_tuple _ _ Hw Ho) as [vs' <-]. now exists (VTuple vs').
  - pose proof (wt_flat _ _ Hw) as Hf. apply (lift_flat k e Hw). destruct e; try exact Ho. contradiction.
  - destruct e; try contradiction. cbn [ok_elem] in Ho. destruct (lift_tuple _ _ Hw Ho) as [vs' <-]. now exists (VTuple vs').
Qed.

Lemma lift_elems ks (es : list pyv) : Forall (wt_elem ks) es -> Forall ok_elem es -> exists es', map pmap es' = es.
Proof.
  induction es as [|e es IH]; intros Hw Ho; [now exists []|].
  inversion Hw; subst. inversion Ho; subst.
  destruct (lift_elem ks e) as [e' <-]; auto. destruct IH as [es' <-]; auto. now exists (e' :: es').
Qed.

Lemma lift_field ft (v : pyv) : wt_field ft v -> ok_field v -> exists v', pmap v' = v.
Proof.
  destruct ft as [k|ks]; cbn [wt_field]; intros Hw Ho.
  - pose proof (wt_flat _ _ Hw) as Hf. apply (lift_flat k v Hw). destruct v; try exact Ho. contradiction.
  - destruct v; try contradiction. destruct Hw as [_ Hw]. cbn [ok_field] in Ho.
    destruct (lift_elems ks l Hw Ho) as [es' <-]. now exists (VTuple es').
Qed.

Lemma lift_vals fts : forall vals : list pyv, Forall2 wt_field fts vals -> Forall ok_field vals -> exists vals', map pmap vals' = vals.
Proof.
  induction fts as [|ft fts IH]; intros vals Hw Ho; inversion Hw as [|? v ? vals0 Hv Hvs]; subst; [now exists []|].
  inversion Ho as [|? ? Ho1 Ho2]; subst.
  destruct (lift_field ft v Hv Ho1) as [v' <-]. destruct (IH vals0 Hvs Ho2) as [vals' <-]. now exists (v' :: vals').
Qed.

(* ---- the transfer ----------------------------------------------------------------------------------------------------------- *)
Hypothesis frame_T' : forall v rest, parse_T' (stream_T (fT v) ++ rest) = Ret (v, rest).
Hypothesis frame_B' : forall v rest, parse_B' (stream_B (fB v) ++ rest) = Ret (v, rest).
Hypothesis frame_z' : forall v rest, parse_z' (stream_z (fz v) ++ rest) = Ret (v, rest).

Lemma in_combine_names {A B} (names : list A) (vals : list B) nm :
  length vals = length names -> In nm names -> exists v, In (nm, v) (combine names vals).
Proof.
  revert vals. induction names as [|n names IH]; intros [|v vals] Hl Hin; cbn [length] in Hl; try discriminate; [contradiction|].
  destruct Hin as [-> | Hin]; [exists v; now left|].
  destruct (IH vals ltac:(lia) Hin) as [w Hw]. exists w. now right.
Qed.

Lemma message_frame_sim layout fts (vals : list pyv) kwargs :
  layout_ok layout = true -> layout_ftypes layout = Some fts ->
  Forall2 wt_field fts vals -> Forall ok_field vals ->
  (forall nm v, In (nm, v) (combine (map fst layout) vals) -> str_lookup kwargs nm = Some v) ->
  pack_fields stream_T stream_B stream_z header_of layout kwargs = Ret (wire_message stream_T stream_B stream_z fts vals) /\
  parse_message parse_T parse_B parse_z ip4 ict layout (wire_message stream_T stream_B stream_z fts vals)
    = Ret (combine (map fst layout) vals, []).
Proof.
  intros Hok Hft Hwt Hov Hkw.
  destruct (lift_vals fts vals Hwt Hov) as [vals' <-].
  apply Forall2_wt_field_pmap in Hwt.
  assert (Hlen : length vals' = length layout).
  { rewrite <- (layout_ftypes_length layout fts Hft). symmetry. clear -Hwt. induction Hwt; cbn [length]; congruence. }
  pose proof (kwargs_canonical layout vals' Hok Hlen) as Hkw'.
  destruct (message_frame TxS BlockS HdrS parse_T' stream_T' parse_B' stream_B' parse_z' stream_z' header_of' ip4 ict
              frame_T' frame_B' frame_z' layout fts vals' _ Hok Hft Hwt Hkw') as [Hs Hp].
  rewrite wire_message_pmap. split.
  - rewrite <- Hs. apply pack_fields_sim. intros nm Hnm.
    destruct (in_combine_names (map fst layout) vals' nm ltac:(now rewrite map_length) Hnm) as [v' Hv'].
    exists v'. split; [now apply Hkw'|]. apply Hkw. rewrite combine_map_r.
    apply in_map_iff. exists (nm, v'). split; [reflexivity | exact Hv'].
  - rewrite (parse_message_sim _ _ _ _ Hp). unfold dmap. now rewrite combine_map_r.
Qed.

Theorem all_messages_sim msgs : table_ok msgs = true ->
  forall name layout, In (name, layout) msgs ->
  exists fts, layout_ftypes layout = Some fts /\
  forall (vals : list pyv) kwargs, Forall2 wt_field fts vals -> Forall ok_field vals ->
    (forall nm v, In (nm, v) (combine (map fst layout) vals) -> str_lookup kwargs nm = Some v) ->
    pack_from_data stream_T stream_B stream_z header_of msgs name kwargs = Ret (wire_message stream_T stream_B stream_z fts vals) /\
    parse_message parse_T parse_B parse_z ip4 ict layout (wire_message stream_T stream_B stream_z fts vals)
      = Ret (combine (map fst layout) vals, []) /\
    forall al post, name <> str "alert" -> name <> str "merkleblock" ->
      parse_from_data parse_T parse_B parse_z ip4 ict msgs al post name (wire_message stream_T stream_B stream_z fts vals)
        = Ret (combine (map fst layout) vals).
Proof.
  intros Hok name layout Hin. destruct (table_entry msgs name layout Hok Hin) as [Hlk [Hl [fts Hft]]].
  exists fts. split; [exact Hft|]. intros vals kwargs Hwt Hov Hkw.
  destruct (message_frame_sim layout fts vals kwargs Hl Hft Hwt Hov Hkw) as [Hs Hp].
  split; [unfold pack_from_data; rewrite Hlk; exact Hs|]. split; [exact Hp|].
  intros al post Ha Hm. rewrite (parse_from_data_unfold _ _ _ _ _ _ _ _ msgs al post name layout _ _ _ Hlk Hp).
  now rewrite (bytes_eqb_neq _ _ Ha), (bytes_eqb_neq _ _ Hm).
Qed.
End Sim.

(* ---- the real codecs ---------------------------------------------------------------------------------------------------------- *)
Section Real.
Variable Htx : bytes -> bytes.        (* hash of the Tx class (double SHA-256 for Bitcoin) *)
Variable dsha256 : bytes -> bytes.    (* Block's double_sha256 *)

Notation txT := TxWire.tx.
Notation blkT := (Block.block TxWire.tx).
Notation hdrT := Block.header.
Notation pyv := (pyval txT blkT hdrT).
Notation r_parse_B := (m_parse_B Htx dsha256).
Notation r_header_of := (Block.b_header TxWire.tx).
Notation BlkS := (BlockS Htx dsha256).

(* network.message.pack / parse of Model/Streamer.v with T = C07's Tx codec, B = C14's Block codec over it, z = C14's
   header codec *)
Notation r_sc := (stream_codec m_stream_T m_stream_B m_stream_z r_header_of).
Notation r_pc := (parse_codec m_parse_T r_parse_B m_parse_z).
Notation r_pack := (pack_from_data m_stream_T m_stream_B m_stream_z r_header_of).
Notation r_parse_message := (parse_message m_parse_T r_parse_B m_parse_z).
Notation r_parse := (parse_from_data m_parse_T r_parse_B m_parse_z).
Notation r_wire_message := (wire_message m_stream_T m_stream_B m_stream_z).

(* every transaction / block / header inside a field value is well formed *)
Definition c16_ok_field : pyv -> Prop := ok_field txT blkT hdrT tx_ok (block_ok Htx dsha256) BlockP.wf_header.

Lemma real_sim_T : forall s (v : TxS) r, parse_TS s = Ret (v, r) -> m_parse_T s = Ret (proj1_sig v, r).
Proof. intros s v r. apply restrict_sound. Qed.
Lemma real_sim_B : forall s (v : BlkS) r, parse_BS Htx dsha256 s = Ret (v, r) -> r_parse_B s = Ret (proj1_sig v, r).
Proof. intros s v r. apply restrict_sound. Qed.
Lemma real_sim_z : forall s (v : HdrS) r, parse_zS s = Ret (v, r) -> m_parse_z s = Ret (proj1_sig v, r).
Proof. intros s v r. apply restrict_sound. Qed.
Lemma real_surj_T : forall t, tx_ok t -> exists t' : TxS, proj1_sig t' = t.
Proof. intros t H. apply tx_okb_iff in H. now exists (exist _ t H). Qed.
Lemma real_surj_B : forall b, block_ok Htx dsha256 b -> exists b' : BlkS, proj1_sig b' = b.
Proof. intros b H. apply block_okb_iff in H. now exists (exist _ b H). Qed.
Lemma real_surj_z : forall h, BlockP.wf_header h -> exists h' : HdrS, proj1_sig h' = h.
Proof. intros h H. apply wf_headerb_iff in H. now exists (exist _ h H). Qed.

(* per-codec frame round trips of the three object codecs, on the real model *)
Lemma real_rt_T ip4 ict t rest : tx_ok t ->
  r_sc CT (VTx t) = Ret (m_stream_T t) /\ r_pc ip4 ict CT (m_stream_T t ++ rest) = Ret (VTx t, rest).
Proof. intros H. split; [reflexivity|]. cbn [parse_codec]. unfold lift. now rewrite (m_frame_T t rest H). Qed.
Lemma real_rt_B ip4 ict b rest : block_ok Htx dsha256 b ->
  r_sc CB (VBlock b) = Ret (m_stream_B b) /\ r_pc ip4 ict CB (m_stream_B b ++ rest) = Ret (VBlock b, rest).
Proof. intros H. split; [reflexivity|]. cbn [parse_codec]. unfold lift. now rewrite (m_frame_B Htx dsha256 b rest H). Qed.
Lemma real_rt_z ip4 ict h rest : BlockP.wf_header h ->
  r_sc Cz (VHdr h) = Ret (m_stream_z h) /\ r_pc ip4 ict Cz (m_stream_z h ++ rest) = Ret (VHdr h, rest).
Proof. intros H. split; [reflexivity|]. cbn [parse_codec]. unfold lift. now rewrite (m_frame_z h rest H). Qed.
(* "z" applied to a full block writes the header only *)
Lemma real_z_of_block (b : blkT) : r_sc Cz (VBlock b) = Ret (m_stream_z (r_header_of b)).
Proof. reflexivity. Qed.

(* parsing never runs out of fuel, for every layout and every input *)
Lemma real_parse_message_no_oof ip4 ict layout data : r_parse_message ip4 ict layout data <> OutOfFuel.
Proof.
  apply parse_message_no_oof; [exact m_parse_T_total | exact (m_parse_B_total Htx dsha256) | exact m_parse_z_total].
Qed.

Theorem real_all_messages_generic ip4 ict msgs : table_ok msgs = true ->
  forall name layout, In (name, layout) msgs ->
  exists fts, layout_ftypes layout = Some fts /\
  forall (vals : list pyv) kwargs, Forall2 wt_field fts vals -> Forall c16_ok_field vals ->
    (forall nm v, In (nm, v) (combine (map fst layout) vals) -> str_lookup kwargs nm = Some v) ->
    r_pack msgs name kwargs = Ret (r_wire_message fts vals) /\
    r_parse_message ip4 ict layout (r_wire_message fts vals) = Ret (combine (map fst layout) vals, []) /\
    forall al post, name <> str "alert" -> name <> str "merkleblock" ->
      r_parse ip4 ict msgs al post name (r_wire_message fts vals) = Ret (combine (map fst layout) vals).
Proof.
  exact (all_messages_sim TxS BlkS HdrS txT blkT hdrT (@proj1_sig _ _) (@proj1_sig _ _) (@proj1_sig _ _)
           parse_TS (parse_BS Htx dsha256) parse_zS m_parse_T r_parse_B m_parse_z
           m_stream_T (m_stream_B) m_stream_z (header_ofS Htx dsha256) r_header_of ip4 ict
           real_sim_T real_sim_B real_sim_z (fun b => eq_refl)
           tx_ok (block_ok Htx dsha256) BlockP.wf_header real_surj_T real_surj_B real_surj_z
           frame_TS (frame_BS Htx dsha256) frame_zS msgs).
Qed.

Theorem real_std_all_messages : forall name layout, In (name, layout) std_messages ->
  exists fts, layout_ftypes layout = Some fts /\
  forall (vals : list pyv) kwargs, Forall2 wt_field fts vals -> Forall c16_ok_field vals ->
    (forall nm v, In (nm, v) (combine (map fst layout) vals) -> str_lookup kwargs nm = Some v) ->
    r_pack std_messages name kwargs = Ret (r_wire_message fts vals) /\
    r_parse_message ip4_header inv_checked_types layout (r_wire_message fts vals) = Ret (combine (map fst layout) vals, []) /\
    forall post, name <> str "alert" -> name <> str "merkleblock" ->
      r_parse ip4_header inv_checked_types std_messages alert_layout post name (r_wire_message fts vals)
        = Ret (combine (map fst layout) vals).
Proof.
  intros name layout Hin.
  destruct (real_all_messages_generic ip4_header inv_checked_types std_messages std_table_ok name layout Hin) as [fts [Hft H]].
  exists fts. split; [exact Hft|]. intros vals kwargs Hwt Hov Hkw. destruct (H vals kwargs Hwt Hov Hkw) as [H1 [H2 H3]].
  split; [exact H1|]. split; [exact H2|]. intros post Ha Hm. apply H3; assumption.
Qed.

(* network.message.parse including the post-processing: alert for every payload, merkleblock when the (abstract)
   post_unpack_merkleblock succeeds and only appends keys *)
Theorem real_std_parse_from_data post : forall name layout fts (vals : list pyv),
  In (name, layout) std_messages -> layout_ftypes layout = Some fts -> Forall2 wt_field fts vals -> Forall c16_ok_field vals ->
  (name = str "merkleblock" -> exists extra,
      post (combine (map fst layout) vals) = Ret (combine (map fst layout) vals ++ extra)) ->
  exists extra, r_parse ip4_header inv_checked_types std_messages alert_layout post name (r_wire_message fts vals)
                = Ret (combine (map fst layout) vals ++ extra).
Proof.
  intros name layout fts vals Hin Hft Hwt Hov Hmb.
  destruct (table_entry std_messages name layout std_table_ok Hin) as [Hlk [Hl _]].
  assert (Hlen : length vals = length layout).
  { rewrite <- (layout_ftypes_length layout fts Hft). symmetry. clear -Hwt. induction Hwt; cbn [length]; congruence. }
  assert (Hkw := kwargs_canonical layout vals Hl Hlen).
  destruct (message_frame_sim TxS BlkS HdrS txT blkT hdrT (@proj1_sig _ _) (@proj1_sig _ _) (@proj1_sig _ _)
           parse_TS (parse_BS Htx dsha256) parse_zS m_parse_T r_parse_B m_parse_z
           m_stream_T (m_stream_B) m_stream_z (header_ofS Htx dsha256) r_header_of ip4_header inv_checked_types
           real_sim_T real_sim_B real_sim_z (fun b => eq_refl)
           tx_ok (block_ok Htx dsha256) BlockP.wf_header real_surj_T real_surj_B real_surj_z
           frame_TS (frame_BS Htx dsha256) frame_zS layout fts vals _ Hl Hft Hwt Hov Hkw) as [_ Hp].
  rewrite (parse_from_data_unfold txT blkT hdrT m_parse_T r_parse_B m_parse_z ip4_header inv_checked_types
             std_messages alert_layout post name layout _ _ _ Hlk Hp).
  destruct (bytes_eqb name (str "alert")) eqn:Ea.
  - apply bytes_eqb_eq in Ea. subst name.
    assert (Hl0 : str_lookup std_messages (str "alert") = Some [(str "payload", str "S"); (str "signature", str "S")])
      by (vm_compute; reflexivity).
    rewrite Hl0 in Hlk. injection Hlk as <-.
    vm_compute in Hft. injection Hft as <-.
    inversion Hwt as [|ft1 v1 fts1 vals1 Hv1 Hvals1]; subst.
    inversion Hvals1 as [|ft2 v2 fts2 vals2 Hv2 Hvals2]; subst.
    inversion Hvals2; subst.
    cbn [wt_field wt] in Hv1. destruct v1; try contradiction.
    unfold post_unpack_alert. cbn [map fst combine].
    match goal with |- context [str_lookup ?d ?k] => change (str_lookup d k) with (Some (VBytes b : pyv)) end.
    cbv beta iota.
    pose proof (real_parse_message_no_oof ip4_header inv_checked_types alert_layout b) as Hno.
    destruct (parse_message m_parse_T r_parse_B m_parse_z ip4_header inv_checked_types alert_layout b) as [[d1 r]| e |];
      [| |contradiction]; cbn [bind]; eexists; reflexivity.
  - destruct (bytes_eqb name (str "merkleblock")) eqn:Em.
    + apply bytes_eqb_eq in Em. exact (Hmb Em).
    + exists []. now rewrite app_nil_r.
Qed.
End Real.
