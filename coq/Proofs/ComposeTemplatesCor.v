(* Proofs/ComposeTemplatesCor.v — composition C05 x C03, part 9: from the evaluator's verdict to FindAndDelete
   inertness under the standard flags, and the corollaries that compose C05's theorems (Proofs/SolveP.v) with
   soundness / completeness of the template evaluator (Proofs/ComposeTemplates.v). *)
From Coq Require Import Lia ZifyBool ZifyNat ZifyN.
From PV Require Import Base.Bytes Base.Outcome Gen.GenFlags Gen.GenSolveC05 Proofs.PushP Spec.Templates.
From PV Require Import Model.ScriptNum Spec.VMTypes Spec.VMcore Model.Solve.
From PV Require Import Proofs.AgreeSig.
From PV Require Import Proofs.SolveP Proofs.ComposeTemplatesEnc Proofs.ComposeTemplatesEval Proofs.ComposeTemplatesFad
                       Proofs.ComposeTemplatesSingle Proofs.ComposeTemplatesMulti Proofs.ComposeTemplatesVerify
                       Proofs.ComposeTemplatesWrap Proofs.ComposeTemplates.
Local Open Scope N_scope.

(* ---- what a strictly encoded signature looks like ------------------------------------------------------------- *)
Lemma strict_der_head s : strict_der s = true -> nthn 0 s = 48 /\ (9 <= length s <= 73)%nat.
Proof.
  unfold strict_der. cbv zeta. intros H.
  repeat (apply andb_true_iff in H; destruct H as [H ?]). split; lia.
Qed.

Lemma strict_der_short s : (length s < 9)%nat -> strict_der s = false.
Proof.
  intros H. destruct (strict_der s) eqn:E; [|reflexivity]. apply strict_der_head in E. lia.
Qed.

Lemma wellformed_not_der k : is_compressed k || is_uncompressed k = true -> strict_der k = false.
Proof.
  intros H. destruct (strict_der k) eqn:E; [|reflexivity]. apply strict_der_head in E. destruct E as [E _].
  unfold is_compressed, is_uncompressed in H. rewrite E in H. cbn in H. rewrite !andb_false_r in H. discriminate.
Qed.

Section StdInert.
Variable hash160 : bytes -> bytes.
Variable sha256 : bytes -> bytes.
Variable verifies : bytes -> bytes -> bytes -> bool.
Variable sighash : bool -> N -> bytes -> option bytes.
Variable fl : flags.
Hypothesis Hstd : f_std fl = true.

Notation EVAL := (eval_input hash160 sha256 verifies sighash fl).

Lemma enc_strict s : sig_enc_ok fl s = true -> s <> [] -> strict_der s = true.
Proof.
  intros H Hne. destruct s as [|b r]; [contradiction|]. unfold sig_enc_ok in H. rewrite Hstd in H.
  apply andb_true_iff in H. destruct H as [H _]. apply andb_true_iff in H. apply H.
Qed.

Lemma checksig_strict wit sc sig key : checksig verifies sighash fl wit sc sig key = true -> strict_der sig = true.
Proof.
  unfold checksig. intros H. apply andb_true_iff in H. destruct H as [H Hv]. apply andb_true_iff in H. destruct H as [He _].
  apply enc_strict; [exact He|]. intros ->. discriminate.
Qed.

Lemma cms_true_all wit sc : forall keys sigs, cms verifies sighash fl wit sc keys sigs = true ->
  forall s, In s sigs -> strict_der s = true.
Proof.
  induction keys as [|k kr IH]; intros sigs H s Hs; destruct sigs as [|s0 sr]; cbn [cms] in H; try contradiction; try discriminate.
  destruct (sig_enc_ok fl s0 && pub_enc_ok fl wit k) eqn:Ee; [|discriminate].
  apply andb_true_iff in Ee. destruct Ee as [Ee _].
  destruct (sig_verifies verifies sighash wit sc s0 k) eqn:Ev.
  - destruct (length kr <? length sr)%nat; [discriminate|].
    destruct Hs as [<-|Hs]; [|exact (IH sr H s Hs)].
    apply enc_strict; [exact Ee|]. intros ->. discriminate.
  - destruct (length kr <? length (s0 :: sr))%nat; [discriminate|]. exact (IH (s0 :: sr) H s Hs).
Qed.

Lemma strict_item_ok s : strict_der s = true -> item_ok s.
Proof. intros H. apply strict_der_head in H. unfold item_ok. change (2 ^ 32) with 4294967296. lia. Qed.

Lemma small_item_ok d : lenN d <= 520 -> item_ok d.
Proof. unfold item_ok, lenN. change (2 ^ 32) with 4294967296. lia. Qed.

(* the data pushed by the script code of the BASE-version kinds *)
Definition code_data (pz : puzzle) : list bytes :=
  match pz_kind pz with
  | K_P2PK => [hd [] (pz_keys pz)]
  | K_P2PKH => [pz_hash pz]
  | K_MS | K_P2SH_MS => pz_keys pz
  | _ => []
  end.

Lemma num_data_not_der k : strict_der (num_data k) = false.
Proof. apply strict_der_short. unfold num_data. destruct (k =? 0)%nat; cbn; lia. Qed.

Lemma ms_inert_of_cms wit m keys sigs :
  Forall (fun k => lenN k <= 520) keys -> (forall d, In d keys -> strict_der d = false) ->
  cms verifies sighash fl wit (ms_script m keys) (rev keys) sigs = true ->
  sigs_inert (ms_script m keys) sigs.
Proof.
  intros Hk Hnd Hc s Hs. pose proof (cms_true_all wit _ _ _ Hc s Hs) as Hder.
  apply inert_ms.
  - now apply strict_item_ok.
  - eapply Forall_impl; [|exact Hk]. intros a. apply small_item_ok.
  - intros Hin. rewrite (Hnd s Hin) in Hder. discriminate.
  - intros ->. rewrite num_data_not_der in Hder. discriminate.
  - intros ->. rewrite num_data_not_der in Hder. discriminate.
Qed.

Theorem std_inert pz ss wit :
  puzzle_wf sha256 pz -> (forall d, In d (code_data pz) -> strict_der d = false) ->
  EVAL pz ss wit = true -> fad_inert pz ss.
Proof.
  intros Hwf Hnd He items mn Hp. unfold puzzle_wf in Hwf. unfold code_data in Hnd. unfold code_of, sig_items.
  pose proof (eval_true_conds hash160 sha256 verifies sighash fl pz ss wit items mn Hp He) as Hc.
  rewrite (eval_input_body hash160 sha256 verifies sighash fl pz ss wit items mn Hp Hc) in He. cbv zeta in He.
  destruct (pz_kind pz) eqn:Hk; try (intros s []).
  - (* P2PK *)
    apply andb_true_iff in He. destruct He as [_ He]. unfold eval_p2pk in He. rewrite split_last_rev in He.
    destruct (rev items) as [|sig r] eqn:Er; [discriminate|].
    apply andb_true_iff in He. destruct He as [He _]. apply andb_true_iff in He. destruct He as [_ He].
    apply checksig_strict in He. rewrite (lastn_rev_cons items sig r Er).
    intros s [<-|[]]. apply inert_p2pk; [now apply strict_item_ok|now apply small_item_ok|].
    intros ->. rewrite (Hnd _ (or_introl eq_refl)) in He. discriminate.
  - (* P2PKH *)
    apply andb_true_iff in He. destruct He as [_ He]. unfold eval_p2pkh in He. rewrite split_last_rev in He.
    destruct (rev items) as [|pub st1] eqn:Er; [discriminate|]. rewrite split_last_rev, rev_involutive in He.
    destruct st1 as [|sig r]; [discriminate|].
    apply andb_true_iff in He. destruct He as [He _]. apply andb_true_iff in He. destruct He as [_ He].
    apply checksig_strict in He.
    assert (Hlast : lastn 1 (removelast items) = [sig]).
    { apply (f_equal (@rev _)) in Er. rewrite rev_involutive in Er. subst items. cbn [rev].
      rewrite removelast_last. apply (lastn_rev_cons _ sig r). rewrite rev_app_distr, rev_involutive. reflexivity. }
    rewrite Hlast. intros s [<-|[]]. apply inert_p2pkh; [now apply strict_item_ok|now apply small_item_ok|].
    intros ->. rewrite (Hnd _ (or_introl eq_refl)) in He. discriminate.
  - (* bare multisig *)
    destruct Hwf as [(Hm & Hn & Hkeys) _].
    apply andb_true_iff in He. destruct He as [_ He].
    rewrite (ms_bridge verifies sighash fl false (f_std fl) _ _ _ items Hm Hn) in He.
    apply andb_true_iff in He. destruct He as [_ He].
    destruct (skipn (pz_m pz) (rev items)) as [|dummy r]; [discriminate|].
    apply andb_true_iff in He. destruct He as [He _]. apply andb_true_iff in He. destruct He as [_ He].
    pose proof (ms_inert_of_cms false _ _ _ Hkeys Hnd He) as Hi.
    intros s Hs. apply Hi. unfold lastn in Hs. rewrite firstn_rev. now apply in_rev in Hs.
  - (* P2SH multisig *)
    destruct Hwf as (Hm & Hn & Hkeys).
    apply andb_true_iff in He. destruct He as [_ He]. rewrite split_last_rev in He.
    destruct (rev items) as [|redeem str] eqn:Er; [discriminate|].
    apply andb_true_iff in He. destruct He as [_ He].
    rewrite (ms_bridge verifies sighash fl false (f_std fl) _ _ _ (rev str) Hm Hn) in He. rewrite rev_involutive in He.
    apply andb_true_iff in He. destruct He as [_ He].
    destruct (skipn (pz_m pz) str) as [|dummy r]; [discriminate|].
    apply andb_true_iff in He. destruct He as [He _]. apply andb_true_iff in He. destruct He as [_ He].
    pose proof (ms_inert_of_cms false _ _ _ Hkeys Hnd He) as Hi.
    assert (Hrl : removelast items = rev str).
    { apply (f_equal (@rev _)) in Er. rewrite rev_involutive in Er. rewrite Er. cbn [rev]. apply removelast_last. }
    rewrite Hrl. intros s Hs. apply Hi. unfold lastn in Hs. rewrite <- (rev_involutive str) at 1. rewrite firstn_rev.
    now apply in_rev in Hs.
Qed.
End StdInert.

(* ================================================================================================================ *)
(* corollaries: C05's theorems composed with the evaluator's soundness / completeness                              *)
Section Corollaries.
Variable hash160 : bytes -> bytes.
Variable sha256 : bytes -> bytes.
Variable verifies : bytes -> bytes -> bytes -> bool.
Variable sign : bytes -> bytes -> bytes.
Variable pub_of : bytes -> bool -> bytes.
Variable sighash : bool -> N -> bytes -> option bytes.
Hypothesis sign_verifies : forall se c d, verifies (pub_of se c) d (sign se d) = true.
Hypothesis sign_canonical : forall se d t, strict_der (sign se d ++ [t]) = true /\ low_s (sign se d ++ [t]) = true.
Hypothesis sha256_len : forall x, length (sha256 x) = 32%nat.
Hypothesis hash160_len : forall x, length (hash160 x) = 20%nat.
Hypothesis pub_wellformed : forall se, is_compressed (pub_of se true) = true /\ is_uncompressed (pub_of se false) = true.

Variable fl : flags.
Variable fw : N.
Hypothesis Hfl : flags_rel fl fw.
Variable o : oracles.
Hypothesis Ho : oracles_inst hash160 sha256 verifies sighash o.
Variable ctx : txctx.

Notation PUB := (pub pub_of).
Notation SPEND pz st := (spend_of hash160 sha256 fw ctx pz (fst st) (snd st)).

Lemma pub_wf k : is_compressed (PUB k) || is_uncompressed (PUB k) = true.
Proof.
  destruct k as [se [|]]; unfold pub; cbn [fst snd]; destruct (pub_wellformed se) as [H1 H2]; rewrite ?H1, ?H2;
    [reflexivity|apply orb_true_r].
Qed.
Lemma pub_small k : lenN (PUB k) <= 520.
Proof.
  pose proof (pub_wf k) as H. unfold is_compressed, is_uncompressed, lenN in *.
  destruct (length (PUB k) =? 33)%nat eqn:E1; [lia|]. destruct (length (PUB k) =? 65)%nat eqn:E2; [lia|]. discriminate.
Qed.
Lemma pub_not_der k : strict_der (PUB k) = false.
Proof. apply wellformed_not_der. apply pub_wf. Qed.

Lemma ms_puzzle_wf kd m ks : ms_shape pub_of kd m ks ->
  (kwit kd = true -> cast_to_bool (sha256 (ms_script m (map PUB ks))) = true) ->
  puzzle_wf sha256 (pz_ms pub_of kd m ks).
Proof.
  intros [Hkd Hm Hn H520 H10k] Hc.
  assert (Hwf : ms_wf (pz_ms pub_of kd m ks)).
  { unfold ms_wf, pz_ms. cbn [pz_m pz_keys]. rewrite map_length. split; [exact Hm|]. split; [exact Hn|].
    apply Forall_forall. intros x Hx. apply in_map_iff in Hx. destruct Hx as (k & <- & _). apply pub_small. }
  unfold puzzle_wf. destruct Hkd as [ -> | [ -> | [ -> | -> ] ] ]; cbn [pz_ms pz_kind kwit] in *.
  - split; [exact Hwf|exact H10k].
  - exact Hwf.
  - split; [exact Hwf|exact (Hc eq_refl)].
  - split; [exact Hwf|exact (Hc eq_refl)].
Qed.

Lemma ms_code_not_der kd m ks : forall d, In d (code_data (pz_ms pub_of kd m ks)) -> strict_der d = false.
Proof.
  intros d. unfold code_data, pz_ms. cbn [pz_kind pz_keys pz_hash].
  destruct kd; cbn [In hd]; try contradiction.
  - intros [<-|[]]. destruct ks; [reflexivity|apply pub_not_der].
  - intros [<-|[]]. reflexivity.
  - intros Hx. apply in_map_iff in Hx. destruct Hx as (k & <- & _). apply pub_not_der.
  - intros Hx. apply in_map_iff in Hx. destruct Hx as (k & <- & _). apply pub_not_der.
Qed.

(* what Solver.sign produces for an m-of-n input with all keys supplied is accepted by Core's VerifyScript under
   every flag word related to a standard flag set fl *)
Theorem signed_multisig_valid_under_core forkid kd m ks db hto p2sh :
  f_std fl = true ->
  ms_shape pub_of kd m ks -> p2sh_ok hash160 sha256 pub_of kd m ks p2sh -> db_ok hash160 pub_of db ks ->
  (forall k, In k ks -> avail hash160 pub_of db k = true) ->
  ht_ok sighash (kwit kd) (ms_script m (map PUB ks)) (effective_hash_type forkid hto) ->
  (f_std fl = true -> f_strictenc fl = true -> std_hash_type (effective_hash_type forkid hto)) ->
  (forall k, In k ks -> pub_enc_ok fl (kwit kd) (PUB k) = true) ->
  (kwit kd = true -> cast_to_bool (sha256 (ms_script m (map PUB ks))) = true) ->
  exists st, sign_input hash160 sha256 verifies sign pub_of sighash db p2sh forkid (pz_ms pub_of kd m ks) hto [] [] = Ret st /\
             VerifyScript o (SPEND (pz_ms pub_of kd m ks) st) = VOk tt.
Proof.
  intros Hstd Hsh Hp Hdb Hav Hht Hty Hpub Hnz.
  destruct (ms_validates_c hash160 sha256 verifies sign pub_of sighash sign_verifies sign_canonical sha256_len
              fl forkid kd m ks db hto p2sh Hsh Hp Hdb Hav Hht Hty Hpub) as (st & Hs & He).
  exists st. split; [exact Hs|].
  pose proof (ms_puzzle_wf kd m ks Hsh Hnz) as Hwf.
  apply (templates_sound hash160 sha256 verifies sighash fl fw Hfl o Ho ctx hash160_len sha256_len _ _ _ Hwf); [|exact He].
  exact (std_inert hash160 sha256 verifies sighash fl Hstd _ _ _ Hwf (ms_code_not_der kd m ks) He).
Qed.

(* P2PK, P2PKH, P2WPKH, P2SH-P2WPKH *)
Theorem signed_single_key_valid_under_core forkid kd k db hto p2sh :
  f_std fl = true ->
  is_single_kind kd ->
  lookup_get db (hash160 (PUB k)) = Some k ->
  (kd = K_P2SH_P2WPKH ->
   p2sh_get hash160 sha256 p2sh (hash160 (wit0_script (hash160 (PUB k)))) = Some (wit0_script (hash160 (PUB k)))) ->
  ht_ok sighash (single_wit kd) (single_sc hash160 pub_of kd k) (effective_hash_type forkid hto) ->
  (f_std fl = true -> f_strictenc fl = true -> std_hash_type (effective_hash_type forkid hto)) ->
  pub_enc_ok fl (single_wit kd) (PUB k) = true ->
  (kd = K_P2PKH -> strict_der (hash160 (PUB k)) = false) ->
  (single_wit kd = true -> cast_to_bool (hash160 (PUB k)) = true) ->
  exists st, sign_input hash160 sha256 verifies sign pub_of sighash db p2sh forkid (pz_single hash160 pub_of kd k) hto [] [] = Ret st /\
             VerifyScript o (SPEND (pz_single hash160 pub_of kd k) st) = VOk tt.
Proof.
  intros Hstd Hkd Hl Hp Hht Hty Hpub Hnd Hnz.
  destruct (single_validates_c hash160 sha256 verifies sign pub_of sighash sign_verifies sign_canonical hash160_len pub_wellformed
              fl forkid kd k db hto p2sh Hkd Hl Hp Hht Hty Hpub) as (st & Hs & He).
  exists st. split; [exact Hs|].
  assert (Hwf : puzzle_wf sha256 (pz_single hash160 pub_of kd k)).
  { unfold puzzle_wf. destruct Hkd as [ -> | [ -> | [ -> | -> ] ] ]; cbn [pz_single pz_kind pz_keys pz_hash hd single_wit] in *.
    - apply pub_small.
    - unfold lenN. rewrite hash160_len. lia.
    - split; [apply hash160_len|exact (Hnz eq_refl)].
    - split; [apply hash160_len|exact (Hnz eq_refl)]. }
  assert (Hcd : forall d, In d (code_data (pz_single hash160 pub_of kd k)) -> strict_der d = false).
  { intros d. unfold code_data. destruct Hkd as [ -> | [ -> | [ -> | -> ] ] ]; cbn [pz_single pz_kind pz_keys pz_hash hd In];
      try contradiction.
    - intros [<-|[]]. apply pub_not_der.
    - intros [<-|[]]. exact (Hnd eq_refl). }
  apply (templates_sound hash160 sha256 verifies sighash fl fw Hfl o Ho ctx hash160_len sha256_len _ _ _ Hwf); [|exact He].
  exact (std_inert hash160 sha256 verifies sighash fl Hstd _ _ _ Hwf Hcd He).
Qed.

(* the same signed inputs under pycoin's own DEFAULT_FLAGS word (P2SH | WITNESS), the flag set Solver.sign itself uses:
   FindAndDelete inertness is obtained from the verdict under the standard set fl, the verdict under LAX from C05 again *)
Lemma pub_enc_lax w k : pub_enc_ok LAX w k = true.
Proof. reflexivity. Qed.

Theorem signed_multisig_valid_under_core_lax fwl forkid kd m ks db hto p2sh :
  f_std fl = true -> flags_rel LAX fwl ->
  ms_shape pub_of kd m ks -> p2sh_ok hash160 sha256 pub_of kd m ks p2sh -> db_ok hash160 pub_of db ks ->
  (forall k, In k ks -> avail hash160 pub_of db k = true) ->
  ht_ok sighash (kwit kd) (ms_script m (map PUB ks)) (effective_hash_type forkid hto) ->
  (f_std fl = true -> f_strictenc fl = true -> std_hash_type (effective_hash_type forkid hto)) ->
  (forall k, In k ks -> pub_enc_ok fl (kwit kd) (PUB k) = true) ->
  (kwit kd = true -> cast_to_bool (sha256 (ms_script m (map PUB ks))) = true) ->
  exists st, sign_input hash160 sha256 verifies sign pub_of sighash db p2sh forkid (pz_ms pub_of kd m ks) hto [] [] = Ret st /\
             VerifyScript o (spend_of hash160 sha256 fwl ctx (pz_ms pub_of kd m ks) (fst st) (snd st)) = VOk tt.
Proof.
  intros Hstd Hfll Hsh Hp Hdb Hav Hht Hty Hpub Hnz.
  destruct (ms_validates_c hash160 sha256 verifies sign pub_of sighash sign_verifies sign_canonical sha256_len
              fl forkid kd m ks db hto p2sh Hsh Hp Hdb Hav Hht Hty Hpub) as (st & Hs & He).
  destruct (ms_validates_c hash160 sha256 verifies sign pub_of sighash sign_verifies sign_canonical sha256_len
              LAX forkid kd m ks db hto p2sh Hsh Hp Hdb Hav Hht ltac:(discriminate) (fun k _ => pub_enc_lax _ _))
    as (st' & Hs' & He').
  rewrite Hs in Hs'. injection Hs' as <-.
  exists st. split; [exact Hs|].
  pose proof (ms_puzzle_wf kd m ks Hsh Hnz) as Hwf.
  apply (templates_sound hash160 sha256 verifies sighash LAX fwl Hfll o Ho ctx hash160_len sha256_len _ _ _ Hwf); [|exact He'].
  exact (std_inert hash160 sha256 verifies sighash fl Hstd _ _ _ Hwf (ms_code_not_der kd m ks) He).
Qed.

(* the converse direction composed with C05_partial_signing_order_free: with fewer than m listed keys supplied over
   all passes, Core rejects the input too.  Covered: the kinds whose signature checks run under the witness-v0
   signature version (no FindAndDelete); for bare / P2SH multisig the state reached by the passes must in addition
   be shown FindAndDelete-inert and push-only (hypothesis on the reached state). *)
Definition kind_covered (kd : kind) : Prop := kd = K_P2WSH_MS \/ kd = K_P2SH_P2WSH_MS.

Theorem too_few_keys_invalid_under_core forkid p2sh kd m ks :
  ms_ok verifies sign pub_of sighash kd m ks -> p2sh_ok hash160 sha256 pub_of kd m ks p2sh ->
  (forall k, In k ks -> pub_enc_ok fl (kwit kd) (PUB k) = true) ->
  cast_to_bool (sha256 (ms_script m (map PUB ks))) = true ->
  no_collision hash160 sha256 (pz_ms pub_of kd m ks) ->
  forall passes : list pass,
  Forall (pass_ok hash160 pub_of sighash forkid kd m ks fl) passes ->
  (kind_covered kd \/
   forall st, run hash160 sha256 verifies sign pub_of sighash forkid p2sh kd m ks passes ([], []) = Ret st ->
              fad_inert (pz_ms pub_of kd m ks) (fst st) /\ in_dom (pz_ms pub_of kd m ks) (fst st)) ->
  (ncovered hash160 pub_of ks passes < m)%nat ->
  exists st, run hash160 sha256 verifies sign pub_of sighash forkid p2sh kd m ks passes ([], []) = Ret st /\
             VerifyScript o (SPEND (pz_ms pub_of kd m ks) st) <> VOk tt.
Proof.
  intros Hms Hp Hpub Hnz Hnc passes Hpass Hcov Hfew.
  destruct (partial_signing_order_free_c hash160 sha256 verifies sign pub_of sighash sign_verifies sign_canonical sha256_len
              forkid p2sh kd m ks fl Hms Hp Hpub passes Hpass) as (st & Hrun & Hiff).
  exists st. split; [exact Hrun|]. intros Hv.
  pose proof (ms_puzzle_wf kd m ks (ms_ok_shape _ _ _ _ _ _ _ Hms) (fun _ => Hnz)) as Hwf.
  assert (Hdom : fad_inert (pz_ms pub_of kd m ks) (fst st) /\ in_dom (pz_ms pub_of kd m ks) (fst st)).
  { destruct Hcov as [[->| ->]|Hst]; [| |exact (Hst st Hrun)].
    - split; [intros items mn _ s []|exact I].
    - split; [intros items mn _ s []|exact I]. }
  destruct Hdom as [Hi Hd].
  apply (templates_complete hash160 sha256 verifies sighash fl fw Hfl o Ho ctx hash160_len sha256_len _ _ _ Hwf Hi Hd Hnc) in Hv.
  apply Hiff in Hv. lia.
Qed.
End Corollaries.
