(* Proofs/AddressP.v — lemmas for C08 over Model/Address.v, the GENERATED tables (Gen/GenNetworks.v,
   Gen/GenOpcodes.v) and C12's finished push model (Model/Push.v, Proofs/PushP.v). *)
From Coq Require Import String.
From PV Require Import Base.Bytes Base.Outcome Gen.GenOpcodes Gen.GenNetworks Model.ScriptNum Model.Push
  Proofs.PushP Model.Address Spec.AddressSpec.
From Coq Require Import ZifyBool ZifyNat ZifyN.
Local Open Scope N_scope.

(* ============================ lists ============================ *)
Lemma skipn_add {A} (a b : nat) (l : list A) : skipn (a + b) l = skipn b (skipn a l).
Proof.
  revert l; induction a as [|a IH]; intros l; [reflexivity|].
  destruct l as [|x l]; cbn [Nat.add skipn]; [now rewrite skipn_nil | apply IH].
Qed.

Lemma skipn_hd {A} (pc : nat) (l : list A) x r : skipn pc l = x :: r ->
  nth_error l pc = Some x /\ skipn (S pc) l = r /\ (pc < length l)%nat.
Proof.
  revert l; induction pc as [|pc IH]; intros l H.
  - cbn in H. subst l. cbn. repeat split. lia.
  - destruct l as [|y l]; [cbn in H; discriminate|]. cbn [skipn] in H.
    destruct (IH _ H) as (H1 & H2 & H3). cbn [nth_error length]. repeat split; auto. lia.
Qed.

Lemma nth_error_skipn {A} (pc : nat) (l : list A) x : nth_error l pc = Some x -> skipn pc l = x :: skipn (S pc) l.
Proof.
  revert l; induction pc as [|pc IH]; intros [|y l] H; try discriminate.
  - cbn in H. injection H as ->. reflexivity.
  - cbn [nth_error] in H. cbn [skipn]. rewrite (IH _ H). reflexivity.
Qed.

Lemma skipn_app_prefix {A} (pc : nat) (l a b : list A) : skipn pc l = a ++ b -> skipn (pc + length a) l = b.
Proof. intros H. rewrite skipn_add, H. apply skipn_app_exact. Qed.

Lemma skipn_prefix_len {A} (pc : nat) (l a b : list A) : skipn pc l = a ++ b -> (pc + length a <= length l)%nat \/ a = [].
Proof.
  intros H. assert (L : length (skipn pc l) = (length a + length b)%nat) by (rewrite H; apply app_length).
  rewrite skipn_length in L. destruct a; [now right|left]. cbn [length] in *. lia.
Qed.

Lemma slice_skipn {A} (a n : nat) (l : list A) : slice a (a + n) l = firstn n (skipn a l).
Proof. unfold slice. f_equal. lia. Qed.

Lemma firstn_exact_split {A} (n : nat) (l d : list A) : firstn n l = d -> length d = n -> l = d ++ skipn n l.
Proof. intros H _. rewrite <- H. symmetry. apply firstn_skipn. Qed.

(* ============================ the opcode tables ============================ *)
Definition is_single (o : N) : bool :=
  match sized_by_opcode sized_table o, var_by_opcode variable_table o with
  | None, None => true
  | _, _ => false
  end.

Lemma const_by_opcode_in t o d : const_by_opcode t o = Some d -> In (d, o) t.
Proof.
  induction t as [|[d' o'] r IH]; cbn [const_by_opcode]; [discriminate|].
  destruct (o =? o') eqn:E.
  - intros H; injection H as <-. apply N.eqb_eq in E. subst. now left.
  - intros H. right. auto.
Qed.
Lemma sized_by_opcode_in t o s : sized_by_opcode t o = Some s -> In (s, o) t.
Proof.
  induction t as [|[s' o'] r IH]; cbn [sized_by_opcode]; [discriminate|].
  destruct (o =? o') eqn:E.
  - intros H; injection H as <-. apply N.eqb_eq in E. subst. now left.
  - intros H. right. auto.
Qed.

Lemma const_data_short o d : const_by_opcode const_table o = Some d -> (length d <= 1)%nat.
Proof.
  intros H. apply const_by_opcode_in in H.
  pose proof (proj1 (forallb_forall _ _) const_len_le1 _ H) as K. cbn [fst] in K. now apply Nat.leb_le in K.
Qed.

Lemma sized_diag_ok : forallb (fun e : N * N => (fst e =? snd e) && (1 <=? fst e) && (fst e <=? 75)) sized_table = true.
Proof. vm_compute. reflexivity. Qed.
Lemma sized_opcode_fact o s : sized_by_opcode sized_table o = Some s -> s = o /\ 1 <= o <= 75.
Proof.
  intros H. apply sized_by_opcode_in in H.
  pose proof (proj1 (forallb_forall _ _) sized_diag_ok _ H) as K. cbn [fst snd] in K. lia.
Qed.
Lemma sized_opcode_small n : 1 <= n <= 75 ->
  const_by_opcode const_table n = None /\ sized_by_opcode sized_table n = Some n.
Proof.
  intros H. pose proof (sized_small n H) as S1. destruct (sized_fact n n S1) as (_ & _ & A & B). auto.
Qed.

(* the variable-size opcodes, concretely *)
Lemma var_opcode_fact o w ms : var_by_opcode variable_table o = Some (w, ms) ->
  (o = 76 /\ w = 1%nat /\ ms = 0) \/ (o = 77 /\ w = 2%nat /\ ms = 255) \/ (o = 78 /\ w = 4%nat /\ ms = 65535).
Proof.
  unfold variable_table. cbn [var_by_opcode].
  destruct (o =? 76) eqn:E1; [intros H; injection H as <- <-; left; lia|].
  destruct (o =? 77) eqn:E2; [intros H; injection H as <- <-; right; left; lia|].
  destruct (o =? 78) eqn:E3; [intros H; injection H as <- <-; right; right; lia|].
  discriminate.
Qed.
Lemma pushdata1_fact : const_by_opcode const_table 76 = None /\ sized_by_opcode sized_table 76 = None /\
  var_by_opcode variable_table 76 = Some (1%nat, 0).
Proof. repeat split; vm_compute; reflexivity. Qed.

Lemma single_above_78 : forallb (fun e : N * N => snd e <=? 78) sized_table = true /\
  forallb (fun e : N * N * nat * N => snd (fst (fst e)) <=? 78) variable_table = true.
Proof. split; vm_compute; reflexivity. Qed.
Lemma is_single_above o : 79 <= o -> is_single o = true.
Proof.
  intros H. unfold is_single.
  destruct (sized_by_opcode sized_table o) as [s|] eqn:E1.
  { apply sized_opcode_fact in E1. lia. }
  destruct (var_by_opcode variable_table o) as [[w ms]|] eqn:E2; [|reflexivity].
  apply var_opcode_fact in E2. lia.
Qed.

(* ============================ get_opcode, one instruction at a time ============================ *)
Lemma get_opcode_head s pc m o d pc' ok : btc_get_opcode s pc m = Ret (o, d, pc', ok) ->
  exists b, nth_error s pc = Some b /\ o = b2n b.
Proof.
  unfold btc_get_opcode, get_opcode. destruct (nth_error s pc) as [b|]; [|discriminate].
  intros H. exists b. split; [reflexivity|].
  destruct (const_by_opcode const_table (b2n b)); [now injection H|].
  destruct (sized_by_opcode sized_table (b2n b)).
  { repeat match type of H with (if ?c then _ else _) = _ => destruct c end; try discriminate; now injection H. }
  destruct (var_by_opcode variable_table (b2n b)) as [[w ms]|]; [|now injection H].
  repeat match type of H with (if ?c then _ else _) = _ => destruct c end; try discriminate; now injection H.
Qed.

Lemma get_opcode_pc_lt s pc m o d pc' ok : btc_get_opcode s pc m = Ret (o, d, pc', ok) -> (pc < pc')%nat.
Proof.
  unfold btc_get_opcode, get_opcode. destruct (nth_error s pc) as [b|]; [|discriminate].
  destruct (const_by_opcode const_table (b2n b)); [intros H; injection H; lia|].
  destruct (sized_by_opcode sized_table (b2n b)).
  { intros H. repeat match type of H with (if ?c then _ else _) = _ => destruct c end; try discriminate; injection H; lia. }
  destruct (var_by_opcode variable_table (b2n b)) as [[w ms]|]; [|intros H; injection H; lia].
  intros H. repeat match type of H with (if ?c then _ else _) = _ => destruct c end; try discriminate; injection H; lia.
Qed.

(* the only exceptions: ScriptError (non-minimal push) and IndexError (pc beyond the end); never OutOfFuel *)
Lemma get_opcode_raises s pc m e : btc_get_opcode s pc m = Raise e ->
  e = E_SCRIPT \/ (e = E_INDEX /\ (length s <= pc)%nat).
Proof.
  unfold btc_get_opcode, get_opcode. destruct (nth_error s pc) as [b|] eqn:N.
  - destruct (const_by_opcode const_table (b2n b)); [discriminate|].
    destruct (sized_by_opcode sized_table (b2n b)).
    { intros H. repeat match type of H with (if ?c then _ else _) = _ => destruct c end; try discriminate. injection H as <-; auto. }
    destruct (var_by_opcode variable_table (b2n b)) as [[w ms]|]; [|discriminate].
    intros H. repeat match type of H with (if ?c then _ else _) = _ => destruct c end; try discriminate. injection H as <-; auto.
  - intros H. injection H as <-. right. split; [reflexivity|]. now apply nth_error_None.
Qed.
Lemma get_opcode_fuel s pc m : btc_get_opcode s pc m <> OutOfFuel.
Proof.
  unfold btc_get_opcode, get_opcode. destruct (nth_error s pc) as [b|]; [|discriminate].
  destruct (const_by_opcode const_table (b2n b)); [discriminate|].
  destruct (sized_by_opcode sized_table (b2n b)).
  { repeat match goal with |- (if ?c then _ else _) <> _ => destruct c end; discriminate. }
  destruct (var_by_opcode variable_table (b2n b)) as [[w ms]|]; [|discriminate].
  repeat match goal with |- (if ?c then _ else _) <> _ => destruct c end; discriminate.
Qed.

(* G1: a one-byte instruction *)
Lemma get_opcode_single s pc m b : nth_error s pc = Some b -> is_single (b2n b) = true ->
  btc_get_opcode s pc m = Ret (b2n b, const_by_opcode const_table (b2n b), S pc, true).
Proof.
  intros N S1. unfold is_single in S1. unfold btc_get_opcode, get_opcode. rewrite N.
  destruct (sized_by_opcode sized_table (b2n b)); [discriminate|].
  destruct (var_by_opcode variable_table (b2n b)); [discriminate|].
  rewrite Nat.add_1_r. destruct (const_by_opcode const_table (b2n b)); reflexivity.
Qed.
Lemma get_opcode_single_inv s pc m o d pc' ok : btc_get_opcode s pc m = Ret (o, d, pc', ok) -> is_single o = true ->
  nth_error s pc = Some (n2b o) /\ o < 256 /\ d = const_by_opcode const_table o /\ pc' = S pc.
Proof.
  intros H S1. destruct (get_opcode_head _ _ _ _ _ _ _ H) as (b & N & ->).
  rewrite (get_opcode_single s pc m b N S1) in H. injection H as <- <- _.
  rewrite n2b_b2n. repeat split; auto. apply b2n_lt.
Qed.

(* G2: a minimal push of 2..255 bytes, read at pc *)
Lemma spec_push_direct d : (2 <= length d <= 75)%nat -> spec_push d = n2b (N.of_nat (length d)) :: d.
Proof.
  intros H. destruct d as [|a [|b r]]; try (cbn [length] in H; lia).
  unfold spec_push. replace (N.of_nat (length (a :: b :: r)) <=? 75) with true by lia. reflexivity.
Qed.
Lemma spec_push_pushdata1 d : (76 <= length d <= 255)%nat -> spec_push d = x4c :: n2b (N.of_nat (length d)) :: d.
Proof.
  intros H. destruct d as [|a [|b r]]; try (cbn [length] in H; lia).
  unfold spec_push. replace (N.of_nat (length (a :: b :: r)) <=? 75) with false by lia.
  replace (N.of_nat (length (a :: b :: r)) <=? 255) with true by lia. reflexivity.
Qed.
Lemma spec_push_length d : (2 <= length d <= 255)%nat ->
  length (spec_push d) = (if (length d <=? 75)%nat then 1 + length d else 2 + length d)%nat.
Proof.
  intros H. destruct (length d <=? 75)%nat eqn:E.
  - rewrite spec_push_direct by lia. reflexivity.
  - rewrite spec_push_pushdata1 by lia. reflexivity.
Qed.

Lemma get_opcode_push s pc d post : (2 <= length d <= 255)%nat -> skipn pc s = spec_push d ++ post ->
  exists o, btc_get_opcode s pc true = Ret (o, Some d, (pc + length (spec_push d))%nat, true).
Proof.
  intros L H. destruct (length d <=? 75)%nat eqn:E.
  - (* direct push *)
    rewrite spec_push_direct in * by lia. set (n := N.of_nat (length d)) in *.
    cbn [app] in H. destruct (skipn_hd _ _ _ _ H) as (N1 & T & _).
    destruct (sized_opcode_small n ltac:(lia)) as [C1 S1].
    exists n. unfold btc_get_opcode, get_opcode. rewrite N1, b2n_n2b by lia. rewrite C1, S1.
    replace (N.to_nat n) with (length d) by lia.
    rewrite Nat.add_1_r, slice_skipn, T, firstn_app_exact, Nat.ltb_irrefl.
    unfold is_const_value. rewrite const_none_long by lia. rewrite andb_false_r. cbn [length].
    replace (pc + S (length d))%nat with (S pc + length d)%nat by lia. reflexivity.
  - rewrite spec_push_pushdata1 in * by lia. set (n := N.of_nat (length d)) in *.
    cbn [app] in H. destruct (skipn_hd _ _ _ _ H) as (N1 & T & _).
    destruct (skipn_hd _ _ _ _ T) as (N2 & T2 & _).
    destruct pushdata1_fact as (C1 & S1 & V1).
    exists 76. unfold btc_get_opcode, get_opcode. rewrite N1.
    change (b2n x4c) with 76. rewrite C1, S1, V1.
    rewrite Nat.add_1_r, slice_skipn, T. cbn [firstn length]. rewrite Nat.ltb_irrefl.
    cbn [le_decode]. rewrite b2n_n2b by lia. replace (n + 256 * 0) with n by lia.
    assert (LEN : (length s - (S pc + 1) = length d + length post)%nat).
    { pose proof (f_equal (@length _) T2) as Q. rewrite skipn_length, app_length in Q. lia. }
    replace (N.of_nat (length s - (S pc + 1)) <? n) with false by lia.
    replace (N.to_nat n) with (length d) by lia.
    replace (S pc + 1)%nat with (S (S pc)) by lia.
    rewrite slice_skipn, T2, firstn_app_exact, Nat.ltb_irrefl.
    unfold is_sized_value. rewrite sized_large by lia. replace (n <=? 0) with false by lia.
    cbn [orb andb length]. replace (pc + S (S (length d)))%nat with (S (S pc) + length d)%nat by lia. reflexivity.
Qed.

Lemma firstn_len_split {A} (n : nat) (l : list A) : (length (firstn n l) <? n)%nat = false -> l = firstn n l ++ skipn n l /\ length (firstn n l) = n.
Proof.
  intros H. split; [symmetry; apply firstn_skipn|]. apply Nat.ltb_ge in H.
  pose proof (firstn_le_length n l). lia.
Qed.

(* G2': what was read as data of 2..255 bytes under the minimal-push rule is exactly the minimal push *)
Lemma get_opcode_push_inv s pc o d pc' ok : btc_get_opcode s pc true = Ret (o, Some d, pc', ok) ->
  (2 <= length d <= 255)%nat ->
  skipn pc s = spec_push d ++ skipn pc' s /\ pc' = (pc + length (spec_push d))%nat.
Proof.
  intros H L. unfold btc_get_opcode, get_opcode in H.
  destruct (nth_error s pc) as [b|] eqn:N1; [|discriminate].
  pose proof (nth_error_skipn _ _ _ N1) as SK.
  destruct (const_by_opcode const_table (b2n b)) as [d'|] eqn:C1.
  { injection H as _ <- _ _. apply const_data_short in C1. lia. }
  destruct (sized_by_opcode sized_table (b2n b)) as [size|] eqn:S1.
  - destruct (sized_opcode_fact _ _ S1) as [-> R].
    rewrite Nat.add_1_r, slice_skipn in H.
    remember (skipn (S pc) s) as t1 eqn:Et1.
    destruct (length (firstn (N.to_nat (b2n b)) t1) <? N.to_nat (b2n b))%nat eqn:E; [discriminate|].
    destruct (firstn_len_split _ _ E) as [SP LN].
    remember (firstn (N.to_nat (b2n b)) t1) as dd eqn:Edd.
    match type of H with (if ?c then _ else _) = _ => destruct c end; [discriminate|].
    injection H as _ -> <- _.
    rewrite spec_push_direct by lia. rewrite LN. rewrite N2Nat.id, n2b_b2n.
    split; [|cbn [length]; lia].
    rewrite SK. cbn [app]. f_equal.
    change (S (pc + N.to_nat (b2n b))) with (S pc + N.to_nat (b2n b))%nat. rewrite skipn_add, <- Et1. exact SP.
  - destruct (var_by_opcode variable_table (b2n b)) as [[w ms]|] eqn:V1; [|discriminate].
    rewrite Nat.add_1_r, slice_skipn in H.
    remember (skipn (S pc) s) as t1 eqn:Et1.
    destruct (length (firstn w t1) <? w)%nat eqn:E; [discriminate|].
    destruct (firstn_len_split _ _ E) as [SP LN].
    remember (firstn w t1) as lenb eqn:Elenb.
    destruct (N.of_nat (length s - (S pc + w)) <? le_decode lenb) eqn:E2; [discriminate|].
    rewrite slice_skipn in H.
    remember (skipn (S pc + w) s) as t2 eqn:Et2.
    destruct (length (firstn (N.to_nat (le_decode lenb)) t2) <? N.to_nat (le_decode lenb))%nat eqn:E3; [discriminate|].
    destruct (firstn_len_split _ _ E3) as [SP2 LN2].
    remember (firstn (N.to_nat (le_decode lenb)) t2) as dd eqn:Edd.
    destruct (is_sized_value sized_table (le_decode lenb) || (le_decode lenb <=? ms)) eqn:E4; [discriminate|].
    cbn [andb] in H. injection H as _ -> <- _.
    apply orb_false_iff in E4. destruct E4 as [E4a E4].
    destruct (var_opcode_fact _ _ _ V1) as [(Ho & -> & ->)|[(Ho & -> & ->)|(Ho & -> & ->)]]; try lia.
    (* PUSHDATA1 *)
    assert (Hb : b = x4c) by (apply b2n_inj; rewrite Ho; reflexivity).
    destruct lenb as [|c [|? ?]]; cbn [length] in LN; try lia.
    cbn [le_decode] in *. replace (b2n c + 256 * 0) with (b2n c) in * by lia.
    assert (75 < b2n c).
    { destruct (N.ltb_spec 75 (b2n c)) as [|Q]; [assumption|]. unfold is_sized_value in E4a.
      rewrite sized_small in E4a by lia. discriminate. }
    pose proof (b2n_lt c).
    rewrite spec_push_pushdata1 by lia. rewrite LN2, N2Nat.id, n2b_b2n.
    split; [|cbn [length]; lia].
    rewrite SK, Hb. cbn [app]. f_equal. rewrite SP. cbn [app]. f_equal.
    assert (Q : skipn 1 t1 = t2).
    { rewrite Et1, Et2. rewrite <- skipn_add. reflexivity. }
    rewrite Q. rewrite SP2 at 1. f_equal.
    rewrite Et2. rewrite <- skipn_add. reflexivity.
Qed.

(* ============================ ContractAPI.match against a decoded template ============================ *)
Definition titem := (N * option bytes)%type.

(* the template's own instruction list (decoded without the minimal-push rule, as match does) *)
Fixpoint decode_items (fuel : nat) (t : bytes) (pc : nat) : option (list titem) :=
  match fuel with
  | O => None
  | S f =>
    if (pc =? length t)%nat then Some []
    else if (length t <? pc)%nat then None
    else match btc_get_opcode t pc false with
         | Ret (o, d, pc', _) => option_map (cons (o, d)) (decode_items f t pc')
         | _ => None
         end
  end.

(* the loop of match with the template pre-decoded: only the script is walked *)
Fixpoint match_items (items : list titem) (script : bytes) (pc1 : nat) (r : captures) : outcome (option captures) :=
  match items with
  | [] => Ret (if (pc1 =? length script)%nat then Some r else None)
  | it :: rest =>
    if (length script <=? pc1)%nat then Ret None else
    match btc_get_opcode script pc1 true with
    | Raise E_SCRIPT => Ret None
    | Raise e => Raise e
    | OutOfFuel => OutOfFuel
    | Ret (o1, d1, pc1', _) =>
      match step_item it o1 d1 r with
      | None => Ret None
      | Some r' => match_items rest script pc1' r'
      end
    end
  end.

Lemma match_loop_items t s : forall fuel0 items pc2, decode_items fuel0 t pc2 = Some items ->
  forall fuel pc1 r, (length s - pc1 < fuel)%nat ->
  match_loop fuel t s pc1 pc2 r = match_items items s pc1 r.
Proof.
  induction fuel0 as [|f0 IH]; intros items pc2 D; [discriminate|].
  cbn [decode_items] in D.
  destruct (pc2 =? length t)%nat eqn:E1.
  - injection D as <-. intros fuel pc1 r F. destruct fuel as [|fuel]; [lia|].
    cbn [match_loop match_items]. rewrite E1, andb_true_r.
    destruct (pc1 =? length s)%nat; [reflexivity|].
    replace (length t <=? pc2)%nat with true by lia. rewrite orb_true_r. reflexivity.
  - destruct (length t <? pc2)%nat eqn:E2; [discriminate|].
    destruct (btc_get_opcode t pc2 false) as [[[[o2 d2] pc2'] ok2]| |] eqn:G2; try discriminate.
    destruct (decode_items f0 t pc2') as [rest|] eqn:D2; [|discriminate].
    cbn [option_map] in D. injection D as <-.
    intros fuel pc1 r F. destruct fuel as [|fuel]; [lia|].
    cbn [match_loop match_items]. rewrite E1, andb_false_r.
    replace (length t <=? pc2)%nat with false by lia. rewrite orb_false_r.
    destruct (length s <=? pc1)%nat eqn:E3; [reflexivity|].
    destruct (btc_get_opcode s pc1 true) as [[[[o1 d1] pc1'] ok1]|e|] eqn:G1; [|reflexivity|reflexivity].
    rewrite G2. cbn [bind].
    destruct (step_item (o2, d2) o1 d1 r) as [r'|]; [|reflexivity].
    apply (IH _ _ D2). apply get_opcode_pc_lt in G1. lia.
Qed.

(* the loop never runs out of fuel with S (length script) *)
Lemma match_loop_fuel_ok t s : forall fuel pc1 pc2 r, (length s - pc1 < fuel)%nat ->
  match_loop fuel t s pc1 pc2 r <> OutOfFuel.
Proof.
  induction fuel as [|fuel IH]; intros pc1 pc2 r F; [lia|].
  cbn [match_loop].
  destruct ((pc1 =? length s)%nat && (pc2 =? length t)%nat); [discriminate|].
  destruct ((length s <=? pc1)%nat || (length t <=? pc2)%nat) eqn:E; [discriminate|].
  destruct (btc_get_opcode s pc1 true) as [[[[o1 d1] pc1'] ok1]|e|] eqn:G1.
  - destruct (btc_get_opcode t pc2 false) as [[[[o2 d2] pc2'] ok2]|e|] eqn:G2; cbn [bind].
    + destruct (step_item (o2, d2) o1 d1 r); [|discriminate]. apply IH. apply get_opcode_pc_lt in G1. lia.
    + discriminate.
    + now apply get_opcode_fuel in G2.
  - destruct e; discriminate.
  - now apply get_opcode_fuel in G1.
Qed.

(* ---- classes of template instructions ---- *)
Inductive iclass := ILit (o : N) | ICap (k : cap).

Definition cap_len_ok (k : cap) (l : nat) : bool :=
  match k with
  | CPubkey => negb ((l <? pubkey_len_min)%nat || (pubkey_len_max <? l)%nat)
  | CPubkeyHash => (l =? pubkeyhash_len)%nat
  | CSegwit => existsb (Nat.eqb l) segwit_lens
  | CSynth => (l =? synthetic_key_len)%nat
  | CData => false
  end.

(* the generated bounds keep every captured value within 2..255 bytes (the range of get_opcode_push) *)
Lemma cap_len_range k l : cap_len_ok k l = true -> (20 <= l <= 120)%nat.
Proof.
  destruct k; unfold cap_len_ok, pubkey_len_min, pubkey_len_max, pubkeyhash_len, segwit_lens, synthetic_key_len;
    cbn [existsb]; intros H; try discriminate; lia.
Qed.

Definition item_class (it : titem) : option iclass :=
  let '(o, d) := it in
  if data_is d (ph 0) then Some (ICap CPubkey)
  else if data_is d (ph 1) then Some (ICap CPubkeyHash)
  else if data_is d (ph 2) then Some (ICap CSegwit)
  else if data_is d (ph 3) then None
  else if data_is d (ph 4) then Some (ICap CSynth)
  else if is_single o && (o <? 256) && opt_bytes_eq d (const_by_opcode const_table o) then Some (ILit o)
  else None.

Lemma opt_bytes_eq_true a b : opt_bytes_eq a b = true <-> a = b.
Proof.
  destruct a, b; cbn; try (split; congruence). rewrite bytes_eqb_eq. split; congruence.
Qed.

Lemma step_item_lit it o o1 d1 r : item_class it = Some (ILit o) ->
  is_single o = true /\ o < 256 /\
  step_item it o1 d1 r = if (o1 =? o) && opt_bytes_eq d1 (const_by_opcode const_table o) then Some r else None.
Proof.
  destruct it as [o2 d2]. unfold item_class, step_item.
  destruct (data_is d2 (ph 0)); [discriminate|]. destruct (data_is d2 (ph 1)); [discriminate|].
  destruct (data_is d2 (ph 2)); [discriminate|]. destruct (data_is d2 (ph 3)); [discriminate|].
  destruct (data_is d2 (ph 4)); [discriminate|].
  destruct (is_single o2 && (o2 <? 256) && opt_bytes_eq d2 (const_by_opcode const_table o2)) eqn:E; [|discriminate].
  intros H; injection H as <-.
  apply andb_true_iff in E. destruct E as [E E3]. apply andb_true_iff in E. destruct E as [E1 E2].
  apply opt_bytes_eq_true in E3. subst d2. repeat split; [assumption|lia|].
  destruct ((o1 =? o2) && opt_bytes_eq d1 (const_by_opcode const_table o2)); reflexivity.
Qed.

Lemma step_item_cap it k o1 d1 r : item_class it = Some (ICap k) ->
  step_item it o1 d1 r = if cap_len_ok k (opt_len d1) then Some (r ++ [(k, d1)]) else None.
Proof.
  destruct it as [o2 d2]. unfold item_class, step_item, cap_len_ok.
  destruct (data_is d2 (ph 0)).
  { intros H; injection H as <-. destruct ((opt_len d1 <? pubkey_len_min)%nat || (pubkey_len_max <? opt_len d1)%nat); reflexivity. }
  destruct (data_is d2 (ph 1)).
  { intros H; injection H as <-. destruct (opt_len d1 =? pubkeyhash_len)%nat; reflexivity. }
  destruct (data_is d2 (ph 2)).
  { intros H; injection H as <-. destruct (existsb (Nat.eqb (opt_len d1)) segwit_lens); reflexivity. }
  destruct (data_is d2 (ph 3)); [discriminate|].
  destruct (data_is d2 (ph 4)).
  { intros H; injection H as <-. destruct (opt_len d1 =? synthetic_key_len)%nat; reflexivity. }
  destruct (is_single o2 && (o2 <? 256) && opt_bytes_eq d2 (const_by_opcode const_table o2)); discriminate.
Qed.

(* the script a classified template denotes for given captured values *)
Fixpoint render (cls : list iclass) (caps : list bytes) : bytes :=
  match cls with
  | [] => []
  | ILit o :: r => n2b o :: render r caps
  | ICap _ :: r => match caps with c :: caps' => spec_push c ++ render r caps' | [] => [] end
  end.
Fixpoint caps_list (cls : list iclass) (caps : list bytes) : captures :=
  match cls with
  | [] => []
  | ILit _ :: r => caps_list r caps
  | ICap k :: r => match caps with c :: caps' => (k, Some c) :: caps_list r caps' | [] => [] end
  end.
Fixpoint caps_ok (cls : list iclass) (caps : list bytes) : Prop :=
  match cls with
  | [] => caps = []
  | ILit _ :: r => caps_ok r caps
  | ICap k :: r => match caps with c :: caps' => cap_len_ok k (length c) = true /\ caps_ok r caps' | [] => False end
  end.

Lemma match_items_sound : forall items cls, map item_class items = map Some cls ->
  forall s pc r r', match_items items s pc r = Ret (Some r') ->
  exists caps, caps_ok cls caps /\ r' = r ++ caps_list cls caps /\ skipn pc s = render cls caps.
Proof.
  induction items as [|it items IH]; intros cls HC s pc r r' H.
  - destruct cls; [|discriminate]. cbn [match_items] in H.
    destruct (pc =? length s)%nat eqn:E; [|discriminate]. injection H as <-.
    exists []. cbn. rewrite app_nil_r. repeat split. apply Nat.eqb_eq in E. subst. apply skipn_all.
  - destruct cls as [|c cls]; [discriminate|]. cbn [map] in HC. injection HC as HC1 HC2.
    cbn [match_items] in H.
    destruct (length s <=? pc)%nat eqn:E; [discriminate|].
    destruct (btc_get_opcode s pc true) as [[[[o1 d1] pc1'] ok1]|e|] eqn:G1; [| destruct e; discriminate | discriminate].
    destruct c as [o|k].
    + destruct (step_item_lit it o o1 d1 r HC1) as (S1 & Lo & ST). rewrite ST in H.
      destruct ((o1 =? o) && opt_bytes_eq d1 (const_by_opcode const_table o)) eqn:E2; [|discriminate].
      apply andb_true_iff in E2. destruct E2 as [E2 E3]. apply N.eqb_eq in E2. subst o1.
      destruct (get_opcode_single_inv _ _ _ _ _ _ _ G1 S1) as (N1 & _ & _ & ->).
      destruct (IH cls HC2 _ _ _ _ H) as (caps & OK & -> & SK).
      exists caps. cbn [caps_ok caps_list render]. repeat split; auto.
      rewrite (nth_error_skipn _ _ _ N1), SK. reflexivity.
    + rewrite (step_item_cap it k o1 d1 r HC1) in H.
      destruct (cap_len_ok k (opt_len d1)) eqn:E2; [|discriminate].
      pose proof (cap_len_range _ _ E2) as RG.
      destruct d1 as [c|]; [|cbn in RG; lia]. cbn [opt_len] in *.
      destruct (get_opcode_push_inv _ _ _ _ _ _ G1 ltac:(lia)) as [SK1 ->].
      destruct (IH cls HC2 _ _ _ _ H) as (caps & OK & -> & SK).
      exists (c :: caps). cbn [caps_ok caps_list render]. repeat split; auto.
      * rewrite <- app_assoc. reflexivity.
      * rewrite SK1, SK. reflexivity.
Qed.

Lemma match_items_complete : forall items cls, map item_class items = map Some cls ->
  forall caps s pc r, caps_ok cls caps -> skipn pc s = render cls caps -> (pc <= length s)%nat ->
  match_items items s pc r = Ret (Some (r ++ caps_list cls caps)).
Proof.
  induction items as [|it items IH]; intros cls HC caps s pc r OK SK LE.
  - destruct cls; [|discriminate]. cbn in OK. subst caps. cbn [match_items caps_list render] in *.
    assert (length (skipn pc s) = 0%nat) by (rewrite SK; reflexivity). rewrite skipn_length in H.
    replace (pc =? length s)%nat with true by lia. now rewrite app_nil_r.
  - destruct cls as [|c cls]; [discriminate|]. cbn [map] in HC. injection HC as HC1 HC2.
    cbn [match_items]. destruct c as [o|k].
    + cbn [caps_ok caps_list render] in *.
      destruct (skipn_hd _ _ _ _ SK) as (N1 & T & LT).
      replace (length s <=? pc)%nat with false by lia.
      destruct (step_item_lit it o o (const_by_opcode const_table o) r HC1) as (S1 & Lo & ST).
      rewrite (get_opcode_single s pc true _ N1) by (rewrite b2n_n2b by exact Lo; exact S1).
      rewrite b2n_n2b by exact Lo. rewrite ST, N.eqb_refl.
      replace (opt_bytes_eq (const_by_opcode const_table o) (const_by_opcode const_table o)) with true
        by (symmetry; now apply opt_bytes_eq_true).
      cbn [andb]. apply IH; auto.
    + cbn [caps_ok caps_list render] in *. destruct caps as [|c caps]; [contradiction|]. destruct OK as [OK1 OK2].
      pose proof (cap_len_range _ _ OK1) as RG.
      destruct (get_opcode_push s pc c _ ltac:(lia) SK) as [o G].
      assert (pc < length s)%nat.
      { destruct (skipn_prefix_len _ _ _ _ SK) as [Q|Q].
        - rewrite spec_push_length in Q by lia. destruct (length c <=? 75)%nat; lia.
        - pose proof (spec_push_length c ltac:(lia)) as Q2. rewrite Q in Q2. cbn in Q2. destruct (length c <=? 75)%nat; lia. }
      replace (length s <=? pc)%nat with false by lia. rewrite G.
      rewrite (step_item_cap it k o (Some c) r HC1). cbn [opt_len]. rewrite OK1.
      rewrite (IH cls HC2 caps s _ _ OK2).
      * rewrite <- app_assoc. reflexivity.
      * now apply skipn_app_prefix.
      * destruct (skipn_prefix_len _ _ _ _ SK) as [Q|Q]; [exact Q|].
        pose proof (spec_push_length c ltac:(lia)) as Q2. rewrite Q in Q2. cbn in Q2. destruct (length c <=? 75)%nat; lia.
Qed.

(* match_items never raises: get_opcode is only asked inside the script *)
Lemma match_items_total : forall items s pc r, exists d, match_items items s pc r = Ret d.
Proof.
  induction items as [|it items IH]; intros s pc r; cbn [match_items]; [eauto|].
  destruct (length s <=? pc)%nat eqn:E; [eauto|].
  destruct (btc_get_opcode s pc true) as [[[[o1 d1] pc1'] ok1]|e|] eqn:G1.
  - destruct (step_item it o1 d1 r); eauto.
  - destruct (get_opcode_raises _ _ _ _ G1) as [->|[-> Q]]; [eauto|lia].
  - now apply get_opcode_fuel in G1.
Qed.

(* ============================ the five templates of info_for_script ============================ *)
Lemma opcode_names_agree :
  map (fun e : string * N => (list_byte_of_string (fst e), snd e)) opcode_list = opcode_names.
Proof. vm_compute. reflexivity. Qed.

Definition tmpl_cls (k : nat) : list iclass :=
  match k with
  | 0%nat => [ILit 118; ILit 169; ICap CPubkeyHash; ILit 136; ILit 172]
  | 1%nat => [ILit 0; ICap CSegwit]
  | 2%nat => [ILit 169; ICap CPubkeyHash; ILit 135]
  | 3%nat => [ICap CPubkey; ILit 172]
  | _ => [ILit 81; ICap CSynth]
  end.

(* compiled template, its decoded instruction list and their classes: all by computation on the GENERATED literals *)
Fixpoint cls_eqb (a : list (option iclass)) (b : list iclass) : bool :=
  match a, b with
  | [], [] => true
  | Some (ILit x) :: a', ILit y :: b' => (x =? y) && cls_eqb a' b'
  | Some (ICap x) :: a', ICap y :: b' => cap_eqb x y && cls_eqb a' b'
  | _, _ => false
  end.
Lemma cls_eqb_eq a b : cls_eqb a b = true -> a = map Some b.
Proof.
  revert b; induction a as [|x a IH]; intros [|y b] H; cbn [cls_eqb map] in *; try discriminate; auto.
  - destruct x as [[?|?]|]; discriminate.
  - destruct x as [[x|x]|]; destruct y as [y|y]; try discriminate;
      apply andb_true_iff in H; destruct H as [H1 H2]; rewrite (IH _ H2); f_equal; f_equal; f_equal.
    + now apply N.eqb_eq.
    + destruct x, y; cbn in H1; congruence.
Qed.
Definition tmpl_ok (k : nat) : bool :=
  match compile_template (tmpl k) with
  | Ret t =>
    match decode_items (S (length t)) t 0 with
    | Some items => cls_eqb (map item_class items) (tmpl_cls k)
    | None => false
    end
  | _ => false
  end.
Lemma tmpl_ok_all : forallb tmpl_ok [0; 1; 2; 3; 4]%nat = true /\ length match_templates = 5%nat.
Proof. split; vm_compute; reflexivity. Qed.

Lemma tmpl_facts k : (k < 5)%nat -> exists t items, compile_template (tmpl k) = Ret t /\
  decode_items (S (length t)) t 0 = Some items /\ map item_class items = map Some (tmpl_cls k).
Proof.
  intros Hk. destruct tmpl_ok_all as [A _].
  assert (In k [0; 1; 2; 3; 4]%nat) by (cbn; lia).
  pose proof (proj1 (forallb_forall _ _) A _ H) as K. unfold tmpl_ok in K.
  destruct (compile_template (tmpl k)) as [t| |] eqn:E1; try discriminate.
  destruct (decode_items (S (length t)) t 0) as [items|] eqn:E2; [|discriminate].
  exists t, items. split; [reflexivity|]. split; [exact E2|]. now apply cls_eqb_eq.
Qed.

Lemma contract_match_items k : (k < 5)%nat -> exists items, map item_class items = map Some (tmpl_cls k) /\
  forall s, contract_match (tmpl k) s = match_items items s 0 [].
Proof.
  intros Hk. destruct (tmpl_facts k Hk) as (t & items & CT & DI & CL).
  exists items. split; [exact CL|]. intros s. unfold contract_match. rewrite CT. cbn [bind].
  unfold match_compiled. apply (match_loop_items t s _ _ _ DI). lia.
Qed.

(* soundness and completeness of a template match, in terms of the rendered script *)
Lemma contract_match_sound k s r : (k < 5)%nat -> contract_match (tmpl k) s = Ret (Some r) ->
  exists caps, caps_ok (tmpl_cls k) caps /\ r = caps_list (tmpl_cls k) caps /\ s = render (tmpl_cls k) caps.
Proof.
  intros Hk H. destruct (contract_match_items k Hk) as (items & CL & EQ). rewrite EQ in H.
  destruct (match_items_sound items _ CL _ _ _ _ H) as (caps & OK & R & SK). exists caps. auto.
Qed.
Lemma contract_match_complete k caps : (k < 5)%nat -> caps_ok (tmpl_cls k) caps ->
  contract_match (tmpl k) (render (tmpl_cls k) caps) = Ret (Some (caps_list (tmpl_cls k) caps)).
Proof.
  intros Hk OK. destruct (contract_match_items k Hk) as (items & CL & EQ). rewrite EQ.
  apply (match_items_complete items _ CL caps _ 0%nat [] OK); [reflexivity|lia].
Qed.
Lemma contract_match_total k s : (k < 5)%nat -> exists d, contract_match (tmpl k) s = Ret d.
Proof.
  intros Hk. destruct (contract_match_items k Hk) as (items & CL & EQ). rewrite EQ. apply match_items_total.
Qed.

(* a template does not match (or matches without capture) a script that is not of its shape *)
Lemma contract_match_reject k s : (k < 5)%nat ->
  (forall caps, caps_ok (tmpl_cls k) caps -> s <> render (tmpl_cls k) caps) ->
  exists d, contract_match (tmpl k) s = Ret d /\ truthy d = false.
Proof.
  intros Hk NE. destruct (contract_match_total k s Hk) as [d H]. exists d. split; [exact H|].
  destruct d as [r|]; [|reflexivity].
  destruct (contract_match_sound k s r Hk H) as (caps & OK & _ & E). exfalso. exact (NE caps OK E).
Qed.

Lemma spec_push_head d : (2 <= length d <= 255)%nat -> exists b t, spec_push d = b :: t /\
  (2 <= b2n b <= 76).
Proof.
  intros H. destruct (length d <=? 75)%nat eqn:E.
  - rewrite spec_push_direct by lia. eexists _, _. split; [reflexivity|]. rewrite b2n_n2b by lia. lia.
  - rewrite spec_push_pushdata1 by lia. eexists _, _. split; [reflexivity|]. vm_compute. split; discriminate.
Qed.

(* ============================ for_info: the script constructors ============================ *)
Lemma hex_token_short : forallb (fun e : bytes * option N => (length (fst e) <=? 2)%nat) hex_token_opcodes = true.
Proof. vm_compute. reflexivity. Qed.
Lemma hex_token_lookup_in t d o : hex_token_lookup t d = Some o -> In (d, o) t.
Proof.
  induction t as [|[d' o'] r IH]; cbn [hex_token_lookup]; [discriminate|].
  destruct (bytes_eqb d d') eqn:E.
  - intros H; injection H as <-. apply bytes_eqb_eq in E. subst. now left.
  - intros H. right. auto.
Qed.
Lemma hex_lookup_long d : (3 <= length d)%nat -> hex_token_lookup hex_token_opcodes d = None.
Proof.
  intros L. destruct (hex_token_lookup hex_token_opcodes d) as [o|] eqn:E; [|reflexivity].
  apply hex_token_lookup_in in E.
  pose proof (proj1 (forallb_forall _ _) hex_token_short _ E) as K. cbn [fst] in K. lia.
Qed.

Lemma decimal_fold_lower ns : forall acc, (0 <= acc)%Z ->
  (acc * 10 ^ Z.of_nat (length ns) <= fold_left (fun a n => a * 10 + Z.of_N n) ns acc)%Z.
Proof.
  induction ns as [|n ns IH]; intros acc Ha; cbn [fold_left length].
  - change (Z.of_nat 0) with 0%Z. rewrite Z.pow_0_r. lia.
  - rewrite Nat2Z.inj_succ, Z.pow_succ_r by lia.
    pose proof (IH (acc * 10 + Z.of_N n)%Z ltac:(lia)) as Q.
    assert (0 < 10 ^ Z.of_nat (length ns))%Z by (apply Z.pow_pos_nonneg; lia).
    nia.
Qed.
Lemma nibbles_cons b d : nibbles (b :: d) = b2n b / 16 :: b2n b mod 16 :: nibbles d.
Proof. reflexivity. Qed.
Lemma nibbles_length d : length (nibbles d) = (2 * length d)%nat.
Proof. induction d as [|b d IH]; [reflexivity|]. rewrite nibbles_cons. cbn [length]. lia. Qed.

Lemma decimal_cond_false d : (11 <= length d)%nat ->
  forallb (fun n => n <? 10) (nibbles d) && negb (hd 0 (nibbles d) =? 0) && (decimal_value (nibbles d) <=? max_u64)%Z = false.
Proof.
  intros L. destruct d as [|b d]; [cbn in L; lia|].
  rewrite nibbles_cons. cbn [hd]. set (n0 := b2n b / 16). destruct (n0 =? 0) eqn:E0.
  - cbn [negb]. now rewrite andb_false_r.
  - apply andb_false_iff. right. apply Z.leb_gt.
    unfold decimal_value. cbn [fold_left].
    set (acc := ((0 * 10 + Z.of_N n0) * 10 + Z.of_N (b2n b mod 16))%Z).
    pose proof (decimal_fold_lower (nibbles d) acc ltac:(unfold acc; lia)) as Q.
    cbn [length] in L. rewrite nibbles_length in Q.
    assert (H : (10 ^ 20 <= 10 ^ Z.of_nat (2 * length d))%Z) by (apply Z.pow_le_mono_r; lia).
    change (10 ^ 20)%Z with 100000000000000000000%Z in H. unfold max_u64.
    assert (10 <= acc)%Z by (unfold acc; lia). nia.
Qed.

Lemma compile_hex_token_long d : (11 <= length d)%nat -> N.of_nat (length d) < 2 ^ 32 ->
  compile_hex_token d = Ret (spec_push d).
Proof.
  intros L B. unfold compile_hex_token.
  rewrite hex_lookup_long by lia. rewrite decimal_cond_false by exact L.
  destruct d; [cbn in L; lia|]. now apply push_is_spec.
Qed.

Ltac eval_format :=
  match goal with |- context [format_of ?n] =>
    let v := eval vm_compute in (format_of n) in change (format_of n) with v end.
Ltac eval_opnames :=
  repeat match goal with |- context [compile_opcode_name ?n] =>
    let v := eval vm_compute in (compile_opcode_name n) in change (compile_opcode_name n) with v end.

Lemma for_info_one_token i h : 
  match i with
  | IP2PKH x | IP2PKH_WIT x | IP2SH_WIT x | IP2SH x | IP2PK x | IP2TR x => x = h
  | _ => False
  end ->
  for_info i = bind (compile_hex_token h) (fun p => Ret (
    match i with
    | IP2PKH _ => [x76; xa9] ++ p ++ [x88; xac]
    | IP2PKH_WIT _ | IP2SH_WIT _ => [x00] ++ p
    | IP2SH _ => [xa9] ++ p ++ [x87]
    | IP2PK _ => p ++ [xac]
    | _ => [x51] ++ p
    end)).
Proof.
  destruct i; intros E; try contradiction; subst; unfold for_info; eval_format;
    cbn [bind compile_format compile_arg]; eval_opnames; cbn [bind];
    destruct (compile_hex_token h); cbn [bind app]; rewrite ?app_nil_r; reflexivity.
Qed.

(* the script each classified kind denotes *)
Definition info_render (i : info) : bytes :=
  match i with
  | IP2PKH h => render (tmpl_cls 0) [h]
  | IP2PKH_WIT h | IP2SH_WIT h => render (tmpl_cls 1) [h]
  | IP2SH h => render (tmpl_cls 2) [h]
  | IP2PK k => render (tmpl_cls 3) [k]
  | IP2TR k => render (tmpl_cls 4) [k]
  | INulldata d => x6a :: d
  | IMultisig m keys =>
    n2b (Z.to_N (80 + m)) :: concat (map spec_push keys) ++ [n2b (80 + N.of_nat (length keys)); xae]
  | IUnknown s => s
  end.

Lemma for_info_render_token i h :
  match i with
  | IP2PKH x | IP2PKH_WIT x | IP2SH_WIT x | IP2SH x | IP2PK x | IP2TR x => x = h
  | _ => False
  end -> (11 <= length h)%nat -> N.of_nat (length h) < 2 ^ 32 -> for_info i = Ret (info_render i).
Proof.
  intros E L B. rewrite (for_info_one_token i h E), compile_hex_token_long by assumption. cbn [bind].
  destruct i; try contradiction; subst; cbn [info_render render tmpl_cls]; rewrite ?app_nil_r; reflexivity.
Qed.

Lemma for_info_nulldata d : for_info (INulldata d) = Ret (x6a :: d).
Proof. unfold for_info. eval_opnames. reflexivity. Qed.

(* ============================ info_for_script: soundness ============================ *)
Definition kcap (k : nat) : cap :=
  match k with 0%nat | 2%nat => CPubkeyHash | 1%nat => CSegwit | 3%nat => CPubkey | _ => CSynth end.

Lemma caps_single k caps : (k < 5)%nat -> caps_ok (tmpl_cls k) caps ->
  exists c, caps = [c] /\ cap_len_ok (kcap k) (length c) = true.
Proof.
  intros Hk. destruct k as [|[|[|[|[|k]]]]]; try lia; cbn [tmpl_cls caps_ok kcap];
    destruct caps as [|c caps]; try contradiction; intros [A B]; try subst caps; eauto.
Qed.

Lemma first_of_single k c : (k < 5)%nat -> first_of (kcap k) (Some (caps_list (tmpl_cls k) [c])) = Ret c.
Proof. intros Hk. destruct k as [|[|[|[|[|k]]]]]; try lia; reflexivity. Qed.
Lemma truthy_single k c : (k < 5)%nat -> truthy (Some (caps_list (tmpl_cls k) [c])) = true.
Proof. intros Hk. destruct k as [|[|[|[|[|k]]]]]; try lia; reflexivity. Qed.

Lemma step_sound k s d : (k < 5)%nat -> contract_match (tmpl k) s = Ret d -> truthy d = true ->
  exists c, cap_len_ok (kcap k) (length c) = true /\ first_of (kcap k) d = Ret c /\ s = render (tmpl_cls k) [c].
Proof.
  intros Hk M T. destruct d as [r|]; [|discriminate].
  destruct (contract_match_sound k s r Hk M) as (caps & OK & -> & ->).
  destruct (caps_single k caps Hk OK) as (c & -> & L). exists c. repeat split; auto. now apply first_of_single.
Qed.

Definition payload_ok (i : info) : Prop :=
  match i with
  | IP2PKH h | IP2PKH_WIT h | IP2SH h => length h = 20%nat
  | IP2SH_WIT h | IP2TR h => length h = 32%nat
  | IP2PK k => (33 <= length k <= 120)%nat
  | _ => True
  end.

Lemma op_return_compiled : compile_opcode_name nm_OP_RETURN = Ret [x6a].
Proof. vm_compute. reflexivity. Qed.

(* what info_for_script reports before it tries the multisig shape *)
Lemma info_for_script_sound_simple s i : info_for_script s = Ret i ->
  (payload_ok i /\ s = info_render i /\ match i with IMultisig _ _ | IUnknown _ => False | _ => True end)
  \/ info_step_multisig s = Ret i.
Proof.
  unfold info_for_script.
  destruct (contract_match (tmpl 0) s) as [d| |] eqn:M; cbn [bind]; try discriminate.
  destruct (truthy d) eqn:T.
  { destruct (step_sound 0 s d ltac:(lia) M T) as (c & L & F & E). cbn [kcap] in *. rewrite F. cbn [bind].
    intros H; injection H as <-. left. unfold cap_len_ok, pubkeyhash_len in L. cbn [payload_ok info_render]. repeat split; auto; lia. }
  clear M T d. unfold info_step_segwit.
  destruct (contract_match (tmpl 1) s) as [d| |] eqn:M; cbn [bind]; try discriminate.
  assert (NEXT : info_step_p2sh s = Ret i -> (payload_ok i /\ s = info_render i /\
             match i with IMultisig _ _ | IUnknown _ => False | _ => True end) \/ info_step_multisig s = Ret i).
  { clear M d. unfold info_step_p2sh.
    destruct (contract_match (tmpl 2) s) as [d| |] eqn:M; cbn [bind]; try discriminate.
    destruct (truthy d) eqn:T.
    { destruct (step_sound 2 s d ltac:(lia) M T) as (c & L & F & E). cbn [kcap] in *. rewrite F. cbn [bind].
      intros H; injection H as <-. left. unfold cap_len_ok, pubkeyhash_len in L. cbn [payload_ok info_render]. repeat split; auto; lia. }
    clear M T d. unfold info_step_p2pk.
    destruct (contract_match (tmpl 3) s) as [d| |] eqn:M; cbn [bind]; try discriminate.
    destruct (truthy d) eqn:T.
    { destruct (step_sound 3 s d ltac:(lia) M T) as (c & L & F & E). cbn [kcap] in *. rewrite F. cbn [bind].
      intros H; injection H as <-. left. unfold cap_len_ok, pubkey_len_min, pubkey_len_max in L.
      cbn [payload_ok info_render]. repeat split; auto; lia. }
    clear M T d. unfold info_step_p2tr.
    assert (NEXT : info_step_nulldata s = Ret i -> (payload_ok i /\ s = info_render i /\
               match i with IMultisig _ _ | IUnknown _ => False | _ => True end) \/ info_step_multisig s = Ret i).
    { unfold info_step_nulldata. rewrite op_return_compiled. cbn [bind].
      destruct (bytes_eqb [x6a] (firstn 1 s)) eqn:E; [|now right].
      intros H; injection H as <-. left. cbn [payload_ok info_render]. repeat split; auto.
      apply bytes_eqb_eq in E. rewrite <- (firstn_skipn 1 s) at 1. rewrite <- E. reflexivity. }
    destruct (contract_match (tmpl 4) s) as [d| |] eqn:M; cbn [bind]; try discriminate.
    destruct (truthy d) eqn:T; [|exact NEXT].
    destruct (step_sound 4 s d ltac:(lia) M T) as (c & L & F & E). cbn [kcap] in *. rewrite F. cbn [bind].
    unfold cap_len_ok, synthetic_key_len in L. destruct (length c =? 32)%nat eqn:E32; [|lia].
    intros H; injection H as <-. left. cbn [payload_ok info_render]. repeat split; auto; lia. }
  destruct (truthy d) eqn:T; [|exact NEXT].
  destruct (step_sound 1 s d ltac:(lia) M T) as (c & L & F & E). cbn [kcap] in *. rewrite F. cbn [bind].
  unfold cap_len_ok, segwit_lens in L. cbn [existsb] in L.
  destruct (length c =? 20)%nat eqn:E20.
  { intros H; injection H as <-. left. cbn [payload_ok info_render]. repeat split; auto; lia. }
  destruct (length c =? 32)%nat eqn:E32; [|lia].
  intros H; injection H as <-. left. cbn [payload_ok info_render]. repeat split; auto; lia.
Qed.

(* ============================ _info_from_multisig_script: soundness ============================ *)
Definition key_ok (k : bytes) : Prop := (33 <= length k <= 120)%nat.

Lemma multisig_keys_inv : forall fuel s pc opcode keys opcode' pc' keys',
  multisig_keys fuel s pc opcode keys = Ret (Some (opcode', pc', keys')) -> (pc' < length s)%nat ->
  exists newkeys pcm d ok, keys' = keys ++ newkeys /\ Forall key_ok newkeys /\
    skipn pc s = concat (map spec_push newkeys) ++ skipn pcm s /\ (pcm < length s)%nat /\
    btc_get_opcode s pcm true = Ret (opcode', d, pc', ok).
Proof.
  induction fuel as [|fuel IH]; intros s pc opcode keys opcode' pc' keys' H LT; [discriminate|].
  cbn [multisig_keys] in H.
  destruct (pc <? length s)%nat eqn:E; [|injection H as _ <- _; lia].
  destruct (btc_get_opcode s pc true) as [[[[o1 d1] pc1] ok1]|e|] eqn:G; [|destruct e; discriminate|discriminate].
  unfold multisig_key_min, multisig_key_max in H.
  destruct ((opt_len d1 <? 33)%nat || (120 <? opt_len d1)%nat) eqn:SZ.
  - injection H as <- <- <-. exists [], pc, d1, ok1. rewrite app_nil_r. repeat split; auto. lia.
  - destruct d1 as [k|]; [|cbn in SZ; discriminate]. cbn [opt_len] in SZ.
    destruct (get_opcode_push_inv _ _ _ _ _ _ G ltac:(lia)) as [SK ->].
    destruct (IH _ _ _ _ _ _ _ H LT) as (nk & pcm & d & ok & -> & F & SK2 & L2 & G2).
    exists (k :: nk), pcm, d, ok. rewrite <- app_assoc. repeat split; auto.
    + constructor; [unfold key_ok; lia|exact F].
    + cbn [map concat]. rewrite <- app_assoc, <- SK2. exact SK.
Qed.

Lemma multisig_opcodes : int_for_opcode nm_OP_1 = Ret 81 /\ int_for_opcode nm_OP_16 = Ret 96 /\
  int_for_opcode nm_OP_CHECKMULTISIG = Ret 174.
Proof. repeat split; vm_compute; reflexivity. Qed.

Lemma multisig_sound s i : info_from_multisig_script s = Ret (Some i) ->
  exists m keys, i = IMultisig m keys /\ (1 <= m <= 15)%Z /\ Forall key_ok keys /\
    (m <= Z.of_nat (length keys))%Z /\ (length keys <= 16)%nat /\ s = info_render i.
Proof.
  unfold info_from_multisig_script. destruct multisig_opcodes as (O1 & O16 & OC). rewrite O1, O16. cbn [bind].
  destruct (length s =? 0)%nat eqn:E0; [discriminate|].
  destruct (btc_get_opcode s 0 false) as [[[[o d] pc] ok]|e|] eqn:G0; cbn [bind]; try discriminate.
  destruct (negb ((81 <=? o) && (o <? 96))) eqn:R; [discriminate|].
  destruct (get_opcode_single_inv _ _ _ _ _ _ _ G0 (is_single_above o ltac:(lia))) as (N0 & Lo & _ & ->).
  destruct (multisig_keys (S (length s)) s 1 o []) as [[[[o2 pc2] keys]|]| |] eqn:MK; cbn [bind]; try discriminate.
  destruct (length s <=? pc2)%nat eqn:E1; [discriminate|].
  destruct (negb ((81 <=? o2) && (o2 <=? 96))) eqn:R2; [discriminate|].
  destruct ((Z.of_N o2 + (1 - Z.of_N 81) <? Z.of_N o + (1 - Z.of_N 81))%Z
            || negb (Z.of_nat (length keys) =? Z.of_N o2 + (1 - Z.of_N 81))%Z) eqn:E2; [discriminate|].
  destruct (multisig_keys_inv _ _ _ _ _ _ _ _ MK ltac:(lia)) as (nk & pcm & d2 & ok2 & -> & F & SK & Lm & G2).
  cbn [app] in *.
  destruct (btc_get_opcode s pc2 false) as [[[[o3 d3] pc3] ok3]|e|] eqn:G3; cbn [bind]; try discriminate.
  rewrite OC. cbn [bind].
  destruct (negb (o3 =? 174)) eqn:E3; [discriminate|].
  destruct (negb (pc3 =? length s)%nat) eqn:E4; [discriminate|].
  intros H; injection H as <-.
  assert (Ho2 : o2 = 80 + N.of_nat (length nk)) by lia.
  destruct (get_opcode_single_inv _ _ _ _ _ _ _ G2 (is_single_above o2 ltac:(lia))) as (N2 & Lo2 & _ & ->).
  assert (o3 = 174) by lia. subst o3.
  destruct (get_opcode_single_inv _ _ _ _ _ _ _ G3 (is_single_above 174 ltac:(lia))) as (N3 & _ & _ & ->).
  exists (Z.of_N o + (1 - Z.of_N 81))%Z, nk. repeat split; auto; try lia.
  cbn [info_render].
  pose proof (nth_error_skipn _ _ _ N0) as A0. rewrite skipn_O in A0.
  pose proof (nth_error_skipn _ _ _ N2) as A2.
  pose proof (nth_error_skipn _ _ _ N3) as A3.
  rewrite (skipn_all2 (n:=S (S pcm)) s) in A3 by lia.
  rewrite A0 at 1. f_equal; [f_equal; lia|]. rewrite SK. f_equal. rewrite A2, A3, Ho2. reflexivity.
Qed.

Lemma compile_int_token_small v : (1 <= v <= 16)%Z -> compile_int_token v = Ret [n2b (Z.to_N (80 + v))].
Proof.
  intros H.
  assert (C : (v = 1 \/ v = 2 \/ v = 3 \/ v = 4 \/ v = 5 \/ v = 6 \/ v = 7 \/ v = 8 \/ v = 9 \/ v = 10 \/ v = 11 \/
               v = 12 \/ v = 13 \/ v = 14 \/ v = 15 \/ v = 16)%Z) by lia.
  repeat (destruct C as [->|C]; [vm_compute; reflexivity|]). subst. vm_compute. reflexivity.
Qed.

Lemma mapM_hex_keys keys : Forall key_ok keys -> mapM compile_hex_token keys = Ret (map spec_push keys).
Proof.
  induction 1 as [|k keys K F IH]; [reflexivity|]. cbn [mapM map]. unfold key_ok in K.
  rewrite compile_hex_token_long by (try lia; change (2 ^ 32) with 4294967296; lia).
  cbn [bind]. rewrite IH. reflexivity.
Qed.

Lemma for_info_multisig m keys : (1 <= m <= 15)%Z -> Forall key_ok keys ->
  (m <= Z.of_nat (length keys))%Z -> (length keys <= 16)%nat ->
  for_info (IMultisig m keys) = Ret (info_render (IMultisig m keys)).
Proof.
  intros Hm F Hn H16. unfold for_info. eval_format. cbn [bind compile_format compile_arg]. eval_opnames.
  rewrite (compile_int_token_small m) by lia.
  rewrite (compile_int_token_small (Z.of_nat (length keys))) by lia.
  rewrite (mapM_hex_keys keys F). cbn [bind app info_render].
  replace (Z.to_N (80 + Z.of_nat (length keys))) with (80 + N.of_nat (length keys)) by lia.
  rewrite ?app_nil_r. reflexivity.
Qed.

(* ---- C08_classification_faithful: whatever info_for_script reports, for_info rebuilds the very same bytes ---- *)
Theorem classification_faithful s i : info_for_script s = Ret i -> for_info i = Ret s.
Proof.
  intros H. destruct (info_for_script_sound_simple s i H) as [(P & E & K)|M].
  - destruct i; try contradiction; cbn [payload_ok] in P; try (rewrite E; apply for_info_nulldata);
      rewrite E; eapply for_info_render_token; try reflexivity; try lia; change (2 ^ 32) with 4294967296; lia.
  - unfold info_step_multisig in M.
    destruct (info_from_multisig_script s) as [[i'|]| |] eqn:MS; cbn [bind] in M; try discriminate; injection M as <-.
    + destruct (multisig_sound s i' MS) as (m & keys & -> & Hm & F & Hn & H16 & E). rewrite E.
      now apply for_info_multisig.
    + reflexivity.
Qed.

(* and what a reported kind tells about the script *)
Theorem classification_shape s i : info_for_script s = Ret i ->
  match i with
  | IMultisig m keys => (1 <= m <= 15)%Z /\ Forall key_ok keys /\ (m <= Z.of_nat (length keys))%Z /\ (length keys <= 16)%nat
  | _ => payload_ok i
  end /\ s = info_render i.
Proof.
  intros H. destruct (info_for_script_sound_simple s i H) as [(P & E & K)|M].
  - split; [|exact E]. destruct i; try contradiction; exact P.
  - unfold info_step_multisig in M.
    destruct (info_from_multisig_script s) as [[i'|]| |] eqn:MS; cbn [bind] in M; try discriminate; injection M as <-.
    + destruct (multisig_sound s i' MS) as (m & keys & -> & Hm & F & Hn & H16 & E). auto.
    + cbn. auto.
Qed.

(* ============================ the five address kinds: constructor and classifier agree with the spec ============================ *)
Lemma kind_defs_agree : forall k, kind_len k = std_len k.
Proof. reflexivity. Qed.

Lemma std_script_render k p : k <= 4 -> length p = std_len k -> std_script k p = info_render (kind_info k p).
Proof.
  intros Hk L.
  assert (C : k = 0 \/ k = 1 \/ k = 2 \/ k = 3 \/ k = 4) by lia.
  destruct C as [->|[->|[->|[->| ->]]]]; cbn [std_len] in L;
    cbn [std_script kind_info info_render render tmpl_cls]; rewrite spec_push_direct by lia; rewrite L;
    cbn [app]; rewrite ?app_nil_r; reflexivity.
Qed.

Lemma for_info_std k p : k <= 4 -> length p = std_len k -> for_info (kind_info k p) = Ret (std_script k p).
Proof.
  intros Hk L. rewrite (std_script_render k p Hk L).
  assert (C : k = 0 \/ k = 1 \/ k = 2 \/ k = 3 \/ k = 4) by lia.
  destruct C as [->|[->|[->|[->| ->]]]]; cbn [std_len] in L; cbn [kind_info];
    eapply for_info_render_token; try reflexivity; try lia; change (2 ^ 32) with 4294967296; lia.
Qed.

(* rejection by the first byte *)
Lemma reject_first_lit k o rest b t : (k < 5)%nat -> tmpl_cls k = ILit o :: rest -> b <> n2b o ->
  exists d, contract_match (tmpl k) (b :: t) = Ret d /\ truthy d = false.
Proof.
  intros Hk C NE. apply contract_match_reject; [exact Hk|]. intros caps _ E. rewrite C in E. cbn [render] in E.
  injection E as E _. contradiction.
Qed.
Lemma reject_pubkey b t : 76 < b2n b ->
  exists d, contract_match (tmpl 3) (b :: t) = Ret d /\ truthy d = false.
Proof.
  intros Hb. apply contract_match_reject; [lia|]. intros caps OK E.
  destruct (caps_single 3 caps ltac:(lia) OK) as (c & -> & L). apply cap_len_range in L.
  cbn [tmpl_cls render] in E. destruct (spec_push_head c ltac:(lia)) as (b' & t' & SP & R). rewrite SP in E.
  cbn [app] in E. injection E as -> _. lia.
Qed.

Ltac reject_lit k :=
  match goal with |- context [contract_match (tmpl k) (?b :: ?t)] =>
    let d := fresh "d" in let M := fresh "M" in let T := fresh "T" in
    destruct (reject_first_lit k _ _ b t ltac:(lia) eq_refl ltac:(vm_compute; discriminate)) as (d & M & T);
    rewrite M; cbn [bind]; rewrite T; clear d M T
  end.

Lemma info_for_script_std k p : k <= 4 -> length p = std_len k ->
  info_for_script (std_script k p) = Ret (kind_info k p).
Proof.
  intros Hk L. pose proof (std_script_render k p Hk L) as R.
  assert (C : k = 0 \/ k = 1 \/ k = 2 \/ k = 3 \/ k = 4) by lia.
  destruct C as [->|[->|[->|[->| ->]]]]; cbn [std_len] in L; cbn [kind_info info_render] in *.
  - (* P2PKH *)
    unfold info_for_script. rewrite R, (contract_match_complete 0 [p]) by (try lia; cbn; rewrite L; auto).
    cbn [bind]. rewrite truthy_single by lia. now rewrite (first_of_single 0) by lia.
  - (* P2SH *)
    unfold info_for_script. cbn [std_script app]. reject_lit 0%nat.
    unfold info_step_segwit. reject_lit 1%nat.
    unfold info_step_p2sh. change ([xa9; x14] ++ p ++ [x87]) with (std_script 1 p) in R.
    cbn [std_script app] in R. rewrite R, (contract_match_complete 2 [p]) by (try lia; cbn; rewrite L; auto).
    cbn [bind]. rewrite truthy_single by lia. now rewrite (first_of_single 2) by lia.
  - (* P2WPKH *)
    unfold info_for_script. cbn [std_script app]. reject_lit 0%nat.
    unfold info_step_segwit. cbn [std_script app] in R.
    rewrite R, (contract_match_complete 1 [p]) by (try lia; cbn; rewrite L; auto).
    cbn [bind]. rewrite truthy_single by lia. rewrite (first_of_single 1) by lia. cbn [bind]. now rewrite L.
  - (* P2WSH *)
    unfold info_for_script. cbn [std_script app]. reject_lit 0%nat.
    unfold info_step_segwit. cbn [std_script app] in R.
    rewrite R, (contract_match_complete 1 [p]) by (try lia; cbn; rewrite L; auto).
    cbn [bind]. rewrite truthy_single by lia. rewrite (first_of_single 1) by lia. cbn [bind]. now rewrite L.
  - (* P2TR *)
    unfold info_for_script. cbn [std_script app]. reject_lit 0%nat.
    unfold info_step_segwit. reject_lit 1%nat.
    unfold info_step_p2sh. reject_lit 2%nat.
    unfold info_step_p2pk.
    destruct (reject_pubkey x51 (x20 :: p) ltac:(vm_compute; reflexivity)) as (d & M & T). rewrite M. cbn [bind]. rewrite T. clear d M T.
    unfold info_step_p2tr. cbn [std_script app] in R.
    rewrite R, (contract_match_complete 4 [p]) by (try lia; cbn; rewrite L; auto).
    cbn [bind]. rewrite truthy_single by lia. rewrite (first_of_single 4) by lia. cbn [bind]. now rewrite L.
Qed.

(* ============================ addresses: encoders and parsers over abstract codecs ============================ *)
Lemma starts_with_app p h : starts_with p (p ++ h) = true.
Proof. induction p as [|x p IH]; [reflexivity|]. cbn [starts_with app]. now rewrite byte_eqb_refl, IH. Qed.
Lemma starts_with_prefix p d : starts_with p d = true -> d = p ++ skipn (length p) d.
Proof.
  revert d; induction p as [|x p IH]; intros d H; [reflexivity|].
  destruct d as [|y d]; [discriminate|]. cbn [starts_with] in H. apply andb_true_iff in H. destruct H as [H1 H2].
  apply byte_eqb_eq in H1. subst y. cbn [length skipn app]. f_equal. now apply IH.
Qed.
Lemma app_same_tail_len {A} (a b c d : list A) : a ++ b = c ++ d -> length b = length d -> a = c /\ b = d.
Proof.
  revert c; induction a as [|x a IH]; intros [|y c] H L; cbn [app] in H.
  - auto.
  - subst b. cbn [length] in L. rewrite app_length in L. lia.
  - subst d. cbn [length] in L. rewrite app_length in L. lia.
  - injection H as -> H. destruct (IH _ H L) as [-> ->]. auto.
Qed.

Lemma parser_constants : p2pkh_payload_len = 20%nat /\ p2sh_payload_len = 20%nat /\
  segwit_args 0 = (0, 20%nat) /\ segwit_args 1 = (0, 32%nat) /\ segwit_args 2 = (1, 32%nat) /\
  enc_bech32 = 1 /\ enc_bech32m = 2.
Proof. repeat split; reflexivity. Qed.

(* ---- well-formed network rows ---- *)
Lemma wf_facts net : net_wf net = true ->
  nr_std net = true /\
  (forall pre, nr_pkh net = Some pre -> (length pre <= 2)%nat) /\
  (forall pre, nr_sh net = Some pre -> (length pre <= 2)%nat) /\
  (forall a b, nr_pkh net = Some a -> nr_sh net = Some b -> a <> b) /\
  (forall h, nr_hrp net = Some h -> hrp_ok h = true) /\
  nr_kinds net = kinds_from_prefixes net.
Proof.
  unfold net_wf. intros H. repeat (apply andb_true_iff in H; destruct H as [H ?]).
  repeat split; auto.
  - intros pre E. rewrite E in *. cbn in *. lia.
  - intros pre E. rewrite E in *. cbn in *. lia.
  - intros a b E1 E2 ->. rewrite E1, E2, bytes_eqb_refl in *. discriminate.
  - intros h E. now rewrite E in *.
  - revert H0. generalize (kinds_from_prefixes net). induction (nr_kinds net) as [|x l IH]; intros [|y m] Q; cbn in Q; try discriminate; auto.
    apply andb_true_iff in Q. destruct Q as [Q1 Q2]. apply N.eqb_eq in Q1. subst. f_equal. auto.
Qed.

Lemma kinds_defined net k : In k (kinds_from_prefixes net) <-> kind_defined net k.
Proof.
  unfold kinds_from_prefixes, kind_defined. split.
  - intros H. repeat (apply in_app_or in H; destruct H as [H|H]).
    + destruct (nr_pkh net) eqn:E; cbn in H; [|contradiction]. destruct H as [<-|[]]. cbn. rewrite E. split; [lia|discriminate].
    + destruct (nr_sh net) eqn:E; cbn in H; [|contradiction]. destruct H as [<-|[]]. cbn. rewrite E. split; [lia|discriminate].
    + destruct (nr_hrp net) eqn:E; cbn in H; [|contradiction].
      destruct H as [<-|[<-|[<-|[]]]]; cbn; rewrite E; (split; [lia|discriminate]).
  - intros [Hk D]. assert (C : k = 0 \/ k = 1 \/ k = 2 \/ k = 3 \/ k = 4) by lia.
    destruct C as [->|[->|[->|[->| ->]]]]; cbn [kind_prefix] in D.
    + apply in_or_app. left. destruct (nr_pkh net); [now left|contradiction].
    + apply in_or_app. right. apply in_or_app. left. destruct (nr_sh net); [now left|contradiction].
    + apply in_or_app. right. apply in_or_app. right. destruct (nr_hrp net); [cbn; auto|contradiction].
    + apply in_or_app. right. apply in_or_app. right. destruct (nr_hrp net); [cbn; auto|contradiction].
    + apply in_or_app. right. apply in_or_app. right. destruct (nr_hrp net); [cbn; auto|contradiction].
Qed.

(* (version, length) identifies the segwit kind *)
Lemma segwit_kind_unique k k' : 2 <= k <= 4 -> 2 <= k' <= 4 -> std_version k = std_version k' -> std_len k = std_len k' -> k = k'.
Proof.
  intros H H'. assert (C : k = 2 \/ k = 3 \/ k = 4) by lia. assert (C' : k' = 2 \/ k' = 3 \/ k' = 4) by lia.
  destruct C as [->|[->| ->]]; destruct C' as [->|[->| ->]]; cbn; intros; try reflexivity; try discriminate; lia.
Qed.

Lemma kind_info_inj k k' p p' : k <= 4 -> k' <= 4 -> kind_info k p = kind_info k' p' -> k = k' /\ p = p'.
Proof.
  intros H H'. assert (C : k = 0 \/ k = 1 \/ k = 2 \/ k = 3 \/ k = 4) by lia.
  assert (C' : k' = 0 \/ k' = 1 \/ k' = 2 \/ k' = 3 \/ k' = 4) by lia.
  destruct C as [->|[->|[->|[->| ->]]]]; destruct C' as [->|[->|[->|[->| ->]]]]; cbn [kind_info]; intros E;
    try discriminate; injection E as ->; auto.
Qed.


Section Codecs.
Variable enc : bytes -> bytes.
Variable dec : bytes -> option bytes.
Variable senc : bytes -> N -> bytes -> option bytes.
Variable sparse : bytes -> option (bytes * N * bytes * N).
Variable hash160 : bytes -> bytes.
Hypothesis LAWS : codec_laws enc dec senc sparse.

Notation addr_for_script := (address_for_script enc senc hash160).
Notation parse_addr := (parse_address dec sparse).

(* the address a network gives to a standard script, as a specification *)
Definition std_address (net : netrow) (k : N) (p : bytes) : option bytes :=
  match k with
  | 0 => match nr_pkh net with Some pre => Some (enc (pre ++ p)) | None => None end
  | 1 => match nr_sh net with Some pre => Some (enc (pre ++ p)) | None => None end
  | _ => match nr_hrp net with Some hrp => senc hrp (std_version k) p | None => None end
  end.

(* what a string says on a network: kind and payload *)
Definition address_denotes (net : netrow) (s : bytes) (k : N) (p : bytes) : Prop :=
  match k with
  | 0 => exists pre, nr_pkh net = Some pre /\ dec s = Some (pre ++ p)
  | 1 => exists pre, nr_sh net = Some pre /\ dec s = Some (pre ++ p)
  | _ => exists hrp, nr_hrp net = Some hrp /\ sparse s = Some (hrp, std_version k, p, spec_for (std_version k))
  end.

Lemma address_for_script_std net k p : k <= 4 -> length p = std_len k ->
  addr_for_script net (std_script k p) = Ret (std_address net k p).
Proof.
  intros Hk L. unfold address_for_script. rewrite (info_for_script_std k p Hk L). cbn [bind].
  assert (C : k = 0 \/ k = 1 \/ k = 2 \/ k = 3 \/ k = 4) by lia.
  destruct C as [->|[->|[->|[->| ->]]]]; cbn [std_len] in L;
    cbn [kind_info address_for_script_info std_address std_version];
    unfold address_for_p2pkh, address_for_p2sh, address_for_p2pkh_wit, address_for_p2sh_wit, address_for_p2tr;
    try reflexivity; destruct (nr_hrp net); try reflexivity; rewrite L; reflexivity.
Qed.

(* ---- the two Base58 parsers ---- *)
Lemma parse_b58_cases k prefix s : k = 0 \/ k = 1 ->
  (exists pre h, prefix = Some pre /\ dec s = Some (pre ++ h) /\ length h = 20%nat /\
     parse_b58 dec prefix 20 (kind_info k) s = Ret (Some (kind_info k h)))
  \/ (parse_b58 dec prefix 20 (kind_info k) s = Ret None /\
      forall pre h, prefix = Some pre -> dec s = Some (pre ++ h) -> length h <> 20%nat).
Proof.
  intros Hk. unfold parse_b58, parse_b58_data.
  destruct (dec s) as [data|] eqn:D; [|right; split; [reflexivity|discriminate]].
  destruct prefix as [pre|]; [|right; split; [reflexivity|discriminate]].
  destruct (starts_with pre data) eqn:SW; cbn [negb].
  - pose proof (starts_with_prefix _ _ SW) as E.
    destruct (length data =? length pre + 20)%nat eqn:LN; cbn [negb].
    + left. exists pre, (skipn (length pre) data).
      assert (L20 : length (skipn (length pre) data) = 20%nat) by (rewrite skipn_length; lia).
      repeat split; auto; [congruence|].
      assert (K4 : k <= 4) by lia.
      assert (SL : std_len k = 20%nat) by (destruct Hk as [-> | ->]; reflexivity).
      rewrite (for_info_std k _ K4) by lia. cbn [bind].
      rewrite (info_for_script_std k _ K4) by lia. reflexivity.
    + right. split; [reflexivity|]. intros pre' h [= <-] [= ->]. rewrite app_length in LN. lia.
  - right. split; [reflexivity|]. intros pre' h [= <-] [= ->]. now rewrite starts_with_app in SW.
Qed.

(* ---- the three segwit parsers ---- *)
Lemma parse_bech32m_cases net k s : k = 2 \/ k = 3 \/ k = 4 ->
  (exists hrp prog, nr_hrp net = Some hrp /\ sparse s = Some (hrp, std_version k, prog, spec_for (std_version k)) /\
     length prog = std_len k /\
     parse_bech32m sparse net s (std_version k) (std_len k) (kind_info k) = Ret (Some (kind_info k prog)))
  \/ (parse_bech32m sparse net s (std_version k) (std_len k) (kind_info k) = Ret None /\
      forall hrp prog, nr_hrp net = Some hrp -> sparse s = Some (hrp, std_version k, prog, spec_for (std_version k)) ->
        length prog <> std_len k).
Proof.
  intros Hk. unfold parse_bech32m, parse_bech32m_data.
  destruct (sparse s) as [[[[hp ver] prog] spec]|] eqn:SP; [|right; split; [reflexivity|discriminate]].
  destruct (nr_hrp net) as [hrp|]; [|right; split; [reflexivity|discriminate]].
  destruct (bytes_eqb hp hrp) eqn:E1; cbn [negb].
  2:{ right. split; [reflexivity|]. intros h' p' [= <-] [= -> _ _ _]. now rewrite bytes_eqb_refl in E1. }
  apply bytes_eqb_eq in E1. subst hp.
  destruct (length prog =? std_len k)%nat eqn:E2; cbn [negb].
  2:{ right. split; [reflexivity|]. intros h' p' _ [= _ _ <- _]. lia. }
  destruct (std_version k =? ver) eqn:E3; cbn [negb].
  2:{ right. split; [reflexivity|]. intros h' p' _ [= _ Q _ _]. rewrite Q, N.eqb_refl in E3. discriminate. }
  apply N.eqb_eq in E3. subst ver.
  assert (K4 : k <= 4) by lia.
  destruct ((std_version k =? 0) && negb (spec =? enc_bech32)) eqn:E4.
  { right. split; [reflexivity|]. intros h' p' _ [= _ _ Q]. rewrite Q in E4. unfold spec_for in E4.
    destruct (std_version k =? 0); cbn in E4; discriminate. }
  destruct (negb (std_version k =? 0) && negb (spec =? enc_bech32m)) eqn:E5.
  { right. split; [reflexivity|]. intros h' p' _ [= _ _ Q]. rewrite Q in E5. unfold spec_for in E5.
    destruct (std_version k =? 0); cbn in E5; discriminate. }
  left. exists hrp, prog. apply Nat.eqb_eq in E2.
  assert (SPF : spec = spec_for (std_version k)).
  { unfold spec_for. destruct (std_version k =? 0); cbn [andb negb] in E4, E5.
    - destruct (spec =? enc_bech32) eqn:Q; [now apply N.eqb_eq in Q|discriminate].
    - destruct (spec =? enc_bech32m) eqn:Q; [now apply N.eqb_eq in Q|discriminate]. }
  subst spec. repeat split; auto.
  rewrite (for_info_std k _ K4 E2). cbn [bind]. rewrite (info_for_script_std k _ K4 E2). reflexivity.
Qed.

(* the parsers as instances of the two schemes *)
Lemma parse_p2pkh_eq net s : parse_p2pkh dec net s = parse_b58 dec (nr_pkh net) 20 (kind_info 0) s.
Proof. reflexivity. Qed.
Lemma parse_p2sh_eq net s : parse_p2sh dec net s = parse_b58 dec (nr_sh net) 20 (kind_info 1) s.
Proof. reflexivity. Qed.
Lemma parse_segwit_eq net s :
  parse_p2pkh_segwit sparse net s = parse_bech32m sparse net s (std_version 2) (std_len 2) (kind_info 2) /\
  parse_p2sh_segwit sparse net s = parse_bech32m sparse net s (std_version 3) (std_len 3) (kind_info 3) /\
  parse_p2tr sparse net s = parse_bech32m sparse net s (std_version 4) (std_len 4) (kind_info 4).
Proof. repeat split; reflexivity. Qed.

(* every parser either accepts with the denoted kind/payload or returns None: parse_address never raises, and what
   it returns is the first accepting parser's Contract *)
Definition parser_k (net : netrow) (k : N) (s : bytes) : outcome (option info) :=
  match k with
  | 0 => parse_p2pkh dec net s
  | 1 => parse_p2sh dec net s
  | 2 => parse_p2pkh_segwit sparse net s
  | 3 => parse_p2sh_segwit sparse net s
  | _ => parse_p2tr sparse net s
  end.

Lemma parser_k_cases net k s : k <= 4 ->
  (exists p, length p = std_len k /\ address_denotes net s k p /\ parser_k net k s = Ret (Some (kind_info k p)))
  \/ (parser_k net k s = Ret None /\ forall p, length p = std_len k -> ~ address_denotes net s k p).
Proof.
  intros Hk. assert (C : k = 0 \/ k = 1 \/ k = 2 \/ k = 3 \/ k = 4) by lia.
  destruct C as [->|[->|[->|[->| ->]]]]; cbn [parser_k address_denotes std_len].
  - rewrite parse_p2pkh_eq. destruct (parse_b58_cases 0 (nr_pkh net) s ltac:(auto)) as [(pre & h & A & B & C & D)|[A B]].
    + left. exists h. repeat split; eauto.
    + right. split; [exact A|]. intros p L (pre & E1 & E2). exact (B pre p E1 E2 L).
  - rewrite parse_p2sh_eq. destruct (parse_b58_cases 1 (nr_sh net) s ltac:(auto)) as [(pre & h & A & B & C & D)|[A B]].
    + left. exists h. repeat split; eauto.
    + right. split; [exact A|]. intros p L (pre & E1 & E2). exact (B pre p E1 E2 L).
  - rewrite (proj1 (parse_segwit_eq net s)).
    destruct (parse_bech32m_cases net 2 s ltac:(auto)) as [(hrp & prog & A & B & C & D)|[A B]].
    + left. exists prog. repeat split; eauto.
    + right. split; [exact A|]. intros p L (hrp & E1 & E2). exact (B hrp p E1 E2 L).
  - rewrite (proj1 (proj2 (parse_segwit_eq net s))).
    destruct (parse_bech32m_cases net 3 s ltac:(auto)) as [(hrp & prog & A & B & C & D)|[A B]].
    + left. exists prog. repeat split; eauto.
    + right. split; [exact A|]. intros p L (hrp & E1 & E2). exact (B hrp p E1 E2 L).
  - rewrite (proj2 (proj2 (parse_segwit_eq net s))).
    destruct (parse_bech32m_cases net 4 s ltac:(auto)) as [(hrp & prog & A & B & C & D)|[A B]].
    + left. exists prog. repeat split; eauto.
    + right. split; [exact A|]. intros p L (hrp & E1 & E2). exact (B hrp p E1 E2 L).
Qed.

Lemma parse_address_unfold net s : parse_addr net s =
  or_else (parser_k net 0 s) (or_else (parser_k net 1 s) (or_else (parser_k net 2 s) (or_else (parser_k net 3 s) (parser_k net 4 s)))).
Proof. reflexivity. Qed.

(* parse_address returns the verdict of the first accepting parser; None when none accepts *)
Lemma parse_address_spec net s :
  (exists k p, k <= 4 /\ length p = std_len k /\ address_denotes net s k p /\
     (forall j, j < k -> forall q, length q = std_len j -> ~ address_denotes net s j q) /\
     parse_addr net s = Ret (Some (kind_info k p)))
  \/ (parse_addr net s = Ret None /\ forall k p, k <= 4 -> length p = std_len k -> ~ address_denotes net s k p).
Proof.
  rewrite parse_address_unfold.
  destruct (parser_k_cases net 0 s ltac:(lia)) as [(p & L & D & E)|[E0 N0]].
  { left. exists 0, p. rewrite E. cbn [or_else bind]. split; [lia|]. split; [exact L|]. split; [exact D|]. split; [|reflexivity].
    intros j Hj. lia. }
  rewrite E0. cbn [or_else bind].
  destruct (parser_k_cases net 1 s ltac:(lia)) as [(p & L & D & E)|[E1 N1]].
  { left. exists 1, p. rewrite E. cbn [or_else bind]. split; [lia|]. split; [exact L|]. split; [exact D|]. split; [|reflexivity].
    intros j Hj. assert (j = 0) by lia. subst. exact N0. }
  rewrite E1. cbn [or_else bind].
  destruct (parser_k_cases net 2 s ltac:(lia)) as [(p & L & D & E)|[E2 N2]].
  { left. exists 2, p. rewrite E. cbn [or_else bind]. split; [lia|]. split; [exact L|]. split; [exact D|]. split; [|reflexivity].
    intros j Hj. assert (C : j = 0 \/ j = 1) by lia. destruct C as [-> | ->]; assumption. }
  rewrite E2. cbn [or_else bind].
  destruct (parser_k_cases net 3 s ltac:(lia)) as [(p & L & D & E)|[E3 N3]].
  { left. exists 3, p. rewrite E. cbn [or_else bind]. split; [lia|]. split; [exact L|]. split; [exact D|]. split; [|reflexivity].
    intros j Hj. assert (C : j = 0 \/ j = 1 \/ j = 2) by lia. destruct C as [-> |[-> | ->]]; assumption. }
  rewrite E3. cbn [or_else bind].
  destruct (parser_k_cases net 4 s ltac:(lia)) as [(p & L & D & E)|[E4 N4]].
  { left. exists 4, p. rewrite E. split; [lia|]. split; [exact L|]. split; [exact D|]. split; [|reflexivity].
    intros j Hj. assert (C : j = 0 \/ j = 1 \/ j = 2 \/ j = 3) by lia. destruct C as [-> |[-> |[-> | ->]]]; assumption. }
  right. split; [exact E4|]. intros k p Hk.
  assert (C : k = 0 \/ k = 1 \/ k = 2 \/ k = 3 \/ k = 4) by lia.
  destruct C as [->|[->|[->|[->| ->]]]]; auto.
Qed.

(* what one string can denote on two well-formed networks *)
Lemma denotes_cross A B s kA kB p p' : net_wf A = true -> net_wf B = true -> kA <= 4 -> kB <= 4 ->
  length p = std_len kA -> length p' = std_len kB ->
  address_denotes A s kA p -> address_denotes B s kB p' ->
  p = p' /\ ((kA <= 1 /\ kB <= 1 /\ kind_prefix A kA = kind_prefix B kB) \/ (2 <= kA /\ kB = kA /\ nr_hrp A = nr_hrp B)).
Proof.
  intros WA WB HA HB LA LB DA DB.
  destruct (wf_facts A WA) as (_ & PA & SA & _ & _ & _). destruct (wf_facts B WB) as (_ & PB & SB & _ & _ & _).
  assert (b58_short : forall pre q, (length pre <= 2)%nat -> length q = 20%nat -> dec s = Some (pre ++ q) -> (length s <= 39)%nat).
  { intros pre q L1 L2 D. pose proof (b58_length _ _ _ _ LAWS _ _ D) as Q. rewrite app_length in Q. lia. }
  assert (seg_long : forall hrp v q spec, (20 <= length q)%nat -> sparse s = Some (hrp, v, q, spec) -> (40 <= length s)%nat).
  { intros hrp v q spec L D. exact (segwit_length _ _ _ _ LAWS _ _ _ _ _ D L). }
  assert (b58_case : forall (preA preB : bytes), length p = 20%nat -> length p' = 20%nat ->
            dec s = Some (preA ++ p) -> dec s = Some (preB ++ p') -> p = p' /\ preA = preB).
  { intros preA preB L1 L2 D1 D2. rewrite D1 in D2. injection D2 as D2.
    destruct (app_same_tail_len _ _ _ _ D2 ltac:(lia)) as [-> ->]. auto. }
  assert (CA : kA = 0 \/ kA = 1 \/ 2 <= kA <= 4) by lia. assert (CB : kB = 0 \/ kB = 1 \/ 2 <= kB <= 4) by lia.
  assert (LA2 : 2 <= kA <= 4 -> (20 <= length p)%nat).
  { intros Q. rewrite LA. assert (C : kA = 2 \/ kA = 3 \/ kA = 4) by lia. destruct C as [->|[->| ->]]; cbn; lia. }
  assert (LB2 : 2 <= kB <= 4 -> (20 <= length p')%nat).
  { intros Q. rewrite LB. assert (C : kB = 2 \/ kB = 3 \/ kB = 4) by lia. destruct C as [->|[->| ->]]; cbn; lia. }
  assert (SEGA : 2 <= kA <= 4 -> exists hrp, nr_hrp A = Some hrp /\ sparse s = Some (hrp, std_version kA, p, spec_for (std_version kA))).
  { intros Q. assert (C : kA = 2 \/ kA = 3 \/ kA = 4) by lia. destruct C as [->|[->| ->]]; exact DA. }
  assert (SEGB : 2 <= kB <= 4 -> exists hrp, nr_hrp B = Some hrp /\ sparse s = Some (hrp, std_version kB, p', spec_for (std_version kB))).
  { intros Q. assert (C : kB = 2 \/ kB = 3 \/ kB = 4) by lia. destruct C as [->|[->| ->]]; exact DB. }
  destruct CA as [->|[->|RA]]; destruct CB as [->|[->|RB]]; cbn [std_len] in LA, LB.
  - destruct DA as (preA & EA & DA). destruct DB as (preB & EB & DB).
    destruct (b58_case _ _ LA LB DA DB) as [-> ->]. split; [reflexivity|]. left. cbn [kind_prefix]. rewrite EA, EB. repeat split; lia.
  - destruct DA as (preA & EA & DA). destruct DB as (preB & EB & DB).
    destruct (b58_case _ _ LA LB DA DB) as [-> ->]. split; [reflexivity|]. left. cbn [kind_prefix]. rewrite EA, EB. repeat split; lia.
  - exfalso. destruct DA as (preA & EA & DA). destruct (SEGB RB) as (hrp & _ & DB').
    pose proof (b58_short _ _ (PA _ EA) LA DA). pose proof (seg_long _ _ _ _ (LB2 RB) DB'). lia.
  - destruct DA as (preA & EA & DA). destruct DB as (preB & EB & DB).
    destruct (b58_case _ _ LA LB DA DB) as [-> ->]. split; [reflexivity|]. left. cbn [kind_prefix]. rewrite EA, EB. repeat split; lia.
  - destruct DA as (preA & EA & DA). destruct DB as (preB & EB & DB).
    destruct (b58_case _ _ LA LB DA DB) as [-> ->]. split; [reflexivity|]. left. cbn [kind_prefix]. rewrite EA, EB. repeat split; lia.
  - exfalso. destruct DA as (preA & EA & DA). destruct (SEGB RB) as (hrp & _ & DB').
    pose proof (b58_short _ _ (SA _ EA) LA DA). pose proof (seg_long _ _ _ _ (LB2 RB) DB'). lia.
  - exfalso. destruct DB as (preB & EB & DB). destruct (SEGA RA) as (hrp & _ & DA').
    pose proof (b58_short _ _ (PB _ EB) LB DB). pose proof (seg_long _ _ _ _ (LA2 RA) DA'). lia.
  - exfalso. destruct DB as (preB & EB & DB). destruct (SEGA RA) as (hrp & _ & DA').
    pose proof (b58_short _ _ (SB _ EB) LB DB). pose proof (seg_long _ _ _ _ (LA2 RA) DA'). lia.
  - destruct (SEGA RA) as (hA & EA & DA'). destruct (SEGB RB) as (hB & EB & DB').
    rewrite DA' in DB'. injection DB' as -> V -> _. split; [reflexivity|]. right.
    split; [lia|]. split; [|congruence]. symmetry. apply segwit_kind_unique; auto. congruence.
Qed.

Lemma denotes_own net k p s : k <= 4 -> std_address net k p = Some s -> address_denotes net s k p.
Proof.
  intros Hk E. assert (C : k = 0 \/ k = 1 \/ k = 2 \/ k = 3 \/ k = 4) by lia.
  destruct C as [->|[->|[->|[->| ->]]]]; cbn [std_address address_denotes] in *.
  - destruct (nr_pkh net) as [pre|]; [|discriminate]. injection E as <-. exists pre. split; [reflexivity|]. apply (b58_decode_encode _ _ _ _ LAWS).
  - destruct (nr_sh net) as [pre|]; [|discriminate]. injection E as <-. exists pre. split; [reflexivity|]. apply (b58_decode_encode _ _ _ _ LAWS).
  - destruct (nr_hrp net) as [hrp|]; [|discriminate]. exists hrp. split; [reflexivity|]. now apply (segwit_parse_encode _ _ _ _ LAWS).
  - destruct (nr_hrp net) as [hrp|]; [|discriminate]. exists hrp. split; [reflexivity|]. now apply (segwit_parse_encode _ _ _ _ LAWS).
  - destruct (nr_hrp net) as [hrp|]; [|discriminate]. exists hrp. split; [reflexivity|]. now apply (segwit_parse_encode _ _ _ _ LAWS).
Qed.

Lemma std_address_defined net k p : net_wf net = true -> kind_defined net k -> length p = std_len k ->
  exists s, std_address net k p = Some s.
Proof.
  intros W [Hk D] L. destruct (wf_facts net W) as (_ & _ & _ & _ & HR & _).
  assert (C : k = 0 \/ k = 1 \/ k = 2 \/ k = 3 \/ k = 4) by lia.
  destruct C as [->|[->|[->|[->| ->]]]]; cbn [std_address kind_prefix std_len std_version] in *.
  - destruct (nr_pkh net); [eauto|contradiction].
  - destruct (nr_sh net); [eauto|contradiction].
  - destruct (nr_hrp net) as [hrp|] eqn:E; [|contradiction].
    destruct (senc hrp 0 p) eqn:Q; [eauto|]. exfalso.
    apply (segwit_encode_defined _ _ _ _ LAWS hrp 0 p (HR _ eq_refl)); [left; auto|exact Q].
  - destruct (nr_hrp net) as [hrp|] eqn:E; [|contradiction].
    destruct (senc hrp 0 p) eqn:Q; [eauto|]. exfalso.
    apply (segwit_encode_defined _ _ _ _ LAWS hrp 0 p (HR _ eq_refl)); [left; auto|exact Q].
  - destruct (nr_hrp net) as [hrp|] eqn:E; [|contradiction].
    destruct (senc hrp 1 p) eqn:Q; [eauto|]. exfalso.
    apply (segwit_encode_defined _ _ _ _ LAWS hrp 1 p (HR _ eq_refl)); [right; auto|exact Q].
Qed.

Lemma denotes_defined net s k p : k <= 4 -> address_denotes net s k p -> kind_defined net k.
Proof.
  intros Hk D. split; [exact Hk|]. assert (C : k = 0 \/ k = 1 \/ k = 2 \/ k = 3 \/ k = 4) by lia.
  destruct C as [->|[->|[->|[->| ->]]]]; cbn [address_denotes kind_prefix] in *; destruct D as (x & E & _); rewrite E; discriminate.
Qed.

(* ---- T1: script -> address -> script ---- *)
Theorem std_roundtrip net k p : net_wf net = true -> kind_defined net k -> length p = std_len k ->
  for_info (kind_info k p) = Ret (std_script k p) /\
  exists s, addr_for_script net (std_script k p) = Ret (Some s) /\
            parse_addr net s = Ret (Some (kind_info k p)) /\
            contract_for_address dec sparse net s = Ret (Some (std_script k p)).
Proof.
  intros W KD L. destruct KD as [Hk D].
  split; [now apply for_info_std|].
  destruct (std_address_defined net k p W (conj Hk D) L) as [s E]. exists s.
  rewrite (address_for_script_std net k p Hk L), E. split; [reflexivity|].
  pose proof (denotes_own net k p s Hk E) as DN.
  assert (P : parse_addr net s = Ret (Some (kind_info k p))).
  { destruct (parse_address_spec net s) as [(k' & p' & Hk' & L' & D' & _ & R)|[_ NO]].
    - destruct (denotes_cross net net s k k' p p' W W Hk Hk' L L' DN D') as [<- KK]. rewrite R.
      destruct KK as [(A & B & PE)|(_ & -> & _)]; [|reflexivity].
      destruct (wf_facts net W) as (_ & _ & _ & NE & _ & _).
      assert (C : k = 0 \/ k = 1) by lia. assert (C' : k' = 0 \/ k' = 1) by lia.
      destruct C as [-> | ->]; destruct C' as [-> | ->]; try reflexivity; cbn [kind_prefix] in PE; exfalso.
      + destruct (nr_pkh net) eqn:E1; [|contradiction]. destruct (nr_sh net) eqn:E2; [|discriminate].
        injection PE as ->. exact (NE _ _ eq_refl eq_refl eq_refl).
      + destruct (nr_sh net) eqn:E2; [|contradiction]. destruct (nr_pkh net) eqn:E1; [|discriminate].
        injection PE as ->. exact (NE _ _ eq_refl eq_refl eq_refl).
    - exfalso. exact (NO k p Hk L DN). }
  split; [exact P|]. unfold contract_for_address. rewrite P. cbn [bind]. rewrite (for_info_std k p Hk L). reflexivity.
Qed.

(* ---- T2: whatever a network accepts is a standard kind with the right payload length, and denotes the same
        script as its re-encoding ---- *)
Theorem accept_reencode net s i : net_wf net = true -> parse_addr net s = Ret (Some i) ->
  exists k p s', kind_defined net k /\ length p = std_len k /\ i = kind_info k p /\
    address_denotes net s k p /\
    for_info i = Ret (std_script k p) /\
    addr_for_script net (std_script k p) = Ret (Some s') /\
    parse_addr net s' = Ret (Some i).
Proof.
  intros W P. destruct (parse_address_spec net s) as [(k & p & Hk & L & D & _ & R)|[R _]]; [|congruence].
  rewrite R in P. injection P as <-.
  pose proof (denotes_defined net s k p Hk D) as KD.
  destruct (std_roundtrip net k p W KD L) as (F & s' & A & P' & _).
  exists k, p, s'. split; [exact KD|]. repeat split; auto.
Qed.

(* the accepted text itself, given the two textual codec laws *)
Theorem accept_reencode_text lower net s i : net_wf net = true -> codec_text_laws enc dec senc sparse lower ->
  parse_addr net s = Ret (Some i) ->
  exists k p, i = kind_info k p /\ k <= 4 /\ length p = std_len k /\
    addr_for_script net (std_script k p) = Ret (Some (if k <=? 1 then s else lower s)).
Proof.
  intros W TL P. destruct (parse_address_spec net s) as [(k & p & Hk & L & D & _ & R)|[R _]]; [|congruence].
  rewrite R in P. injection P as <-. exists k, p. repeat split; auto.
  rewrite (address_for_script_std net k p Hk L). f_equal.
  assert (C : k = 0 \/ k = 1 \/ k = 2 \/ k = 3 \/ k = 4) by lia.
  destruct C as [->|[->|[->|[->| ->]]]]; cbn [address_denotes std_address std_len std_version] in *;
    destruct D as (x & E & DS); rewrite E; cbn [N.leb N.compare Pos.compare Pos.compare_cont].
  - f_equal. exact (b58_encode_decode _ _ _ _ _ TL _ _ DS).
  - f_equal. exact (b58_encode_decode _ _ _ _ _ TL _ _ DS).
  - apply (segwit_encode_parse _ _ _ _ _ TL _ _ _ _ _ DS eq_refl). left. auto.
  - apply (segwit_encode_parse _ _ _ _ _ TL _ _ _ _ _ DS eq_refl). left. auto.
  - apply (segwit_encode_parse _ _ _ _ _ TL _ _ _ _ _ DS eq_refl). right. auto.
Qed.

(* ---- T3: an address produced on A and accepted on B is B's own address for the script B understood; the payload is
        the same; the kind is the same for segwit kinds and whenever the Base58 prefixes of A and B do not coincide
        across kinds ---- *)
Theorem cross_network A B kA p s i : net_wf A = true -> net_wf B = true -> kind_defined A kA -> length p = std_len kA ->
  addr_for_script A (std_script kA p) = Ret (Some s) -> parse_addr B s = Ret (Some i) ->
  exists kB, kind_defined B kB /\ std_len kB = std_len kA /\ i = kind_info kB p /\
    addr_for_script B (std_script kB p) = Ret (Some s) /\
    (2 <= kA -> kB = kA) /\ (cross_kind_ok A B = true -> kB = kA).
Proof.
  intros WA WB [HA DA] L EA P.
  rewrite (address_for_script_std A kA p HA L) in EA. injection EA as EA.
  pose proof (denotes_own A kA p s HA EA) as DNA.
  destruct (parse_address_spec B s) as [(kB & p' & HB & LB & DB & _ & R)|[R _]]; [|congruence].
  rewrite R in P. injection P as <-.
  destruct (denotes_cross A B s kA kB p p' WA WB HA HB L LB DNA DB) as [<- KK].
  exists kB. pose proof (denotes_defined B s kB p HB DB) as KDB.
  split; [exact KDB|]. 
  assert (LEN : std_len kB = std_len kA) by congruence.
  split; [exact LEN|]. split; [reflexivity|].
  rewrite (address_for_script_std B kB p HB LB).
  destruct KK as [(A1 & B1 & PE)|(A2 & -> & HE)].
  - split.
    + f_equal. rewrite <- EA.
      assert (C : kA = 0 \/ kA = 1) by lia. assert (C' : kB = 0 \/ kB = 1) by lia.
      destruct C as [-> | ->]; destruct C' as [-> | ->]; cbn [std_address kind_prefix] in *; rewrite PE; reflexivity.
    + split; [lia|]. intros CK. unfold cross_kind_ok in CK. apply andb_true_iff in CK. destruct CK as [CK1 CK2].
      assert (C : kA = 0 \/ kA = 1) by lia. assert (C' : kB = 0 \/ kB = 1) by lia.
      destruct C as [-> | ->]; destruct C' as [-> | ->]; try reflexivity; cbn [kind_prefix] in *; exfalso.
      * destruct (nr_pkh A) as [x|]; [|contradiction]. destruct (nr_sh B) as [y|]; [|discriminate].
        injection PE as ->. rewrite bytes_eqb_refl in CK1. discriminate.
      * destruct (nr_sh A) as [x|]; [|contradiction]. destruct (nr_pkh B) as [y|]; [|discriminate].
        injection PE as ->. rewrite bytes_eqb_refl in CK2. discriminate.
  - split; [|auto]. f_equal. rewrite <- EA.
    assert (C : kA = 2 \/ kA = 3 \/ kA = 4) by lia.
    destruct C as [->|[->| ->]]; cbn [std_address]; rewrite HE; reflexivity.
Qed.

(* ---- a network gives different standard scripts different addresses ---- *)
Theorem address_injective net k1 p1 k2 p2 s : net_wf net = true -> kind_defined net k1 -> kind_defined net k2 ->
  length p1 = std_len k1 -> length p2 = std_len k2 ->
  addr_for_script net (std_script k1 p1) = Ret (Some s) -> addr_for_script net (std_script k2 p2) = Ret (Some s) ->
  k1 = k2 /\ p1 = p2.
Proof.
  intros W K1 K2 L1 L2 E1 E2.
  destruct (std_roundtrip net k1 p1 W K1 L1) as (_ & s1 & A1 & P1 & _).
  destruct (std_roundtrip net k2 p2 W K2 L2) as (_ & s2 & A2 & P2 & _).
  rewrite E1 in A1. rewrite E2 in A2. injection A1 as <-. injection A2 as <-.
  rewrite P1 in P2. injection P2 as P2. apply kind_info_inj in P2; [exact P2|apply K1|apply K2].
Qed.

(* ---- key -> address ---- *)
Theorem key_address_is_p2pkh net sec : length (hash160 sec) = 20%nat ->
  addr_for_script net (std_script 0 (hash160 sec)) = Ret (key_address enc hash160 net sec).
Proof. intros L. rewrite (address_for_script_std net 0 _ ltac:(lia) L). reflexivity. Qed.

Theorem bip84_address_is_p2wpkh net sec : length (hash160 sec) = 20%nat ->
  bip84_address senc hash160 net sec = addr_for_script net (std_script 2 (hash160 sec)).
Proof.
  intros L. rewrite (address_for_script_std net 2 _ ltac:(lia) L).
  unfold bip84_address, address_for_p2pkh_wit, std_address. destruct (nr_hrp net); [|reflexivity]. now rewrite L.
Qed.

Theorem bip49_address_is_p2sh_p2wpkh net sec : (forall x, length (hash160 x) = 20%nat) ->
  bip49_address enc hash160 net sec = addr_for_script net (std_script 1 (hash160 (std_script 2 (hash160 sec)))).
Proof.
  intros L. rewrite (address_for_script_std net 1 _ ltac:(lia) (L _)).
  unfold bip49_address, contract_for_p2pkh_wit. change (IP2PKH_WIT (hash160 sec)) with (kind_info 2 (hash160 sec)).
  rewrite (for_info_std 2 _ ltac:(lia) (L sec)). reflexivity.
Qed.
End Codecs.

(* ---- the parseable_str cache is transparent: history independence ---- *)
Definition cache_coherent (dec : bytes -> option bytes) (sparse : bytes -> option (bytes * N * bytes * N)) (s : bytes)
  (c : pcache) : Prop :=
  (c_b58chk c = None \/ c_b58chk c = Some (dec s)) /\ (c_bech32 c = None \/ c_bech32 c = Some (sparse s)).

Lemma or_else_assoc {A} (a b rest : outcome (option A)) :
  or_else a (or_else b rest) = match or_else a b with Ret None => rest | x => x end.
Proof.
  destruct a as [[x|]|e|]; cbn; try reflexivity.
Qed.

Lemma parse_address_st_fresh dec sparse net s c : cache_coherent dec sparse s c ->
  fst (parse_address_st dec sparse net s c) = parse_address dec sparse net s /\
  cache_coherent dec sparse s (snd (parse_address_st dec sparse net s c)).
Proof.
  intros [C1 C2]. unfold parse_address_st.
  assert (E1 : eff_b58 dec c s = dec s) by (unfold eff_b58; destruct C1 as [-> | ->]; reflexivity).
  assert (E2 : eff_bech32 sparse c s = sparse s) by (unfold eff_bech32; destruct C2 as [-> | ->]; reflexivity).
  rewrite E1, E2. unfold parse_address. rewrite (or_else_assoc (parse_p2pkh dec net s) (parse_p2sh dec net s)).
  change (or_else (parse_p2pkh dec net s) (parse_p2sh dec net s)) with
    (or_else (parse_b58_data (dec s) (nr_pkh net) p2pkh_payload_len IP2PKH) (parse_b58_data (dec s) (nr_sh net) p2sh_payload_len IP2SH)).
  destruct (or_else (parse_b58_data (dec s) (nr_pkh net) p2pkh_payload_len IP2PKH)
                    (parse_b58_data (dec s) (nr_sh net) p2sh_payload_len IP2SH)) as [[x|]|e|];
    cbn [fst snd]; (split; [reflexivity|]); unfold cache_coherent; cbn [c_b58chk c_bech32]; auto.
Qed.

(* one parseable_str object offered to any sequence of networks: every answer is the answer to a fresh string *)
Lemma parse_address_seq_fresh dec sparse s : forall nets c, cache_coherent dec sparse s c ->
  parse_address_seq dec sparse nets s c = map (fun net => parse_address dec sparse net s) nets.
Proof.
  induction nets as [|net nets IH]; intros c C; [reflexivity|]. cbn [parse_address_seq map].
  destruct (parse_address_st_fresh dec sparse net s c C) as [F C'].
  destruct (parse_address_st dec sparse net s c) as [r c']. cbn [fst snd] in *. rewrite F, (IH c' C'). reflexivity.
Qed.
Lemma parse_address_seq_fresh_empty dec sparse s nets :
  parse_address_seq dec sparse nets s pcache_empty = map (fun net => parse_address dec sparse net s) nets.
Proof. apply parse_address_seq_fresh. split; left; reflexivity. Qed.

Lemma parse_cache_keys_fact : parse_cache_keys =
  [ [x62; x35; x38]; [x62; x35; x38; x5f; x64; x6f; x75; x62; x6c; x65; x5f; x73; x68; x61; x32; x35; x36];
    [x62; x65; x63; x68; x33; x32]; [x63; x6f; x6c; x6f; x6e; x5f; x70; x72; x65; x66; x69; x78] ].
Proof. reflexivity. Qed.

(* parse_address never raises, whatever the network row and the codecs *)
Lemma parse_address_total (dec : bytes -> option bytes) (sparse : bytes -> option (bytes * N * bytes * N)) net s :
  exists r, parse_address dec sparse net s = Ret r.
Proof.
  destruct (parse_address_spec dec sparse (fun x => x) net s) as [(k & p & _ & _ & _ & _ & R)|[R _]]; eauto.
Qed.

(* ============================ the generated table ============================ *)
Lemma networks_wf : forallb (fun n => implb (nr_std n) (net_wf n)) networks = true.
Proof. vm_compute. reflexivity. Qed.
Lemma table_wf net : In net networks -> nr_std net = true -> net_wf net = true.
Proof.
  intros I S. pose proof (proj1 (forallb_forall _ _) networks_wf _ I) as K. cbv beta in K. now rewrite S in K.
Qed.
Lemma table_kinds net k : In net networks -> nr_std net = true -> (In k (nr_kinds net) <-> kind_defined net k).
Proof.
  intros I S. destruct (wf_facts net (table_wf net I S)) as (_ & _ & _ & _ & _ & ->). apply kinds_defined.
Qed.

(* ---- the theorems over the GENERATED table ---- *)
Section Table.
Variable enc : bytes -> bytes.
Variable dec : bytes -> option bytes.
Variable senc : bytes -> N -> bytes -> option bytes.
Variable sparse : bytes -> option (bytes * N * bytes * N).
Variable hash160 : bytes -> bytes.
Hypothesis LAWS : codec_laws enc dec senc sparse.

Lemma table_script_address_script net k payload : In net networks -> nr_std net = true -> In k (nr_kinds net) ->
  length payload = kind_len k ->
  for_info (kind_info k payload) = Ret (std_script k payload) /\
  exists s, address_for_script enc senc hash160 net (std_script k payload) = Ret (Some s) /\
            parse_address dec sparse net s = Ret (Some (kind_info k payload)) /\
            contract_for_address dec sparse net s = Ret (Some (std_script k payload)).
Proof.
  intros I S K L. apply (std_roundtrip enc dec senc sparse hash160 LAWS net k payload (table_wf net I S)).
  - now apply (table_kinds net k I S).
  - exact L.
Qed.

Lemma table_accept_reencode net s i : In net networks -> nr_std net = true ->
  parse_address dec sparse net s = Ret (Some i) ->
  exists k payload s', In k (nr_kinds net) /\ length payload = kind_len k /\ i = kind_info k payload /\
    for_info i = Ret (std_script k payload) /\
    address_for_script enc senc hash160 net (std_script k payload) = Ret (Some s') /\
    parse_address dec sparse net s' = Ret (Some i).
Proof.
  intros I S P.
  destruct (accept_reencode enc dec senc sparse hash160 LAWS net s i (table_wf net I S) P) as (k & p & s' & KD & L & E & _ & F & A & P').
  exists k, p, s'. repeat split; auto. now apply (table_kinds net k I S).
Qed.

Lemma table_accept_reencode_text lower net s i : codec_text_laws enc dec senc sparse lower ->
  In net networks -> nr_std net = true -> parse_address dec sparse net s = Ret (Some i) ->
  exists k payload, i = kind_info k payload /\ k <= 4 /\ length payload = kind_len k /\
    address_for_script enc senc hash160 net (std_script k payload) = Ret (Some (if k <=? 1 then s else lower s)).
Proof.
  intros TL I S P. eapply accept_reencode_text; eauto using table_wf.
Qed.

Lemma table_cross_network A B kA payload s i : In A networks -> In B networks -> nr_std A = true -> nr_std B = true ->
  In kA (nr_kinds A) -> length payload = kind_len kA ->
  address_for_script enc senc hash160 A (std_script kA payload) = Ret (Some s) ->
  parse_address dec sparse B s = Ret (Some i) ->
  exists kB, In kB (nr_kinds B) /\ kind_len kB = kind_len kA /\ i = kind_info kB payload /\
    address_for_script enc senc hash160 B (std_script kB payload) = Ret (Some s) /\
    (2 <= kA -> kB = kA) /\ (cross_kind_ok A B = true -> kB = kA).
Proof.
  intros IA IB SA SB K L EA P.
  destruct (cross_network enc dec senc sparse hash160 LAWS A B kA payload s i (table_wf A IA SA) (table_wf B IB SB)
              (proj1 (table_kinds A kA IA SA) K) L EA P) as (kB & KD & LE & E & AD & C1 & C2).
  exists kB. repeat split; auto. now apply (table_kinds B kB IB SB).
Qed.

Lemma table_address_injective net k1 p1 k2 p2 s : In net networks -> nr_std net = true ->
  In k1 (nr_kinds net) -> In k2 (nr_kinds net) -> length p1 = kind_len k1 -> length p2 = kind_len k2 ->
  address_for_script enc senc hash160 net (std_script k1 p1) = Ret (Some s) ->
  address_for_script enc senc hash160 net (std_script k2 p2) = Ret (Some s) -> k1 = k2 /\ p1 = p2.
Proof.
  intros I S K1 K2. apply (address_injective enc dec senc sparse hash160 LAWS net k1 p1 k2 p2 s (table_wf net I S)).
  - now apply (table_kinds net k1 I S).
  - now apply (table_kinds net k2 I S).
Qed.
End Table.

(* ---- the codec laws are satisfiable: a toy codec ---- *)
Definition toy_enc (d : bytes) : bytes := d.
Definition toy_dec (s : bytes) : option bytes := Some s.
Definition toy_senc (hrp : bytes) (v : N) (prog : bytes) : option bytes :=
  if hrp_ok hrp && (v <? 256) then Some (repeatb x00 20 ++ n2b (N.of_nat (length hrp)) :: hrp ++ n2b v :: prog) else None.
Definition toy_sparse (s : bytes) : option (bytes * N * bytes * N) :=
  match skipn 20 s with
  | l :: r => match skipn (N.to_nat (b2n l)) r with
              | vb :: prog => Some (firstn (N.to_nat (b2n l)) r, b2n vb, prog, spec_for (b2n vb))
              | [] => None
              end
  | [] => None
  end.

Lemma toy_laws : codec_laws toy_enc toy_dec toy_senc toy_sparse.
Proof.
  constructor.
  - reflexivity.
  - intros s d H. injection H as <-. lia.
  - intros hrp v prog s. unfold toy_senc. destruct (hrp_ok hrp && (v <? 256)) eqn:E; [|discriminate].
    intros H; injection H as <-. apply andb_true_iff in E. destruct E as [E1 E2].
    unfold hrp_ok in E1. repeat (apply andb_true_iff in E1; destruct E1 as [E1 ?]).
    unfold toy_sparse. cbn [skipn app repeatb].
    rewrite b2n_n2b by lia. rewrite Nat2N.id. rewrite skipn_app_exact, firstn_app_exact.
    rewrite b2n_n2b by lia. reflexivity.
  - intros hrp v prog H W. unfold toy_senc. rewrite H.
    replace (v <? 256) with true by (destruct W as [[-> _]|[-> _]]; reflexivity). discriminate.
  - intros s hrp v prog spec. unfold toy_sparse.
    destruct (skipn 20 s) as [|l r] eqn:E1; [discriminate|].
    destruct (skipn (N.to_nat (b2n l)) r) as [|vb q] eqn:E2; [discriminate|].
    intros H; injection H as _ _ <- _. intros L.
    pose proof (f_equal (@length _) E1) as Q1. pose proof (f_equal (@length _) E2) as Q2.
    rewrite skipn_length in Q1, Q2. cbn [length] in Q1, Q2. lia.
Qed.
