(* Proofs/AddressP.v — lemmas for C08 over Model/Address.v, the GENERATED tables (Gen/GenNetworks.v,
   Gen/GenOpcodes.v) and C12's finished push model (Model/Push.v, Proofs/PushP.v). *)
From Coq Require Import String.
From PV Require Import Base.Bytes Base.Outcome Gen.GenOpcodes Gen.GenNetworks Model.ScriptNum Model.Push
  Proofs.PushP Model.Address Spec.AddressSpec.
From Coq Require Import ZifyBool ZifyNat ZifyN.
Local Open Scope N_scope.

(* ============================ lists ============================ *)
Lemma skipn_add {A} (a b : nat) (l : list A) : skipn (a + b) l = skipn b (skipn a l).
Proof.
  revert l; induction a as [|a IH]; intros l; [reflexivity|].
  destruct l as [|x l]; cbn [Nat.add skipn]; [now rewrite skipn_nil | apply IH].
Qed.

Lemma skipn_hd {A} (pc : nat) (l : list A) x r : skipn pc l = x :: r ->
  nth_error l pc = Some x /\ skipn (S pc) l = r /\ (pc < length l)%nat.
Proof.
  revert l; induction pc as [|pc IH]; intros l H.
  - cbn in H. subst l. cbn. repeat split. lia.
  - destruct l as [|y l]; [cbn in H; discriminate|]. cbn [skipn] in H.
    destruct (IH _ H) as (H1 & H2 & H3). cbn [nth_error length]. repeat split; auto. lia.
Qed.

Lemma nth_error_skipn {A} (pc : nat) (l : list A) x : nth_error l pc = Some x -> skipn pc l = x :: skipn (S pc) l.
Proof.
  revert l; induction pc as [|pc IH]; intros [|y l] H; try discriminate.
  - cbn in H. injection H as ->. reflexivity.
  - cbn [nth_error] in H. cbn [skipn]. rewrite (IH _ H). reflexivity.
Qed.

Lemma skipn_app_prefix {A} (pc : nat) (l a b : list A) : skipn pc l = a ++ b -> skipn (pc + length a) l = b.
Proof. intros H. rewrite skipn_add, H. apply skipn_app_exact. Qed.

Lemma skipn_prefix_len {A} (pc : nat) (l a b : list A) : skipn pc l = a ++ b -> (pc + length a <= length l)%nat \/ a = [].
Proof.
  intros H. assert (L : length (skipn pc l) = (length a + length b)%nat) by (rewrite H; apply app_length).
  rewrite skipn_length in L. destruct a; [now right|left]. cbn [length] in *. lia.
Qed.

Lemma slice_skipn {A} (a n : nat) (l : list A) : slice a (a + n) l = firstn n (skipn a l).
Proof. unfold slice. f_equal. lia. Qed.

Lemma firstn_exact_split {A} (n : nat) (l d : list A) : firstn n l = d -> length d = n -> l = d ++ skipn n l.
Proof. intros H _. rewrite <- H. symmetry. apply firstn_skipn. Qed.

(* ============================ the opcode tables ============================ *)
Definition is_single (o : N) : bool :=
  match sized_by_opcode sized_table o, var_by_opcode variable_table o with
  | None, None => true
  | _, _ => false
  end.

Lemma const_by_opcode_in t o d : const_by_opcode t o = Some d -> In (d, o) t.
Proof.
  induction t as [|[d' o'] r IH]; cbn [const_by_opcode]; [discriminate|].
  destruct (o =? o') eqn:E.
  - intros H; injection H as <-. apply N.eqb_eq in E. subst. now left.
  - intros H. right. auto.
Qed.
Lemma sized_by_opcode_in t o s : sized_by_opcode t o = Some s -> In (s, o) t.
Proof.
  induction t as [|[s' o'] r IH]; cbn [sized_by_opcode]; [discriminate|].
  destruct (o =? o') eqn:E.
  - intros H; injection H as <-. apply N.eqb_eq in E. subst. now left.
  - intros H. right. auto.
Qed.

Lemma const_data_short o d : const_by_opcode const_table o = Some d -> (length d <= 1)%nat.
Proof.
  intros H. apply const_by_opcode_in in H.
  pose proof (proj1 (forallb_forall _ _) const_len_le1 _ H) as K. cbn [fst] in K. now apply Nat.leb_le in K.
Qed.

Lemma sized_diag_ok : forallb (fun e : N * N => (fst e =? snd e) && (1 <=? fst e) && (fst e <=? 75)) sized_table = true.
Proof. vm_compute. reflexivity. Qed.
Lemma sized_opcode_fact o s : sized_by_opcode sized_table o = Some s -> s = o /\ 1 <= o <= 75.
Proof.
  intros H. apply sized_by_opcode_in in H.
  pose proof (proj1 (forallb_forall _ _) sized_diag_ok _ H) as K. cbn [fst snd] in K. lia.
Qed.
Lemma sized_opcode_small n : 1 <= n <= 75 ->
  const_by_opcode const_table n = None /\ sized_by_opcode sized_table n = Some n.
Proof.
  intros H. pose proof (sized_small n H) as S1. destruct (sized_fact n n S1) as (_ & _ & A & B). auto.
Qed.

(* the variable-size opcodes, concretely *)
Lemma var_opcode_fact o w ms : var_by_opcode variable_table o = Some (w, ms) ->
  (o = 76 /\ w = 1%nat /\ ms = 0) \/ (o = 77 /\ w = 2%nat /\ ms = 255) \/ (o = 78 /\ w = 4%nat /\ ms = 65535).
Proof.
  unfold variable_table. cbn [var_by_opcode].
  destruct (o =? 76) eqn:E1; [intros H; injection H as <- <-; left; lia|].
  destruct (o =? 77) eqn:E2; [intros H; injection H as <- <-; right; left; lia|].
  destruct (o =? 78) eqn:E3; [intros H; injection H as <- <-; right; right; lia|].
  discriminate.
Qed.
Lemma pushdata1_fact : const_by_opcode const_table 76 = None /\ sized_by_opcode sized_table 76 = None /\
  var_by_opcode variable_table 76 = Some (1%nat, 0).
Proof. repeat split; vm_compute; reflexivity. Qed.

Lemma single_above_78 : forallb (fun e : N * N => snd e <=? 78) sized_table = true /\
  forallb (fun e : N * N * nat * N => snd (fst (fst e)) <=? 78) variable_table = true.
Proof. split; vm_compute; reflexivity. Qed.
Lemma is_single_above o : 79 <= o -> is_single o = true.
Proof.
  intros H. unfold is_single.
  destruct (sized_by_opcode sized_table o) as [s|] eqn:E1.
  { apply sized_opcode_fact in E1. lia. }
  destruct (var_by_opcode variable_table o) as [[w ms]|] eqn:E2; [|reflexivity].
  apply var_opcode_fact in E2. lia.
Qed.

(* ============================ get_opcode, one instruction at a time ============================ *)
Lemma get_opcode_head s pc m o d pc' ok : btc_get_opcode s pc m = Ret (o, d, pc', ok) ->
  exists b, nth_error s pc = Some b /\ o = b2n b.
Proof.
  unfold btc_get_opcode, get_opcode. destruct (nth_error s pc) as [b|]; [|discriminate].
  intros H. exists b. split; [reflexivity|].
  destruct (const_by_opcode const_table (b2n b)); [now injection H|].
  destruct (sized_by_opcode sized_table (b2n b)).
  { repeat match type of H with (if ?c then _ else _) = _ => destruct c end; try discriminate; now injection H. }
  destruct (var_by_opcode variable_table (b2n b)) as [[w ms]|]; [|now injection H].
  repeat match type of H with (if ?c then _ else _) = _ => destruct c end; try discriminate; now injection H.
Qed.

Lemma get_opcode_pc_lt s pc m o d pc' ok : btc_get_opcode s pc m = Ret (o, d, pc', ok) -> (pc < pc')%nat.
Proof.
  unfold btc_get_opcode, get_opcode. destruct (nth_error s pc) as [b|]; [|discriminate].
  destruct (const_by_opcode const_table (b2n b)); [intros H; injection H; lia|].
  destruct (sized_by_opcode sized_table (b2n b)).
  { intros H. repeat match type of H with (if ?c then _ else _) = _ => destruct c end; try discriminate; injection H; lia. }
  destruct (var_by_opcode variable_table (b2n b)) as [[w ms]|]; [|intros H; injection H; lia].
  intros H. repeat match type of H with (if ?c then _ else _) = _ => destruct c end; try discriminate; injection H; lia.
Qed.

(* the only exceptions: ScriptError (non-minimal push) and IndexError (pc beyond the end); never OutOfFuel *)
Lemma get_opcode_raises s pc m e : btc_get_opcode s pc m = Raise e ->
  e = E_SCRIPT \/ (e = E_INDEX /\ (length s <= pc)%nat).
Proof.
  unfold btc_get_opcode, get_opcode. destruct (nth_error s pc) as [b|] eqn:N.
  - destruct (const_by_opcode const_table (b2n b)); [discriminate|].
    destruct (sized_by_opcode sized_table (b2n b)).
    { intros H. repeat match type of H with (if ?c then _ else _) = _ => destruct c end; try discriminate. injection H as <-; auto. }
    destruct (var_by_opcode variable_table (b2n b)) as [[w ms]|]; [|discriminate].
    intros H. repeat match type of H with (if ?c then _ else _) = _ => destruct c end; try discriminate. injection H as <-; auto.
  - intros H. injection H as <-. right. split; [reflexivity|]. now apply nth_error_None.
Qed.
Lemma get_opcode_fuel s pc m : btc_get_opcode s pc m <> OutOfFuel.
Proof.
  unfold btc_get_opcode, get_opcode. destruct (nth_error s pc) as [b|]; [|discriminate].
  destruct (const_by_opcode const_table (b2n b)); [discriminate|].
  destruct (sized_by_opcode sized_table (b2n b)).
  { repeat match goal with |- (if ?c then _ else _) <> _ => destruct c end; discriminate. }
  destruct (var_by_opcode variable_table (b2n b)) as [[w ms]|]; [|discriminate].
  repeat match goal with |- (if ?c then _ else _) <> _ => destruct c end; discriminate.
Qed.

(* G1: a one-byte instruction *)
Lemma get_opcode_single s pc m b : nth_error s pc = Some b -> is_single (b2n b) = true ->
  btc_get_opcode s pc m = Ret (b2n b, const_by_opcode const_table (b2n b), S pc, true).
Proof.
  intros N S1. unfold is_single in S1. unfold btc_get_opcode, get_opcode. rewrite N.
  destruct (sized_by_opcode sized_table (b2n b)); [discriminate|].
  destruct (var_by_opcode variable_table (b2n b)); [discriminate|].
  rewrite Nat.add_1_r. destruct (const_by_opcode const_table (b2n b)); reflexivity.
Qed.
Lemma get_opcode_single_inv s pc m o d pc' ok : btc_get_opcode s pc m = Ret (o, d, pc', ok) -> is_single o = true ->
  nth_error s pc = Some (n2b o) /\ o < 256 /\ d = const_by_opcode const_table o /\ pc' = S pc.
Proof.
  intros H S1. destruct (get_opcode_head _ _ _ _ _ _ _ H) as (b & N & ->).
  rewrite (get_opcode_single s pc m b N S1) in H. injection H as <- <- _.
  rewrite n2b_b2n. repeat split; auto. apply b2n_lt.
Qed.

(* G2: a minimal push of 2..255 bytes, read at pc *)
Lemma spec_push_direct d : (2 <= length d <= 75)%nat -> spec_push d = n2b (N.of_nat (length d)) :: d.
Proof.
  intros H. destruct d as [|a [|b r]]; try (cbn [length] in H; lia).
  unfold spec_push. replace (N.of_nat (length (a :: b :: r)) <=? 75) with true by lia. reflexivity.
Qed.
Lemma spec_push_pushdata1 d : (76 <= length d <= 255)%nat -> spec_push d = x4c :: n2b (N.of_nat (length d)) :: d.
Proof.
  intros H. destruct d as [|a [|b r]]; try (cbn [length] in H; lia).
  unfold spec_push. replace (N.of_nat (length (a :: b :: r)) <=? 75) with false by lia.
  replace (N.of_nat (length (a :: b :: r)) <=? 255) with true by lia. reflexivity.
Qed.
Lemma spec_push_length d : (2 <= length d <= 255)%nat ->
  length (spec_push d) = (if (length d <=? 75)%nat then 1 + length d else 2 + length d)%nat.
Proof.
  intros H. destruct (length d <=? 75)%nat eqn:E.
  - rewrite spec_push_direct by lia. reflexivity.
  - rewrite spec_push_pushdata1 by lia. reflexivity.
Qed.

Lemma get_opcode_push s pc d post : (2 <= length d <= 255)%nat -> skipn pc s = spec_push d ++ post ->
  exists o, btc_get_opcode s pc true = Ret (o, Some d, (pc + length (spec_push d))%nat, true).
Proof.
  intros L H. destruct (length d <=? 75)%nat eqn:E.
  - (* direct push *)
    rewrite spec_push_direct in * by lia. set (n := N.of_nat (length d)) in *.
    cbn [app] in H. destruct (skipn_hd _ _ _ _ H) as (N1 & T & _).
    destruct (sized_opcode_small n ltac:(lia)) as [C1 S1].
    exists n. unfold btc_get_opcode, get_opcode. rewrite N1, b2n_n2b by lia. rewrite C1, S1.
    replace (N.to_nat n) with (length d) by lia.
    rewrite Nat.add_1_r, slice_skipn, T, firstn_app_exact, Nat.ltb_irrefl.
    unfold is_const_value. rewrite const_none_long by lia. rewrite andb_false_r. cbn [length].
    replace (pc + S (length d))%nat with (S pc + length d)%nat by lia. reflexivity.
  - rewrite spec_push_pushdata1 in * by lia. set (n := N.of_nat (length d)) in *.
    cbn [app] in H. destruct (skipn_hd _ _ _ _ H) as (N1 & T & _).
    destruct (skipn_hd _ _ _ _ T) as (N2 & T2 & _).
    destruct pushdata1_fact as (C1 & S1 & V1).
    exists 76. unfold btc_get_opcode, get_opcode. rewrite N1.
    change (b2n x4c) with 76. rewrite C1, S1, V1.
    rewrite Nat.add_1_r, slice_skipn, T. cbn [firstn length]. rewrite Nat.ltb_irrefl.
    cbn [le_decode]. rewrite b2n_n2b by lia. replace (n + 256 * 0) with n by lia.
    assert (LEN : (length s - (S pc + 1) = length d + length post)%nat).
    { pose proof (f_equal (@length _) T2) as Q. rewrite skipn_length, app_length in Q. lia. }
    replace (N.of_nat (length s - (S pc + 1)) <? n) with false by lia.
    replace (N.to_nat n) with (length d) by lia.
    replace (S pc + 1)%nat with (S (S pc)) by lia.
    rewrite slice_skipn, T2, firstn_app_exact, Nat.ltb_irrefl.
    unfold is_sized_value. rewrite sized_large by lia. replace (n <=? 0) with false by lia.
    cbn [orb andb length]. replace (pc + S (S (length d)))%nat with (S (S pc) + length d)%nat by lia. reflexivity.
Qed.

Lemma firstn_len_split {A} (n : nat) (l : list A) : (length (firstn n l) <? n)%nat = false -> l = firstn n l ++ skipn n l /\ length (firstn n l) = n.
Proof.
  intros H. split; [symmetry; apply firstn_skipn|]. apply Nat.ltb_ge in H.
  pose proof (firstn_le_length n l). lia.
Qed.

(* G2': what was read as data of 2..255 bytes under the minimal-push rule is exactly the minimal push *)
Lemma get_opcode_push_inv s pc o d pc' ok : btc_get_opcode s pc true = Ret (o, Some d, pc', ok) ->
  (2 <= length d <= 255)%nat ->
  skipn pc s = spec_push d ++ skipn pc' s /\ pc' = (pc + length (spec_push d))%nat.
Proof.
  intros H L. unfold btc_get_opcode, get_opcode in H.
  destruct (nth_error s pc) as [b|] eqn:N1; [|discriminate].
  pose proof (nth_error_skipn _ _ _ N1) as SK.
  destruct (const_by_opcode const_table (b2n b)) as [d'|] eqn:C1.
  { injection H as _ <- _ _. apply const_data_short in C1. lia. }
  destruct (sized_by_opcode sized_table (b2n b)) as [size|] eqn:S1.
  - destruct (sized_opcode_fact _ _ S1) as [-> R].
    rewrite Nat.add_1_r, slice_skipn in H.
    destruct (length (firstn (N.to_nat (b2n b)) (skipn (S pc) s)) <? N.to_nat (b2n b))%nat eqn:E; [discriminate|].
    destruct (firstn_len_split _ _ E) as [SP LN].
    match type of H with (if ?c then _ else _) = _ => destruct c end; [discriminate|].
    injection H as _ <- <- _.
    rewrite spec_push_direct by lia. rewrite LN. rewrite N2N.id, n2b_b2n.
    split; [|cbn [length]; lia].
    rewrite SK. cbn [app]. f_equal.
    replace (S pc + N.to_nat (b2n b))%nat with (S pc + N.to_nat (b2n b))%nat by lia.
    rewrite skipn_add. exact SP.
  - destruct (var_by_opcode variable_table (b2n b)) as [[w ms]|] eqn:V1; [|discriminate].
    rewrite Nat.add_1_r, slice_skipn in H.
    destruct (length (firstn w (skipn (S pc) s)) <? w)%nat eqn:E; [discriminate|].
    destruct (firstn_len_split _ _ E) as [SP LN].
    set (lenb := firstn w (skipn (S pc) s)) in *.
    destruct (N.of_nat (length s - (S pc + w)) <? le_decode lenb) eqn:E2; [discriminate|].
    rewrite slice_skipn in H.
    destruct (length (firstn (N.to_nat (le_decode lenb)) (skipn (S pc + w) s)) <? N.to_nat (le_decode lenb))%nat eqn:E3; [discriminate|].
    destruct (firstn_len_split _ _ E3) as [SP2 LN2].
    destruct (is_sized_value sized_table (le_decode lenb) || (le_decode lenb <=? ms)) eqn:E4; [discriminate|].
    cbn [andb] in H. injection H as _ <- <- _.
    apply orb_false_iff in E4. destruct E4 as [_ E4].
    destruct (var_opcode_fact _ _ _ V1) as [(Ho & -> & ->)|[(Ho & -> & ->)|(Ho & -> & ->)]]; try lia.
    (* PUSHDATA1 *)
    assert (Hb : b = x4c) by (apply b2n_inj; rewrite Ho; reflexivity).
    destruct lenb as [|c [|? ?]] eqn:EL; cbn [length] in LN; try lia.
    cbn [le_decode] in *. replace (b2n c + 256 * 0) with (b2n c) in * by lia.
    rewrite spec_push_pushdata1 by lia. rewrite LN2, N2N.id, n2b_b2n.
    split; [|cbn [length]; lia].
    rewrite SK, Hb. cbn [app]. f_equal. rewrite SP. cbn [app]. f_equal.
    rewrite SP2 at 1. f_equal.
    replace (S pc + 1 + N.to_nat (b2n c))%nat with (S pc + (1 + N.to_nat (b2n c)))%nat by lia.
    rewrite (skipn_add (S pc)), (skipn_add 1). rewrite <- (skipn_add (S pc) 1). reflexivity.
Qed.
