(* Proofs/AgreeSig.v — C03 agreement, families (9) and (10): OP_CHECKSIG, OP_CHECKSIGVERIFY, OP_CHECKMULTISIG,
   OP_CHECKMULTISIGVERIFY.  pycoin parses every signature once and walks `while len(sigs) < len(keys)`; Core
   re-checks the encodings at every (signature, key) pair of its single loop: both visit the same pairs in the same
   order, raise for the same blobs, and ask the oracle the same questions, PROVIDED
   (H1)  under SV_BASE the WITNESS_PUBKEYTYPE flag is clear,
   (H2)  one of DERSIG / LOW_S / STRICTENC is set, OR the oracle rejects what pycoin's lax DER reader rejects,
   (fad) under SV_BASE the script code pycoin hashes (pushes of all signature blobs deleted, bottom first) is the
         one Core hashes (top first): `fad_ok tail`, part of the invariant Inv_sig; it is proved in
         Proofs/AgreeFad.v for every decodable script code and needs every blob shorter than 2^32 bytes.
         (Before /repo commit 2ba5b6d pycoin deleted the MINIMAL push: a real deviation, reported.) *)
From Coq Require Import Lia ZifyBool ZifyNat ZifyN.
From PV Require Import Base.Bytes Base.Outcome Gen.GenOpcodes Gen.GenFlags.
From PV Require Import Model.ScriptNum Model.Push Model.CondStack Model.Der Spec.CondStackCore Proofs.CondStackP.
From PV Require Import Spec.VMTypes Model.VMpy Spec.VMcore Proofs.VMpyP Proofs.AgreeBase Proofs.AgreeSigEnc.
Local Open Scope N_scope.

Definition item_ok (b : bytes) : Prop := N.of_nat (length b) < 2 ^ 32.

(* Core's script code for a batch of signatures (top of stack first) *)
Definition core_code (sv : sigversion) (sigs : list bytes) (tail : bytes) : bytes :=
  match sv with
  | SV_BASE => fold_left (fun c sg => find_and_delete (push_encode sg) c) sigs tail
  | SV_WITNESS_V0 => tail
  end.

(* the script-code equality (C04's subject) for one script code `tail` = the script from the last executed
   OP_CODESEPARATOR on; proved for every decodable tail in Proofs/AgreeFad.v *)
Definition fad_ok (tail : bytes) : Prop :=
  forall sigs, Forall item_ok sigs ->
  delete_signatures tail (rev sigs) = Ret (core_code SV_BASE sigs tail).

Lemma Forall_firstn {A} (P : A -> Prop) n : forall l, Forall P l -> Forall P (firstn n l).
Proof. induction n; intros l H; destruct l; cbn; auto. inversion H; subst. constructor; auto. Qed.
Lemma Forall_skipn {A} (P : A -> Prop) n : forall l, Forall P l -> Forall P (skipn n l).
Proof. induction n; intros l H; destruct l; cbn; auto. inversion H; subst. auto. Qed.

Section Sig.
Variable o : oracles.
Variable flags : N.
Variable sv : sigversion.
Variable ctx : txctx.
Variable script : bytes.
Hypothesis H1w : sv = SV_BASE -> flag_set flags VERIFY_WITNESS_PUBKEYTYPE = false.
Hypothesis H2 : strict flags = true \/ lax_contract o sv.

Notation abs := (abs script).
Notation hres := (hres script).
Notation handler := (handler o flags sv ctx script).
Notation exec_op := (exec_op o flags sv ctx).
Notation parse := (parse_and_check_signature_blob o flags).
Notation enc := (check_signature_encoding (o_order o) flags).

(* a parsed signature is asked about exactly when Core's CheckSig would not say false by itself *)
Lemma sp_run sp sig : parse sig = VOk sp ->
  enc sig = COk tt /\
  forall key code, match sp with None => false | Some _ => o_checksig o sig key code sv end = run_checksig o sig key code sv.
Proof.
  intros Hp. destruct sig as [|b0 tl].
  { cbn in Hp. injection Hp as <-. split; reflexivity. }
  pose proof (parse_agree o flags (b0 :: tl) ltac:(discriminate)) as H. rewrite Hp in H.
  destruct (enc (b0 :: tl)) as [[]|e|]; try (destruct sp; contradiction).
  split; [reflexivity|]. intros key code. cbn [run_checksig]. destruct sp as [rs|]; [reflexivity|].
  destruct H as [Hst Hlax]. destruct H2 as [Hs|Hc]; [congruence|]. symmetry. apply Hc. exact Hlax.
Qed.

Lemma parse_fail sig : parse sig = VFail -> exists e, enc sig = CErr e.
Proof.
  intros Hp. destruct sig as [|b0 tl]; [discriminate|].
  pose proof (parse_agree o flags (b0 :: tl) ltac:(discriminate)) as H. rewrite Hp in H.
  destruct (enc (b0 :: tl)) as [[]|e|]; try contradiction. eauto.
Qed.

Lemma parse_clean sig : match parse sig with VOk _ | VFail => True | _ => False end.
Proof.
  destruct sig as [|b0 tl]; [exact I|].
  pose proof (parse_agree o flags (b0 :: tl) ltac:(discriminate)) as H.
  destruct (parse (b0 :: tl)) as [sp| |e|]; auto; destruct (enc (b0 :: tl)); contradiction.
Qed.

(* ---- the matching loops ------------------------------------------------------------------------------------------ *)
Section Loop.
Variable anb : bool.        (* NULLFAIL and some signature of the batch is not empty *)
Variable code : bytes.      (* the script code, the same on both sides *)

Definition outer' (sp : option (Z * Z)) (sig : bytes) (sigs' keys : list bytes) : vres bool :=
  vbind (checksigs_inner o flags sv sp sig (length sigs') keys (Ret code))
        (fun r => match r with
                  | Some keys' => checksigs_outer o flags sv sigs' keys' anb (Ret code)
                  | None => if anb then VFail else VOk false
                  end).

Definition R (py : vres bool) (core : cres bool) : Prop :=
  match py, core with
  | VOk true, COk true => True
  | VOk false, COk false => anb = false
  | VFail, COk false => anb = true
  | VFail, CErr _ => True
  | _, _ => False
  end.

Lemma loop_agree keys :
  (forall sigs, (length sigs <= length keys)%nat ->
     R (checksigs_outer o flags sv sigs keys anb (Ret code)) (cms_loop o flags sv code sigs keys)) /\
  (forall sp sig sigs', parse sig = VOk sp -> (length sigs' < length keys)%nat ->
     R (outer' sp sig sigs' keys) (cms_loop o flags sv code (sig :: sigs') keys)).
Proof.
  induction keys as [|key keys' [IHA IHB]].
  - split.
    + intros sigs H. destruct sigs; [exact I|cbn in H; lia].
    + intros sp sig sigs' _ H. cbn in H. lia.
  - assert (B : forall sp sig sigs', parse sig = VOk sp -> (length sigs' < length (key :: keys'))%nat ->
               R (outer' sp sig sigs' (key :: keys')) (cms_loop o flags sv code (sig :: sigs') (key :: keys'))).
    { intros sp sig sigs' Hsp Hlen. destruct (sp_run sp sig Hsp) as [Henc Hrun].
      cbn [cms_loop]. rewrite Henc. cbn [cbind].
      destruct (core_pk flags sv H1w key) as [e He]. rewrite He.
      unfold outer'. cbn [checksigs_inner].
      replace (length sigs' <? length (key :: keys'))%nat with true by lia.
      rewrite (checksig_pk o flags sv H1w). destruct (pk_ok flags key); [|exact I].
      cbn [cbind].
      assert (Eok : match sp with
                    | None => VOk false
                    | Some _ => vbind (lift (Ret code)) (fun c => VOk (o_checksig o sig key c sv))
                    end = VOk (run_checksig o sig key code sv)).
      { rewrite <- (Hrun key code). destruct sp; reflexivity. }
      rewrite Eok. cbn [vbind].
      destruct (run_checksig o sig key code sv).
      + cbn [vbind]. cbn [length] in Hlen. replace (length keys' <? length sigs')%nat with false by lia.
        apply IHA. lia.
      + cbn [length] in *.
        destruct (Nat.ltb_spec (length keys') (S (length sigs'))) as [Hk|Hk].
        * assert (En : checksigs_inner o flags sv sp sig (length sigs') keys' (Ret code) = VOk None).
          { destruct keys' as [|k2 ks]; [reflexivity|]. cbn [checksigs_inner].
            replace (length sigs' <? length (k2 :: ks))%nat with false by (cbn [length] in *; lia). reflexivity. }
          rewrite En. cbn [vbind]. destruct anb eqn:Ea; cbn; exact Ea.
        * apply (IHB sp sig sigs' Hsp). lia. }
    split; [|exact B].
    intros sigs Hlen. destruct sigs as [|sig sigs']; [exact I|].
    cbn [checksigs_outer]. pose proof (parse_clean sig) as Hc.
    destruct (parse sig) as [sp| |e|] eqn:Ep; try contradiction.
    + cbn [vbind]. apply (B sp sig sigs' Ep). cbn [length] in *. lia.
    + destruct (parse_fail sig Ep) as [e He]. cbn [vbind cms_loop]. rewrite He. exact I.
Qed.

End Loop.

(* ---- checksigs ---------------------------------------------------------------------------------------------------- *)
Lemma code_agree s sigs : (sv = SV_BASE -> fad_ok (skipn (st_bch s) script)) -> (sv = SV_BASE -> Forall item_ok sigs) ->
  script_code_for sv script s (rev sigs) = Ret (core_code sv sigs (skipn (st_bch s) script)).
Proof.
  intros Hfad Hi. unfold script_code_for, core_code. destruct sv eqn:Esv; [|reflexivity].
  apply (Hfad eq_refl). apply Hi. reflexivity.
Qed.

Lemma nonblank_eq sigs :
  existsb (fun b : bytes => (0 <? length b)%nat) sigs = existsb (fun sg => negb (len sg =? 0)) sigs.
Proof.
  induction sigs as [|sg r IH]; [reflexivity|]. cbn [existsb]. rewrite IH. f_equal. unfold len.
  destruct (Nat.ltb_spec 0 (length sg)); destruct (N.eqb_spec (N.of_nat (length sg)) 0); cbn; lia.
Qed.

Lemma checksigs_agree s sigs keys : (length sigs <= length keys)%nat ->
  (sv = SV_BASE -> fad_ok (skipn (st_bch s) script)) -> (sv = SV_BASE -> Forall item_ok sigs) ->
  let code := core_code sv sigs (skipn (st_bch s) script) in
  let anb := flag_set flags VERIFY_NULLFAIL && existsb (fun sg => negb (len sg =? 0)) sigs in
  match checksigs o flags sv script s sigs keys, cms_loop o flags sv code sigs keys with
  | VOk s', COk ok => s' = vm_append (bool_vec ok) s /\ (ok = false -> anb = false)
  | VFail, COk false => anb = true
  | VFail, CErr _ => True
  | _, _ => False
  end.
Proof.
  intros Hlen Hfad Hi code anb. unfold checksigs. rewrite (code_agree s sigs Hfad Hi). fold code.
  unfold VMpy.flag. rewrite nonblank_eq. fold anb.
  pose proof (proj1 (loop_agree anb code keys) sigs Hlen) as H. unfold R in H.
  destruct (checksigs_outer o flags sv sigs keys anb (Ret code)) as [[|]| |e|],
           (cms_loop o flags sv code sigs keys) as [[|]|e2|]; cbn [vbind]; try contradiction; auto; split; [reflexivity|discriminate].
Qed.

Lemma cms_single code sig key :
  cms_loop o flags sv code [sig] [key] =
  cbind (enc sig) (fun _ => cbind (check_pubkey_encoding flags sv key) (fun _ => COk (run_checksig o sig key code sv))).
Proof.
  cbn [cms_loop]. destruct (enc sig); cbn [cbind]; try reflexivity.
  destruct (check_pubkey_encoding flags sv key); cbn [cbind]; try reflexivity.
  destruct (run_checksig o sig key code sv); reflexivity.
Qed.

Lemma cast_bool_vec b : cast_to_bool (bool_vec b) = b.
Proof. destruct b; reflexivity. Qed.

Definition Inv_sig (stk alt : list bytes) (tail : bytes) : Prop :=
  sv = SV_BASE -> Forall item_ok stk /\ Forall item_ok alt /\ N.of_nat (length stk) < 2 ^ 32 /\ fad_ok tail.

Notation hres_nf := (hres_nf script).

(* family (9) *)
Lemma agree_checksig (verify : bool) s vf rest fx : Inv_sig (st_stack s) (st_alt s) (skipn (st_bch s) script) ->
  hres_nf s vf (handler (if verify then KCheckSigVerify else KCheckSig) s)
             (exec_op (if verify then xad else xac) rest fx (abs s vf)).
Proof.
  intros HI.
  assert (E : exec_op (if verify then xad else xac) rest fx (abs s vf) = op_checksig o flags sv verify (abs s vf))
    by (destruct verify; reflexivity).
  rewrite E. clear E.
  assert (E : handler (if verify then KCheckSigVerify else KCheckSig) s =
              if verify then vbind (do_OP_CHECKSIG o flags sv script s) pop_verify else do_OP_CHECKSIG o flags sv script s)
    by (destruct verify; reflexivity).
  rewrite E. clear E.
  unfold do_OP_CHECKSIG, op_checksig. destruct s as [pc stk alt cond opc bch].
  cbn [AgreeBase.abs e_stack e_bch st_stack st_bch st_alt] in *.
  destruct stk as [|key [|sig r]]; [destruct verify; exact I|destruct verify; exact I|].
  unfold vm_pop, VMpy.set_stack. cbn [st_stack st_pc st_alt st_cond st_opc st_bch vbind].
  set (s2 := mkst pc r alt cond opc bch).
  assert (Hi : sv = SV_BASE -> Forall item_ok [sig]).
  { intros Eb. destruct (HI Eb) as (Hs & _). inversion Hs as [|? ? _ Hs']. inversion Hs'; subst. constructor; auto. }
  assert (Hfad : sv = SV_BASE -> fad_ok (skipn (st_bch s2) script)) by (intros Eb; apply (HI Eb)).
  pose proof (checksigs_agree s2 [sig] [key] ltac:(cbn; lia) Hfad Hi) as H. cbv zeta in H.
  rewrite cms_single in H.
  change (core_code sv [sig] (skipn (st_bch s2) script))
    with (match sv with SV_BASE => find_and_delete (push_encode sig) (skipn bch script) | SV_WITNESS_V0 => skipn bch script end) in H.
  set (code := match sv with SV_BASE => find_and_delete (push_encode sig) (skipn bch script) | SV_WITNESS_V0 => skipn bch script end) in *.
  cbn [existsb] in H. rewrite orb_false_r in H.
  destruct (enc sig) as [[]|e|]; cbn [cbind] in *.
  2: { destruct (checksigs o flags sv script s2 [sig] [key]); try contradiction; destruct verify; exact I. }
  2: { destruct (checksigs o flags sv script s2 [sig] [key]); contradiction. }
  destruct (check_pubkey_encoding flags sv key) as [[]|e|]; cbn [cbind] in *.
  2: { destruct (checksigs o flags sv script s2 [sig] [key]); try contradiction; destruct verify; exact I. }
  2: { destruct (checksigs o flags sv script s2 [sig] [key]); contradiction. }
  destruct (run_checksig o sig key code sv) eqn:Eok; cbn [negb andb].
  - (* the signature verifies *)
    destruct (checksigs o flags sv script s2 [sig] [key]) as [s'| |e|]; try contradiction.
    destruct H as [-> _]. destruct verify; cbn [vbind].
    + rewrite pop_verify_eq. cbn. repeat split; reflexivity.
    + cbn. repeat split; reflexivity.
  - destruct (checksigs o flags sv script s2 [sig] [key]) as [s'| |e|]; try contradiction.
    + destruct H as [-> Hn]. rewrite (Hn eq_refl). destruct verify; cbn [vbind].
      * rewrite pop_verify_eq. cbn. exact I.
      * cbn. repeat split; reflexivity.
    + rewrite H. destruct verify; exact I.
Qed.

(* ---- family (10) -------------------------------------------------------------------------------------------------- *)
Lemma vm_pop_n_eq n : forall s,
  vm_pop_n n s = if (n <=? length (st_stack s))%nat
                 then VOk (firstn n (st_stack s), VMpy.set_stack s (skipn n (st_stack s))) else VFail.
Proof.
  induction n as [|n IH]; intros [pc stk alt cond opc bch]; cbn [vm_pop_n st_stack].
  - reflexivity.
  - unfold vm_pop. cbn [st_stack]. destruct stk as [|x r]; [reflexivity|]. cbn [vbind].
    rewrite IH. unfold VMpy.set_stack. cbn [st_stack st_pc st_alt st_cond st_opc st_bch length].
    destruct (Nat.leb_spec n (length r)); destruct (Nat.leb_spec (S n) (S (length r))); try lia; reflexivity.
Qed.

Lemma empty_eqb d : bytes_eqb d [] = (len d =? 0).
Proof. destruct d; reflexivity. Qed.

(* do_OP_CHECKMULTISIG after the key count has been read and range-checked, against the rest of Core's arm *)
Definition cms_rel (vf : list bool) (cond : cstate) (opc' : Z) (py : vres vmstate) (core : cres est) : Prop :=
  match py, core with
  | VOk s6, COk c' => c' = abs s6 vf /\ st_cond s6 = cond /\ st_opc s6 = opc'
  | VFail, CErr _ => True
  | _, _ => False
  end.

Lemma agree_cms (verify : bool) s vf rest fx :
  cond_rel (st_cond s) vf -> Inv_sig (st_stack s) (st_alt s) (skipn (st_bch s) script) -> (0 <= st_opc s)%Z ->
  hres s (handler (if verify then KCheckMultiSigVerify else KCheckMultiSig) s)
         (exec_op (if verify then xaf else xae) rest fx (abs s vf)).
Proof.
  intros Rc HI Hopc.
  assert (E : exec_op (if verify then xaf else xae) rest fx (abs s vf)
              = op_checkmultisig o flags sv (flag_set flags VERIFY_MINIMALDATA) verify (abs s vf))
    by (destruct verify; reflexivity).
  rewrite E. clear E.
  assert (E : handler (if verify then KCheckMultiSigVerify else KCheckMultiSig) s =
              vbind (do_OP_CHECKMULTISIG o flags sv script s) (fun s' => if verify then pop_verify s' else VOk s')).
  { destruct verify; cbn [VMpy.handler]; [reflexivity|].
    destruct (do_OP_CHECKMULTISIG o flags sv script s); reflexivity. }
  rewrite E. clear E.
  unfold do_OP_CHECKMULTISIG, op_checkmultisig. destruct s as [pc stk alt cond opc bch].
  cbn [AgreeBase.abs e_stack e_bch e_opc st_stack st_bch st_alt st_cond st_opc] in *.
  rewrite vm_pop_int_eq. cbn [st_stack]. change (N.of_nat 4) with 4.
  destruct stk as [|kc s1]; [exact I|].
  destruct (script_num (flag_set flags VERIFY_MINIMALDATA) 4 kc) as [nk|e|] eqn:Enk;
    [| |exfalso; exact (nf_script_num _ _ _ Enk)]; cbn [to_vres vbind cbind]; [|exact I].
  unfold MAX_PUBKEYS_PER_MULTISIG.
  destruct ((nk <? 0)%Z || (20 <? nk)%Z) eqn:Erange; [exact I|].
  cbv zeta.
  match goal with
  | |- AgreeBase.hres _ _ ?py (if ?c then _ else ?core) =>
    assert (Hrest : cms_rel vf cond (opc + nk)%Z py core); [|set (PY := py) in *; set (CORE := core) in *]
  end.
  2: { unfold MAX_OPS_PER_SCRIPT, MAX_OP_COUNT.
       destruct (N.ltb_spec 201 (Z.to_N opc + Z.to_N nk)) as [Hc|Hc].
       - unfold cms_rel in Hrest. destruct PY as [s6| |e|], CORE as [c'|e2|]; try contradiction; cbn; auto.
         destruct Hrest as (_ & _ & ->). lia.
       - unfold cms_rel in Hrest. destruct PY as [s6| |e|], CORE as [c'|e2|]; try contradiction; cbn; auto.
         destruct Hrest as (-> & Hcd & Ho). exists vf. rewrite Hcd, Ho. cbn [st_cond st_opc]. repeat split; auto; lia. }
  (* the rest, lock-step *)
  unfold VMpy.set_stack at 1. cbn [st_pc st_stack st_alt st_cond st_opc st_bch].
  rewrite vm_pop_n_eq. cbn [st_stack].
  set (nkeys := Z.to_nat nk).
  destruct (Nat.leb_spec nkeys (length s1)) as [Hk|Hk].
  2: { replace (length s1 <? nkeys + 1)%nat with true by lia. exact I. }
  cbn [vbind]. rewrite vm_pop_int_eq. unfold VMpy.set_stack at 1. cbn [st_pc st_stack st_alt st_cond st_opc st_bch].
  change (N.of_nat 4) with 4.
  destruct (skipn nkeys s1) as [|sc s3] eqn:Esk.
  { destruct (length s1 <? nkeys + 1)%nat; exact I. }
  assert (Hl1 : (length s1 = nkeys + S (length s3))%nat).
  { pose proof (skipn_length nkeys s1) as K. rewrite Esk in K. cbn [length] in K. lia. }
  replace (length s1 <? nkeys + 1)%nat with false by lia.
  destruct (script_num (flag_set flags VERIFY_MINIMALDATA) 4 sc) as [ns|e|] eqn:Ens;
    [| |exfalso; exact (nf_script_num _ _ _ Ens)]; cbn [to_vres vbind cbind]; [|exact I].
  destruct ((ns <? 0)%Z || (nk <? ns)%Z) eqn:Erange2; [exact I|].
  unfold VMpy.set_stack at 1. cbn [st_pc st_stack st_alt st_cond st_opc st_bch].
  rewrite vm_pop_n_eq. cbn [st_stack].
  set (nsigs := Z.to_nat ns).
  destruct (Nat.leb_spec nsigs (length s3)) as [Hs|Hs].
  2: { replace (length s3 <? nsigs + 1)%nat with true by lia. exact I. }
  cbn [vbind]. unfold vm_pop, VMpy.set_stack at 1 2. cbn [st_pc st_stack st_alt st_cond st_opc st_bch].
  destruct (skipn nsigs s3) as [|dummy r] eqn:Esk2.
  { destruct (length s3 <? nsigs + 1)%nat; [exact I|].
    destruct (cms_loop _ _ _ _ _ _) as [a|e|] eqn:Ecl; [| |exfalso; exact (nf_cms_loop _ _ _ _ _ _ Ecl)];
      cbn [cbind]; try exact I.
    destruct (negb a && _ && _); exact I. }
  assert (Hl3 : (length s3 = nsigs + S (length r))%nat).
  { pose proof (skipn_length nsigs s3) as K. rewrite Esk2 in K. cbn [length] in K. lia. }
  replace (length s3 <? nsigs + 1)%nat with false by lia.
  cbn [vbind]. unfold VMpy.set_stack. cbn [st_pc st_stack st_alt st_cond st_opc st_bch].
  set (keys := firstn nkeys s1). set (sigs := firstn nsigs s3).
  set (s5 := mkst pc r alt cond opc bch).
  assert (Hi : sv = SV_BASE -> Forall item_ok sigs).
  { intros Eb. destruct (HI Eb) as (Hst & _). inversion Hst as [|? ? _ Hs1]; subst.
    apply Forall_firstn. pose proof (Forall_skipn item_ok nkeys _ Hs1) as K. rewrite Esk in K. inversion K; assumption. }
  assert (Hlen : (length sigs <= length keys)%nat).
  { unfold sigs, keys. rewrite !firstn_length. unfold nsigs, nkeys in *. lia. }
  assert (Hfad : sv = SV_BASE -> fad_ok (skipn (st_bch s5) script)) by (intros Eb; apply (HI Eb)).
  pose proof (checksigs_agree s5 sigs keys Hlen Hfad Hi) as H. cbv zeta in H.
  change (skipn (st_bch s5) script) with (skipn bch script) in H.
  change (match sv with
          | SV_BASE => fold_left (fun c sg => find_and_delete (push_encode sg) c) sigs (skipn bch script)
          | SV_WITNESS_V0 => skipn bch script
          end) with (core_code sv sigs (skipn bch script)).
  set (code := core_code sv sigs (skipn bch script)) in *.
  set (anb := flag_set flags VERIFY_NULLFAIL && existsb (fun sg => negb (len sg =? 0)) sigs) in *.
  unfold VMpy.flag. rewrite empty_eqb.
  destruct (flag_set flags VERIFY_NULLDUMMY && negb (len dummy =? 0)) eqn:Edum.
  { destruct (cms_loop o flags sv code sigs keys) as [a|e|] eqn:Ecl; [| |exfalso; exact (nf_cms_loop _ _ _ _ _ _ Ecl)];
      cbn [cbind]; try exact I.
    destruct (negb a && _ && _); exact I. }
  destruct (checksigs o flags sv script s5 sigs keys) as [s6| |e|],
           (cms_loop o flags sv code sigs keys) as [ok|e2|]; try contradiction; cbn [vbind cbind].
  - destruct H as [-> Hn].
    assert (Enf : negb ok && flag_set flags VERIFY_NULLFAIL && existsb (fun sg => negb (len sg =? 0)) sigs = false).
    { rewrite <- andb_assoc. fold anb. destruct ok; [reflexivity|]. rewrite (Hn eq_refl). reflexivity. }
    rewrite Enf. unfold s5, vm_append, VMpy.set_opc, VMpy.set_stack. cbn [st_pc st_stack st_alt st_cond st_opc st_bch].
    cbn [vbind]. destruct verify; cbv beta iota.
    + rewrite pop_verify_eq. cbn [st_stack]. rewrite cast_bool_vec. destruct ok; [|exact I].
      cbn. repeat split; try reflexivity.
      unfold AgreeBase.abs, VMcore.set_stack, VMcore.set_opc, VMpy.set_stack; cbn; f_equal; lia.
    + cbn. repeat split; try reflexivity.
      unfold AgreeBase.abs, VMcore.set_stack, VMcore.set_opc, VMpy.set_stack; cbn; f_equal; lia.
  - destruct ok; [contradiction|]. rewrite <- andb_assoc. fold anb. rewrite H. cbn [negb andb]. exact I.
  - exact I.
Qed.

End Sig.
