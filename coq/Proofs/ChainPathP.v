(* Proofs/ChainPathP.v — maximum_path, find_ancestral_path and the observation functions. *)
From Coq Require Import List NArith ZArith Bool Lia Arith.
From PV Require Import Base.Outcome Model.Chain Spec.ChainSpec Proofs.ChainP Proofs.ChainFinderP Proofs.ChainBestP.
Import ListNotations.
Local Open Scope N_scope.

Lemma climb_spec rk p : ranked rk p -> forall f h, (forall n t, steps p n h t -> (n < f)%nat) ->
  exists l, climb f p h = Ret l /\ ppath p (kn p) h l.
Proof.
  intros R. induction f as [|f IH]; intros h Hf.
  - exfalso. specialize (Hf 0%nat h (st_0 p h)). lia.
  - cbn [climb]. destruct (dget h p) as [h'|] eqn:E.
    + destruct (IH h') as (l & Hl & Hp).
      { intros n t Hs. assert (steps p (S n) h t) by (econstructor; eauto). apply Hf in H. lia. }
      rewrite Hl. exists (h :: l). split; [reflexivity|]. econstructor; [unfold kn; congruence|exact E|exact Hp].
    + exists [h]. split; [reflexivity|]. constructor. unfold kn. congruence.
Qed.

Lemma maximum_path_spec rk cf h : finder_ok cf -> ranked rk (pl cf) ->
  exists l, maximum_path h cf = Ret l /\ ppath (pl cf) (kn (pl cf)) h l.
Proof.
  intros (Ft & _) R. unfold maximum_path.
  assert (C : exists l, climb (S (length (pl cf))) (pl cf) h = Ret l /\ ppath (pl cf) (kn (pl cf)) h l).
  { apply (climb_spec rk); [exact R|]. intros n t Hs. apply steps_bound with (rk := rk) in Hs; auto. lia. }
  destruct (dget h (tfb cf)) as [[|x r]|] eqn:E; [exact C| |exact C].
  exists (x :: r). split; [reflexivity|]. apply (Ft _ _ E).
Qed.

Lemma ppath_nth p P b l : ppath p P b l -> forall i x, nth_error l i = Some x -> ppath p P x (skipn i l).
Proof.
  induction 1; intros i x Hn.
  - destruct i; cbn in Hn; [inversion Hn; subst; cbn; now constructor|destruct i; discriminate].
  - destruct i; cbn in Hn.
    + inversion Hn; subst. cbn. econstructor; eauto.
    + cbn [skipn]. eauto.
Qed.

Lemma first_common_some : forall A B i, length A = length B -> A <> [] -> last A 0 = last B 0 ->
  exists k, first_common A B i = Some (i + k)%nat /\ exists x, nth_error A k = Some x /\ nth_error B k = Some x.
Proof.
  induction A as [|x A' IH]; intros B i Hlen Hne Hlast; [congruence|].
  destruct B as [|y B']; [discriminate|]. cbn [first_common].
  destruct (N.eqb_spec x y) as [->|Hxy].
  - exists 0%nat. split; [f_equal; lia|]. exists y. auto.
  - destruct A' as [|x' A''].
    + destruct B'; [cbn in Hlast; congruence|discriminate].
    + destruct B' as [|y' B'']; [discriminate|].
      rewrite (last_cons_ne x) in Hlast by discriminate. rewrite (last_cons_ne y) in Hlast by discriminate.
      destruct (IH (y' :: B'') (S i)) as (k & Hk & z & Ha & Hb); [cbn in *; lia|discriminate|exact Hlast|].
      exists (S k). split; [rewrite Hk; f_equal; lia|]. exists z. auto.
Qed.

Lemma last_skipn {A} (l : list A) i d : (i < length l)%nat -> last (skipn i l) d = last l d.
Proof.
  revert i. induction l as [|x r IH]; intros i Hi; [cbn in Hi; lia|].
  destruct i; [reflexivity|]. cbn [skipn]. cbn [length] in Hi.
  rewrite IH by lia. destruct r; [cbn in Hi; lia|reflexivity].
Qed.
Lemma nth_error_skipn' {A} (l : list A) i k : nth_error (skipn i l) k = nth_error l (i + k).
Proof. revert l. induction i; intros l; [reflexivity|]. destruct l; [now destruct k|]. cbn. apply IHi. Qed.
Lemma firstn_succ_nth {A} (l : list A) n x : nth_error l n = Some x -> firstn (n + 1) l = firstn n l ++ [x].
Proof.
  revert l. induction n; intros l Hn; destruct l as [|a l]; cbn in Hn; try discriminate.
  - injection Hn as ->. reflexivity.
  - cbn. f_equal. now apply IHn.
Qed.
Lemma skipn_nth_cons {A} (l : list A) n x : nth_error l n = Some x -> exists r, skipn n l = x :: r.
Proof.
  revert l. induction n; intros l Hn; destruct l as [|a l]; cbn in Hn; try discriminate.
  - injection Hn as ->. eexists. reflexivity.
  - cbn. now apply IHn.
Qed.

Lemma min_facts a b : (0 < a)%nat -> (0 < b)%nat ->
  (0 < Nat.min a b /\ a - (a - Nat.min a b) = Nat.min a b /\ b - (b - Nat.min a b) = Nat.min a b /\
   a - Nat.min a b < a /\ b - Nat.min a b < b)%nat.
Proof. intros. destruct (Nat.min_spec a b) as [[? ->]|[? ->]]; lia. Qed.

Lemma find_ancestral_path_spec cf h1 h2 p1 p2 :
  maximum_path h1 cf = Ret p1 -> maximum_path h2 cf = Ret p2 ->
  ppath (pl cf) (kn (pl cf)) h1 p1 -> ppath (pl cf) (kn (pl cf)) h2 p2 -> last p1 0 = last p2 0 ->
  exists u1 u2 s x, find_ancestral_path h1 h2 cf = Ret (u1 ++ [x], u2 ++ [x]) /\
    p1 = u1 ++ s /\ p2 = u2 ++ s /\ s <> [].
Proof.
  intros M1 M2 P1 P2 Hlast. unfold find_ancestral_path. rewrite M1, M2, Hlast, N.eqb_refl. cbn [negb].
  pose proof (ppath_ne _ _ _ _ P1) as N1. pose proof (ppath_ne _ _ _ _ P2) as N2.
  set (shorter := Nat.min (length p1) (length p2)).
  set (i1 := (length p1 - shorter)%nat). set (i2 := (length p2 - shorter)%nat).
  assert (L1 : (0 < length p1)%nat) by (destruct p1; [congruence|cbn; lia]).
  assert (L2 : (0 < length p2)%nat) by (destruct p2; [congruence|cbn; lia]).
  destruct (min_facts _ _ L1 L2) as (Hs & M1' & M2' & M3' & M4').
  destruct (first_common_some (skipn i1 p1) (skipn i2 p2) 0) as (k & Hk & x & Ha & Hb).
  { rewrite !skipn_length. unfold i1, i2, shorter. lia. }
  { intros E. apply (f_equal (@length hash)) in E. rewrite skipn_length in E. cbn in E. unfold i1, shorter in E. lia. }
  { rewrite !last_skipn; [exact Hlast|exact M4'|exact M3']. }
  change (0 + k)%nat with k in Hk. rewrite Hk.
  rewrite nth_error_skipn' in Ha, Hb.
  pose proof (ppath_nth _ _ _ _ P1 _ _ Ha) as Q1. pose proof (ppath_nth _ _ _ _ P2 _ _ Hb) as Q2.
  pose proof (ppath_det _ _ _ _ _ Q1 Q2) as Es.
  exists (firstn (i1 + k) p1), (firstn (i2 + k) p2), (skipn (i1 + k) p1), x.
  split; [|split; [|split]].
  - f_equal. f_equal; [exact (firstn_succ_nth _ _ _ Ha)|exact (firstn_succ_nth _ _ _ Hb)].
  - symmetry. apply firstn_skipn.
  - symmetry. etransitivity; [|apply (firstn_skipn (i2 + k) p2)]. f_equal. exact Es.
  - destruct (skipn_nth_cons _ _ _ Ha) as (r & Er). intros E. unfold hash in *. rewrite E in Er. discriminate.
Qed.

Lemma skipn_S_tail {A} (l : list A) i x r : skipn i l = x :: r -> skipn (S i) l = r.
Proof.
  revert l. induction i; intros l E.
  - cbn in E. subst l. reflexivity.
  - destruct l as [|a l]; [discriminate|]. cbn [skipn] in E. apply IHi in E. exact E.
Qed.

(* ---- observation *)
Definition fst3 (t : hash * hash * option Z) : hash := fst (fst t).
Definition chain_of (bc : blockchain) (c : list hash) : list hash := map fst3 (bc_locked bc) ++ rev c.

Lemma tuple_for_index_spec pref bc c i : bc_cache bc = Some c -> (i < length (chain_of bc c))%nat ->
  exists t, tuple_for_index pref i bc = Ret (t, bc) /\ nth_error (chain_of bc c) i = Some (fst3 t).
Proof.
  intros Hc Hi. unfold tuple_for_index, chain_of in *. rewrite app_length, map_length, rev_length in Hi.
  destruct (Nat.ltb_spec i (length (bc_locked bc))) as [Hl|Hl].
  - destruct (nth_error (bc_locked bc) i) as [t|] eqn:E; [|apply nth_error_None in E; lia].
    exists t. split; [reflexivity|]. rewrite nth_error_app1 by (rewrite map_length; exact Hl).
    now rewrite nth_error_map, E.
  - unfold longest_local. rewrite Hc. cbn [lift bind].
    set (j := (i - length (bc_locked bc))%nat).
    destruct (nth_error (rev c) j) as [h|] eqn:E; [|apply nth_error_None in E; rewrite rev_length in E; lia].
    assert (Hp : exists ph, match j with O => Some (bc_parent bc) | S j' => nth_error (rev c) j' end = Some ph).
    { destruct j as [|j']; [eauto|]. destruct (nth_error (rev c) j') eqn:E'; [eauto|].
      apply nth_error_None in E'. assert (nth_error (rev c) (S j') <> None) by congruence.
      apply nth_error_Some in H. lia. }
    destruct Hp as (ph & ->). eexists. split; [reflexivity|].
    rewrite nth_error_app2 by (rewrite map_length; exact Hl). rewrite map_length. exact E.
Qed.

Lemma tuples_upto_spec pref bc c : bc_cache bc = Some c -> forall n i, (i + n <= length (chain_of bc c))%nat ->
  exists ts, tuples_upto pref n i bc = Ret (ts, bc) /\ map fst3 ts = firstn n (skipn i (chain_of bc c)).
Proof.
  intros Hc. induction n as [|n IH]; intros i Hi.
  - exists []. split; [reflexivity|]. reflexivity.
  - cbn [tuples_upto]. destruct (tuple_for_index_spec pref bc c i Hc) as (t & Ht & Hn); [lia|].
    rewrite Ht. cbn [lift bind]. destruct (IH (S i)) as (ts & Hts & Hm); [lia|]. rewrite Hts. cbn [bind].
    exists (t :: ts). split; [reflexivity|]. cbn [map]. rewrite Hm.
    destruct (skipn_nth_cons _ _ _ Hn) as (r & Er). rewrite Er. cbn [firstn]. f_equal.
    now rewrite (skipn_S_tail _ _ _ _ Er).
Qed.

Lemma observe_spec pref ops bc c : bc_cache bc = Some c ->
  exists s, observe pref ops bc = Ret (s, bc) /\
    s_ops s = ops /\ s_chain s = chain_of bc c /\ s_locked s = length (bc_locked bc) /\ s_h2i s = bc_h2i bc.
Proof.
  intros Hc. unfold observe, bc_length, longest_local. rewrite Hc. cbn [lift bind].
  destruct (tuples_upto_spec pref bc c Hc (length c + length (bc_locked bc)) 0) as (ts & Hts & Hm).
  { unfold chain_of. rewrite app_length, map_length, rev_length. lia. }
  rewrite Hts. cbn [bind]. eexists. split; [reflexivity|]. cbn. repeat split.
  unfold s_chain. cbn [s_tuples]. fold fst3. rewrite Hm. cbn [skipn]. apply firstn_all2.
  unfold chain_of. rewrite app_length, map_length, rev_length. lia.
Qed.
