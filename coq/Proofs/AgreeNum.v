(* Proofs/AgreeNum.v — C03 agreement, family (5): numeric opcodes (1ADD 1SUB NEGATE ABS NOT 0NOTEQUAL ADD SUB
   BOOLAND BOOLOR NUMEQUAL NUMEQUALVERIFY NUMNOTEQUAL LESSTHAN GREATERTHAN LESSTHANOREQUAL GREATERTHANOREQUAL
   MIN MAX WITHIN) with the 4-byte operand limit and the MINIMALDATA rule. *)
From Coq Require Import Lia ZifyBool ZifyNat ZifyN.
From PV Require Import Base.Bytes Base.Outcome Gen.GenOpcodes Gen.GenFlags.
From PV Require Import Model.ScriptNum Model.Push Model.CondStack Spec.CondStackCore Proofs.CondStackP.
From PV Require Import Spec.VMTypes Model.VMpy Spec.VMcore Proofs.AgreeBase.
Local Open Scope N_scope.

Lemma num_vec_zb b : num_vec (zb b) = bool_vec b.
Proof. destruct b; vm_compute; reflexivity. Qed.

Section Num.
Variable o : oracles.
Variable flags : N.
Variable sv : sigversion.
Variable ctx : txctx.
Variable script : bytes.

Notation abs := (abs script).
Notation hres_nf := (hres_nf script).
Notation handler := (handler o flags sv ctx script).
Notation exec_op := (exec_op o flags sv ctx).
Notation mn := (flag_set flags VERIFY_MINIMALDATA).

Ltac norm := cbn [VMpy.set_stack vm_append st_pc st_stack st_alt st_cond st_opc st_bch
                  AgreeBase.abs e_stack e_alt e_vf e_opc e_bch].
Ltac pop_num := rewrite ?pcb_eq; rewrite vm_pop_int_eq; norm; change (N.of_nat 4) with 4.
Ltac fin := cbn; repeat split; reflexivity.

(* one operand *)
Lemma un_core s vf (f : Z -> Z) (k : Z -> vmstate -> vres vmstate) :
  (forall v s1, k v s1 = VOk (vm_append (num_vec (f v)) s1)) ->
  hres_nf s vf (vbind (pop_check_bounds flags s) (fun x => let (v, s1) := x in k v s1))
             (on_stack (abs s vf) (un_num mn f)).
Proof.
  intros Hk. destruct s as [pc stk alt cond opc bch]. unfold on_stack. norm.
  pop_num. destruct stk as [|a r]; [exact I|]. cbn [un_num].
  d_sn; cbn [to_vres vbind cbind]; [|exact I]. rewrite Hk. fin.
Qed.

(* two operands: v1 = top, v2 = below *)
Lemma bin_core s vf (f : Z -> Z -> Z) (k : Z -> Z -> vmstate -> vres vmstate) :
  (forall v1 v2 s2, k v1 v2 s2 = VOk (vm_append (num_vec (f v2 v1)) s2)) ->
  hres_nf s vf (vbind (pop_check_bounds flags s) (fun x => let (v1, s1) := x in
                vbind (pop_check_bounds flags s1) (fun y => let (v2, s2) := y in k v1 v2 s2)))
             (on_stack (abs s vf) (bin_num mn f)).
Proof.
  intros Hk. destruct s as [pc stk alt cond opc bch]. unfold on_stack. norm.
  pop_num. destruct stk as [|a [|b r]]; [exact I| |].
  { d_sn; cbn [to_vres vbind]; [|exact I]. pop_num. exact I. }
  cbn [bin_num].
  destruct (script_num mn 4 a) as [z1|e1|] eqn:E1; [| |exfalso; exact (nf_script_num _ _ _ E1)];
  destruct (script_num mn 4 b) as [z2|e2|] eqn:E2; try (exfalso; exact (nf_script_num _ _ _ E2));
  cbn [to_vres vbind cbind]; try exact I.
  - pop_num. rewrite E2. cbn [to_vres vbind]. rewrite Hk. fin.
  - pop_num. rewrite E2. exact I.
Qed.

Lemma un_num_ext m f g st : (forall n, f n = g n) -> un_num m f st = un_num m g st.
Proof. intros H. destruct st as [|a r]; [reflexivity|]. cbn [un_num]. destruct (script_num m 4 a); cbn; try reflexivity. now rewrite H. Qed.
Lemma bin_num_ext m f g st : (forall a b, f a b = g a b) -> bin_num m f st = bin_num m g st.
Proof.
  intros H. destruct st as [|b [|a r]]; try reflexivity. cbn [bin_num].
  destruct (script_num m 4 a); cbn; try reflexivity. destruct (script_num m 4 b); cbn; try reflexivity. now rewrite H.
Qed.
Lemma on_stack_ext s f g : (forall st, f st = g st) -> on_stack s f = on_stack s g.
Proof. intros H. unfold on_stack. now rewrite H. Qed.

Definition unop_byte (u : unop) : byte := match u with U1Add => x8b | U1Sub => x8c | UNegate => x8f | UAbs => x90 end.

Lemma agree_unary u s vf rest fx : hres_nf s vf (handler (KUnary u) s) (exec_op (unop_byte u) rest fx (abs s vf)).
Proof.
  assert (E : exec_op (unop_byte u) rest fx (abs s vf) = on_stack (abs s vf) (un_num mn (unop_f u))).
  { destruct u; cbn [unop_byte VMcore.exec_op]; try reflexivity.
    apply on_stack_ext. intros st. apply un_num_ext. intros n. cbn [unop_f]. destruct (Z.ltb_spec n 0); lia. }
  rewrite E. cbn [VMpy.handler]. apply un_core. intros. apply vm_push_int_eq.
Qed.

Lemma agree_not s vf rest fx : hres_nf s vf (handler KNot s) (exec_op x91 rest fx (abs s vf)).
Proof.
  cbn [VMpy.handler VMcore.exec_op]. apply un_core. intros. now rewrite num_vec_zb, bool_vec_eq.
Qed.

Lemma agree_0notequal s vf rest fx : hres_nf s vf (handler K0NotEqual s) (exec_op x92 rest fx (abs s vf)).
Proof.
  cbn [VMpy.handler VMcore.exec_op]. apply un_core. intros. rewrite vm_push_int_eq. unfold znz.
  destruct (v =? 0)%Z; reflexivity.
Qed.

Definition binop_byte (b : binop) : byte := match b with BAdd => x93 | BSub => x94 | BMin => xa3 | BMax => xa4 end.

Lemma agree_bin b s vf rest fx : hres_nf s vf (handler (KBin b) s) (exec_op (binop_byte b) rest fx (abs s vf)).
Proof.
  assert (E : exec_op (binop_byte b) rest fx (abs s vf) = on_stack (abs s vf) (bin_num mn (binop_f b))).
  { destruct b; cbn [binop_byte VMcore.exec_op]; try reflexivity;
      apply on_stack_ext; intros st; apply bin_num_ext; intros x y; cbn [binop_f].
    - destruct (Z.ltb_spec x y); lia.
    - destruct (Z.ltb_spec y x); lia. }
  rewrite E. cbn [VMpy.handler]. apply bin_core. intros. apply vm_push_int_eq.
Qed.

Definition boolop_byte (b : boolop) : byte :=
  match b with
  | BoBoolAnd => x9a | BoBoolOr => x9b | BoNumEqual => x9c | BoNumNotEqual => x9e | BoLessThan => x9f
  | BoGreaterThan => xa0 | BoLessThanOrEqual => xa1 | BoGreaterThanOrEqual => xa2
  end.

Lemma agree_boolbin b s vf rest fx : hres_nf s vf (handler (KBoolBin b) s) (exec_op (boolop_byte b) rest fx (abs s vf)).
Proof.
  assert (E : exec_op (boolop_byte b) rest fx (abs s vf)
              = on_stack (abs s vf) (bin_num mn (fun x y => zb (boolop_f b x y)))).
  { destruct b; reflexivity. }
  rewrite E. cbn [VMpy.handler]. apply bin_core. intros. now rewrite num_vec_zb, bool_vec_eq.
Qed.

Lemma agree_numequalverify s vf rest fx : hres_nf s vf (handler KNumEqualVerify s) (exec_op x9d rest fx (abs s vf)).
Proof.
  cbn [VMpy.handler VMcore.exec_op].
  destruct s as [pc stk alt cond opc bch]. unfold on_stack. norm.
  pop_num. destruct stk as [|a [|b r]]; [exact I| |].
  { d_sn; cbn [to_vres vbind]; [|exact I]. pop_num. exact I. }
  cbn [bin_num].
  destruct (script_num mn 4 a) as [z1|e1|] eqn:E1; [| |exfalso; exact (nf_script_num _ _ _ E1)];
  destruct (script_num mn 4 b) as [z2|e2|] eqn:E2; try (exfalso; exact (nf_script_num _ _ _ E2));
  cbn [to_vres vbind cbind]; try exact I.
  - pop_num. rewrite E2. cbn [to_vres vbind]. rewrite pop_verify_eq. norm.
    rewrite num_vec_zb, bool_vec_eq. cbn [boolop_f]. destruct (z2 =? z1)%Z; fin.
  - pop_num. rewrite E2. exact I.
Qed.

Lemma agree_within s vf rest fx : hres_nf s vf (handler KWithin s) (exec_op xa5 rest fx (abs s vf)).
Proof.
  cbn [VMpy.handler VMcore.exec_op].
  destruct s as [pc stk alt cond opc bch]. unfold on_stack. norm.
  pop_num. destruct stk as [|c [|b [|a r]]]; [exact I| | |].
  { d_sn; cbn [to_vres vbind]; [|exact I]. pop_num. exact I. }
  { d_sn; cbn [to_vres vbind]; [|exact I]. pop_num. d_sn; cbn [to_vres vbind]; [|exact I]. pop_num. exact I. }
  destruct (script_num mn 4 a) as [z1|e1|] eqn:E1; [| |exfalso; exact (nf_script_num _ _ _ E1)];
  destruct (script_num mn 4 b) as [z2|e2|] eqn:E2; try (exfalso; exact (nf_script_num _ _ _ E2));
  destruct (script_num mn 4 c) as [z3|e3|] eqn:E3; try (exfalso; exact (nf_script_num _ _ _ E3));
  cbn [to_vres vbind cbind]; try exact I;
  repeat (pop_num; rewrite ?E1, ?E2, ?E3; cbn [to_vres vbind]); try exact I.
  rewrite bool_vec_eq. fin.
Qed.

End Num.
