(* Proofs/CondStackP.v — the counter pair simulates vfExec for every operation sequence (C03). *)
From Coq Require Import List Arith Bool Lia.
From PV Require Import Model.CondStack Spec.CondStackCore.
Import ListNotations.

(* rest: the entries above the first false one; Core toggles them, pycoin does not track them *)
Definition cond_rel (s : cstate) (vf : list bool) : Prop :=
  let '(t, f) := s in
  (f = 0 /\ vf = repeat true t) \/
  (0 < f /\ exists rest, vf = rest ++ false :: repeat true t /\ length rest = f - 1).

Lemma all_true_repeat t : vf_all_true (repeat true t) = true.
Proof. induction t; cbn; auto. Qed.

Lemma all_true_with_false rest t : vf_all_true (rest ++ false :: repeat true t) = false.
Proof.
  unfold vf_all_true. rewrite forallb_app. cbn. now rewrite andb_false_r.
Qed.

Lemma cond_rel_all_true s vf : cond_rel s vf -> vf_all_true vf = c_all_if_true s.
Proof.
  destruct s as [t f]. unfold cond_rel, c_all_if_true. cbn [snd].
  intros [[-> ->] | [Hf [rest [-> _]]]].
  - now rewrite all_true_repeat.
  - rewrite all_true_with_false. destruct f; [lia|reflexivity].
Qed.

Lemma cond_rel_final s vf : cond_rel s vf -> vf_final_ok vf = c_final_ok s.
Proof.
  destruct s as [t f]. unfold cond_rel, c_final_ok. cbn [fst snd].
  intros [[-> ->] | [Hf [rest [-> _]]]].
  - destruct t; reflexivity.
  - destruct f; [lia|]. rewrite andb_false_r. destruct rest; reflexivity.
Qed.

Lemma cond_rel_init : cond_rel c_init [].
Proof. left. split; reflexivity. Qed.

Lemma cond_step_sim s vf o : cond_rel s vf ->
  match c_step s o, vf_step vf o with
  | Some s', Some vf' => cond_rel s' vf'
  | None, None => True
  | _, _ => False
  end.
Proof.
  destruct s as [t f]. intros R. pose proof (cond_rel_all_true _ _ R) as Hall.
  unfold cond_rel in R. unfold c_all_if_true in Hall. cbn [snd] in Hall.
  destruct R as [[-> ->] | [Hf [rest [-> Hlen]]]].
  - (* executing *)
    destruct o as [b| |]; cbn [c_step vf_step Nat.ltb Nat.leb Nat.eqb].
    + rewrite all_true_repeat. destruct b.
      * left. split; reflexivity.
      * right. split; [lia|]. exists []. split; reflexivity.
    + destruct t; cbn [repeat Nat.eqb]; [exact I|].
      replace (S t - 1) with t by lia.
      right. split; [lia|]. exists []. split; reflexivity.
    + destruct t; cbn [repeat Nat.eqb]; [exact I|].
      replace (S t - 1) with t by lia. left. split; reflexivity.
  - (* inside a false branch *)
    destruct f as [|f]; [lia|]. cbn [Nat.sub] in Hlen. rewrite Nat.sub_0_r in Hlen.
    destruct o as [b| |]; cbn [c_step].
    + cbn [Nat.ltb Nat.leb]. cbn [vf_step]. rewrite all_true_with_false.
      right. split; [lia|]. exists (false :: rest). split; [reflexivity|]. cbn [length]. lia.
    + destruct f as [|f].
      * (* false_count = 1 *)
        cbn [Nat.ltb Nat.leb Nat.eqb]. destruct rest; [|discriminate]. cbn [app vf_step negb].
        left. split; reflexivity.
      * cbn [Nat.ltb Nat.leb]. destruct rest as [|x rest]; [discriminate|]. cbn [app vf_step].
        right. split; [lia|]. exists (negb x :: rest). split; [reflexivity|]. cbn [length] in *. lia.
    + cbn [Nat.ltb Nat.leb]. replace (S f - 1) with f by lia.
      destruct f as [|f].
      * destruct rest; [|discriminate]. cbn [app vf_step]. left. split; reflexivity.
      * destruct rest as [|x rest]; [discriminate|]. cbn [app vf_step].
        right. split; [lia|]. exists rest. split; [reflexivity|]. cbn [length] in *. lia.
Qed.

(* lifted to every operation sequence, of any nesting depth *)
Theorem cond_run_sim ops : forall s vf, cond_rel s vf ->
  match c_run s ops, vf_run vf ops with
  | Some s', Some vf' => cond_rel s' vf'
  | None, None => True
  | _, _ => False
  end.
Proof.
  induction ops as [|o ops IH]; intros s vf R; cbn [c_run vf_run]; [exact R|].
  pose proof (cond_step_sim s vf o R) as H.
  destruct (c_step s o) as [s'|], (vf_step vf o) as [vf'|]; try contradiction; [|exact I].
  apply IH. exact H.
Qed.

(* what the interpreters observe: after any sequence from the initial state, the error cases coincide,
   "all branches executing" coincides, and "balanced at end of script" coincides *)
Corollary cond_observations ops :
  match c_run c_init ops, vf_run [] ops with
  | Some s, Some vf => c_all_if_true s = vf_all_true vf /\ c_final_ok s = vf_final_ok vf
  | None, None => True
  | _, _ => False
  end.
Proof.
  pose proof (cond_run_sim ops c_init [] cond_rel_init) as H.
  destruct (c_run c_init ops) as [s|], (vf_run [] ops) as [vf|]; try contradiction; [|exact I].
  split; symmetry; [apply cond_rel_all_true | apply cond_rel_final]; exact H.
Qed.
