(* Proofs/CurveInvP.v — Curve.inverse_mod (extended Euclid): termination bound and correctness. *)
From Coq Require Import ZArith Lia Znumtheory List Bool.
From PV Require Import Base.Outcome Model.Curve.
Local Open Scope Z_scope.

(* One induction carries: fuel (the product c*d at least halves per iteration), the Bezout relations
   (with the dropped coefficients vc, vd existentially), the gcd, and the size of the coefficient:
   signs of uc, ud alternate, |uc|*d + |ud|*c <= m is preserved (with equality in fact), hence |ud|*d < m. *)
Lemma euclid_spec (a m : Z) : forall (fuel : nat) (c d uc ud : Z),
  0 <= c < d -> c * d < 2 ^ Z.of_nat fuel ->
  (exists vc, uc * a + vc * m = c) -> (exists vd, ud * a + vd * m = d) ->
  uc * ud <= 0 -> Z.abs uc * d + Z.abs ud * c <= m -> (Z.abs ud * d < m \/ ud = 0) ->
  exists u, euclid (S fuel) c d uc ud = Some (Z.gcd c d, u) /\
            (exists v, u * a + v * m = Z.gcd c d) /\ (Z.abs u * Z.gcd c d < m \/ u = 0).
Proof.
  induction fuel as [|fuel IH]; intros c d uc ud Hcd Hprod Hbc Hbd Hsign Hsum Hud.
  - (* c * d < 1 forces c = 0 *)
    assert (c = 0) by (change (2 ^ Z.of_nat 0) with 1 in Hprod; nia). subst c.
    cbn [euclid]. rewrite Z.eqb_refl. exists ud. rewrite Z.gcd_0_l, Z.abs_eq by lia. auto.
  - cbn [euclid]. destruct (Z.eqb_spec c 0) as [->|Hc0].
    + exists ud. rewrite Z.gcd_0_l, Z.abs_eq by lia. auto.
    + pose proof (Z_div_mod d c ltac:(lia)) as Hdm.
      destruct (Z.div_eucl d c) as [q r]. destruct Hdm as [Hd Hr].
      assert (Hq : 1 <= q) by nia.
      assert (Hg : Z.gcd r c = Z.gcd c d).
      { replace r with (d mod c).
        - apply Z.gcd_mod. lia.
        - symmetry. apply Z.mod_unique with q; [left; lia | lia]. }
      rewrite <- Hg.
      apply IH.
      * lia.
      * rewrite Nat2Z.inj_succ, Z.pow_succ_r in Hprod by lia. nia.
      * destruct Hbc as [vc Hvc]. destruct Hbd as [vd Hvd]. exists (vd - q * vc). nia.
      * exact Hbc.
      * nia.
      * (* |ud - q*uc| = |ud| + q*|uc| because the signs alternate *)
        assert (Z.abs (ud - q * uc) = Z.abs ud + q * Z.abs uc) by nia.
        nia.
      * destruct (Z.eq_dec uc 0) as [->|Hu]; [now right|left]. nia.
Qed.

Lemma inv_fuel_bound (m a : Z) : 1 <= m -> 0 <= a < m ->
  a * m < 2 ^ Z.of_nat (pred (inv_fuel m)).
Proof.
  intros Hm Ha. unfold inv_fuel. rewrite Z.abs_eq by lia.
  pose proof (Z.log2_nonneg m) as Hl.
  destruct (Z.log2_spec m ltac:(lia)) as [_ Hhi].
  rewrite Nat2Z.inj_pred by lia. rewrite Z2Nat.id by lia.
  replace (Z.pred (2 * Z.log2 m + 4)) with (Z.succ (Z.log2 m) + Z.succ (Z.log2 m) + 1) by lia.
  rewrite !Z.pow_add_r by lia. nia.
Qed.

(* the reduction `if a < 0 or m <= a: a = a % m` *)
Definition pre_reduce (a m : Z) : Z := if (a <? 0) || (m <=? a) then a mod m else a.

Lemma pre_reduce_spec a m : 0 < m -> 0 <= pre_reduce a m < m /\ pre_reduce a m = a mod m.
Proof.
  intros Hm. unfold pre_reduce.
  destruct (Z.ltb_spec a 0); cbn [orb].
  - split; [apply Z.mod_pos_bound; lia | reflexivity].
  - destruct (Z.leb_spec m a).
    + split; [apply Z.mod_pos_bound; lia | reflexivity].
    + split; [lia | symmetry; apply Z.mod_small; lia].
Qed.

(* the loop never runs out of fuel for a positive modulus, and returns the gcd *)
Lemma inverse_mod_run (a m : Z) : 1 < m ->
  exists u, euclid (inv_fuel m) (pre_reduce a m) m 1 0 = Some (Z.gcd a m, u) /\
            (exists v, u * (pre_reduce a m) + v * m = Z.gcd a m) /\ (Z.abs u * Z.gcd a m < m \/ u = 0).
Proof.
  intros Hm. destruct (pre_reduce_spec a m ltac:(lia)) as [Hr Hre].
  assert (Hf : inv_fuel m = S (pred (inv_fuel m))).
  { unfold inv_fuel. pose proof (Z.log2_nonneg (Z.abs m)). lia. }
  rewrite Hf.
  replace (Z.gcd a m) with (Z.gcd (pre_reduce a m) m)
    by (rewrite Hre, Z.gcd_mod, Z.gcd_comm by lia; reflexivity).
  apply euclid_spec.
  - lia.
  - apply inv_fuel_bound; lia.
  - exists 0. lia.
  - exists 1. lia.
  - lia.
  - lia.
  - now right.
Qed.

Theorem inverse_mod_correct (a m : Z) : 1 < m -> Z.gcd a m = 1 ->
  exists i, inverse_mod a m = Ret i /\ 0 < i < m /\ (a * i) mod m = 1.
Proof.
  intros Hm Hg. unfold inverse_mod.
  destruct (Z.eqb_spec m 0); [lia|].
  fold (pre_reduce a m).
  destruct (inverse_mod_run a m Hm) as (u & -> & (v & Hb) & Hsz).
  rewrite Hg in *. cbn [Z.eqb Pos.eqb].
  destruct (pre_reduce_spec a m ltac:(lia)) as [Hr Hre].
  assert (Hu0 : u <> 0).
  { intros ->. assert (E : m * v = 1) by lia. apply Z.eq_mul_1 in E. lia. }
  assert (Hum : Z.abs u < m) by lia.
  assert (Hcong : forall i, i = u \/ i = u + m -> (a * i) mod m = 1).
  { intros i Hi.
    rewrite <- Zmult_mod_idemp_l, <- Hre.
    replace (pre_reduce a m * i) with (1 + (if Z.eq_dec i u then - v else pre_reduce a m - v) * m).
    - rewrite Z_mod_plus_full. apply Z.mod_small. lia.
    - destruct (Z.eq_dec i u); nia. }
  destruct (Z.ltb_spec 0 u).
  - exists u. split; [reflexivity|]. split; [lia|]. apply Hcong; auto.
  - exists (u + m). split; [reflexivity|]. split; [lia|]. apply Hcong; auto.
Qed.

Theorem inverse_mod_not_coprime (a m : Z) : 1 < m -> Z.gcd a m <> 1 -> inverse_mod a m = Raise E_ASSERT.
Proof.
  intros Hm Hg. unfold inverse_mod.
  destruct (Z.eqb_spec m 0); [lia|].
  fold (pre_reduce a m).
  destruct (inverse_mod_run a m Hm) as (u & -> & _).
  destruct (Z.eqb_spec (Z.gcd a m) 1); [contradiction|reflexivity].
Qed.

(* the inverse is unique: any two solutions in [0, m) coincide *)
Lemma inverse_unique (a m i j : Z) : 0 < m -> 0 <= i < m -> 0 <= j < m ->
  (a * i) mod m = 1 mod m -> (a * j) mod m = 1 mod m -> i = j.
Proof.
  intros Hm Hi Hj H1 H2.
  assert (E : (i * (a * j)) mod m = (j * (a * i)) mod m) by (f_equal; ring).
  rewrite <- Zmult_mod_idemp_r, H2, Zmult_mod_idemp_r in E.
  rewrite <- (Zmult_mod_idemp_r (a * i)), H1, Zmult_mod_idemp_r in E.
  rewrite !Z.mul_1_r, !Z.mod_small in E by lia. exact E.
Qed.
