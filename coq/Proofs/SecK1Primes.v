(* Proofs/SecK1Primes.v — the SEC statements of Proofs/SecP.v on secp256k1 with the premise `prime k1_p` DISCHARGED
   (Proofs/CurvePrimesC10.v: kernel-checked Pocklington certificate for the constant regenerated from
   pycoin/ecdsa/secp256k1.py): nothing is assumed any more. *)
From Coq Require Import ZArith Znumtheory List Lia.
From PV Require Import Base.Bytes Base.Outcome Model.Sec Gen.GenCurveC10 Proofs.FermatC10 Proofs.SecP Proofs.CurvePrimesC10.
Local Open Scope Z_scope.

Lemma k1_moduli_prime : prime k1_p /\ prime k1_n.
Proof. exact (conj prime_k1_p prime_k1_n). Qed.

(* Fermat on F_p, p = k1_p: M3 as a theorem *)
Lemma k1_fermat : forall t, 0 < t < k1_p -> (t ^ (k1_p - 1)) mod k1_p = 1.
Proof. intros t Ht. exact (fermat_little k1_p t prime_k1_p Ht). Qed.

(* no point of secp256k1 has y = 0 *)
Lemma k1_no_y0_unconditional : forall x, 0 <= x < k1_p -> contains_point k1_p k1_a k1_b x 0 = false.
Proof. exact (k1_no_y0 k1_fermat). Qed.

Lemma sec_roundtrip_k1_unconditional :
  forall (x y : Z) (c : bool), 0 <= x < k1_p -> 0 <= y < k1_p -> contains_point k1_p k1_a k1_b x y = true ->
  exists sec, public_pair_to_sec (x, y) c = Ret sec /\
    length sec = (if c then 33 else 65)%nat /\
    key_from_sec k1_p k1_a k1_b sec = Ret ((x, y), c).
Proof. exact (sec_roundtrip_k1 prime_k1_p). Qed.

Lemma sec_decode_roundtrip_k1_unconditional :
  forall (x y : Z) (c strict : bool), 0 <= x < k1_p -> 0 <= y < k1_p -> contains_point k1_p k1_a k1_b x y = true ->
  exists sec, public_pair_to_sec (x, y) c = Ret sec /\ sec_to_public_pair k1_p k1_a k1_b sec strict = Ret (x, y).
Proof.
  intros x y c strict Hx Hy Hc.
  assert (Hy0 : y <> 0).
  { intros ->. rewrite (k1_no_y0_unconditional x Hx) in Hc. discriminate. }
  apply (sec_decode_roundtrip_generic k1_p k1_a k1_b k1_p_range prime_k1_p k1_mod4); auto. lia.
Qed.
