(* Base/DrvBase.v — names every extraction must contain so that ml_src/drvlib.ml links. *)
From PV Require Import Base.Bytes Base.Outcome.
Definition drv_byte_to_N := Byte.to_N.
Definition drv_byte_of_N := n2b.
Definition drv_exn_dummy : outcome bool := Raise E_OTHER.
Definition drv_base := (drv_byte_to_N, drv_byte_of_N, drv_exn_dummy, Z.of_N, Z.to_N, N.of_nat, N.to_nat, Z.of_nat, Z.to_nat).
