(* Base/Varint.v — the f.read stream discipline and pycoin/satoshi/satoshi_int.py, satoshi_string.py
   (compact-size integers, length-prefixed strings): model AND frame-form round-trip lemmas.
   A stream is the list of bytes still unread; a parser returns the value and the rest. *)
From PV Require Import Base.Bytes Base.Outcome.
From Coq Require Import ZifyBool ZifyNat ZifyN.
Local Open Scope N_scope.

Definition parser (A : Type) := bytes -> outcome (A * bytes).

(* f.read(n): never fails, may return fewer bytes *)
Definition read (n : nat) (s : bytes) : bytes * bytes := (firstn n s, skipn n s).

(* f.read(n) with n : N, avoiding huge unary numbers: if n >= what is left, everything is read *)
Definition readN (n : N) (s : bytes) : bytes * bytes :=
  if N.of_nat (length s) <=? n then (s, []) else read (N.to_nat n) s.

(* struct.unpack("<H"/"<L"/"<Q", f.read(w)) : struct.error on a short read *)
Definition read_le (w : nat) : parser N := fun s =>
  let '(h, t) := read w s in
  if (length h <? w)%nat then Raise E_STRUCT else Ret (le_decode h, t).
Definition read_be (w : nat) : parser N := fun s =>
  let '(h, t) := read w s in
  if (length h <? w)%nat then Raise E_STRUCT else Ret (be_decode h, t).

(* struct.pack("<H"...) : struct.error when out of range *)
Definition write_le (w : nat) (v : N) : outcome bytes :=
  if v <? 256 ^ N.of_nat w then Ret (le_encode w v) else Raise E_STRUCT.
Definition write_be (w : nat) (v : N) : outcome bytes :=
  if v <? 256 ^ N.of_nat w then Ret (be_encode w v) else Raise E_STRUCT.

(* parse_satoshi_int: ord(f.read(1)) raises TypeError on an exhausted stream *)
Definition parse_varint : parser N := fun s =>
  match s with
  | [] => Raise E_TYPE
  | b :: r =>
    let v := b2n b in
    if v =? 253 then read_le 2 r
    else if v =? 254 then read_le 4 r
    else if v =? 255 then read_le 8 r
    else Ret (v, r)
  end.

Definition stream_varint (v : N) : outcome bytes :=
  if v <? 253 then Ret [n2b v]
  else if v <=? 65535 then Ret (xfd :: le_encode 2 v)
  else if v <=? 4294967295 then Ret (xfe :: le_encode 4 v)
  else if v <? 2 ^ 64 then Ret (xff :: le_encode 8 v)
  else Raise E_STRUCT.

(* parse_satoshi_string: size then f.read(size) — a short read is silent, but CPython's
   BytesIO.read(n) raises OverflowError when n > sys.maxsize = 2^63 - 1 *)
Definition parse_varstr : parser bytes := fun s =>
  match parse_varint s with
  | Ret (n, r) => if 9223372036854775808 <=? n then Raise E_OVERFLOW else Ret (readN n r)
  | Raise e => Raise e
  | OutOfFuel => OutOfFuel
  end.
Definition stream_varstr (v : bytes) : outcome bytes :=
  match stream_varint (N.of_nat (length v)) with
  | Ret p => Ret (p ++ v)
  | Raise e => Raise e
  | OutOfFuel => OutOfFuel
  end.

(* the canonical (minimal) form predicate for the first compact size of a stream *)
Definition varint_canonical (s : bytes) : bool :=
  match parse_varint s with
  | Ret (v, _) =>
    match s with
    | b :: _ =>
      if b2n b =? 253 then 253 <=? v
      else if b2n b =? 254 then 65536 <=? v
      else if b2n b =? 255 then 4294967296 <=? v
      else true
    | [] => false
    end
  | _ => false
  end.

(* ---- lemmas ---------------------------------------------------------------------------------- *)
Lemma read_app a r : read (length a) (a ++ r) = (a, r).
Proof. unfold read. now rewrite firstn_app_exact, skipn_app_exact. Qed.

Lemma readN_app a r : readN (N.of_nat (length a)) (a ++ r) = (a, r).
Proof.
  unfold readN. rewrite app_length. destruct (N.of_nat (length a + length r) <=? N.of_nat (length a)) eqn:E.
  - assert (length r = 0)%nat by lia. destruct r; [|discriminate]. now rewrite app_nil_r.
  - rewrite Nat2N.id. apply read_app.
Qed.

Lemma read_le_frame w v r : v < 256 ^ N.of_nat w -> read_le w (le_encode w v ++ r) = Ret (v, r).
Proof.
  intros H. unfold read_le.
  pose proof (read_app (le_encode w v) r) as E. rewrite le_encode_length in E. rewrite E.
  rewrite le_encode_length, Nat.ltb_irrefl, le_decode_encode by exact H. reflexivity.
Qed.

Lemma read_be_frame w v r : v < 256 ^ N.of_nat w -> read_be w (be_encode w v ++ r) = Ret (v, r).
Proof.
  intros H. unfold read_be.
  pose proof (read_app (be_encode w v) r) as E. rewrite be_encode_length in E. rewrite E.
  rewrite be_encode_length, Nat.ltb_irrefl, be_decode_encode by exact H. reflexivity.
Qed.

Lemma varint_frame v r : v < 2 ^ 64 ->
  exists p, stream_varint v = Ret p /\ parse_varint (p ++ r) = Ret (v, r) /\ varint_canonical (p ++ r) = true
            /\ (1 <= length p <= 9)%nat.
Proof.
  intros Hv. unfold stream_varint, varint_canonical.
  change (2 ^ 64) with 18446744073709551616 in *.
  destruct (v <? 253) eqn:E1.
  - exists [n2b v]. cbn [app parse_varint length]. rewrite b2n_n2b by lia.
    replace (v =? 253) with false by lia. replace (v =? 254) with false by lia.
    replace (v =? 255) with false by lia. repeat split; lia.
  - destruct (v <=? 65535) eqn:E2.
    + exists (xfd :: le_encode 2 v). cbn [app parse_varint length]. change (b2n xfd) with 253. cbn [N.eqb Pos.eqb].
      rewrite read_le_frame by (change (256 ^ N.of_nat 2) with 65536; lia).
      rewrite le_encode_length. repeat split; lia.
    + destruct (v <=? 4294967295) eqn:E3.
      * exists (xfe :: le_encode 4 v). cbn [app parse_varint length]. change (b2n xfe) with 254. cbn [N.eqb Pos.eqb].
        rewrite read_le_frame by (change (256 ^ N.of_nat 4) with 4294967296; lia).
        rewrite le_encode_length. repeat split; lia.
      * replace (v <? 18446744073709551616) with true by lia.
        exists (xff :: le_encode 8 v). cbn [app parse_varint length]. change (b2n xff) with 255. cbn [N.eqb Pos.eqb].
        rewrite read_le_frame by (change (256 ^ N.of_nat 8) with 18446744073709551616; lia).
        rewrite le_encode_length. repeat split; lia.
Qed.

(* reading back: a canonical compact size re-serialises to the bytes it was read from *)
Lemma read_le_inv w s v r : read_le w s = Ret (v, r) ->
  s = le_encode w v ++ r /\ v < 256 ^ N.of_nat w.
Proof.
  unfold read_le, read. destruct (length (firstn w s) <? w)%nat eqn:E; [discriminate|].
  intros H. injection H as <- <-.
  assert (Hl : length (firstn w s) = w).
  { rewrite firstn_length in *. lia. }
  split.
  - rewrite <- Hl at 1. rewrite le_encode_decode. symmetry. apply firstn_skipn.
  - rewrite <- Hl at 2. apply le_decode_bound.
Qed.

Lemma varint_parse_inv s v r : parse_varint s = Ret (v, r) -> varint_canonical s = true ->
  exists p, stream_varint v = Ret p /\ s = p ++ r.
Proof.
  unfold varint_canonical. intros Hp. rewrite Hp. unfold parse_varint in Hp.
  destruct s as [|b t]; [discriminate|].
  unfold stream_varint. pose proof (b2n_lt b) as Hb.
  destruct (b2n b =? 253) eqn:E1.
  - intros Hc. apply read_le_inv in Hp. destruct Hp as [-> Hlt].
    change (256 ^ N.of_nat 2) with 65536 in Hlt.
    replace (v <? 253) with false by lia. replace (v <=? 65535) with true by lia.
    eexists. split; [reflexivity|]. cbn [app]. f_equal. apply b2n_inj. change (b2n xfd) with 253. lia.
  - destruct (b2n b =? 254) eqn:E2.
    + intros Hc. apply read_le_inv in Hp. destruct Hp as [-> Hlt].
      change (256 ^ N.of_nat 4) with 4294967296 in Hlt.
      replace (v <? 253) with false by lia. replace (v <=? 65535) with false by lia.
      replace (v <=? 4294967295) with true by lia.
      eexists. split; [reflexivity|]. cbn [app]. f_equal. apply b2n_inj. change (b2n xfe) with 254. lia.
    + destruct (b2n b =? 255) eqn:E3.
      * intros Hc. apply read_le_inv in Hp. destruct Hp as [-> Hlt].
        change (256 ^ N.of_nat 8) with 18446744073709551616 in Hlt.
        replace (v <? 253) with false by lia. replace (v <=? 65535) with false by lia.
        replace (v <=? 4294967295) with false by lia.
        change (2 ^ 64) with 18446744073709551616.
        replace (v <? 18446744073709551616) with true by lia.
        eexists. split; [reflexivity|]. cbn [app]. f_equal. apply b2n_inj. change (b2n xff) with 255. lia.
      * intros _. injection Hp as <- <-. replace (b2n b <? 253) with true by lia.
        eexists. split; [reflexivity|]. cbn [app]. f_equal. symmetry. apply n2b_b2n.
Qed.

Lemma varstr_frame v r : N.of_nat (length v) < 2 ^ 63 ->
  exists p, stream_varstr v = Ret p /\ parse_varstr (p ++ r) = Ret (v, r).
Proof.
  intros H. unfold stream_varstr, parse_varstr.
  change (2 ^ 63) with 9223372036854775808 in H.
  assert (H64 : N.of_nat (length v) < 2 ^ 64) by (change (2 ^ 64) with 18446744073709551616; lia).
  destruct (varint_frame (N.of_nat (length v)) (v ++ r) H64) as [p [Hs [Hp _]]].
  rewrite Hs. exists (p ++ v). split; [reflexivity|].
  rewrite <- app_assoc, Hp.
  replace (9223372036854775808 <=? N.of_nat (length v)) with false by lia.
  rewrite readN_app. reflexivity.
Qed.

(* parsers consume: the rest is a suffix, so fuel = length of input suffices for any count loop *)
Lemma parse_varint_consumes s v r : parse_varint s = Ret (v, r) -> (length r < length s)%nat.
Proof.
  unfold parse_varint. destruct s as [|b t]; [discriminate|]. cbn [length].
  assert (Hle : forall w x y, read_le w t = Ret (x, y) -> (length y <= length t)%nat).
  { intros w x y. unfold read_le, read. destruct (_ <? _)%nat; [discriminate|].
    intros H. injection H as _ <-. rewrite skipn_length. lia. }
  repeat match goal with |- context [if ?c then _ else _] => destruct c end;
    intros H; try (apply Hle in H; lia). injection H as _ <-. lia.
Qed.
