(* Base/Outcome.v — Python exceptions as values. *)
From Coq Require Import List.
Inductive pyexn : Set :=
| E_SCRIPT        (* pycoin ScriptError *)
| E_VALUE         (* ValueError *)
| E_ENCODING      (* pycoin EncodingError *)
| E_STRUCT        (* struct.error *)
| E_INDEX         (* IndexError *)
| E_TYPE          (* TypeError *)
| E_ASSERT        (* AssertionError *)
| E_ATTR          (* AttributeError *)
| E_KEY           (* KeyError *)
| E_VALIDATION    (* ValidationFailureError *)
| E_BADMERKLE     (* BadMerkleRootError *)
| E_BADSPEND      (* BadSpendableError *)
| E_NOPOINT       (* NoSuchPointError *)
| E_SECRET        (* InvalidSecretExponentError *)
| E_PUBPAIR       (* InvalidPublicPairError *)
| E_DER           (* UnexpectedDER *)
| E_OVERFLOW      (* OverflowError *)
| E_OTHER.

Inductive outcome (A : Type) : Type :=
| Ret (a : A)
| Raise (e : pyexn)
| OutOfFuel.
Arguments Ret {A} a.
Arguments Raise {A} e.
Arguments OutOfFuel {A}.

Definition bind {A B} (m : outcome A) (f : A -> outcome B) : outcome B :=
  match m with
  | Ret a => f a
  | Raise e => Raise e
  | OutOfFuel => OutOfFuel
  end.

Declare Scope outcome_scope.
Notation "'do' x <- m ; k" := (bind m (fun x => k))
  (at level 200, x pattern, m at level 100, k at level 200, right associativity) : outcome_scope.
Notation "'do' ' p <- m ; k" := (bind m (fun x => match x with p => k end))
  (at level 200, p pattern, m at level 100, k at level 200, right associativity) : outcome_scope.

Definition is_ret {A} (m : outcome A) : bool := match m with Ret _ => true | _ => false end.

Lemma bind_ret_inv {A B} (m : outcome A) (f : A -> outcome B) b :
  bind m f = Ret b -> exists a, m = Ret a /\ f a = Ret b.
Proof. destruct m; cbn; intros H; try discriminate. eauto. Qed.

Fixpoint mapM {A B} (f : A -> outcome B) (l : list A) : outcome (list B) :=
  match l with
  | nil => Ret nil
  | cons x r => bind (f x) (fun y => bind (mapM f r) (fun ys => Ret (cons y ys)))
  end.
