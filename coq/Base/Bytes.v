(* Base/Bytes.v — Python `bytes` as `list byte`, little/big-endian integer codecs, slicing.
   No axioms.  Used by every model. *)
From Coq Require Export List ZArith NArith Lia Bool.
From Coq Require Export Strings.Byte.
Export ListNotations.
From Coq Require Import ZifyBool ZifyNat ZifyN.

Notation bytes := (list byte).

(* ---- byte <-> number ---------------------------------------------------- *)
Definition b2n (b : byte) : N := Byte.to_N b.
Definition n2b (n : N) : byte :=
  match Byte.of_N (n mod 256) with Some b => b | None => x00 end.
Definition b2z (b : byte) : Z := Z.of_N (b2n b).
Definition z2b (z : Z) : byte := n2b (Z.to_N (z mod 256)).

Lemma b2n_lt b : (b2n b < 256)%N.
Proof. unfold b2n. pose proof (Byte.to_N_bounded b). lia. Qed.

Lemma n2b_b2n b : n2b (b2n b) = b.
Proof.
  unfold n2b, b2n. rewrite N.mod_small by (pose proof (Byte.to_N_bounded b); lia).
  now rewrite Byte.of_to_N.
Qed.

Lemma b2n_n2b n : (n < 256)%N -> b2n (n2b n) = n.
Proof.
  intros H. unfold n2b, b2n. rewrite N.mod_small by exact H.
  destruct (Byte.of_N n) as [b|] eqn:E.
  - now apply Byte.to_of_N.
  - apply Byte.of_N_None_iff in E. lia.
Qed.

Lemma b2n_n2b_mod n : b2n (n2b n) = (n mod 256)%N.
Proof.
  unfold n2b, b2n.
  destruct (Byte.of_N (n mod 256)) as [b|] eqn:E.
  - now apply Byte.to_of_N.
  - apply Byte.of_N_None_iff in E. pose proof (N.mod_lt n 256). lia.
Qed.

Lemma n2b_mod n : n2b (n mod 256) = n2b n.
Proof. unfold n2b. now rewrite N.mod_mod by lia. Qed.

Lemma b2z_range b : (0 <= b2z b < 256)%Z.
Proof. unfold b2z. pose proof (b2n_lt b). lia. Qed.

Lemma z2b_b2z b : z2b (b2z b) = b.
Proof.
  unfold z2b, b2z. pose proof (b2n_lt b).
  rewrite Z.mod_small by lia. rewrite N2Z.id. apply n2b_b2n.
Qed.

Lemma b2z_z2b z : (0 <= z < 256)%Z -> b2z (z2b z) = z.
Proof.
  intros H. unfold z2b, b2z. rewrite Z.mod_small by lia.
  rewrite b2n_n2b by lia. lia.
Qed.

Lemma b2z_z2b_mod z : b2z (z2b z) = (z mod 256)%Z.
Proof.
  unfold z2b, b2z. pose proof (Z.mod_pos_bound z 256 ltac:(lia)).
  rewrite b2n_n2b by lia. lia.
Qed.

Lemma b2n_inj a b : b2n a = b2n b -> a = b.
Proof. intros H. rewrite <- (n2b_b2n a), <- (n2b_b2n b). now rewrite H. Qed.

Lemma b2z_inj a b : b2z a = b2z b -> a = b.
Proof. unfold b2z. intros H. apply b2n_inj. lia. Qed.

Definition byte_eqb (a b : byte) : bool := N.eqb (b2n a) (b2n b).
Lemma byte_eqb_eq a b : byte_eqb a b = true <-> a = b.
Proof.
  unfold byte_eqb. rewrite N.eqb_eq. split; [apply b2n_inj | now intros ->].
Qed.
Lemma byte_eqb_refl a : byte_eqb a a = true.
Proof. now apply byte_eqb_eq. Qed.

Fixpoint bytes_eqb (a b : bytes) : bool :=
  match a, b with
  | [], [] => true
  | x :: a', y :: b' => byte_eqb x y && bytes_eqb a' b'
  | _, _ => false
  end.
Lemma bytes_eqb_eq a b : bytes_eqb a b = true <-> a = b.
Proof.
  revert b; induction a as [|x a IH]; intros [|y b]; cbn [bytes_eqb]; try (split; congruence).
  - rewrite andb_true_iff, byte_eqb_eq, IH. split.
    + intros [-> ->]; reflexivity.
    + intros H; injection H; auto.
Qed.
Lemma bytes_eqb_refl a : bytes_eqb a a = true.
Proof. now apply bytes_eqb_eq. Qed.

(* ---- Python slicing ----------------------------------------------------- *)
Definition take {A} (n : nat) (l : list A) := firstn n l.
Definition drop {A} (n : nat) (l : list A) := skipn n l.
(* s[a:b] for 0 <= a, 0 <= b *)
Definition slice {A} (a b : nat) (l : list A) := firstn (b - a) (skipn a l).

(* ---- little-endian / big-endian fixed width ----------------------------- *)
Fixpoint le_encode (w : nat) (v : N) : bytes :=
  match w with
  | O => []
  | S w' => n2b v :: le_encode w' (v / 256)
  end.

Fixpoint le_decode (bs : bytes) : N :=
  match bs with
  | [] => 0
  | b :: r => b2n b + 256 * le_decode r
  end%N.

Definition be_encode (w : nat) (v : N) : bytes := rev (le_encode w v).
Definition be_decode (bs : bytes) : N := le_decode (rev bs).

Lemma le_encode_length w v : length (le_encode w v) = w.
Proof. revert v; induction w; cbn; intros; auto. Qed.

Lemma be_encode_length w v : length (be_encode w v) = w.
Proof. unfold be_encode. now rewrite rev_length, le_encode_length. Qed.

Lemma le_decode_encode w v : (v < 256 ^ N.of_nat w)%N -> le_decode (le_encode w v) = v.
Proof.
  revert v; induction w as [|w IH]; intros v H.
  - cbn in *. lia.
  - cbn [le_encode le_decode]. rewrite b2n_n2b_mod.
    rewrite IH.
    + pose proof (N.div_mod v 256). lia.
    + rewrite Nat2N.inj_succ, N.pow_succ_r' in H.
      apply N.div_lt_upper_bound; lia.
Qed.

Lemma le_decode_bound bs : (le_decode bs < 256 ^ N.of_nat (length bs))%N.
Proof.
  induction bs as [|b r IH]; cbn [le_decode length].
  - cbn. lia.
  - rewrite Nat2N.inj_succ, N.pow_succ_r'. pose proof (b2n_lt b). lia.
Qed.

Lemma le_encode_decode bs : le_encode (length bs) (le_decode bs) = bs.
Proof.
  induction bs as [|b r IH]; cbn [le_encode le_decode length]; [reflexivity|].
  pose proof (b2n_lt b) as Hb.
  assert (H1 : ((b2n b + 256 * le_decode r) mod 256 = b2n b)%N).
  { symmetry. apply (N.mod_unique _ 256 (le_decode r)); lia. }
  assert (H2 : ((b2n b + 256 * le_decode r) / 256 = le_decode r)%N).
  { symmetry. apply (N.div_unique _ 256 _ (b2n b)); lia. }
  f_equal.
  - rewrite <- n2b_mod, H1. apply n2b_b2n.
  - rewrite H2. exact IH.
Qed.

Lemma be_decode_encode w v : (v < 256 ^ N.of_nat w)%N -> be_decode (be_encode w v) = v.
Proof. intros. unfold be_decode, be_encode. rewrite rev_involutive. now apply le_decode_encode. Qed.

Lemma be_encode_decode bs : be_encode (length bs) (be_decode bs) = bs.
Proof.
  unfold be_decode, be_encode. rewrite <- (rev_length bs), le_encode_decode.
  apply rev_involutive.
Qed.

Lemma le_decode_app a b :
  le_decode (a ++ b) = (le_decode a + 256 ^ N.of_nat (length a) * le_decode b)%N.
Proof.
  induction a as [|x a IH]; cbn [app le_decode length].
  - change (N.of_nat 0) with 0%N. rewrite N.pow_0_r. destruct (le_decode b); reflexivity.
  - rewrite IH, Nat2N.inj_succ, N.pow_succ_r'. ring.
Qed.

(* ---- misc list helpers --------------------------------------------------- *)
Lemma firstn_app_exact {A} (a b : list A) : firstn (length a) (a ++ b) = a.
Proof. rewrite firstn_app, Nat.sub_diag, firstn_all. cbn. apply app_nil_r. Qed.

Lemma skipn_app_exact {A} (a b : list A) : skipn (length a) (a ++ b) = b.
Proof. rewrite skipn_app, Nat.sub_diag, skipn_all. reflexivity. Qed.

Fixpoint repeatb (b : byte) (n : nat) : bytes :=
  match n with O => [] | S k => b :: repeatb b k end.

Definition last_opt {A} (l : list A) : option A :=
  match rev l with [] => None | x :: _ => Some x end.
