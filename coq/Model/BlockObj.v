(* Model/BlockObj.v — a pycoin Block OBJECT with its mutable state, for histories of operations on one object:
   hash()/id()/str(), as_bin() of a header-only object, set_nonce(n), and plain attribute assignment to the five
   other header fields (b.timestamp = ..., b.merkle_root = ..., ...).  No proofs here.

   What the code does (pycoin/block.py): hash() runs
       if not hasattr(self, "__hash"): self.__hash = self._calculate_hash()
       return self.__hash
   Inside the class body `self.__hash` is name-mangled to the attribute `_Block__hash`, but the string literal
   "__hash" given to hasattr is not mangled, and no attribute of that literal name is ever created.  So the test is
   always true: every call recomputes the hash, stores it in `_Block__hash` (o_memo below) and returns it.
   set_nonce has the same never-true hasattr test before `del self.__hash`, so it only assigns the nonce. *)
From PV Require Import Base.Bytes Base.Outcome Base.Varint Model.Block.
Local Open Scope outcome_scope.

Record block_obj := mkObj {
  o_header : header;            (* the six header attributes *)
  o_memo : option bytes }.      (* the attribute _Block__hash, absent until hash() ran once *)

(* hasattr(self, "__hash") — the un-mangled literal name; never present *)
Definition hasattr_literal_hash (o : block_obj) : bool := false.

Inductive block_op :=
| OpHash                         (* b.hash() *)
| OpId                           (* b.id(), also what str(b)/repr(b) show *)
| OpStreamHeader                 (* b.stream_header(f) / as_bin() of a header-only object *)
| OpSetNonce (n : N)             (* b.set_nonce(n) *)
| OpSetVersion (v : N)           (* b.version = v *)
| OpSetPrev (p : bytes)          (* b.previous_block_hash = p *)
| OpSetRoot (m : bytes)          (* b.merkle_root = m *)
| OpSetTimestamp (t : N)         (* b.timestamp = t *)
| OpSetDifficulty (d : N).       (* b.difficulty = d *)

Definition with_header (o : block_obj) (h : header) : block_obj := mkObj h (o_memo o).

Section Obj.
Variable dsha256 : bytes -> bytes.

(* hash(): returns the value and the new object state; an exception (struct.error of a field that does not fit)
   leaves the object as it was *)
Definition obj_hash (o : block_obj) : outcome (bytes * block_obj) :=
  if hasattr_literal_hash o then
    match o_memo o with
    | Some x => Ret (x, o)
    | None => Raise E_ATTR
    end
  else
    do x <- block_hash dsha256 (o_header o);
    Ret (x, mkObj (o_header o) (Some x)).

Definition obj_set_nonce (o : block_obj) (n : N) : block_obj :=
  let o' := with_header o (set_nonce (o_header o) n) in
  if hasattr_literal_hash o' then mkObj (o_header o') None else o'.

(* one operation: the observation it produces (None for assignments) and the next state *)
Definition obj_step (o : block_obj) (op : block_op) : option (outcome bytes) * block_obj :=
  let h := o_header o in
  match op with
  | OpHash =>
    match obj_hash o with
    | Ret (x, o') => (Some (Ret x), o')
    | Raise e => (Some (Raise e), o)
    | OutOfFuel => (Some OutOfFuel, o)
    end
  | OpId =>
    match obj_hash o with
    | Ret (x, o') => (Some (Ret (rev x)), o')
    | Raise e => (Some (Raise e), o)
    | OutOfFuel => (Some OutOfFuel, o)
    end
  | OpStreamHeader => (Some (stream_header h), o)
  | OpSetNonce n => (None, obj_set_nonce o n)
  | OpSetVersion v =>
    (None, with_header o (mkHeader v (h_prev h) (h_merkle_root h) (h_timestamp h) (h_difficulty h) (h_nonce h)))
  | OpSetPrev p =>
    (None, with_header o (mkHeader (h_version h) p (h_merkle_root h) (h_timestamp h) (h_difficulty h) (h_nonce h)))
  | OpSetRoot m =>
    (None, with_header o (mkHeader (h_version h) (h_prev h) m (h_timestamp h) (h_difficulty h) (h_nonce h)))
  | OpSetTimestamp t =>
    (None, with_header o (mkHeader (h_version h) (h_prev h) (h_merkle_root h) t (h_difficulty h) (h_nonce h)))
  | OpSetDifficulty d =>
    (None, with_header o (mkHeader (h_version h) (h_prev h) (h_merkle_root h) (h_timestamp h) d (h_nonce h)))
  end.

(* a history on one object: the list of observations, in order *)
Fixpoint obj_run (o : block_obj) (ops : list block_op) : list (outcome bytes) :=
  match ops with
  | [] => []
  | op :: r =>
    let '(obs, o') := obj_step o op in
    match obs with
    | Some x => x :: obj_run o' r
    | None => obj_run o' r
    end
  end.
End Obj.

(* ---- the memo-free specification: only the current field values matter ---------------------------------- *)
Definition apply_set (h : header) (op : block_op) : header :=
  match op with
  | OpSetNonce n => mkHeader (h_version h) (h_prev h) (h_merkle_root h) (h_timestamp h) (h_difficulty h) n
  | OpSetVersion v => mkHeader v (h_prev h) (h_merkle_root h) (h_timestamp h) (h_difficulty h) (h_nonce h)
  | OpSetPrev p => mkHeader (h_version h) p (h_merkle_root h) (h_timestamp h) (h_difficulty h) (h_nonce h)
  | OpSetRoot m => mkHeader (h_version h) (h_prev h) m (h_timestamp h) (h_difficulty h) (h_nonce h)
  | OpSetTimestamp t => mkHeader (h_version h) (h_prev h) (h_merkle_root h) t (h_difficulty h) (h_nonce h)
  | OpSetDifficulty d => mkHeader (h_version h) (h_prev h) (h_merkle_root h) (h_timestamp h) d (h_nonce h)
  | _ => h
  end.

Section ObjSpec.
Variable dsha256 : bytes -> bytes.
(* what every observation must be: computed from the header bytes of the CURRENT fields, nothing else *)
Fixpoint spec_run (h : header) (ops : list block_op) : list (outcome bytes) :=
  match ops with
  | [] => []
  | OpHash :: r => (do s <- stream_header h; Ret (dsha256 s)) :: spec_run h r
  | OpId :: r => (do s <- stream_header h; Ret (rev (dsha256 s))) :: spec_run h r
  | OpStreamHeader :: r => stream_header h :: spec_run h r
  | op :: r => spec_run (apply_set h op) r
  end.
End ObjSpec.
