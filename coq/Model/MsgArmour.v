(* Model/MsgArmour.v — the armoured text form of pycoin/contrib/msg_signing.py:
   MessageSigner.signature_template (filled by sign_message(verbose=True)), parse_sections, parse_signed_message.
   Transcription, no proofs.  A Python `str` is a list of code points (N).

   Hand-modelled str/re primitives (tied to CPython by the correspondence run only):
     pat in s, s.startswith(pat), s.split(pat, 1), s.replace("\r\n","\n"), s.replace("\n","\r\n"), s.split("\n"),
     s.strip() (table of chr(c).isspace() regenerated from the interpreter: Gen/GenMsgMagic.v py_space),
     label.lower() == "address" (table lower_adres), and
     re.split("\n-----BEGIN [A-Z ]*SIGNATURE-----\n", body): a match at a position exists iff the text there starts
     with "\n-----BEGIN ", the maximal run of [A-Z ] characters that follows ends with "SIGNATURE" and is followed by
     "-----\n" (the class contains every letter of SIGNATURE and not '-', so backtracking can only stop at the end of
     the run); matches are taken leftmost, non-overlapping. *)
From PV Require Import Base.Bytes Base.Outcome Gen.GenMsgMagic.
Local Open Scope N_scope.

Definition ustr := list N.
Definition U (b : list byte) : ustr := map b2n b.          (* an ASCII literal *)

Fixpoint ueqb (a b : ustr) : bool :=
  match a, b with
  | [], [] => true
  | x :: a', y :: b' => (x =? y) && ueqb a' b'
  | _, _ => false
  end.

(* s.startswith(pat) *)
Fixpoint is_prefix (pat s : ustr) : bool :=
  match pat, s with
  | [], _ => true
  | a :: pat', b :: s' => (a =? b) && is_prefix pat' s'
  | _ :: _, [] => false
  end.

(* pat in s *)
Fixpoint contains (pat s : ustr) : bool :=
  is_prefix pat s || match s with [] => false | _ :: r => contains pat r end.

(* s.split(pat, 1) when pat occurs: (text before the first occurrence, text after it) *)
Fixpoint split_first (pat s : ustr) : option (ustr * ustr) :=
  if is_prefix pat s then Some ([], skipn (length pat) s)
  else match s with
       | [] => None
       | c :: r => match split_first pat r with Some (b, a) => Some (c :: b, a) | None => None end
       end.

(* s.replace("\r\n", "\n") *)
Fixpoint replace_crlf (s : ustr) : ustr :=
  match s with
  | 13 :: 10 :: r => 10 :: replace_crlf r
  | c :: r => c :: replace_crlf r
  | [] => []
  end.
(* s.replace("\n", "\r\n") *)
Definition replace_lf_crlf (s : ustr) : ustr := flat_map (fun c => if c =? 10 then [13; 10] else [c]) s.

(* s.split("\n") *)
Fixpoint split_nl_aux (s cur : ustr) : list ustr :=
  match s with
  | [] => [rev cur]
  | c :: r => if c =? 10 then rev cur :: split_nl_aux r [] else split_nl_aux r (c :: cur)
  end.
Definition split_nl (s : ustr) : list ustr := split_nl_aux s [].

(* s.strip() *)
Definition is_space (c : N) : bool := existsb (N.eqb c) py_space.
Fixpoint lstrip_u (s : ustr) : ustr :=
  match s with [] => [] | c :: r => if is_space c then lstrip_u r else s end.
Definition strip (s : ustr) : ustr := rev (lstrip_u (rev (lstrip_u s))).

(* label.lower() == "address" *)
Definition lower1 (c : N) : option N :=
  match find (fun e => fst e =? c) lower_adres with Some e => Some (snd e) | None => None end.
Fixpoint lower_is (target s : ustr) : bool :=
  match target, s with
  | [], [] => true
  | t :: target', c :: s' => match lower1 c with Some l => (l =? t) && lower_is target' s' | None => false end
  | _, _ => false
  end.

(* ---- the regular expression "\n-----BEGIN [A-Z ]*SIGNATURE-----\n" ------------------------------- *)
Definition re_prefix : ustr := U lit_begin_re_prefix.              (* "\n-----BEGIN " *)
Definition re_word : ustr := firstn 9 (U lit_begin_re_suffix).     (* "SIGNATURE" *)
Definition re_tail : ustr := skipn 9 (U lit_begin_re_suffix).      (* "-----\n" *)
Definition in_class (c : N) : bool := ((65 <=? c) && (c <=? 90)) || (c =? 32).
Fixpoint span_class (s : ustr) : ustr * ustr :=
  match s with
  | c :: r => if in_class c then let '(a, b) := span_class r in (c :: a, b) else ([], s)
  | [] => ([], [])
  end.
Definition ends_with (suf s : ustr) : bool := is_prefix (rev suf) (rev s).

(* a match starting exactly here: the text after the match *)
Definition match_marker (s : ustr) : option ustr :=
  if is_prefix re_prefix s then
    let '(run, rest) := span_class (skipn (length re_prefix) s) in
    if ends_with re_word run && is_prefix re_tail rest then Some (skipn (length re_tail) rest) else None
  else None.

(* leftmost match: (text before it, text after it) *)
Fixpoint find_marker (s : ustr) : option (ustr * ustr) :=
  match match_marker s with
  | Some rest => Some ([], rest)
  | None =>
    match s with
    | [] => None
    | c :: r => match find_marker r with Some (b, a) => Some (c :: b, a) | None => None end
    end
  end.

(* re.split: every match consumes at least one character, so fuel = length of the text suffices *)
Fixpoint resplit (fuel : nat) (s : ustr) : list ustr :=
  match fuel with
  | O => [s]
  | S f => match find_marker s with None => [s] | Some (b, a) => b :: resplit f a end
  end.

(* ---- MessageSigner.parse_sections ------------------------------------------------------------------ *)
Definition parse_sections (msg_in : ustr) : outcome (ustr * ustr) :=
  let dos_nl := contains [13; 10] msg_in in
  let msg_in := if dos_nl then replace_crlf msg_in else msg_in in
  match split_first (U lit_signed_message) msg_in with
  | None => Raise E_ENCODING                                   (* "expecting text SIGNED MESSAGE somewhere" *)
  | Some (_, body) =>
    let parts := resplit (length body) body in
    if (length parts <? 2)%nat then Raise E_ENCODING           (* "expected BEGIN SIGNATURE line" *)
    else
      let msg := concat (removelast parts) in
      let hdr := last parts [] in
      Ret (if dos_nl then replace_lf_crlf msg else msg, hdr)
  end.

(* the `for line in hdr` loop that looks for the address *)
Fixpoint find_addr (hdr : list ustr) : option ustr :=
  match hdr with
  | [] => None
  | line :: r =>
    if is_prefix (U lit_end) line then None                    (* startswith("-----END"): break, addr stays None *)
    else
      match split_first [58] line with                         (* ":" in line ; line.split(":", 1) *)
      | Some (label, after) =>
        if lower_is (U lit_address) (strip label)
        then Some (strip (match split_first [58] after with Some (v, _) => v | None => after end))   (* line.split(":")[1].strip() *)
        else find_addr r
      | None => Some line
      end
  end.

(* ---- MessageSigner.parse_signed_message -------------------------------------------------------------- *)
Definition parse_signed_message (msg_in : ustr) : outcome (ustr * ustr * ustr) :=
  match parse_sections msg_in with
  | Raise e => Raise e
  | OutOfFuel => OutOfFuel
  | Ret (msg, hdr_str) =>
    let hdr := filter (fun l => negb (ueqb l [])) (map strip (split_nl hdr_str)) in
    match rev hdr with
    | [] => Raise E_INDEX                                      (* hdr[-1] on an empty list *)
    | lastl :: before =>
      if negb (contains (U lit_end) lastl) then Raise E_ENCODING     (* "expecting END on last line" *)
      else
        match before with
        | [] => Raise E_INDEX                                  (* hdr[-2] *)
        | sig :: _ =>
          match find_addr hdr with
          | None => Raise E_ENCODING
          | Some addr =>
            if ueqb addr [] || ueqb addr sig then Raise E_ENCODING   (* "Could not find address" *)
            else Ret (msg, addr, sig)
          end
        end
    end
  end.

(* ---- signature_template.format(msg=, sig=, addr=, net_name=) ------------------------------------------ *)
Definition armour (net_name msg addr sig : ustr) : ustr :=
  flat_map (fun pc => match pc with
                      | TLit b => U b
                      | TNet => net_name
                      | TMsg => msg
                      | TAddr => addr
                      | TSig => sig
                      end) armour_pieces.
