(* Model/TxObject.v — a Tx OBJECT and its histories (C07 / C20).
   pycoin's Tx, TxIn, TxOut are mutable Python objects: a program serialises or checks a transaction, changes it
   (the official setters set_witness / set_unspents, but also plain attribute assignment tx.txs_in[i].witness = ...,
   tx.txs_in[i].script = ..., append / pop / clear on txs_in and txs_out — Tx.parse itself assigns witnesses that
   way) and serialises or checks it again.  This file transcribes, as the code is in /repo today, what each
   mutator does to the object's fields and what each observer returns: no observer method stores anything into the
   object or at module level (generated scan Gen/GenTxConsts.v: observer_writes = []), so an observer is a function
   of the CURRENT fields and leaves the state alone.  A history is a list of operations applied to one object.
   Aliasing (the same TxIn object placed twice in txs_in) is not modelled here.  No proofs. *)
From PV Require Import Base.Bytes Base.Outcome Base.Varint Gen.GenTxConsts Model.TxWire Model.TxCheck.
Local Open Scope outcome_scope.

Record txobj := mk_obj { ob_tx : tx; ob_unspents : list (option txout) }.

Inductive mut :=
| MSetWitness (i : nat) (w : list bytes)        (* tx.set_witness(i, w)            -> txs_in[i].witness = tuple(w) *)
| MAssignWitness (i : nat) (w : list bytes)     (* tx.txs_in[i].witness = w *)
| MExtendWitness (i : nat) (w : list bytes)     (* tx.txs_in[i].witness += w   (IN PLACE: list.extend / append on the stored list) *)
| MAssignInScript (i : nat) (s : bytes)         (* tx.txs_in[i].script = s   (what signing does) *)
| MAssignInHash (i : nat) (h : bytes)           (* tx.txs_in[i].previous_hash = h *)
| MAssignInIndex (i : nat) (z : Z)              (* tx.txs_in[i].previous_index = z *)
| MAssignInSeq (i : nat) (z : Z)                (* tx.txs_in[i].sequence = z *)
| MAppendIn (x : txin)                          (* tx.txs_in.append(TxIn(...)) with x's witness assigned *)
| MPopIn                                        (* tx.txs_in.pop() *)
| MClearIns                                     (* tx.txs_in.clear() *)
| MAppendOut (o : txout)                        (* tx.txs_out.append(TxOut(...)) *)
| MPopOut
| MClearOuts
| MAssignOutValue (i : nat) (z : Z)             (* tx.txs_out[i].coin_value = z *)
| MAssignOutScript (i : nat) (s : bytes)        (* tx.txs_out[i].script = s *)
| MAssignVersion (z : Z)                        (* tx.version = z *)
| MAssignLockTime (z : Z)                       (* tx.lock_time = z *)
| MSetUnspents (us : list (option txout))       (* tx.set_unspents(us): ValueError unless len(us) == len(txs_in) *)
| MAssignUnspents (us : list (option txout)).   (* tx.unspents = us *)

(* l[i] = f(l[i]) for 0 <= i: IndexError when i >= len(l) *)
Fixpoint upd {A} (i : nat) (f : A -> A) (l : list A) : outcome (list A) :=
  match l, i with
  | [], _ => Raise E_INDEX
  | x :: r, O => Ret (f x :: r)
  | x :: r, S k => do r' <- upd k f r; Ret (x :: r')
  end.
(* l.pop(): IndexError on an empty list *)
Definition pop_last {A} (l : list A) : outcome (list A) :=
  match l with [] => Raise E_INDEX | _ => Ret (removelast l) end.

Definition with_ins (ob : txobj) (ins : list txin) : txobj :=
  mk_obj (mk_tx (tx_version (ob_tx ob)) ins (tx_outs (ob_tx ob)) (tx_lock_time (ob_tx ob))) (ob_unspents ob).
Definition with_outs (ob : txobj) (outs : list txout) : txobj :=
  mk_obj (mk_tx (tx_version (ob_tx ob)) (tx_ins (ob_tx ob)) outs (tx_lock_time (ob_tx ob))) (ob_unspents ob).

Definition apply_mut (m : mut) (ob : txobj) : outcome txobj :=
  let t := ob_tx ob in
  match m with
  | MSetWitness i w | MAssignWitness i w =>
    do ins <- upd i (fun x => mk_txin (ti_hash x) (ti_index x) (ti_script x) (ti_sequence x) w) (tx_ins t); Ret (with_ins ob ins)
  | MExtendWitness i w =>
    do ins <- upd i (fun x => mk_txin (ti_hash x) (ti_index x) (ti_script x) (ti_sequence x) (ti_witness x ++ w)) (tx_ins t); Ret (with_ins ob ins)
  | MAssignInScript i s =>
    do ins <- upd i (fun x => mk_txin (ti_hash x) (ti_index x) s (ti_sequence x) (ti_witness x)) (tx_ins t); Ret (with_ins ob ins)
  | MAssignInHash i h =>
    do ins <- upd i (fun x => mk_txin h (ti_index x) (ti_script x) (ti_sequence x) (ti_witness x)) (tx_ins t); Ret (with_ins ob ins)
  | MAssignInIndex i z =>
    do ins <- upd i (fun x => mk_txin (ti_hash x) z (ti_script x) (ti_sequence x) (ti_witness x)) (tx_ins t); Ret (with_ins ob ins)
  | MAssignInSeq i z =>
    do ins <- upd i (fun x => mk_txin (ti_hash x) (ti_index x) (ti_script x) z (ti_witness x)) (tx_ins t); Ret (with_ins ob ins)
  | MAppendIn x => Ret (with_ins ob (tx_ins t ++ [x]))
  | MPopIn => do ins <- pop_last (tx_ins t); Ret (with_ins ob ins)
  | MClearIns => Ret (with_ins ob [])
  | MAppendOut o => Ret (with_outs ob (tx_outs t ++ [o]))
  | MPopOut => do outs <- pop_last (tx_outs t); Ret (with_outs ob outs)
  | MClearOuts => Ret (with_outs ob [])
  | MAssignOutValue i z => do outs <- upd i (fun o => mk_txout z (to_script o)) (tx_outs t); Ret (with_outs ob outs)
  | MAssignOutScript i s => do outs <- upd i (fun o => mk_txout (to_value o) s) (tx_outs t); Ret (with_outs ob outs)
  | MAssignVersion z => Ret (mk_obj (mk_tx z (tx_ins t) (tx_outs t) (tx_lock_time t)) (ob_unspents ob))
  | MAssignLockTime z => Ret (mk_obj (mk_tx (tx_version t) (tx_ins t) (tx_outs t) z) (ob_unspents ob))
  | MSetUnspents us =>
    if (length us =? length (tx_ins t))%nat then Ret (mk_obj t us) else Raise E_VALUE
  | MAssignUnspents us => Ret (mk_obj t us)
  end.

Inductive obs :=
| OAsBin (blank_solutions include_unspents include_witness_data : bool)
| OAsHex (blank_solutions include_unspents include_witness_data : bool)
| OHash (hash_type : option Z)
| OWHash | OBlankedHash | OId | OWId
| OHasWitness | OIsCoinbase | OMissingUnspents
| OCheck (max_money max_tx_size : Z).            (* tx.check() on a class with these limits *)

Inductive oval := RBytes (b : bytes) | RBool (b : bool) | RNone.

Section Observe.
Variable H : bytes -> bytes.

Definition observe (o : obs) (ob : txobj) : outcome oval :=
  let t := ob_tx ob in
  match o with
  | OAsBin bl iu iw => do b <- tx_as_bin bl iu iw t (ob_unspents ob); Ret (RBytes b)
  | OAsHex bl iu iw => do b <- tx_as_hex bl iu iw t (ob_unspents ob); Ret (RBytes b)
  | OHash ht => do b <- tx_hash H t ht; Ret (RBytes b)
  | OWHash => do b <- tx_w_hash H t; Ret (RBytes b)
  | OBlankedHash => do b <- tx_blanked_hash H t; Ret (RBytes b)
  | OId => do b <- tx_id H t; Ret (RBytes b)
  | OWId => do b <- tx_w_id H t; Ret (RBytes b)
  | OHasWitness => Ret (RBool (has_witness_data t))
  | OIsCoinbase => Ret (RBool (tx_is_coinbase t))
  | OMissingUnspents => Ret (RBool (missing_unspents t (ob_unspents ob)))
  | OCheck mm ms =>
    (* every element of txs_in is its own object in these histories: identity tags 0, 1, 2, ... *)
    do _ <- check mm ms (map N.of_nat (seq 0 (length (tx_ins t)))) t; Ret RNone
  end.

Inductive op := Mut (m : mut) | Obs (o : obs).

(* the trace of a history: what every operation returned / raised.  A mutator that raises leaves the object as it
   was (the IndexError / ValueError comes before any store); an observer never changes it. *)
Fixpoint run (ops : list op) (ob : txobj) : list (outcome oval) :=
  match ops with
  | [] => []
  | Mut m :: r =>
    match apply_mut m ob with
    | Ret ob' => Ret RNone :: run r ob'
    | Raise e => Raise e :: run r ob
    | OutOfFuel => OutOfFuel :: run r ob
    end
  | Obs o :: r => observe o ob :: run r ob
  end.
End Observe.

(* the fields after a history *)
Fixpoint state_after (ops : list op) (ob : txobj) : txobj :=
  match ops with
  | [] => ob
  | Mut m :: r => match apply_mut m ob with Ret ob' => state_after r ob' | _ => state_after r ob end
  | Obs _ :: r => state_after r ob
  end.
Definition is_mut (o : op) : bool := match o with Mut _ => true | Obs _ => false end.

(* ---- several live objects ("a world"): every operation names the object it is applied to ---------------------------
   The Python objects of one program are separate: a Tx, its TxIn list, each TxIn and each witness list belong to ONE
   transaction.  In the model that is the list of objects with an update at one position; what has to be shown about the
   implementation is that it behaves like this model, i.e. that no two objects share mutable state (seed C07-e1 gave every
   default-constructed TxIn the same witness list). *)
Fixpoint wupd (k : nat) (ob' : txobj) (w : list txobj) : list txobj :=
  match w, k with
  | [], _ => []
  | _ :: r, O => ob' :: r
  | x :: r, S j => x :: wupd j ob' r
  end.

Section World.
Variable H : bytes -> bytes.
(* one step on object k: the result, and the world afterwards; a missing object is an IndexError and changes nothing *)
Definition wstep (k : nat) (o : op) (w : list txobj) : outcome oval * list txobj :=
  match nth_error w k with
  | None => (Raise E_INDEX, w)
  | Some ob =>
    match o with
    | Obs ob_ => (observe H ob_ ob, w)
    | Mut m =>
      match apply_mut m ob with
      | Ret ob' => (Ret RNone, wupd k ob' w)
      | Raise e => (Raise e, w)
      | OutOfFuel => (OutOfFuel, w)
      end
    end
  end.
(* the trace, every result tagged with the object it came from *)
Fixpoint wrun (ops : list (nat * op)) (w : list txobj) : list (nat * outcome oval) :=
  match ops with
  | [] => []
  | (k, o) :: r => let '(res, w') := wstep k o w in (k, res) :: wrun r w'
  end.
End World.
