(* Model/MerkleBlock.v — pycoin/message/make_parser_and_packer.py: _recurse, post_unpack_merkleblock, and the
   parse of the "merkleblock" message  "header:z total_transactions:L hashes:[#] flags:[1]"  by
   Streamer.parse_struct (pycoin/serialize/streamer.py).  No proofs here.  double_sha256 is a Section variable. *)
From PV Require Import Base.Bytes Base.Outcome Base.Varint Model.Block.
Local Open Scope outcome_scope.

(* while count > 1: level_widths.append(count); count += 1; count //= 2 *)
Fixpoint widths_loop (fuel : nat) (count : N) (acc : list N) : outcome (list N) :=
  if (1 <? count)%N then
    match fuel with
    | O => OutOfFuel
    | S f => widths_loop f ((count + 1) / 2)%N (acc ++ [count])
    end
  else Ret acc.

(* ...; level_widths.append(1); level_widths.reverse() *)
Definition level_widths (total : N) : outcome (list N) :=
  do l <- widths_loop (S (N.to_nat (N.size total))) total [];
  Ret (rev (l ++ [1%N])).

(* idx, r = divmod(flag_index, 8); mask = 1 << r; flags[idx] & mask == 0   (IndexError past the end) *)
Definition flag_is_zero (flags : bytes) (flag_index : nat) : outcome bool :=
  match nth_error flags (flag_index / 8) with
  | None => Raise E_INDEX
  | Some b => Ret (N.land (b2n b) (N.shiftl 1 (N.of_nat (flag_index mod 8))) =? 0)%N
  end.

Section MerkleBlock.
Variable dsha256 : bytes -> bytes.

(* _recurse.  `hashes` is the list still to be consumed, in wire order: the Python reverses the list once and
   pop()s from its end, which is taking the head here.  Result: (hash, flag_index, hashes left, tx_acc).
   The Python recursion ends because level_index grows up to len(level_widths) - 1; here `depth` is the fuel. *)
Fixpoint recurse (depth : nat) (level_widths : list N) (level_index : nat) (node_index : N)
    (hashes : list bytes) (flags : bytes) (flag_index : nat) (tx_acc : list bytes)
    : outcome (bytes * nat * list bytes * list bytes) :=
  match depth with
  | O => OutOfFuel
  | S d =>
    do z <- flag_is_zero flags flag_index;
    let flag_index := S flag_index in
    if z then
      match hashes with
      | [] => Raise E_INDEX                                   (* pop from empty list *)
      | h :: rest => Ret (h, flag_index, rest, tx_acc)
      end
    else if Z.of_nat level_index =? Z.of_nat (length level_widths) - 1 then
      match hashes with
      | [] => Raise E_INDEX
      | h :: rest => Ret (h, flag_index, rest, tx_acc ++ [h])
      end
    else
      do '(left_hash, flag_index, hashes, tx_acc) <-
         recurse d level_widths (S level_index) (node_index * 2)%N hashes flags flag_index tx_acc;
      match nth_error level_widths (S level_index) with
      | None => Raise E_INDEX
      | Some w =>
        if (node_index * 2 + 1 <? w)%N then
          do '(right_hash, flag_index, hashes, tx_acc) <-
             recurse d level_widths (S level_index) (node_index * 2 + 1)%N hashes flags flag_index tx_acc;
          if bytes_eqb left_hash right_hash then Raise E_VALUE
          else Ret (dsha256 (left_hash ++ right_hash), flag_index, hashes, tx_acc)
        else Ret (dsha256 (left_hash ++ left_hash), flag_index, hashes, tx_acc)
      end
  end%Z.

(* post_unpack_merkleblock(d, f) on d = {header, total_transactions, hashes, flags}; returns d["tx_hashes"] *)
Definition post_unpack (total : N) (hashes : list bytes) (flags : bytes) (root : bytes) : outcome (list bytes) :=
  do ws <- level_widths total;
  do '(left_hash, flag_index, rest, tx_acc) <- recurse (length ws) ws 0 0%N hashes flags 0 [];
  match rest with
  | _ :: _ => Raise E_VALUE                                                   (* extra hashes *)
  | [] =>
    let idx := (flag_index - 1) / 8 in
    let r := (flag_index - 1) mod 8 in
    if negb (Z.of_nat idx =? Z.of_nat (length flags) - 1)%Z then Raise E_VALUE (* not enough flags consumed *)
    else match nth_error flags idx with
    | None => Raise E_INDEX
    | Some b =>
      if (N.shiftl 1 (N.of_nat r + 1) - 1 <? b2n b)%N then Raise E_VALUE       (* unconsumed 1 flag bits set *)
      else if negb (bytes_eqb left_hash root) then Raise E_VALUE              (* merkle root does not match *)
      else Ret tx_acc
    end
  end.

(* "[#]": count = parse_satoshi_int(f); count times f.read(32).  Reads past the end return short or empty
   strings silently; the stream is then exhausted and the count of the NEXT field (`ord(f.read(1))`) raises
   TypeError.  The model folds that in: too few bytes for the announced count => Raise E_TYPE.  (For counts
   beyond memory the real loop dies with MemoryError or never finishes; time and memory are not modelled.) *)
Fixpoint chunks32 (n : nat) (s : bytes) : list bytes * bytes :=
  match n with
  | O => ([], s)
  | S k => let '(l, r) := chunks32 k (skipn 32 s) in (firstn 32 s :: l, r)
  end.
Definition parse_hash_array_then_more : parser (list bytes) := fun s =>
  do '(count, s) <- parse_varint s;
  if (N.of_nat (length s) <? 32 * count)%N then Raise E_TYPE
  else Ret (chunks32 (N.to_nat count) s).

(* "[1]": count, then count times struct.unpack("B", f.read(1)): struct.error at the end of the stream *)
Definition parse_byte_array : parser bytes := fun s =>
  do '(count, s) <- parse_varint s;
  if (N.of_nat (length s) <? count)%N then Raise E_STRUCT
  else Ret (read (N.to_nat count) s).

(* network.message.parse("merkleblock", data)["tx_hashes"]; trailing bytes are ignored *)
Definition parse_merkleblock (data : bytes) : outcome (list bytes) :=
  do '(h, s) <- parse_header data;
  do '(total, s) <- read_le 4 s;
  do '(hashes, s) <- parse_hash_array_then_more s;
  do '(flags, s) <- parse_byte_array s;
  post_unpack total hashes flags (h_merkle_root h).
End MerkleBlock.
