(* Model/EcdsaHist.v — histories of calls.
   The code in /repo keeps NO state between calls of deterministic_generate_k / sign / verify / recover: the
   model of a history of calls is `map` of the model function over the history (run_stateless).
   To say what a memoising implementation would have to satisfy, `memo_run` models the generic
   module-level memo  `k = key(args); if k in cache: return cache[k]; r = f(args); cache[k] = r; return r`
   for an arbitrary key function (Python's hash() of the argument tuple is one such function). No proofs here. *)
From Coq Require Import List.
Import ListNotations.

Section Hist.
  Variables A B K : Type.
  Variable f : A -> B.                   (* the stateless function (the model of the Python function) *)
  Variable key : A -> K.                 (* the memo key *)
  Variable key_eqb : K -> K -> bool.

  Definition run_stateless (h : list A) : list B := map f h.

  Fixpoint lookup (k : K) (st : list (K * B)) : option B :=
    match st with
    | [] => None
    | (k', b) :: r => if key_eqb k k' then Some b else lookup k r
    end.

  Fixpoint memo_run (st : list (K * B)) (h : list A) : list B :=
    match h with
    | [] => []
    | c :: r =>
      match lookup (key c) st with
      | Some b => b :: memo_run st r
      | None => let b := f c in b :: memo_run ((key c, b) :: st) r
      end
    end.
End Hist.
