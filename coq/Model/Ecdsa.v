(* Model/Ecdsa.v — pycoin/ecdsa/Generator.py (verify, sign_with_recid, sign,
   possible_public_pairs_for_signature, inverse) and Curve.inverse_mod, function by function.
   No proofs here.

   The elliptic-curve group is ABSTRACT: a type `pt` with the operations the Python code uses on
   `Point` objects.  What the Python expression means in terms of these operations:
     e * self            (Generator.__mul__/__rmul__)   smul e G      (blinding + table walk: property C02)
     e * P               (Point.__rmul__ -> Curve.multiply)            smul e P
     P + Q               (Curve.add)                                    add P Q
     P[0], P[1]          (tuple access; (None, None) = infinity)        coords P : option (Z * Z)
     self.Point(x, y)    (constructor; NoSuchPointError if off-curve)   of_pair
     self.points_for_x   (ValueError if no point)                       lift_x
   `n` is self._order.  `gen_k` is the nonce callback (default rfc6979.deterministic_generate_k). *)
From PV Require Import Base.Bytes Base.Outcome.
Local Open Scope Z_scope.
Local Open Scope outcome_scope.

(* ---- Curve.inverse_mod --------------------------------------------------------------------- *)
(* while c != 0: q, c, d = divmod(d, c) + (c,); uc, vc, ud, vd = ud - q*uc, vd - q*vc, uc, vc
   (vc, vd never reach the result and are dropped).  Returns (d, ud) at loop exit. *)
Fixpoint inv_loop (fuel : nat) (c d uc ud : Z) : outcome (Z * Z) :=
  match fuel with
  | O => OutOfFuel
  | S f =>
    if c =? 0 then Ret (d, ud)
    else let q := d / c in inv_loop f (d mod c) c (ud - q * uc) uc
  end.

(* the product c*d at least halves per iteration: 2*log2(m)+3 iterations suffice (InverseP.inv_fuel_ok) *)
Definition inv_fuel (m : Z) : nat := (2 * Z.to_nat (Z.log2 m) + 3)%nat.

Definition inverse_mod (a m : Z) : outcome Z :=
  let a := if (a <? 0) || (m <=? a) then a mod m else a in
  do '(d, ud) <- inv_loop (inv_fuel m) a m 1 0;
  if d =? 1 then Ret (if 0 <? ud then ud else ud + m)
  else Raise E_ASSERT.                                   (* assert d == 1 *)

Section Ecdsa.
  Variable pt : Type.
  Variable add : pt -> pt -> pt.
  Variable smul : Z -> pt -> pt.
  Variable G : pt.
  Variable n : Z.                       (* self._order *)
  Variable p : Z.                       (* self._p, the field prime (only compared with r in recover) *)
  Variable coords : pt -> option (Z * Z).
  Variable lift_x : Z -> option (pt * pt).
  Variable gen_k : Z -> Z -> Z -> outcome Z.

  (* Generator.inverse *)
  Definition inverse (a : Z) : outcome Z := inverse_mod a n.

  Definition out_of_range (r s : Z) : bool := (r <? 1) || (n <=? r) || (s <? 1) || (n <=? s).

  (* Generator.verify(public_pair, val, (r, s)); Qo = self.Point( *public_pair) — evaluated after the
     range checks and after self.inverse(s), so an off-curve pair raises only then *)
  Definition verify (Qo : option pt) (val r s : Z) : outcome bool :=
    if val =? 0 then Ret false
    else if out_of_range r s then Ret false
    else
      do s_inverse <- inverse s;
      let u1 := val * s_inverse in
      let u2 := r * s_inverse in
      match Qo with
      | None => Raise E_NOPOINT
      | Some Q =>
        let point := add (smul u1 G) (smul u2 Q) in
        match coords point with
        | None => Ret false                              (* point[0] is None *)
        | Some (x, _) => Ret (x mod n =? r)
        end
      end.

  (* one pass through the body of `while True` in sign_with_recid: Some sig = return, None = k += 1 *)
  Definition sign_step (secret_exponent val k : Z) : outcome (option (Z * Z * Z)) :=
    let p1 := smul k G in
    match coords p1 with
    | None => Raise E_TYPE                               (* None % n *)
    | Some (x, y) =>
      let r := x mod n in
      do ik <- inverse k;
      let s := (ik * (val + (secret_exponent * r) mod n)) mod n in
      if negb (r =? 0) && negb (s =? 0) then
        let recid := Z.land y 1 in
        let recid := if n <? x then recid + 2 else recid in
        Ret (Some (r, s, recid))
      else Ret None
    end.

  Fixpoint sign_loop (fuel : nat) (secret_exponent val k : Z) : outcome (Z * Z * Z) :=
    match fuel with
    | O => OutOfFuel
    | S f =>
      do o <- sign_step secret_exponent val k;
      match o with
      | Some sig => Ret sig
      | None =>
        let k := k + 1 in
        let k := if n <=? k then 1 else k in             (* if k >= n: k = 1 *)
        sign_loop f secret_exponent val k
      end
    end.

  Definition sign_with_recid (fuel : nat) (secret_exponent val : Z) : outcome (Z * Z * Z) :=
    if val =? 0 then Raise E_VALUE
    else
      do k <- gen_k n secret_exponent val;
      sign_loop fuel secret_exponent val k.

  Definition sign (fuel : nat) (secret_exponent val : Z) : outcome (Z * Z) :=
    do '(r, s, _) <- sign_with_recid fuel secret_exponent val;
    Ret (r, s).

  (* possible_public_pairs_for_signature(value, (r, s), y_parity) *)
  Definition recover (value r s : Z) (y_parity : option Z) : outcome (list pt) :=
    if out_of_range r s then Ret []
    else if p <=? r then Ret []                          (* if r >= self._p: return [] *)
    else
      match lift_x r with
      | None => Ret []                                   (* except ValueError *)
      | Some (p0, p1) =>
        let points_list :=
          match y_parity with
          | None => [p0; p1]
          | Some yp => if negb (Z.land yp 1 =? 0) then [p1] else [p0]
          end in
        do inv_r <- inverse r;
        let s_over_r := s * inv_r in
        let minus_E_over_r := smul (- (inv_r * value)) G in
        Ret (map (fun p => add (smul s_over_r p) minus_E_over_r) points_list)
      end.
End Ecdsa.
