(* Model/TxBuildWire.v — C13 x C07: fee="standard" without an oracle.

   Model/TxBuild.v takes `len(tx.stream())` as a Section variable (tx_byte_count), which the C13 harness used to
   measure on the implementation and hand to the model.  Here the byte count is computed by C07's model of
   Tx.stream (Model/TxWire.v, stream_tx) on the embedded transaction, so that

     convention/tx_fee.recommended_fee_for_tx(tx)       = recommended_fee_for_tx
     tx_utils.distribute_from_split_pool(tx, fee)       = distribute_wire
     tx_utils.create_tx(spendables, payables, fee, ...) = create_tx_wire

   are closed models: `tx.stream(s)` (blank_solutions=False, include_unspents=False, include_witness_data=True) runs
   first when fee == "standard", and a field that struct.pack refuses (a negative or >= 2^64 amount, a version or
   lock time outside 32 bits) raises struct.error = E_STRUCT *before* anything is distributed.  The transactions of
   Model/TxBuild.v carry no witness (TxIn.witness of a fresh TxIn is []).  No proofs here. *)
From PV Require Import Base.Bytes Base.Outcome Base.Varint Gen.GenTxBuild Model.TxBuild.
From PV Require Model.TxWire.
Local Open Scope Z_scope.
Local Open Scope outcome_scope.

Definition emb_in (i : txin) : TxWire.txin :=
  TxWire.mk_txin (i_hash i) (i_index i) (i_script i) (i_sequence i) [].
Definition emb_out (o : txout) : TxWire.txout := TxWire.mk_txout (o_value o) (o_script o).
Definition emb (t : tx) : TxWire.tx :=
  TxWire.mk_tx (t_version t) (map emb_in (t_ins t)) (map emb_out (t_outs t)) (t_lock_time t).

(* s = io.BytesIO(); tx.stream(s); len(s.getvalue()) *)
Definition stream_len (t : tx) : outcome Z :=
  do b <- TxWire.stream_tx false true (emb t); Ret (Z.of_nat (length b)).

(* convention/tx_fee.recommended_fee_for_tx *)
Definition recommended_fee_for_tx (t : tx) : outcome Z :=
  do n <- stream_len t; Ret (recommended_fee n).

(* tx_utils.distribute_from_split_pool: `if fee == "standard": fee = tx_fee.recommended_fee_for_tx(tx)` comes first *)
Definition distribute_wire (t : tx) (fee : feearg) : outcome (tx * Z) :=
  match fee with
  | FeeInt _ => distribute_from_split_pool (fun _ => 0) t fee
  | FeeStandard => do n <- stream_len t; distribute_from_split_pool (fun _ => n) t FeeStandard
  end.

(* tx_utils.create_tx: Tx(...), set_unspents, distribute_from_split_pool *)
Definition create_tx_wire (spendables : list spendable) (payables : list payable) (fee : feearg)
    (lock_time version : Z) : outcome tx :=
  let txs_in := map spendable_tx_in spendables in
  let txs_out := map payable_txout payables in
  let t := mk_tx version txs_in txs_out lock_time [] in
  do t <- set_unspents t (map (fun s => Some (spendable_as_txout s)) spendables);
  do r <- distribute_wire t fee;
  Ret (fst r).
