(* Model/VMpy.v — what pycoin's script VM and spend checker DO (property C03, pycoin side).  No proofs here.
   Transcribed function by function, as coded today, from
     pycoin/vm/VM.py                           VM.eval_script, eval_instruction, check_stack_size, post_script_check,
                                               pop, __getitem__, append
     pycoin/vm/ConditionalStack.py             (Model/CondStack.v: c_step, c_all_if_true, c_final_ok)
     pycoin/coins/bitcoin/VM.py                pop_int(max_size), pop_nonnegative, push_int, bool_from_script_bytes,
                                               bool_to_script_bytes, VM_TRUE/VM_FALSE
     pycoin/coins/bitcoin/make_instruction_lookup.py   the opcode -> handler table (`hk`; tied to Gen/GenFlags.handler_table
                                               and Gen/GenOpcodes.opcode_list by lemmas in Proofs/VMpyP.v)
     pycoin/satoshi/intops.py stackops.py miscops.py checksigops.py    every handler
     pycoin/coins/bitcoin/SolutionChecker.py   check_solution, puzzle_and_solution_iterator, _solution_script_to_stack,
                                               _check_script_push_only, _delete_signature, _make_sighash_f (script part)
     pycoin/coins/bitcoin/SegwitChecker.py     witness_program_tuple, _check_witness_program_v0, _witness_program_version,
                                               _puzzle_script_for_len20_segwit, _make_witness_sighash_f (script part)
     pycoin/coins/bitcoin/P2SChecker.py        is_pay_to_script_hash, p2s_program_tuple
   Reused finished models: Model/ScriptNum.v (IntStreamer), Model/Push.v (get_opcode, compile_push_data),
   Model/Der.v (satoshi/der.py: the LAX parser sigdecode_der(.., use_broken_open_ssl_mechanism=True)).

   Conventions
   * Outcomes: `VOk` = the Python function returned, `VFail` = ScriptError, `VCrash e` = any other exception class
     escaping (IndexError ...), `VOutOfFuel` = never (Proofs/VMpyP.v: vmpy_fuel_sufficient).
   * INSIDE the VM the data stack and the alt stack are kept TOP FIRST (head = vm.stack[-1]); the public entry
     points `eval_script` / `check_solution` take and return stacks TOP LAST as Spec/VMTypes.v says (= pycoin's list).
     `vm[-k]` is `vm_get k`, `vm.pop(-k)` is `vm_pop_at k`.
   * The VM obeys VERIFY_MINIMALIF and VERIFY_WITNESS_PUBKEYTYPE whenever the flag bit is set, whatever the
     signature version: the "witness v0 only" rule is implemented by check_solution STRIPPING the two flags
     for the scriptSig / scriptPubKey / redeem-script runs.  `sv` only selects the script code handed to the
     signature check (signatures deleted or not) and is passed to the oracle.
   * Signature checking: everything pycoin does around the ECDSA equation is explicit (encoding checks, lax DER
     parse failure = "matches no key", public key encoding checks, loop order, NULLFAIL, NULLDUMMY, op count).
     `o_checksig sig pubkey script_code sv` stands for: sec_to_public_pair (ValueError/EncodingError -> False),
     signature_for_hash_type_f's digest over script_code, generator.verify (ValueError -> False). *)
From PV Require Import Base.Bytes Base.Outcome Gen.GenOpcodes Gen.GenFlags.
From PV Require Import Model.ScriptNum Model.Push Model.CondStack Model.Der Spec.VMTypes.

(* ---- the vres monad -------------------------------------------------------------------------- *)
Definition vbind {A B} (m : vres A) (f : A -> vres B) : vres B :=
  match m with
  | VOk a => f a
  | VFail => VFail
  | VCrash e => VCrash e
  | VOutOfFuel => VOutOfFuel
  end.

Declare Scope vres_scope.
Notation "'vdo' x <- m ; k" := (vbind m (fun x => k))
  (at level 200, x pattern, m at level 100, k at level 200, right associativity) : vres_scope.
Notation "'vdo' ' p <- m ; k" := (vbind m (fun x => match x with p => k end))
  (at level 200, p pattern, m at level 100, k at level 200, right associativity) : vres_scope.
Local Open Scope vres_scope.

(* a Python call that may raise: ScriptError is a clean failure, every other class a crash *)
Definition lift {A} (m : outcome A) : vres A :=
  match m with
  | Ret a => VOk a
  | Raise E_SCRIPT => VFail
  | Raise e => VCrash e
  | OutOfFuel => VOutOfFuel
  end.

(* `raise ScriptError` unless c *)
Definition require (c : bool) : vres unit := if c then VOk tt else VFail.

(* ---- VM state ---------------------------------------------------------------------------------- *)
Record vmstate := mkst {
  st_pc : nat;             (* vm.pc *)
  st_stack : list bytes;   (* vm.stack, TOP FIRST *)
  st_alt : list bytes;     (* vm.altstack, TOP FIRST *)
  st_cond : cstate;        (* (true_count, false_count) of vm.conditional_stack *)
  st_opc : Z;              (* vm.op_count *)
  st_bch : nat             (* vm.begin_code_hash *)
}.

Definition set_stack (s : vmstate) (l : list bytes) := mkst (st_pc s) l (st_alt s) (st_cond s) (st_opc s) (st_bch s).
Definition set_alt (s : vmstate) (l : list bytes) := mkst (st_pc s) (st_stack s) l (st_cond s) (st_opc s) (st_bch s).
Definition set_cond (s : vmstate) (c : cstate) := mkst (st_pc s) (st_stack s) (st_alt s) c (st_opc s) (st_bch s).
Definition set_opc (s : vmstate) (z : Z) := mkst (st_pc s) (st_stack s) (st_alt s) (st_cond s) z (st_bch s).
Definition set_bch (s : vmstate) (b : nat) := mkst (st_pc s) (st_stack s) (st_alt s) (st_cond s) (st_opc s) b.

Definition VM_FALSE : bytes := [].        (* IntStreamer.int_to_script_bytes(0) *)
Definition VM_TRUE : bytes := [x01].      (* IntStreamer.int_to_script_bytes(1) *)
Definition bool_to_script_bytes (b : bool) : bytes := if b then VM_TRUE else VM_FALSE.

(* BitcoinVM.bool_from_script_bytes(v) with require_minimal=False: bool(int_from_script_bytes(v)).
   The lax integer decoder never raises (Proofs/VMpyP.v: int_from_lax_total). *)
Definition bool_from_script_bytes (v : bytes) : bool :=
  match int_from_script_bytes v false with
  | Ret z => negb (z =? 0)%Z
  | _ => false
  end.

(* ---- list primitives of VM ---------------------------------------------------------------------- *)
(* vm.append(a) *)
Definition vm_append (x : bytes) (s : vmstate) : vmstate := set_stack s (x :: st_stack s).

(* vm.pop(): IndexError -> ScriptError *)
Definition vm_pop (s : vmstate) : vres (bytes * vmstate) :=
  match st_stack s with
  | [] => VFail
  | x :: r => VOk (x, set_stack s r)
  end.

(* vm[-k] for a literal or computed k >= 1: IndexError -> ScriptError *)
Definition vm_get (k : nat) (s : vmstate) : vres bytes :=
  match nth_error (st_stack s) (k - 1) with
  | Some x => VOk x
  | None => VFail
  end.

Fixpoint remove_nth {A} (n : nat) (l : list A) : option (A * list A) :=
  match l, n with
  | [], _ => None
  | x :: r, O => Some (x, r)
  | x :: r, S n' => match remove_nth n' r with
                    | Some (y, r') => Some (y, x :: r')
                    | None => None
                    end
  end.

(* vm.pop(-k), k >= 1 *)
Definition vm_pop_at (k : nat) (s : vmstate) : vres (bytes * vmstate) :=
  match remove_nth (k - 1) (st_stack s) with
  | Some (x, r) => VOk (x, set_stack s r)
  | None => VFail
  end.

(* [vm.pop() for _ in range(n)]: first popped first *)
Fixpoint vm_pop_n (n : nat) (s : vmstate) : vres (list bytes * vmstate) :=
  match n with
  | O => VOk ([], s)
  | S n' => vdo '(x, s1) <- vm_pop s;
            vdo '(xs, s2) <- vm_pop_n n' s1;
            VOk (x :: xs, s2)
  end.

Definition check_public_key_encoding (blob : bytes) : bool :=
  let lb := length blob in
  (33 <=? lb)%nat &&
  match blob with
  | [] => false
  | fb :: _ =>
    let f := b2n fb in
    if (f =? 4)%N then (lb =? 65)%nat
    else if (f =? 2)%N || (f =? 3)%N then (lb =? 33)%nat
    else false
  end.

(* `len(pair_blob) != 33 or pair_blob[0] not in (2, 3)` is the failure condition *)
Definition witness_pubkeytype_ok (blob : bytes) : bool :=
  (length blob =? 33)%nat &&
  match blob with
  | [] => false
  | fb :: _ => (b2n fb =? 2)%N || (b2n fb =? 3)%N
  end.

(* sig[i] on the list of ints: IndexError is NOT caught by checksigs *)
Definition sig_at (sig : bytes) (i : nat) : vres N :=
  match nth_error sig i with
  | Some b => VOk (b2n b)
  | None => VCrash E_INDEX
  end.

(* check_valid_signature = _check_valid_signature_1 ; _check_valid_signature_2 (the blob includes the hash type byte) *)
Definition check_valid_signature (sig : bytes) : vres unit :=
  let ls := length sig in
  if (ls <? 9)%nat || (73 <? ls)%nat then VFail else
  vdo b0 <- sig_at sig 0;
  if negb (b0 =? 48)%N then VFail else
  vdo b1 <- sig_at sig 1;
  if negb (b1 =? N.of_nat (ls - 3))%N then VFail else
  vdo rl <- sig_at sig 3;
  let r_len := N.to_nat rl in                     (* a byte value *)
  if (ls <=? 5 + r_len)%nat then VFail else
  (* _check_valid_signature_2 *)
  vdo sl <- sig_at sig (5 + r_len);
  let s_len := N.to_nat sl in
  if negb (r_len + s_len + 7 =? ls)%nat then VFail else
  vdo b2 <- sig_at sig 2;
  if negb (b2 =? 2)%N then VFail else
  if (r_len =? 0)%nat then VFail else
  vdo b4 <- sig_at sig 4;
  if negb (N.land b4 128 =? 0)%N then VFail else
  vdo bad_r <- (if (1 <? r_len)%nat && (b4 =? 0)%N
                then vdo b5 <- sig_at sig 5; VOk (N.land b5 128 =? 0)%N
                else VOk false);
  if bad_r then VFail else
  vdo m <- sig_at sig (r_len + 4);
  if negb (m =? 2)%N then VFail else
  if (s_len =? 0)%nat then VFail else
  vdo s0 <- sig_at sig (r_len + 6);
  if negb (N.land s0 128 =? 0)%N then VFail else
  vdo bad_s <- (if (1 <? s_len)%nat && (s0 =? 0)%N
                then vdo s1 <- sig_at sig (r_len + 7); VOk (N.land s1 128 =? 0)%N
                else VOk false);
  if bad_s then VFail else VOk tt.

(* check_defined_hashtype_signature: hash_type = sig[-1] & ~SIGHASH_ANYONECANPAY *)
Definition check_defined_hashtype_signature (sig : bytes) : vres unit :=
  match last_opt sig with
  | None => VFail                                  (* len(sig) == 0 *)
  | Some l =>
    let hash_type := N.ldiff (b2n l) SIGHASH_ANYONECANPAY in
    if (hash_type <? SIGHASH_ALL)%N || (SIGHASH_SINGLE <? hash_type)%N then VFail else VOk tt
  end.

(* _witness_program_version: None, or Some version *)
Definition witness_program_version (script : bytes) : option N :=
  let size := length script in
  if (size <? 4)%nat || (42 <? size)%nat then None else
  match script with
  | first :: second :: _ =>
    if negb (N.to_nat (b2n second) + 2 =? size)%nat then None
    else if (b2n first =? 0)%N then Some 0%N                    (* OP_0 *)
    else if (81 <=? b2n first)%N && (b2n first <=? 96)%N        (* OP_1 .. OP_16 *)
         then Some (b2n first - 81 + 1)%N
    else None
  | _ => None
  end.

(* P2SChecker.is_pay_to_script_hash: OP_HASH160 = 0xa9, 0x14, OP_EQUAL = 0x87 *)
Definition is_pay_to_script_hash (script : bytes) : bool :=
  (length script =? 23)%nat &&
  match script, last_opt script with
  | b0 :: b1 :: _, Some bl => (b2n b0 =? 169)%N && (b2n b1 =? 20)%N && (b2n bl =? 135)%N
  | _, _ => false
  end.

(* the walk of delete_subscript (which _delete_signature calls with the plain-push pattern):
     while pc < len(script):
         opcode, data, new_pc, is_ok = scriptStreamer.get_opcode(script, pc)
         if not is_ok: new_script.extend(script[pc:]); break      # an undecodable instruction ends the walk
         section = script[pc:new_pc]
         if section != subscript: new_script.extend(section)
         pc = new_pc
   fuel = length script (new_pc > pc always; Proofs/VMpyP.v) *)
Fixpoint delete_walk (fuel : nat) (script sub : bytes) (pc : nat) : outcome bytes :=
  if (length script <=? pc)%nat then Ret []
  else match fuel with
       | O => OutOfFuel
       | S f =>
         match btc_get_opcode script pc false with
         | Ret (_, _, new_pc, is_ok) =>
           if is_ok then
             let section := slice pc new_pc script in
             match delete_walk f script sub new_pc with
             | Ret rest => Ret (if bytes_eqb section sub then rest else section ++ rest)
             | other => other
             end
           else Ret (skipn pc script)
         | Raise e => Raise e
         | OutOfFuel => OutOfFuel
         end
       end.

(* the pattern of _delete_signature: the PLAIN push of the blob (length prefix, no OP_n / OP_1NEGATE short forms);
   size.to_bytes(4, "little") raises OverflowError from 2^32 on *)
Definition plain_push (blob : bytes) : outcome bytes :=
  let size := N.of_nat (length blob) in
  if (size <? 76)%N then Ret (n2b size :: blob)
  else if (size <=? 255)%N then Ret (x4c :: n2b size :: blob)
  else if (size <=? 65535)%N then Ret (x4d :: le_encode 2 size ++ blob)
  else if (size <? 4294967296)%N then Ret (x4e :: le_encode 4 size ++ blob)
  else Raise E_OVERFLOW.

(* _delete_signature(script, sig_blob): subscript = prefix + sig_blob, then the get_opcodes walk *)
Definition delete_signature (script sig_blob : bytes) : outcome bytes :=
  match plain_push sig_blob with
  | Ret sub => delete_walk (length script) script sub 0
  | Raise e => Raise e
  | OutOfFuel => OutOfFuel
  end.

Fixpoint delete_signatures (script : bytes) (sig_blobs : list bytes) : outcome bytes :=
  match sig_blobs with
  | [] => Ret script
  | b :: r => match delete_signature script b with
              | Ret s => delete_signatures s r
              | other => other
              end
  end.

(* _check_script_push_only: is_ok is not looked at; data_opcodes is the generated set (OP_RESERVED is not in it) *)
Fixpoint push_only_walk (fuel : nat) (script : bytes) (pc : nat) : vres unit :=
  if (length script <=? pc)%nat then VOk tt
  else match fuel with
       | O => VOutOfFuel
       | S f =>
         vdo '(opcode, _, new_pc, _) <- lift (btc_get_opcode script pc false);
         if existsb (N.eqb opcode) data_opcodes then push_only_walk f script new_pc else VFail
       end.
Definition check_script_push_only (script : bytes) : vres unit :=
  push_only_walk (length script) script 0.

(* ---- handler kinds: what INSTRUCTION_LOOKUP[opcode] is ------------------------------------------ *)
Inductive unop : Set := U1Add | U1Sub | UNegate | UAbs.
Inductive binop : Set := BAdd | BSub | BMin | BMax.
Inductive boolop : Set := BoBoolAnd | BoBoolOr | BoNumEqual | BoNumNotEqual | BoLessThan | BoGreaterThan
                        | BoLessThanOrEqual | BoGreaterThanOrEqual.
Inductive hashop : Set := HRipemd160 | HSha1 | HSha256 | HHash160 | HHash256.

Inductive hkind : Set :=
| KNoOp                     (* make_instruction_lookup._no_op: the sized pushes 1..75 and OP_1NEGATE *)
| KLambda0                  (* extra_opcodes `lambda s: 0`: OP_0, OP_PUSHDATA1/2/4, OP_1..OP_16 *)
| KReserved                 (* do_OP_RESERVED, outside_conditional *)
| KNop                      (* do_OP_NOP *)
| KRaise                    (* do_OP_VER, do_OP_RESERVED1/2, do_OP_RETURN: raise ScriptError when executed *)
| KBadOpcode (outside : bool)   (* make_bad_opcode(.., even_outside_conditional) *)
| KBadInstruction           (* _make_bad_instruction(i): opcodes without a name *)
| KIf (reverse : bool)      (* make_if(reverse_bool), outside_conditional *)
| KElse | KEndif            (* outside_conditional *)
| KVerify | KToAlt | KFromAlt
| K2Drop | K2Dup | K3Dup | K2Over | K2Rot | K2Swap | KIfDup | KDepth | KDrop | KDup | KNip | KOver
| KPick | KRoll | KRot | KSwap | KTuck | KSize | KEqual | KEqualVerify
| KUnary (u : unop) | KNot | K0NotEqual
| KBin (b : binop) | KBoolBin (b : boolop) | KNumEqualVerify | KWithin
| KHash (h : hashop)
| KCodeSeparator | KCheckSig | KCheckSigVerify | KCheckMultiSig | KCheckMultiSigVerify
| KDiscourageNops | KCheckLockTimeVerify | KCheckSequenceVerify.

(* getattr(f, "outside_conditional", False) *)
Definition hk_outside (k : hkind) : bool :=
  match k with
  | KReserved | KIf _ | KElse | KEndif => true
  | KBadOpcode o => o
  | _ => false
  end.

(* BitcoinVM.INSTRUCTION_LOOKUP[opcode] *)
Definition hk (opcode : N) : hkind :=
  match opcode with
  | 0 => KLambda0
  | 76 | 77 | 78 => KLambda0
  | 79 => KNoOp
  | 80 => KReserved
  | 97 => KNop
  | 98 => KRaise
  | 99 => KIf false
  | 100 => KIf true
  | 101 | 102 => KBadOpcode true
  | 103 => KElse
  | 104 => KEndif
  | 105 => KVerify
  | 106 => KRaise
  | 107 => KToAlt
  | 108 => KFromAlt
  | 109 => K2Drop
  | 110 => K2Dup
  | 111 => K3Dup
  | 112 => K2Over
  | 113 => K2Rot
  | 114 => K2Swap
  | 115 => KIfDup
  | 116 => KDepth
  | 117 => KDrop
  | 118 => KDup
  | 119 => KNip
  | 120 => KOver
  | 121 => KPick
  | 122 => KRoll
  | 123 => KRot
  | 124 => KSwap
  | 125 => KTuck
  | 126 | 127 | 128 | 129 => KBadOpcode true
  | 130 => KSize
  | 131 | 132 | 133 | 134 => KBadOpcode true
  | 135 => KEqual
  | 136 => KEqualVerify
  | 137 | 138 => KRaise
  | 139 => KUnary U1Add
  | 140 => KUnary U1Sub
  | 141 | 142 => KBadOpcode true
  | 143 => KUnary UNegate
  | 144 => KUnary UAbs
  | 145 => KNot
  | 146 => K0NotEqual
  | 147 => KBin BAdd
  | 148 => KBin BSub
  | 149 | 150 | 151 | 152 | 153 => KBadOpcode true
  | 154 => KBoolBin BoBoolAnd
  | 155 => KBoolBin BoBoolOr
  | 156 => KBoolBin BoNumEqual
  | 157 => KNumEqualVerify
  | 158 => KBoolBin BoNumNotEqual
  | 159 => KBoolBin BoLessThan
  | 160 => KBoolBin BoGreaterThan
  | 161 => KBoolBin BoLessThanOrEqual
  | 162 => KBoolBin BoGreaterThanOrEqual
  | 163 => KBin BMin
  | 164 => KBin BMax
  | 165 => KWithin
  | 166 => KHash HRipemd160
  | 167 => KHash HSha1
  | 168 => KHash HSha256
  | 169 => KHash HHash160
  | 170 => KHash HHash256
  | 171 => KCodeSeparator
  | 172 => KCheckSig
  | 173 => KCheckSigVerify
  | 174 => KCheckMultiSig
  | 175 => KCheckMultiSigVerify
  | 176 => KDiscourageNops
  | 177 => KCheckLockTimeVerify
  | 178 => KCheckSequenceVerify
  | 179 | 180 | 181 | 182 | 183 | 184 | 185 => KDiscourageNops
  | 255 => KBadOpcode false
  | _ => if (opcode <=? 75)%N then KNoOp
         else if (81 <=? opcode)%N && (opcode <=? 96)%N then KLambda0
         else KBadInstruction
  end%N.

Section VM.
Variable o : oracles.
Variable flags : N.          (* vm.flags *)
Variable sv : sigversion.    (* which signature_for_hash_type_f the VM was given *)
Variable ctx : txctx.        (* vm.tx_context *)
Variable script : bytes.     (* vm.script *)

Definition flag (f : N) : bool := flag_set flags f.

(* BitcoinVM.pop_int(max_size) *)
Definition vm_pop_int (max_size : nat) (s : vmstate) : vres (Z * vmstate) :=
  vdo '(v, s1) <- vm_pop s;
  if (max_size <? length v)%nat then VFail else
  vdo z <- lift (int_from_script_bytes v (flag VERIFY_MINIMALDATA));
  VOk (z, s1).

(* BitcoinVM.pop_nonnegative *)
Definition vm_pop_nonnegative (s : vmstate) : vres (Z * vmstate) :=
  vdo '(v, s1) <- vm_pop_int 4 s;
  if (v <? 0)%Z then VFail else VOk (v, s1).

(* BitcoinVM.push_int *)
Definition vm_push_int (v : Z) (s : vmstate) : vres vmstate :=
  vdo b <- lift (int_to_script_bytes v);
  VOk (vm_append b s).

(* intops.pop_check_bounds *)
Definition pop_check_bounds (s : vmstate) : vres (Z * vmstate) :=
  vdo top <- vm_get 1 s;
  if (4 <? length top)%nat then VFail else vm_pop_int 4 s.

(* `v = vm.bool_from_script_bytes(vm.pop()); if not v: raise` (do_OP_VERIFY and the tails of the *VERIFY handlers) *)
Definition pop_verify (s : vmstate) : vres vmstate :=
  vdo '(v, s1) <- vm_pop s;
  if bool_from_script_bytes v then VOk s1 else VFail.

Definition unop_f (u : unop) (x : Z) : Z :=
  match u with
  | U1Add => x + 1
  | U1Sub => x - 1
  | UNegate => - x
  | UAbs => Z.abs x
  end%Z.

Definition binop_f (b : binop) (x y : Z) : Z :=
  match b with
  | BAdd => x + y
  | BSub => x - y
  | BMin => Z.min x y
  | BMax => Z.max x y
  end%Z.

(* the truth value of binop(x, y) as bool_to_script_bytes sees it (`x and y` / `x or y` return ints) *)
Definition boolop_f (b : boolop) (x y : Z) : bool :=
  match b with
  | BoBoolAnd => negb (x =? 0) && negb (y =? 0)
  | BoBoolOr => negb (x =? 0) || negb (y =? 0)
  | BoNumEqual => x =? y
  | BoNumNotEqual => negb (x =? y)
  | BoLessThan => x <? y
  | BoGreaterThan => y <? x
  | BoLessThanOrEqual => x <=? y
  | BoGreaterThanOrEqual => y <=? x
  end%Z.

Definition hash_f (h : hashop) : bytes -> bytes :=
  match h with
  | HRipemd160 => o_ripemd160 o
  | HSha1 => o_sha1 o
  | HSha256 => o_sha256 o
  | HHash160 => o_hash160 o
  | HHash256 => o_hash256 o
  end.

(* ---- checksigops ------------------------------------------------------------------------------- *)
(* parse_and_check_signature_blob inside the try/except of checksigs:
   VOk None = (None, None) after ValueError / UnexpectedDER; VFail = a ScriptError that propagates *)
Definition parse_and_check_signature_blob (sig_blob : bytes) : vres (option (Z * Z)) :=
  match sig_blob with
  | [] => VOk None                                                 (* ValueError("empty sig_blob") *)
  | _ =>
    vdo _ <- (if flag (N.lor VERIFY_DERSIG (N.lor VERIFY_LOW_S VERIFY_STRICTENC))
              then check_valid_signature sig_blob else VOk tt);
    vdo _ <- (if flag VERIFY_STRICTENC then check_defined_hashtype_signature sig_blob else VOk tt);
    (* parse_signature_blob: der.sigdecode_der(sig_blob[:-1], use_broken_open_ssl_mechanism=True) *)
    match sigdecode_der (removelast sig_blob) true with
    | Ret (r, s) =>
      if flag VERIFY_LOW_S
      then (* check_low_der_signature: r >= order or s >= order: return; hi_s = order - s; if hi_s < s: raise *)
           if (Z.of_N (o_order o) <=? r)%Z || (Z.of_N (o_order o) <=? s)%Z then VOk (Some (r, s))
           else if (Z.of_N (o_order o) - s <? s)%Z then VFail else VOk (Some (r, s))
      else VOk (Some (r, s))
    | Raise E_DER => VOk None
    | Raise E_VALUE => VOk None
    | Raise e => VCrash e
    | OutOfFuel => VOutOfFuel
    end
  end.

(* checksig(vm, sig_pair, signature_type, pair_blob, blobs_to_delete, ...).
   script_code is sig_for_hash_type_f's script, computed (lazily in Python) once per opcode *)
Definition checksig (sig_pair : option (Z * Z)) (sig_blob pair_blob : bytes) (script_code : outcome bytes) : vres bool :=
  vdo _ <- (if flag VERIFY_STRICTENC then require (check_public_key_encoding pair_blob) else VOk tt);
  vdo _ <- (if flag VERIFY_WITNESS_PUBKEYTYPE then require (witness_pubkeytype_ok pair_blob) else VOk tt);
  match sig_pair with
  | None => VOk false                        (* empty or unparseable signature: it matches no key *)
  | Some _ =>
    vdo code <- lift script_code;
    VOk (o_checksig o sig_blob pair_blob code sv)
  end.

(* the inner `while len(sig_blobs_remaining) < len(public_pair_blobs)` loop with its else clause.
   keys: next key to pop FIRST.  Some keys' = break (match), None = else branch *)
Fixpoint checksigs_inner (sig_pair : option (Z * Z)) (sig_blob : bytes) (n_remaining : nat)
         (keys : list bytes) (script_code : outcome bytes) : vres (option (list bytes)) :=
  match keys with
  | [] => VOk None
  | k :: ks =>
    if (n_remaining <? length keys)%nat then
      vdo ok <- checksig sig_pair sig_blob k script_code;
      if ok then VOk (Some ks) else checksigs_inner sig_pair sig_blob n_remaining ks script_code
    else VOk None
  end.

(* the outer `while len(sig_blobs_remaining) > 0` loop; sigs: next signature to pop FIRST.
   result: the bool that is appended *)
Fixpoint checksigs_outer (sigs keys : list bytes) (any_nonblank : bool) (script_code : outcome bytes) : vres bool :=
  match sigs with
  | [] => VOk true
  | sig_blob :: rest =>
    vdo sig_pair <- parse_and_check_signature_blob sig_blob;
    vdo r <- checksigs_inner sig_pair sig_blob (length rest) keys script_code;
    match r with
    | Some keys' => checksigs_outer rest keys' any_nonblank script_code
    | None => if any_nonblank then VFail else VOk false
    end
  end.

(* what signature_for_hash_type_f hashes: vm.script[vm.begin_code_hash:], for the legacy sighash_f with every
   blob of sig_blobs (in list order) deleted, for the witness one as it is *)
Definition script_code_for (s : vmstate) (sig_blobs : list bytes) : outcome bytes :=
  let tail := skipn (st_bch s) script in
  match sv with
  | SV_BASE => delete_signatures tail sig_blobs
  | SV_WITNESS_V0 => Ret tail
  end.

(* checksigs(vm, sig_blobs, public_pair_blobs): both lists given in POP order (last element of the Python list first);
   sig_blobs_list_order is the Python list order used for the deletions *)
Definition checksigs (s : vmstate) (sigs_pop_order keys_pop_order : list bytes) : vres vmstate :=
  let any_nonblank := flag VERIFY_NULLFAIL && existsb (fun b => (0 <? length b)%nat) sigs_pop_order in
  let code := script_code_for s (rev sigs_pop_order) in
  vdo b <- checksigs_outer sigs_pop_order keys_pop_order any_nonblank code;
  VOk (vm_append (bool_to_script_bytes b) s).

Definition do_OP_CHECKSIG (s : vmstate) : vres vmstate :=
  vdo '(pair_blob, s1) <- vm_pop s;
  vdo '(sig_blob, s2) <- vm_pop s1;
  checksigs s2 [sig_blob] [pair_blob].

Definition do_OP_CHECKMULTISIG (s : vmstate) : vres vmstate :=
  vdo '(key_count, s1) <- vm_pop_int 4 s;
  if (key_count <? 0)%Z || (20 <? key_count)%Z then VFail else
  vdo '(keys, s2) <- vm_pop_n (Z.to_nat key_count) s1;          (* popped order = top first = pop order after reverse() *)
  vdo '(signature_count, s3) <- vm_pop_int 4 s2;
  if (signature_count <? 0)%Z || (key_count <? signature_count)%Z then VFail else
  vdo '(sigs, s4) <- vm_pop_n (Z.to_nat signature_count) s3;
  vdo '(hack_byte, s5) <- vm_pop s4;
  if flag VERIFY_NULLDUMMY && negb (bytes_eqb hack_byte []) then VFail else
  vdo s6 <- checksigs s5 sigs keys;
  VOk (set_opc s6 (st_opc s6 + key_count)%Z).

(* ---- miscops: lock time opcodes ----------------------------------------------------------------- *)
Definition LOCKTIME_THRESHOLD : Z := 500000000.

Definition do_OP_CHECKLOCKTIMEVERIFY (s : vmstate) : vres vmstate :=
  if negb (flag VERIFY_CHECKLOCKTIMEVERIFY) then
    (if flag VERIFY_DISCOURAGE_UPGRADABLE_NOPS then VFail else VOk s)
  else
  if (tc_sequence ctx =? 4294967295)%N then VFail else
  match st_stack s with
  | [] => VFail                                        (* len(vm.stack) < 1 *)
  | top :: _ =>
    if (5 <? length top)%nat then VFail else
    vdo '(max_lock_time, s1) <- vm_pop_int 5 s;
    let s2 := vm_append top s1 in                      (* top_item = vm.stack[-1] ... vm.append(top_item): left as it was *)
    if (max_lock_time <? 0)%Z then VFail else
    let era_max := (LOCKTIME_THRESHOLD <=? max_lock_time)%Z in
    let era_lock_time := (LOCKTIME_THRESHOLD <=? Z.of_N (tc_lock_time ctx))%Z in
    if negb (Bool.eqb era_max era_lock_time) then VFail else
    if (Z.of_N (tc_lock_time ctx) <? max_lock_time)%Z then VFail else VOk s2
  end.

(* _check_sequence_verify(sequence, tx_context_sequence); sequence >= 0 here *)
Definition check_sequence_verify (sequence : Z) (tx_context_sequence : N) : vres unit :=
  let mask := N.lor SEQUENCE_LOCKTIME_TYPE_FLAG 65535 in
  let sequence_masked := N.land (Z.to_N sequence) mask in
  let tx_sequence_masked := N.land tx_context_sequence mask in
  if negb (((tx_sequence_masked <? SEQUENCE_LOCKTIME_TYPE_FLAG)%N && (sequence_masked <? SEQUENCE_LOCKTIME_TYPE_FLAG)%N)
           || ((SEQUENCE_LOCKTIME_TYPE_FLAG <=? tx_sequence_masked)%N && (SEQUENCE_LOCKTIME_TYPE_FLAG <=? sequence_masked)%N))
  then VFail
  else if (tx_sequence_masked <? sequence_masked)%N then VFail else VOk tt.

Definition do_OP_CHECKSEQUENCEVERIFY (s : vmstate) : vres vmstate :=
  if negb (flag VERIFY_CHECKSEQUENCEVERIFY) then
    (if flag VERIFY_DISCOURAGE_UPGRADABLE_NOPS then VFail else VOk s)
  else
  match st_stack s with
  | [] => VFail
  | top :: _ =>
    if (5 <? length top)%nat then VFail else
    vdo '(sequence, s1) <- vm_pop_int 5 s;
    let s2 := vm_append top s1 in                      (* top_item = vm.stack[-1] ... vm.append(top_item): left as it was *)
    if (sequence <? 0)%Z then VFail else
    if negb (N.land (Z.to_N sequence) SEQUENCE_LOCKTIME_DISABLE_FLAG =? 0)%N then VOk s2 else
    if (tc_version ctx <? 2)%N then VFail else
    if negb (N.land (tc_sequence ctx) SEQUENCE_LOCKTIME_DISABLE_FLAG =? 0)%N then VFail else
    vdo _ <- check_sequence_verify sequence (tc_sequence ctx);
    VOk s2
  end.

(* ---- one handler call f(vm) ---------------------------------------------------------------------- *)
Definition cond_op (s : vmstate) (op : cop) : vres vmstate :=
  match c_step (st_cond s) op with
  | Some c => VOk (set_cond s c)
  | None => VFail                                     (* conditional_error_f *)
  end.

(* `vm.append(vm[-k])` and `vm.append(vm.pop(-k))` *)
Definition dup_from (k : nat) (s : vmstate) : vres vmstate :=
  vdo x <- vm_get k s; VOk (vm_append x s).
Definition move_from (k : nat) (s : vmstate) : vres vmstate :=
  vdo '(x, s1) <- vm_pop_at k s; VOk (vm_append x s1).

(* -v - 1 as a from-the-end index: the item v below the top; v >= 0.  Compared in Z first. *)
Definition index_of (v : Z) (s : vmstate) : option nat :=
  if (v <? Z.of_nat (length (st_stack s)))%Z then Some (S (Z.to_nat v)) else None.

Definition handler (k : hkind) (s : vmstate) : vres vmstate :=
  match k with
  | KNoOp | KLambda0 | KNop => VOk s
  | KReserved =>
    if c_all_if_true (st_cond s) then VFail else VOk (set_opc s (st_opc s - 1)%Z)
  | KRaise | KBadOpcode _ | KBadInstruction => VFail
  | KIf reverse =>
    vdo '(the_bool, s1) <-
      (if c_all_if_true (st_cond s) then
         match st_stack s with
         | [] => VFail                                 (* len(stack) < 1 *)
         | _ =>
           vdo '(item, s1) <- vm_pop s;
           if flag VERIFY_MINIMALIF && negb (bytes_eqb item VM_FALSE || bytes_eqb item VM_TRUE) then VFail
           else VOk (bool_from_script_bytes item, s1)
         end
       else VOk (false, s));
    cond_op s1 (CIf (if reverse then negb the_bool else the_bool))
  | KElse => cond_op s CElse
  | KEndif => cond_op s CEndif
  | KVerify => pop_verify s
  | KToAlt => vdo '(x, s1) <- vm_pop s; VOk (set_alt s1 (x :: st_alt s1))
  | KFromAlt =>
    match st_alt s with
    | [] => VFail
    | x :: r => VOk (vm_append x (set_alt s r))
    end
  | K2Drop => vdo '(_, s1) <- vm_pop s; vdo '(_, s2) <- vm_pop s1; VOk s2
  | K2Dup => vdo s1 <- dup_from 2 s; dup_from 2 s1
  | K3Dup => vdo s1 <- dup_from 3 s; vdo s2 <- dup_from 3 s1; dup_from 3 s2
  | K2Over => vdo s1 <- dup_from 4 s; dup_from 4 s1
  | K2Rot => vdo s1 <- move_from 6 s; move_from 6 s1
  | K2Swap => vdo s1 <- move_from 4 s; move_from 4 s1
  | KIfDup =>
    vdo top <- vm_get 1 s;
    if bool_from_script_bytes top then dup_from 1 s else VOk s
  | KDepth => vm_push_int (Z.of_nat (length (st_stack s))) s
  | KDrop => vdo '(_, s1) <- vm_pop s; VOk s1
  | KDup => dup_from 1 s
  | KNip => vdo '(v, s1) <- vm_pop s; vdo '(_, s2) <- vm_pop s1; VOk (vm_append v s2)
  | KOver => dup_from 2 s
  | KPick =>
    vdo '(v, s1) <- vm_pop_nonnegative s;
    match index_of v s1 with Some k => dup_from k s1 | None => VFail end
  | KRoll =>
    vdo '(v, s1) <- vm_pop_nonnegative s;
    match index_of v s1 with Some k => move_from k s1 | None => VFail end
  | KRot => move_from 3 s
  | KSwap => move_from 2 s
  | KTuck =>
    vdo '(v1, s1) <- vm_pop s;
    vdo '(v2, s2) <- vm_pop s1;
    VOk (vm_append v1 (vm_append v2 (vm_append v1 s2)))
  | KSize => vdo top <- vm_get 1 s; vm_push_int (Z.of_nat (length top)) s
  | KEqual =>
    vdo '(v1, s1) <- vm_pop s;
    vdo '(v2, s2) <- vm_pop s1;
    VOk (vm_append (bool_to_script_bytes (bytes_eqb v1 v2)) s2)
  | KEqualVerify =>
    vdo '(v1, s1) <- vm_pop s;
    vdo '(v2, s2) <- vm_pop s1;
    pop_verify (vm_append (bool_to_script_bytes (bytes_eqb v1 v2)) s2)
  | KUnary u => vdo '(v, s1) <- pop_check_bounds s; vm_push_int (unop_f u v) s1
  | KNot => vdo '(v, s1) <- pop_check_bounds s; VOk (vm_append (bool_to_script_bytes (v =? 0)%Z) s1)
  | K0NotEqual => vdo '(v, s1) <- pop_check_bounds s; vm_push_int (if (v =? 0)%Z then 0 else 1)%Z s1
  | KBin b =>
    vdo '(v1, s1) <- pop_check_bounds s;
    vdo '(v2, s2) <- pop_check_bounds s1;
    vm_push_int (binop_f b v2 v1) s2
  | KBoolBin b =>
    vdo '(v1, s1) <- pop_check_bounds s;
    vdo '(v2, s2) <- pop_check_bounds s1;
    VOk (vm_append (bool_to_script_bytes (boolop_f b v2 v1)) s2)
  | KNumEqualVerify =>
    vdo '(v1, s1) <- pop_check_bounds s;
    vdo '(v2, s2) <- pop_check_bounds s1;
    pop_verify (vm_append (bool_to_script_bytes (boolop_f BoNumEqual v2 v1)) s2)
  | KWithin =>
    vdo '(v3, s1) <- vm_pop_int 4 s;
    vdo '(v2, s2) <- vm_pop_int 4 s1;
    vdo '(v1, s3) <- vm_pop_int 4 s2;
    VOk (vm_append (bool_to_script_bytes ((v2 <=? v1)%Z && (v1 <? v3)%Z)) s3)
  | KHash h => vdo '(x, s1) <- vm_pop s; VOk (vm_append (hash_f h x) s1)
  | KCodeSeparator => VOk (set_bch s (st_pc s))
  | KCheckSig => do_OP_CHECKSIG s
  | KCheckSigVerify => vdo s1 <- do_OP_CHECKSIG s; pop_verify s1
  | KCheckMultiSig => do_OP_CHECKMULTISIG s
  | KCheckMultiSigVerify => vdo s1 <- do_OP_CHECKMULTISIG s; pop_verify s1
  | KDiscourageNops => if flag VERIFY_DISCOURAGE_UPGRADABLE_NOPS then VFail else VOk s
  | KCheckLockTimeVerify => do_OP_CHECKLOCKTIMEVERIFY s
  | KCheckSequenceVerify => do_OP_CHECKSEQUENCEVERIFY s
  end.

(* ---- VM.eval_instruction -------------------------------------------------------------------------- *)
Definition check_stack_size (s : vmstate) : bool :=
  (N.of_nat (length (st_stack s) + length (st_alt s)) <=? MAX_STACK_SIZE)%N.

Definition step (s : vmstate) : vres vmstate :=
  let all_if_true := c_all_if_true (st_cond s) in
  let verify_minimal_data := flag VERIFY_MINIMALDATA && all_if_true in
  vdo '(opcode, data, pc', is_ok) <- lift (btc_get_opcode script (st_pc s) verify_minimal_data);
  if negb is_ok then VFail else
  if match data with Some d => (MAX_BLOB_LENGTH <? N.of_nat (length d))%N | None => false end then VFail else
  let opc := match data with None => (st_opc s + 1)%Z | Some _ => st_opc s end in
  let stk := match data with
             | Some d => if all_if_true then d :: st_stack s else st_stack s
             | None => st_stack s
             end in
  let s1 := mkst pc' stk (st_alt s) (st_cond s) opc (st_bch s) in
  let k := hk opcode in
  vdo s2 <- (if all_if_true || hk_outside k then handler k s1 else VOk s1);
  if (Z.of_N MAX_OP_COUNT <? st_opc s2)%Z then VFail else
  (* the stack-size limit applies after each instruction (an initial stack is not checked before the first one) *)
  if negb (check_stack_size s2) then VFail else VOk s2.

(* `while self.pc < len(self.script): self.eval_instruction()` *)
Fixpoint run (fuel : nat) (s : vmstate) : vres vmstate :=
  if (length script <=? st_pc s)%nat then VOk s
  else match fuel with
       | O => VOutOfFuel
       | S f => vdo s' <- step s; run f s'
       end.

Definition init_state (initial_stack_top_first : list bytes) : vmstate :=
  mkst 0 initial_stack_top_first [] c_init 0%Z 0.

(* VM.eval_script on a VM created with this initial stack (TOP FIRST in, TOP FIRST out) *)
Definition eval_state (initial_stack_top_first : list bytes) : vres vmstate :=
  if (MAX_SCRIPT_LENGTH <? N.of_nat (length script))%N then VFail else
  vdo s <- run (length script) (init_state initial_stack_top_first);
  (* post_script_check: only conditional_stack.check_final_state() *)
  if negb (c_final_ok (st_cond s)) then VFail else VOk s.
End VM.

(* BitcoinVM(script, tx_context, sighash_f, flags, initial_stack).eval_script(): stacks TOP LAST *)
Definition eval_script (o : oracles) (flags : N) (sv : sigversion) (ctx : txctx) (script : bytes)
           (initial_stack : stack) : vres stack :=
  vdo s <- eval_state o flags sv ctx script (rev initial_stack);
  VOk (rev (st_stack s)).

(* ---- SolutionChecker ------------------------------------------------------------------------------- *)
Section Checker.
Variable o : oracles.

(* one pass of the `for` body of check_solution: run the VM, then EVAL_FALSE test *)
Definition run_and_check (flags : N) (sv : sigversion) (ctx : txctx) (puzzle_script : bytes)
           (solution_stack : stack) : vres stack :=
  vdo st <- eval_script o flags sv ctx puzzle_script solution_stack;
  match last_opt st with
  | None => VFail
  | Some top => if bool_from_script_bytes top then VOk st else VFail
  end.

(* _check_witness_program_v0 followed by the item-size loop of witness_program_tuple:
   (stack, puzzle_script) *)
Definition check_witness_program_v0 (witness : list bytes) (witness_program : bytes) : vres (list bytes * bytes) :=
  let size := length witness_program in
  if (size =? 32)%nat then
    match last_opt witness with
    | None => VFail                                             (* witness empty *)
    | Some puzzle_script =>
      if negb (bytes_eqb (o_sha256 o puzzle_script) witness_program) then VFail
      else VOk (removelast witness, puzzle_script)
    end
  else if (size =? 20)%nat then
    if negb (length witness =? 2)%nat then VFail else
    (* OP_DUP OP_HASH160 <program> OP_EQUALVERIFY OP_CHECKSIG *)
    vdo push <- lift (btc_compile_push_data witness_program);
    VOk (witness, [x76; xa9] ++ push ++ [x88; xac])
  else VFail.

(* witness_program_tuple: None, or (puzzle_script, stack, flags, sigversion of the sighash_f) *)
Definition witness_program_tuple (flags : N) (solution_script : bytes) (witness : list bytes)
           (puzzle_script : bytes) (is_p2sh : bool) : vres (option (bytes * list bytes * N * sigversion)) :=
  if negb (flag_set flags VERIFY_WITNESS) then VOk None else
  match witness_program_version puzzle_script with
  | None => if (0 <? length witness)%nat then VFail else VOk None
  | Some witness_version =>
    let witness_program := skipn 2 puzzle_script in
    vdo is_malleated <-
      (if is_p2sh
       then vdo push <- lift (btc_compile_push_data puzzle_script); VOk (negb (bytes_eqb solution_script push))
       else VOk (0 <? length solution_script)%nat);
    if is_malleated then VFail else
    if (witness_version =? 0)%N then
      vdo '(stack, wscript) <- check_witness_program_v0 witness witness_program;
      if existsb (fun s => (MAX_BLOB_LENGTH <? N.of_nat (length s))%N) stack then VFail else
      VOk (Some (wscript, stack, N.lor flags VERIFY_CLEANSTACK, SV_WITNESS_V0))
    else if flag_set flags VERIFY_DISCOURAGE_UPGRADABLE_WITNESS_PROGRAM then VFail
    else VOk (Some ([], [VM_TRUE], flags, SV_BASE))     (* sighash_f is None: the empty script never asks for it *)
  end.

(* the final test of check_solution with the flags of the LAST tuple *)
Definition clean_stack_check (flags : N) (st : stack) : vres unit :=
  if flag_set flags VERIFY_CLEANSTACK && negb (length st =? 1)%nat then VFail else VOk tt.

(* BitcoinSolutionChecker.check_solution(tx_context, flags) with puzzle_and_solution_iterator unrolled
   (the generator is lazy: each tuple is evaluated before the next one is computed) *)
Definition check_solution (sp : spend) : vres unit :=
  let flags := sp_flags sp in
  let ctx := sp_ctx sp in
  let solution_script := sp_script_sig sp in
  (* _solution_script_to_stack *)
  vdo _ <- (if flag_set flags VERIFY_SIGPUSHONLY then check_script_push_only solution_script else VOk tt);
  let f1 := N.ldiff flags (N.lor VERIFY_MINIMALIF VERIFY_WITNESS_PUBKEYTYPE) in
  vdo solution_stack <- eval_script o f1 SV_BASE ctx solution_script [];
  let puzzle_script := sp_script_pubkey sp in
  let flags_1 := f1 in
  (* tuple 1 *)
  vdo stack1 <- run_and_check flags_1 SV_BASE ctx puzzle_script solution_stack;
  (* p2s_program_tuple *)
  vdo p2sh <-
    (if flag_set flags_1 VERIFY_P2SH && is_pay_to_script_hash puzzle_script then
       vdo _ <- check_script_push_only solution_script;
       match last_opt solution_stack with
       | None => VCrash E_INDEX                                   (* solution_stack[-1] *)
       | Some redeem =>
         let stack_2 := removelast solution_stack in
         let flags_2 := N.ldiff flags_1 VERIFY_P2SH in
         vdo stack2 <- run_and_check flags_2 SV_BASE ctx redeem stack_2;
         VOk (Some (redeem, flags_2, stack2))
       end
     else VOk None);
  let '(cur_puzzle, last_flags, last_stack, is_p2sh) :=
    match p2sh with
    | Some (redeem, flags_2, stack2) => (redeem, flags_2, stack2, true)
    | None => (puzzle_script, flags_1, stack1, false)
    end in
  vdo wt <- witness_program_tuple flags solution_script (sp_witness sp) cur_puzzle is_p2sh;
  match wt with
  | None => clean_stack_check last_flags last_stack
  | Some (wscript, wstack, wflags, wsv) =>
    vdo stack3 <- run_and_check wflags wsv ctx wscript wstack;
    clean_stack_check wflags stack3
  end.
End Checker.
