(* Model/Block.v — pycoin/block.py (Block.parse, parse_as_header, stream_header, stream, _calculate_hash/hash,
   _parse_transactions, set_txs, check_merkle_hash) over the struct codecs "L" and "#" of
   pycoin/satoshi/satoshi_streamer.py.  No proofs here.
   The transaction codec (class_.Tx.parse / tx.stream / tx.hash, e.g. bitcoin Tx or litecoin LTCTx) and
   double_sha256 are Section variables: C07 owns the transaction wire model.
   Integers are N: a negative Python int given to the constructor makes struct.pack raise struct.error exactly like
   a value >= 2^32 does; that part of the Python domain is not represented. *)
From PV Require Import Base.Bytes Base.Outcome Base.Varint Model.Merkle.
Local Open Scope outcome_scope.

Record header := mkHeader {
  h_version : N; h_prev : bytes; h_merkle_root : bytes; h_timestamp : N; h_difficulty : N; h_nonce : N }.

(* "#": lambda f: bytes_as_revhex(f.read(32))  — a short read is silent *)
Definition parse_hash32 : parser bytes := fun s => Ret (read 32 s).
(* "#": lambda f, v: f.write(v[:32])            — truncates, never pads *)
Definition stream_hash32 (v : bytes) : bytes := firstn 32 v.

(* parse_struct("L##LLL", f) *)
Definition parse_header : parser header := fun s =>
  do '(v, s) <- read_le 4 s;
  do '(p, s) <- parse_hash32 s;
  do '(m, s) <- parse_hash32 s;
  do '(t, s) <- read_le 4 s;
  do '(d, s) <- read_le 4 s;
  do '(n, s) <- read_le 4 s;
  Ret (mkHeader v p m t d n, s).

(* stream_struct("L##LLL", f, version, previous_block_hash, merkle_root, timestamp, difficulty, nonce) *)
Definition stream_header (h : header) : outcome bytes :=
  do v <- write_le 4 (h_version h);
  let p := stream_hash32 (h_prev h) in
  let m := stream_hash32 (h_merkle_root h) in
  do t <- write_le 4 (h_timestamp h);
  do d <- write_le 4 (h_difficulty h);
  do n <- write_le 4 (h_nonce h);
  Ret (v ++ p ++ m ++ t ++ d ++ n).

Definition set_nonce (h : header) (n : N) : header :=
  mkHeader (h_version h) (h_prev h) (h_merkle_root h) (h_timestamp h) (h_difficulty h) n.

Section Block.
Variable tx : Type.
Variable parse_tx : parser tx.          (* class_.Tx.parse(f) *)
Variable stream_tx : tx -> bytes.       (* tx.stream(f) *)
Variable tx_hash : tx -> bytes.         (* tx.hash() *)
Variable dsha256 : bytes -> bytes.      (* double_sha256 *)

Record block := mkBlock { b_header : header; b_txs : list tx }.

(* _calculate_hash / hash(): double_sha256 of the streamed header.  (The `hasattr(self, "__hash")` cache test
   never succeeds because of name mangling, so the hash is recomputed on every call.) *)
Definition block_hash (h : header) : outcome bytes :=
  do s <- stream_header h; Ret (dsha256 s).
(* id(): b2h_rev(hash) — the byte-reversed hash (hex rendering left to Python) *)
Definition block_id (h : header) : outcome bytes :=
  do x <- block_hash h; Ret (rev x).

(* for i in range(count): txs.append(class_.Tx.parse(f))      — count is data (up to 2^64-1), fuel is not *)
Fixpoint parse_txs (fuel : nat) (count : N) (s : bytes) : outcome (list tx * bytes) :=
  if (count =? 0)%N then Ret ([], s) else
  match fuel with
  | O => OutOfFuel
  | S f =>
    do '(t, s1) <- parse_tx s;
    do '(ts, s2) <- parse_txs f (count - 1)%N s1;
    Ret (t :: ts, s2)
  end.

(* check_merkle_hash *)
Definition check_merkle_hash (h : header) (txs : list tx) : outcome unit :=
  do c <- merkle dsha256 (map tx_hash txs);
  if bytes_eqb c (h_merkle_root h) then Ret tt else Raise E_BADMERKLE.

(* set_txs: `if not txs: return` comes before the check *)
Definition set_txs (h : header) (txs : list tx) (check : bool) : outcome block :=
  match txs with
  | [] => Ret (mkBlock h [])
  | _ => if check then do _ <- check_merkle_hash h txs; Ret (mkBlock h txs) else Ret (mkBlock h txs)
  end.

(* Block.parse(f, include_transactions, check_merkle_hash); returns the block and the unread rest *)
Definition block_parse (include_transactions check : bool) : parser block := fun s =>
  do '(h, s1) <- parse_header s;
  if include_transactions then
    do '(count, s2) <- parse_varint s1;
    do '(txs, s3) <- parse_txs (S (length s2)) count s2;
    do b <- set_txs h txs check;
    Ret (b, s3)
  else Ret (mkBlock h [], s1).

(* stream: header, then `if self.txs:` count and transactions *)
Definition block_stream (b : block) : outcome bytes :=
  do hs <- stream_header (b_header b);
  match b_txs b with
  | [] => Ret hs
  | txs => do c <- stream_varint (N.of_nat (length txs)); Ret (hs ++ c ++ concat (map stream_tx txs))
  end.
End Block.
