(* Model/Streamer.v — property C16.  Transcription (NO proofs) of
     pycoin/serialize/streamer.py            Streamer.parse_struct / stream_struct / parse_as_dict
     pycoin/satoshi/satoshi_streamer.py      STREAMER_FUNCTIONS  (I S h L Q # @ b)
     pycoin/message/make_parser_and_packer.py  standard_parsing_functions (A v T B z 1 6 O), _make_parser,
                                             make_post_unpack_alert, make_parser_and_packer
                                             (parse_from_data / pack_from_data)
     pycoin/message/PeerAddress.py, InvItem.py  constructors, parse, stream
   Compact sizes and length-prefixed strings come from Base/Varint.v.

   Python values are `pyval` (None, int, bool, bytes, tuple/list, PeerAddress, InvItem, Tx, Block, header-only
   Block, dict).  Tx / Block / block header are OPAQUE: their value types and codecs are Section variables
   (they belong to C07 / C14); `header_of` is Block.stream_header's view of a full block (the "z" codec
   accepts any Block and writes its header only).
   Python `str` (format texts, message and field names; ASCII) is `list byte` (`str "text"` literals).
   Exceptions are `outcome` values.  The only loop whose trip count is data (the array count, up to 2^64-1)
   is run by `loopk`, a binary-depth iterator that performs exactly `count` iterations (no fuel outcome for
   any count below 2^65) and stops at the first exception, like the Python `for j in range(count)`.  *)
From PV Require Import Base.Bytes Base.Outcome Base.Varint Gen.GenMessages.
Local Open Scope N_scope.
Local Open Scope outcome_scope.

(* the sixteen registered format characters *)
Inductive codec := CI | CS | Ch | CL | CQ | CHash | CAt | Cb | CA | Cv | CT | CB | Cz | C1 | C6 | CO.

Definition char_of (k : codec) : byte :=
  match k with
  | CI => "I" | CS => "S" | Ch => "h" | CL => "L" | CQ => "Q" | CHash => "#" | CAt => "@" | Cb => "b"
  | CA => "A" | Cv => "v" | CT => "T" | CB => "B" | Cz => "z" | C1 => "1" | C6 => "6" | CO => "O"
  end%byte.

Definition all_codecs : list codec := [CI; CS; Ch; CL; CQ; CHash; CAt; Cb; CA; Cv; CT; CB; Cz; C1; C6; CO].

(* parse_lookup[c] / stream_lookup[c]: None = KeyError *)
Fixpoint codec_lookup (l : list codec) (c : byte) : option codec :=
  match l with
  | [] => None
  | k :: r => if byte_eqb c (char_of k) then Some k else codec_lookup r c
  end.
Definition codec_of_char (c : byte) : option codec := codec_lookup all_codecs c.

Definition lbracket : byte := "["%byte.
Definition rbracket : byte := "]"%byte.

(* fmt.find("]", i): the text up to the first "]" and the text after it *)
Fixpoint find_close (l : bytes) : option (bytes * bytes) :=
  match l with
  | [] => None
  | c :: r =>
    if byte_eqb c rbracket then Some ([], r)
    else match find_close r with Some (a, b) => Some (c :: a, b) | None => None end
  end.

Fixpoint str_lookup {A} (d : list (bytes * A)) (k : bytes) : option A :=
  match d with
  | [] => None
  | (k', v) :: r => if bytes_eqb k k' then Some v else str_lookup r k
  end.

Section Streamer.
Variables TxV BlockV HdrV : Type.
Variable parse_T : parser TxV.
Variable stream_T : TxV -> bytes.
Variable parse_B : parser BlockV.
Variable stream_B : BlockV -> bytes.
Variable parse_z : parser HdrV.
Variable stream_z : HdrV -> bytes.
Variable header_of : BlockV -> HdrV.
(* PeerAddress.IP4_HEADER and the item types InvItem.__init__ checks (from Gen/GenMessages.v) *)
Variable ip4_header : bytes.
Variable inv_checked_types : list Z.

Inductive pyval :=
| VNone
| VInt (z : Z)
| VBool (b : bool)
| VBytes (b : bytes)
| VTuple (l : list pyval)                               (* tuple or list *)
| VAddr (services : Z) (ip_bin : bytes) (port : Z)      (* PeerAddress object (state after __init__) *)
| VInv (item_type : Z) (data : bytes)                   (* InvItem object *)
| VTx (t : TxV)
| VBlock (b : BlockV)                                   (* Block with transactions *)
| VHdr (h : HdrV)                                       (* Block as returned by parse_as_header *)
| VDict (d : list (bytes * pyval)).                    (* only produced by parsing (alert_info) *)

(* ---- helper objects ------------------------------------------------------------------------- *)
(* PeerAddress.__init__(services, ip_bin, port) with an int `services` and bytes `ip_bin` *)
Definition mk_addr (services : Z) (ip_bin : bytes) (port : Z) : outcome pyval :=
  let ip := if (length ip_bin =? 4)%nat then ip4_header ++ ip_bin else ip_bin in
  if (length ip =? 16)%nat then Ret (VAddr services ip port) else Raise E_ASSERT.

(* InvItem.__init__(item_type, data, dont_check) with bytes `data` *)
Definition mk_inv (item_type : Z) (data : bytes) (dont_check : bool) : outcome pyval :=
  if negb dont_check && negb (existsb (Z.eqb item_type) inv_checked_types) then Raise E_ASSERT
  else if (length data =? 32)%nat then Ret (VInv item_type data) else Raise E_ASSERT.

(* ---- value views ------------------------------------------------------------------------------ *)
(* what struct.pack accepts as an integer: int and bool *)
Definition as_int (v : pyval) : option Z :=
  match v with
  | VInt z => Some z
  | VBool b => Some (if b then 1 else 0)%Z
  | _ => None
  end.

(* bool(v) as used by struct.pack("?", v) *)
Definition truthy (v : pyval) : bool :=
  match v with
  | VNone => false
  | VInt z => negb (z =? 0)%Z
  | VBool b => b
  | VBytes b => negb (length b =? 0)%nat
  | VTuple l => negb (length l =? 0)%nat
  | VDict d => negb (length d =? 0)%nat
  | _ => true
  end.

(* struct.pack(<unsigned, w bytes>, v): struct.error when v is not an int or out of range *)
Definition pack_uint (be : bool) (w : nat) (v : pyval) : outcome bytes :=
  match as_int v with
  | None => Raise E_STRUCT
  | Some z => if (z <? 0)%Z then Raise E_STRUCT
              else if be then write_be w (Z.to_N z) else write_le w (Z.to_N z)
  end.

(* ---- stream side of the codecs ---------------------------------------------------------------- *)
(* stream_satoshi_int(f, v): `v < 253` is the first thing evaluated *)
Definition stream_I (v : pyval) : outcome bytes :=
  match v with
  | VInt _ | VBool _ =>
    match as_int v with
    | Some z => if (z <? 0)%Z then Raise E_STRUCT else stream_varint (Z.to_N z)
    | None => Raise E_TYPE
    end
  | VAddr _ _ _ | VInv _ _ => Raise E_ATTR   (* functools.total_ordering: __lt__ reads other.ip_bin / other.item_type *)
  | _ => Raise E_TYPE
  end.

(* stream_satoshi_string(f, v): len(v), then f.write(v) *)
Definition stream_S (v : pyval) : outcome bytes :=
  match v with
  | VBytes b => stream_varstr b
  | _ => Raise E_TYPE
  end.

(* f.write(v[:n]) — '#' (n=32) and '@' (n=16): a longer value is silently truncated, a shorter one
   written as it is *)
Definition stream_fixed (n : nat) (v : pyval) : outcome bytes :=
  match v with
  | VBytes b => Ret (firstn n b)
  | _ => Raise E_TYPE
  end.

(* PeerAddress.stream *)
Definition stream_addr (services : Z) (ip : bytes) (port : Z) : outcome bytes :=
  do s <- pack_uint false 8 (VInt services);
  do p <- pack_uint true 2 (VInt port);
  Ret (s ++ ip ++ p).

(* InvItem.stream = stream_struct("L#", f, item_type, data) of the satoshi streamer *)
Definition stream_inv (ty : Z) (data : bytes) : outcome bytes :=
  do t <- pack_uint false 4 (VInt ty);
  Ret (t ++ firstn 32 data).

(* lambda f, x: x.stream(f) — duck typed: anything with a .stream method is written *)
Definition stream_obj (v : pyval) : outcome bytes :=
  match v with
  | VAddr s ip p => stream_addr s ip p
  | VInv t d => stream_inv t d
  | VTx t => Ret (stream_T t)
  | VBlock b => Ret (stream_B b)
  | VHdr h => Ret (stream_z h)                (* Block.stream of a block without transactions *)
  | _ => Raise E_ATTR
  end.

Definition stream_codec (k : codec) (v : pyval) : outcome bytes :=
  match k with
  | CI => stream_I v
  | CS => stream_S v
  | Ch => pack_uint true 2 v
  | CL => pack_uint false 4 v
  | CQ => pack_uint false 8 v
  | CHash => stream_fixed 32 v
  | CAt => stream_fixed 16 v
  | Cb => Ret [if truthy v then x01 else x00]
  | CA | Cv => stream_obj v
  | CT => match v with VTx t => Ret (stream_T t) | _ => Raise E_ASSERT end
  | CB => match v with                                    (* assert isinstance(block, Block); block.stream(f) *)
          | VBlock b => Ret (stream_B b) | VHdr h => Ret (stream_z h) | _ => Raise E_ASSERT end
  | Cz => match v with                                    (* assert isinstance(.., Block); stream_header(f) *)
          | VBlock b => Ret (stream_z (header_of b)) | VHdr h => Ret (stream_z h) | _ => Raise E_ASSERT end
  | C1 => pack_uint false 1 v
  | C6 => do b <- pack_uint false 8 v; Ret (firstn 6 b)   (* struct.pack("<Q", v)[:6] *)
  | CO => match v with VNone => Ret [] | _ => pack_uint false 1 v end
  end.

(* ---- parse side of the codecs ------------------------------------------------------------------- *)
Definition lift {A} (p : parser A) (f : A -> pyval) : parser pyval := fun s =>
  do '(a, r) <- p s; Ret (f a, r).
Definition n2v (n : N) : pyval := VInt (Z.of_N n).

(* PeerAddress.parse: parse_struct("Q@h", f) then the constructor *)
Definition parse_addr : parser pyval := fun s =>
  do '(services, s1) <- read_le 8 s;
  let '(ip, s2) := read 16 s1 in
  do '(port, s3) <- read_be 2 s2;
  do a <- mk_addr (Z.of_N services) ip (Z.of_N port);
  Ret (a, s3).

(* InvItem.parse: parse_struct("L#", f) then the constructor with dont_check=True *)
Definition parse_inv : parser pyval := fun s =>
  do '(ty, s1) <- read_le 4 s;
  let '(d, s2) := read 32 s1 in
  do i <- mk_inv (Z.of_N ty) d true;
  Ret (i, s2).

Definition parse_codec (k : codec) : parser pyval :=
  match k with
  | CI => lift parse_varint n2v
  | CS => lift parse_varstr VBytes
  | Ch => lift (read_be 2) n2v
  | CL => lift (read_le 4) n2v
  | CQ => lift (read_le 8) n2v
  | CHash => fun s => let '(h, t) := read 32 s in Ret (VBytes h, t)        (* short read is silent *)
  | CAt => fun s => let '(h, t) := read 16 s in Ret (VBytes h, t)
  | Cb => fun s => match s with [] => Raise E_STRUCT | b :: r => Ret (VBool (negb (b2n b =? 0)), r) end
  | CA => parse_addr
  | Cv => parse_inv
  | CT => lift parse_T VTx
  | CB => lift parse_B VBlock
  | Cz => lift parse_z VHdr
  | C1 => lift (read_le 1) n2v
  | C6 => lift (read_le 6) n2v            (* f.read(6) + b"\0\0" unpacked as "<Q": struct.error when short *)
  | CO => fun s => match s with [] => Ret (VNone, []) | b :: r => Ret (VBool (negb (b2n b =? 0)), r) end
  end.

(* ---- the array count loop ----------------------------------------------------------------------- *)
Section Loop.
Variable elem : parser pyval.
Inductive lstate :=
| Running (count : N) (acc : list pyval) (s : bytes)
| Done (r : outcome (list pyval * bytes)).

Definition step (st : lstate) : lstate :=
  match st with
  | Done _ => st
  | Running c acc s =>
    if c =? 0 then Done (Ret (rev_append acc [], s))     (* = rev acc, linear time *)
    else match elem s with
         | Ret (v, s') => Running (c - 1) (v :: acc) s'
         | Raise e => Done (Raise e)
         | OutOfFuel => Done OutOfFuel
         end
  end.

(* 2^k applications of step, leaving as soon as the state is Done *)
Fixpoint loopk (k : nat) (st : lstate) : lstate :=
  match st with
  | Done _ => st
  | Running _ _ _ =>
    match k with
    | O => step st
    | S k' => loopk k' (loopk k' st)
    end
  end.

Definition loop_depth : nat := 65.
Definition parse_array (count : N) (s : bytes) : outcome (list pyval * bytes) :=
  match loopk loop_depth (Running count [] s) with
  | Done r => r
  | Running _ _ _ => OutOfFuel
  end.
End Loop.

(* ---- Streamer.parse_struct / stream_struct --------------------------------------------------------- *)
(* fuel bounds the nesting/length of the format text only (length fmt suffices), never the data *)
Fixpoint parse_struct (fuel : nat) (fmt : bytes) (s : bytes) {struct fuel}
  : outcome (list pyval * bytes) :=
  match fmt with
  | [] => Ret ([], s)
  | c :: fmt' =>
    match fuel with
    | O => OutOfFuel
    | S fuel' =>
      if byte_eqb c lbracket then
        match find_close fmt' with
        | None => Raise E_VALUE                                  (* "no closing ] character" *)
        | Some (subfmt, fmt'') =>
          do '(count, s1) <- parse_varint s;
          let elem := fun s0 =>
            do '(items, r) <- parse_struct fuel' subfmt s0;
            Ret (match subfmt, items with
                 | [_], v :: _ => v                              (* len(subfmt) == 1: ...[0] *)
                 | _, _ => VTuple items
                 end, r) in
          do '(arr, s2) <- parse_array elem count s1;
          do '(rest, s3) <- parse_struct fuel' fmt'' s2;
          Ret (VTuple arr :: rest, s3)
        end
      else
        match codec_of_char c with
        | None => Raise E_KEY
        | Some k =>
          do '(v, s1) <- parse_codec k s;
          do '(rest, s2) <- parse_struct fuel' fmt' s1;
          Ret (v :: rest, s2)
        end
    end
  end.

(* for c, v in zip(fmt, args): stream_lookup[c](f, v) — no array handling, silent truncation by zip *)
Fixpoint stream_struct (fmt : bytes) (args : list pyval) : outcome bytes :=
  match fmt, args with
  | c :: fmt', v :: args' =>
    match codec_of_char c with
    | None => Raise E_KEY
    | Some k =>
      do b <- stream_codec k v;
      do r <- stream_struct fmt' args';
      Ret (b ++ r)
    end
  | _, _ => Ret []
  end.

(* ---- messages ------------------------------------------------------------------------------------- *)
Section Messages.
(* layout tables (from Gen/GenMessages.v): message name -> [(field name, type text)] *)
Variable msgs : list (bytes * list (bytes * bytes)).
Variable alert_layout : list (bytes * bytes).
(* post_unpack_merkleblock (owned by C14): the parsed dict -> the dict with "tx_hashes", or an exception *)
Variable post_merkleblock : list (bytes * pyval) -> outcome (list (bytes * pyval)).

Definition layout_names (layout : list (bytes * bytes)) : list bytes := map fst layout.
Definition layout_types (layout : list (bytes * bytes)) : bytes :=
  concat (map snd layout).

(* _make_parser + Streamer.parse_as_dict: dict(zip(names, parse_struct(types, f))); also returns what is
   left of the stream (Python leaves it unread in the BytesIO) *)
Definition parse_message (layout : list (bytes * bytes)) (data : bytes)
  : outcome (list (bytes * pyval) * bytes) :=
  let types := layout_types layout in
  do '(items, rest) <- parse_struct (length types) types data;
  Ret (combine (layout_names layout) items, rest).

(* post_unpack_alert: the payload is parsed as an alert sub-message inside try/except Exception; any
   exception (also a missing / non-bytes payload) gives alert_info = None *)
Definition post_unpack_alert (d : list (bytes * pyval)) : outcome (list (bytes * pyval)) :=
  do info <- match str_lookup d (str "payload") with
             | Some (VBytes payload) =>
               match parse_message alert_layout payload with
               | Ret (d1, _) => Ret (VDict d1)
               | Raise _ => Ret VNone
               | OutOfFuel => OutOfFuel
               end
             | _ => Ret VNone
             end;
  Ret (d ++ [(str "alert_info", info)]).

Definition parse_from_data (name : bytes) (data : bytes) : outcome (list (bytes * pyval)) :=
  match str_lookup msgs name with
  | None => Raise E_KEY
  | Some layout =>
    do '(d, _) <- parse_message layout data;
    if bytes_eqb name (str "alert") then post_unpack_alert d
    else if bytes_eqb name (str "merkleblock") then post_merkleblock d
    else Ret d
  end.

(* len(x) / `for v in x` of a keyword argument: tuples, lists and bytes (which iterate as ints) *)
Definition as_seq (v : pyval) : outcome (list pyval) :=
  match v with
  | VTuple l => Ret l
  | VBytes b => Ret (map (fun x => VInt (b2z x)) b)
  | _ => Raise E_TYPE
  end.

Fixpoint pack_elems (subfmt : bytes) (elems : list pyval) : outcome bytes :=
  match elems with
  | [] => Ret []
  | e :: r =>
    let args := match e with VTuple t => t | _ => [e] end in   (* if not isinstance(v, (tuple, list)): v = [v] *)
    do b <- stream_struct subfmt args;
    do br <- pack_elems subfmt r;
    Ret (b ++ br)
  end.

(* one iteration of the `for name, type in pairs` loop, on the characters of `type` *)
Definition pack_field (ty : bytes) (v : pyval) : outcome bytes :=
  match ty with
  | [] => Raise E_INDEX                                             (* type[0] *)
  | c :: rest =>
    if byte_eqb c lbracket then
      do elems <- as_seq v;
      do cnt <- stream_struct [char_of CI] [VInt (Z.of_nat (length elems))];
      do body <- pack_elems (removelast rest) elems;               (* type[1:-1] *)
      Ret (cnt ++ body)
    else stream_struct ty [v]
  end.

Fixpoint pack_fields (layout : list (bytes * bytes)) (kwargs : list (bytes * pyval)) : outcome bytes :=
  match layout with
  | [] => Ret []
  | (name, ty) :: r =>
    match str_lookup kwargs name with
    | None => Raise E_KEY
    | Some v =>
      do b <- pack_field ty v;
      do br <- pack_fields r kwargs;
      Ret (b ++ br)
    end
  end.

Definition pack_from_data (name : bytes) (kwargs : list (bytes * pyval)) : outcome bytes :=
  match str_lookup msgs name with
  | None => Raise E_KEY
  | Some layout => pack_fields layout kwargs      (* the empty layout returns b"" at once: same value *)
  end.
End Messages.
End Streamer.

Arguments VNone {TxV BlockV HdrV}.
Arguments VInt {TxV BlockV HdrV} z.
Arguments VBool {TxV BlockV HdrV} b.
Arguments VBytes {TxV BlockV HdrV} b.
Arguments VTuple {TxV BlockV HdrV} l.
Arguments VAddr {TxV BlockV HdrV} services ip_bin port.
Arguments VInv {TxV BlockV HdrV} item_type data.
Arguments VTx {TxV BlockV HdrV} t.
Arguments VBlock {TxV BlockV HdrV} b.
Arguments VHdr {TxV BlockV HdrV} h.
Arguments VDict {TxV BlockV HdrV} d.
Arguments Running {TxV BlockV HdrV} count acc s.
Arguments Done {TxV BlockV HdrV} r.
Arguments mk_addr {TxV BlockV HdrV} ip4_header services ip_bin port.
Arguments mk_inv {TxV BlockV HdrV} inv_checked_types item_type data dont_check.
Arguments as_int {TxV BlockV HdrV} v.
Arguments truthy {TxV BlockV HdrV} v.
Arguments pack_uint {TxV BlockV HdrV} be w v.
Arguments stream_I {TxV BlockV HdrV} v.
Arguments stream_S {TxV BlockV HdrV} v.
Arguments stream_fixed {TxV BlockV HdrV} n v.
Arguments stream_obj {TxV BlockV HdrV} stream_T stream_B stream_z v.
Arguments stream_codec {TxV BlockV HdrV} stream_T stream_B stream_z header_of k v.
Arguments lift {TxV BlockV HdrV A} p f.
Arguments n2v {TxV BlockV HdrV} n.
Arguments parse_addr {TxV BlockV HdrV} ip4_header.
Arguments parse_inv {TxV BlockV HdrV} inv_checked_types.
Arguments parse_codec {TxV BlockV HdrV} parse_T parse_B parse_z ip4_header inv_checked_types k.
Arguments step {TxV BlockV HdrV} elem st.
Arguments loopk {TxV BlockV HdrV} elem k st.
Arguments parse_array {TxV BlockV HdrV} elem count s.
Arguments parse_struct {TxV BlockV HdrV} parse_T parse_B parse_z ip4_header inv_checked_types fuel fmt s.
Arguments stream_struct {TxV BlockV HdrV} stream_T stream_B stream_z header_of fmt args.
Arguments parse_message {TxV BlockV HdrV} parse_T parse_B parse_z ip4_header inv_checked_types layout data.
Arguments post_unpack_alert {TxV BlockV HdrV} parse_T parse_B parse_z ip4_header inv_checked_types alert_layout d.
Arguments parse_from_data {TxV BlockV HdrV} parse_T parse_B parse_z ip4_header inv_checked_types msgs alert_layout post_merkleblock name data.
Arguments as_seq {TxV BlockV HdrV} v.
Arguments pack_elems {TxV BlockV HdrV} stream_T stream_B stream_z header_of subfmt elems.
Arguments pack_field {TxV BlockV HdrV} stream_T stream_B stream_z header_of ty v.
Arguments pack_fields {TxV BlockV HdrV} stream_T stream_B stream_z header_of layout kwargs.
Arguments pack_from_data {TxV BlockV HdrV} stream_T stream_B stream_z header_of msgs name kwargs.
