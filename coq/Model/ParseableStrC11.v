(* Model/ParseableStrC11.v — pycoin/networks/parseable_str.py as a STATEFUL object (C11): the per-object cache
   `_cache` (a dict: key -> value, values may be None), parseable_str.cache, and the observers that memoise in it:
   parse_b58 ("b58"), parse_b58_double_sha256 ("b58_double_sha256"), parse_bech32 ("bech32") and
   pycoin/coins/groestlcoin/parse.py parse_b58_groestl ("b58_groestl").  One cache key per checksum function.
   The str itself is immutable; the mutators are those Python allows on the dict: clear(), pop(key), and
   re-wrapping parseable_str(ps) (which returns the same object and keeps the same dict).  No proofs here. *)
From PV Require Import Base.Bytes Base.Outcome Gen.GenCodecsC11 Model.Base58 Model.Bech32.
Local Open Scope Z_scope.

Definition bech_val := (pystr * Z * bytes * Z)%type.

(* a dict entry: None = key absent, Some v = key present with value v (v itself may be Python's None) *)
Record pcache := mk_pcache {
  k_b58 : option (option bytes);
  k_dsha : option (option bytes);
  k_grs : option (option bytes);
  k_bech32 : option (option bech_val)
}.
Definition empty_cache : pcache := mk_pcache None None None None.
Definition set_b58 c v := mk_pcache v (k_dsha c) (k_grs c) (k_bech32 c).
Definition set_dsha c v := mk_pcache (k_b58 c) v (k_grs c) (k_bech32 c).
Definition set_grs c v := mk_pcache (k_b58 c) (k_dsha c) v (k_bech32 c).
Definition set_bech32 c v := mk_pcache (k_b58 c) (k_dsha c) (k_grs c) v.

Section WithHashes.
(* double_sha256 and groestlHash: arbitrary functions (oracles in the driver) *)
Variables (dsha groestl : bytes -> bytes).

(* parse_b58: ps.cache("b58", a2b_base58) — `if key not in cache: cache[key] = None; try: cache[key] = f(self)
   except Exception: pass; return cache[key]` *)
Definition parse_b58_st (s : pystr) (c : pcache) : option bytes * pcache :=
  match k_b58 c with
  | Some v => (v, c)
  | None => let v := btc_parse_b58 s in (v, set_b58 c (Some v))
  end.

(* the body shared by b58_double_sha256 and b58_groestl: `data = parse_b58(s); if data: data, the_hash =
   data[:-4], data[-4:]; if H(data)[:4] == the_hash: return data; return None` — parse_b58 goes through the cache
   of the same object *)
Definition checksum_strip (H : bytes -> bytes) (data : option bytes) : option bytes :=
  match data with
  | Some (x :: r) =>
    let d := x :: r in
    let body := but_last4 d in
    if bytes_eqb (firstn 4 (H body)) (last4 d) then Some body else None
  | _ => None
  end.
Definition b58_hashed_body (H : bytes -> bytes) (s : pystr) (c : pcache) : option bytes * pcache :=
  let '(data, c1) := parse_b58_st s c in (checksum_strip H data, c1).

(* parse_b58_double_sha256: ps.cache("b58_double_sha256", b58_double_sha256) *)
Definition parse_b58_dsha_st (s : pystr) (c : pcache) : option bytes * pcache :=
  match k_dsha c with
  | Some v => (v, c)
  | None =>
    let '(v, c1) := b58_hashed_body dsha s (set_dsha c (Some None)) in (v, set_dsha c1 (Some v))
  end.

(* groestlcoin parse_b58_groestl: ps.cache("b58_groestl", b58_groestl) *)
Definition parse_b58_grs_st (s : pystr) (c : pcache) : option bytes * pcache :=
  match k_grs c with
  | Some v => (v, c)
  | None =>
    let '(v, c1) := b58_hashed_body groestl s (set_grs c (Some None)) in (v, set_grs c1 (Some v))
  end.

(* parse_bech32: ps.cache("bech32", parse_bech32_or_32m) *)
Definition parse_bech32_st (s : pystr) (c : pcache) : option bech_val * pcache :=
  match k_bech32 c with
  | Some v => (v, c)
  | None => let v := parse_bech32 s in (v, set_bech32 c (Some v))
  end.

(* ---- histories ---------------------------------------------------------------------------------------------- *)
Inductive pkey := KB58 | KDsha | KGrs | KBech32.
Inductive pop :=
| OB58 | ODsha | OGrs | OBech32            (* observers *)
| MClear | MPop (k : pkey) | MRewrap.     (* ps._cache.clear(), ps._cache.pop(k, None), parseable_str(ps) *)
Inductive presult := RBytes (v : option bytes) | RBech (v : option bech_val) | RNone.

Definition pop_key (k : pkey) (c : pcache) : pcache :=
  match k with
  | KB58 => set_b58 c None | KDsha => set_dsha c None | KGrs => set_grs c None | KBech32 => set_bech32 c None
  end.

Definition run_op (s : pystr) (o : pop) (c : pcache) : presult * pcache :=
  match o with
  | OB58 => let '(v, c') := parse_b58_st s c in (RBytes v, c')
  | ODsha => let '(v, c') := parse_b58_dsha_st s c in (RBytes v, c')
  | OGrs => let '(v, c') := parse_b58_grs_st s c in (RBytes v, c')
  | OBech32 => let '(v, c') := parse_bech32_st s c in (RBech v, c')
  | MClear => (RNone, empty_cache)
  | MPop k => (RNone, pop_key k c)
  | MRewrap => (RNone, c)
  end.

Fixpoint run_ops (s : pystr) (ops : list pop) (c : pcache) : list presult * pcache :=
  match ops with
  | [] => ([], c)
  | o :: r => let '(v, c1) := run_op s o c in let '(vs, c2) := run_ops s r c1 in (v :: vs, c2)
  end.

(* what each operation gives on a FRESH str (no history) *)
Definition fresh_op (s : pystr) (o : pop) : presult :=
  match o with
  | OB58 => RBytes (btc_parse_b58 s)
  | ODsha => RBytes (btc_parse_b58_double_sha256 dsha s)
  | OGrs => RBytes (btc_parse_b58_double_sha256 groestl s)
  | OBech32 => RBech (parse_bech32 s)
  | _ => RNone
  end.

(* one parseable_str object, created from s, through a whole history *)
Definition history (s : pystr) (ops : list pop) : list presult := fst (run_ops s ops empty_cache).
End WithHashes.

(* op codes of the driver line protocol *)
Definition pop_of_code (z : Z) : pop :=
  if z =? 0 then OB58 else if z =? 1 then ODsha else if z =? 2 then OGrs else if z =? 3 then OBech32
  else if z =? 4 then MClear else if z =? 5 then MPop KB58 else if z =? 6 then MPop KDsha
  else if z =? 7 then MPop KGrs else if z =? 8 then MPop KBech32 else MRewrap.
Definition c11_history (dsha groestl : bytes -> bytes) (s : pystr) (codes : list Z) : list presult :=
  history dsha groestl s (map pop_of_code codes).
