(* Model/DecimalConv.v — pycoin/convention/__init__.py (satoshi_to_btc, btc_to_satoshi, satoshi_to_mbtc,
   mbtc_to_satoshi) over a small exact model of Python's decimal.Decimal.  No proofs here.

   A finite Decimal is (sign, coefficient, exponent): value = (-1)^sign * coefficient * 10^exponent.
   The arithmetic context is the default one the library runs under (prec = gen_decimal_prec = 28,
   ROUND_HALF_EVEN — checked by the table generator).  Modelled after Lib/_pydecimal.py (the C module
   _decimal implements the same General Decimal Arithmetic results): __mul__, __truediv__, _fix, quantize,
   _rescale, __int__.  NOT modelled: NaN/Infinity, the exponent limits Emin/Emax = -/+999999 (subnormal
   and overflow handling in _fix/quantize; every exponent here is assumed to stay far inside them), flags/traps
   other than InvalidOperation from quantize, and the parsing/printing of decimal strings.
   Exceptions: decimal.InvalidOperation and decimal.DivisionByZero = E_OTHER. *)
From PV Require Import Base.Bytes Base.Outcome Gen.GenTxBuild.
Local Open Scope Z_scope.
Local Open Scope outcome_scope.

Record dec := mk_dec { d_neg : bool; d_coef : Z; d_exp : Z }.   (* d_coef >= 0 *)

Definition prec : Z := gen_decimal_prec.

Definition dec_of_triple (t : bool * Z * Z) : dec := mk_dec (fst (fst t)) (snd (fst t)) (snd t).
(* Decimal(int): exact *)
Definition dec_of_int (z : Z) : dec := mk_dec (z <? 0) (Z.abs z) 0.

(* len(self._int): number of decimal digits, 1 for zero.  fuel = bit length (proved sufficient) *)
Fixpoint ndigits_f (fuel : nat) (c : Z) : Z :=
  match fuel with
  | O => 0
  | S f => if c <? 10 then 1 else 1 + ndigits_f f (c / 10)
  end.
Definition ndigits (c : Z) : Z := ndigits_f (S (Z.to_nat (Z.log2 c))) c.

(* drop the last `drop` (> 0) digits of c, rounding half to even *)
Definition round_half_even (c drop : Z) : Z :=
  let p := 10 ^ drop in
  let q := c / p in
  let r := c mod p in
  if 2 * r >? p then q + 1
  else if 2 * r =? p then (if Z.odd q then q + 1 else q)
  else q.

(* Decimal._fix: round to the context precision *)
Definition dec_fix (d : dec) : dec :=
  if d_coef d =? 0 then d
  else
    let n := ndigits (d_coef d) in
    if n <=? prec then d
    else
      let drop := n - prec in
      let c := round_half_even (d_coef d) drop in
      if c =? 10 ^ prec then mk_dec (d_neg d) (10 ^ (prec - 1)) (d_exp d + drop + 1)
      else mk_dec (d_neg d) c (d_exp d + drop).

(* Decimal.__mul__ *)
Definition dec_mul (a b : dec) : dec :=
  dec_fix (mk_dec (xorb (d_neg a) (d_neg b)) (d_coef a * d_coef b) (d_exp a + d_exp b)).

(* the `while exp < ideal_exp and coeff % 10 == 0` loop of __truediv__; fuel = ideal_exp - exp *)
Fixpoint strip_zeros (fuel : nat) (coeff exp : Z) : Z * Z :=
  match fuel with
  | O => (coeff, exp)
  | S f => if coeff mod 10 =? 0 then strip_zeros f (coeff / 10) (exp + 1) else (coeff, exp)
  end.

(* Decimal.__truediv__ *)
Definition dec_div (a b : dec) : outcome dec :=
  let sign := xorb (d_neg a) (d_neg b) in
  if d_coef b =? 0 then Raise E_OTHER
  else if d_coef a =? 0 then Ret (dec_fix (mk_dec sign 0 (d_exp a - d_exp b)))
  else
    let shift := ndigits (d_coef b) - ndigits (d_coef a) + prec + 1 in
    let exp := d_exp a - d_exp b - shift in
    let num := if 0 <=? shift then d_coef a * 10 ^ shift else d_coef a in
    let den := if 0 <=? shift then d_coef b else d_coef b * 10 ^ (- shift) in
    let coeff := num / den in
    let remainder := num mod den in
    if negb (remainder =? 0) then
      Ret (dec_fix (mk_dec sign (if coeff mod 5 =? 0 then coeff + 1 else coeff) exp))
    else
      let ideal_exp := d_exp a - d_exp b in
      let ce := strip_zeros (Z.to_nat (ideal_exp - exp)) coeff exp in
      Ret (dec_fix (mk_dec sign (fst ce) (snd ce))).

(* Decimal._rescale(exp, ROUND_HALF_EVEN) *)
Definition dec_rescale (a : dec) (e : Z) : dec :=
  if d_coef a =? 0 then mk_dec (d_neg a) 0 e
  else if e <=? d_exp a then mk_dec (d_neg a) (d_coef a * 10 ^ (d_exp a - e)) e
  else mk_dec (d_neg a) (round_half_even (d_coef a) (e - d_exp a)) e.

(* Decimal.quantize(exp_dec) where e = exp_dec._exp *)
Definition dec_quantize (a : dec) (e : Z) : outcome dec :=
  if d_coef a =? 0 then Ret (mk_dec (d_neg a) 0 e)
  else
    let self_adjusted := ndigits (d_coef a) + d_exp a - 1 in
    if self_adjusted - e + 1 >? prec then Raise E_OTHER
    else
      let ans := dec_rescale a e in
      if ndigits (d_coef ans) >? prec then Raise E_OTHER else Ret ans.

(* Decimal.__int__: truncation toward zero *)
Definition dec_to_int (a : dec) : Z :=
  let s := if d_neg a then -1 else 1 in
  if 0 <=? d_exp a then s * (d_coef a * 10 ^ d_exp a)
  else s * (d_coef a / 10 ^ (- d_exp a)).

(* ---- the module constants (live values from the table) ----------------------------------- *)
Definition SATOSHI_PER_COIN : dec := dec_of_triple gen_satoshi_per_coin.
Definition COIN_PER_SATOSHI : dec := dec_of_triple gen_coin_per_satoshi.   (* = Decimal(1) / SATOSHI_PER_COIN *)
Definition SATOSHI_TO_MBTC : dec := dec_of_triple gen_satoshi_to_mbtc.
Definition MBTC_PER_SATOSHI : dec := dec_of_triple gen_mbtc_per_satoshi.   (* = 1 / SATOSHI_TO_MBTC *)

(* ---- the four conversions --------------------------------------------------------------- *)
Definition satoshi_to_btc (satoshi_count : Z) : outcome dec :=
  if satoshi_count =? 0 then Ret (dec_of_int 0)
  else
    let r := dec_mul (dec_of_int satoshi_count) COIN_PER_SATOSHI in
    dec_quantize r (d_exp COIN_PER_SATOSHI).

(* btc already a Decimal (decimal.Decimal(d) is d); string/float arguments are parsed by Python *)
Definition btc_to_satoshi (btc : dec) : Z := dec_to_int (dec_mul btc SATOSHI_PER_COIN).

Definition satoshi_to_mbtc (satoshi_count : Z) : outcome dec :=
  if satoshi_count =? 0 then Ret (dec_of_int 0)
  else
    do r <- dec_div (dec_of_int satoshi_count) SATOSHI_TO_MBTC;
    dec_quantize r (d_exp MBTC_PER_SATOSHI).

Definition mbtc_to_satoshi (btc : dec) : Z := dec_to_int (dec_mul btc SATOSHI_TO_MBTC).
