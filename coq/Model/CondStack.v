(* Model/CondStack.v — pycoin/vm/ConditionalStack.py: two counters. *)
From Coq Require Import List Arith Bool.
Import ListNotations.

Inductive cop : Set :=
| CIf (b : bool)   (* OP_IF / OP_NOTIF with the (possibly negated) condition; b is only read when executing *)
| CElse
| CEndif.

Definition cstate := (nat * nat)%type.   (* (true_count, false_count) *)
Definition c_init : cstate := (0, 0).
Definition c_all_if_true (s : cstate) : bool := Nat.eqb (snd s) 0.

(* None = error_f(...) raises ScriptError(UNBALANCED_CONDITIONAL) *)
Definition c_step (s : cstate) (o : cop) : option cstate :=
  let '(t, f) := s in
  match o with
  | CIf b => if Nat.ltb 0 f then Some (t, S f)
             else if b then Some (S t, 0) else Some (t, 1)
  | CElse => if Nat.ltb 1 f then Some (t, f)
             else if Nat.eqb f 1 then Some (S t, 0)
             else if Nat.eqb t 0 then None else Some (t - 1, 1)
  | CEndif => if Nat.ltb 0 f then Some (t, f - 1)
              else if Nat.eqb t 0 then None else Some (t - 1, 0)
  end.

(* check_final_state: error when a branch is still open *)
Definition c_final_ok (s : cstate) : bool := Nat.eqb (fst s) 0 && Nat.eqb (snd s) 0.

Fixpoint c_run (s : cstate) (ops : list cop) : option cstate :=
  match ops with
  | [] => Some s
  | o :: r => match c_step s o with Some s' => c_run s' r | None => None end
  end.
