(* Model/BlockCall.v — HOW Block.parse is called: Python's binding of positional and keyword arguments to the parameters
   (f, include_transactions=True, include_offsets=None, check_merkle_hash=True) of pycoin/block.py:Block.parse, and the
   truthiness tests `if include_transactions:` / `if check_merkle_hash:` / `if include_offsets:`.  No proofs here.
   The parameter order below is the one of /repo (pinned by Gen/GenSigC14.v, see Proofs/C14Tie.v). *)
From PV Require Import Base.Bytes Base.Outcome Base.Varint Model.Block.
Local Open Scope outcome_scope.

(* the argument values that matter here *)
Inductive pyval := VNone | VBool (b : bool) | VInt (z : Z).
(* bool(v) *)
Definition truthy (v : pyval) : bool :=
  match v with VNone => false | VBool b => b | VInt z => negb (z =? 0)%Z end.

(* positional-or-keyword parameters after the stream: name (ASCII) and default *)
Definition signature := list (bytes * option pyval).

Definition name_include_transactions : bytes :=
  [x69;x6e;x63;x6c;x75;x64;x65;x5f;x74;x72;x61;x6e;x73;x61;x63;x74;x69;x6f;x6e;x73].
Definition name_include_offsets : bytes := [x69;x6e;x63;x6c;x75;x64;x65;x5f;x6f;x66;x66;x73;x65;x74;x73].
Definition name_check_merkle_hash : bytes := [x63;x68;x65;x63;x6b;x5f;x6d;x65;x72;x6b;x6c;x65;x5f;x68;x61;x73;x68].

Definition block_parse_sig : signature :=
  [ (name_include_transactions, Some (VBool true));
    (name_include_offsets, Some VNone);
    (name_check_merkle_hash, Some (VBool true)) ].

(* a slot: parameter name, default, value bound so far *)
Definition slot := (bytes * option pyval * option pyval)%type.

(* positional arguments fill the parameters left to right; too many: TypeError *)
Fixpoint fill_pos (sig : signature) (pos : list pyval) : outcome (list slot) :=
  match sig, pos with
  | [], [] => Ret []
  | [], _ :: _ => Raise E_TYPE                       (* takes N positional arguments but M were given *)
  | (n, d) :: sig', [] => do r <- fill_pos sig' []; Ret ((n, d, None) :: r)
  | (n, d) :: sig', v :: pos' => do r <- fill_pos sig' pos'; Ret ((n, d, Some v) :: r)
  end.

(* one keyword argument: unknown name or already bound: TypeError *)
Fixpoint fill_kw (slots : list slot) (k : bytes) (v : pyval) : outcome (list slot) :=
  match slots with
  | [] => Raise E_TYPE                               (* got an unexpected keyword argument *)
  | (n, d, cur) :: r =>
    if bytes_eqb n k then
      match cur with
      | Some _ => Raise E_TYPE                       (* got multiple values for argument *)
      | None => Ret ((n, d, Some v) :: r)
      end
    else do r' <- fill_kw r k v; Ret ((n, d, cur) :: r')
  end.

Fixpoint fill_kws (slots : list slot) (kw : list (bytes * pyval)) : outcome (list slot) :=
  match kw with
  | [] => Ret slots
  | (k, v) :: kw' => do s <- fill_kw slots k v; fill_kws s kw'
  end.

(* unbound parameters take their defaults; a required one left unbound: TypeError *)
Fixpoint finalize (slots : list slot) : outcome (list pyval) :=
  match slots with
  | [] => Ret []
  | (_, d, cur) :: r =>
    do v <- match cur, d with
            | Some v, _ => Ret v
            | None, Some dv => Ret dv
            | None, None => Raise E_TYPE
            end;
    do vs <- finalize r; Ret (v :: vs)
  end.

Definition bind_args (sig : signature) (pos : list pyval) (kw : list (bytes * pyval)) : outcome (list pyval) :=
  do s <- fill_pos sig pos; do s <- fill_kws s kw; finalize s.

Section Call.
Variable tx : Type.
Variable parse_tx : parser tx.
Variable tx_hash : tx -> bytes.
Variable dsha256 : bytes -> bytes.

(* class_.parse(f, *pos, **kw): arguments are bound before the body runs; include_offsets only adds
   tx.offset_in_block attributes and does not change what is parsed or checked *)
Definition block_parse_call (pos : list pyval) (kw : list (bytes * pyval)) : parser (block tx) := fun s =>
  do vs <- bind_args block_parse_sig pos kw;
  match vs with
  | [inc; offs; chk] => block_parse tx parse_tx tx_hash dsha256 (truthy inc) (truthy chk) s
  | _ => Raise E_OTHER
  end.
End Call.
