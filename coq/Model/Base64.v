(* Model/Base64.v — binascii.b2a_base64 / binascii.a2b_base64 (CPython 3.12, Modules/binascii.c, non-strict
   mode) and bytes.strip(), as used by pycoin/contrib/msg_signing.py.  Transcription, no proofs.

   Text is a Python `str`; it is represented by its UTF-8 encoding (a `bytes`): a str is non-ASCII exactly
   when its UTF-8 form has a byte >= 0x80, and then a2b_base64 raises ValueError ("string argument should
   contain only ASCII characters") before looking at anything else. *)
From PV Require Import Base.Bytes Base.Outcome.
Local Open Scope N_scope.

(* table_b2a_base64 : "ABC...Zabc...z0123456789+/" *)
Definition b64_chr (v : N) : byte :=
  if v <? 26 then n2b (65 + v)
  else if v <? 52 then n2b (71 + v)
  else if v <? 62 then n2b (v - 4)
  else if v =? 62 then x2b else x2f.

(* table_a2b_base64 : the sextet of a character, None for the entries that are >= 64 in the C table *)
Definition b64_val (c : byte) : option N :=
  let v := b2n c in
  if (65 <=? v) && (v <=? 90) then Some (v - 65)
  else if (97 <=? v) && (v <=? 122) then Some (v - 71)
  else if (48 <=? v) && (v <=? 57) then Some (v + 4)
  else if v =? 43 then Some 62
  else if v =? 47 then Some 63
  else None.

(* b2a_base64 without the trailing newline: three bytes -> four characters, '=' padding at the end *)
Fixpoint b64_encode (bs : bytes) : bytes :=
  match bs with
  | [] => []
  | [a] =>
    let a := b2n a in
    [b64_chr (a / 4); b64_chr ((a mod 4) * 16); x3d; x3d]
  | [a; b] =>
    let a := b2n a in let b := b2n b in
    [b64_chr (a / 4); b64_chr ((a mod 4) * 16 + b / 16); b64_chr ((b mod 16) * 4); x3d]
  | a :: b :: c :: r =>
    let a := b2n a in let b := b2n b in let c := b2n c in
    b64_chr (a / 4) :: b64_chr ((a mod 4) * 16 + b / 16) :: b64_chr ((b mod 16) * 4 + c / 64)
      :: b64_chr (c mod 64) :: b64_encode r
  end.

(* binascii.b2a_base64(data) : newline=True *)
Definition b2a_base64 (bs : bytes) : bytes := b64_encode bs ++ [x0a].

(* bytes.strip() : ASCII whitespace b' \t\n\r\x0b\x0c' removed at both ends *)
Definition is_ws (c : byte) : bool :=
  let v := b2n c in (v =? 32) || ((9 <=? v) && (v <=? 13)).
Fixpoint lstrip (s : bytes) : bytes :=
  match s with
  | [] => []
  | c :: r => if is_ws c then lstrip r else s
  end.
Definition bstrip (s : bytes) : bytes := rev (lstrip (rev (lstrip s))).

(* the decoding loop of binascii_a2b_base64_impl with strict_mode = 0.
   quad = quad_pos, left = leftchar, pads = pads, acc = the output so far (reversed).
   `(leftchar << k) | (this_ch >> j)` is written with + : the two operands have no common bit; the store into
   an unsigned char is the `mod 256` inside n2b.
   '=': `if (quad_pos >= 2 && quad_pos + ++pads >= 4) goto done; continue;` (pads is only incremented when
   quad_pos >= 2: C's && short-circuits). *)
Fixpoint a2b_loop (s : bytes) (quad left pads : N) (acc : bytes) : outcome bytes :=
  match s with
  | [] => if quad =? 0 then Ret (rev acc) else Raise E_VALUE        (* binascii.Error, a ValueError *)
  | ch :: r =>
    if byte_eqb ch x3d then
      if 2 <=? quad then
        if 4 <=? quad + (pads + 1) then Ret (rev acc)
        else a2b_loop r quad left (pads + 1) acc
      else a2b_loop r quad left pads acc
    else
      match b64_val ch with
      | None => a2b_loop r quad left pads acc
      | Some v =>
        if quad =? 0 then a2b_loop r 1 v 0 acc
        else if quad =? 1 then a2b_loop r 2 (v mod 16) 0 (n2b (left * 4 + v / 16) :: acc)
        else if quad =? 2 then a2b_loop r 3 (v mod 4) 0 (n2b (left * 16 + v / 4) :: acc)
        else a2b_loop r 0 0 0 (n2b (left * 64 + v) :: acc)
      end
  end.

Definition is_ascii (s : bytes) : bool := forallb (fun c => b2n c <? 128) s.

(* binascii.a2b_base64(text) for a str argument *)
Definition a2b_base64 (text : bytes) : outcome bytes :=
  if is_ascii text then a2b_loop text 0 0 0 [] else Raise E_VALUE.
