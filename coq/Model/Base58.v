(* Model/Base58.v — pycoin/encoding/base_conversion.py (to_long, from_long), pycoin/encoding/b58.py
   (b2a_base58, a2b_base58, b2a_hashed_base58, a2b_hashed_base58, is_hashed_base58_valid) and the Base58
   helpers of pycoin/networks/parseable_str.py (parse_b58, parse_b58_double_sha256), function by function.
   The alphabet is REGENERATED from /repo into Gen/GenCodecsC11.v.  No proofs here.

   Python `str` is modelled as the list of its code points (`pystr`), Python `int` as Z, `bytes` as list byte. *)
From PV Require Import Base.Bytes Base.Outcome Gen.GenCodecsC11.
Local Open Scope Z_scope.

Definition pystr := list N.

(* ---- str.encode("utf8") / bytes.decode("utf8") ------------------------------------------------- *)
(* one code point; lone surrogates raise UnicodeEncodeError (a ValueError) *)
Definition utf8_char (c : N) : outcome bytes :=
  (if c <? 128 then Ret [n2b c]
   else if c <? 2048 then Ret [n2b (192 + c / 64); n2b (128 + c mod 64)]
   else if (55296 <=? c) && (c <=? 57343) then Raise E_VALUE
   else if c <? 65536 then Ret [n2b (224 + c / 4096); n2b (128 + (c / 64) mod 64); n2b (128 + c mod 64)]
   else if c <? 1114112 then
     Ret [n2b (240 + c / 262144); n2b (128 + (c / 4096) mod 64); n2b (128 + (c / 64) mod 64); n2b (128 + c mod 64)]
   else Raise E_VALUE (* not a Python str *))%N.

Fixpoint utf8_encode (s : pystr) : outcome bytes :=
  match s with
  | [] => Ret []
  | c :: r =>
    match utf8_char c with
    | Ret b => match utf8_encode r with Ret br => Ret (b ++ br) | e => e end
    | Raise e => Raise e
    | OutOfFuel => OutOfFuel
    end
  end.

(* bytes.decode("utf8") restricted to what from_long can produce from an ASCII alphabet (gen_tables
   refuses a non-ASCII alphabet): a byte >= 0x80 is reported as UnicodeDecodeError (a ValueError) *)
Fixpoint ascii_decode (b : bytes) : outcome pystr :=
  match b with
  | [] => Ret []
  | c :: r =>
    if (b2n c <? 128)%N then match ascii_decode r with Ret s => Ret (b2n c :: s) | e => e end
    else Raise E_VALUE
  end.

(* ---- base_conversion.to_long ------------------------------------------------------------------- *)
(* `for c in s: v *= base; v += lookup_f(c) [any exception -> EncodingError]; if v == 0: prefix += 1` *)
Fixpoint to_long_loop (base : Z) (lookup_f : byte -> option Z) (s : bytes) (v prefix : Z) : outcome (Z * Z) :=
  match s with
  | [] => Ret (v, prefix)
  | c :: r =>
    match lookup_f c with
    | None => Raise E_ENCODING
    | Some d =>
      let v1 := v * base + d in
      to_long_loop base lookup_f r v1 (if v1 =? 0 then prefix + 1 else prefix)
    end
  end.
Definition to_long (base : Z) (lookup_f : byte -> option Z) (s : bytes) : outcome (Z * Z) :=
  to_long_loop base lookup_f s 0 0.

(* ---- base_conversion.from_long ------------------------------------------------------------------ *)
(* `while v > 0: v, mod = divmod(v, base); ba.append(charset(mod)) [any exception -> EncodingError]`;
   the accumulator is kept most-significant-first, i.e. it is `ba` after the final `ba.reverse()` *)
Fixpoint from_long_loop (fuel : nat) (v base : Z) (charset : Z -> option byte) (acc : bytes) : outcome bytes :=
  if v >? 0 then
    match fuel with
    | O => OutOfFuel
    | S f =>
      match charset (v mod base) with
      | None => Raise E_ENCODING
      | Some c => from_long_loop f (v / base) base charset (c :: acc)
      end
    end
  else Ret acc.

(* `ba.extend([charset(0)] * prefix)` is outside the try: an exception of charset(0) propagates as is
   (IndexError for an empty alphabet) *)
Definition from_long (v prefix base : Z) (charset : Z -> option byte) : outcome bytes :=
  match from_long_loop (S (Z.to_nat (Z.log2 v))) v base charset [] with
  | Ret digits =>
    match charset 0 with
    | None => Raise E_INDEX
    | Some z => Ret (repeat z (Z.to_nat prefix) ++ digits)
    end
  | e => e
  end.

(* ---- b58.py -------------------------------------------------------------------------------------- *)
Section WithAlphabet.
Variable alphabet : bytes.

Definition base58_base : Z := Z.of_nat (length alphabet).

(* BASE58_LOOKUP = dict((c, i) for i, c in enumerate(BASE58_ALPHABET)): the LAST index of a repeated char wins *)
Fixpoint lookup_from (l : bytes) (i : Z) (c : byte) : option Z :=
  match l with
  | [] => None
  | x :: r =>
    match lookup_from r (i + 1) c with
    | Some j => Some j
    | None => if byte_eqb x c then Some i else None
    end
  end.
Definition base58_lookup (c : byte) : option Z := lookup_from alphabet 0 c.

(* BASE58_ALPHABET[v] (v is a remainder, never negative) *)
Definition alphabet_at (v : Z) : option byte :=
  if v <? 0 then None else nth_error alphabet (Z.to_nat v).

Definition byte_id (c : byte) : option Z := Some (b2z c).
(* bytearray.append(mod): ValueError unless 0 <= mod < 256 — inside the try *)
Definition z_to_byte (v : Z) : option byte := if (0 <=? v) && (v <? 256) then Some (z2b v) else None.

Definition b2a_base58 (s : bytes) : outcome pystr :=
  match to_long 256 byte_id s with
  | Ret (v, prefix) =>
    match from_long v prefix base58_base alphabet_at with
    | Ret b => ascii_decode b
    | Raise e => Raise e
    | OutOfFuel => OutOfFuel
    end
  | Raise e => Raise e
  | OutOfFuel => OutOfFuel
  end.

(* `try: b = s.encode("utf8") except UnicodeEncodeError: raise EncodingError(...)` *)
Definition a2b_base58 (s : pystr) : outcome bytes :=
  match utf8_encode s with
  | Ret b =>
    match to_long base58_base base58_lookup b with
    | Ret (v, prefix) => from_long v prefix 256 z_to_byte
    | Raise e => Raise e
    | OutOfFuel => OutOfFuel
    end
  | Raise E_VALUE => Raise E_ENCODING
  | e => e
  end.

Section WithHash.
(* pycoin.encoding.hash.double_sha256 : an arbitrary function here (an oracle in the driver) *)
Variable double_sha256 : bytes -> bytes.

Definition b2a_hashed_base58 (data : bytes) : outcome pystr :=
  b2a_base58 (data ++ firstn 4 (double_sha256 data)).

(* data[:-4], data[-4:] *)
Definition but_last4 (data : bytes) : bytes := firstn (length data - 4) data.
Definition last4 (data : bytes) : bytes := skipn (length data - 4) data.

Definition a2b_hashed_base58 (s : pystr) : outcome bytes :=
  match a2b_base58 s with
  | Ret data =>
    let body := but_last4 data in
    if bytes_eqb (firstn 4 (double_sha256 body)) (last4 data) then Ret body else Raise E_ENCODING
  | e => e
  end.

(* only EncodingError is caught *)
Definition is_hashed_base58_valid (s : pystr) : outcome bool :=
  match a2b_hashed_base58 s with
  | Ret _ => Ret true
  | Raise E_ENCODING => Ret false
  | Raise e => Raise e
  | OutOfFuel => OutOfFuel
  end.

(* parseable_str.parse_b58: parseable_str.cache swallows every exception and yields None *)
Definition parse_b58 (s : pystr) : option bytes :=
  match a2b_base58 s with Ret d => Some d | _ => None end.

(* parseable_str.b58_double_sha256 / parse_b58_double_sha256 : `if data:` is false for b"" *)
Definition parse_b58_double_sha256 (s : pystr) : option bytes :=
  match parse_b58 s with
  | Some (c :: r) =>
    let data := c :: r in
    let body := but_last4 data in
    if bytes_eqb (firstn 4 (double_sha256 body)) (last4 data) then Some body else None
  | _ => None
  end.
End WithHash.
End WithAlphabet.

(* instantiation with the generated alphabet *)
Definition btc_b2a_base58 := b2a_base58 b58_alphabet.
Definition btc_a2b_base58 := a2b_base58 b58_alphabet.
Definition btc_b2a_hashed_base58 := b2a_hashed_base58 b58_alphabet.
Definition btc_a2b_hashed_base58 := a2b_hashed_base58 b58_alphabet.
Definition btc_is_hashed_base58_valid := is_hashed_base58_valid b58_alphabet.
Definition btc_parse_b58 := parse_b58 b58_alphabet.
Definition btc_parse_b58_double_sha256 := parse_b58_double_sha256 b58_alphabet.
