(* Model/SighashHistory.v — HISTORIES on one transaction object and one SolutionChecker object (property C04).
   pycoin keeps one checker per transaction in Solver and in who_signed, and asks it for the digests of several
   inputs / hash types in turn; callers also edit the transaction (direct attribute assignment, list append / pop /
   clear / del, rebinding a list, the official setter set_unspents) between two digests.  As the code is in /repo
   today the checker holds a reference to the transaction and NO other state: every observer recomputes from the
   current fields.  This file transcribes that: the state of a history is the transaction alone; an observer leaves
   it unchanged; a mutator changes exactly the attribute it assigns (IndexError / ValueError leave it unchanged).
   No proofs here. *)
From PV Require Import Base.Bytes Base.Outcome Base.Varint Gen.GenSighashC04 Model.Sighash.
Local Open Scope N_scope.
Local Open Scope outcome_scope.

(* ---- observers: every method whose result could be memoised ---------------------------------------- *)
Inductive observer :=
| ObsLegacy (script : bytes) (idx : nat) (hash_type : N)        (* sc._signature_hash(script, idx, hash_type) *)
| ObsSegwit (script : bytes) (idx : nat) (hash_type : N)        (* sc._signature_for_hash_type_segwit(...) *)
| ObsPreimage (script : bytes) (idx : nat) (hash_type : N)      (* sc._segwit_signature_preimage(...) *)
| ObsHashPrevouts (hash_type : N)                               (* sc._hash_prevouts(hash_type) *)
| ObsHashSequence (hash_type : N)                               (* sc._hash_sequence(hash_type) *)
| ObsHashOutputs (hash_type : N) (idx : nat)                    (* sc._hash_outputs(hash_type, idx) *)
| ObsTxHash (hash_type : option N)                              (* tx.hash(hash_type) *)
| ObsBlankedHash.                                               (* tx.blanked_hash(), no witness data *)

Inductive hres := HInt (v : N) | HBytes (b : bytes) | HDone.

(* ---- mutators ------------------------------------------------------------------------------------------ *)
Inductive mutator :=
| SetVersion (v : N)                 (* tx.version = v *)
| SetLockTime (v : N)                (* tx.lock_time = v *)
| SetInHash (k : nat) (h : bytes)    (* tx.txs_in[k].previous_hash = h *)
| SetInIndex (k : nat) (v : N)       (* tx.txs_in[k].previous_index = v *)
| SetInScript (k : nat) (s : bytes)  (* tx.txs_in[k].script = s *)
| SetInSeq (k : nat) (v : N)         (* tx.txs_in[k].sequence = v *)
| AppendIn (i : txin)                (* tx.txs_in.append(TxIn(...)) *)
| DelIn (k : nat)                    (* del tx.txs_in[k] *)
| SetOutValue (k : nat) (v : N)      (* tx.txs_out[k].coin_value = v *)
| SetOutScript (k : nat) (s : bytes) (* tx.txs_out[k].script = s *)
| AppendOut (o : txout)              (* tx.txs_out.append(TxOut(...)) *)
| PopOut                             (* tx.txs_out.pop() *)
| ClearOuts                          (* tx.txs_out.clear() *)
| ReplaceOuts (l : list txout)       (* tx.txs_out = [...]   (the attribute is rebound to a new list) *)
| SetUnspents (l : list (option txout))   (* tx.set_unspents(l): ValueError unless len(l) == len(tx.txs_in) *)
| SetUnspent (k : nat) (u : option txout) (* tx.unspents[k] = u *).

Inductive op := Observe (o : observer) | Mutate (m : mutator).

(* l[k] = f(l[k]) : IndexError when k is out of range *)
Fixpoint update_nth {A} (k : nat) (f : A -> A) (l : list A) : outcome (list A) :=
  match k, l with
  | _, [] => Raise E_INDEX
  | O, x :: r => Ret (f x :: r)
  | S k', x :: r => do r' <- update_nth k' f r; Ret (x :: r')
  end.
Fixpoint delete_nth {A} (k : nat) (l : list A) : outcome (list A) :=
  match k, l with
  | _, [] => Raise E_INDEX
  | O, _ :: r => Ret r
  | S k', x :: r => do r' <- delete_nth k' r; Ret (x :: r')
  end.

Definition with_ins (t : tx) (l : list txin) : tx := mk_tx (tx_version t) l (tx_outs t) (tx_lock t) (tx_unspents t).
Definition with_outs (t : tx) (l : list txout) : tx := mk_tx (tx_version t) (tx_ins t) l (tx_lock t) (tx_unspents t).
Definition with_unspents (t : tx) (l : list (option txout)) : tx :=
  mk_tx (tx_version t) (tx_ins t) (tx_outs t) (tx_lock t) l.

Definition mutate (t : tx) (m : mutator) : outcome tx :=
  match m with
  | SetVersion v => Ret (mk_tx v (tx_ins t) (tx_outs t) (tx_lock t) (tx_unspents t))
  | SetLockTime v => Ret (mk_tx (tx_version t) (tx_ins t) (tx_outs t) v (tx_unspents t))
  | SetInHash k h => do l <- update_nth k (fun i => mk_txin h (ti_index i) (ti_script i) (ti_seq i)) (tx_ins t); Ret (with_ins t l)
  | SetInIndex k v => do l <- update_nth k (fun i => mk_txin (ti_hash i) v (ti_script i) (ti_seq i)) (tx_ins t); Ret (with_ins t l)
  | SetInScript k s => do l <- update_nth k (fun i => mk_txin (ti_hash i) (ti_index i) s (ti_seq i)) (tx_ins t); Ret (with_ins t l)
  | SetInSeq k v => do l <- update_nth k (fun i => mk_txin (ti_hash i) (ti_index i) (ti_script i) v) (tx_ins t); Ret (with_ins t l)
  | AppendIn i => Ret (with_ins t (tx_ins t ++ [i]))
  | DelIn k => do l <- delete_nth k (tx_ins t); Ret (with_ins t l)
  | SetOutValue k v => do l <- update_nth k (fun o => mk_txout v (to_script o)) (tx_outs t); Ret (with_outs t l)
  | SetOutScript k s => do l <- update_nth k (fun o => mk_txout (to_value o) s) (tx_outs t); Ret (with_outs t l)
  | AppendOut o => Ret (with_outs t (tx_outs t ++ [o]))
  | PopOut => match rev (tx_outs t) with
              | [] => Raise E_INDEX
              | _ :: r => Ret (with_outs t (rev r))
              end
  | ClearOuts => Ret (with_outs t [])
  | ReplaceOuts l => Ret (with_outs t l)
  | SetUnspents l => if (length l =? length (tx_ins t))%nat then Ret (with_unspents t l) else Raise E_VALUE
  | SetUnspent k u => do l <- update_nth k (fun _ => u) (tx_unspents t); Ret (with_unspents t l)
  end.

Section Observe.
Variables (sha256 dsha256 : bytes -> bytes).

Definition coin_hash (c : coin) : bytes -> bytes := match c with GRS => sha256 | _ => dsha256 end.

(* Tx.stream(include_witness_data=False) [+ "L" hash_type], the transaction's own scripts or blanked ones *)
Definition tx_stream (t : tx) (blank : bool) (hash_type : option N) : outcome bytes :=
  do v <- write_le 4 (tx_version t);
  do ci <- stream_varint (N.of_nat (length (tx_ins t)));
  do bi <- stream_all (fun i => stream_txin (if blank then mk_txin (ti_hash i) (ti_index i) [] (ti_seq i) else i)) (tx_ins t);
  do co <- stream_varint (N.of_nat (length (tx_outs t)));
  do bo <- stream_all stream_txout (tx_outs t);
  do l <- write_le 4 (tx_lock t);
  do h <- (match hash_type with None => Ret [] | Some ht => write_le 4 ht end);
  Ret (v ++ ci ++ bi ++ co ++ bo ++ l ++ h).

Definition observe (c : coin) (t : tx) (o : observer) : outcome hres :=
  match o with
  | ObsLegacy s i h => do v <- signature_hash sha256 dsha256 c t s i h; Ret (HInt v)
  | ObsSegwit s i h => do v <- signature_for_hash_type_segwit sha256 dsha256 c t s i h; Ret (HInt v)
  | ObsPreimage s i h => do b <- segwit_preimage sha256 dsha256 c t s i h; Ret (HBytes b)
  | ObsHashPrevouts h => do b <- hash_prevouts (coin_hash c) t h; Ret (HBytes b)
  | ObsHashSequence h =>
    do b <- (match c with
             | GRS => hash_sequence sha256 gen_grs_seq_mask_single gen_grs_seq_mask_none t h
             | _ => hash_sequence dsha256 gen_sw_seq_mask_single gen_sw_seq_mask_none t h
             end); Ret (HBytes b)
  | ObsHashOutputs h i =>
    do b <- (match c with
             | GRS => hash_outputs sha256 gen_grs_out_mask_single gen_grs_out_mask_none t h i
             | _ => hash_outputs dsha256 gen_sw_out_mask_single gen_sw_out_mask_none t h i
             end); Ret (HBytes b)
  | ObsTxHash h => do b <- tx_stream t false h; Ret (HBytes (coin_hash c b))
  | ObsBlankedHash => do b <- tx_stream t true None; Ret (HBytes (coin_hash c b))
  end.

(* one step of a history: the new state of the transaction object and what the caller sees *)
Definition step (c : coin) (t : tx) (o : op) : tx * outcome hres :=
  match o with
  | Observe ob => (t, observe c t ob)
  | Mutate m => match mutate t m with
                | Ret t' => (t', Ret HDone)
                | Raise e => (t, Raise e)
                | OutOfFuel => (t, OutOfFuel)
                end
  end.

Fixpoint run (c : coin) (t : tx) (ops : list op) : list (outcome hres) :=
  match ops with
  | [] => []
  | o :: r => let (t', res) := step c t o in res :: run c t' r
  end.

(* the transaction after the mutations of a history, observers ignored *)
Fixpoint state_after (t : tx) (ops : list op) : tx :=
  match ops with
  | [] => t
  | Observe _ :: r => state_after t r
  | Mutate m :: r => state_after (match mutate t m with Ret t' => t' | _ => t end) r
  end.
End Observe.
