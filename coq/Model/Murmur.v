(* Model/Murmur.v — pycoin/bloomfilter.py: murmur3 and the BloomFilter bit addressing (__init__, add_item,
   _index_for_bit, set_bit, check_bit), function by function.  No proofs here.
   Python ints are Z: the seed is NOT masked on entry, k1 and h1 are never masked inside the loop (they grow by
   about 45 bits per block); only `& 0xFFFFFFFF` where the code has it.  Constants from Gen/GenRipemd.v. *)
From PV Require Import Base.Bytes Base.Outcome Gen.GenRipemd Model.Ripemd.
Local Open Scope Z_scope.

(* data[i] for bytes: an int 0..255 *)
Definition byte_at (data : bytes) (i : Z) : outcome Z :=
  bind (py_index data i) (fun b => Ret (b2z b)).

(* range(0, stop, 4) *)
Definition range4 (stop : Z) : list Z :=
  map (fun k => 4 * Z.of_nat k) (seq 0 (Z.to_nat ((stop + 3) / 4))).

(* k1 *= c1; k1 = (k1 << 15) | ((k1 & 0xFFFFFFFF) >> 17); k1 *= c2 *)
Definition mm_k (k1 : Z) : Z :=
  let k1 := k1 * gen_mm_c1 in
  let k1 := Z.lor (Z.shiftl k1 15) (Z.shiftr (Z.land k1 0xFFFFFFFF) 17) in
  k1 * gen_mm_c2.

(* body of `for i in range(0, roundedEnd, 4)` *)
Fixpoint mm_loop (is : list Z) (data : bytes) (h1 : Z) : outcome Z :=
  match is with
  | [] => Ret h1
  | i :: r =>
    bind (byte_at data i) (fun b0 =>
    bind (byte_at data (i + 1)) (fun b1 =>
    bind (byte_at data (i + 2)) (fun b2 =>
    bind (byte_at data (i + 3)) (fun b3 =>
    let k1 := Z.lor (Z.lor (Z.lor (Z.land b0 0xFF) (Z.shiftl (Z.land b1 0xFF) 8))
                           (Z.shiftl (Z.land b2 0xFF) 16)) (Z.shiftl b3 24) in
    let k1 := mm_k k1 in
    let h1 := Z.lxor h1 k1 in
    let h1 := Z.lor (Z.shiftl h1 13) (Z.shiftr (Z.land h1 0xFFFFFFFF) 19) in
    let h1 := h1 * 5 + gen_mm_n in
    mm_loop r data h1))))
  end.

(* def murmur3(data, seed=0) *)
Definition murmur3 (data : bytes) (seed : Z) : outcome Z :=
  let length := Z.of_nat (List.length data) in
  let h1 := seed in
  let roundedEnd := Z.land length 0xFFFFFFFC in
  bind (mm_loop (range4 roundedEnd) data h1) (fun h1 =>
  let k1 := 0 in
  let val := Z.land length 3 in
  bind (if val =? 3 then bind (byte_at data (roundedEnd + 2)) (fun b => Ret (Z.shiftl (Z.land b 0xFF) 16))
        else Ret k1) (fun k1 =>
  bind (if (val =? 2) || (val =? 3)
        then bind (byte_at data (roundedEnd + 1)) (fun b => Ret (Z.lor k1 (Z.shiftl (Z.land b 0xFF) 8)))
        else Ret k1) (fun k1 =>
  bind (if (val =? 1) || (val =? 2) || (val =? 3)
        then bind (byte_at data roundedEnd) (fun b =>
             let k1 := Z.lor k1 (Z.land b 0xFF) in
             Ret (Z.lxor h1 (mm_k k1)))
        else Ret h1) (fun h1 =>
  let h1 := Z.lxor h1 length in
  let h1 := Z.lxor h1 (Z.shiftr (Z.land h1 0xFFFFFFFF) 16) in
  let h1 := h1 * gen_mm_f1 in
  let h1 := Z.lxor h1 (Z.shiftr (Z.land h1 0xFFFFFFFF) 13) in
  let h1 := h1 * gen_mm_f2 in
  let h1 := Z.lxor h1 (Z.shiftr (Z.land h1 0xFFFFFFFF) 16) in
  Ret (Z.land h1 0xFFFFFFFF))))).

(* ---- class BloomFilter ------------------------------------------------------------------------------ *)
Record bloom := mkBloom { bf_bytes : bytes; bf_bit_count : Z; bf_k : Z; bf_tweak : Z }.

(* l[i] = v *)
Fixpoint set_nth_list {A} (k : nat) (v : A) (l : list A) : list A :=
  match l, k with
  | [], _ => []
  | _ :: r, O => v :: r
  | x :: r, S k' => x :: set_nth_list k' v r
  end.
Definition py_setitem {A} (l : list A) (i : Z) (v : A) : outcome (list A) :=
  let n := Z.of_nat (length l) in
  let k := if i <? 0 then i + n else i in
  if (0 <=? k) && (k <? n) then Ret (set_nth_list (Z.to_nat k) v l) else Raise E_INDEX.

(* def __init__(self, size_in_bytes, hash_function_count, tweak)
   (bytearray(negative) raises ValueError; the size is compared in Z before it becomes a length) *)
Definition bloom_init (size k tweak : Z) : outcome bloom :=
  if size >? gen_bloom_max_size then Raise E_VALUE
  else if size <? 0 then Raise E_VALUE
  else Ret (mkBloom (repeat x00 (Z.to_nat size)) (8 * size) k tweak).

(* def _index_for_bit(self, v):  v %= self.bit_count raises ZeroDivisionError (E_OTHER) for an empty filter *)
Definition index_for_bit (st : bloom) (v : Z) : outcome (Z * Z) :=
  if bf_bit_count st =? 0 then Raise E_OTHER
  else
    let v := v mod bf_bit_count st in
    let byte_index := v / 8 in
    let mask_index := v mod 8 in
    bind (py_index gen_bloom_mask_array mask_index) (fun mask => Ret (byte_index, mask)).

(* def set_bit(self, v): self.filter_bytes[byte_index] |= mask   (a bytearray element must stay below 256) *)
Definition set_bit (st : bloom) (v : Z) : outcome bloom :=
  bind (index_for_bit st v) (fun '(byte_index, mask) =>
  bind (py_index (bf_bytes st) byte_index) (fun old =>
  let nv := Z.lor (b2z old) mask in
  if (0 <=? nv) && (nv <? 256) then
    bind (py_setitem (bf_bytes st) byte_index (z2b nv)) (fun fb =>
    Ret (mkBloom fb (bf_bit_count st) (bf_k st) (bf_tweak st)))
  else Raise E_VALUE)).

(* def check_bit(self, v) *)
Definition check_bit (st : bloom) (v : Z) : outcome bool :=
  bind (index_for_bit st v) (fun '(byte_index, mask) =>
  bind (py_index (bf_bytes st) byte_index) (fun old =>
  Ret (Z.land (b2z old) mask =? mask))).

(* def add_item(self, item_bytes):
     if self.bit_count == 0: return
     for hash_index in range(self.hash_function_count):
         seed = hash_index * 0xFBA4C795 + self.tweak
         self.set_bit(murmur3(item_bytes, seed=seed) % self.bit_count) *)
Fixpoint add_item_loop (is : list Z) (item : bytes) (st : bloom) : outcome bloom :=
  match is with
  | [] => Ret st
  | hash_index :: r =>
    let seed := hash_index * gen_bloom_mult + bf_tweak st in
    bind (murmur3 item seed) (fun h =>
    if bf_bit_count st =? 0 then Raise E_OTHER
    else bind (set_bit st (h mod bf_bit_count st)) (fun st' => add_item_loop r item st'))
  end.

(* range(k) for an int k (empty when k <= 0) *)
Definition zrange (k : Z) : list Z := map Z.of_nat (seq 0 (Z.to_nat k)).

Definition add_item (st : bloom) (item : bytes) : outcome bloom :=
  if bf_bit_count st =? 0 then Ret st
  else add_item_loop (zrange (bf_k st)) item st.

(* a whole session: BloomFilter(size, k, tweak); add_item(i) for i in items; filter_bytes *)
Fixpoint add_items (st : bloom) (items : list bytes) : outcome bloom :=
  match items with
  | [] => Ret st
  | it :: r => bind (add_item st it) (fun st' => add_items st' r)
  end.
Definition bloom_session (size k tweak : Z) (items : list bytes) : outcome bytes :=
  bind (bloom_init size k tweak) (fun st => bind (add_items st items) (fun st' => Ret (bf_bytes st'))).

(* ---- histories of one BloomFilter object ------------------------------------------------------------------
   def add_hash160(self, the_hash160): self.add_item(the_hash160)
   def add_spendable(self, spendable):
       item_bytes = spendable.tx_hash + struct.pack("<L", spendable.tx_out_index); self.add_item(item_bytes)
   def filter_load_params(self): return self.filter_bytes, self.hash_function_count, self.tweak
   The object has no other state than the four attributes: every observer is a function of the CURRENT attributes. *)
Definition add_hash160 (st : bloom) (h : bytes) : outcome bloom := add_item st h.
Definition add_spendable (st : bloom) (tx_hash : bytes) (tx_out_index : Z) : outcome bloom :=
  bind (pack_L tx_out_index) (fun b => add_item st (tx_hash ++ b)).
Definition filter_load_params (st : bloom) : bytes * Z * Z := (bf_bytes st, bf_k st, bf_tweak st).

Inductive bloom_op :=
| OpAdd (item : bytes)                         (* bf.add_item(item) *)
| OpAddHash160 (h : bytes)                     (* bf.add_hash160(h) *)
| OpAddSpendable (tx_hash : bytes) (idx : Z)   (* bf.add_spendable(spendable) *)
| OpSetBit (v : Z)                             (* bf.set_bit(v) *)
| OpCheckBit (v : Z)                           (* bf.check_bit(v)            observer *)
| OpLoad                                       (* bf.filter_load_params()    observer *)
| OpSetTweak (t : Z)                           (* bf.tweak = t *)
| OpSetK (k : Z)                               (* bf.hash_function_count = k *)
| OpPoke (i v : Z)                             (* bf.filter_bytes[i] = v *)
| OpReplace (v : bytes).                       (* bf.filter_bytes = bytearray(v) *)

Inductive bloom_obs := ObsNone | ObsBool (b : bool) | ObsLoad (v : bytes) (k tweak : Z).

Definition step_op (st : bloom) (op : bloom_op) : outcome (bloom * bloom_obs) :=
  match op with
  | OpAdd item => bind (add_item st item) (fun st' => Ret (st', ObsNone))
  | OpAddHash160 h => bind (add_hash160 st h) (fun st' => Ret (st', ObsNone))
  | OpAddSpendable h i => bind (add_spendable st h i) (fun st' => Ret (st', ObsNone))
  | OpSetBit v => bind (set_bit st v) (fun st' => Ret (st', ObsNone))
  | OpCheckBit v => bind (check_bit st v) (fun b => Ret (st, ObsBool b))
  | OpLoad => let '(v, k, t) := filter_load_params st in Ret (st, ObsLoad v k t)
  | OpSetTweak t => Ret (mkBloom (bf_bytes st) (bf_bit_count st) (bf_k st) t, ObsNone)
  | OpSetK k => Ret (mkBloom (bf_bytes st) (bf_bit_count st) k (bf_tweak st), ObsNone)
  | OpPoke i v =>
    (* the value is converted (ValueError) before the index is looked at (IndexError) *)
    if (0 <=? v) && (v <? 256) then
      bind (py_setitem (bf_bytes st) i (z2b v)) (fun fb =>
      Ret (mkBloom fb (bf_bit_count st) (bf_k st) (bf_tweak st), ObsNone))
    else Raise E_VALUE
  | OpReplace v => Ret (mkBloom v (bf_bit_count st) (bf_k st) (bf_tweak st), ObsNone)
  end.

Fixpoint run_ops (st : bloom) (ops : list bloom_op) : outcome (bloom * list bloom_obs) :=
  match ops with
  | [] => Ret (st, [])
  | op :: r =>
    bind (step_op st op) (fun '(st', o) =>
    bind (run_ops st' r) (fun '(st'', os) => Ret (st'', o :: os)))
  end.

(* BloomFilter(size, k, tweak); the operations; then (filter_bytes, observations) *)
Definition bloom_history (size k tweak : Z) (ops : list bloom_op) : outcome (bytes * list bloom_obs) :=
  bind (bloom_init size k tweak) (fun st =>
  bind (run_ops st ops) (fun '(st', os) => Ret (bf_bytes st', os))).
