(* Model/EcdsaInst.v — a concrete, executable instance of the abstract group of Model/Ecdsa.v:
   affine chord-and-tangent arithmetic on y^2 = x^3 + a*x + b over Z_p (a transcription of Curve.add,
   with Curve.inverse_mod from Model/Ecdsa.v as the field inverse), scalar multiplication by
   double-and-add on e mod n, square roots by x^((p+1)/4) as in Generator.points_for_x.
   Points are a subset type {P | on_curve P = true} with CANONICAL coordinates 0 <= x, y < p, so the
   group laws can be stated as plain equalities; they are discharged for toy curves by exhaustive
   computation in Proofs/EcdsaInstP.v.  The same code runs (extracted) against pycoin in the
   correspondence run — that is its only tie to Curve.py/Point.py; property C02 verifies those files.
   No proofs here except the two one-line membership facts needed to build points. *)
From PV Require Import Base.Bytes Base.Outcome Gen.GenCurvesC01 Model.Ecdsa Model.Rfc6979.
Local Open Scope Z_scope.

(* rfc6979.deterministic_generate_k with its default hash_f (digest size from the regenerated table) *)
Definition default_gen_k (hmac : bytes -> bytes -> bytes) (kfuel : nat) : Z -> Z -> Z -> outcome Z :=
  deterministic_generate_k hmac gen_rfc6979_hash_size kfuel.

Record curve : Set := mkCurve { cp : Z; ca : Z; cb : Z; cgx : Z; cgy : Z; cn : Z }.

Definition raw : Set := option (Z * Z).

Definition raw_eqb (P Q : raw) : bool :=
  match P, Q with
  | None, None => true
  | Some (x, y), Some (x', y') => (x =? x') && (y =? y')
  | _, _ => false
  end.

Section Inst.
  Variable c : curve.
  Let p := cp c.
  Let a := ca c.
  Let b := cb c.
  Let n := cn c.

  (* Curve.contains_point *)
  Definition contains_point (P : raw) : bool :=
    match P with
    | None => true
    | Some (x, y) => (y * y - (x * x * x + a * x + b)) mod p =? 0
    end.

  Definition canonical (P : raw) : bool :=
    match P with
    | None => true
    | Some (x, y) => (0 <=? x) && (x <? p) && (0 <=? y) && (y <? p)
    end.

  Definition on_curve (P : raw) : bool := canonical P && contains_point P.

  Definition finv (v : Z) : Z := match inverse_mod v p with Ret u => u | _ => 0 end.

  (* Curve.add *)
  Definition radd (P0 P1 : raw) : raw :=
    match P0, P1 with
    | None, _ => P1
    | _, None => P0
    | Some (x0, y0), Some (x1, y1) =>
      if (x0 - x1) mod p =? 0 then
        if (y0 + y1) mod p =? 0 then None
        else
          let slope := ((3 * x0 * x0 + a) * finv (2 * y0)) mod p in
          let x3 := (slope * slope - x0 - x1) mod p in
          let y3 := (slope * (x0 - x3) - y0) mod p in
          Some (x3, y3)
      else
        let slope := ((y1 - y0) * finv (x1 - x0)) mod p in
        let x3 := (slope * slope - x0 - x1) mod p in
        let y3 := (slope * (x0 - x3) - y0) mod p in
        Some (x3, y3)
    end.

  (* Point.__neg__, with the ordinate reduced *)
  Definition rneg (P : raw) : raw :=
    match P with None => None | Some (x, y) => Some (x, (p - y) mod p) end.

  Fixpoint rsmul_pos (k : positive) (P : raw) : raw :=
    match k with
    | xH => P
    | xO k' => let D := rsmul_pos k' P in radd D D
    | xI k' => let D := rsmul_pos k' P in radd (radd D D) P
    end.

  (* e * P: Curve.multiply reduces e modulo the order first *)
  Definition rsmul (e : Z) (P : raw) : raw :=
    match e mod n with
    | Zpos k => rsmul_pos k P
    | _ => None
    end.

  (* pow(v, e, p) *)
  Fixpoint powmod_pos (v : Z) (e : positive) : Z :=
    match e with
    | xH => v mod p
    | xO e' => let h := powmod_pos v e' in (h * h) mod p
    | xI e' => let h := powmod_pos v e' in (((h * h) mod p) * v) mod p
    end.
  Definition powmod (v e : Z) : Z :=
    match e with Zpos e' => powmod_pos v e' | _ => 1 mod p end.

  (* ---- points as a subset type ---- *)
  Definition pt : Set := { P : raw | on_curve P = true }.

  Lemma on_curve_None : on_curve None = true.
  Proof. reflexivity. Qed.

  Definition pO : pt := exist _ None on_curve_None.

  (* any raw value that fails the membership test is mapped to infinity (never happens for results of
     radd/rneg on curve points of a nonsingular curve; checked by computation for the toy curves) *)
  Definition mk (P : raw) : pt :=
    match bool_dec (on_curve P) true with
    | left pf => exist _ P pf
    | right _ => pO
    end.

  Definition praw (P : pt) : raw := proj1_sig P.
  Definition padd (P Q : pt) : pt := mk (radd (praw P) (praw Q)).
  Definition pneg (P : pt) : pt := mk (rneg (praw P)).
  Definition psmul (e : Z) (P : pt) : pt := mk (rsmul e (praw P)).
  Definition pG : pt := mk (Some (cgx c, cgy c)).
  Definition pcoords (P : pt) : option (Z * Z) := praw P.

  (* self.Point(x, y): None = NoSuchPointError.  Coordinates outside [0, p) that satisfy the equation
     modulo p are accepted by pycoin and kept unreduced; this instance reduces them (the
     correspondence run only uses canonical pairs; see harness/meta/C01.json) *)
  Definition pof_pair (xy : raw) : option pt :=
    if contains_point xy then
      Some (mk (match xy with None => None | Some (x, y) => Some (x mod p, y mod p) end))
    else None.

  (* Generator.points_for_x: None = ValueError (caught by the caller) *)
  Definition plift_x (x : Z) : option (pt * pt) :=
    let alpha := (powmod x 3 + a * x + b) mod p in
    let y0 := powmod alpha ((p + 1) / 4) in
    if y0 =? 0 then None
    else if negb (contains_point (Some (x, y0))) then None          (* NoSuchPointError is a ValueError *)
    else
      let p0 := mk (Some (x mod p, y0)) in
      let p1 := mk (Some (x mod p, (p - y0) mod p)) in
      if Z.land y0 1 =? 0 then Some (p0, p1) else Some (p1, p0).

  (* the reduced field elements *)
  Definition x_canonical (x : Z) : Prop := 0 <= x < p.

  Section WithHmac.
    Variable hmac : bytes -> bytes -> bytes.
    (* fuel of the RFC 6979 retry loop is the caller's *)
    Definition i_gen_k (kfuel : nat) : Z -> Z -> Z -> outcome Z := default_gen_k hmac kfuel.

    Definition i_verify (xy : raw) (val r s : Z) : outcome bool :=
      (* self.Point(..) is built only when the checks before it pass: the option is computed lazily by
         verify's match, but it is a pure value, so passing it is equivalent *)
      verify pt padd psmul pG n pcoords (pof_pair xy) val r s.

    Definition i_sign_with_recid (kfuel fuel : nat) (d val : Z) : outcome (Z * Z * Z) :=
      sign_with_recid pt psmul pG n pcoords (i_gen_k kfuel) fuel d val.

    (* sign_with_recid(d, val, gen_k = lambda *_: k) *)
    Definition i_sign_with_k (fuel : nat) (d val k : Z) : outcome (Z * Z * Z) :=
      sign_with_recid pt psmul pG n pcoords (fun _ _ _ => Ret k) fuel d val.

    Definition i_recover (val r s : Z) (y_parity : option Z) : outcome (list raw) :=
      match recover pt padd psmul pG n p plift_x val r s y_parity with
      | Ret l => Ret (map praw l)
      | Raise e => Raise e
      | OutOfFuel => OutOfFuel
      end.

    (* d * G, the public key *)
    Definition i_pubkey (d : Z) : raw := praw (psmul d pG).
  End WithHmac.
End Inst.
