(* Model/Address.v — C08: pycoin/networks/ContractAPI.py (for_info, match, info_for_script,
   _info_from_multisig_script), AddressAPI.py (for_*, for_script, for_script_info), ParseAPI.py (p2pkh, p2sh,
   _bech32m, p2pkh_segwit, p2sh_segwit, p2tr, address), key/Key.py (address), BIP49Node/BIP84Node.address,
   function by function, as the code is TODAY.  No proofs here.

   What is a parameter:
   * the Base58Check and segwit-address codecs (Section variables; C11 owns their models), hash160, sha256;
   * the network (a row of the GENERATED table Gen/GenNetworks.v);
   * the instruction decoder / push encoder are C12's finished models (Model/Push.v) over the GENERATED opcode tables.
   The templates, placeholder names, length bounds, format strings of _SCRIPT_LOOKUP, payload lengths and
   segwit (version, length) pairs are NOT written here: they are the definitions of Gen/GenNetworks.v, harvested
   from the AST of ContractAPI.py / ParseAPI.py on every run.

   Strings (addresses, hrp) are `bytes` holding the UTF-8 text. *)
From Coq Require Import String.   (* only for `list_byte_of_string` under `Eval`: no `string` survives in a definition *)
From PV Require Import Base.Bytes Base.Outcome Gen.GenOpcodes Gen.GenNetworks Model.ScriptNum Model.Push.
Local Open Scope N_scope.
Local Open Scope outcome_scope.

(* names as text bytes; evaluated here so that Coq's `string` type does not reach the extracted code *)
Definition nm_OP_RETURN : bytes := Eval vm_compute in list_byte_of_string "OP_RETURN".
Definition nm_OP_1 : bytes := Eval vm_compute in list_byte_of_string "OP_1".
Definition nm_OP_16 : bytes := Eval vm_compute in list_byte_of_string "OP_16".
Definition nm_OP_CHECKMULTISIG : bytes := Eval vm_compute in list_byte_of_string "OP_CHECKMULTISIG".
Definition nm_p2pk : bytes := Eval vm_compute in list_byte_of_string "p2pk".
Definition nm_p2pkh : bytes := Eval vm_compute in list_byte_of_string "p2pkh".
Definition nm_p2pkh_wit : bytes := Eval vm_compute in list_byte_of_string "p2pkh_wit".
Definition nm_p2sh : bytes := Eval vm_compute in list_byte_of_string "p2sh".
Definition nm_p2sh_wit : bytes := Eval vm_compute in list_byte_of_string "p2sh_wit".
Definition nm_p2tr : bytes := Eval vm_compute in list_byte_of_string "p2tr".
Definition nm_multisig : bytes := Eval vm_compute in list_byte_of_string "multisig".
Definition text_unknown : bytes := Eval vm_compute in list_byte_of_string "???".
Definition text_nulldata_open : bytes := Eval vm_compute in list_byte_of_string "(nulldata ".
Definition text_nulldata_close : bytes := Eval vm_compute in list_byte_of_string ")".

(* ============================ ScriptTools.compile, token by token ============================ *)
(* `self.opcode_to_int = dict(o for o in opcode_list)`: the last entry of a name wins *)
Fixpoint opcode_by_name (t : list (bytes * N)) (name : bytes) : option N :=
  match t with
  | [] => None
  | (n, v) :: r =>
    match opcode_by_name r name with
    | Some x => Some x
    | None => if bytes_eqb n name then Some v else None
    end
  end.

(* a token that is an opcode name: `f.write(bytes([self.opcode_to_int[t]]))`; an unknown OP_ name ends in
   compile_expression's SyntaxError *)
Definition compile_opcode_name (name : bytes) : outcome bytes :=
  match opcode_by_name opcode_names name with
  | Some v => Ret [n2b v]
  | None => Raise E_OTHER
  end.

(* a quoted token 'TEXT': compile_expression returns the text, write_push_data pushes it *)
Definition compile_quoted (s : bytes) : outcome bytes := btc_compile_push_data s.

Definition nibbles (d : bytes) : list N := flat_map (fun b => [b2n b / 16; b2n b mod 16]) d.
Definition decimal_value (ns : list N) : Z := fold_left (fun acc n => (acc * 10 + Z.of_N n)%Z) ns 0%Z.
Definition max_u64 : Z := 18446744073709551615%Z.

Fixpoint hex_token_lookup (t : list (bytes * option N)) (d : bytes) : option (option N) :=
  match t with
  | [] => None
  | (d', o) :: r => if bytes_eqb d d' then Some o else hex_token_lookup r d
  end.

(* the token b2h(d) inside a script text:
   - the empty string is no token at all (str.split drops it);
   - "OP_" + token.upper() an opcode name: that opcode (OP_10..OP_16 for the single bytes 0x10..0x16); if the
     token has a hex letter the lower-case lookup raises KeyError (bytes 1a dd: OP_1ADD);
   - all-decimal, not starting with "0", at most 2^64-1: compile_expression reads it as a decimal INTEGER and the
     script number of that integer is pushed;
   - otherwise the bytes are pushed. *)
Definition compile_hex_token (d : bytes) : outcome bytes :=
  match d with
  | [] => Ret []
  | _ =>
    match hex_token_lookup hex_token_opcodes d with
    | Some (Some o) => Ret [n2b o]
    | Some None => Raise E_KEY
    | None =>
      let ns := nibbles d in
      if forallb (fun n => n <? 10) ns && negb (hd 0 ns =? 0) && (decimal_value ns <=? max_u64)%Z
      then do v <- int_to_script_bytes (decimal_value ns); btc_compile_push_data v
      else btc_compile_push_data d
    end
  end.

Fixpoint int_token_lookup (t : list (Z * N)) (v : Z) : option N :=
  match t with
  | [] => None
  | (v', o) :: r => if (v =? v')%Z then Some o else int_token_lookup r v
  end.

(* decimal digits of n, most significant first (the text "%d" % n) *)
Fixpoint dec_digits_f (fuel : nat) (n : N) (acc : list N) : list N :=
  match fuel with
  | O => n mod 10 :: acc
  | S f => if n <? 10 then n :: acc else dec_digits_f f (n / 10) (n mod 10 :: acc)
  end.
Definition dec_digits (n : N) : list N := dec_digits_f (N.to_nat (N.size n)) n [].
Fixpoint bytes_of_nibbles (ns : list N) : option bytes :=
  match ns with
  | [] => Some []
  | [_] => None
  | a :: b :: r => match bytes_of_nibbles r with Some t => Some (n2b (16 * a + b) :: t) | None => None end
  end.

(* the token "%d" % v: OP_0..OP_16 by name; else the script number of v when |v| <= 2^64-1; beyond that
   compile_expression falls through to unhexlify of the DECIMAL text (even number of digits, no sign) or raises
   SyntaxError *)
Definition compile_int_token (v : Z) : outcome bytes :=
  match int_token_lookup int_token_opcodes v with
  | Some o => Ret [n2b o]
  | None =>
    if (v =? 0)%Z then Raise E_OTHER
    else if (Z.abs v <=? max_u64)%Z then do b <- int_to_script_bytes v; btc_compile_push_data b
    else if (v <? 0)%Z then Raise E_OTHER
    else match bytes_of_nibbles (dec_digits (Z.to_N v)) with
         | Some d => btc_compile_push_data d
         | None => Raise E_OTHER
         end
  end.

(* ============================ ContractAPI ============================ *)
Inductive info : Type :=
| IP2PKH (hash160 : bytes)
| IP2PKH_WIT (hash160 : bytes)
| IP2SH_WIT (hash256 : bytes)
| IP2SH (hash160 : bytes)
| IP2PK (sec : bytes)
| IP2TR (synthetic_key : bytes)
| INulldata (data : bytes)
| IMultisig (m : Z) (sec_keys : list bytes)
| IUnknown (script : bytes).

Inductive fmt_arg := AHex (d : bytes) | AHexList (l : list bytes) | AInt (v : Z).

Definition compile_arg (a : fmt_arg) : outcome bytes :=
  match a with
  | AHex d => compile_hex_token d
  | AHexList l => do ps <- mapM compile_hex_token l; Ret (concat ps)
  | AInt v => compile_int_token v
  end.

(* `self._script_tools.compile(fmt % args)`, left to right; inl = a %s / %d slot, inr = an opcode name *)
Fixpoint compile_format (fmt : list (bool + bytes)) (args : list fmt_arg) : outcome bytes :=
  match fmt with
  | [] => Ret []
  | inr name :: r => do a <- compile_opcode_name name; do b <- compile_format r args; Ret (a ++ b)
  | inl _ :: r =>
    match args with
    | [] => Raise E_TYPE
    | x :: args' => do a <- compile_arg x; do b <- compile_format r args'; Ret (a ++ b)
    end
  end.

Fixpoint format_lookup (t : list (bytes * list (bool + bytes))) (name : bytes) : outcome (list (bool + bytes)) :=
  match t with
  | [] => Raise E_KEY
  | (n, f) :: r => if bytes_eqb n name then Ret f else format_lookup r name
  end.
Definition format_of (name : bytes) := format_lookup script_formats name.

Definition for_info (i : info) : outcome bytes :=
  match i with
  | INulldata d => do r <- compile_opcode_name nm_OP_RETURN; Ret (r ++ d)
  | IUnknown s => Ret s
  | IP2PK sec => do f <- format_of nm_p2pk; compile_format f [AHex sec]
  | IP2PKH h => do f <- format_of nm_p2pkh; compile_format f [AHex h]
  | IP2PKH_WIT h => do f <- format_of nm_p2pkh_wit; compile_format f [AHex h]
  | IP2SH h => do f <- format_of nm_p2sh; compile_format f [AHex h]
  | IP2SH_WIT h => do f <- format_of nm_p2sh_wit; compile_format f [AHex h]
  | IP2TR k => do f <- format_of nm_p2tr; compile_format f [AHex k]
  | IMultisig m keys => do f <- format_of nm_multisig; compile_format f [AInt m; AHexList keys; AInt (Z.of_nat (length keys))]
  end.

Definition contract_for_p2pk sec := for_info (IP2PK sec).
Definition contract_for_p2pkh h := for_info (IP2PKH h).
Definition contract_for_p2pkh_wit h := for_info (IP2PKH_WIT h).
Definition contract_for_p2sh h := for_info (IP2SH h).
Definition contract_for_p2sh_wit h := for_info (IP2SH_WIT h).
Definition contract_for_p2tr k := for_info (IP2TR k).
Definition contract_for_multisig m keys := for_info (IMultisig m keys).
Definition contract_for_nulldata d := for_info (INulldata d).

(* ---- match ---- *)
Inductive cap := CPubkey | CPubkeyHash | CSegwit | CData | CSynth.
Definition cap_eqb (a b : cap) : bool :=
  match a, b with
  | CPubkey, CPubkey | CPubkeyHash, CPubkeyHash | CSegwit, CSegwit | CData, CData | CSynth, CSynth => true
  | _, _ => false
  end.
(* the defaultdict(list) `r`: appended in order *)
Definition captures := list (cap * option bytes).

Definition ph (k : nat) : bytes := nth k placeholder_names [].
Definition data_is (d : option bytes) (name : bytes) : bool :=
  match d with Some x => bytes_eqb x name | None => false end.
Definition opt_len (d : option bytes) : nat := match d with Some x => length x | None => 0%nat end.
Definition opt_bytes_eq (a b : option bytes) : bool :=
  match a, b with Some x, Some y => bytes_eqb x y | None, None => true | _, _ => false end.

Fixpoint compile_template (t : list (bool * bytes)) : outcome bytes :=
  match t with
  | [] => Ret []
  | (q, s) :: r =>
    do a <- (if q then compile_quoted s else compile_opcode_name s);
    do b <- compile_template r; Ret (a ++ b)
  end.

(* the if/elif chain of the loop body: what one template instruction (opcode2, data2) does with one script
   instruction (opcode1, data1); None = `break` *)
Definition step_item (it : N * option bytes) (opcode1 : N) (data1 : option bytes) (r : captures) : option captures :=
  let '(opcode2, data2) := it in
  let l1 := opt_len data1 in
  if data_is data2 (ph 0) then
    if (l1 <? pubkey_len_min)%nat || (pubkey_len_max <? l1)%nat then None else Some (r ++ [(CPubkey, data1)])
  else if data_is data2 (ph 1) then
    if negb (l1 =? pubkeyhash_len)%nat then None else Some (r ++ [(CPubkeyHash, data1)])
  else if data_is data2 (ph 2) then
    if negb (existsb (Nat.eqb l1) segwit_lens) then None else Some (r ++ [(CSegwit, data1)])
  else if data_is data2 (ph 3) then Some (r ++ [(CData, data1)])
  else if data_is data2 (ph 4) then
    if negb (l1 =? synthetic_key_len)%nat then None else Some (r ++ [(CSynth, data1)])
  else if negb ((opcode1 =? opcode2) && opt_bytes_eq data1 data2) then None
  else Some r.

(* the `while 1:` loop of ContractAPI.match; Ret None = the loop was left by `break` (return None).
   Every iteration advances pc1, so S (length script) iterations suffice (AddressP.match_loop_fuel_ok). *)
Fixpoint match_loop (fuel : nat) (template script : bytes) (pc1 pc2 : nat) (r : captures)
  : outcome (option captures) :=
  match fuel with
  | O => OutOfFuel
  | S fuel' =>
    if (pc1 =? length script)%nat && (pc2 =? length template)%nat then Ret (Some r)
    else if (length script <=? pc1)%nat || (length template <=? pc2)%nat then Ret None
    else
      match btc_get_opcode script pc1 true with
      | Raise E_SCRIPT => Ret None
      | Raise e => Raise e
      | OutOfFuel => OutOfFuel
      | Ret (opcode1, data1, pc1', _) =>
        do '(opcode2, data2, pc2', _) <- btc_get_opcode template pc2 false;
        match step_item (opcode2, data2) opcode1 data1 r with
        | None => Ret None
        | Some r' => match_loop fuel' template script pc1' pc2' r'
        end
      end
  end.

Definition match_compiled (template script : bytes) : outcome (option captures) :=
  match_loop (S (length script)) template script 0 0 [].

Definition contract_match (template : list (bool * bytes)) (script : bytes) : outcome (option captures) :=
  do t <- compile_template template; match_compiled t script.

(* `if d:` — a dict is true when it has a key *)
Definition truthy (d : option captures) : bool :=
  match d with Some (_ :: _) => true | _ => false end.
Definition caps_of (k : cap) (d : option captures) : list (option bytes) :=
  match d with
  | Some r => map snd (filter (fun e => cap_eqb (fst e) k) r)
  | None => []
  end.
(* d["X_LIST"][0]; the captured value is never None for the length-checked placeholders *)
Definition first_of (k : cap) (d : option captures) : outcome bytes :=
  match caps_of k d with
  | Some x :: _ => Ret x
  | None :: _ => Raise E_TYPE
  | [] => Raise E_INDEX
  end.

Definition tmpl (k : nat) : list (bool * bytes) := nth k match_templates [].

Definition int_for_opcode (name : bytes) : outcome N :=
  match opcode_by_name opcode_names name with Some v => Ret v | None => Raise E_TYPE end.

(* the `while pc < len(script):` loop of _info_from_multisig_script.
   Ret None = `return None` (ScriptError); Ret (Some (opcode, pc, keys)) = state when the loop is left. *)
Fixpoint multisig_keys (fuel : nat) (script : bytes) (pc : nat) (opcode : N) (keys : list bytes)
  : outcome (option (N * nat * list bytes)) :=
  match fuel with
  | O => OutOfFuel
  | S fuel' =>
    if (pc <? length script)%nat then
      match btc_get_opcode script pc true with
      | Raise E_SCRIPT => Ret None
      | Raise e => Raise e
      | OutOfFuel => OutOfFuel
      | Ret (opcode', data, pc', _) =>
        (* size = len(data) if data else 0 *)
        let size := opt_len data in
        if (size <? multisig_key_min)%nat || (multisig_key_max <? size)%nat then Ret (Some (opcode', pc', keys))
        else multisig_keys fuel' script pc' opcode' (keys ++ [match data with Some d => d | None => [] end])
      end
    else Ret (Some (opcode, pc, keys))
  end.

Definition info_from_multisig_script (script : bytes) : outcome (option info) :=
  do op_1 <- int_for_opcode nm_OP_1;
  do op_16 <- int_for_opcode nm_OP_16;
  if (length script =? 0)%nat then Ret None else
  do '(opcode, _, pc, _) <- btc_get_opcode script 0 false;
  if negb ((op_1 <=? opcode) && (opcode <? op_16)) then Ret None else
  let m := (Z.of_N opcode + (1 - Z.of_N op_1))%Z in
  do st <- multisig_keys (S (length script)) script pc opcode [];
  match st with
  | None => Ret None
  | Some (opcode, pc, sec_keys) =>
    if (length script <=? pc)%nat then Ret None else
    (* the key count must be one of OP_1 .. OP_16 *)
    if negb ((op_1 <=? opcode) && (opcode <=? op_16)) then Ret None else
    let n := (Z.of_N opcode + (1 - Z.of_N op_1))%Z in
    if (n <? m)%Z || negb (Z.of_nat (length sec_keys) =? n)%Z then Ret None else
    do '(opcode, _, pc, _) <- btc_get_opcode script pc false;
    do op_cms <- int_for_opcode nm_OP_CHECKMULTISIG;
    if negb (opcode =? op_cms) then Ret None else
    if negb (pc =? length script)%nat then Ret None else
    Ret (Some (IMultisig m sec_keys))
  end.

(* info_for_script, one definition per `d = self.match(...); if d:` block, last first *)
Definition info_step_multisig (script : bytes) : outcome info :=
  do d <- info_from_multisig_script script;
  match d with Some i => Ret i | None => Ret (IUnknown script) end.

Definition info_step_nulldata (script : bytes) : outcome info :=
  do r <- compile_opcode_name nm_OP_RETURN;
  if bytes_eqb r (firstn 1 script) then Ret (INulldata (skipn 1 script)) else info_step_multisig script.

Definition info_step_p2tr (script : bytes) : outcome info :=
  do d <- contract_match (tmpl 4) script;
  if truthy d then
    do k <- first_of CSynth d;
    if (length k =? 32)%nat then Ret (IP2TR k) else info_step_nulldata script
  else info_step_nulldata script.

Definition info_step_p2pk (script : bytes) : outcome info :=
  do d <- contract_match (tmpl 3) script;
  if truthy d then do k <- first_of CPubkey d; Ret (IP2PK k) else info_step_p2tr script.

Definition info_step_p2sh (script : bytes) : outcome info :=
  do d <- contract_match (tmpl 2) script;
  if truthy d then do h <- first_of CPubkeyHash d; Ret (IP2SH h) else info_step_p2pk script.

Definition info_step_segwit (script : bytes) : outcome info :=
  do d <- contract_match (tmpl 1) script;
  if truthy d then
    do data <- first_of CSegwit d;
    if (length data =? 20)%nat then Ret (IP2PKH_WIT data)
    else if (length data =? 32)%nat then Ret (IP2SH_WIT data)
    else info_step_p2sh script
  else info_step_p2sh script.

Definition info_for_script (script : bytes) : outcome info :=
  do d <- contract_match (tmpl 0) script;
  if truthy d then do h <- first_of CPubkeyHash d; Ret (IP2PKH h) else info_step_segwit script.

(* ============================ networks ============================ *)
Definition network := netrow.

(* text helpers *)
Definition hexdigit (n : N) : byte := if n <? 10 then n2b (48 + n) else n2b (87 + n).
Definition b2h (d : bytes) : bytes := map hexdigit (nibbles d).
Definition ascii_lower_byte (b : byte) : byte :=
  if (65 <=? b2n b) && (b2n b <=? 90) then n2b (b2n b + 32) else b.
Definition ascii_lower (s : bytes) : bytes := map ascii_lower_byte s.

Fixpoint starts_with (p d : bytes) : bool :=
  match p, d with
  | [], _ => true
  | x :: p', y :: d' => byte_eqb x y && starts_with p' d'
  | _ :: _, [] => false
  end.

Section Codecs.
(* b2a_hashed_base58 / parse_b58_double_sha256 (None: not Base58, empty, or bad checksum) *)
Variable b58check_encode : bytes -> bytes.
Variable b58check_decode : bytes -> option bytes.
(* bech32m.encode(hrp, witver, witprog) (None: the encoder's own validity check failed) *)
Variable segwit_encode : bytes -> N -> bytes -> option bytes.
(* parse_bech32: (hrp, version, decoded program, checksum constant 1 = Bech32 / 2 = Bech32m) *)
Variable segwit_parse : bytes -> option (bytes * N * bytes * N).
Variable hash160 : bytes -> bytes.
Variable sha256 : bytes -> bytes.

(* ---- AddressAPI ---- *)
Definition address_for_p2pkh (net : network) (h160 : bytes) : option bytes :=
  match nr_pkh net with None => None | Some p => Some (b58check_encode (p ++ h160)) end.
Definition address_for_p2sh (net : network) (h160 : bytes) : option bytes :=
  match nr_sh net with None => None | Some p => Some (b58check_encode (p ++ h160)) end.
Definition address_for_p2pkh_wit (net : network) (h160 : bytes) : outcome (option bytes) :=
  match nr_hrp net with
  | None => Ret None
  | Some hrp => if (length h160 =? 20)%nat then Ret (segwit_encode hrp 0 h160) else Raise E_ASSERT
  end.
Definition address_for_p2sh_wit (net : network) (hash256 : bytes) : outcome (option bytes) :=
  match nr_hrp net with
  | None => Ret None
  | Some hrp => if (length hash256 =? 32)%nat then Ret (segwit_encode hrp 0 hash256) else Raise E_ASSERT
  end.
Definition address_for_p2tr (net : network) (key : bytes) : option bytes :=
  match nr_hrp net with None => None | Some hrp => segwit_encode hrp 1 key end.
Definition address_for_p2s (net : network) (script : bytes) : option bytes := address_for_p2sh net (hash160 script).
Definition address_for_p2s_wit (net : network) (script : bytes) : outcome (option bytes) :=
  address_for_p2sh_wit net (sha256 script).

Definition address_for_script_info (net : network) (i : info) : outcome (option bytes) :=
  match i with
  | IP2PKH h => Ret (address_for_p2pkh net h)
  | IP2PKH_WIT h => address_for_p2pkh_wit net h
  | IP2SH_WIT h => address_for_p2sh_wit net h
  | IP2PK sec => Ret (address_for_p2pkh net (hash160 sec))
  | IP2SH h => Ret (address_for_p2sh net h)
  | IP2TR k => Ret (address_for_p2tr net k)
  | INulldata d => Ret (Some (text_nulldata_open ++ b2h d ++ text_nulldata_close))
  | IMultisig _ _ | IUnknown _ => Ret (Some text_unknown)
  end.
Definition address_for_script (net : network) (script : bytes) : outcome (option bytes) :=
  do i <- info_for_script script; address_for_script_info net i.

(* ---- ParseAPI; a Contract is its script_info ---- *)
(* the body of p2pkh / p2sh once `data = self.parse_b58_hashed(s)` is known *)
Definition parse_b58_data (data : option bytes) (prefix : option bytes) (payload_len : nat) (mk : bytes -> info)
  : outcome (option info) :=
  match data, prefix with
  | Some data, Some p =>
    if negb (starts_with p data) then Ret None
    else if negb (length data =? length p + payload_len)%nat then Ret None
    else do script <- for_info (mk (skipn (length p) data));
         do i <- info_for_script script; Ret (Some i)
  | _, _ => Ret None
  end.
Definition parse_b58 (prefix : option bytes) (payload_len : nat) (mk : bytes -> info) (s : bytes)
  : outcome (option info) := parse_b58_data (b58check_decode s) prefix payload_len mk.
Definition parse_p2pkh (net : network) := parse_b58 (nr_pkh net) p2pkh_payload_len IP2PKH.
Definition parse_p2sh (net : network) := parse_b58 (nr_sh net) p2sh_payload_len IP2SH.

(* the body of _bech32m once `v = parse_bech32(s)` is known *)
Definition parse_bech32m_data (v : option (bytes * N * bytes * N)) (net : network) (expected_version : N) (blob_len : nat)
  (mk : bytes -> info) : outcome (option info) :=
  match v with
  | None => Ret None
  | Some (hr_prefix, version, decoded_data, spec) =>
    match nr_hrp net with
    | None => Ret None
    | Some hrp =>
      if negb (bytes_eqb hr_prefix hrp) then Ret None
      else if negb (length decoded_data =? blob_len)%nat then Ret None
      else if negb (expected_version =? version) then Ret None
      else if (version =? 0) && negb (spec =? enc_bech32) then Ret None
      else if negb (version =? 0) && negb (spec =? enc_bech32m) then Ret None
      else do script <- for_info (mk decoded_data);
           do i <- info_for_script script; Ret (Some i)
    end
  end.
Definition parse_bech32m (net : network) (s : bytes) (expected_version : N) (blob_len : nat) (mk : bytes -> info)
  : outcome (option info) := parse_bech32m_data (segwit_parse s) net expected_version blob_len mk.

Definition segwit_args (k : nat) : N * nat :=
  match nth_error segwit_parsers k with Some (_, v, l, _) => (v, l) | None => (99, 0%nat) end.
Definition parse_p2pkh_segwit (net : network) (s : bytes) :=
  parse_bech32m net s (fst (segwit_args 0)) (snd (segwit_args 0)) IP2PKH_WIT.
Definition parse_p2sh_segwit (net : network) (s : bytes) :=
  parse_bech32m net s (fst (segwit_args 1)) (snd (segwit_args 1)) IP2SH_WIT.
Definition parse_p2tr (net : network) (s : bytes) :=
  parse_bech32m net s (fst (segwit_args 2)) (snd (segwit_args 2)) IP2TR.

(* `a or b`: Contract objects are always true *)
Definition or_else {A} (a : outcome (option A)) (b : outcome (option A)) : outcome (option A) :=
  do x <- a; match x with Some v => Ret (Some v) | None => b end.

Definition parse_address (net : network) (s : bytes) : outcome (option info) :=
  or_else (parse_p2pkh net s)
  (or_else (parse_p2sh net s)
  (or_else (parse_p2pkh_segwit net s)
  (or_else (parse_p2sh_segwit net s)
           (parse_p2tr net s)))).

(* ---- the parseable_str cache as explicit state ----
   ParseAPI.address wraps its argument in parseable_str; a parseable_str that is passed in again (ku's parse_key offers the
   SAME object to every network) carries `_cache`, a dict filled by parseable_str.cache(key, f).  The keys in use today
   (Gen/GenNetworks.parse_cache_keys, harvested from parseable_str.py; no other module of pycoin/networks calls .cache)
   are "b58" (inside the Base58Check oracle), "b58_double_sha256", "bech32" and "colon_prefix": all are functions of the
   TEXT alone, none mentions a network.  The two that the address parsers read are modelled: *)
Record pcache := mk_pcache {
  c_b58chk : option (option bytes);                       (* _cache["b58_double_sha256"] *)
  c_bech32 : option (option (bytes * N * bytes * N)) }.   (* _cache["bech32"] *)
Definition pcache_empty : pcache := mk_pcache None None.

(* ps.cache(key, f): the stored value if the key is present, else f(ps) *)
Definition eff_b58 (c : pcache) (s : bytes) : option bytes :=
  match c_b58chk c with Some v => v | None => b58check_decode s end.
Definition eff_bech32 (c : pcache) (s : bytes) : option (bytes * N * bytes * N) :=
  match c_bech32 c with Some v => v | None => segwit_parse s end.

(* ParseAPI.address on a parseable_str with cache c: result and the cache afterwards.  p2pkh always asks for
   "b58_double_sha256"; "bech32" is asked for only when both Base58 parsers returned None. *)
Definition parse_address_st (net : network) (s : bytes) (c : pcache) : outcome (option info) * pcache :=
  let d := eff_b58 c s in
  let r12 := or_else (parse_b58_data d (nr_pkh net) p2pkh_payload_len IP2PKH)
                     (parse_b58_data d (nr_sh net) p2sh_payload_len IP2SH) in
  match r12 with
  | Ret None =>
    let b := eff_bech32 c s in
    (or_else (parse_bech32m_data b net (fst (segwit_args 0)) (snd (segwit_args 0)) IP2PKH_WIT)
       (or_else (parse_bech32m_data b net (fst (segwit_args 1)) (snd (segwit_args 1)) IP2SH_WIT)
                (parse_bech32m_data b net (fst (segwit_args 2)) (snd (segwit_args 2)) IP2TR)),
     mk_pcache (Some d) (Some b))
  | _ => (r12, mk_pcache (Some d) (c_bech32 c))
  end.

(* one parseable_str offered to a list of networks in turn (pycoin.cmds.ku.parse_key) *)
Fixpoint parse_address_seq (nets : list network) (s : bytes) (c : pcache) : list (outcome (option info)) :=
  match nets with
  | [] => []
  | net :: rest => let '(r, c') := parse_address_st net s c in r :: parse_address_seq rest s c'
  end.

(* Contract.script() and Contract.address() of the parse result *)
Definition contract_script (i : info) : outcome bytes := for_info i.
Definition contract_address (net : network) (i : info) : outcome (option bytes) := address_for_script_info net i.
(* ContractAPI.for_address *)
Definition contract_for_address (net : network) (s : bytes) : outcome (option bytes) :=
  do c <- parse_address net s;
  match c with Some i => do sc <- for_info i; Ret (Some sc) | None => Ret None end.

(* ---- Key.address / BIP49Node.address / BIP84Node.address, given the key's SEC encoding ---- *)
Definition key_address (net : network) (sec : bytes) : option bytes := address_for_p2pkh net (hash160 sec).
Definition bip49_address (net : network) (sec : bytes) : outcome (option bytes) :=
  do underlying <- contract_for_p2pkh_wit (hash160 sec); Ret (address_for_p2s net underlying).
Definition bip84_address (net : network) (sec : bytes) : outcome (option bytes) :=
  address_for_p2pkh_wit net (hash160 sec).
End Codecs.

(* the five address kinds of Gen/GenNetworks.v (nr_kinds) *)
Definition kind_info (k : N) (payload : bytes) : info :=
  match k with
  | 0 => IP2PKH payload
  | 1 => IP2SH payload
  | 2 => IP2PKH_WIT payload
  | 3 => IP2SH_WIT payload
  | _ => IP2TR payload
  end.
Definition kind_len (k : N) : nat := match k with 0 | 1 | 2 => 20%nat | _ => 32%nat end.

Fixpoint find_network (t : list netrow) (sym : bytes) : option netrow :=
  match t with
  | [] => None
  | n :: r => if bytes_eqb (nr_symbol n) sym then Some n else find_network r sym
  end.
