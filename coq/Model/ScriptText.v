(* Model/ScriptText.v — pycoin/vm/ScriptTools.py at TOKEN level: opcode_list/disassemble produce a list of
   tokens (an opcode name, or "[hex]" of pushed data), compile maps a token list back to bytes.
   Python's str.split / " ".join / upper / binascii.hexlify are outside the model (tied by the direct
   compile(disassemble(s)) check of harness/c12.py).  No proofs here. *)
From Coq Require Import String.
From PV Require Import Base.Bytes Base.Outcome Gen.GenOpcodes Model.Push.
Local Open Scope N_scope.

Inductive tok : Type :=
| TName (s : string)      (* an opcode name such as OP_DUP, or "???" *)
| THex (d : bytes).       (* "[<hex of d>]" *)

(* self.int_to_opcode = {v: k for k, v in opcode_list}: a later pair overrides an earlier one *)
Fixpoint int_to_opcode_in (t : list (string * N)) (o : N) (acc : option string) : option string :=
  match t with
  | [] => acc
  | (k, v) :: r => int_to_opcode_in r o (if v =? o then Some k else acc)
  end.
Definition int_to_opcode (o : N) : option string := int_to_opcode_in opcode_list o None.

(* self.opcode_to_int = dict(o for o in opcode_list) *)
Fixpoint opcode_to_int_in (t : list (string * N)) (n : string) (acc : option N) : option N :=
  match t with
  | [] => acc
  | (k, v) :: r => opcode_to_int_in r n (if String.eqb k n then Some v else acc)
  end.
Definition opcode_to_int (n : string) : option N := opcode_to_int_in opcode_list n None.

Definition is_push_name (s : string) : bool := String.prefix "OP_PUSH" s.

(* disassemble_for_opcode_data *)
Definition disasm_tok (opcode : N) (data : option bytes) : tok :=
  let name := match int_to_opcode opcode with Some n => n | None => "???"%string end in
  match data with
  | Some d => if (Nat.ltb 0 (length d)) && is_push_name name then THex d else TName name
  | None => TName name
  end.

(* get_opcodes + opcode_list: `while pc < len(script)`; fuel bounds the number of instructions *)
Fixpoint opcode_list_f (fuel : nat) (script : bytes) (pc : nat) : outcome (list tok) :=
  if Nat.leb (length script) pc then Ret []
  else match fuel with
       | O => OutOfFuel
       | S f =>
         match btc_get_opcode script pc false with
         | Ret (o, d, npc, _) =>
           match opcode_list_f f script npc with
           | Ret r => Ret (disasm_tok o d :: r)
           | Raise e => Raise e
           | OutOfFuel => OutOfFuel
           end
         | Raise e => Raise e
         | OutOfFuel => OutOfFuel
         end
       end.
Definition disassemble (script : bytes) : outcome (list tok) :=
  opcode_list_f (length script) script 0.

(* compile, one token: an opcode name writes its byte; "[hex]" goes through compile_expression and
   write_push_data; an unknown name ends in SyntaxError *)
Definition compile_tok (t : tok) : outcome bytes :=
  match t with
  | TName n => match opcode_to_int n with Some o => Ret [n2b o] | None => Raise E_OTHER end
  | THex d => btc_compile_push_data d
  end.
Fixpoint compile (ts : list tok) : outcome bytes :=
  match ts with
  | [] => Ret []
  | t :: r =>
    match compile_tok t with
    | Ret b => match compile r with Ret rb => Ret (b ++ rb) | Raise e => Raise e | OutOfFuel => OutOfFuel end
    | Raise e => Raise e
    | OutOfFuel => OutOfFuel
    end
  end.
