(* Model/SighashBridge.v — definitions (no proofs) that connect Model/Sighash.v with Spec/SighashCore.v:
   the model's transaction read as Core's CTransaction, and the exclusion predicate of the known finding.
   Kept apart from Proofs/SighashP.v so that the extraction does not depend on any proof. *)
From PV Require Import Base.Bytes Base.Outcome Model.Sighash Spec.SighashCore.
Local Open Scope N_scope.

(* ---- the model's transaction as Core's -------------------------------------------------------- *)
Definition to_core_in (i : txin) : CTxIn :=
  mkCTxIn (mkOutPoint (ti_hash i) (ti_index i)) (ti_script i) (ti_seq i).
Definition to_core_out (o : txout) : CTxOut := mkCTxOut (to_value o) (to_script o).
Definition to_core (t : tx) : CTransaction :=
  mkCTx (tx_version t) (map to_core_in (tx_ins t)) (map to_core_out (tx_outs t)) (tx_lock t).

(* ---- exclusion predicate of the known finding --------------------------------------------------- *)
(* the script has an undecodable instruction and pycoin's walk, which goes on behind it, removes
       something there.  `undecodable_tail` = the script from its first undecodable instruction on. *)
Fixpoint undecodable_tail_fuel (fuel : nat) (s : bytes) : bytes :=
  match fuel with
  | O => s
  | S f => match core_get_op s with
           | GOk _ len => undecodable_tail_fuel f (skipn len s)
           | GFail _ => s
           end
  end.
Definition undecodable_tail (s : bytes) : bytes := undecodable_tail_fuel (length s) s.
Definition rewalk_excluded (sub script : bytes) : bool :=
  let tail := undecodable_tail script in
  match delete_subscript tail sub with
  | Ret w => negb (bytes_eqb w tail)
  | _ => true
  end.

