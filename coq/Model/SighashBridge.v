(* Model/SighashBridge.v — definitions (no proofs) that connect Model/Sighash.v with Spec/SighashCore.v:
   the model's transaction read as Core's CTransaction.
   Kept apart from Proofs/SighashP.v so that the extraction does not depend on any proof. *)
From PV Require Import Base.Bytes Base.Outcome Model.Sighash Spec.SighashCore.
Local Open Scope N_scope.

(* ---- the model's transaction as Core's -------------------------------------------------------- *)
Definition to_core_in (i : txin) : CTxIn :=
  mkCTxIn (mkOutPoint (ti_hash i) (ti_index i)) (ti_script i) (ti_seq i).
Definition to_core_out (o : txout) : CTxOut := mkCTxOut (to_value o) (to_script o).
Definition to_core (t : tx) : CTransaction :=
  mkCTx (tx_version t) (map to_core_in (tx_ins t)) (map to_core_out (tx_outs t)) (tx_lock t).

