(* Model/MsgUtf8.v — str.encode("utf8"): what MessageSigner.hash_for_signing applies to the magic and to the message
   before hashing.  A Python str is a list of code points; lone surrogates and values above U+10FFFF have no encoding
   (UnicodeEncodeError / not a str).  No normalisation, no case folding: the bytes are a function of the code points only.
   Transcription of the UTF-8 definition (RFC 3629), no proofs. *)
From PV Require Import Base.Bytes Base.Outcome.
Local Open Scope N_scope.

Definition utf8_char (c : N) : option bytes :=
  if c <? 128 then Some [n2b c]
  else if c <? 2048 then Some [n2b (192 + c / 64); n2b (128 + c mod 64)]
  else if c <? 65536 then
    if (55296 <=? c) && (c <? 57344) then None
    else Some [n2b (224 + c / 4096); n2b (128 + (c / 64) mod 64); n2b (128 + c mod 64)]
  else if c <? 1114112 then
    Some [n2b (240 + c / 262144); n2b (128 + (c / 4096) mod 64); n2b (128 + (c / 64) mod 64); n2b (128 + c mod 64)]
  else None.

Fixpoint utf8_encode (s : list N) : option bytes :=
  match s with
  | [] => Some []
  | c :: r =>
    match utf8_char c, utf8_encode r with
    | Some a, Some b => Some (a ++ b)
    | _, _ => None
    end
  end.
