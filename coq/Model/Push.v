(* Model/Push.v — pycoin/vm/ScriptStreamer.py (ScriptStreamer.get_opcode, compile_push_data and the
   three handler factories) instantiated with the tables of coins/bitcoin/ScriptStreamer.py, which
   are REGENERATED from /repo into Gen/GenOpcodes.v.  No proofs here. *)
From PV Require Import Base.Bytes Base.Outcome Gen.GenOpcodes.
Local Open Scope N_scope.

Section WithTables.
(* tables are parameters so the proofs can be stated once and instantiated with the generated ones *)
Variable const_tab : list (bytes * N).
Variable sized_tab : list (N * N).
Variable var_tab : list (N * N * nat * N).

Fixpoint const_by_data (t : list (bytes * N)) (d : bytes) : option N :=
  match t with
  | [] => None
  | (d', o) :: r => if bytes_eqb d d' then Some o else const_by_data r d
  end.
Fixpoint const_by_opcode (t : list (bytes * N)) (o : N) : option bytes :=
  match t with
  | [] => None
  | (d, o') :: r => if o =? o' then Some d else const_by_opcode r o
  end.
Fixpoint sized_by_size (t : list (N * N)) (s : N) : option N :=
  match t with
  | [] => None
  | (s', o) :: r => if s =? s' then Some o else sized_by_size r s
  end.
Fixpoint sized_by_opcode (t : list (N * N)) (o : N) : option N :=
  match t with
  | [] => None
  | (s, o') :: r => if o =? o' then Some s else sized_by_opcode r o
  end.
Fixpoint var_by_opcode (t : list (N * N * nat * N)) (o : N) : option (nat * N) :=
  match t with
  | [] => None
  | (_, o', w, ms) :: r => if o =? o' then Some (w, ms) else var_by_opcode r o
  end.
Definition is_const_value (d : bytes) : bool :=
  match const_by_data const_tab d with Some _ => true | None => false end.
Definition is_sized_value (s : N) : bool :=
  match sized_by_size sized_tab s with Some _ => true | None => false end.

(* the `for max_size, opcode, enc_f in self.variable_encoder: if size <= max_size: break` loop:
   returns the entry at which the loop stopped (the last one if it never broke) *)
Fixpoint var_pick (t : list (N * N * nat * N)) (size : N) (cur : option (N * N * nat)) : option (N * N * nat) :=
  match t with
  | [] => cur
  | (m, o, w, _) :: r => if size <=? m then Some (m, o, w) else var_pick r size (Some (m, o, w))
  end.

Definition compile_push_data (data : bytes) : outcome bytes :=
  match const_by_data const_tab data with
  | Some o => Ret [n2b o]
  | None =>
    let size := N.of_nat (length data) in
    match sized_by_size sized_tab size with
    | Some o => Ret (n2b o :: data)
    | None =>
      match var_pick var_tab size None with
      | None => Raise E_TYPE                      (* bytes([None]) *)
      | Some (_, o, w) =>
        if size <? 256 ^ N.of_nat w then Ret (n2b o :: le_encode w size ++ data)
        else Raise E_STRUCT                       (* struct.pack range error *)
      end
    end
  end.

(* result of get_opcode: (opcode, data or None, new pc, is_ok) *)
Definition get_opcode (script : bytes) (pc : nat) (verify_minimal_data : bool)
  : outcome (N * option bytes * nat * bool) :=
  match nth_error script pc with
  | None => Raise E_INDEX
  | Some ob =>
    let opcode := b2n ob in
    match const_by_opcode const_tab opcode with
    | Some d => Ret (opcode, Some d, (pc + 1)%nat, true)
    | None =>
      match sized_by_opcode sized_tab opcode with
      | Some size =>
        let sz := N.to_nat size in
        let pc1 := (pc + 1)%nat in
        let data := slice pc1 (pc1 + sz) script in
        if (length data <? sz)%nat then Ret (opcode, None, (pc1 + 1)%nat, false)
        else if verify_minimal_data && is_const_value data then Raise E_SCRIPT
        else Ret (opcode, Some data, (pc1 + sz)%nat, true)
      | None =>
        match var_by_opcode var_tab opcode with
        | Some (w, min_size) =>
          let pc1 := (pc + 1)%nat in
          let lenb := slice pc1 (pc1 + w) script in
          (* struct.unpack raises on a short slice: dec_f returns (None, pc) and the handler reports
             a malformed instruction *)
          if (length lenb <? w)%nat then Ret (opcode, None, (pc1 + 1)%nat, false)
          else
          let size := le_decode lenb in
          let pc2 := (pc1 + w)%nat in
          (* `data = script[pc:pc+size]; if len(data) < size`: decided on N first so that a 4-byte length
             field never becomes a unary nat *)
          if N.of_nat (length script - pc2) <? size then Ret (opcode, None, (pc2 + 1)%nat, false) else
          let sz := N.to_nat size in
          let data := slice pc2 (pc2 + sz) script in
          if (length data <? sz)%nat then Ret (opcode, None, (pc2 + 1)%nat, false)
          else if verify_minimal_data && (is_sized_value size || (size <=? min_size)) then Raise E_SCRIPT
          else Ret (opcode, Some data, (pc2 + sz)%nat, true)
        | None => Ret (opcode, None, (pc + 1)%nat, true)
        end
      end
    end
  end.
End WithTables.

(* instantiation with the generated tables *)
Definition btc_compile_push_data := compile_push_data const_table sized_table variable_table.
Definition btc_get_opcode := get_opcode const_table sized_table variable_table.
