(* Model/TxBuild.v — pycoin/coins/tx_utils.py (split_with_remainder, distribute_from_split_pool, create_tx),
   pycoin/convention/tx_fee.py (recommended_fee_for_tx), pycoin/coins/bitcoin/Spendable.py (tx_in),
   pycoin/coins/bitcoin/TxIn.py (is_coinbase), pycoin/coins/Tx.py (set_unspents) and
   pycoin/coins/bitcoin/Tx.py (is_coinbase, missing_unspent(s), check_unspents, total_in, total_out, fee,
   validate_unspents), function by function.  No proofs here.

   Python `int` = Z (unbounded, may be negative: nothing in this code checks a sign).
   `sum(...)` of ints = zsum (a left fold from 0 in Python, a right fold here: equal on Z).
   Fields of the Python objects that none of the modelled functions reads (Spendable.block_index_available,
   does_seem_spent, block_index_spent; TxIn.witness) are not represented.
   Exception classes: ValueError = E_VALUE, KeyError = E_KEY, IndexError = E_INDEX, AttributeError = E_ATTR,
   BadSpendableError = E_BADSPEND, ZeroDivisionError = E_OTHER (only in split_with_remainder). *)
From PV Require Import Base.Bytes Base.Outcome Gen.GenTxBuild.
Local Open Scope Z_scope.
Local Open Scope outcome_scope.

Record txout := mk_txout { o_value : Z; o_script : bytes }.
Record txin := mk_txin { i_hash : bytes; i_index : Z; i_script : bytes; i_sequence : Z }.
Record spendable := mk_spendable { s_value : Z; s_script : bytes; s_hash : bytes; s_index : Z }.
(* Tx with its optional `unspents` attribute: a list of TxOut-or-None *)
Record tx := mk_tx { t_version : Z; t_ins : list txin; t_outs : list txout; t_lock_time : Z;
                     t_unspents : list (option txout) }.

Definition zsum (l : list Z) : Z := fold_right Z.add 0 l.

(* ---- tx_utils.split_with_remainder (the generator, drained into a list) ------------------
   value_each, extra_count = divmod(total_amount, split_count)      -- ZeroDivisionError for 0
   extra_count times value_each+1, then split_count-extra_count times value_each.
   Python's divmod is floor division with the remainder taking the sign of the divisor, which is
   Coq's Z.div / Z.modulo; range(n) for n <= 0 is empty, which is Z.to_nat. *)
Definition split_with_remainder (total_amount split_count : Z) : outcome (list Z) :=
  if split_count =? 0 then Raise E_OTHER
  else
    let value_each := total_amount / split_count in
    let extra_count := total_amount mod split_count in
    Ret (repeat (value_each + 1) (Z.to_nat extra_count)
         ++ repeat value_each (Z.to_nat (split_count - extra_count))).

(* ---- convention/tx_fee.recommended_fee_for_tx on the byte count of tx.stream ------------- *)
Definition recommended_fee (tx_byte_count : Z) : Z :=
  gen_tx_fee_per_thousand_bytes * ((999 + tx_byte_count) / 1000).

(* ---- Tx.total_out ------------------------------------------------------------------------ *)
Definition total_out (t : tx) : Z := zsum (map o_value (t_outs t)).

(* sum(spendable.coin_value for spendable in tx.unspents): a None entry has no coin_value *)
Fixpoint sum_unspents (us : list (option txout)) : outcome Z :=
  match us with
  | [] => Ret 0
  | None :: _ => Raise E_ATTR
  | Some u :: r => do s <- sum_unspents r; Ret (o_value u + s)
  end.

(* ---- tx_utils.distribute_from_split_pool ------------------------------------------------- *)
Inductive feearg := FeeInt (fee : Z) | FeeStandard.

Definition is_zero_out (o : txout) : bool := o_value o =? 0.
Definition zero_count_of (outs : list txout) : Z := Z.of_nat (length (filter is_zero_out outs)).

(* for value, tx_out in zip(split_with_remainder(..), zero_txs_out): tx_out.coin_value = value
   (zero_txs_out = the zero-valued outputs in order; the objects are shared with tx.txs_out) *)
Fixpoint fill_zero (outs : list txout) (vals : list Z) : list txout :=
  match outs with
  | [] => []
  | o :: r =>
    if is_zero_out o then
      match vals with
      | v :: vs => mk_txout v (o_script o) :: fill_zero r vs
      | [] => o :: fill_zero r []
      end
    else o :: fill_zero r vals
  end.

Definition set_outs (t : tx) (outs : list txout) : tx :=
  mk_tx (t_version t) (t_ins t) outs (t_lock_time t) (t_unspents t).

Section ByteCount.
(* len(tx.stream(...)) — only read for fee="standard"; the wire format is C07's subject *)
Variable tx_byte_count : tx -> Z.

Definition fee_value (t : tx) (fee : feearg) : Z :=
  match fee with FeeInt z => z | FeeStandard => recommended_fee (tx_byte_count t) end.

(* returns the modified tx and zero_count *)
Definition distribute_from_split_pool (t : tx) (fee : feearg) : outcome (tx * Z) :=
  let fee := fee_value t fee in
  let zero_count := zero_count_of (t_outs t) in
  if 0 <? zero_count then
    do total_coin_value <- sum_unspents (t_unspents t);
    let coins_allocated := total_out t + fee in
    let remaining_coins := total_coin_value - coins_allocated in
    if remaining_coins <? 0 then Raise E_VALUE
    else if remaining_coins <? zero_count then Raise E_VALUE
    else
      do vals <- split_with_remainder remaining_coins zero_count;
      Ret (set_outs t (fill_zero (t_outs t) vals), zero_count)
  else Ret (t, zero_count).

(* ---- Spendable.tx_in (default script and sequence) ---------------------------------------- *)
Definition spendable_tx_in (s : spendable) : txin :=
  mk_txin (s_hash s) (s_index s) gen_txin_default_script gen_txin_default_sequence.
Definition spendable_as_txout (s : spendable) : txout := mk_txout (s_value s) (s_script s).

(* a payable is an address or an (address, coin_value) pair; the script is
   network.contract.for_address(address), resolved by the caller of the model *)
Inductive payable := PayAddr (script : bytes) | PayPair (script : bytes) (coin_value : Z).
Definition payable_txout (p : payable) : txout :=
  match p with PayAddr sc => mk_txout 0 sc | PayPair sc v => mk_txout v sc end.

(* coins/Tx.py set_unspents *)
Definition set_unspents (t : tx) (us : list (option txout)) : outcome tx :=
  if negb (Nat.eqb (length us) (length (t_ins t))) then Raise E_VALUE
  else Ret (mk_tx (t_version t) (t_ins t) (t_outs t) (t_lock_time t) us).

(* ---- tx_utils.create_tx (spendables already Spendable objects) ------------------------------ *)
Definition create_tx (spendables : list spendable) (payables : list payable) (fee : feearg)
    (lock_time version : Z) : outcome tx :=
  let txs_in := map spendable_tx_in spendables in
  let txs_out := map payable_txout payables in
  let t := mk_tx version txs_in txs_out lock_time [] in
  do t <- set_unspents t (map (fun s => Some (spendable_as_txout s)) spendables);
  do r <- distribute_from_split_pool t fee;
  Ret (fst r).
End ByteCount.

(* ---- TxIn.is_coinbase, Tx.is_coinbase ------------------------------------------------------ *)
Definition txin_is_coinbase (i : txin) : bool :=
  bytes_eqb (i_hash i) gen_txin_zero && (i_index i =? gen_coinbase_index).
Definition tx_is_coinbase (t : tx) : bool :=
  match t_ins t with [i] => txin_is_coinbase i | _ => false end.

(* ---- Tx.missing_unspent / missing_unspents / check_unspents (called on a non-coinbase tx) -- *)
Definition missing_unspent (t : tx) (idx : nat) : bool :=
  if tx_is_coinbase t then true
  else match nth_error (t_unspents t) idx with
       | None => true              (* len(self.unspents) <= idx *)
       | Some None => true         (* self.unspents[idx] is None *)
       | Some (Some _) => false
       end.
Definition missing_unspents (t : tx) : bool :=
  if tx_is_coinbase t then false
  else negb (Nat.eqb (length (t_unspents t)) (length (t_ins t)))
       || existsb (missing_unspent t) (seq 0 (length (t_ins t))).
Definition check_unspents (t : tx) : outcome unit :=
  if missing_unspents t then Raise E_VALUE else Ret tt.

(* ---- Tx.total_in, Tx.fee ------------------------------------------------------------------- *)
Definition total_in (t : tx) : outcome Z :=
  if tx_is_coinbase t then
    match t_outs t with o :: _ => Ret (o_value o) | [] => Raise E_INDEX end
  else
    do _ <- check_unspents t;
    sum_unspents (t_unspents t).
Definition fee (t : tx) : outcome Z :=
  do ti <- total_in t; Ret (ti - total_out t).

(* ---- Python list indexing with an int (negative indices count from the end) --------------- *)
Definition py_index {A} (l : list A) (i : Z) : outcome A :=
  let n := Z.of_nat (length l) in
  let j := if i <? 0 then i + n else i in
  if (j <? 0) || (n <=? j) then Raise E_INDEX
  else match nth_error l (Z.to_nat j) with Some a => Ret a | None => Raise E_INDEX end.

(* ---- Tx.validate_unspents over an abstract transaction database --------------------------- *)
Section DB.
Variable srctx : Type.                       (* what tx_db.get returns *)
Variable src_hash : srctx -> bytes.          (* the_tx.hash() *)
Variable src_outs : srctx -> list txout.     (* the_tx.txs_out *)
Variable db : bytes -> option srctx.         (* tx_db.get(h); assumed to be a pure lookup *)

(* "build a local copy of the DB": for h in set(previous hashes), h != ZERO32.  The set is walked in an
   unspecified order, but every failure in this loop is a KeyError and the loop has no other effect
   than filling tx_lookup[h] = tx_db.get(h), so walking the inputs in order gives the same outcome. *)
Fixpoint load_lookup (ins : list txin) : outcome unit :=
  match ins with
  | [] => Ret tt
  | i :: r =>
    if bytes_eqb (i_hash i) gen_zero32 then load_lookup r
    else match db (i_hash i) with
         | None => Raise E_KEY
         | Some the_tx =>
           if negb (bytes_eqb (src_hash the_tx) (i_hash i)) then Raise E_KEY else load_lookup r
         end
  end.

(* tx_lookup[h] after load_lookup succeeded *)
Definition tx_lookup (h : bytes) : outcome srctx :=
  if bytes_eqb h gen_zero32 then Raise E_KEY
  else match db h with Some t => Ret t | None => Raise E_KEY end.

Fixpoint check_inputs (unspents : list (option txout)) (ins : list txin) (idx : nat) : outcome unit :=
  match ins with
  | [] => Ret tt
  | tx_in :: r =>
    if txin_is_coinbase tx_in then check_inputs unspents r (S idx)
    else
      do the_tx <- tx_lookup (i_hash tx_in);
      let txs_out := src_outs the_tx in
      if i_index tx_in >? Z.of_nat (length txs_out) then Raise E_BADSPEND
      else
        do tx_out1 <- py_index txs_out (i_index tx_in);
        do tx_out2_opt <- match nth_error unspents idx with Some u => Ret u | None => Raise E_INDEX end;
        match tx_out2_opt with
        | None => Raise E_ATTR
        | Some tx_out2 =>
          if negb (o_value tx_out1 =? o_value tx_out2) then Raise E_BADSPEND
          else if negb (bytes_eqb (o_script tx_out1) (o_script tx_out2)) then Raise E_BADSPEND
          else check_inputs unspents r (S idx)
        end
  end.

Definition validate_unspents (t : tx) : outcome Z :=
  do _ <- load_lookup (t_ins t);
  do _ <- check_inputs (t_unspents t) (t_ins t) 0;
  fee t.
End DB.

(* ==================================================================================================
   The transaction as a mutable Python object.  The functions above return the new value of the
   transaction; the versions below also say what the object looks like after a call that RAISED
   (state-passing: result * state afterwards), and `step`/`run` execute a history of observer calls
   and mutations by every route (official setter, unspents_from_db, direct attribute assignment,
   in-place edits, append/clear, distribute_from_split_pool) on one object.
   As the code is in /repo today a Tx has no state besides the fields of `tx` (no memo attributes).
   ================================================================================================== *)

(* result of a call as outcome Z: None -> 0, bool -> 0/1 *)
Definition b2o (b : bool) : outcome Z := Ret (if b then 1 else 0).

Section ByteCountSt.
Variable tx_byte_count : tx -> Z.

(* distribute_from_split_pool with the object state made explicit: both ValueErrors (and the AttributeError
   of a None unspent) are raised before the assignment loop starts; the loop itself cannot raise *)
Definition distribute_from_split_pool_st (t : tx) (fe : feearg) : outcome Z * tx :=
  let fee := fee_value tx_byte_count t fe in
  let zero_count := zero_count_of (t_outs t) in
  if 0 <? zero_count then
    match sum_unspents (t_unspents t) with
    | Ret total_coin_value =>
      let remaining_coins := total_coin_value - (total_out t + fee) in
      if remaining_coins <? 0 then (Raise E_VALUE, t)
      else if remaining_coins <? zero_count then (Raise E_VALUE, t)
      else match split_with_remainder remaining_coins zero_count with
           | Ret vals => (Ret zero_count, set_outs t (fill_zero (t_outs t) vals))   (* the in-place loop *)
           | Raise e => (Raise e, t)      (* the generator raises on its first next(), before any assignment *)
           | OutOfFuel => (OutOfFuel, t)
           end
    | Raise e => (Raise e, t)
    | OutOfFuel => (OutOfFuel, t)
    end
  else (Ret zero_count, t).
End ByteCountSt.

Definition with_unspents (t : tx) (us : list (option txout)) : tx :=
  mk_tx (t_version t) (t_ins t) (t_outs t) (t_lock_time t) us.
Definition with_ins (t : tx) (ins : list txin) : tx :=
  mk_tx (t_version t) ins (t_outs t) (t_lock_time t) (t_unspents t).

(* coins/Tx.py set_unspents: the length test precedes the assignment *)
Definition set_unspents_st (t : tx) (us : list (option txout)) : outcome Z * tx :=
  if negb (Nat.eqb (length us) (length (t_ins t))) then (Raise E_VALUE, t)
  else (Ret 0, with_unspents t us).

Fixpoint replace_nth {A} (i : nat) (a : A) (l : list A) : list A :=
  match l, i with
  | [], _ => []
  | _ :: r, O => a :: r
  | x :: r, S j => x :: replace_nth j a r
  end.

(* tx.unspents[i].coin_value = v   (i >= 0) *)
Definition edit_unspent_st (t : tx) (i : nat) (v : Z) : outcome Z * tx :=
  match nth_error (t_unspents t) i with
  | None => (Raise E_INDEX, t)
  | Some None => (Raise E_ATTR, t)
  | Some (Some u) => (Ret 0, with_unspents t (replace_nth i (Some (mk_txout v (o_script u))) (t_unspents t)))
  end.
(* tx.txs_out[i].coin_value = v   (i >= 0) *)
Definition edit_out_st (t : tx) (i : nat) (v : Z) : outcome Z * tx :=
  match nth_error (t_outs t) i with
  | None => (Raise E_INDEX, t)
  | Some o => (Ret 0, set_outs t (replace_nth i (mk_txout v (o_script o)) (t_outs t)))
  end.

Section History.
Variable tx_byte_count : tx -> Z.
Variable srctx : Type.
Variable src_hash : srctx -> bytes.
Variable src_outs : srctx -> list txout.
Variable dbs : nat -> bytes -> option srctx.      (* several databases may be used in one history *)

(* coins/bitcoin/Tx.py unspents_from_db: the new list is built first, self.unspents is assigned last *)
Fixpoint unspents_from_db_list (db : bytes -> option srctx) (ignore_missing : bool) (ins : list txin)
    : outcome (list (option txout)) :=
  match ins with
  | [] => Ret []
  | tx_in :: r =>
    if txin_is_coinbase tx_in then
      do us <- unspents_from_db_list db ignore_missing r; Ret (None :: us)
    else
      let missing := if ignore_missing
                     then (do us <- unspents_from_db_list db ignore_missing r; Ret (None :: us))
                     else Raise E_KEY in
      match db (i_hash tx_in) with
      | Some the_tx =>          (* a Tx object is truthy *)
        if bytes_eqb (src_hash the_tx) (i_hash tx_in) then
          do o <- py_index (src_outs the_tx) (i_index tx_in);
          do us <- unspents_from_db_list db ignore_missing r; Ret (Some o :: us)
        else missing
      | None => missing
      end
  end.

Definition unspents_from_db_st (db : bytes -> option srctx) (ignore_missing : bool) (t : tx) : outcome Z * tx :=
  match unspents_from_db_list db ignore_missing (t_ins t) with
  | Ret us => (Ret 0, with_unspents t us)
  | Raise e => (Raise e, t)
  | OutOfFuel => (OutOfFuel, t)
  end.

Inductive op :=
| ObsTotalIn | ObsTotalOut | ObsFee | ObsIsCoinbase | ObsValidate (k : nat)
| MutSetUnspents (us : list (option txout))
| MutUnspentsFromDb (k : nat) (ignore_missing : bool)
| MutAssignUnspents (us : list (option txout))
| MutEditUnspent (i : nat) (v : Z)
| MutAppendUnspent (u : option txout)
| MutClearUnspents
| MutAssignOuts (outs : list txout)
| MutEditOut (i : nat) (v : Z)
| MutAppendOut (o : txout)
| MutAssignIns (ins : list txin)
| MutDistribute (fe : feearg).

Definition is_observer (o : op) : bool :=
  match o with ObsTotalIn | ObsTotalOut | ObsFee | ObsIsCoinbase | ObsValidate _ => true | _ => false end.

(* one call on the object: what the caller sees, and the object afterwards *)
Definition step (o : op) (t : tx) : outcome Z * tx :=
  match o with
  | ObsTotalIn => (total_in t, t)
  | ObsTotalOut => (Ret (total_out t), t)
  | ObsFee => (fee t, t)
  | ObsIsCoinbase => (b2o (tx_is_coinbase t), t)
  | ObsValidate k => (validate_unspents srctx src_hash src_outs (dbs k) t, t)
  | MutSetUnspents us => set_unspents_st t us
  | MutUnspentsFromDb k im => unspents_from_db_st (dbs k) im t
  | MutAssignUnspents us => (Ret 0, with_unspents t us)
  | MutEditUnspent i v => edit_unspent_st t i v
  | MutAppendUnspent u => (Ret 0, with_unspents t (t_unspents t ++ [u]))
  | MutClearUnspents => (Ret 0, with_unspents t [])
  | MutAssignOuts outs => (Ret 0, set_outs t outs)
  | MutEditOut i v => edit_out_st t i v
  | MutAppendOut o => (Ret 0, set_outs t (t_outs t ++ [o]))
  | MutAssignIns ins => (Ret 0, with_ins t ins)
  | MutDistribute fe => distribute_from_split_pool_st tx_byte_count t fe
  end.

Fixpoint run (h : list op) (t : tx) : list (outcome Z) * tx :=
  match h with
  | [] => ([], t)
  | o :: r => let '(res, t1) := step o t in let '(rs, t2) := run r t1 in (res :: rs, t2)
  end.
End History.
