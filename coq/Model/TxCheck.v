(* Model/TxCheck.v — transcription of the context-free checks of pycoin/coins/bitcoin/Tx.py:
     Tx.check, _check_tx_inout_count, _check_txs_out, _check_txs_in, _check_size_limit, is_coinbase,
     bad_solution_count (with pycoin/coins/Tx.py:bad_solution_count), TxIn.is_coinbase (in Model/TxWire.v).
   MAX_MONEY and MAX_TX_SIZE are class attributes (Groestlcoin overrides MAX_MONEY): parameters here,
   instantiated from the generated coin_table.  The constants of is_coinbase and the coinbase script bounds are
   the generated ones (Gen/GenTxConsts.v).  ValidationFailureError = E_VALIDATION.

   Object identity.  `_check_txs_in` starts with `[x for x in self.txs_in if self.txs_in.count(x) > 1]`;
   TxIn defines no __eq__, so list.count compares by identity: the test fires iff the SAME OBJECT occurs
   twice in txs_in.  A record value has no identity, so the model takes, next to the transaction, the list
   `ids` of identity tags of the elements of txs_in (equal tag = same object).  No proofs here. *)
From PV Require Import Base.Bytes Base.Outcome Base.Varint Gen.GenTxConsts Model.TxWire.
Local Open Scope outcome_scope.
Local Open Scope Z_scope.

Section Check.
Variable max_money : Z.
Variable max_tx_size : Z.

Definition check_tx_inout_count (t : tx) : outcome unit :=
  match tx_outs t with
  | [] => Raise E_VALIDATION                                  (* "txs_out = []" *)
  | _ :: _ =>
    if negb (tx_is_coinbase t) && (match tx_ins t with [] => true | _ => false end)
    then Raise E_VALIDATION                                   (* "txs_in = []" *)
    else Ret tt
  end.

Fixpoint check_txs_out_loop (outs : list txout) (nValueOut : Z) : outcome unit :=
  match outs with
  | [] => Ret tt
  | o :: r =>
    if (to_value o <? 0) || (to_value o >? max_money) then Raise E_VALIDATION
    else let n := nValueOut + to_value o in
         if n >? max_money then Raise E_VALIDATION else check_txs_out_loop r n
  end.
Definition check_txs_out (t : tx) : outcome unit := check_txs_out_loop (tx_outs t) 0.

(* self.txs_in.count(x) by identity *)
Definition count_same (x : N) (ids : list N) : nat := length (filter (N.eqb x) ids).
Definition dup_by_identity (ids : list N) : bool := existsb (fun x => (1 <? count_same x ids)%nat) ids.

Definition pair_eqb (a b : bytes * Z) : bool := bytes_eqb (fst a) (fst b) && (snd a =? snd b).

(* the loop over a non-coinbase transaction's inputs; refs is the set built so far *)
Fixpoint check_refs_loop (ins : list txin) (refs : list (bytes * Z)) : outcome unit :=
  match ins with
  | [] => Ret tt
  | i :: r =>
    if txin_is_coinbase i then Raise E_VALIDATION             (* "prevout is null" *)
    else let pair := (ti_hash i, ti_index i) in
         if existsb (pair_eqb pair) refs then Raise E_VALIDATION    (* "spendable reused" *)
         else check_refs_loop r (pair :: refs)
  end.

Definition check_txs_in (ids : list N) (t : tx) : outcome unit :=
  if dup_by_identity ids then Raise E_VALIDATION              (* "duplicate inputs" *)
  else if tx_is_coinbase t then
    match tx_ins t with
    | i :: _ =>
      let n := Z.of_nat (length (ti_script i)) in
      if (coinbase_script_min <=? n) && (n <=? coinbase_script_max) then Ret tt
      else Raise E_VALIDATION                                 (* "bad coinbase script size" *)
    | [] => Raise E_INDEX
    end
  else check_refs_loop (tx_ins t) [].

(* len(self.as_bin()): the TOTAL serialisation; struct.error escapes when a field is out of range *)
Definition check_size_limit (t : tx) : outcome unit :=
  do b <- tx_as_bin false false true t [];
  if Z.of_nat (length b) >? max_tx_size then Raise E_VALIDATION else Ret tt.

Definition check (ids : list N) (t : tx) : outcome unit :=
  do _ <- check_tx_inout_count t;
  do _ <- check_txs_out t;
  do _ <- check_txs_in ids t;
  check_size_limit t.

(* bad_solution_count: solution_ok idx stands for self.is_solution_ok(idx, ...) (script validation, not
   modelled here) *)
Variable solution_ok : nat -> bool.
Definition bad_solution_count (t : tx) : nat :=
  if tx_is_coinbase t then 0%nat
  else length (filter (fun idx => negb (solution_ok idx)) (seq 0 (length (tx_ins t)))).
End Check.

(* per-coin instances from the generated table *)
Definition coin_limits (name : bytes) : option (Z * Z) :=
  match find (fun '(n, _, _, _) => bytes_eqb n name) coin_table with
  | Some (_, mm, ms, _) => Some (mm, ms)
  | None => None
  end.
Definition check_coin (name : bytes) (ids : list N) (t : tx) : outcome unit :=
  match coin_limits name with
  | Some (mm, ms) => check mm ms ids t
  | None => Raise E_KEY
  end.
