(* Model/ScriptNum.v — pycoin/satoshi/IntStreamer.py, function by function.  No proofs here. *)
From PV Require Import Base.Bytes Base.Outcome.
Local Open Scope N_scope.

(* the `while v >= 256: ba.append(v & 0xFF); v >>= 8` loop followed by `ba.append(v & 0xFF)`;
   fuel counts loop iterations; None = out of fuel *)
Fixpoint le_min_f (fuel : nat) (v : N) : option bytes :=
  match fuel with
  | O => None
  | S f =>
    if v <? 256 then Some [n2b (N.land v 255)]
    else match le_min_f f (N.shiftr v 8) with
         | Some r => Some (n2b (N.land v 255) :: r)
         | None => None
         end
  end.

Definition set_last_or (bs : bytes) (m : N) : bytes :=
  match rev bs with
  | [] => []
  | l :: r => rev (n2b (N.lor (b2n l) m) :: r)
  end.

Definition last_n (bs : bytes) : N :=
  match rev bs with [] => 0 | l :: _ => b2n l end.

Definition int_to_script_bytes (v : Z) : outcome bytes :=
  if (v =? 0)%Z then Ret []
  else
    let is_negative := (v <? 0)%Z in
    let mag := Z.to_N (Z.abs v) in
    match le_min_f (S (N.to_nat (N.size mag))) mag with
    | None => OutOfFuel
    | Some ba =>
      if 128 <=? last_n ba then Ret (ba ++ [if is_negative then x80 else x00])
      else if is_negative then Ret (set_last_or ba 128)
      else Ret ba
    end.

(* `for b in ba[1:]: v <<= 8; v += b` over the reversed string *)
Fixpoint be_accum (v : N) (bs : bytes) : N :=
  match bs with
  | [] => v
  | b :: r => be_accum (N.shiftl v 8 + b2n b) r
  end.

Definition int_from_script_bytes (s : bytes) (require_minimal : bool) : outcome Z :=
  match rev s with
  | [] => Ret 0%Z
  | i :: rest =>
    let v := N.land (b2n i) 127 in
    let bad :=
      require_minimal && (v =? 0) &&
      match rest with
      | [] => true                               (* len(ba) <= 1 *)
      | b1 :: _ => N.land (b2n b1) 128 =? 0
      end in
    if bad then Raise E_SCRIPT
    else
      let is_negative := 0 <? N.land (b2n i) 128 in
      let mag := be_accum v rest in
      Ret (if is_negative then (- Z.of_N mag)%Z else Z.of_N mag)
  end.
