(* Model/Wif.v — the WIF path at PAYLOAD level: key/Key.py (Key.wif), networks/bitcoinish.py
   (wif_for_blob) and networks/ParseAPI.py (ParseAPI.wif).  No proofs here.
   The Base58Check layer (b2a_hashed_base58 / parse_b58_double_sha256, property C11) is a pair of
   Section variables; everything between "secret exponent + compression flag" and "payload bytes"
   is modelled here.  Key construction inside ParseAPI.wif is Model/Sec.v key_private (range test). *)
From PV Require Import Base.Bytes Base.Outcome Model.Sec.
Local Open Scope Z_scope.
Local Open Scope outcome_scope.

(* Key.wif: blob = to_bytes_32(secret_exponent) (+ b"\01" if compressed) *)
Definition wif_blob (se : Z) (compressed : bool) : outcome bytes :=
  do blob <- to_bytes_32 se;
  Ret (if compressed then blob ++ [x01] else blob).

(* _wif_prefix + blob: the argument of b2a_hashed_base58 in wif_for_blob *)
Definition wif_payload (prefix : bytes) (se : Z) (compressed : bool) : outcome bytes :=
  do blob <- wif_blob se compressed;
  Ret (prefix ++ blob).

(* data.startswith(prefix) *)
Fixpoint bytes_startswith (d pre : bytes) : bool :=
  match pre, d with
  | [], _ => true
  | c :: pre', e :: d' => byte_eqb e c && bytes_startswith d' pre'
  | _ :: _, [] => false
  end.

(* ParseAPI.wif after parse_b58_hashed: `data` is its result (None = not Base58Check),
   `prefix` is self._wif_prefix (None for a network without one), `order` is generator.order().
   Result: None, or the (secret exponent, is_compressed) the Key is built from. *)
Definition parse_wif_payload (prefix : option bytes) (order : Z) (data : option bytes) : option (Z * bool) :=
  match data, prefix with
  | Some d, Some pre =>
    if negb (bytes_startswith d pre) then None
    else
      let d1 := drop (length pre) d in
      let is_compressed := (32 <? length d1)%nat in
      let checked : option bytes :=
        if is_compressed then
          if negb (length d1 =? 33)%nat || negb (bytes_eqb (drop (length d1 - 1) d1) [x01]) then None
          else Some (take (length d1 - 1) d1)
        else if negb (length d1 =? 32)%nat then None
        else Some d1 in
      match checked with
      | None => None
      | Some d2 =>
        match key_private order (from_bytes_32 d2) with
        | Ret se => Some (se, is_compressed)
        | _ => None                                   (* except ValueError: return None *)
        end
      end
  | _, _ => None
  end.

Section B58Check.
Variable text : Type.
Variable b2a_hashed : bytes -> text.             (* pycoin.encoding.b58.b2a_hashed_base58 *)
Variable a2b_hashed : text -> option bytes.      (* networks.parseable_str.parse_b58_double_sha256 *)

Definition key_wif (prefix : bytes) (se : Z) (compressed : bool) : outcome text :=
  do pl <- wif_payload prefix se compressed; Ret (b2a_hashed pl).

Definition parse_wif (prefix : option bytes) (order : Z) (s : text) : option (Z * bool) :=
  parse_wif_payload prefix order (a2b_hashed s).
End B58Check.
