(* Model/SolveKeychain.v — property C05, key-supply HISTORIES: pycoin/key/Keychain.py as a state machine.
   No proofs here.

   One Keychain object lives across add_key_paths / add_keys_path, add_secret(s), add_p2s_script(s), get and
   clear_secrets calls, possibly spanning several Tx.sign passes and several transactions.  Its state:
     HASH160 table   hash160 -> (path, fingerprint)        `insert or ignore`: the FIRST row for a hash stays
     P2S table       script rows (hash160, hash256, script) `insert or ignore` on hash160
     _secrets        fingerprint -> set of private keys
     _secret_exponent_cache   hash160 -> (secret exponent, public pair, is_compressed, generator)
   Keys are opaque identifiers (kid); what Keychain uses of them is abstract:
     kfp kid            key.fingerprint()
     derive kid path    key.subkey_for_path(path).secret_exponent()   (path "" = the key itself; a plain Key
                        returns itself for every path; BIP32 derivation is property C09's)
   get(h160): a P2S row wins; otherwise, only when the hash is NOT in the cache, EVERY row filed for the hash is
   consulted in filing order (paths_for_hash160, `order by rowid`) and, for every private key filed under the row's
   fingerprint, the subkey is derived and BOTH its compressed and its uncompressed hash go into the cache
   (_add_key_to_cache); the answer is cache.get(h160).  Nothing is ever cached for a miss.  add_key_paths /
   add_keys_path file BOTH hashes of each subkey (compressed first; /repo bacec40); rows are keyed by
   (hash160, path, fingerprint) with `insert or ignore` on the triple, so every route to a key is kept (/repo 50fdc0a). *)
From PV Require Import Base.Bytes Base.Outcome Model.Solve.

Inductive kop : Type :=
| KAddPaths (kid : bytes) (paths : list bytes)   (* add_key_paths(key, paths) *)
| KAddKeysPath (kids : list bytes) (path : bytes) (* add_keys_path(keys, path) *)
| KAddSecret (kid : bytes)                       (* add_secret(key); add_secrets = several of these *)
| KAddP2s (script : bytes)                       (* add_p2s_script(script) *)
| KGet (h : bytes)                               (* get(h160) *)
| KClear.                                        (* clear_secrets() *)

Record kc : Type := mkKc {
  kc_paths : list (bytes * (bytes * bytes));     (* rows (hash160, (path, fingerprint)), in row order, no duplicates *)
  kc_p2s : list bytes;                           (* scripts, in row order *)
  kc_secrets : list bytes;                       (* the private keys added (kids), no duplicates *)
  kc_cache : lookup                              (* hash160 -> (secret, is_compressed); head = written last *)
}.
Definition kc_empty : kc := mkKc [] [] [] [].

(* what get() returns: a script (P2S row), a cache entry, or None *)
Inductive kres : Type := KScript (s : bytes) | KEntry (se : bytes) (c : bool) | KNone.

Section Keychain.
Variable hash160 : bytes -> bytes.
Variable sha256 : bytes -> bytes.
Variable pub_of : bytes -> bool -> bytes.
Variable kfp : bytes -> bytes.
Variable derive : bytes -> bytes -> bytes.

Definition key_hash (se : bytes) (c : bool) : bytes := hash160 (pub_of se c).

Definition row_eqb (a b : bytes * (bytes * bytes)) : bool :=
  bytes_eqb (fst a) (fst b) && bytes_eqb (fst (snd a)) (fst (snd b)) && bytes_eqb (snd (snd a)) (snd (snd b)).

(* insert or ignore into HASH160, primary key (hash160, path, fingerprint) *)
Definition paths_insert (t : list (bytes * (bytes * bytes))) (h path fp : bytes) :=
  if existsb (row_eqb (h, (path, fp))) t then t else t ++ [(h, (path, fp))].

(* paths_for_hash160: all rows of the hash, order by rowid *)
Definition rows_for (t : list (bytes * (bytes * bytes))) (h : bytes) :=
  filter (fun r => bytes_eqb h (fst r)) t.

(* _add_key_to_cache: for is_compressed in (True, False): cache[h160] = ... *)
Definition cache_add (c : lookup) (se : bytes) : lookup :=
  (key_hash se false, (se, false)) :: (key_hash se true, (se, true)) :: c.

(* for is_compressed in (True, False): insert or ignore (subkey.hash160(is_compressed), path, fingerprint) *)
Definition file_path (kid path : bytes) (t : list (bytes * (bytes * bytes))) :=
  let se := derive kid path in
  paths_insert (paths_insert t (key_hash se true) path (kfp kid)) (key_hash se false) path (kfp kid).

Definition p2s_get (scripts : list bytes) (h : bytes) : option bytes :=
  find (fun s => bytes_eqb (hash160 s) h || bytes_eqb (sha256 s) h) scripts.

(* the (private key, path) pairs get() derives for a hash: for every row of the hash, every key with the row's fingerprint *)
Definition to_derive (k : kc) (h : bytes) : list (bytes * bytes) :=
  flat_map (fun r => map (fun kid => (kid, fst (snd r)))
                         (filter (fun kid => bytes_eqb (kfp kid) (snd (snd r))) (kc_secrets k)))
           (rows_for (kc_paths k) h).

Definition derive_all (c : lookup) (l : list (bytes * bytes)) : lookup :=
  fold_left (fun c kp => cache_add c (derive (fst kp) (snd kp))) l c.

Definition kc_get (k : kc) (h : bytes) : kres * kc :=
  match p2s_get (kc_p2s k) h with
  | Some s => (KScript s, k)
  | None =>
    let cache' :=
      match lookup_get (kc_cache k) h with
      | Some _ => kc_cache k
      | None => derive_all (kc_cache k) (to_derive k h)
      end in
    (match lookup_get cache' h with Some (se, c) => KEntry se c | None => KNone end,
     mkKc (kc_paths k) (kc_p2s k) (kc_secrets k) cache')
  end.

Definition kc_step (k : kc) (o : kop) : kc * list kres :=
  match o with
  | KAddPaths kid paths =>
    (mkKc (fold_left (fun t p => file_path kid p t) paths (kc_paths k)) (kc_p2s k) (kc_secrets k) (kc_cache k), [])
  | KAddKeysPath kids path =>
    (mkKc (fold_left (fun t kid => file_path kid path t) kids (kc_paths k)) (kc_p2s k) (kc_secrets k) (kc_cache k), [])
  | KAddSecret kid =>
    (mkKc (kc_paths k) (kc_p2s k)
          (if existsb (bytes_eqb kid) (kc_secrets k) then kc_secrets k else kc_secrets k ++ [kid])
          (cache_add (kc_cache k) (derive kid [])), [])
  | KAddP2s s =>
    (mkKc (kc_paths k)
          (if existsb (fun s' => bytes_eqb (hash160 s') (hash160 s)) (kc_p2s k) then kc_p2s k else kc_p2s k ++ [s])
          (kc_secrets k) (kc_cache k), [])
  | KGet h => let '(r, k') := kc_get k h in (k', [r])
  | KClear => (mkKc (kc_paths k) (kc_p2s k) [] [], [])
  end.

(* a history: the final state and the answers of its get() calls, in order *)
Fixpoint kc_run (k : kc) (ops : list kop) : kc * list kres :=
  match ops with
  | [] => (k, [])
  | o :: r => let '(k1, a) := kc_step k o in let '(k2, b) := kc_run k1 r in (k2, a ++ b)
  end.

(* the reference: a keychain built afresh from the current contents (tables first, then the secrets), asked once *)
Definition kc_fresh_get (k : kc) (h : bytes) : kres :=
  let k0 := mkKc (kc_paths k) (kc_p2s k) (kc_secrets k)
                 (derive_all [] (map (fun kid => (kid, [])) (kc_secrets k))) in
  fst (kc_get k0 h).
End Keychain.
