(* Model/Curve.v — pycoin/ecdsa/Curve.py, Point.py, Generator.py (arithmetic part), encrypt.py,
   function by function.  No proofs here (see Proofs/Curve*.v, Props/C02.v).

   Conventions
   * Python `int` = Z.  `%`, `//`, `divmod` = Z.modulo, Z.div, Z.div_eucl (floor semantics, sign of the
     divisor: identical to Python for every sign combination, divisor <> 0).
   * A Python `Point` is a pair of ints or (None, None): `pt = option (Z * Z)`, None = point at infinity.
     Coordinates are NOT reduced on input (Point(x + p, y, curve) is accepted by Python and by the model).
   * `Point(x, y, curve)` raises NoSuchPointError when the pair is off the curve: `mk_point`.
   * Curve(p, a, b, order): `cn = 0` stands for "no order" (`order=None`; Python tests `if self._order:`
     so None and 0 behave alike in `multiply`).
   * Modelled domain: p <> 0 (p = 0 makes `% p` raise ZeroDivisionError in contains_point; the model does not
     follow that).  Everything else (negative e, e >= order, composite p, off-curve results, unreduced
     coordinates, order absent) is modelled, with the Python exception classes as `Raise`.
   * Loops: explicit fuel derived from Z.log2 of an argument; fuel sufficiency is proved in Proofs/CurveP.v
     (inv_fuel_enough, leftmost_bit_spec, ladder fuel inside multiply_correct). *)
From Coq Require Import ZArith List Bool.
From PV Require Import Base.Outcome.
Local Open Scope Z_scope.
Local Open Scope outcome_scope.

Record curve := { cp : Z; ca : Z; cb : Z; cn : Z }.
Definition pt := option (Z * Z).

(* ---- Curve.inverse_mod ------------------------------------------------------------------------
   c, d = a, m ; uc, vc, ud, vd = 1, 0, 0, 1
   while c != 0: q, c, d = divmod(d, c) + (c,) ; uc, vc, ud, vd = ud - q*uc, vd - q*vc, uc, vc
   (vc, vd never reach the result nor a test: they are dropped here; the proof re-introduces them
   existentially for the Bezout invariant.)  Returns (d, ud) at loop exit. *)
Fixpoint euclid (fuel : nat) (c d uc ud : Z) : option (Z * Z) :=
  match fuel with
  | O => None
  | S f =>
    if c =? 0 then Some (d, ud)
    else let (q, r) := Z.div_eucl d c in
         euclid f r c (ud - q * uc) uc
  end.

Definition inv_fuel (m : Z) : nat := Z.to_nat (2 * Z.log2 (Z.abs m) + 4).

Definition inverse_mod (a m : Z) : outcome Z :=
  if m =? 0 then Raise E_OTHER              (* a % 0: ZeroDivisionError (the guard is always true for m = 0) *)
  else
    let a := if (a <? 0) || (m <=? a) then a mod m else a in
    match euclid (inv_fuel m) a m 1 0 with
    | None => OutOfFuel
    | Some (d, ud) =>
      if d =? 1 then Ret (if 0 <? ud then ud else ud + m)
      else Raise E_ASSERT                    (* assert d == 1 *)
    end.

(* ---- Curve.contains_point / Point.__init__ ---------------------------------------------------- *)
Definition contains_point (c : curve) (P : pt) : bool :=
  match P with
  | None => true
  | Some (x, y) => (y * y - (x * x * x + ca c * x + cb c)) mod cp c =? 0
  end.

Definition mk_point (c : curve) (x y : Z) : outcome pt :=
  if contains_point c (Some (x, y)) then Ret (Some (x, y)) else Raise E_NOPOINT.

(* ---- Curve.add -------------------------------------------------------------------------------- *)
Definition add_finish (c : curve) (x0 y0 x1 slope : Z) : outcome pt :=
  let p := cp c in
  let x3 := (slope * slope - x0 - x1) mod p in
  let y3 := (slope * (x0 - x3) - y0) mod p in
  mk_point c x3 y3.

Definition add (c : curve) (P Q : pt) : outcome pt :=
  match P, Q with
  | None, _ => Ret Q
  | _, None => Ret P
  | Some (x0, y0), Some (x1, y1) =>
    let p := cp c in
    if (x0 - x1) mod p =? 0 then
      if (y0 + y1) mod p =? 0 then Ret None
      else do i <- inverse_mod (2 * y0) p;
           add_finish c x0 y0 x1 (((3 * x0 * x0 + ca c) * i) mod p)
    else do i <- inverse_mod (x1 - x0) p;
         add_finish c x0 y0 x1 (((y1 - y0) * i) mod p)
  end.

(* ---- Point.__neg__ : infinity -> itself; else Point(x, p - y, curve) --------------------------- *)
Definition neg (c : curve) (P : pt) : outcome pt :=
  match P with
  | None => Ret None
  | Some (x, y) => mk_point c x (cp c - y)
  end.

(* Point.__sub__ : self._curve.add(self, -other) *)
Definition sub (c : curve) (P Q : pt) : outcome pt :=
  do nQ <- neg c Q; add c P nQ.

(* ---- _leftmost_bit ---------------------------------------------------------------------------- *)
Fixpoint lmb_loop (fuel : nat) (result x : Z) : option Z :=
  match fuel with
  | O => None
  | S f => if result <=? x then lmb_loop f (Z.shiftl result 1) x else Some result
  end.

Definition leftmost_bit (x : Z) : outcome Z :=
  if x <=? 0 then Raise E_ASSERT
  else match lmb_loop (Z.to_nat (Z.log2 x) + 2) 1 x with
       | None => OutOfFuel
       | Some r => Ret (Z.shiftr r 1)
       end.

(* ---- Curve.multiply ---------------------------------------------------------------------------
   (the operand is reduced mod p after the infinity / e == 0 early return, commit bbdd27a)
   while i > 1:
       result += result
       if e3 & i: v = [result, result + p] else: v = [result - p, result]     (both entries are evaluated)
       result = v[0 if (e & i) else 1]
       i >>= 1 *)
Fixpoint ladder (fuel : nat) (c : curve) (P : pt) (e e3 i : Z) (result : pt) : outcome pt :=
  match fuel with
  | O => OutOfFuel
  | S f =>
    if i <=? 1 then Ret result
    else
      do r2 <- add c result result;
      do r <- (if negb (Z.land e3 i =? 0)
               then do s <- add c r2 P;
                    Ret (if negb (Z.land e i =? 0) then r2 else s)
               else do s <- sub c r2 P;
                    Ret (if negb (Z.land e i =? 0) then s else r2));
      ladder f c P e e3 (Z.shiftr i 1) r
  end.

Definition multiply (c : curve) (P : pt) (e : Z) : outcome pt :=
  let e := if cn c =? 0 then e else e mod cn c in
  match P with
  | None => Ret None
  | Some (x, y) =>
    if e =? 0 then Ret None
    else
      (* p = self.Point(p[0] % self._p, p[1] % self._p) *)
      do P' <- mk_point c (x mod cp c) (y mod cp c);
      let e3 := 3 * e in
      do l <- leftmost_bit e3;
      ladder (Z.to_nat (Z.log2 e3) + 1) c P' e e3 (Z.shiftr l 1) P'
  end.

(* ---- Generator -------------------------------------------------------------------------------
   g_bits = self._bit_count, g_blind = self._blinding_factor (already reduced mod order).
   self._powers[k] = 2^k * G is built in the constructor by repeated `Gp += Gp`; the model recomputes
   the doublings inside raw_loop (same additions, same number of doublings: the constructor also doubles
   once more after the last table entry). *)
Record gen := { gc : curve; gG : pt; g_bits : nat; g_blind : Z }.

(* for bit in range(bit_count): a = [P, P + powers[bit]]; P = a[e & 1]; e >>= 1 *)
Fixpoint raw_loop (k : nat) (c : curve) (P Gp : pt) (e : Z) : outcome pt :=
  match k with
  | O => Ret P
  | S k' =>
    do s <- add c P Gp;
    let P' := if Z.land e 1 =? 0 then P else s in
    do Gp' <- add c Gp Gp;
    raw_loop k' c P' Gp' (Z.shiftr e 1)
  end.

Definition raw_mul (g : gen) (e : Z) : outcome pt :=
  let n := cn (gc g) in
  if n =? 0 then Raise E_OTHER            (* e %= 0 : ZeroDivisionError (unreachable through the constructor) *)
  else raw_loop (g_bits g) (gc g) None (gG g) (e mod n).

(* Generator.__mul__ : raw_mul(e + blinding) + self._minus_blinding_factor_g  (= raw_mul(-blinding),
   computed once in the constructor) *)
Definition gmul (g : gen) (e : Z) : outcome pt :=
  do a <- raw_mul g (e + g_blind g);
  do mb <- raw_mul g (- g_blind g);
  add (gc g) a mb.

(* pow(a, e, m) for e >= 0 (e < 0 is outside the modelled domain: it needs p < -1) *)
Fixpoint pow_mod_pos (a : Z) (e : positive) (m : Z) : Z :=
  match e with
  | xH => a mod m
  | xO e' => let t := pow_mod_pos a e' m in (t * t) mod m
  | xI e' => let t := pow_mod_pos a e' m in ((t * t) mod m * a) mod m
  end.

Definition pow_mod (a e m : Z) : Z :=
  match e with
  | Z0 => 1 mod m
  | Zpos q => pow_mod_pos a q m
  | Zneg _ => 0
  end.

Definition modular_sqrt (g : gen) (a : Z) : Z :=
  let p := cp (gc g) in pow_mod a ((p + 1) / 4) p.

(* Generator.inverse : inverse_mod(a, order) *)
Definition g_inverse (g : gen) (a : Z) : outcome Z := inverse_mod a (cn (gc g)).

Definition points_for_x (g : gen) (x : Z) : outcome (pt * pt) :=
  let c := gc g in
  let p := cp c in
  let alpha := (pow_mod x 3 p + ca c * x + cb c) mod p in
  let y0 := modular_sqrt g alpha in
  if y0 =? 0 then Raise E_VALUE
  else
    do p0 <- mk_point c x y0;
    do p1 <- mk_point c x (p - y0);
    Ret (if Z.land y0 1 =? 0 then (p0, p1) else (p1, p0)).

(* int.bit_length *)
Definition bit_length (n : Z) : nat :=
  if n =? 0 then O else S (Z.to_nat (Z.log2 (Z.abs n))).

(* the table loop of the constructor: bit_count doublings starting from G *)
Fixpoint doublings (k : nat) (c : curve) (Gp : pt) : outcome pt :=
  match k with
  | O => Ret Gp
  | S k' => do Gp' <- add c Gp Gp; doublings k' c Gp'
  end.

(* Generator(p, a, b, (Gx, Gy), order, entropy_f) with int.from_bytes(entropy_f(32), "big") = entropy *)
Definition mk_gen (p a b Gx Gy n entropy : Z) : outcome gen :=
  let c := {| cp := p; ca := a; cb := b; cn := n |} in
  do G <- mk_point c Gx Gy;
  let bits := Nat.max 256 (bit_length n) in
  do _ <- doublings bits c G;
  if negb (p mod 4 =? 3) then Raise E_ASSERT
  else if n =? 0 then Raise E_OTHER          (* entropy % 0 *)
  else
    let g := {| gc := c; gG := G; g_bits := bits; g_blind := entropy mod n |} in
    do _ <- raw_mul g (- g_blind g);
    Ret g.

(* encrypt.generate_shared_public_key(my_private_key, their_public_pair, generator) *)
Definition shared_public_key (g : gen) (priv x y : Z) : outcome pt :=
  do P <- mk_point (gc g) x y; multiply (gc g) P priv.
