(* Model/TxWire.v — transcription of
     pycoin/serialize/streamer.py        Streamer.parse_struct / stream_struct (format-string driven)
     pycoin/satoshi/satoshi_streamer.py  the codec table (REGENERATED into Gen/GenTxConsts.v: streamer_table)
     pycoin/coins/bitcoin/TxIn.py TxOut.py Spendable.py   parse / stream / is_coinbase / text, dict, binary forms
     pycoin/coins/bitcoin/Tx.py          Tx.parse, Tx.stream, hash, w_hash, blanked_hash, stream/parse_unspents,
                                         missing_unspent(s), is_coinbase
     pycoin/coins/Tx.py                  from_bin, from_hex, as_bin, as_hex, id
     pycoin/coins/litecoin/__init__.py   LTCTx.parse
     pycoin/encoding/hexbytes.py         b2h, h2b, b2h_rev, h2b_rev
   compact sizes / length-prefixed strings / f.read discipline come from Base/Varint.v.
   Python ints are Z (struct.pack range errors are modelled), bytes are `list byte`, a stream is the list of
   bytes not yet read.  The format strings and codec kinds are the generated ones, so a changed format or width
   changes this model and breaks the named lemmas of Proofs/TxWireP.v.  No proofs here. *)
From PV Require Import Base.Bytes Base.Outcome Base.Varint Gen.GenTxConsts.
From Coq Require Ascii String.
Notation ascii := Ascii.ascii.
Local Open Scope outcome_scope.

(* ---- data ------------------------------------------------------------------------------------ *)
Record txin := mk_txin {
  ti_hash : bytes; ti_index : Z; ti_script : bytes; ti_sequence : Z; ti_witness : list bytes }.
Record txout := mk_txout { to_value : Z; to_script : bytes }.
Record tx := mk_tx { tx_version : Z; tx_ins : list txin; tx_outs : list txout; tx_lock_time : Z }.
Record spendable := mk_spendable {
  sp_value : Z; sp_script : bytes; sp_tx_hash : bytes; sp_index : Z;
  sp_block_index_available : Z; sp_does_seem_spent : Z; sp_block_index_spent : Z }.

(* ---- hexbytes.py ------------------------------------------------------------------------------ *)
Definition hexdigit (n : N) : byte := if (n <? 10)%N then n2b (48 + n) else n2b (87 + n).
Definition unhex_digit (c : byte) : option N :=
  let v := b2n c in
  if ((48 <=? v) && (v <=? 57))%N then Some (v - 48)%N
  else if ((97 <=? v) && (v <=? 102))%N then Some (v - 87)%N
  else if ((65 <=? v) && (v <=? 70))%N then Some (v - 55)%N
  else None.
(* binascii.hexlify(...).decode(): lower case *)
Fixpoint b2h (b : bytes) : bytes :=
  match b with
  | [] => []
  | x :: r => hexdigit (b2n x / 16) :: hexdigit (b2n x mod 16) :: b2h r
  end.
(* h2b: every failure of unhexlify (odd length, non-hex digit, non-ascii) is re-raised as ValueError.
   A str is represented by its UTF-8 bytes: a non-ascii character gives bytes >= 0x80, not hex digits. *)
Fixpoint h2b (s : bytes) : outcome bytes :=
  match s with
  | [] => Ret []
  | [_] => Raise E_VALUE
  | a :: b :: r =>
    match unhex_digit a, unhex_digit b with
    | Some x, Some y =>
      match h2b r with
      | Ret t => Ret (n2b (16 * x + y) :: t)
      | _ => Raise E_VALUE
      end
    | _, _ => Raise E_VALUE
    end
  end.
Definition b2h_rev (b : bytes) : bytes := b2h (rev b).
Definition h2b_rev (s : bytes) : outcome bytes := do b <- h2b s; Ret (rev b).

(* ---- Streamer ---------------------------------------------------------------------------------- *)
Inductive sval := VInt (z : Z) | VBytes (b : bytes) | VBool (b : bool).

Fixpoint codec_of (t : list (ascii * codec_kind)) (c : ascii) : option codec_kind :=
  match t with
  | [] => None
  | (c', k) :: r => if Ascii.eqb c c' then Some k else codec_of r c
  end.

(* struct.pack("<L"/"<Q"/"!H", v): struct.error when v is out of range *)
Definition put_le (w : nat) (z : Z) : outcome bytes :=
  if (z <? 0)%Z then Raise E_STRUCT else write_le w (Z.to_N z).
Definition put_be (w : nat) (z : Z) : outcome bytes :=
  if (z <? 0)%Z then Raise E_STRUCT else write_be w (Z.to_N z).
(* stream_satoshi_int on a Python int: a negative value reaches struct.pack("<B", v) *)
Definition put_varint (z : Z) : outcome bytes :=
  if (z <? 0)%Z then Raise E_STRUCT else stream_varint (Z.to_N z).

Definition parse_field (k : codec_kind) : parser sval := fun s =>
  match k with
  | KLE w => do '(v, r) <- read_le w s; Ret (VInt (Z.of_N v), r)
  | KBE w => do '(v, r) <- read_be w s; Ret (VInt (Z.of_N v), r)
  | KRAW n => let '(h, r) := read n s in Ret (VBytes h, r)            (* f.read(n): a short read is silent *)
  | KVARINT => do '(v, r) <- parse_varint s; Ret (VInt (Z.of_N v), r)
  | KVARSTR => do '(v, r) <- parse_varstr s; Ret (VBytes v, r)
  | KBOOL => match s with                                             (* struct.unpack("?", f.read(1)) *)
             | [] => Raise E_STRUCT
             | b :: r => Ret (VBool (negb (b2n b =? 0)%N), r)
             end
  end.

Definition int_of_sval (v : sval) : option Z :=
  match v with VInt z => Some z | VBool b => Some (if b then 1 else 0)%Z | VBytes _ => None end.
Definition truth_of_sval (v : sval) : bool :=
  match v with VInt z => negb (z =? 0)%Z | VBool b => b | VBytes b => match b with [] => false | _ => true end end.

(* the value/codec mismatches cannot occur with the generated formats; they are given the exception
   CPython raises (struct.error for a non-integer given to struct.pack, TypeError for len(int), int[:n], bytes < int) *)
Definition stream_field (k : codec_kind) (v : sval) : outcome bytes :=
  match k with
  | KLE w => match int_of_sval v with Some z => put_le w z | None => Raise E_STRUCT end
  | KBE w => match int_of_sval v with Some z => put_be w z | None => Raise E_STRUCT end
  | KRAW n => match v with VBytes b => Ret (firstn n b) | _ => Raise E_TYPE end     (* f.write(v[:n]) *)
  | KVARINT => match int_of_sval v with Some z => put_varint z | None => Raise E_TYPE end
  | KVARSTR => match v with VBytes b => stream_varstr b | _ => Raise E_TYPE end
  | KBOOL => Ret [if truth_of_sval v then x01 else x00]
  end.

(* Streamer.parse_struct for formats without "[": an unregistered character is a KeyError *)
Fixpoint parse_struct (fmt : list ascii) (s : bytes) : outcome (list sval * bytes) :=
  match fmt with
  | [] => Ret ([], s)
  | c :: fmt' =>
    match codec_of streamer_table c with
    | None => Raise E_KEY
    | Some k =>
      do '(v, s1) <- parse_field k s;
      do '(vs, s2) <- parse_struct fmt' s1;
      Ret (v :: vs, s2)
    end
  end.

(* Streamer.stream_struct: `for c, v in zip(fmt, args)` *)
Fixpoint stream_struct (fmt : list ascii) (args : list sval) : outcome bytes :=
  match fmt, args with
  | c :: fmt', v :: args' =>
    match codec_of streamer_table c with
    | None => Raise E_KEY
    | Some k =>
      do a <- stream_field k v;
      do b <- stream_struct fmt' args';
      Ret (a ++ b)
    end
  | _, _ => Ret []
  end.

(* ---- TxIn / TxOut -------------------------------------------------------------------------------- *)
Definition stream_txin (blank_solutions : bool) (i : txin) : outcome bytes :=
  stream_struct txin_stream_fmt
    [VBytes (ti_hash i); VInt (ti_index i); VBytes (if blank_solutions then [] else ti_script i); VInt (ti_sequence i)].

(* cls(STAR parse_struct("#LSL", f)): the witness of a fresh TxIn is [] *)
Definition parse_txin : parser txin := fun s =>
  do '(vals, r) <- parse_struct txin_parse_fmt s;
  match vals with
  | [VBytes h; VInt i; VBytes sc; VInt q] => Ret (mk_txin h i sc q [], r)
  | _ => Raise E_TYPE
  end.

Definition stream_txout (o : txout) : outcome bytes :=
  stream_struct txout_stream_fmt [VInt (to_value o); VBytes (to_script o)].

Definition parse_txout : parser txout := fun s =>
  do '(vals, r) <- parse_struct txout_parse_fmt s;
  match vals with
  | [VInt v; VBytes sc] => Ret (mk_txout v sc, r)
  | _ => Raise E_TYPE
  end.

Definition txin_is_coinbase (i : txin) : bool :=
  bytes_eqb (ti_hash i) txin_zero_hash && (ti_index i =? txin_null_index)%Z.
Definition tx_is_coinbase (t : tx) : bool :=
  match tx_ins t with [i] => txin_is_coinbase i | _ => false end.

(* ---- Tx.stream ------------------------------------------------------------------------------------ *)
Fixpoint stream_all {A} (f : A -> outcome bytes) (l : list A) : outcome bytes :=
  match l with
  | [] => Ret []
  | x :: r => do a <- f x; do b <- stream_all f r; Ret (a ++ b)
  end.

Definition has_witness_data (t : tx) : bool :=
  existsb (fun i => match ti_witness i with [] => false | _ => true end) (tx_ins t).

Definition stream_count (n : nat) : outcome bytes :=
  stream_struct tx_count_fmt [VInt (Z.of_nat n)].
Definition stream_word (z : Z) : outcome bytes :=
  stream_struct tx_word_fmt [VInt z].

Definition stream_witness (i : txin) : outcome bytes :=
  do c <- stream_count (length (ti_witness i));
  do items <- stream_all stream_varstr (ti_witness i);
  Ret (c ++ items).

(* Tx.stream without the unspents extension *)
Definition stream_tx (blank_solutions include_witness_data : bool) (t : tx) : outcome bytes :=
  let include_witnesses := include_witness_data && has_witness_data t in
  do v <- stream_word (tx_version t);
  let m := if include_witnesses then tx_marker_flag else [] in
  do ci <- stream_count (length (tx_ins t));
  do bi <- stream_all (stream_txin blank_solutions) (tx_ins t);
  do co <- stream_count (length (tx_outs t));
  do bo <- stream_all stream_txout (tx_outs t);
  do bw <- (if include_witnesses then stream_all stream_witness (tx_ins t) else Ret []);
  do lt <- stream_word (tx_lock_time t);
  Ret (v ++ m ++ ci ++ bi ++ co ++ bo ++ bw ++ lt).

(* ---- unspents extension --------------------------------------------------------------------------- *)
Definition missing_unspent (t : tx) (unspents : list (option txout)) (idx : nat) : bool :=
  if tx_is_coinbase t then true
  else if (length unspents <=? idx)%nat then true
  else match nth_error unspents idx with Some (Some _) => false | _ => true end.

Definition missing_unspents (t : tx) (unspents : list (option txout)) : bool :=
  if tx_is_coinbase t then false
  else negb (length unspents =? length (tx_ins t))%nat
       || existsb (missing_unspent t unspents) (seq 0 (length (tx_ins t))).

(* stream_unspents: check_unspents, then every entry (None is written as TxOut(0, b"")) *)
Definition stream_unspents (t : tx) (unspents : list (option txout)) : outcome bytes :=
  if missing_unspents t unspents then Raise E_VALUE
  else stream_all (fun u => stream_txout (match u with Some o => o | None => mk_txout 0 [] end)) unspents.

(* Tx.stream / as_bin with all its keyword arguments *)
Definition tx_as_bin (blank_solutions include_unspents include_witness_data : bool)
           (t : tx) (unspents : list (option txout)) : outcome bytes :=
  do b <- stream_tx blank_solutions include_witness_data t;
  if include_unspents && negb (missing_unspents t unspents)
  then do u <- stream_unspents t unspents; Ret (b ++ u)
  else Ret b.

(* ---- Tx.parse --------------------------------------------------------------------------------------- *)
(* `for i in range(count): l.append(p(f))` — count is a 64-bit number, never turned into a nat;
   the fuel (number of bytes + 1) suffices because every element parser consumes at least one byte
   (Proofs/TxWireP.v: parse_count_list_fuel) *)
Fixpoint parse_count_list {A} (p : parser A) (fuel : nat) (count : N) (s : bytes) : outcome (list A * bytes) :=
  if (count =? 0)%N then Ret ([], s) else
  match fuel with
  | O => OutOfFuel
  | S fuel' =>
    do '(x, s1) <- p s;
    do '(xs, s2) <- parse_count_list p fuel' (count - 1)%N s1;
    Ret (x :: xs, s2)
  end.

(* parse_satoshi_int(f, v): the part after the first byte *)
Definition parse_varint_tail (v : N) : parser N := fun r =>
  if (v =? 253)%N then read_le 2 r
  else if (v =? 254)%N then read_le 4 r
  else if (v =? 255)%N then read_le 8 r
  else Ret (v, r).
Definition parse_satoshi_int (v : option N) : parser N := fun s =>
  match v with None => parse_varint s | Some v => parse_varint_tail v s end.

Definition parse_word : parser Z := fun s =>
  do '(vals, r) <- parse_struct tx_word_fmt s;
  match vals with [VInt v] => Ret (v, r) | _ => Raise E_VALUE end.   (* `(version,) = ...` *)

(* for tx_in in txs_in: stack = [parse_satoshi_string(f) for range(parse_satoshi_int(f))]; tx_in.witness = stack *)
Fixpoint parse_witnesses (fuel : nat) (ins : list txin) (s : bytes) : outcome (list txin * bytes) :=
  match ins with
  | [] => Ret ([], s)
  | i :: r =>
    do '(count, s1) <- parse_varint s;
    do '(stack, s2) <- parse_count_list parse_varstr fuel count s1;
    do '(r', s3) <- parse_witnesses fuel r s2;
    Ret (mk_txin (ti_hash i) (ti_index i) (ti_script i) (ti_sequence i) stack :: r', s3)
  end.

Definition parse_tx_body (fuel : nat) (version : Z) (is_segwit : bool) (v1 v2 : option N) (s : bytes)
  : outcome (tx * bytes) :=
  do '(count, s1) <- parse_satoshi_int v1 s;
  do '(ins, s2) <- parse_count_list parse_txin fuel count s1;
  do '(count2, s3) <- parse_satoshi_int v2 s2;
  do '(outs, s4) <- parse_count_list parse_txout fuel count2 s3;
  do '(ins', s5) <- (if is_segwit then parse_witnesses fuel ins s4 else Ret (ins, s4));
  do '(lock_time, s6) <- parse_word s5;
  Ret (mk_tx version ins' outs lock_time, s6).

Definition parse_tx (allow_segwit : bool) (s : bytes) : outcome (tx * bytes) :=
  let fuel := S (length s) in
  do '(version, s1) <- parse_word s;
  match s1 with
  | [] => Raise E_TYPE                                       (* ord(f.read(1)) *)
  | b1 :: s2 =>
    let v1 := b2n b1 in
    if allow_segwit && (v1 =? 0)%N then
      match s2 with
      | [] => Raise E_VALUE                                  (* len(flag) == 0 *)
      | fl :: s3 =>
        if (b2n fl =? 0)%N then Raise E_VALUE
        else if N.odd (b2n fl) then parse_tx_body fuel version true None None s3
        else parse_tx_body fuel version false (Some v1) (Some (b2n fl)) s3
      end
    else parse_tx_body fuel version false (Some v1) None s2
  end.

(* LTCTx.parse: MWEB flag bit 8; a zero marker always makes the input count be read afresh;
   ord(f.read(1)) on an exhausted stream is a TypeError *)
Definition parse_tx_ltc (s : bytes) : outcome (tx * bytes) :=
  let fuel := S (length s) in
  do '(version, s1) <- parse_word s;
  match s1 with
  | [] => Raise E_TYPE
  | b1 :: s2 =>
    let v1 := b2n b1 in
    let body (is_segwit has_mweb : bool) (v1 : option N) (s : bytes) :=
      do '(count, s1) <- parse_satoshi_int v1 s;
      do '(ins, s2) <- parse_count_list parse_txin fuel count s1;
      do '(count2, s3) <- parse_varint s2;
      do '(outs, s4) <- parse_count_list parse_txout fuel count2 s3;
      do '(ins', s5) <- (if is_segwit then parse_witnesses fuel ins s4 else Ret (ins, s4));
      do s5' <- (if has_mweb then match s5 with [] => Raise E_TYPE | _ :: r => Ret r end else Ret s5);
      do '(lock_time, s6) <- parse_word s5';
      Ret (mk_tx version ins' outs lock_time, s6) in
    if (v1 =? 0)%N then
      match s2 with
      | [] => Raise E_TYPE
      | fl :: s3 =>
        if (b2n fl =? 0)%N then Raise E_VALUE
        else body (N.odd (b2n fl)) (N.testbit (b2n fl) 3) None s3
      end
    else body false false (Some v1) s2
  end.

(* parse_unspents: one TxOut per input, value 0 stands for None *)
Fixpoint parse_unspents {A} (ins : list A) (s : bytes) : outcome (list (option txout) * bytes) :=
  match ins with
  | [] => Ret ([], s)
  | _ :: r =>
    do '(o, s1) <- parse_txout s;
    do '(os, s2) <- parse_unspents r s1;
    Ret ((if (to_value o =? 0)%Z then None else Some o) :: os, s2)
  end.

(* Tx.from_bin: parse, then parse_unspents; ANY exception there leaves unspents = [] *)
Definition tx_from_bin (blob : bytes) : outcome (tx * list (option txout)) :=
  do '(t, rest) <- parse_tx true blob;
  match parse_unspents (tx_ins t) rest with
  | Ret (u, _) => Ret (t, u)
  | _ => Ret (t, [])
  end.

Definition tx_as_hex (blank_solutions include_unspents include_witness_data : bool)
           (t : tx) (unspents : list (option txout)) : outcome bytes :=
  do b <- tx_as_bin blank_solutions include_unspents include_witness_data t unspents; Ret (b2h b).
Definition tx_from_hex (h : bytes) : outcome (tx * list (option txout)) :=
  do b <- h2b h; tx_from_bin b.

(* ---- ids ---------------------------------------------------------------------------------------------- *)
Section Hash.
Variable H : bytes -> bytes.     (* double_sha256 (Bitcoin) / sha256 (Groestlcoin Tx) *)

Definition tx_hash_preimage (t : tx) (hash_type : option Z) : outcome bytes :=
  do b <- stream_tx false false t;
  match hash_type with
  | None => Ret b
  | Some h => do x <- stream_word h; Ret (b ++ x)
  end.
Definition tx_hash (t : tx) (hash_type : option Z) : outcome bytes :=
  do b <- tx_hash_preimage t hash_type; Ret (H b).
Definition tx_w_hash (t : tx) : outcome bytes :=
  do b <- stream_tx false true t; Ret (H b).
Definition tx_blanked_hash (t : tx) : outcome bytes :=
  do b <- stream_tx true true t; Ret (H b).
Definition tx_id (t : tx) : outcome bytes := do h <- tx_hash t None; Ret (b2h_rev h).
Definition tx_w_id (t : tx) : outcome bytes := do h <- tx_w_hash t; Ret (b2h_rev h).
End Hash.

(* ---- Spendable ------------------------------------------------------------------------------------------ *)
Definition stream_spendable (as_spendable : bool) (sp : spendable) : outcome bytes :=
  do a <- stream_txout (mk_txout (sp_value sp) (sp_script sp));
  if as_spendable then
    do b <- stream_struct spendable_stream_fmt
              [VBytes (sp_tx_hash sp); VInt (sp_index sp); VInt (sp_block_index_available sp);
               VBool (negb (sp_does_seem_spent sp =? 0)%Z); VInt (sp_block_index_spent sp)];
    Ret (a ++ b)
  else Ret a.

(* cls(STAR parse_struct("QS#LIbI", f)); __init__ stores int(does_seem_spent) *)
Definition parse_spendable : parser spendable := fun s =>
  do '(vals, r) <- parse_struct spendable_parse_fmt s;
  match vals with
  | [VInt v; VBytes sc; VBytes h; VInt i; VInt bia; VBool d; VInt bis] =>
    Ret (mk_spendable v sc h i bia (if d then 1 else 0)%Z bis, r)
  | _ => Raise E_TYPE
  end.
Definition spendable_from_bin (blob : bytes) : outcome spendable :=
  do '(sp, _) <- parse_spendable blob; Ret sp.

(* as_dict / from_dict: the dictionary as the tuple of its values; the three optional keys as option *)
Record spendable_dict := mk_sdict {
  sd_coin_value : Z; sd_script_hex : bytes; sd_tx_hash_hex : bytes; sd_tx_out_index : Z;
  sd_block_index_available : option Z; sd_does_seem_spent : option Z; sd_block_index_spent : option Z }.
Definition spendable_as_dict (sp : spendable) : spendable_dict :=
  mk_sdict (sp_value sp) (b2h (sp_script sp)) (b2h_rev (sp_tx_hash sp)) (sp_index sp)
           (Some (sp_block_index_available sp)) (Some (sp_does_seem_spent sp)) (Some (sp_block_index_spent sp)).
Definition dflt (o : option Z) : Z := match o with Some z => z | None => 0%Z end.
Definition spendable_from_dict (d : spendable_dict) : outcome spendable :=
  do sc <- h2b (sd_script_hex d);
  do h <- h2b_rev (sd_tx_hash_hex d);
  Ret (mk_spendable (sd_coin_value d) sc h (sd_tx_out_index d)
         (dflt (sd_block_index_available d)) (dflt (sd_does_seem_spent d)) (dflt (sd_block_index_spent d))).

(* as_text / from_text at FIELD level: the "/"-separated parts, where a decimal field is the integer it
   denotes (str(int) and int(str) are not modelled) and a hex field is its characters *)
Inductive tfield := FHex (h : bytes) | FInt (z : Z).
Definition spendable_as_text_fields (sp : spendable) : list tfield :=
  [FHex (b2h_rev (sp_tx_hash sp)); FInt (sp_index sp); FHex (b2h (sp_script sp)); FInt (sp_value sp);
   FInt (sp_block_index_available sp); FInt (sp_does_seem_spent sp); FInt (sp_block_index_spent sp)].
(* parts = (text.split("/") + ["0","0","0"])[:7]; unpacking fewer than 7 parts is a ValueError *)
Definition spendable_from_text_fields (parts : list tfield) : outcome spendable :=
  match firstn 7 (parts ++ [FInt 0; FInt 0; FInt 0]) with
  | [FHex hh; FInt i; FHex sh; FInt v; FInt bia; FInt d; FInt bis] =>
    do h <- h2b_rev hh;
    do sc <- h2b sh;
    Ret (mk_spendable v sc h i bia (if (d =? 0)%Z then 0 else 1)%Z bis)     (* int(bool(int(does_seem_spent))) *)
  | _ => Raise E_VALUE
  end.
