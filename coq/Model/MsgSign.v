(* Model/MsgSign.v — pycoin/contrib/msg_signing.py (MessageSigner) and the part of
   pycoin/ecdsa/Generator.py it calls (sign_with_recid, inverse, points_for_x through its interface).
   Transcription of the CURRENT /repo code, function by function; no proofs here.

   The elliptic-curve group is abstract: a type `pt` with the operations the Python uses.
     coords P = None            <->  P is the point at infinity  (Python: P[0] is None)
     smul e P                   =    e * P   (Point.__rmul__ -> Curve.multiply, Generator.__mul__; both reduce e mod n)
     padd P Q                   =    P + Q   (Curve.add)
     points_for_x x             =    Generator.points_for_x(x): Some (even-y point, odd-y point), None when it
                                     raises ValueError / NoSuchPointError (no curve point with that abscissa)
     inv_n a                    =    Generator.inverse(a) for a not divisible by n (n prime)
     gen_k n d z                =    the nonce function (rfc6979.deterministic_generate_k by default)
   Hashes are Section variables (oracles in the extracted run).
   Python `str` values are represented by their UTF-8 encoding. *)
From PV Require Import Base.Bytes Base.Outcome Base.Varint Model.Base64.
Local Open Scope Z_scope.
Local Open Scope outcome_scope.

(* encoding/bytes32.py *)
Definition to_bytes_32 (v : Z) : outcome bytes :=      (* int.to_bytes(32,"big"): OverflowError outside [0,2^256) *)
  if (0 <=? v) && (v <? 2 ^ 256) then Ret (be_encode 32 (Z.to_N v)) else Raise E_OVERFLOW.
Definition from_bytes_32 (b : bytes) : Z := Z.of_N (be_decode b).

(* the kind of a parsed address: Contract.info()["type"] *)
Inductive addr_kind :=
| AK_p2pkh                    (* "p2pkh" *)
| AK_p2pkh_wit                (* "p2pkh_wit" *)
| AK_other.                   (* anything else: "p2sh", "p2sh_wit", "p2tr", ..., or no "type" entry at all *)
(* key.info().get("type") in ("p2pkh", "p2pkh_wit") *)
Definition refers_to_key (k : addr_kind) : bool :=
  match k with AK_p2pkh | AK_p2pkh_wit => true | AK_other => false end.

(* what verify_message is given as `key_or_address` *)
Inductive keyref :=
| KPair (x y : Z)             (* a non-str object with public_pair() = (x, y) *)
| KHash (h : option bytes)    (* a non-str object without public_pair: hash160() = h *)
| KAddr (k : addr_kind) (h : option bytes)
                              (* a str that network.parse.address maps to a Contract of kind k with hash160() = h
                                 (None for p2wsh, p2tr) *)
| KUnparseable.               (* a str that network.parse.address maps to None *)

Section MsgSign.
  Variable pt : Type.
  Variable padd : pt -> pt -> pt.
  Variable smul : Z -> pt -> pt.
  Variable G : pt.
  Variable n p : Z.
  Variable coords : pt -> option (Z * Z).
  Variable points_for_x : Z -> option (pt * pt).
  Variable inv_n : Z -> Z.
  Variable gen_k : Z -> Z -> Z -> Z.
  Variable dsha256 : bytes -> bytes.
  Variable hash160 : bytes -> bytes.

  (* Generator.inverse -> Curve.inverse_mod(a, n): `assert d == 1` fails exactly when n | a (n prime) *)
  Definition inverse (a : Z) : outcome Z :=
    if a mod n =? 0 then Raise E_ASSERT else Ret (inv_n a).

  (* Generator.sign_with_recid: the `while True` loop, k += 1 (wrapping from n back to 1) until r and s are non-zero *)
  Fixpoint sign_loop (fuel : nat) (k d z : Z) : outcome (Z * Z * Z) :=
    match fuel with
    | O => OutOfFuel
    | S f =>
      match coords (smul k G) with
      | None => Raise E_TYPE                               (* p1[0] % n with p1[0] = None *)
      | Some (x, y) =>
        let r := x mod n in
        do ik <- inverse k;
        let s := (ik * (z + (d * r) mod n)) mod n in
        if negb (r =? 0) && negb (s =? 0)
        then Ret (r, s, Z.land y 1 + (if n <? x then 2 else 0))
        else sign_loop f (if n <=? k + 1 then 1 else k + 1) d z      (* k += 1; if k >= n: k = 1 *)
      end
    end.

  Definition sign_with_recid (fuel : nat) (d z : Z) : outcome (Z * Z * Z) :=
    if z =? 0 then Raise E_VALUE else sign_loop fuel (gen_k n d z) d z.

  (* MessageSigner.msg_magic_for_netcode: "%s Signed Message:\n" % network_name *)
  Definition magic_suffix : bytes :=
    [x20; x53; x69; x67; x6e; x65; x64; x20; x4d; x65; x73; x73; x61; x67; x65; x3a; x0a].
  Definition msg_magic (network_name : bytes) : bytes := network_name ++ magic_suffix.

  (* MessageSigner.hash_for_signing *)
  Definition hash_for_signing (magic msg : bytes) : outcome Z :=
    do a <- stream_varstr magic;
    do b <- stream_varstr msg;
    Ret (from_bytes_32 (dsha256 (a ++ b))).

  (* MessageSigner.signature_for_message_hash *)
  Definition signature_for_message_hash (fuel : nat) (d z : Z) (is_compressed : bool) : outcome bytes :=
    do '(r, s, recid) <- sign_with_recid fuel d z;
    let first := 27 + recid + (if is_compressed then 4 else 0) in
    do rb <- to_bytes_32 r;
    do sb <- to_bytes_32 s;
    Ret (bstrip (b2a_base64 (z2b first :: rb ++ sb))).

  (* MessageSigner.sign_message with verbose=False (the armoured form is in Model/MsgArmour.v) *)
  Definition sign_message (fuel : nat) (magic : bytes) (d : Z) (is_compressed : bool) (msg : bytes) : outcome bytes :=
    if d =? 0 then Raise E_VALUE else
    do z <- hash_for_signing magic msg;
    signature_for_message_hash fuel d z is_compressed.

  (* MessageSigner._decode_signature : (is_compressed, recid, r, s) *)
  Definition decode_signature (text : bytes) : outcome (bool * Z * Z * Z) :=
    match a2b_base64 text with
    | Raise E_VALUE => Raise E_ENCODING                     (* except (ValueError, TypeError) *)
    | Raise e => Raise e
    | OutOfFuel => OutOfFuel
    | Ret sig =>
      if negb (length sig =? 65)%nat then Raise E_ENCODING else
      let first := b2z (nth 0 sig x00) in
      let r := from_bytes_32 (slice 1 33 sig) in
      let s := from_bytes_32 (slice 33 65 sig) in
      if negb ((27 <=? first) && (first <? 35)) then Raise E_ENCODING else
      let f := first - 27 in
      Ret (negb (Z.land f 4 =? 0), Z.land f 3, r, s)
    end.

  (* MessageSigner.pair_for_message_hash *)
  Definition pair_for_message_hash (text : bytes) (z : Z) : outcome (pt * bool) :=
    do '(is_compressed, recid, r, s) <- decode_signature text;
    if negb ((1 <=? r) && (r <? n) && (1 <=? s) && (s <? n)) then Raise E_ENCODING else
    let x := if 1 <? recid then r + n else r in
    if p <=? x then Raise E_ENCODING else
    match points_for_x x with
    | None => Raise E_ENCODING                              (* except ValueError *)
    | Some (p0, p1) =>
      let nonce_point := if Z.land recid 1 =? 0 then p0 else p1 in
      do inv_r <- inverse r;
      let q := padd (smul (s * inv_r) nonce_point) (smul (- (inv_r * z)) G) in
      match coords q with
      | None => Raise E_ENCODING                            (* q[0] is None *)
      | Some _ => Ret (q, is_compressed)
      end
    end.

  (* encoding/sec.py public_pair_to_sec *)
  Definition public_pair_to_sec (x y : Z) (compressed : bool) : outcome bytes :=
    do xs <- to_bytes_32 x;
    if compressed then Ret (z2b (2 + Z.land y 1) :: xs)
    else do ys <- to_bytes_32 y; Ret (x04 :: xs ++ ys).

  Definition opt_bytes_eqb (a : option bytes) (b : bytes) : bool :=
    match a with Some a' => bytes_eqb a' b | None => false end.

  (* MessageSigner.pair_matches_key *)
  Definition pair_matches_key (q : pt) (key : keyref) (is_compressed : bool) : outcome bool :=
    match key with
    | KPair x y =>
      Ret (match coords q with Some (qx, qy) => (x =? qx) && (y =? qy) | None => false end)
    | KHash h | KAddr _ h =>                                (* a Contract has no public_pair attribute *)
      match coords q with
      | None => Raise E_ATTR                                (* None.to_bytes; unreachable from verify_message *)
      | Some (qx, qy) =>
        do sec <- public_pair_to_sec qx qy is_compressed;
        Ret (opt_bytes_eqb h (hash160 sec))
      end
    | KUnparseable => Raise E_ATTR                          (* None.hash160(); unreachable from verify_message *)
    end.

  (* MessageSigner.verify_message(key_or_address, signature, message=None, msg_hash=None) *)
  Definition verify_message (key : keyref) (text magic : bytes) (message : option bytes) (msg_hash : option Z)
    : outcome bool :=
    let refused :=                                          (* the two early `return False` of the str branch *)
      match key with
      | KUnparseable => true                                (* key is None *)
      | KAddr k _ => negb (refers_to_key k)                 (* only an address that refers to a key can have signed *)
      | _ => false
      end in
    if refused then Ret false else
      let attempt :=
        do z <- match message with
                | Some m => hash_for_signing magic m
                | None => Ret (match msg_hash with Some h => h | None => 0 end)
                end;
        pair_for_message_hash text z in
      match attempt with
      | Raise E_ENCODING => Ret false                       (* except EncodingError *)
      | Raise e => Raise e
      | OutOfFuel => OutOfFuel
      | Ret (q, is_compressed) => pair_matches_key q key is_compressed
      end.
End MsgSign.
